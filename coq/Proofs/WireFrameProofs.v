(* C15, second part: events received in a frame (InsertFrameEvent after fix 5bf08c3) can be served in
   wire form again; the text validation makes the frame digest total. *)
From Coq Require Import ZArith List Bool String Ascii Lia Permutation.
From V Require Import Model.ZMap Model.Wire Proofs.WireSort Proofs.WireJson Proofs.WireProofs.
Import ListNotations.
Open Scope Z_scope.

(* ------------------------------------------------------------------------------------------ *)
(* one frame event: the node D that received it (store ds) names it to a reader (store rs) *)

(* peer ids are a function of the key: the two repertoires agree where D's is defined *)
Definition rep_agree (ds rs : wstore) : Prop :=
  forall k id, id_of_key k (ws_rep ds) = Some id -> id_of_key k (ws_rep rs) = Some id.
(* what D records about an event (creator, index) is what the reader has *)
Definition truthful (ds rs : wstore) : Prop :=
  forall h k i, ev_find h (ws_ev ds) = Some (k, i) -> ev_find h (ws_ev rs) = Some (k, i).

Theorem frame_event_rewire : forall ds rs cid e sp op k e1,
  store_ok rs -> rep_agree ds rs -> truthful ds rs ->
  b_parents (e_body e) = Some [sp; op] ->
  b_creator (e_body e) = Some k ->
  id_of_key k (ws_rep ds) = Some cid ->
  (sp <> [] -> ev_find sp (ws_ev rs) = Some (k, b_index (e_body e) - 1)) ->
  (forall l b, b_bsigs (e_body e) = Some l -> In b l -> bs_validator b = Some k) ->
  frame_other_parent_named ds op = true ->
  e_body e1 = frame_event_wire_info ds cid e -> e_sig e1 = e_sig e ->
  exists e2, read_wire rs (to_wire e1) = inr e2 /\ same_public e2 e /\ same_wire_info e2 e1.
Proof.
  intros ds rs cid e sp op k e1 Hok Hrep Htr Hpar Hcr Hcid Hsp Hbs Hnamed Hb1 Hs1.
  unfold frame_event_wire_info in Hb1. cbv zeta in Hb1. rewrite Hpar in Hb1.
  unfold read_wire, to_wire. cbv zeta. rewrite Hb1, Hs1.
  cbn [with_wire b_txs b_itxs b_bsigs b_cid b_opcid b_index b_spi b_opi b_ts
       w_cid w_spi w_opcid w_opi w_txs w_itxs w_bsigs w_index w_ts w_sig].
  rewrite (so_rep rs Hok _ _ (Hrep _ _ Hcid)).
  (* self-parent *)
  assert (read_self_parent rs cid (if zlist_eqb sp [] then -1 else b_index (e_body e) - 1) = Some sp) as ->.
  { unfold read_self_parent. destruct (zlist_eqb sp []) eqn:Esp.
    - apply zlist_eqb_eq in Esp. subst. reflexivity.
    - apply zlist_eqb_neq in Esp. specialize (Hsp Esp).
      destruct (so_ev rs Hok _ _ _ Hsp) as [Hi Hpe].
      assert (0 <=? b_index (e_body e) - 1 = true) as -> by lia.
      apply Hpe. apply Hrep. exact Hcid. }
  (* other-parent *)
  assert (read_other_parent rs (fst (frame_other_parent ds op)) (snd (frame_other_parent ds op)) = Some (inr op)) as ->.
  { unfold frame_other_parent_named in Hnamed. unfold frame_other_parent, read_other_parent.
    destruct (zlist_eqb op []) eqn:Eop.
    - apply zlist_eqb_eq in Eop. subst. reflexivity.
    - destruct (ev_find op (ws_ev ds)) as [[k2 i2]|] eqn:Hev; [|discriminate].
      destruct (id_of_key k2 (ws_rep ds)) as [oid|] eqn:Hoid; [|discriminate].
      cbn [fst snd]. pose proof (Htr _ _ _ Hev) as Hrs.
      destruct (so_ev rs Hok _ _ _ Hrs) as [Hi Hpe].
      assert (0 <=? i2 = true) as -> by lia.
      rewrite (so_rep rs Hok _ _ (Hrep _ _ Hoid)). rewrite (Hpe _ (Hrep _ _ Hoid)). reflexivity. }
  eexists. split; [reflexivity|]. split.
  - unfold same_public, mk_event. cbn [e_body e_sig b_txs b_itxs b_parents b_creator b_index b_bsigs b_ts].
    rewrite (unwire_wire_bsigs k (b_bsigs (e_body e)) Hbs). rewrite Hpar, Hcr. repeat split.
  - unfold same_wire_info, mk_event. rewrite Hb1. cbn. repeat split.
Qed.

(* the residual: an other-parent that D does not have is left out of the wire form, and the
   reader builds an event WITHOUT it (another hash) *)
Theorem frame_event_rewire_residual : forall ds rs cid e sp op k e1,
  store_ok rs -> rep_agree ds rs ->
  b_parents (e_body e) = Some [sp; op] ->
  b_creator (e_body e) = Some k ->
  id_of_key k (ws_rep ds) = Some cid ->
  (sp <> [] -> ev_find sp (ws_ev rs) = Some (k, b_index (e_body e) - 1)) ->
  frame_other_parent_named ds op = false ->
  e_body e1 = frame_event_wire_info ds cid e ->
  op <> [] /\ exists e2, read_wire rs (to_wire e1) = inr e2 /\ b_parents (e_body e2) = Some [sp; []].
Proof.
  intros ds rs cid e sp op k e1 Hok Hrep Hpar Hcr Hcid Hsp Hnamed Hb1.
  assert (op <> [] /\ frame_other_parent ds op = (0, -1)) as [Hop Hfo].
  { unfold frame_other_parent_named in Hnamed. unfold frame_other_parent.
    destruct (zlist_eqb op []) eqn:Eop; [discriminate|]. split; [apply zlist_eqb_neq; exact Eop|].
    destruct (ev_find op (ws_ev ds)) as [[k2 i2]|]; [|reflexivity].
    destruct (id_of_key k2 (ws_rep ds)); [discriminate | reflexivity]. }
  split; [exact Hop|].
  unfold frame_event_wire_info in Hb1. cbv zeta in Hb1. rewrite Hpar, Hfo in Hb1.
  unfold read_wire, to_wire. cbv zeta. rewrite Hb1.
  cbn [with_wire fst snd b_txs b_itxs b_bsigs b_cid b_opcid b_index b_spi b_opi b_ts
       w_cid w_spi w_opcid w_opi w_txs w_itxs w_bsigs w_index w_ts w_sig].
  rewrite (so_rep rs Hok _ _ (Hrep _ _ Hcid)).
  assert (read_self_parent rs cid (if zlist_eqb sp [] then -1 else b_index (e_body e) - 1) = Some sp) as ->.
  { unfold read_self_parent. destruct (zlist_eqb sp []) eqn:Esp.
    - apply zlist_eqb_eq in Esp. subst. reflexivity.
    - apply zlist_eqb_neq in Esp. specialize (Hsp Esp).
      destruct (so_ev rs Hok _ _ _ Hsp) as [Hi Hpe].
      assert (0 <=? b_index (e_body e) - 1 = true) as -> by lia.
      apply Hpe. apply Hrep. exact Hcid. }
  unfold read_other_parent. cbn. eexists. split; reflexivity.
Qed.

(* ------------------------------------------------------------------------------------------ *)
(* the whole frame, in insertion order *)

(* topological indexes are consecutive from the counter: the order in which the node later serves
   the events (sort by topological index) is the insertion order *)
Lemma insert_frame_events_topo : forall l st n st' n' out,
  insert_frame_events st n l = Some (st', n', out) ->
  n' = n + Z.of_nat (List.length l) /\ map (fun r => e_topo (fst r)) out = zseq n (List.length l).
Proof.
  induction l as [|[h [fe e]] l IH]; intros st n st' n' out H; cbn [insert_frame_events] in H.
  - inversion H; subst. cbn. split; [lia | reflexivity].
  - unfold insert_frame_event in H.
    destruct (id_of_key (key_bytes (b_creator (e_body e))) (ws_rep st)) as [cid|]; [|discriminate].
    match type of H with context [insert_frame_events ?s ?m l] => destruct (insert_frame_events s m l) as [[[st2 n2] out2]|] eqn:Hr end; [|discriminate].
    inversion H; subst. destruct (IH _ _ _ _ _ Hr) as [Hn Hm].
    cbn [List.length map fst zseq set_private e_topo]. split; [lia|]. rewrite Hm. reflexivity.
Qed.

Lemma zseq_nth : forall len n i, (i < len)%nat -> nth_error (zseq n len) i = Some (n + Z.of_nat i).
Proof.
  induction len as [|len IH]; intros n i Hi; [lia|].
  destruct i as [|i]; cbn [zseq nth_error].
  - f_equal. lia.
  - rewrite IH by lia. f_equal. lia.
Qed.

Theorem frame_events_topological : forall l st n st' n' out i j a b,
  insert_frame_events st n l = Some (st', n', out) ->
  nth_error out i = Some a -> nth_error out j = Some b -> (i < j)%nat ->
  e_topo (fst a) < e_topo (fst b).
Proof.
  intros l st n st' n' out i j a b H Ha Hb Hij.
  destruct (insert_frame_events_topo _ _ _ _ _ _ H) as [_ Hm].
  assert (List.length out = List.length l) as Hlen.
  { rewrite <- (map_length (fun r => e_topo (fst r)) out), Hm. clear. revert n. induction (List.length l); intros; cbn; [reflexivity|]. rewrite IHn. reflexivity. }
  assert (forall k x, nth_error out k = Some x -> e_topo (fst x) = n + Z.of_nat k) as Hk.
  { intros k x Hx. pose proof (map_nth_error (fun r => e_topo (fst r)) k out Hx) as Hmx.
    rewrite Hm in Hmx. rewrite zseq_nth in Hmx.
    - inversion Hmx. reflexivity.
    - rewrite <- Hlen. apply nth_error_Some. rewrite Hx. discriminate. }
  rewrite (Hk _ _ Ha), (Hk _ _ Hb). lia.
Qed.

(* what the reader knows about one frame event: its parents (self-parent by the same creator at
   index - 1: the admission invariant), its own block signatures, and the event itself *)
Definition reader_knows (rs : wstore) (x : gostr * (fevent * event)) : Prop :=
  let e := snd (snd x) in
  exists sp op k,
    b_parents (e_body e) = Some [sp; op] /\ b_creator (e_body e) = Some k /\
    (sp <> [] -> ev_find sp (ws_ev rs) = Some (k, b_index (e_body e) - 1)) /\
    (forall l b, b_bsigs (e_body e) = Some l -> In b l -> bs_validator b = Some k) /\
    ev_find (fst x) (ws_ev rs) = Some (k, b_index (e_body e)).

Lemma truthful_add : forall ds rs h cid e k,
  truthful ds rs -> b_creator (e_body e) = Some k -> ev_find h (ws_ev rs) = Some (k, b_index (e_body e)) ->
  truthful (store_add ds h cid e) rs.
Proof.
  intros ds rs h cid e k Htr Hcr Hh h' k' i' H. unfold store_add in H. cbn [ws_ev ev_find] in H.
  destruct (zlist_eqb h h') eqn:E.
  - apply zlist_eqb_eq in E. subst h'. inversion H; subst. rewrite Hcr. cbn [key_bytes]. exact Hh.
  - apply Htr. exact H.
Qed.

Theorem frame_rewire_all : forall rs l ds n ds' n' out,
  store_ok rs -> rep_agree ds rs -> truthful ds rs ->
  Forall (reader_knows rs) l ->
  insert_frame_events ds n l = Some (ds', n', out) ->
  Forall2 (fun x r => snd r = true ->
                      exists e2, read_wire rs (to_wire (fst r)) = inr e2 /\
                                 same_public e2 (snd (snd x)) /\ same_wire_info e2 (fst r)) l out.
Proof.
  intros rs l. induction l as [|[h [fe e]] l IH]; intros ds n ds' n' out Hok Hrep Htr Hall H; cbn [insert_frame_events] in H.
  - inversion H; subst. constructor.
  - inversion Hall as [|? ? Hx Hrest]; subst.
    unfold insert_frame_event in H.
    destruct (id_of_key (key_bytes (b_creator (e_body e))) (ws_rep ds)) as [cid|] eqn:Hcid; [|discriminate].
    match type of H with context [insert_frame_events ?s ?m l] => destruct (insert_frame_events s m l) as [[[st2 n2] out2]|] eqn:Hr end; [|discriminate].
    inversion H; subst; clear H.
    destruct Hx as (sp & op & k & Hpar & Hcr & Hsp & Hbs & Hself). cbn [fst snd] in *.
    rewrite Hcr in Hcid. cbn [key_bytes] in Hcid.
    constructor.
    + cbn [fst snd]. intro Hnamed.
      unfold other_parent_of in Hnamed. rewrite Hpar in Hnamed.
      eapply (frame_event_rewire ds rs cid e sp op k); try eassumption; reflexivity.
    + refine (IH _ _ _ _ _ Hok _ _ Hrest Hr).
      * intros k0 id0 Hk0. apply Hrep. exact Hk0.
      * match goal with |- truthful (store_add ds h cid ?e1) rs => apply (truthful_add ds rs h cid e1 k Htr) end.
        -- unfold set_private, frame_event_wire_info. cbv zeta. cbn [e_body].
           destruct (b_parents (e_body e)) as [[|? [|? [|? ?]]]|]; cbn [with_wire b_creator]; exact Hcr.
        -- unfold set_private, frame_event_wire_info. cbv zeta. cbn [e_body].
           destruct (b_parents (e_body e)) as [[|? [|? [|? ?]]]|]; cbn [with_wire b_index]; exact Hself.
Qed.

(* ------------------------------------------------------------------------------------------ *)
(* text validation *)

Lemma encodable_valid : forall s, encodable s = true -> valid_str s = true.
Proof. intros s H. unfold encodable in H. apply andb_true_iff in H. apply H. Qed.
Lemma encodable_nofffd : forall s, encodable s = true -> str_has_fffd s = false.
Proof. intros s H. unfold encodable in H. apply andb_true_iff in H. destruct H as [_ H]. apply negb_true_iff in H. exact H. Qed.

(* a signature string that DecodeSignature accepts only has characters of 0-9 a-z A-Z + - | *)
Definition sig_char (c : Z) : bool := b36_digit c || (c =? 43) || (c =? 45) || (c =? 124).

Lemma sig_chars_encodable : forall s, forallb sig_char s = true -> encodable s = true.
Proof.
  induction s as [|c s IH]; intros H; [reflexivity|].
  cbn [forallb] in H. apply andb_true_iff in H. destruct H as [Hc Hs].
  specialize (IH Hs). unfold encodable in *. cbn [valid_str forallb str_has_fffd existsb].
  apply andb_true_iff in IH. destruct IH as [Hv Hn]. apply negb_true_iff in Hn.
  unfold valid_str, str_has_fffd in *. rewrite Hv, Hn.
  unfold sig_char, b36_digit, UFFFD in *.
  assert (0 <=? c = true) as -> by lia. assert (c =? 65533 = false) as -> by lia. reflexivity.
Qed.

Lemma digits_sig_chars : forall s, forallb b36_digit s = true -> forallb sig_char s = true.
Proof.
  induction s as [|c s IH]; intros H; [reflexivity|]. cbn [forallb] in *.
  apply andb_true_iff in H. destruct H as [Hc Hs]. rewrite (IH Hs). unfold sig_char. rewrite Hc. reflexivity.
Qed.

Lemma nonempty_digits_chars : forall s, nonempty_digits s = true -> forallb sig_char s = true.
Proof. intros [|c s] H; [discriminate|]. apply digits_sig_chars. exact H. Qed.

Lemma b36_int_chars : forall s, b36_int s = true -> forallb sig_char s = true.
Proof.
  intros [|c r] H; [discriminate|]. cbn [b36_int] in H.
  destruct ((c =? 43) || (c =? 45)) eqn:E.
  - cbn [forallb]. rewrite (nonempty_digits_chars _ H). unfold sig_char.
    apply orb_true_iff in E. destruct E as [E|E]; rewrite E; rewrite ?orb_true_r; reflexivity.
  - apply nonempty_digits_chars. exact H.
Qed.

Lemma split_bar_chars : forall s, forallb (forallb sig_char) (split_bar s) = true -> forallb sig_char s = true.
Proof.
  induction s as [|c r IH]; intros H; [reflexivity|]. cbn [split_bar] in H.
  destruct (c =? 124) eqn:E.
  - cbn [forallb] in *. rewrite (IH H). unfold sig_char. rewrite E, !orb_true_r. reflexivity.
  - destruct (split_bar r) as [|x t] eqn:Es.
    + cbn [forallb] in *. apply andb_true_iff in H. destruct H as [H _]. apply andb_true_iff in H. destruct H as [Hc _].
      rewrite Hc. rewrite IH by reflexivity. reflexivity.
    + cbn [forallb] in *. apply andb_true_iff in H. destruct H as [H Ht]. apply andb_true_iff in H. destruct H as [Hc Hx].
      rewrite Hc. rewrite IH; [reflexivity|]. rewrite Hx, Ht. reflexivity.
Qed.

Theorem sig_decodes_encodable : forall s, sig_decodes s = true -> encodable s = true.
Proof.
  intros s H. apply sig_chars_encodable. apply split_bar_chars. unfold sig_decodes in H.
  destruct (split_bar s) as [|a [|b [|c t]]]; try discriminate.
  apply andb_true_iff in H. destruct H as [Ha Hb]. cbn [forallb].
  rewrite (b36_int_chars _ Ha), (b36_int_chars _ Hb). reflexivity.
Qed.

(* no document built from encodable strings contains U+FFFD *)
Lemma existsb_false : forall {A} (f : A -> bool) l, (forall a, In a l -> f a = false) -> existsb f l = false.
Proof.
  intros A f l H. induction l as [|a l IH]; [reflexivity|]. cbn [existsb].
  rewrite (H a (or_introl eq_refl)). apply IH. intros b Hb. apply H. right. exact Hb.
Qed.

Lemma forallb_in : forall {A} (f : A -> bool) l a, forallb f l = true -> In a l -> f a = true.
Proof. intros A f l a H Hin. rewrite forallb_forall in H. apply H. exact Hin. Qed.

Lemma nf_list : forall {A} (g : A -> json) (ok : A -> bool) (l : option (list A)),
  (forall a, ok a = true -> jhas_fffd (g a) = false) -> list_forall ok l = true ->
  jhas_fffd (j_list g l) = false.
Proof.
  intros A g ok [l|] H Hl; [|reflexivity]. cbn [j_list jhas_fffd]. cbn [list_forall] in Hl.
  apply existsb_false. intros j Hj. apply in_map_iff in Hj. destruct Hj as (a & <- & Ha).
  apply H. eapply forallb_in; eassumption.
Qed.

Lemma nf_ptr : forall {A} (g : A -> json) (ok : A -> bool) (o : option A),
  (forall a, ok a = true -> jhas_fffd (g a) = false) -> opt_forall ok o = true ->
  jhas_fffd (j_ptr g o) = false.
Proof. intros A g ok [a|] H Ho; [|reflexivity]. cbn [j_ptr]. apply H. exact Ho. Qed.

Lemma nf_str : forall s, encodable s = true -> jhas_fffd (j_str raw s) = false.
Proof. intros s H. cbn. apply encodable_nofffd. exact H. Qed.

Lemma nf_bytes : forall b, jhas_fffd (j_bytes b) = false.
Proof. intros [b|]; reflexivity. Qed.

Lemma nf_txs : forall l, jhas_fffd (j_list j_bytes l) = false.
Proof.
  intros [l|]; [|reflexivity]. cbn [j_list jhas_fffd]. apply existsb_false.
  intros j Hj. apply in_map_iff in Hj. destruct Hj as (a & <- & _). apply nf_bytes.
Qed.

Ltac split_and := repeat match goal with H : _ && _ = true |- _ => apply andb_true_iff in H; destruct H end.

Lemma nf_peer : forall p, peer_text_ok p = true -> jhas_fffd (j_peer raw p) = false.
Proof.
  intros p H. unfold peer_text_ok in H. split_and. cbn [j_peer jhas_fffd existsb snd j_str raw].
  rewrite !encodable_nofffd by assumption. reflexivity.
Qed.

Lemma nf_itx : forall t, itx_frame_text_ok t = true -> jhas_fffd (j_itx raw t) = false.
Proof.
  intros t H. unfold itx_frame_text_ok in H. split_and.
  match goal with Hp : peer_text_ok _ = true |- _ => pose proof (nf_peer _ Hp) as Hnp end. cbn [j_peer] in Hnp.
  cbn [j_itx j_itxbody j_peer jhas_fffd existsb snd j_str raw] in *. rewrite Hnp.
  rewrite encodable_nofffd by assumption. reflexivity.
Qed.

Lemma nf_bsig : forall b, encodable (bs_sig b) = true -> jhas_fffd (j_bsig raw b) = false.
Proof.
  intros b H. cbn [j_bsig jhas_fffd existsb snd j_str raw]. rewrite nf_bytes, encodable_nofffd by assumption. reflexivity.
Qed.

Lemma nf_event : forall e, event_frame_text_ok e = true -> jhas_fffd (j_event raw e) = false.
Proof.
  intros e H. unfold event_frame_text_ok in H. split_and.
  cbn [j_event j_body jhas_fffd existsb snd j_str raw].
  rewrite nf_txs.
  rewrite (nf_list (j_itx raw) itx_frame_text_ok _ nf_itx) by assumption.
  rewrite (nf_list (j_str raw) encodable _ nf_str) by assumption.
  rewrite nf_bytes.
  rewrite (nf_list (j_bsig raw) (fun b => encodable (bs_sig b)) _ nf_bsig) by assumption.
  rewrite encodable_nofffd by assumption. reflexivity.
Qed.

Lemma nf_fevent : forall fe, fevent_text_ok fe = true -> jhas_fffd (j_fevent raw fe) = false.
Proof.
  intros fe H. unfold fevent_text_ok in H. cbn [j_fevent jhas_fffd existsb snd].
  rewrite (nf_ptr (j_event raw) event_frame_text_ok (fe_core fe) nf_event H). reflexivity.
Qed.

Lemma nf_fevents : forall l, fevents_text_ok l = true -> jhas_fffd (j_list (j_ptr (j_fevent raw)) l) = false.
Proof.
  intros l H. apply (nf_list (j_ptr (j_fevent raw)) (opt_forall fevent_text_ok) l); [|exact H].
  intros o Ho. apply (nf_ptr (j_fevent raw) fevent_text_ok o nf_fevent Ho).
Qed.

Lemma nf_peers : forall l, peers_text_ok l = true -> jhas_fffd (j_peers raw l) = false.
Proof.
  intros l H. unfold j_peers. apply (nf_list (j_ptr (j_peer raw)) (opt_forall peer_text_ok) l); [|exact H].
  intros o Ho. apply (nf_ptr (j_peer raw) peer_text_ok o nf_peer Ho).
Qed.

Lemma nf_root : forall r, fevents_text_ok (r_events r) = true -> jhas_fffd (j_root raw r) = false.
Proof. intros r H. cbn [j_root jhas_fffd existsb snd]. rewrite nf_fevents by exact H. reflexivity. Qed.

Theorem frame_text_ok_no_fffd : forall f, frame_text_ok f = true -> jhas_fffd (j_frame raw f) = false.
Proof.
  intros f H. unfold frame_text_ok in H. split_and.
  cbn [j_frame jhas_fffd existsb snd].
  rewrite nf_peers by assumption. rewrite nf_fevents by assumption.
  assert (jhas_fffd (j_smap raw (j_ptr (j_root raw)) (f_roots f)) = false) as ->.
  { destruct (f_roots f) as [l|]; [|reflexivity]. cbn [j_smap jhas_fffd].
    apply existsb_false. intros [k v] Hin. apply in_isort in Hin. apply in_map_iff in Hin.
    destruct Hin as ([k0 v0] & Heq & Hin0). inversion Heq; subst. cbn [fst snd raw].
    match goal with Hr : list_forall _ (Some l) = true |- _ => cbn [list_forall] in Hr; pose proof (forallb_in _ _ _ Hr Hin0) as Hkv end.
    cbn [fst snd] in Hkv. apply andb_true_iff in Hkv. destruct Hkv as [Hk Hv].
    unfold raw at 1. rewrite (encodable_nofffd _ Hk). cbn [orb].
    apply (nf_ptr (j_root raw) (fun r => fevents_text_ok (r_events r)) v0 nf_root Hv). }
  assert (jhas_fffd (j_imap (j_peers raw) (f_psets f)) = false) as ->.
  { destruct (f_psets f) as [l|]; [|reflexivity]. cbn [j_imap jhas_fffd].
    apply existsb_false. intros [k v] Hin. apply in_isort in Hin. apply in_map_iff in Hin.
    destruct Hin as ([k0 v0] & Heq & Hin0). inversion Heq; subst. cbn [snd].
    match goal with Hr : list_forall _ (Some l) = true |- _ => cbn [list_forall] in Hr; pose proof (forallb_in _ _ _ Hr Hin0) as Hkv end.
    cbn [snd] in Hkv. apply nf_peers. exact Hkv. }
  reflexivity.
Qed.

(* the digest of a validated frame is defined *)
Theorem frame_text_ok_digest_total : forall f, frame_text_ok f = true -> frame_digest f <> None.
Proof.
  intros f H. unfold frame_digest, ug_write. rewrite (frame_text_ok_no_fffd f H). discriminate.
Qed.

(* validated text is valid UTF-8: the round trip theorems apply *)
Lemma forallb_impl : forall {A} (f g : A -> bool) l, (forall a, f a = true -> g a = true) -> forallb f l = true -> forallb g l = true.
Proof.
  intros A f g l H. induction l as [|a l IH]; intros Hl; [reflexivity|].
  cbn [forallb] in *. apply andb_true_iff in Hl. destruct Hl as [Ha Hl]. rewrite (H a Ha), (IH Hl). reflexivity.
Qed.

Lemma list_forall_impl : forall {A} (f g : A -> bool) l, (forall a, f a = true -> g a = true) -> list_forall f l = true -> list_forall g l = true.
Proof. intros A f g [l|] H Hl; [|reflexivity]. cbn [list_forall] in *. eapply forallb_impl; eassumption. Qed.

Lemma list_forall_all : forall {A} (f g : A -> bool) l, (forall a, f a = true -> g a = true) -> list_forall f l = true -> list_all g l = true.
Proof. intros A f g [l|] H Hl; [|reflexivity]. cbn [list_forall list_all opt_all] in *. eapply forallb_impl; eassumption. Qed.

Lemma opt_forall_all : forall {A} (f g : A -> bool) o, (forall a, f a = true -> g a = true) -> opt_forall f o = true -> opt_all g o = true.
Proof. intros A f g [a|] H Ho; [|reflexivity]. cbn in *. apply H. exact Ho. Qed.

Lemma peer_text_valid : forall p, peer_text_ok p = true -> peer_valid p = true.
Proof.
  intros p H. unfold peer_text_ok in H. split_and. unfold peer_valid.
  rewrite !encodable_valid by assumption. reflexivity.
Qed.

Lemma itx_text_valid : forall t, itx_frame_text_ok t = true -> itx_valid t = true.
Proof.
  intros t H. unfold itx_frame_text_ok in H. split_and. unfold itx_valid.
  rewrite peer_text_valid, encodable_valid by assumption. reflexivity.
Qed.

Lemma event_text_valid : forall e, event_frame_text_ok e = true -> event_valid e = true.
Proof.
  intros e H. unfold event_frame_text_ok in H. split_and.
  unfold event_valid, body_valid.
  rewrite (list_forall_all itx_frame_text_ok itx_valid _ itx_text_valid) by assumption.
  rewrite (list_forall_all encodable valid_str _ encodable_valid) by assumption.
  rewrite (list_forall_all (fun b => encodable (bs_sig b)) bsig_valid _ (fun b Hb => encodable_valid _ Hb)) by assumption.
  rewrite encodable_valid by assumption. reflexivity.
Qed.

Lemma fevents_text_valid : forall l, fevents_text_ok l = true -> list_all (opt_all fevent_valid) l = true.
Proof.
  intros l H. apply (list_forall_all (opt_forall fevent_text_ok) (opt_all fevent_valid) l); [|exact H].
  intros o Ho. apply (opt_forall_all fevent_text_ok fevent_valid o); [|exact Ho].
  intros fe Hfe. unfold fevent_text_ok in Hfe. unfold fevent_valid.
  apply (opt_forall_all event_frame_text_ok event_valid (fe_core fe) event_text_valid Hfe).
Qed.

Lemma peers_text_valid : forall l, peers_text_ok l = true -> peers_valid l = true.
Proof.
  intros l H. unfold peers_valid. apply (list_forall_all (opt_forall peer_text_ok) (opt_all peer_valid) l); [|exact H].
  intros o Ho. apply (opt_forall_all peer_text_ok peer_valid o peer_text_valid Ho).
Qed.

Theorem frame_text_ok_valid : forall f, frame_text_ok f = true -> frame_valid f = true.
Proof.
  intros f H. unfold frame_text_ok in H. split_and. unfold frame_valid.
  rewrite peers_text_valid by assumption. rewrite fevents_text_valid by assumption.
  assert (list_all (fun kv : gostr * option root => valid_str (fst kv) && opt_all root_valid (snd kv)) (f_roots f) = true) as ->.
  { eapply list_forall_all; [|eassumption]. intros [k v] Hkv. cbn [fst snd] in *.
    apply andb_true_iff in Hkv. destruct Hkv as [Hk Hv]. rewrite (encodable_valid _ Hk). cbn [andb].
    apply (opt_forall_all (fun r => fevents_text_ok (r_events r)) root_valid v); [|exact Hv].
    intros r Hr. unfold root_valid. apply fevents_text_valid. exact Hr. }
  assert (list_all (fun kv : Z * option (list (option peer)) => peers_valid (snd kv)) (f_psets f) = true) as ->.
  { eapply list_forall_all; [|eassumption]. intros [k v] Hkv. cbn [snd] in *. apply peers_text_valid. exact Hkv. }
  reflexivity.
Qed.

(* a validated frame survives the JSON transport and the database form with the same digest *)
Theorem validated_frame_roundtrip : forall f,
  frame_text_ok f = true ->
  frame_digest f <> None /\
  (exists f', json_rt_frame f = Some f' /\ frame_digest f' = frame_digest f) /\
  (no_nil_root f = true -> exists f', ug_rt_frame f = Some (Some f') /\ frame_digest f' = frame_digest f).
Proof.
  intros f H. pose proof (frame_text_ok_digest_total f H) as Hd. pose proof (frame_text_ok_valid f H) as Hv.
  split; [exact Hd|]. split.
  - destruct (frame_json_roundtrip f Hv) as (f' & H1 & H2 & _). exists f'. split; assumption.
  - intros Hn. destruct (frame_db_roundtrip f Hv Hn Hd) as (f' & H1 & H2 & _). exists f'. split; assumption.
Qed.

(* ---- admission side: what the validation lets into a node only contributes validated text ---- *)

(* the hashes a store hands out are "0X" + hex: encodable *)
Definition store_text_ok (st : wstore) : Prop := forall h v, In (h, v) (ws_ev st) -> encodable h = true.

(* checkSelfParent / checkOtherParent: each parent is "" or the hash of a stored event *)
Definition parents_known (st : wstore) (e : event) : Prop :=
  exists sp op, b_parents (e_body e) = Some [sp; op] /\
    (sp = [] \/ exists v, ev_find sp (ws_ev st) = Some v) /\ (op = [] \/ exists v, ev_find op (ws_ev st) = Some v).

(* an internal transaction that passes InternalTransaction.Verify (the gate of
   node.processJoinRequest, and part of Event.Verify) passes the frame's check *)
Theorem verified_itx_text : forall t, itx_text_ok t = true -> itx_frame_text_ok t = true.
Proof.
  intros t H. unfold itx_text_ok in H. split_and. unfold itx_frame_text_ok.
  rewrite sig_decodes_encodable by assumption. assumption.
Qed.

(* an event that passes Event.Verify's text checks and whose parents are "" or stored hashes
   (InsertEvent) passes the frame's check: whatever frame it ends up in, it does not stop the hash *)
Theorem admitted_event_text : forall st e,
  store_text_ok st -> event_text_ok e = true -> parents_known st e ->
  event_frame_text_ok e = true /\ event_valid e = true /\ jhas_fffd (j_event raw e) = false.
Proof.
  intros st e Hst Hev (sp & op & Hpar & Hsp & Hop).
  assert (event_frame_text_ok e = true) as Hf.
  { unfold event_text_ok in Hev. split_and. unfold event_frame_text_ok.
    rewrite sig_decodes_encodable by assumption. rewrite Hpar. cbn [list_forall forallb].
    assert (forall p, (p = [] \/ exists v, ev_find p (ws_ev st) = Some v) -> encodable p = true) as Hx.
    { intros p [-> | [v Hv]]; [reflexivity|]. eapply Hst. apply ev_find_in. exact Hv. }
    rewrite (Hx sp Hsp), (Hx op Hop). cbn [andb].
    rewrite (list_forall_impl (fun b => sig_decodes (bs_sig b) && encodable (bs_sig b)) (fun b => encodable (bs_sig b)) _
               (fun b Hb => proj2 (proj1 (andb_true_iff _ _) Hb))) by assumption.
    rewrite (list_forall_impl itx_text_ok itx_frame_text_ok _ verified_itx_text) by assumption.
    reflexivity. }
  split; [exact Hf|]. split; [apply event_text_valid; exact Hf | apply nf_event; exact Hf].
Qed.

(* a frame assembled from validated peers (accepted internal transactions or the operator's
   peers.json), admitted events and participant keys passes Frame.ValidateText by construction,
   hence its hash is defined on every node; a frame received in a fast-forward is checked
   directly (core.checkFastForward) *)
Theorem assembled_frame_text : forall f,
  peers_text_ok (f_peers f) = true ->
  list_forall (fun kv : Z * option (list (option peer)) => peers_text_ok (snd kv)) (f_psets f) = true ->
  list_forall (fun kv : gostr * option root => encodable (fst kv) && opt_forall (fun r => fevents_text_ok (r_events r)) (snd kv)) (f_roots f) = true ->
  fevents_text_ok (f_events f) = true ->
  frame_text_ok f = true /\ frame_digest f <> None.
Proof.
  intros f H1 H2 H3 H4.
  assert (frame_text_ok f = true) as H by (unfold frame_text_ok; rewrite H1, H2, H3, H4; reflexivity).
  split; [exact H | apply frame_text_ok_digest_total; exact H].
Qed.
