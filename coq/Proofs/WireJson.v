(* C15: what a Go value looks like after one trip through JSON (normal forms n_X), the round trip
   lemmas  decode (encode x) = Some (n x)  for every type that travels, and the fact that the
   normal form of a value whose strings are valid UTF-8 is the value itself (up to the private
   fields, which are not serialized, and the order in which maps are listed). *)
From Coq Require Import ZArith List Bool String Ascii Lia.
From V Require Import Model.Wire Proofs.WireSort.
Import ListNotations.
Open Scope Z_scope.

Ltac fields := cbn [fld find fst snd String.eqb Ascii.eqb Bool.eqb].

(* ------------------------------------------------------------------------------------------ *)
(* normal forms *)

Definition n_list {A} (n : A -> A) (l : option (list A)) : option (list A) :=
  match l with None => None | Some x => Some (map n x) end.
Definition n_ptr {A} (n : A -> A) (o : option A) : option A :=
  match o with None => None | Some a => Some (n a) end.
Definition n_smap {A} (n : A -> A) (m : option (list (gostr * A))) : option (list (gostr * A)) :=
  match m with
  | None => None
  | Some l => Some (map (fun kv => (unescape (fst kv), n (snd kv)))
                        (isort lex_ltb (map (fun kv => (escape (fst kv), snd kv)) l)))
  end.
Definition n_imap {A} (n : A -> A) (m : option (list (Z * A))) : option (list (Z * A)) :=
  match m with
  | None => None
  | Some l => Some (map (fun kv => (fst kv, n (snd kv))) (isort Z.ltb l))
  end.

Definition n_peer (p : peer) : peer :=
  {| p_addr := sanitize (p_addr p); p_pub := sanitize (p_pub p); p_moniker := sanitize (p_moniker p) |}.
Definition n_itx (t : itx) : itx :=
  {| it_type := it_type t; it_peer := n_peer (it_peer t); it_sig := sanitize (it_sig t) |}.
Definition n_receipt (r : receipt) : receipt := {| rc_itx := n_itx (rc_itx r); rc_accepted := rc_accepted r |}.
Definition n_bsig (b : bsig) : bsig :=
  {| bs_validator := bs_validator b; bs_index := bs_index b; bs_sig := sanitize (bs_sig b) |}.
Definition n_wbsig (b : wbsig) : wbsig := {| wbs_index := wbs_index b; wbs_sig := sanitize (wbs_sig b) |}.
Definition n_body (b : ebody) : ebody :=
  {| b_txs := b_txs b; b_itxs := n_list n_itx (b_itxs b); b_parents := n_list sanitize (b_parents b);
     b_creator := b_creator b; b_index := b_index b; b_bsigs := n_list n_bsig (b_bsigs b); b_ts := b_ts b;
     b_cid := 0; b_opcid := 0; b_spi := 0; b_opi := 0 |}.
Definition n_event (e : event) : event := mk_event (n_body (e_body e)) (sanitize (e_sig e)).
Definition n_coord (c : gostr * Z) : gostr * Z := (sanitize (fst c), snd c).
(* the database form keeps the wire fields, the topological index and the two coordinate maps *)
Definition n_db (e : event) : event :=
  {| e_body := with_wire (n_body (e_body e)) (b_cid (e_body e)) (b_opcid (e_body e)) (b_spi (e_body e)) (b_opi (e_body e));
     e_sig := sanitize (e_sig e); e_topo := e_topo e;
     e_round := None; e_lamport := None; e_rr := None;
     e_last := n_smap n_coord (e_last e); e_first := n_smap n_coord (e_first e); e_hexc := None |}.
Definition n_wevent (w : wevent) : wevent :=
  {| w_txs := w_txs w; w_itxs := n_list n_itx (w_itxs w); w_bsigs := n_list n_wbsig (w_bsigs w);
     w_cid := w_cid w; w_opcid := w_opcid w; w_index := w_index w; w_spi := w_spi w; w_opi := w_opi w;
     w_ts := w_ts w; w_sig := sanitize (w_sig w) |}.
Definition n_fevent (fe : fevent) : fevent :=
  {| fe_core := n_ptr n_event (fe_core fe); fe_round := fe_round fe; fe_lamport := fe_lamport fe;
     fe_witness := fe_witness fe |}.
Definition n_root (r : root) : root := {| r_events := n_list (n_ptr n_fevent) (r_events r) |}.
Definition n_rootptr (ug : bool) (o : option root) : option root :=
  match o with
  | None => if ug then Some zero_root else None
  | Some r => Some (n_root r)
  end.
Definition n_peers (l : option (list (option peer))) := n_list (n_ptr n_peer) l.
Definition n_frame (ug : bool) (f : frame) : frame :=
  {| f_round := f_round f; f_peers := n_peers (f_peers f); f_roots := n_smap (n_rootptr ug) (f_roots f);
     f_events := n_list (n_ptr n_fevent) (f_events f); f_psets := n_imap n_peers (f_psets f); f_ts := f_ts f |}.
Definition n_blockbody (b : blockbody) : blockbody :=
  {| bb_index := bb_index b; bb_rr := bb_rr b; bb_ts := bb_ts b; bb_state := bb_state b; bb_frame := bb_frame b;
     bb_peers := bb_peers b; bb_txs := bb_txs b; bb_itxs := n_list n_itx (bb_itxs b);
     bb_receipts := n_list n_receipt (bb_receipts b) |}.
Definition n_block (b : block) : block :=
  {| bl_body := n_blockbody (bl_body b); bl_sigs := n_smap sanitize (bl_sigs b) |}.

(* ------------------------------------------------------------------------------------------ *)
(* generic round trip lemmas *)

Lemma rt_str : forall s, d_str (j_str escape s) = Some (sanitize s).
Proof. reflexivity. Qed.

Lemma rt_bytes : forall b, d_bytes (j_bytes b) = Some b.
Proof. intros [b|]; reflexivity. Qed.

Lemma traverse_map : forall {A B} (d : json -> option B) (e : A -> json) (n : A -> B) (l : list A),
  (forall a, d (e a) = Some (n a)) -> traverse d (map e l) = Some (map n l).
Proof.
  intros A B d e n l H. induction l as [|a l IH]; cbn [map traverse]; [reflexivity|].
  rewrite H, IH. reflexivity.
Qed.

Lemma rt_list : forall {A B} (d : json -> option B) (e : A -> json) (n : A -> B) (l : option (list A)),
  (forall a, d (e a) = Some (n a)) ->
  d_list d (j_list e l) = Some (match l with None => None | Some x => Some (map n x) end).
Proof.
  intros A B d e n [l|] H; cbn [j_list d_list]; [|reflexivity].
  rewrite (traverse_map d e n l H). reflexivity.
Qed.

Lemma rt_txs : forall l, d_list d_bytes (j_list j_bytes l) = Some l.
Proof.
  intros l. rewrite (rt_list d_bytes j_bytes (fun x => x) l rt_bytes).
  destruct l as [l|]; [|reflexivity]. rewrite map_id. reflexivity.
Qed.

Lemma rt_ptr : forall {A B} (d : json -> option B) (e : A -> json) (n : A -> B) (o : option A),
  (forall a, d (e a) = Some (n a)) -> (forall a, exists fs, e a = JObj fs) ->
  d_ptr d (j_ptr e o) = Some (match o with None => None | Some a => Some (n a) end).
Proof.
  intros A B d e n [a|] H Hobj; cbn [j_ptr d_ptr]; [|reflexivity].
  destruct (Hobj a) as [fs E]. pose proof (H a) as Ha. rewrite E in *. cbn [d_ptr]. rewrite Ha. reflexivity.
Qed.

Lemma traverse_kv_map : forall {K A B} (d : json -> option B) (e : A -> json) (n : A -> B) (l : list (K * A)),
  (forall a, d (e a) = Some (n a)) ->
  traverse_kv d (map (fun kv => (fst kv, e (snd kv))) l) = Some (map (fun kv => (fst kv, n (snd kv))) l).
Proof.
  intros K A B d e n l H. induction l as [|[k a] l IH]; cbn [map traverse_kv fst snd]; [reflexivity|].
  rewrite H, IH. reflexivity.
Qed.

Lemma rt_smap : forall {A} (d : json -> option A) (e : A -> json) (n : A -> A) (m : option (list (gostr * A))),
  (forall a, d (e a) = Some (n a)) ->
  d_smap d (j_smap escape e m) = Some (n_smap n m).
Proof.
  intros A d e n [l|] H; cbn [j_smap d_smap n_smap]; [|reflexivity].
  replace (map (fun kv : gostr * A => (escape (fst kv), e (snd kv))) l)
    with (map (fun kv : gostr * A => (fst kv, e (snd kv))) (map (fun kv : gostr * A => (escape (fst kv), snd kv)) l))
    by (rewrite map_map; reflexivity).
  rewrite isort_map_val.
  rewrite (traverse_kv_map d e n _ H).
  rewrite map_map. reflexivity.
Qed.

Lemma rt_imap : forall {A} (d : json -> option A) (e : A -> json) (n : A -> A) (m : option (list (Z * A))),
  (forall a, d (e a) = Some (n a)) ->
  d_imap d (j_imap e m) = Some (n_imap n m).
Proof.
  intros A d e n [l|] H; cbn [j_imap d_imap n_imap]; [|reflexivity].
  rewrite isort_map_val. rewrite (traverse_kv_map d e n _ H). reflexivity.
Qed.

(* ------------------------------------------------------------------------------------------ *)
(* typed round trip lemmas (encoding/json) *)

Lemma rt_peer : forall p, d_peer (j_peer escape p) = Some (n_peer p).
Proof. intros p. unfold d_peer, j_peer. fields. reflexivity. Qed.

Lemma rt_itx : forall t, d_itx (j_itx escape t) = Some (n_itx t).
Proof.
  intros t. unfold d_itx, j_itx, j_itxbody. fields. rewrite rt_peer. reflexivity.
Qed.

Lemma rt_receipt : forall r, d_receipt (j_receipt escape r) = Some (n_receipt r).
Proof. intros r. unfold d_receipt, j_receipt. fields. rewrite rt_itx. reflexivity. Qed.

Lemma rt_bsig : forall b, d_bsig (j_bsig escape b) = Some (n_bsig b).
Proof. intros b. unfold d_bsig, j_bsig. fields. rewrite rt_bytes. reflexivity. Qed.

Lemma rt_wbsig : forall b, d_wbsig (j_wbsig escape b) = Some (n_wbsig b).
Proof. intros b. unfold d_wbsig, j_wbsig. fields. reflexivity. Qed.

Lemma rt_body : forall b, d_body (j_body escape b) = Some (n_body b).
Proof.
  intros b. unfold d_body, j_body. fields.
  rewrite rt_txs, (rt_list d_itx (j_itx escape) n_itx _ rt_itx),
          (rt_list d_str (j_str escape) sanitize _ rt_str), rt_bytes,
          (rt_list d_bsig (j_bsig escape) n_bsig _ rt_bsig).
  reflexivity.
Qed.

Lemma rt_event : forall e, d_event (j_event escape e) = Some (n_event e).
Proof. intros e. unfold d_event, j_event. fields. rewrite rt_body. reflexivity. Qed.

Lemma rt_coord : forall c, d_coord (j_coord escape c) = Some (n_coord c).
Proof. intros c. unfold d_coord, j_coord. fields. reflexivity. Qed.

Lemma rt_wrapper : forall e, d_wrapper (j_wrapper escape e) = Some (n_db e).
Proof.
  intros e. unfold d_wrapper, j_wrapper. fields.
  rewrite rt_body, !(rt_smap d_coord (j_coord escape) n_coord _ rt_coord). reflexivity.
Qed.

Lemma rt_wevent : forall w, d_wevent (j_wevent escape w) = Some (n_wevent w).
Proof.
  intros w. unfold d_wevent, j_wevent, j_wbody. fields.
  rewrite rt_txs, (rt_list d_itx (j_itx escape) n_itx _ rt_itx),
          (rt_list d_wbsig (j_wbsig escape) n_wbsig _ rt_wbsig).
  reflexivity.
Qed.

Lemma j_event_obj : forall e, exists fs, j_event escape e = JObj fs.
Proof. intros e. eexists. reflexivity. Qed.
Lemma j_fevent_obj : forall fe, exists fs, j_fevent escape fe = JObj fs.
Proof. intros fe. eexists. reflexivity. Qed.
Lemma j_peer_obj : forall p, exists fs, j_peer escape p = JObj fs.
Proof. intros p. eexists. reflexivity. Qed.

Lemma rt_fevent : forall fe, d_fevent (j_fevent escape fe) = Some (n_fevent fe).
Proof.
  intros fe. unfold d_fevent, j_fevent. fields.
  rewrite (rt_ptr d_event (j_event escape) n_event _ rt_event j_event_obj). reflexivity.
Qed.

Lemma rt_feventptr : forall o, d_ptr d_fevent (j_ptr (j_fevent escape) o) = Some (n_ptr n_fevent o).
Proof. intros o. apply (rt_ptr d_fevent (j_fevent escape) n_fevent o rt_fevent j_fevent_obj). Qed.

Lemma rt_root : forall r, d_root (j_root escape r) = Some (n_root r).
Proof.
  intros r. unfold d_root, j_root. fields.
  rewrite (rt_list (d_ptr d_fevent) (j_ptr (j_fevent escape)) (n_ptr n_fevent) _ rt_feventptr). reflexivity.
Qed.

Lemma rt_rootptr : forall ug o, d_rootptr ug (j_ptr (j_root escape) o) = Some (n_rootptr ug o).
Proof.
  intros ug [r|]; cbn [j_ptr n_rootptr].
  - pose proof (rt_root r) as H. unfold d_rootptr. unfold j_root in *. rewrite H. reflexivity.
  - destruct ug; reflexivity.
Qed.

Lemma rt_peerptr : forall o, d_ptr d_peer (j_ptr (j_peer escape) o) = Some (n_ptr n_peer o).
Proof. intros o. apply (rt_ptr d_peer (j_peer escape) n_peer o rt_peer j_peer_obj). Qed.

Lemma rt_peers : forall l, d_peers (j_peers escape l) = Some (n_peers l).
Proof.
  intros l. unfold d_peers, j_peers.
  apply (rt_list (d_ptr d_peer) (j_ptr (j_peer escape)) (n_ptr n_peer) l rt_peerptr).
Qed.

Lemma rt_frame : forall ug f, d_frame ug (j_frame escape f) = Some (n_frame ug f).
Proof.
  intros ug f. unfold d_frame, j_frame. fields.
  rewrite rt_peers,
          (rt_smap (d_rootptr ug) (j_ptr (j_root escape)) (n_rootptr ug) _ (rt_rootptr ug)),
          (rt_list (d_ptr d_fevent) (j_ptr (j_fevent escape)) (n_ptr n_fevent) _ rt_feventptr),
          (rt_imap d_peers (j_peers escape) n_peers _ rt_peers).
  reflexivity.
Qed.

Lemma rt_blockbody : forall b, d_blockbody (j_blockbody escape b) = Some (n_blockbody b).
Proof.
  intros b. unfold d_blockbody, j_blockbody. fields.
  rewrite !rt_bytes, rt_txs, (rt_list d_itx (j_itx escape) n_itx _ rt_itx),
          (rt_list d_receipt (j_receipt escape) n_receipt _ rt_receipt).
  reflexivity.
Qed.

Lemma rt_block : forall b, d_block (j_block escape b) = Some (n_block b).
Proof.
  intros b. unfold d_block, j_block. fields.
  rewrite rt_blockbody, (rt_smap d_str (j_str escape) sanitize _ rt_str). reflexivity.
Qed.

(* ------------------------------------------------------------------------------------------ *)
(* valid UTF-8 *)

Lemma escape_valid : forall s, valid_str s = true -> escape s = s.
Proof.
  induction s as [|c s IH]; intros H; [reflexivity|].
  cbn [valid_str forallb] in H. apply andb_true_iff in H. destruct H as [Hc Hs].
  unfold escape in *. cbn [map]. rewrite IH by exact Hs.
  unfold escape_cp. assert (c <? 0 = false) as -> by lia. reflexivity.
Qed.

Lemma unescape_valid : forall s, valid_str s = true -> unescape s = s.
Proof.
  induction s as [|c s IH]; intros H; [reflexivity|].
  cbn [valid_str forallb] in H. apply andb_true_iff in H. destruct H as [Hc Hs].
  unfold unescape in *. cbn [map]. rewrite IH by exact Hs.
  unfold unescape_cp. assert (c <? 0 = false) as -> by lia. reflexivity.
Qed.

Lemma sanitize_valid : forall s, valid_str s = true -> sanitize s = s.
Proof.
  intros s H. unfold sanitize. rewrite escape_valid by exact H. apply unescape_valid. exact H.
Qed.

Definition opt_all {A} (f : A -> bool) (o : option A) : bool := match o with None => true | Some a => f a end.
Definition list_all {A} (f : A -> bool) (l : option (list A)) : bool := opt_all (forallb f) l.

Definition peer_valid (p : peer) : bool := valid_str (p_addr p) && valid_str (p_pub p) && valid_str (p_moniker p).
Definition itx_valid (t : itx) : bool := peer_valid (it_peer t) && valid_str (it_sig t).
Definition receipt_valid (r : receipt) : bool := itx_valid (rc_itx r).
Definition bsig_valid (b : bsig) : bool := valid_str (bs_sig b).
Definition wbsig_valid (b : wbsig) : bool := valid_str (wbs_sig b).
Definition body_valid (b : ebody) : bool :=
  list_all itx_valid (b_itxs b) && list_all valid_str (b_parents b) && list_all bsig_valid (b_bsigs b).
Definition event_valid (e : event) : bool := body_valid (e_body e) && valid_str (e_sig e).
Definition wevent_valid (w : wevent) : bool :=
  list_all itx_valid (w_itxs w) && list_all wbsig_valid (w_bsigs w) && valid_str (w_sig w).
Definition coords_valid (m : coordmap) : bool :=
  list_all (fun kv => valid_str (fst kv) && valid_str (fst (snd kv))) m.
Definition fevent_valid (fe : fevent) : bool := opt_all event_valid (fe_core fe).
Definition root_valid (r : root) : bool := list_all (opt_all fevent_valid) (r_events r).
Definition peers_valid (l : option (list (option peer))) : bool := list_all (opt_all peer_valid) l.
Definition frame_valid (f : frame) : bool :=
  peers_valid (f_peers f) && list_all (fun kv => valid_str (fst kv) && opt_all root_valid (snd kv)) (f_roots f) &&
  list_all (opt_all fevent_valid) (f_events f) && list_all (fun kv => peers_valid (snd kv)) (f_psets f).
Definition block_valid (b : block) : bool :=
  list_all itx_valid (bb_itxs (bl_body b)) && list_all receipt_valid (bb_receipts (bl_body b)) &&
  list_all (fun kv => valid_str (fst kv) && valid_str (snd kv)) (bl_sigs b).

Lemma map_ext_forallb : forall {A} (f : A -> bool) (n : A -> A) (l : list A),
  (forall a, f a = true -> n a = a) -> forallb f l = true -> map n l = l.
Proof.
  intros A f n l H. induction l as [|a l IH]; intros Hl; [reflexivity|].
  cbn [forallb] in Hl. apply andb_true_iff in Hl. destruct Hl as [Ha Hl].
  cbn [map]. rewrite H by exact Ha. rewrite IH by exact Hl. reflexivity.
Qed.

Lemma n_list_valid : forall {A} (f : A -> bool) (n : A -> A) (l : option (list A)),
  (forall a, f a = true -> n a = a) -> list_all f l = true -> n_list n l = l.
Proof.
  intros A f n [l|] H Hl; [|reflexivity]. cbn [n_list]. cbn [list_all opt_all] in Hl.
  rewrite (map_ext_forallb f n l H Hl). reflexivity.
Qed.

Lemma n_ptr_valid : forall {A} (f : A -> bool) (n : A -> A) (o : option A),
  (forall a, f a = true -> n a = a) -> opt_all f o = true -> n_ptr n o = o.
Proof. intros A f n [a|] H Ho; [|reflexivity]. cbn [n_ptr]. cbn [opt_all] in Ho. rewrite H by exact Ho. reflexivity. Qed.

Ltac split_and :=
  repeat match goal with
         | H : _ && _ = true |- _ => apply andb_true_iff in H; destruct H
         end.

Lemma j_body_with_wire : forall sf b c o s p, j_body sf (with_wire b c o s p) = j_body sf b.
Proof. reflexivity. Qed.

(* ------------------------------------------------------------------------------------------ *)
(* valid strings: the normal form is the value itself *)

Lemma n_peer_valid : forall p, peer_valid p = true -> n_peer p = p.
Proof.
  intros [a k m] H. unfold peer_valid in H. cbn [p_addr p_pub p_moniker] in H. split_and.
  unfold n_peer. cbn [p_addr p_pub p_moniker]. rewrite !sanitize_valid by assumption. reflexivity.
Qed.

Lemma n_itx_valid : forall t, itx_valid t = true -> n_itx t = t.
Proof.
  intros [ty p s] H. unfold itx_valid in H. cbn [it_peer it_sig] in H. split_and.
  unfold n_itx. cbn [it_type it_peer it_sig]. rewrite n_peer_valid, sanitize_valid by assumption. reflexivity.
Qed.

Lemma n_receipt_valid : forall r, receipt_valid r = true -> n_receipt r = r.
Proof.
  intros [t a] H. unfold receipt_valid in H. cbn [rc_itx] in H.
  unfold n_receipt. cbn [rc_itx rc_accepted]. rewrite n_itx_valid by assumption. reflexivity.
Qed.

Lemma n_bsig_valid : forall b, bsig_valid b = true -> n_bsig b = b.
Proof.
  intros [v i s] H. unfold bsig_valid in H. cbn [bs_sig] in H.
  unfold n_bsig. cbn [bs_validator bs_index bs_sig]. rewrite sanitize_valid by assumption. reflexivity.
Qed.

Lemma n_wbsig_valid : forall b, wbsig_valid b = true -> n_wbsig b = b.
Proof.
  intros [i s] H. unfold wbsig_valid in H. cbn [wbs_sig] in H.
  unfold n_wbsig. cbn [wbs_index wbs_sig]. rewrite sanitize_valid by assumption. reflexivity.
Qed.

Lemma n_body_valid : forall b, body_valid b = true -> n_body b = with_wire b 0 0 0 0.
Proof.
  intros b H. unfold body_valid in H. split_and. unfold n_body, with_wire.
  rewrite (n_list_valid itx_valid n_itx _ n_itx_valid) by assumption.
  rewrite (n_list_valid valid_str sanitize _ sanitize_valid) by assumption.
  rewrite (n_list_valid bsig_valid n_bsig _ n_bsig_valid) by assumption.
  reflexivity.
Qed.

(* an event as it arrives through JSON: public part only *)
Definition event_clear (e : event) : event := mk_event (with_wire (e_body e) 0 0 0 0) (e_sig e).

Lemma n_event_valid : forall e, event_valid e = true -> n_event e = event_clear e.
Proof.
  intros e H. unfold event_valid in H. split_and. unfold n_event, event_clear.
  rewrite n_body_valid, sanitize_valid by assumption. reflexivity.
Qed.

Lemma n_wevent_valid : forall w, wevent_valid w = true -> n_wevent w = w.
Proof.
  intros w H. unfold wevent_valid in H. split_and. unfold n_wevent.
  rewrite (n_list_valid itx_valid n_itx _ n_itx_valid) by assumption.
  rewrite (n_list_valid wbsig_valid n_wbsig _ n_wbsig_valid) by assumption.
  rewrite sanitize_valid by assumption. destruct w; reflexivity.
Qed.

Lemma wire_bsigs_valid : forall l, list_all bsig_valid l = true -> list_all wbsig_valid (wire_bsigs l) = true.
Proof.
  intros [l|] H; [|reflexivity]. cbn [wire_bsigs list_all opt_all] in *.
  induction l as [|b l IH]; [reflexivity|].
  cbn [forallb map] in *. apply andb_true_iff in H. destruct H as [Hb Hl].
  rewrite IH by exact Hl. unfold wbsig_valid, bsig_valid in *. cbn [wbs_sig]. rewrite Hb. reflexivity.
Qed.

Lemma to_wire_valid : forall e, event_valid e = true -> wevent_valid (to_wire e) = true.
Proof.
  intros e H. unfold event_valid, body_valid in H. split_and.
  unfold wevent_valid, to_wire. cbv zeta. cbn [w_itxs w_bsigs w_sig].
  match goal with Hb : list_all bsig_valid _ = true |- _ => rewrite (wire_bsigs_valid _ Hb) end.
  repeat (apply andb_true_iff; split); (assumption || reflexivity).
Qed.

(* ------------------------------------------------------------------------------------------ *)
(* valid strings: the normal form has the same encoding (for the real writer [escape] and for the
   look at the original strings [raw]) *)

Definition sf_ok (sf : gostr -> gostr) : Prop := forall s, valid_str s = true -> sf s = s.
Lemma sf_ok_escape : sf_ok escape.
Proof. exact escape_valid. Qed.
Lemma sf_ok_raw : sf_ok raw.
Proof. intros s _. reflexivity. Qed.

Lemma jn_list : forall {A} (g : A -> json) (n : A -> A) (l : option (list A)),
  (forall a, match l with Some x => In a x | None => False end -> g (n a) = g a) ->
  j_list g (n_list n l) = j_list g l.
Proof.
  intros A g n [l|] H; [|reflexivity]. cbn [n_list j_list]. rewrite map_map. f_equal.
  apply map_ext_in. exact H.
Qed.

Lemma jn_ptr : forall {A} (g : A -> json) (n : A -> A) (o : option A),
  (forall a, o = Some a -> g (n a) = g a) -> j_ptr g (n_ptr n o) = j_ptr g o.
Proof. intros A g n [a|] H; [|reflexivity]. cbn [n_ptr j_ptr]. apply H. reflexivity. Qed.

Lemma in_isort : forall {K V} (ltb : K -> K -> bool) (l : list (K * V)) x, In x (isort ltb l) <-> In x l.
Proof.
  intros K V ltb l x. split; intros H.
  - eapply Permutation.Permutation_in; [apply isort_perm_self | exact H].
  - eapply Permutation.Permutation_in; [apply Permutation.Permutation_sym; apply isort_perm_self | exact H].
Qed.

Lemma jn_smap : forall {A} (sf : gostr -> gostr) (g : A -> json) (n : A -> A) (l : list (gostr * A)),
  sf_ok sf ->
  (forall kv, In kv l -> valid_str (fst kv) = true /\ g (n (snd kv)) = g (snd kv)) ->
  j_smap sf g (n_smap n (Some l)) = j_smap sf g (Some l).
Proof.
  intros A sf g n l Hsf H. cbn [n_smap j_smap]. f_equal.
  assert (map (fun kv : gostr * A => (escape (fst kv), snd kv)) l = l) as ->.
  { rewrite <- (map_id l) at 2. apply map_ext_in. intros [k v] Hin. cbn [fst snd].
    destruct (H _ Hin) as [Hk _]. cbn [fst] in Hk. rewrite escape_valid by exact Hk. reflexivity. }
  rewrite map_map. cbn [fst snd].
  assert (map (fun x : gostr * A => (sf (unescape (fst x)), g (n (snd x)))) (isort lex_ltb l)
          = map (fun kv : gostr * A => (fst kv, g (snd kv))) (isort lex_ltb l)) as ->.
  { apply map_ext_in. intros [k v] Hin. cbn [fst snd]. apply in_isort in Hin.
    destruct (H _ Hin) as [Hk Hv]. cbn [fst snd] in Hk, Hv.
    rewrite unescape_valid, Hsf, Hv by assumption. reflexivity. }
  assert (map (fun kv : gostr * A => (sf (fst kv), g (snd kv))) l
          = map (fun kv : gostr * A => (fst kv, g (snd kv))) l) as ->.
  { apply map_ext_in. intros [k v] Hin. cbn [fst snd].
    destruct (H _ Hin) as [Hk _]. cbn [fst] in Hk. rewrite Hsf by exact Hk. reflexivity. }
  rewrite !isort_map_val, isort_lex_idem. reflexivity.
Qed.

Lemma jn_imap : forall {A} (g : A -> json) (n : A -> A) (l : list (Z * A)),
  (forall kv, In kv l -> g (n (snd kv)) = g (snd kv)) ->
  j_imap g (n_imap n (Some l)) = j_imap g (Some l).
Proof.
  intros A g n l H. cbn [n_imap j_imap]. f_equal. rewrite map_map. cbn [fst snd].
  assert (map (fun x : Z * A => (fst x, g (n (snd x)))) (isort Z.ltb l)
          = map (fun kv : Z * A => (fst kv, g (snd kv))) (isort Z.ltb l)) as ->.
  { apply map_ext_in. intros [k v] Hin. cbn [fst snd]. apply in_isort in Hin.
    pose proof (H _ Hin) as Hv. cbn [snd] in Hv. rewrite Hv. reflexivity. }
  rewrite !isort_map_val, isort_z_idem. reflexivity.
Qed.

Lemma list_all_in : forall {A} (f : A -> bool) (l : list A) a, forallb f l = true -> In a l -> f a = true.
Proof. intros A f l a H Hin. rewrite forallb_forall in H. apply H. exact Hin. Qed.

Lemma jn_event : forall sf e, event_valid e = true -> j_event sf (n_event e) = j_event sf e.
Proof. intros sf e H. rewrite n_event_valid by exact H. reflexivity. Qed.

Lemma jn_fevent : forall sf fe, fevent_valid fe = true -> j_fevent sf (n_fevent fe) = j_fevent sf fe.
Proof.
  intros sf [c r l w] H. unfold fevent_valid in H. cbn [fe_core] in H.
  unfold n_fevent, j_fevent. cbn [fe_core fe_round fe_lamport fe_witness].
  rewrite (jn_ptr (j_event sf) n_event c); [reflexivity|].
  intros a ->. apply jn_event. exact H.
Qed.

Lemma jn_fevents : forall sf l, list_all (opt_all fevent_valid) l = true ->
  j_list (j_ptr (j_fevent sf)) (n_list (n_ptr n_fevent) l) = j_list (j_ptr (j_fevent sf)) l.
Proof.
  intros sf l H. apply jn_list. intros o Hin. destruct l as [x|]; [|contradiction].
  cbn [list_all opt_all] in H. pose proof (list_all_in _ _ _ H Hin) as Ho.
  apply jn_ptr. intros fe ->. apply jn_fevent. exact Ho.
Qed.

Lemma jn_root : forall sf r, root_valid r = true -> j_root sf (n_root r) = j_root sf r.
Proof.
  intros sf [l] H. unfold root_valid in H. cbn [r_events] in H.
  unfold n_root, j_root. cbn [r_events]. rewrite jn_fevents by exact H. reflexivity.
Qed.

Lemma jn_peers : forall sf l, peers_valid l = true -> j_peers sf (n_peers l) = j_peers sf l.
Proof.
  intros sf l H. unfold j_peers, n_peers. apply jn_list. intros o Hin. destruct l as [x|]; [|contradiction].
  unfold peers_valid in H. cbn [list_all opt_all] in H. pose proof (list_all_in _ _ _ H Hin) as Ho.
  apply jn_ptr. intros p ->. cbn [opt_all] in Ho. rewrite n_peer_valid by exact Ho. reflexivity.
Qed.

(* ugorji allocates nil map values: the frame must not have a nil Root *)
Definition no_nil_root (f : frame) : bool :=
  list_all (fun kv : gostr * option root => match snd kv with Some _ => true | None => false end) (f_roots f).

Lemma jn_frame : forall sf ug f,
  sf_ok sf -> frame_valid f = true -> (ug = true -> no_nil_root f = true) ->
  j_frame sf (n_frame ug f) = j_frame sf f.
Proof.
  intros sf ug [r ps rs es pss ts] Hsf H Hug. unfold frame_valid in H. cbn [f_peers f_roots f_events f_psets] in H.
  split_and. unfold n_frame, j_frame. cbn [f_round f_peers f_roots f_events f_psets f_ts].
  rewrite jn_peers by assumption. rewrite jn_fevents by assumption.
  assert (j_smap sf (j_ptr (j_root sf)) (n_smap (n_rootptr ug) rs) = j_smap sf (j_ptr (j_root sf)) rs) as ->.
  { destruct rs as [l|]; [|reflexivity]. apply jn_smap; [exact Hsf|].
    intros [k v] Hin. cbn [fst snd].
    match goal with Hr : list_all _ (Some l) = true |- _ => cbn [list_all opt_all] in Hr; pose proof (list_all_in _ _ _ Hr Hin) as Hkv end.
    cbn [fst snd] in Hkv. apply andb_true_iff in Hkv. destruct Hkv as [Hk Hv]. split; [exact Hk|].
    destruct v as [rt|]; cbn [n_rootptr j_ptr].
    - apply jn_root. exact Hv.
    - destruct ug; [|reflexivity].
      specialize (Hug eq_refl). unfold no_nil_root in Hug. cbn [f_roots list_all opt_all] in Hug.
      pose proof (list_all_in _ _ _ Hug Hin) as Hn. cbn [snd] in Hn. discriminate. }
  assert (j_imap (j_peers sf) (n_imap n_peers pss) = j_imap (j_peers sf) pss) as ->.
  { destruct pss as [l|]; [|reflexivity]. apply jn_imap.
    intros [k v] Hin. cbn [snd].
    match goal with Hr : list_all _ (Some l) = true |- _ => cbn [list_all opt_all] in Hr; pose proof (list_all_in _ _ _ Hr Hin) as Hkv end.
    cbn [snd] in Hkv. apply jn_peers. exact Hkv. }
  reflexivity.
Qed.

Lemma n_blockbody_valid : forall b,
  list_all itx_valid (bb_itxs b) = true -> list_all receipt_valid (bb_receipts b) = true ->
  n_blockbody b = b.
Proof.
  intros b H1 H2. unfold n_blockbody.
  rewrite (n_list_valid itx_valid n_itx _ n_itx_valid) by assumption.
  rewrite (n_list_valid receipt_valid n_receipt _ n_receipt_valid) by assumption.
  destruct b; reflexivity.
Qed.
