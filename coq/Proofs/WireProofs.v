(* C15 encoding identity: the theorems about Model/Wire.v. *)
From Coq Require Import ZArith List Bool String Ascii Lia Permutation.
From V Require Import Model.Wire Proofs.WireSort Proofs.WireJson.
Import ListNotations.
Open Scope Z_scope.

(* ------------------------------------------------------------------------------------------ *)
(* the equality test on JSON documents decides equality *)

Lemma json_eqb_refl : forall j, json_eqb j j = true.
Proof.
  fix IH 1. intros [ | b | z | s | b | l | l | l | l]; cbn [json_eqb].
  - reflexivity.
  - destruct b; reflexivity.
  - apply Z.eqb_refl.
  - apply zlist_eqb_refl.
  - apply zlist_eqb_refl.
  - induction l as [|p l IHl]; [reflexivity|]. rewrite IH. exact IHl.
  - induction l as [|[k p] l IHl]; [reflexivity|]. rewrite String.eqb_refl, IH. exact IHl.
  - induction l as [|[k p] l IHl]; [reflexivity|]. rewrite zlist_eqb_refl, IH. exact IHl.
  - induction l as [|[k p] l IHl]; [reflexivity|]. rewrite Z.eqb_refl, IH. exact IHl.
Qed.

Lemma json_eqb_eq : forall a b, json_eqb a b = true -> a = b.
Proof.
  fix IH 1. intros [ | x | x | x | x | x | x | x | x] [ | y | y | y | y | y | y | y | y] H; cbn [json_eqb] in H; try discriminate.
  - reflexivity.
  - apply Bool.eqb_prop in H. congruence.
  - apply Z.eqb_eq in H. congruence.
  - apply zlist_eqb_eq in H. congruence.
  - apply zlist_eqb_eq in H. congruence.
  - f_equal. revert y H. induction x as [|p x IHx]; intros [|q y] H; try discriminate; [reflexivity|].
    apply andb_true_iff in H. destruct H as [Hp Hx]. f_equal; [apply IH; exact Hp | apply IHx; exact Hx].
  - f_equal. revert y H. induction x as [|[k p] x IHx]; intros [|[k' q] y] H; try discriminate; [reflexivity|].
    apply andb_true_iff in H. destruct H as [H Hx]. apply andb_true_iff in H. destruct H as [Hk Hp].
    apply String.eqb_eq in Hk. subst k'. f_equal; [f_equal; apply IH; exact Hp | apply IHx; exact Hx].
  - f_equal. revert y H. induction x as [|[k p] x IHx]; intros [|[k' q] y] H; try discriminate; [reflexivity|].
    apply andb_true_iff in H. destruct H as [H Hx]. apply andb_true_iff in H. destruct H as [Hk Hp].
    apply zlist_eqb_eq in Hk. subst k'. f_equal; [f_equal; apply IH; exact Hp | apply IHx; exact Hx].
  - f_equal. revert y H. induction x as [|[k p] x IHx]; intros [|[k' q] y] H; try discriminate; [reflexivity|].
    apply andb_true_iff in H. destruct H as [H Hx]. apply andb_true_iff in H. destruct H as [Hk Hp].
    apply Z.eqb_eq in Hk. subst k'. f_equal; [f_equal; apply IH; exact Hp | apply IHx; exact Hx].
Qed.

Lemma json_eqb_iff : forall a b, json_eqb a b = true <-> a = b.
Proof. intros a b. split; [apply json_eqb_eq | intros ->; apply json_eqb_refl]. Qed.

Lemma json_eqb_false_neq : forall a b, json_eqb a b = false -> a <> b.
Proof. intros a b H E. subst. rewrite json_eqb_refl in H. discriminate. Qed.

(* ------------------------------------------------------------------------------------------ *)
(* what "the same event" means for the parties that only see the serialized part *)

Definition same_public (a b : event) : Prop :=
  b_txs (e_body a) = b_txs (e_body b) /\ b_itxs (e_body a) = b_itxs (e_body b) /\
  b_parents (e_body a) = b_parents (e_body b) /\ b_creator (e_body a) = b_creator (e_body b) /\
  b_index (e_body a) = b_index (e_body b) /\ b_bsigs (e_body a) = b_bsigs (e_body b) /\
  b_ts (e_body a) = b_ts (e_body b) /\ e_sig a = e_sig b.

Definition same_wire_info (a b : event) : Prop :=
  b_cid (e_body a) = b_cid (e_body b) /\ b_opcid (e_body a) = b_opcid (e_body b) /\
  b_spi (e_body a) = b_spi (e_body b) /\ b_opi (e_body a) = b_opi (e_body b).

Lemma same_public_digest : forall a b, same_public a b -> event_digest a = event_digest b.
Proof.
  intros a b (H1 & H2 & H3 & H4 & H5 & H6 & H7 & _). unfold event_digest, j_body.
  rewrite H1, H2, H3, H4, H5, H6, H7. reflexivity.
Qed.

Lemma same_public_verify : forall a b, same_public a b -> verify_preserved b a = true.
Proof.
  intros a b H. unfold verify_preserved, same_event_hash. rewrite (same_public_digest a b H), json_eqb_refl.
  destruct H as (_ & _ & _ & _ & _ & _ & _ & Hs). rewrite Hs. apply zlist_eqb_refl.
Qed.

Lemma same_public_clear : forall e, same_public (event_clear e) e.
Proof. intros e. unfold same_public, event_clear. cbn. repeat split. Qed.

(* ------------------------------------------------------------------------------------------ *)
(* wire form and back *)

(* the part of the admission invariant (C07, C16) that the conversion relies on *)
Record store_ok (st : wstore) : Prop := {
  (* the two repertoires (by id, by public key) describe the same peers *)
  so_rep : forall k id, id_of_key k (ws_rep st) = Some id -> zfind id (ws_rep st) = Some k;
  (* an event that the store returns by hash is also the event at (its creator, its index), and
     indexes are not negative *)
  so_ev : forall h k i, ev_find h (ws_ev st) = Some (k, i) ->
          0 <= i /\ forall id, id_of_key k (ws_rep st) = Some id -> pe_find id i (ws_pe st) = Some h }.

Lemma self_parent_back : forall st k cid sp spi,
  store_ok st -> id_of_key k (ws_rep st) = Some cid ->
  (sp <> [] -> exists i, ev_find sp (ws_ev st) = Some (k, i)) ->
  self_parent_index st sp = Some spi ->
  read_self_parent st cid spi = Some sp.
Proof.
  intros st k cid sp spi Hok Hcid Hown H. unfold self_parent_index in H. unfold read_self_parent.
  destruct (zlist_eqb sp []) eqn:Esp.
  - apply zlist_eqb_eq in Esp. inversion H; subst. reflexivity.
  - apply zlist_eqb_neq in Esp. destruct (Hown Esp) as [i Hev]. rewrite Hev in H. inversion H; subst.
    destruct (so_ev st Hok _ _ _ Hev) as [Hi Hpe]. assert (0 <=? spi = true) as -> by lia.
    apply Hpe. exact Hcid.
Qed.

Lemma other_parent_back : forall st op oid opi,
  store_ok st -> other_parent_info st op = Some (inr (oid, opi)) ->
  read_other_parent st oid opi = Some (inr op).
Proof.
  intros st op oid opi Hok H. unfold other_parent_info in H. unfold read_other_parent.
  destruct (zlist_eqb op []) eqn:Eop.
  - apply zlist_eqb_eq in Eop. inversion H; subst. reflexivity.
  - destruct (ev_find op (ws_ev st)) as [[k i]|] eqn:Hev; [|discriminate].
    destruct (id_of_key k (ws_rep st)) as [id|] eqn:Hid; [|discriminate].
    inversion H; subst.
    destruct (so_ev st Hok _ _ _ Hev) as [Hi Hpe]. assert (0 <=? opi = true) as -> by lia.
    rewrite (so_rep st Hok _ _ Hid). rewrite (Hpe _ Hid). reflexivity.
Qed.

Lemma unwire_wire_bsigs : forall k l,
  (forall x b, l = Some x -> In b x -> bs_validator b = Some k) ->
  unwire_bsigs k (wire_bsigs l) = l.
Proof.
  intros k [l|] H; [|reflexivity]. cbn [wire_bsigs unwire_bsigs]. f_equal.
  rewrite map_map. cbn [wbs_index wbs_sig]. rewrite <- (map_id l) at 2. apply map_ext_in.
  intros [v i s] Hin. cbn [bs_index bs_sig]. rewrite <- (H l _ eq_refl Hin). reflexivity.
Qed.

Theorem wire_roundtrip : forall st e e1 sp op k,
  store_ok st ->
  b_parents (e_body e) = Some [sp; op] ->
  b_creator (e_body e) = Some k ->
  (sp <> [] -> exists i, ev_find sp (ws_ev st) = Some (k, i)) ->
  (forall l b, b_bsigs (e_body e) = Some l -> In b l -> bs_validator b = Some k) ->
  set_wire_info st e = inr e1 ->
  exists e2, read_wire st (to_wire e1) = inr e2 /\ same_public e2 e /\ same_wire_info e2 e1.
Proof.
  intros st e e1 sp op k Hok Hpar Hcr Hown Hbs H.
  unfold set_wire_info in H. cbv zeta in H. rewrite Hpar, Hcr in H. cbn [key_bytes] in H.
  destruct (id_of_key k (ws_rep st)) as [cid|] eqn:Hcid; [|discriminate].
  destruct (self_parent_index st sp) as [spi|] eqn:Hsp; [|discriminate].
  destruct (other_parent_info st op) as [[err|[oid opi]]|] eqn:Hop; try discriminate.
  inversion H; subst e1; clear H.
  unfold read_wire, to_wire. cbv zeta.
  cbn [e_body e_sig with_wire b_txs b_itxs b_bsigs b_cid b_opcid b_index b_spi b_opi b_ts
       w_cid w_spi w_opcid w_opi w_txs w_itxs w_bsigs w_index w_ts w_sig].
  rewrite (so_rep st Hok _ _ Hcid).
  rewrite (self_parent_back st k cid sp spi Hok Hcid Hown Hsp).
  rewrite (other_parent_back st op oid opi Hok Hop).
  eexists. split; [reflexivity|].
  split.
  - unfold same_public, mk_event. cbn [e_body e_sig b_txs b_itxs b_parents b_creator b_index b_bsigs b_ts].
    rewrite (unwire_wire_bsigs k (b_bsigs (e_body e)) Hbs). rewrite Hpar, Hcr. repeat split.
  - unfold same_wire_info, mk_event. cbn. repeat split.
Qed.

(* the same through encoding/json (SyncResponse / EagerSyncRequest), for valid UTF-8 strings *)
Lemma set_wire_info_valid : forall st e e1, set_wire_info st e = inr e1 -> event_valid e = true -> event_valid e1 = true.
Proof.
  intros st e e1 H Hv. unfold set_wire_info in H. cbv zeta in H.
  destruct (b_parents (e_body e)) as [[|sp [|op r]]|]; try discriminate.
  destruct (id_of_key _ _); [|discriminate].
  destruct (self_parent_index st sp); [|discriminate].
  destruct (other_parent_info st op) as [[err|[oid opi]]|]; try discriminate.
  inversion H; subst. exact Hv.
Qed.

Theorem wire_roundtrip_json : forall st e e1 sp op k,
  store_ok st ->
  b_parents (e_body e) = Some [sp; op] ->
  b_creator (e_body e) = Some k ->
  (sp <> [] -> exists i, ev_find sp (ws_ev st) = Some (k, i)) ->
  (forall l b, b_bsigs (e_body e) = Some l -> In b l -> bs_validator b = Some k) ->
  event_valid e = true ->
  set_wire_info st e = inr e1 ->
  exists e2, wire_rt true st e1 = Some (inr e2) /\ same_public e2 e /\ same_wire_info e2 e1.
Proof.
  intros st e e1 sp op k Hok Hpar Hcr Hown Hbs Hv H.
  destruct (wire_roundtrip st e e1 sp op k Hok Hpar Hcr Hown Hbs H) as (e2 & Hr & Hp & Hw).
  exists e2. split; [|split; assumption].
  unfold wire_rt, json_rt_wevent. rewrite rt_wevent.
  rewrite n_wevent_valid; [rewrite Hr; reflexivity|].
  apply to_wire_valid. eapply set_wire_info_valid; eassumption.
Qed.

(* ------------------------------------------------------------------------------------------ *)
(* database form *)

Theorem db_roundtrip_general : forall e, db_rt e = Some (n_db e).
Proof. intros e. unfold db_rt. apply rt_wrapper. Qed.

Lemma n_smap_coords_valid : forall m, coords_valid m = true -> n_smap n_coord m = view_coords m.
Proof.
  intros [l|] H; [|reflexivity]. cbn [n_smap view_coords]. f_equal.
  unfold coords_valid in H. cbn [list_all opt_all] in H.
  assert (map (fun kv : gostr * (gostr * Z) => (escape (fst kv), snd kv)) l = l) as ->.
  { rewrite <- (map_id l) at 2. apply map_ext_in. intros [k v] Hin. cbn [fst snd].
    pose proof (list_all_in _ _ _ H Hin) as Hk. cbn [fst snd] in Hk. apply andb_true_iff in Hk.
    rewrite escape_valid by apply Hk. reflexivity. }
  rewrite <- (map_id (isort lex_ltb l)) at 2. apply map_ext_in. intros [k [h i]] Hin. cbn [fst snd].
  apply in_isort in Hin. pose proof (list_all_in _ _ _ H Hin) as Hk. cbn [fst snd] in Hk.
  apply andb_true_iff in Hk. destruct Hk as [Hk Hh].
  unfold n_coord. cbn [fst snd]. rewrite unescape_valid, sanitize_valid by assumption. reflexivity.
Qed.

Theorem db_roundtrip : forall e,
  event_valid e = true -> coords_valid (e_last e) = true -> coords_valid (e_first e) = true ->
  exists e', db_rt e = Some e' /\ same_public e' e /\ same_wire_info e' e /\
    e_topo e' = e_topo e /\ e_last e' = view_coords (e_last e) /\ e_first e' = view_coords (e_first e) /\
    e_round e' = None /\ e_lamport e' = None /\ e_rr e' = None.
Proof.
  intros e Hv Hl Hf. exists (n_db e). split; [apply db_roundtrip_general|].
  unfold event_valid in Hv. apply andb_true_iff in Hv. destruct Hv as [Hb Hs].
  unfold n_db. rewrite (n_body_valid _ Hb), (sanitize_valid _ Hs), (n_smap_coords_valid _ Hl), (n_smap_coords_valid _ Hf).
  split; [unfold same_public; cbn; repeat split|].
  split; [unfold same_wire_info; cbn; repeat split|].
  cbn. repeat split.
Qed.

(* ------------------------------------------------------------------------------------------ *)
(* internal transactions, blocks, frames through JSON *)

Theorem itx_roundtrip : forall t, itx_valid t = true -> json_rt_itx t = Some t.
Proof. intros t H. unfold json_rt_itx. rewrite rt_itx, n_itx_valid by exact H. reflexivity. Qed.

Lemma n_smap_sigs_valid : forall m,
  list_all (fun kv : gostr * gostr => valid_str (fst kv) && valid_str (snd kv)) m = true ->
  n_smap sanitize m = match m with None => None | Some l => Some (isort lex_ltb l) end.
Proof.
  intros [l|] H; [|reflexivity]. cbn [n_smap]. f_equal. cbn [list_all opt_all] in H.
  assert (map (fun kv : gostr * gostr => (escape (fst kv), snd kv)) l = l) as ->.
  { rewrite <- (map_id l) at 2. apply map_ext_in. intros [k v] Hin. cbn [fst snd].
    pose proof (list_all_in _ _ _ H Hin) as Hk. cbn [fst snd] in Hk. apply andb_true_iff in Hk.
    rewrite escape_valid by apply Hk. reflexivity. }
  rewrite <- (map_id (isort lex_ltb l)) at 2. apply map_ext_in. intros [k v] Hin. cbn [fst snd].
  apply in_isort in Hin. pose proof (list_all_in _ _ _ H Hin) as Hk. cbn [fst snd] in Hk.
  apply andb_true_iff in Hk. destruct Hk as [Hk Hv].
  rewrite unescape_valid, sanitize_valid by assumption. reflexivity.
Qed.

Theorem block_roundtrip : forall b,
  block_valid b = true ->
  json_rt_block b = Some (view_block b) /\
  blockbody_digest (view_block b) = blockbody_digest b /\
  block_digest (view_block b) = block_digest b.
Proof.
  intros b H. unfold block_valid in H. split_and.
  split.
  - unfold json_rt_block. rewrite rt_block. unfold n_block, view_block.
    rewrite n_blockbody_valid by assumption. rewrite n_smap_sigs_valid by assumption. reflexivity.
  - split; [reflexivity|].
    unfold block_digest, j_block, view_block. cbn [bl_body bl_sigs]. do 3 f_equal.
    destruct (bl_sigs b) as [l|]; [|reflexivity]. cbn [j_smap]. f_equal.
    match goal with Hs : list_all _ (Some l) = true |- _ => cbn [list_all opt_all] in Hs; rename Hs into Hsig end.
    assert (forall l', (forall kv, In kv l' -> In kv l) ->
              map (fun kv : gostr * gostr => (escape (fst kv), j_str escape (snd kv))) l'
              = map (fun kv : gostr * gostr => (fst kv, j_str escape (snd kv))) l') as Hm.
    { intros l' Hsub. apply map_ext_in. intros [k v] Hin. cbn [fst snd].
      pose proof (list_all_in _ _ _ Hsig (Hsub _ Hin)) as Hk. cbn [fst snd] in Hk. apply andb_true_iff in Hk.
      rewrite escape_valid by apply Hk. reflexivity. }
    rewrite (Hm l) by auto. rewrite (Hm (isort lex_ltb l)) by (intros kv Hin; apply in_isort in Hin; exact Hin).
    rewrite !isort_map_val, isort_lex_idem. reflexivity.
Qed.

Theorem frame_json_roundtrip_general : forall f, json_rt_frame f = Some (n_frame false f).
Proof. intros f. unfold json_rt_frame. apply rt_frame. Qed.

Lemma frame_digest_n : forall ug f,
  frame_valid f = true -> (ug = true -> no_nil_root f = true) ->
  frame_digest (n_frame ug f) = frame_digest f.
Proof.
  intros ug f Hv Hug. unfold frame_digest.
  rewrite (jn_frame raw ug f sf_ok_raw Hv Hug), (jn_frame escape ug f sf_ok_escape Hv Hug). reflexivity.
Qed.

Theorem frame_json_roundtrip : forall f,
  frame_valid f = true ->
  exists f', json_rt_frame f = Some f' /\ frame_digest f' = frame_digest f /\ f' = n_frame false f.
Proof.
  intros f Hv. exists (n_frame false f). split; [apply frame_json_roundtrip_general|].
  split; [|reflexivity]. apply frame_digest_n; [exact Hv | discriminate].
Qed.

(* Frame.Marshal / Unmarshal (the database form of a frame): only when the writer terminates *)
Theorem frame_db_roundtrip : forall f,
  frame_valid f = true -> no_nil_root f = true -> frame_digest f <> None ->
  exists f', ug_rt_frame f = Some (Some f') /\ frame_digest f' = frame_digest f /\ f' = n_frame true f.
Proof.
  intros f Hv Hn Hd. exists (n_frame true f). unfold ug_rt_frame. unfold frame_digest in Hd.
  destruct (ug_write (j_frame raw f) (j_frame escape f)); [|contradiction].
  rewrite rt_frame. split; [reflexivity|]. split; [|reflexivity].
  apply frame_digest_n; [exact Hv | intros _; exact Hn].
Qed.

(* the events of a frame arrive with the same serialized part (hence the same hash and signature),
   and WITHOUT any private field *)
Theorem frame_events_roundtrip : forall f l,
  frame_valid f = true -> f_events f = Some l ->
  f_events (n_frame false f) =
  Some (map (fun o => match o with
                      | None => None
                      | Some fe => Some {| fe_core := match fe_core fe with None => None | Some e => Some (event_clear e) end;
                                          fe_round := fe_round fe; fe_lamport := fe_lamport fe; fe_witness := fe_witness fe |}
                      end) l).
Proof.
  intros f l Hv Hl. unfold frame_valid in Hv. split_and.
  unfold n_frame. cbn [f_events]. rewrite Hl in *. cbn [n_list]. f_equal.
  match goal with He : list_all (opt_all fevent_valid) (Some l) = true |- _ => cbn [list_all opt_all] in He; rename He into Hev end.
  apply map_ext_in. intros [fe|] Hin; [|reflexivity]. cbn [n_ptr]. f_equal.
  pose proof (list_all_in _ _ _ Hev Hin) as Hfe. cbn [opt_all] in Hfe. unfold fevent_valid in Hfe.
  unfold n_fevent. f_equal. destruct (fe_core fe) as [e|]; [|reflexivity].
  cbn [n_ptr opt_all] in *. rewrite n_event_valid by exact Hfe. reflexivity.
Qed.

(* ------------------------------------------------------------------------------------------ *)
(* the frame digest does not depend on the order in which the two maps were filled, nor on any
   private field of the events it carries *)

Definition frame_perm (f g : frame) : Prop :=
  f_round f = f_round g /\ f_peers f = f_peers g /\ f_events f = f_events g /\ f_ts f = f_ts g /\
  match f_roots f, f_roots g with
  | None, None => True
  | Some l1, Some l2 => Permutation l1 l2 /\ NoDup (map fst l1) /\ NoDup (map (fun kv => escape (fst kv)) l1)
  | _, _ => False
  end /\
  match f_psets f, f_psets g with
  | None, None => True
  | Some l1, Some l2 => Permutation l1 l2 /\ NoDup (map fst l1)
  | _, _ => False
  end.

Lemma j_smap_perm : forall {A} sf (g : A -> json) (l1 l2 : list (gostr * A)),
  Permutation l1 l2 -> NoDup (map (fun kv => sf (fst kv)) l1) ->
  j_smap sf g (Some l1) = j_smap sf g (Some l2).
Proof.
  intros A sf g l1 l2 Hp Hnd. cbn [j_smap]. f_equal. apply isort_lex_perm.
  - rewrite map_map. cbn [fst]. exact Hnd.
  - apply Permutation_map. exact Hp.
Qed.

Lemma j_imap_perm : forall {A} (g : A -> json) (l1 l2 : list (Z * A)),
  Permutation l1 l2 -> NoDup (map fst l1) -> j_imap g (Some l1) = j_imap g (Some l2).
Proof.
  intros A g l1 l2 Hp Hnd. cbn [j_imap]. f_equal. apply isort_z_perm.
  - rewrite map_map. cbn [fst]. exact Hnd.
  - apply Permutation_map. exact Hp.
Qed.

Lemma j_frame_perm : forall sf f g,
  (sf = raw \/ sf = escape) -> frame_perm f g -> j_frame sf f = j_frame sf g.
Proof.
  intros sf [r ps rs es pss ts] [r' ps' rs' es' pss' ts'] Hsf (H1 & H2 & H3 & H4 & H5 & H6).
  cbn [f_round f_peers f_roots f_events f_psets f_ts] in *. subst r' ps' es' ts'.
  unfold j_frame. cbn [f_round f_peers f_roots f_events f_psets f_ts].
  assert (j_smap sf (j_ptr (j_root sf)) rs = j_smap sf (j_ptr (j_root sf)) rs') as ->.
  { destruct rs as [l1|], rs' as [l2|]; try contradiction; [|reflexivity].
    destruct H5 as (Hp & Hn1 & Hn2). apply j_smap_perm; [exact Hp|].
    destruct Hsf as [-> | ->]; [exact Hn1 | exact Hn2]. }
  assert (j_imap (j_peers sf) pss = j_imap (j_peers sf) pss') as ->.
  { destruct pss as [l1|], pss' as [l2|]; try contradiction; [|reflexivity].
    destruct H6 as (Hp & Hn). apply j_imap_perm; assumption. }
  reflexivity.
Qed.

Theorem frame_canonical : forall f g, frame_perm f g -> frame_digest f = frame_digest g.
Proof.
  intros f g H. unfold frame_digest.
  rewrite (j_frame_perm raw f g (or_introl eq_refl) H), (j_frame_perm escape f g (or_intror eq_refl) H).
  reflexivity.
Qed.

(* private fields: two frames whose events differ only in private fields have the same digest *)
Lemma j_event_private : forall sf e b' s' t r l rr la fd hc,
  b' = e_body e -> s' = e_sig e ->
  j_event sf {| e_body := with_wire b' 0 0 0 0; e_sig := s'; e_topo := t; e_round := r; e_lamport := l;
                e_rr := rr; e_last := la; e_first := fd; e_hexc := hc |} = j_event sf e.
Proof. intros; subst; reflexivity. Qed.

(* ------------------------------------------------------------------------------------------ *)
(* hash functions: every statement above about digest inputs transfers to any hash function *)

Section Hash.
  Variable H : json -> Z.
  Definition event_hash (e : event) : Z := H (event_digest e).
  (* Event.Hex() with the private cache *)
  Definition event_hex (e : event) : Z := match e_hexc e with Some h => h | None => event_hash e end.
  Definition cache_coherent (e : event) : Prop := forall h, e_hexc e = Some h -> h = event_hash e.

  Lemma same_public_hash : forall a b, same_public a b -> event_hash a = event_hash b.
  Proof. intros a b Hp. unfold event_hash. rewrite (same_public_digest a b Hp). reflexivity. Qed.

  Lemma same_public_hex : forall a b,
    same_public a b -> cache_coherent a -> cache_coherent b -> event_hex a = event_hex b.
  Proof.
    intros a b Hp Ha Hb. unfold event_hex.
    destruct (e_hexc a) as [ha|] eqn:Ea; destruct (e_hexc b) as [hb|] eqn:Eb.
    - rewrite (Ha _ Ea), (Hb _ Eb). apply same_public_hash. exact Hp.
    - rewrite (Ha _ Ea). apply same_public_hash. exact Hp.
    - rewrite (Hb _ Eb). apply same_public_hash. exact Hp.
    - apply same_public_hash. exact Hp.
  Qed.
End Hash.

(* ------------------------------------------------------------------------------------------ *)
(* a checker for store_ok (used on concrete stores) *)

Definition store_ok_b (st : wstore) : bool :=
  forallb (fun p : Z * bytes =>
             match id_of_key (snd p) (ws_rep st) with
             | Some id => match zfind id (ws_rep st) with Some k => zlist_eqb k (snd p) | None => false end
             | None => true
             end) (ws_rep st) &&
  forallb (fun x : gostr * (bytes * Z) =>
             (0 <=? snd (snd x)) &&
             match id_of_key (fst (snd x)) (ws_rep st) with
             | Some id => match pe_find id (snd (snd x)) (ws_pe st) with
                          | Some h => zlist_eqb h (fst x)
                          | None => false
                          end
             | None => true
             end) (ws_ev st).

Lemma id_of_key_in : forall k l id, id_of_key k l = Some id -> exists k', In (id, k') l /\ k' = k.
Proof.
  induction l as [|[i k'] l IH]; intros id H; cbn [id_of_key] in H; [discriminate|].
  destruct (zlist_eqb k' k) eqn:E.
  - apply zlist_eqb_eq in E. inversion H; subst. exists k. split; [left; reflexivity | reflexivity].
  - destruct (IH _ H) as (k2 & Hin & Hk). exists k2. split; [right; exact Hin | exact Hk].
Qed.

Lemma ev_find_in : forall h l v, ev_find h l = Some v -> In (h, v) l.
Proof.
  induction l as [|[h' v'] l IH]; intros v H; cbn [ev_find] in H; [discriminate|].
  destruct (zlist_eqb h' h) eqn:E.
  - apply zlist_eqb_eq in E. inversion H; subst. left. reflexivity.
  - right. apply IH. exact H.
Qed.

Lemma store_ok_b_sound : forall st, store_ok_b st = true -> store_ok st.
Proof.
  intros st H. unfold store_ok_b in H. apply andb_true_iff in H. destruct H as [H1 H2].
  rewrite forallb_forall in H1, H2. constructor.
  - intros k id Hid. destruct (id_of_key_in _ _ _ Hid) as (k' & Hin & ->).
    pose proof (H1 _ Hin) as Hc. cbn [snd] in Hc. rewrite Hid in Hc.
    destruct (zfind id (ws_rep st)) as [k2|]; [|discriminate]. apply zlist_eqb_eq in Hc. subst. reflexivity.
  - intros h k i Hev. pose proof (H2 _ (ev_find_in _ _ _ Hev)) as Hc. cbn [fst snd] in Hc.
    apply andb_true_iff in Hc. destruct Hc as [Hi Hc]. split; [lia|].
    intros id Hid. rewrite Hid in Hc. destruct (pe_find id i (ws_pe st)) as [h'|]; [|discriminate].
    apply zlist_eqb_eq in Hc. subst. reflexivity.
Qed.

Lemma same_public_same_hash : forall (H : json -> Z) a b,
  same_public a b -> cache_coherent H a -> cache_coherent H b ->
  event_hash H a = event_hash H b /\ event_hex H a = event_hex H b /\ verify_preserved b a = true.
Proof.
  intros H a b Hp Ha Hb. split; [apply same_public_hash; exact Hp|].
  split; [apply same_public_hex; assumption | apply same_public_verify; exact Hp].
Qed.
