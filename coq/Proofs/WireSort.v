(* C15: facts about the key orders and the insertion sort of map entries used by Model/Wire.v. *)
From Coq Require Import ZArith List Bool Lia Permutation Sorted Relations RelationClasses.
From V Require Import Model.Wire.
Import ListNotations.
Open Scope Z_scope.

(* ---- equality test on lists of integers ---- *)

Lemma zlist_eqb_eq : forall a b, zlist_eqb a b = true <-> a = b.
Proof.
  induction a as [|x a IH]; destruct b as [|y b]; cbn [zlist_eqb]; split; intros H; try reflexivity; try discriminate.
  - apply andb_true_iff in H. destruct H as [Hxy Hab]. apply Z.eqb_eq in Hxy. apply IH in Hab. congruence.
  - inversion H; subst. apply andb_true_iff. split; [apply Z.eqb_refl | apply IH; reflexivity].
Qed.

Lemma zlist_eqb_refl : forall a, zlist_eqb a a = true.
Proof. intros a. apply zlist_eqb_eq. reflexivity. Qed.

Lemma zlist_eqb_neq : forall a b, zlist_eqb a b = false <-> a <> b.
Proof.
  intros a b. split.
  - intros H E. apply zlist_eqb_eq in E. congruence.
  - intros H. destruct (zlist_eqb a b) eqn:E; [|reflexivity]. apply zlist_eqb_eq in E. contradiction.
Qed.

(* ---- the lexicographic order is a strict total order ---- *)

Lemma lex_ltb_irrefl : forall a, lex_ltb a a = false.
Proof.
  induction a as [|x a IH]; cbn [lex_ltb]; [reflexivity|].
  rewrite Z.ltb_irrefl. exact IH.
Qed.

Lemma lex_ltb_trans : forall a b c, lex_ltb a b = true -> lex_ltb b c = true -> lex_ltb a c = true.
Proof.
  induction a as [|x a IH]; intros [|y b] [|z c] Hab Hbc; cbn [lex_ltb] in *; try reflexivity; try discriminate.
  destruct (x <? y) eqn:Exy.
  - destruct (y <? z) eqn:Eyz.
    + assert (x <? z = true) as -> by lia. reflexivity.
    + destruct (z <? y) eqn:Ezy; [discriminate|].
      assert (x <? z = true) as -> by lia. reflexivity.
  - destruct (y <? x) eqn:Eyx; [discriminate|].
    assert (x = y) by lia. subst y.
    destruct (x <? z) eqn:Exz; [reflexivity|].
    destruct (z <? x) eqn:Ezx; [discriminate|].
    eapply IH; eassumption.
Qed.

Lemma lex_ltb_total : forall a b, lex_ltb a b = false -> lex_ltb b a = false -> a = b.
Proof.
  induction a as [|x a IH]; intros [|y b] Hab Hba; cbn [lex_ltb] in *; try reflexivity; try discriminate.
  destruct (x <? y) eqn:Exy; [discriminate|].
  destruct (y <? x) eqn:Eyx; [discriminate|].
  assert (x = y) by lia. subst y. f_equal. apply IH; assumption.
Qed.

Lemma zltb_irrefl : forall a, Z.ltb a a = false.
Proof. intros. apply Z.ltb_irrefl. Qed.
Lemma zltb_trans : forall a b c, Z.ltb a b = true -> Z.ltb b c = true -> Z.ltb a c = true.
Proof. intros. lia. Qed.
Lemma zltb_total : forall a b, Z.ltb a b = false -> Z.ltb b a = false -> a = b.
Proof. intros. lia. Qed.

(* ---- insertion sort ---- *)

Section SortFacts.
  Context {K V : Type}.
  Variable ltb : K -> K -> bool.
  Hypothesis ltb_irrefl : forall a, ltb a a = false.
  Hypothesis ltb_trans : forall a b c, ltb a b = true -> ltb b c = true -> ltb a c = true.
  Hypothesis ltb_total : forall a b, ltb a b = false -> ltb b a = false -> a = b.

  Definition kle (a b : K * V) : Prop := ltb (fst b) (fst a) = false.

  Lemma ltb_asym : forall a b, ltb a b = true -> ltb b a = false.
  Proof.
    intros a b H. destruct (ltb b a) eqn:E; [|reflexivity].
    pose proof (ltb_trans _ _ _ H E) as H1. rewrite ltb_irrefl in H1. discriminate.
  Qed.

  Lemma kle_trans : forall a b c, kle a b -> kle b c -> kle a c.
  Proof.
    unfold kle. intros a b c Hab Hbc.
    destruct (ltb (fst c) (fst a)) eqn:Eca; [|reflexivity].
    destruct (ltb (fst b) (fst c)) eqn:Ebc.
    - pose proof (ltb_trans _ _ _ Ebc Eca). congruence.
    - assert (fst b = fst c) as E by (apply ltb_total; assumption).
      rewrite <- E in Eca. congruence.
  Qed.

  Lemma ins_hd : forall (x : K * V) (l : list (K * V)), HdRel kle x l -> ins ltb x l = x :: l.
  Proof.
    intros x [|y r] H; cbn [ins]; [reflexivity|].
    inversion H as [|? ? Hxy]; subst. unfold kle in Hxy. rewrite Hxy. reflexivity.
  Qed.

  Lemma isort_of_sorted : forall l : list (K * V), Sorted kle l -> isort ltb l = l.
  Proof.
    induction l as [|x l IH]; intros H; [reflexivity|].
    inversion H; subst. unfold isort in *. cbn [fold_right]. rewrite IH by assumption.
    apply ins_hd. assumption.
  Qed.

  Lemma ins_perm : forall (x : K * V) (l : list (K * V)), Permutation (ins ltb x l) (x :: l).
  Proof.
    induction l as [|y r IH]; cbn [ins]; [apply Permutation_refl|].
    destruct (ltb (fst y) (fst x)).
    - eapply perm_trans; [apply perm_skip; exact IH | apply perm_swap].
    - apply Permutation_refl.
  Qed.

  Lemma isort_perm_self : forall l : list (K * V), Permutation (isort ltb l) l.
  Proof.
    induction l as [|x l IH]; [apply Permutation_refl|].
    unfold isort in *. cbn [fold_right].
    eapply perm_trans; [apply ins_perm | apply perm_skip; exact IH].
  Qed.

  Lemma ins_sorted : forall (x : K * V) (l : list (K * V)), Sorted kle l -> Sorted kle (ins ltb x l).
  Proof.
    induction l as [|y r IH]; intros H; cbn [ins].
    - constructor; constructor.
    - inversion H as [|? ? Hr Hhd]; subst.
      destruct (ltb (fst y) (fst x)) eqn:E.
      + constructor; [apply IH; assumption|].
        destruct r as [|z r']; cbn [ins].
        * constructor. unfold kle. apply ltb_asym. exact E.
        * destruct (ltb (fst z) (fst x)).
          -- inversion Hhd; subst. constructor. assumption.
          -- constructor. unfold kle. apply ltb_asym. exact E.
      + constructor; [exact H|]. constructor. unfold kle. exact E.
  Qed.

  Lemma isort_sorted : forall l : list (K * V), Sorted kle (isort ltb l).
  Proof.
    induction l as [|x l IH]; [constructor|].
    unfold isort in *. cbn [fold_right]. apply ins_sorted. exact IH.
  Qed.

  Lemma isort_idem : forall l : list (K * V), isort ltb (isort ltb l) = isort ltb l.
  Proof. intros l. apply isort_of_sorted. apply isort_sorted. Qed.

  Lemma nodup_key_inj : forall (l : list (K * V)) x y,
    NoDup (map fst l) -> In x l -> In y l -> fst x = fst y -> x = y.
  Proof.
    induction l as [|z l IH]; intros x y Hnd Hx Hy E; [contradiction|].
    cbn [map] in Hnd. inversion Hnd as [|? ? Hnin Hnd']; subst.
    destruct Hx as [Hx|Hx]; destruct Hy as [Hy|Hy]; subst.
    - reflexivity.
    - exfalso. apply Hnin. rewrite E. apply in_map. exact Hy.
    - exfalso. apply Hnin. rewrite <- E. apply in_map. exact Hx.
    - apply IH; assumption.
  Qed.

  Lemma sorted_perm_eq : forall a b : list (K * V),
    Sorted kle a -> Sorted kle b -> NoDup (map fst a) -> Permutation a b -> a = b.
  Proof.
    induction a as [|x a IH]; intros b Ha Hb Hnd Hp.
    - apply Permutation_nil in Hp. subst. reflexivity.
    - destruct b as [|y b].
      { apply Permutation_sym in Hp. apply Permutation_nil in Hp. discriminate. }
      assert (Transitive kle) as Tr by (intros p q r; apply kle_trans).
      pose proof (Sorted_StronglySorted Tr Ha) as SSa.
      pose proof (Sorted_StronglySorted Tr Hb) as SSb.
      inversion SSa as [|? ? SSa' Fa]; subst. inversion SSb as [|? ? SSb' Fb]; subst.
      assert (x = y) as Exy.
      { assert (In y (x :: a)) as Hy by (eapply Permutation_in; [apply Permutation_sym; exact Hp | left; reflexivity]).
        assert (In x (y :: b)) as Hx by (eapply Permutation_in; [exact Hp | left; reflexivity]).
        destruct Hy as [Hy|Hy]; [exact Hy|].
        destruct Hx as [Hx|Hx]; [symmetry; exact Hx|].
        rewrite Forall_forall in Fa, Fb.
        pose proof (Fa _ Hy) as Lxy. pose proof (Fb _ Hx) as Lyx. unfold kle in Lxy, Lyx.
        apply (nodup_key_inj (x :: a)); [exact Hnd | left; reflexivity | right; exact Hy |].
        apply ltb_total; assumption. }
      subst y. f_equal.
      apply IH.
      + inversion Ha; assumption.
      + inversion Hb; assumption.
      + cbn [map] in Hnd. inversion Hnd; assumption.
      + eapply Permutation_cons_inv. exact Hp.
  Qed.

  (* the sorted listing of a map does not depend on the order in which it was filled *)
  Lemma isort_perm : forall l1 l2 : list (K * V),
    NoDup (map fst l1) -> Permutation l1 l2 -> isort ltb l1 = isort ltb l2.
  Proof.
    intros l1 l2 Hnd Hp. apply sorted_perm_eq.
    - apply isort_sorted.
    - apply isort_sorted.
    - eapply Permutation_NoDup; [|exact Hnd].
      apply Permutation_map. apply Permutation_sym. apply isort_perm_self.
    - eapply perm_trans; [apply isort_perm_self|].
      eapply perm_trans; [exact Hp|]. apply Permutation_sym. apply isort_perm_self.
  Qed.
End SortFacts.

(* sorting commutes with a map over the values *)
Lemma ins_map_val : forall {K V W} (ltb : K -> K -> bool) (g : V -> W) k v (l : list (K * V)),
  ins ltb (k, g v) (map (fun kv => (fst kv, g (snd kv))) l) =
  map (fun kv => (fst kv, g (snd kv))) (ins ltb (k, v) l).
Proof.
  intros K V W ltb g k v. induction l as [|[k' v'] r IH]; cbn [ins map fst snd]; [reflexivity|].
  destruct (ltb k' k).
  - cbn [map fst snd]. f_equal. exact IH.
  - reflexivity.
Qed.

Lemma isort_map_val : forall {K V W} (ltb : K -> K -> bool) (g : V -> W) (l : list (K * V)),
  isort ltb (map (fun kv => (fst kv, g (snd kv))) l) = map (fun kv => (fst kv, g (snd kv))) (isort ltb l).
Proof.
  intros K V W ltb g. induction l as [|[k v] r IH]; [reflexivity|].
  unfold isort in *. cbn [map fold_right fst snd]. rewrite IH. apply ins_map_val.
Qed.

Lemma isort_lex_idem : forall {V} (l : list (gostr * V)), isort lex_ltb (isort lex_ltb l) = isort lex_ltb l.
Proof. intros. apply isort_idem; eauto using lex_ltb_irrefl, lex_ltb_trans, lex_ltb_total. Qed.
Lemma isort_z_idem : forall {V} (l : list (Z * V)), isort Z.ltb (isort Z.ltb l) = isort Z.ltb l.
Proof. intros. apply isort_idem; eauto using zltb_irrefl, zltb_trans, zltb_total. Qed.
Lemma isort_lex_perm : forall {V} (l1 l2 : list (gostr * V)),
  NoDup (map fst l1) -> Permutation l1 l2 -> isort lex_ltb l1 = isort lex_ltb l2.
Proof. intros. apply isort_perm; eauto using lex_ltb_irrefl, lex_ltb_trans, lex_ltb_total. Qed.
Lemma isort_z_perm : forall {V} (l1 l2 : list (Z * V)),
  NoDup (map fst l1) -> Permutation l1 l2 -> isort Z.ltb l1 = isort Z.ltb l2.
Proof. intros. apply isort_perm; eauto using zltb_irrefl, zltb_trans, zltb_total. Qed.
