(* C15: proofs about the concrete witnesses of Model/WireWitness.v. *)
From Coq Require Import ZArith List Bool String Permutation.
From V Require Import Model.Wire Model.WireWitness Proofs.WireSort Proofs.WireJson Proofs.WireProofs Proofs.WireFrameProofs.
Import ListNotations.
Open Scope Z_scope.

Lemma frame_hash_total_refuted : exists f, frame_valid f = true /\ frame_digest f = None.
Proof. exists frame_fffd. split; vm_compute; reflexivity. Qed.

Lemma invalid_utf8_changes_hash : exists t t', json_rt_itx t = Some t' /\ itx_digest t' <> itx_digest t.
Proof.
  exists itx_bad, (n_itx itx_bad). split; [vm_compute; reflexivity|].
  apply json_eqb_false_neq. vm_compute. reflexivity.
Qed.

Lemma wire_foreign_signature_changes_hash :
  exists st e e1 e2, store_ok_b st = true /\ set_wire_info st e = inr e1 /\ read_wire st (to_wire e1) = inr e2 /\
                     event_digest e2 <> event_digest e.
Proof.
  exists st0, (ev1 foreign_sigs), ev1f, (or_else (read_wire st0 (to_wire ev1f)) (ev1 None)).
  split; [vm_compute; reflexivity|]. split; [vm_compute; reflexivity|]. split; [vm_compute; reflexivity|].
  apply json_eqb_false_neq. vm_compute. reflexivity.
Qed.

(* regression witness for fix 5bf08c3: the same arrived event, inserted by the pre-fix and by the
   fixed InsertFrameEvent on the same store *)
Lemma frame_event_rewire_regression :
  exists rs ds n h fe e e_old e_new l,
    store_ok_b rs = true /\ event_valid e = true /\
    read_wire rs (to_wire e) = inr l /\ same_event_hash l e = true /\
    (* what a JSON hop delivers, inserted by the pre-fix function: unreadable *)
    insert_frame_event_prefix ds n h fe (arrived e) = Some (store_add ds h 11 e_old, n, e_old) /\
    read_wire rs (to_wire e_old) = inl ECreator /\
    (* the same, inserted by the fixed function (other-parent in D's store): same hash *)
    insert_frame_event ds n h fe (arrived e) = Some (store_add ds h 11 e_new, n + 1, e_new) /\
    (exists l', read_wire rs (to_wire e_new) = inr l' /\ same_event_hash l' e = true).
Proof.
  exists st0, (store_add ds0 hB0 22 (arrived evB0)), 1, hA1, fe0, ev1w.
  exists (third (insert_frame_event_prefix (store_add ds0 hB0 22 (arrived evB0)) 1 hA1 fe0 (arrived ev1w)) ev1w).
  exists (third (insert_frame_event (store_add ds0 hB0 22 (arrived evB0)) 1 hA1 fe0 (arrived ev1w)) ev1w).
  exists (or_else (read_wire st0 (to_wire ev1w)) ev1w).
  repeat split; try (vm_compute; reflexivity).
  eexists. split; vm_compute; reflexivity.
Qed.

(* the whole frame in order: both events named, consecutive topological indexes; the event alone:
   residual flag false and the reader builds an event without the other-parent *)
Lemma frame_insert_example :
  match insert_frame_events ds0 0 frame_list2 with
  | Some (_, n, [(b, fb); (a, fa)]) =>
    n = 2 /\ fb = true /\ fa = true /\ e_topo b = 0 /\ e_topo a = 1 /\
    (b_cid (e_body a), b_opcid (e_body a), b_spi (e_body a), b_opi (e_body a)) = (11, 22, 0, 0) /\
    match read_wire st0 (to_wire a) with inr a' => same_event_hash a' ev1w = true | inl _ => False end
  | _ => False
  end /\
  match insert_frame_events ds0 0 frame_list1 with
  | Some (_, _, [(a, fa)]) =>
    fa = false /\
    match read_wire st0 (to_wire a) with
    | inr a' => b_parents (e_body a') = Some [hA0; []] /\ same_event_hash a' ev1w = false
    | inl _ => False
    end
  | _ => False
  end.
Proof. vm_compute. repeat split. Qed.

(* validated text: a frame that passes, one that does not *)
Lemma text_validation_example :
  frame_text_ok frame1 = true /\ frame_digest frame1 <> None /\
  frame_text_ok frame_fffd = false /\ itx_text_ok itx_bad = false.
Proof. vm_compute. repeat split; discriminate. Qed.
