(* C15: proofs about the concrete witnesses of Model/WireWitness.v. *)
From Coq Require Import ZArith List Bool String Permutation.
From V Require Import Model.Wire Model.WireWitness Proofs.WireSort Proofs.WireJson Proofs.WireProofs.
Import ListNotations.
Open Scope Z_scope.

Lemma frame_hash_total_refuted : exists f, frame_valid f = true /\ frame_digest f = None.
Proof. exists frame_fffd. split; vm_compute; reflexivity. Qed.

Lemma invalid_utf8_changes_hash : exists t t', json_rt_itx t = Some t' /\ itx_digest t' <> itx_digest t.
Proof.
  exists itx_bad, (n_itx itx_bad). split; [vm_compute; reflexivity|].
  apply json_eqb_false_neq. vm_compute. reflexivity.
Qed.

Lemma wire_foreign_signature_changes_hash :
  exists st e e1 e2, store_ok_b st = true /\ set_wire_info st e = inr e1 /\ read_wire st (to_wire e1) = inr e2 /\
                     event_digest e2 <> event_digest e.
Proof.
  exists st0, (ev1 foreign_sigs), ev1f, (or_else (read_wire st0 (to_wire ev1f)) (ev1 None)).
  split; [vm_compute; reflexivity|]. split; [vm_compute; reflexivity|]. split; [vm_compute; reflexivity|].
  apply json_eqb_false_neq. vm_compute. reflexivity.
Qed.

Lemma frame_event_rewire_refuted :
  exists st f f' e e' l,
    store_ok_b st = true /\ frame_valid f = true /\ json_rt_frame f = Some f' /\
    f_events f = Some [Some {| fe_core := Some e; fe_round := 0; fe_lamport := 0; fe_witness := false |}] /\
    f_events f' = Some [Some {| fe_core := Some e'; fe_round := 0; fe_lamport := 0; fe_witness := false |}] /\
    read_wire st (to_wire e) = inr l /\ same_event_hash l e = true /\
    read_wire st (to_wire e') = inl ECreator.
Proof.
  exists st0, frame1, (n_frame false frame1), ev1w, (event_clear ev1w), (or_else (read_wire st0 (to_wire ev1w)) ev1w).
  repeat split; vm_compute; reflexivity.
Qed.
