From Coq Require Import ZArith List Bool Lia FMapPositive.
From V Require Import Model.ZMap.
Import ListNotations.
Open Scope Z_scope.

Lemma zkey_inj k k' : 0 <= k -> 0 <= k' -> zkey k = zkey k' -> k = k'.
Proof. unfold zkey; intros H H' E. apply (f_equal Z.pos) in E. rewrite !Z2Pos.id in E by lia. lia. Qed.

Lemma zget_zset_same {A} k (v : A) m : 0 <= k -> zget k (zset k v m) = Some v.
Proof.
  unfold zget, zset; intros H. destruct (k <? 0) eqn:E; [lia|]. apply PositiveMap.gss.
Qed.

Lemma zget_zset_other {A} k k' (v : A) m : k <> k' -> zget k' (zset k v m) = zget k' m.
Proof.
  unfold zget, zset; intros H. destruct (k' <? 0) eqn:E'; [reflexivity|].
  destruct (k <? 0) eqn:E; [reflexivity|]. apply PositiveMap.gso.
  intros C; apply zkey_inj in C; lia.
Qed.

Lemma zget_zset_neg {A} k (v : A) m : k < 0 -> zset k v m = m.
Proof. unfold zset; intros H; destruct (k <? 0) eqn:E; [reflexivity|lia]. Qed.

Lemma zget_neg {A} k (m : zmap A) : k < 0 -> zget k m = None.
Proof. unfold zget; intros H; destruct (k <? 0) eqn:E; [reflexivity|lia]. Qed.

Lemma zget_empty {A} k : zget k (@zempty A) = None.
Proof. unfold zget, zempty; destruct (k <? 0); [reflexivity|apply PositiveMap.gempty]. Qed.

Lemma zget_zset {A} k k' (v : A) m :
  zget k' (zset k v m) = if (k =? k') && (0 <=? k) then Some v else zget k' m.
Proof.
  destruct (Z.eqb_spec k k') as [->|Hne].
  - destruct (Z.leb_spec 0 k'); cbn [andb].
    + apply zget_zset_same; auto.
    + rewrite zget_zset_neg by lia. reflexivity.
  - cbn [andb]. apply zget_zset_other; auto.
Qed.

Lemma zget_some_nonneg {A} k (m : zmap A) v : zget k m = Some v -> 0 <= k.
Proof. unfold zget; destruct (k <? 0) eqn:E; [discriminate|lia]. Qed.

Lemma zmem_zget {A} k (m : zmap A) : zmem k m = true <-> exists v, zget k m = Some v.
Proof. unfold zmem; destruct (zget k m); split; eauto; try discriminate. intros [v Hv]; discriminate. Qed.

(* association lists *)
Lemma aget_aset_same {A} k (v : A) l : aget k (aset k v l) = Some v.
Proof.
  induction l as [|[k' v'] r IH]; cbn [aset aget]; [rewrite Z.eqb_refl; reflexivity|].
  destruct (Z.eqb_spec k' k); cbn [aget]; [rewrite Z.eqb_refl; reflexivity|].
  destruct (Z.eqb_spec k' k); [contradiction|]. exact IH.
Qed.

Lemma aget_aset_other {A} k k' (v : A) l : k <> k' -> aget k' (aset k v l) = aget k' l.
Proof.
  intros Hne. induction l as [|[k0 v0] r IH]; cbn [aset aget].
  - destruct (Z.eqb_spec k k'); [contradiction|reflexivity].
  - destruct (Z.eqb_spec k0 k) as [->|Hn]; cbn [aget].
    + destruct (Z.eqb_spec k k'); [contradiction|reflexivity].
    + destruct (Z.eqb_spec k0 k'); [reflexivity|exact IH].
Qed.

Lemma aget_app_none {A} k (l l' : list (Z * A)) : aget k l = None -> aget k (l ++ l') = aget k l'.
Proof.
  induction l as [|[k0 v0] r IH]; cbn [aget app]; [reflexivity|].
  destruct (Z.eqb k0 k); [discriminate|exact IH].
Qed.
Lemma aget_app_some {A} k (l l' : list (Z * A)) v : aget k l = Some v -> aget k (l ++ l') = Some v.
Proof.
  induction l as [|[k0 v0] r IH]; cbn [aget app]; [discriminate|].
  destruct (Z.eqb k0 k); [auto|exact IH].
Qed.
