(* C01 Agreement.  Statements only.
   The core of agreement is that two honest views never decide the fame of a witness differently
   and that a decision, once reached on a view, is the decision of every larger view; everything
   after fame (round-received, frames, blocks) is a deterministic function of the decided famous
   witnesses and the ancestry.
   (1) `_partial` theorems: on the model's voting loop for ALL views satisfying the quorum
       hypotheses [view_ok] / [same_history] (unbounded rounds and witnesses; n >= 1 validators).
   (2) Stages S2/S3 (Proofs/FirstDesc .. Proofs/AgreementU): those hypotheses HOLD in every
       reachable state of the per-event pipeline under static membership, and no consensus pass
       ever fails there (C01_no_pass_fails), so fame agreement and decision stability are stated
       below without view hypotheses: C01_fame_agreement, C01_fame_decision_stable.  Remaining
       explicit premises:
       - ids_determine all (hash collision freedom), no_accept all (static membership: no attempted
         event carries an internal transaction with a positive receipt),
       - no_cross_fork st1 st2: the two nodes do not hold different events of one creator at one
         index (each node is fork free by C07; the abstract quorum argument needs |G j| <= n).
   The full block-level statement is kept as a Definition and is what the check's oracle evaluates
   on every history, after every action. *)
From Coq Require Import ZArith List Bool Permutation.
From V Require Import Model.ZMap Model.Quorum Model.Voting Model.VotingRef Model.HgImpl
  Proofs.VotingProofs Proofs.VotingTheorems Proofs.FameBridge Proofs.AdmissionProofs Proofs.BlockInv
  Proofs.OrderProofs Proofs.Static Proofs.FirstDesc Proofs.CInvRun Proofs.SameHistory Proofs.Agreement
  Proofs.NoFail Proofs.AgreementU Proofs.FameInv Proofs.FamousSet Proofs.DecidedFlag Proofs.RoundReceived.
Import ListNotations.
Open Scope Z_scope.

(* two nodes that both decide the fame of witness x of round r decide the same value *)
Theorem C01_fame_agreement_partial : forall n st1 st2 x r G v1 v2,
  (forall j, In j (zrange (r + 1) (last_round st1)) -> round_witnesses st1 j <> None) ->
  (forall j, In j (zrange (r + 1) (last_round st2)) -> round_witnesses st2 j <> None) ->
  view_ok n r (vparams_of st1 x) (view_witnesses st1) (last_round st1) ->
  view_ok n r (vparams_of st2 x) (view_witnesses st2) (last_round st2) ->
  same_history n r (vparams_of st1 x) (view_witnesses st1) (last_round st1)
                   (vparams_of st2 x) (view_witnesses st2) (last_round st2) G ->
  fame_of st1 x r = Some (Some v1) -> fame_of st2 x r = Some (Some v2) -> v1 = v2.
Proof.
  exact (fun n st1 st2 x r G v1 v2 H1 H2 V1 V2 SH F1 F2 =>
    VOTE_T3_decisions_agree n r _ _ _ _ _ _ G v1 v2 V1 V2 SH
      (eq_trans (eq_sym (fame_of_as_view st1 x r H1)) F1)
      (eq_trans (eq_sym (fame_of_as_view st2 x r H2)) F2)).
Qed.
Print Assumptions C01_fame_agreement_partial.

(* a lagging node's decision is the decision of every node that knows more *)
Theorem C01_fame_decision_stable_partial : forall n st1 st2 x r G v,
  (forall j, In j (zrange (r + 1) (last_round st1)) -> round_witnesses st1 j <> None) ->
  (forall j, In j (zrange (r + 1) (last_round st2)) -> round_witnesses st2 j <> None) ->
  view_ok n r (vparams_of st1 x) (view_witnesses st1) (last_round st1) ->
  view_ok n r (vparams_of st2 x) (view_witnesses st2) (last_round st2) ->
  same_history n r (vparams_of st1 x) (view_witnesses st1) (last_round st1)
                   (vparams_of st2 x) (view_witnesses st2) (last_round st2) G ->
  last_round st1 <= last_round st2 ->
  (forall j, r + 1 <= j <= last_round st1 -> incl (view_witnesses st1 j) (view_witnesses st2 j)) ->
  fame_of st1 x r = Some (Some v) -> fame_of st2 x r = Some (Some v).
Proof.
  exact (fun n st1 st2 x r G v H1 H2 V1 V2 SH HJ HI F1 =>
    eq_trans (fame_of_as_view st2 x r H2)
      (VOTE_T4_decision_monotone n r _ _ _ _ _ _ G v V1 V2 SH HJ HI
         (eq_trans (eq_sym (fame_of_as_view st1 x r H1)) F1))).
Qed.
Print Assumptions C01_fame_decision_stable_partial.

(* a supermajority tally forces every later vote: the "decided stays decided" rule *)
Theorem C01_supermajority_forces_unanimity : forall n r P W J, view_ok n r P W J ->
  forall j y v t, r + 2 <= j <= J -> In y (W j) -> 0 < (j - r) mod 4 ->
  tallyf (Vz P W r (sm n) (j - 1)) (ssset P W j y) = (v, t) -> sm n <= t ->
  (forall y', In y' (W j) -> Vz P W r (sm n) j y' = v) /\
  (forall j' y'', j < j' <= J -> In y'' (W j') -> Vz P W r (sm n) j' y'' = v).
Proof. exact VOTE_T2_supermajority_forces_unanimity. Qed.
Print Assumptions C01_supermajority_forces_unanimity.

(* each node's own delivery sequence is well formed (C02), which is what makes "block i of
   node a" and "block i of node b" comparable *)
Theorem C01_delivery_indexed : forall self_ genesis oracle_ ops k d,
  nth_error (delivered (hrun (init_hg self_ genesis oracle_) ops)) k = Some d -> b_index d = Z.of_nat k.
Proof. exact (fun s g o ops k d H => binv_consecutive _ (hrun_binv s g o ops) k d H). Qed.
Print Assumptions C01_delivery_indexed.

(** Stages S2/S3: the view hypotheses hold in every reachable state *)

(* no consensus pass returns an error: the model's `failed` flag is never set under static membership *)
Theorem C01_no_pass_fails : forall genesis all self_ oracle_ ops,
  ids_determine all -> no_accept all -> Forall (hop_ok all) ops ->
  failed (hrun (init_hg self_ genesis oracle_) ops) = false.
Proof. exact hrun_not_failed. Qed.
Print Assumptions C01_no_pass_fails.

(* the premises of the two `_partial` theorems about one state: for every stored candidate x and
   every round r, the lookups of DecideFame form a well-formed view *)
Theorem C01_view_ok_reachable : forall genesis all self_ oracle_ ops x r ex,
  ids_determine all -> no_accept all -> Forall (hop_ok all) ops ->
  let st := hrun (init_hg self_ genesis oracle_) ops in
  1 <= ps_len genesis -> -1 <= r <= last_round st -> get_event st x = Some ex ->
  view_ok (ps_len genesis) r (vparams_of st x) (view_witnesses st) (last_round st) /\
  (forall j, In j (zrange (r + 1) (last_round st)) -> round_witnesses st j <> None).
Proof. exact (fun g all s o ops x r ex ID NA H => u_view_ok g all ID NA s o ops H x r ex). Qed.
Print Assumptions C01_view_ok_reachable.

(* the coordinate / division invariant of every reachable state (first descendants sound,
   complete and with the walk-stop rule; memoised rounds and witness flags satisfy their
   equations read in the current state; memoised events = events listed in the round tables) *)
Theorem C01_coordinate_invariant : forall genesis all self_ oracle_ ops,
  ids_determine all -> no_accept all -> Forall (hop_ok all) ops ->
  cinv genesis None (hrun (init_hg self_ genesis oracle_) ops).
Proof. exact (fun g all s o ops ID NA H => u_cinv g all ID NA s o ops H). Qed.
Print Assumptions C01_coordinate_invariant.

(* AGREEMENT ON FAME: any two nodes (any self, any oracle), any two attempt sequences over one
   universe, per-event mode, static membership: whenever both have decided the fame of x as a
   candidate of round r, the decisions are equal *)
Theorem C01_fame_agreement : forall genesis all self1 self2 oracle1 oracle2 ops1 ops2 x r v1 v2,
  ids_determine all -> no_accept all -> Forall (hop_ok all) ops1 -> Forall (hop_ok all) ops2 ->
  let st1 := hrun (init_hg self1 genesis oracle1) ops1 in
  let st2 := hrun (init_hg self2 genesis oracle2) ops2 in
  no_cross_fork st1 st2 ->
  fame_of st1 x r = Some (Some v1) -> fame_of st2 x r = Some (Some v2) -> v1 = v2.
Proof.
  exact (fun g all s1 s2 o1 o2 ops1 ops2 x r v1 v2 ID NA H1 H2 =>
           u_fame_agreement g all ID NA s1 s2 o1 o2 ops1 ops2 H1 H2 x r v1 v2).
Qed.
Print Assumptions C01_fame_agreement.

(* the same with fork freedom stated on the universe of attempted events *)
Theorem C01_fame_agreement_fork_free_universe :
  forall genesis all self1 self2 oracle1 oracle2 ops1 ops2 x r v1 v2,
  ids_determine all -> fork_free all -> no_accept all -> Forall (hop_ok all) ops1 -> Forall (hop_ok all) ops2 ->
  let st1 := hrun (init_hg self1 genesis oracle1) ops1 in
  let st2 := hrun (init_hg self2 genesis oracle2) ops2 in
  fame_of st1 x r = Some (Some v1) -> fame_of st2 x r = Some (Some v2) -> v1 = v2.
Proof.
  exact (fun g all s1 s2 o1 o2 ops1 ops2 x r v1 v2 ID FF NA H1 H2 =>
           u_fame_agreement_universe g all ID NA s1 s2 o1 o2 ops1 ops2 H1 H2 x r v1 v2 FF).
Qed.
Print Assumptions C01_fame_agreement_fork_free_universe.

(* DECISION STABILITY: the decision of a node is the decision of every node that stores at least
   the same events (in particular of the same node later on) *)
Theorem C01_fame_decision_stable : forall genesis all self1 self2 oracle1 oracle2 ops1 ops2 x r v,
  ids_determine all -> no_accept all -> Forall (hop_ok all) ops1 -> Forall (hop_ok all) ops2 ->
  let st1 := hrun (init_hg self1 genesis oracle1) ops1 in
  let st2 := hrun (init_hg self2 genesis oracle2) ops2 in
  no_cross_fork st1 st2 ->
  (forall y e, get_event st1 y = Some e -> get_event st2 y <> None) ->
  fame_of st1 x r = Some (Some v) -> fame_of st2 x r = Some (Some v).
Proof.
  exact (fun g all s1 s2 o1 o2 ops1 ops2 x r v ID NA H1 H2 =>
           u_fame_stable g all ID NA s1 s2 o1 o2 ops1 ops2 H1 H2 x r v).
Qed.
Print Assumptions C01_fame_decision_stable.

(** Famous witnesses (stretch): the fame recorded in the round tables, and the late-witness lemma *)

(* a fame value recorded in a round table is the value of the voting loop read in the current state
   (it was computed in an earlier state; decisions are stable) *)
Theorem C01_recorded_fame_is_vote : forall genesis all self_ oracle_ ops r ri x (v : bool),
  ids_determine all -> no_accept all -> Forall (hop_ok all) ops ->
  let st := hrun (init_hg self_ genesis oracle_) ops in
  get_round st r = Some ri -> aget x (ri_created ri) = Some (true, if v then TTrue else TFalse) ->
  fame_of st x r = Some (Some v).
Proof. exact recorded_fame_is_vote_hrun. Qed.
Print Assumptions C01_recorded_fame_is_vote.

(* two nodes that have each decided all the round-r witnesses they know (>= supermajority: the
   condition under which WitnessesDecided sets its flag) hold the same famous witnesses of round r;
   in particular a witness one of them learns later cannot be famous *)
Theorem C01_famous_witnesses_agree :
  forall genesis all self1 self2 oracle1 oracle2 ops1 ops2 r ri1 ri2 x,
  ids_determine all -> no_accept all -> Forall (hop_ok all) ops1 -> Forall (hop_ok all) ops2 ->
  let st1 := hrun (init_hg self1 genesis oracle1) ops1 in
  let st2 := hrun (init_hg self2 genesis oracle2) ops2 in
  no_cross_fork st1 st2 ->
  full_dec genesis st1 r -> full_dec genesis st2 r ->
  get_round st1 r = Some ri1 -> get_round st2 r = Some ri2 ->
  (In x (famous_witnesses ri1) <-> In x (famous_witnesses ri2)).
Proof. exact famous_witnesses_agree_hrun. Qed.
Print Assumptions C01_famous_witnesses_agree.

(* the same in terms of the model's sticky flag: two nodes whose round r is flagged "witnesses
   decided" hold the same famous witnesses of round r, whenever each flag was set (the flag was set in
   a state of the run where the round was fully decided: flag_history; the famous witnesses have not
   changed since: famous_stable) *)
Theorem C01_famous_witnesses_agree_decided :
  forall genesis all self1 self2 oracle1 oracle2 ops1 ops2 r ri1 ri2 x,
  ids_determine all -> no_accept all -> Forall (hop_ok all) ops1 -> Forall (hop_ok all) ops2 ->
  let st1 := hrun (init_hg self1 genesis oracle1) ops1 in
  let st2 := hrun (init_hg self2 genesis oracle2) ops2 in
  no_cross_fork st1 st2 ->
  get_round st1 r = Some ri1 -> get_round st2 r = Some ri2 ->
  ri_decided ri1 = true -> ri_decided ri2 = true ->
  (In x (famous_witnesses ri1) <-> In x (famous_witnesses ri2)).
Proof. exact famous_witnesses_agree_decided_hrun. Qed.
Print Assumptions C01_famous_witnesses_agree_decided.

(** Round-received (stretch) *)

(* what a round-received value means, read in the current state: x has round r; the rounds r+1..i are
   flagged decided; i is the first of them whose famous witnesses all see x and are a supermajority *)
Theorem C01_round_received_spec : forall genesis all self_ oracle_ ops x ex i,
  ids_determine all -> no_accept all -> Forall (hop_ok all) ops ->
  let st := hrun (init_hg self_ genesis oracle_) ops in
  get_event st x = Some ex -> ev_rr ex = Some i ->
  exists r, ev_round ex = Some r /\ rrspec genesis st x r i.
Proof. exact rr_spec_hrun. Qed.
Print Assumptions C01_round_received_spec.

(* ROUND-RECEIVED AGREEMENT: two nodes that have both assigned a round-received to x assigned the same *)
Theorem C01_round_received_agreement :
  forall genesis all self1 self2 oracle1 oracle2 ops1 ops2 x e1 e2 i1 i2,
  ids_determine all -> no_accept all -> Forall (hop_ok all) ops1 -> Forall (hop_ok all) ops2 ->
  let st1 := hrun (init_hg self1 genesis oracle1) ops1 in
  let st2 := hrun (init_hg self2 genesis oracle2) ops2 in
  no_cross_fork st1 st2 ->
  get_event st1 x = Some e1 -> get_event st2 x = Some e2 ->
  ev_rr e1 = Some i1 -> ev_rr e2 = Some i2 -> i1 = i2.
Proof. exact rr_agreement_hrun. Qed.
Print Assumptions C01_round_received_agreement.

Theorem C01_round_received_agreement_fork_free_universe :
  forall genesis all self1 self2 oracle1 oracle2 ops1 ops2 x e1 e2 i1 i2,
  ids_determine all -> fork_free all -> no_accept all -> Forall (hop_ok all) ops1 -> Forall (hop_ok all) ops2 ->
  let st1 := hrun (init_hg self1 genesis oracle1) ops1 in
  let st2 := hrun (init_hg self2 genesis oracle2) ops2 in
  get_event st1 x = Some e1 -> get_event st2 x = Some e2 ->
  ev_rr e1 = Some i1 -> ev_rr e2 = Some i2 -> i1 = i2.
Proof. exact rr_agreement_universe. Qed.
Print Assumptions C01_round_received_agreement_fork_free_universe.

(* non-vacuity: the two-validator ping-pong DAG of 24 events; node 0 has inserted all of them, node 1
   (other self, no oracle) the first 17; every premise holds and both nodes have decided the fame of
   the witnesses of rounds 0..5 *)
Definition c01_g : peerset := [mkPeer 100 0; mkPeer 101 1].
Definition c01_ev (k : Z) : event :=
  mkEvent k (k mod 2) (k / 2) (if k <? 2 then -1 else k - 2) (if k =? 0 then -1 else k - 1) k
          (Z.even (k / 3)) (100 - k) [k] [] [] true.
Definition c01_all : list event := map c01_ev (zseq 0 24).
Definition c01_st1 : hg := hrun (init_hg 0 c01_g [7; 8; 9; 10; 11; 12; 13; 14; 15]) (map HInsert c01_all).
Definition c01_st2 : hg := hrun (init_hg 1 c01_g []) (map HInsert (firstn 17 c01_all)).

Example C01_example_premises :
  ids_determine c01_all /\ fork_free c01_all /\ no_accept c01_all /\
  Forall (hop_ok c01_all) (map HInsert c01_all) /\ Forall (hop_ok c01_all) (map HInsert (firstn 17 c01_all)).
Proof.
  split; [apply ids_determine_distinct; vm_compute; reflexivity|].
  split; [apply fork_freeb_sound; vm_compute; reflexivity|].
  split; [apply no_acceptb_sound; vm_compute; reflexivity|].
  split; [apply hop_ok_inserts; vm_compute; reflexivity|].
  apply hop_ok_inserts_firstn; vm_compute; reflexivity.
Qed.

Example C01_example_full_dec :
  full_dec c01_g c01_st1 3 /\ full_dec c01_g c01_st2 3 /\
  option_map famous_witnesses (get_round c01_st1 3) = Some [6; 7] /\
  option_map famous_witnesses (get_round c01_st2 3) = Some [6; 7].
Proof.
  split; [apply full_decb_sound; vm_compute; reflexivity|].
  split; [apply full_decb_sound; vm_compute; reflexivity|]. vm_compute. split; reflexivity.
Qed.

Example C01_example_rr :
  map (fun x => match get_event c01_st1 x with Some e => ev_rr e | None => None end) (zseq 0 12)
  = map (fun x => match get_event c01_st2 x with Some e => ev_rr e | None => None end) (zseq 0 12) /\
  match get_event c01_st2 11 with Some e => ev_rr e | None => None end = Some 6.
Proof. vm_compute. split; reflexivity. Qed.

Example C01_example :
  (last_round c01_st1, last_round c01_st2) = (11, 8) /\
  map (fun x => (fame_of c01_st1 x (x / 2), fame_of c01_st2 x (x / 2))) (zseq 0 12)
  = repeat (Some (Some true), Some (Some true)) 12.
Proof. vm_compute. split; reflexivity. Qed.

(* FULL STATEMENT (not yet proved): two nodes fed downward-closed parts of one fork-free DAG, in
   any topological orders, deliver prefix-consistent block sequences *)
Definition topological (evs : list event) : Prop :=
  forall i e, nth_error evs i = Some e ->
    (e_sp e = -1 \/ exists j p, (j < i)%nat /\ nth_error evs j = Some p /\ e_id p = e_sp e) /\
    (e_op e = -1 \/ exists j p, (j < i)%nat /\ nth_error evs j = Some p /\ e_id p = e_op e).
Definition C01_agreement_statement : Prop :=
  forall genesis (evs1 evs2 : list event),
    (forall e1 e2, In e1 (evs1 ++ evs2) -> In e2 (evs1 ++ evs2) -> e_id e1 = e_id e2 -> e1 = e2) ->
    topological evs1 -> topological evs2 ->
    Forall (fun e => e_sigok e = true) (evs1 ++ evs2) ->
    forall k d1 d2,
      nth_error (delivered (run (init_hg 0 genesis []) evs1)) k = Some d1 ->
      nth_error (delivered (run (init_hg 1 genesis []) evs2)) k = Some d2 ->
      body d1 = body d2.
