(* C01 Agreement.  Statements only.
   The core of agreement is that two honest views never decide the fame of a witness differently
   and that a decision, once reached on a view, is the decision of every larger view; everything
   after fame (round-received, frames, blocks) is a deterministic function of the decided famous
   witnesses and the ancestry.  Proved here on the model's voting loop for ALL views satisfying the
   quorum hypotheses [view_ok] / [same_history] (unbounded rounds and witnesses; n >= 1 static
   validators).  Discharging those hypotheses from the DAG invariants (coordinates = ancestry:
   stages S1-S3 of DESIGN.md) is not done yet: hence `_partial`.  The full statement is kept as a
   Definition and is what the check's oracle evaluates on every history, after every action. *)
From Coq Require Import ZArith List Bool Permutation.
From V Require Import Model.ZMap Model.Quorum Model.Voting Model.VotingRef Model.HgImpl
  Proofs.VotingProofs Proofs.VotingTheorems Proofs.FameBridge Proofs.BlockInv.
Import ListNotations.
Open Scope Z_scope.

(* two nodes that both decide the fame of witness x of round r decide the same value *)
Theorem C01_fame_agreement_partial : forall n st1 st2 x r G v1 v2,
  (forall j, In j (zrange (r + 1) (last_round st1)) -> round_witnesses st1 j <> None) ->
  (forall j, In j (zrange (r + 1) (last_round st2)) -> round_witnesses st2 j <> None) ->
  view_ok n r (vparams_of st1 x) (view_witnesses st1) (last_round st1) ->
  view_ok n r (vparams_of st2 x) (view_witnesses st2) (last_round st2) ->
  same_history n r (vparams_of st1 x) (view_witnesses st1) (last_round st1)
                   (vparams_of st2 x) (view_witnesses st2) (last_round st2) G ->
  fame_of st1 x r = Some (Some v1) -> fame_of st2 x r = Some (Some v2) -> v1 = v2.
Proof.
  exact (fun n st1 st2 x r G v1 v2 H1 H2 V1 V2 SH F1 F2 =>
    VOTE_T3_decisions_agree n r _ _ _ _ _ _ G v1 v2 V1 V2 SH
      (eq_trans (eq_sym (fame_of_as_view st1 x r H1)) F1)
      (eq_trans (eq_sym (fame_of_as_view st2 x r H2)) F2)).
Qed.
Print Assumptions C01_fame_agreement_partial.

(* a lagging node's decision is the decision of every node that knows more *)
Theorem C01_fame_decision_stable_partial : forall n st1 st2 x r G v,
  (forall j, In j (zrange (r + 1) (last_round st1)) -> round_witnesses st1 j <> None) ->
  (forall j, In j (zrange (r + 1) (last_round st2)) -> round_witnesses st2 j <> None) ->
  view_ok n r (vparams_of st1 x) (view_witnesses st1) (last_round st1) ->
  view_ok n r (vparams_of st2 x) (view_witnesses st2) (last_round st2) ->
  same_history n r (vparams_of st1 x) (view_witnesses st1) (last_round st1)
                   (vparams_of st2 x) (view_witnesses st2) (last_round st2) G ->
  last_round st1 <= last_round st2 ->
  (forall j, r + 1 <= j <= last_round st1 -> incl (view_witnesses st1 j) (view_witnesses st2 j)) ->
  fame_of st1 x r = Some (Some v) -> fame_of st2 x r = Some (Some v).
Proof.
  exact (fun n st1 st2 x r G v H1 H2 V1 V2 SH HJ HI F1 =>
    eq_trans (fame_of_as_view st2 x r H2)
      (VOTE_T4_decision_monotone n r _ _ _ _ _ _ G v V1 V2 SH HJ HI
         (eq_trans (eq_sym (fame_of_as_view st1 x r H1)) F1))).
Qed.
Print Assumptions C01_fame_decision_stable_partial.

(* a supermajority tally forces every later vote: the "decided stays decided" rule *)
Theorem C01_supermajority_forces_unanimity : forall n r P W J, view_ok n r P W J ->
  forall j y v t, r + 2 <= j <= J -> In y (W j) -> 0 < (j - r) mod 4 ->
  tallyf (Vz P W r (sm n) (j - 1)) (ssset P W j y) = (v, t) -> sm n <= t ->
  (forall y', In y' (W j) -> Vz P W r (sm n) j y' = v) /\
  (forall j' y'', j < j' <= J -> In y'' (W j') -> Vz P W r (sm n) j' y'' = v).
Proof. exact VOTE_T2_supermajority_forces_unanimity. Qed.
Print Assumptions C01_supermajority_forces_unanimity.

(* each node's own delivery sequence is well formed (C02), which is what makes "block i of
   node a" and "block i of node b" comparable *)
Theorem C01_delivery_indexed : forall self_ genesis oracle_ ops k d,
  nth_error (delivered (hrun (init_hg self_ genesis oracle_) ops)) k = Some d -> b_index d = Z.of_nat k.
Proof. exact (fun s g o ops k d H => binv_consecutive _ (hrun_binv s g o ops) k d H). Qed.
Print Assumptions C01_delivery_indexed.

(* FULL STATEMENT (not yet proved): two nodes fed downward-closed parts of one fork-free DAG, in
   any topological orders, deliver prefix-consistent block sequences *)
Definition topological (evs : list event) : Prop :=
  forall i e, nth_error evs i = Some e ->
    (e_sp e = -1 \/ exists j p, (j < i)%nat /\ nth_error evs j = Some p /\ e_id p = e_sp e) /\
    (e_op e = -1 \/ exists j p, (j < i)%nat /\ nth_error evs j = Some p /\ e_id p = e_op e).
Definition C01_agreement_statement : Prop :=
  forall genesis (evs1 evs2 : list event),
    (forall e1 e2, In e1 (evs1 ++ evs2) -> In e2 (evs1 ++ evs2) -> e_id e1 = e_id e2 -> e1 = e2) ->
    topological evs1 -> topological evs2 ->
    Forall (fun e => e_sigok e = true) (evs1 ++ evs2) ->
    forall k d1 d2,
      nth_error (delivered (run (init_hg 0 genesis []) evs1)) k = Some d1 ->
      nth_error (delivered (run (init_hg 1 genesis []) evs2)) k = Some d2 ->
      body d1 = body d2.
