(* C01 Agreement.  Statements only.
   The core of agreement is that two honest views never decide the fame of a witness differently
   and that a decision, once reached on a view, is the decision of every larger view; everything
   after fame (round-received, frames, blocks) is a deterministic function of the decided famous
   witnesses and the ancestry.
   (1) `_partial` theorems: on the model's voting loop for ALL views satisfying the quorum
       hypotheses [view_ok] / [same_history] (unbounded rounds and witnesses; n >= 1 validators).
   (2) Stages S2/S3 (Proofs/FirstDesc .. Proofs/AgreementU): those hypotheses HOLD in every
       reachable state of the per-event pipeline under static membership, and no consensus pass
       ever fails there (C01_no_pass_fails), so fame agreement and decision stability are stated
       below without view hypotheses: C01_fame_agreement, C01_fame_decision_stable.  Remaining
       explicit premises:
       - ids_determine all (hash collision freedom), no_accept all (static membership: no attempted
         event carries an internal transaction with a positive receipt),
       - no_cross_fork st1 st2: the two nodes do not hold different events of one creator at one
         index (each node is fork free by C07; the abstract quorum argument needs |G j| <= n).
   (3) Stage B (Proofs/Undetermined, Committed, FrameFn, FrameInv, BlockShape, BlockAgree): the full
       block-level statement for static membership, C01_agreement / C01_agreement_prefix /
       C01_frames_agree, with the premises ids_determine, sigkeys_determine (distinct signature R
       values: the tie-break of the consensus order; C01_agreement_needs_distinct_signatures shows
       it cannot be dropped), no_accept, fork_free.  Dynamic membership (accepted internal
       transactions) is not covered by the proofs; the check's oracle evaluates the statement on
       every history, after every action. *)
From Coq Require Import ZArith List Bool Permutation.
From V Require Import Model.ZMap Model.Quorum Model.Voting Model.VotingRef Model.HgImpl Model.PeerSetSpec
  Proofs.VotingProofs Proofs.VotingTheorems Proofs.FameBridge Proofs.AdmissionProofs Proofs.BlockInv
  Proofs.OrderProofs Proofs.Static Proofs.FirstDesc Proofs.CInvRun Proofs.SameHistory Proofs.Agreement
  Proofs.NoFail Proofs.AgreementU Proofs.FameInv Proofs.FamousSet Proofs.DecidedFlag Proofs.RoundReceived
  Proofs.BlockAgree Proofs.AgreementWitness Proofs.WindowWitness
  Model.Window Proofs.WindowStable Proofs.GapWindow Proofs.RoundAgreeD Proofs.ShrinkWitness
  Model.VotingRefD Proofs.VotingProofsD Proofs.RoundOrder Proofs.CInvRunD Proofs.ViewOk Proofs.ViewOkD Proofs.SameHistoryD Proofs.AgreementD Proofs.FameInvD Proofs.LateWitnessD Proofs.FamousSetD Proofs.DecidedFlagD Proofs.RoundReceived Proofs.RoundReceivedD Proofs.Undetermined Proofs.UndeterminedD Proofs.BlockAgreeD Proofs.BlockPeersD Proofs.FrameAgreeD.
Import ListNotations.
Open Scope Z_scope.

(* two nodes that both decide the fame of witness x of round r decide the same value *)
Theorem C01_fame_agreement_partial : forall n st1 st2 x r G v1 v2,
  (forall j, In j (zrange (r + 1) (last_round st1)) -> round_witnesses st1 j <> None) ->
  (forall j, In j (zrange (r + 1) (last_round st2)) -> round_witnesses st2 j <> None) ->
  view_ok n r (vparams_of st1 x) (view_witnesses st1) (last_round st1) ->
  view_ok n r (vparams_of st2 x) (view_witnesses st2) (last_round st2) ->
  same_history n r (vparams_of st1 x) (view_witnesses st1) (last_round st1)
                   (vparams_of st2 x) (view_witnesses st2) (last_round st2) G ->
  fame_of st1 x r = Some (Some v1) -> fame_of st2 x r = Some (Some v2) -> v1 = v2.
Proof.
  exact (fun n st1 st2 x r G v1 v2 H1 H2 V1 V2 SH F1 F2 =>
    VOTE_T3_decisions_agree n r _ _ _ _ _ _ G v1 v2 V1 V2 SH
      (eq_trans (eq_sym (fame_of_as_view st1 x r H1)) F1)
      (eq_trans (eq_sym (fame_of_as_view st2 x r H2)) F2)).
Qed.
Print Assumptions C01_fame_agreement_partial.

(* a lagging node's decision is the decision of every node that knows more *)
Theorem C01_fame_decision_stable_partial : forall n st1 st2 x r G v,
  (forall j, In j (zrange (r + 1) (last_round st1)) -> round_witnesses st1 j <> None) ->
  (forall j, In j (zrange (r + 1) (last_round st2)) -> round_witnesses st2 j <> None) ->
  view_ok n r (vparams_of st1 x) (view_witnesses st1) (last_round st1) ->
  view_ok n r (vparams_of st2 x) (view_witnesses st2) (last_round st2) ->
  same_history n r (vparams_of st1 x) (view_witnesses st1) (last_round st1)
                   (vparams_of st2 x) (view_witnesses st2) (last_round st2) G ->
  last_round st1 <= last_round st2 ->
  (forall j, r + 1 <= j <= last_round st1 -> incl (view_witnesses st1 j) (view_witnesses st2 j)) ->
  fame_of st1 x r = Some (Some v) -> fame_of st2 x r = Some (Some v).
Proof.
  exact (fun n st1 st2 x r G v H1 H2 V1 V2 SH HJ HI F1 =>
    eq_trans (fame_of_as_view st2 x r H2)
      (VOTE_T4_decision_monotone n r _ _ _ _ _ _ G v V1 V2 SH HJ HI
         (eq_trans (eq_sym (fame_of_as_view st1 x r H1)) F1))).
Qed.
Print Assumptions C01_fame_decision_stable_partial.

(* a supermajority tally forces every later vote: the "decided stays decided" rule *)
Theorem C01_supermajority_forces_unanimity : forall n r P W J, view_ok n r P W J ->
  forall j y v t, r + 2 <= j <= J -> In y (W j) -> 0 < (j - r) mod 4 ->
  tallyf (Vz P W r (sm n) (j - 1)) (ssset P W j y) = (v, t) -> sm n <= t ->
  (forall y', In y' (W j) -> Vz P W r (sm n) j y' = v) /\
  (forall j' y'', j < j' <= J -> In y'' (W j') -> Vz P W r (sm n) j' y'' = v).
Proof. exact VOTE_T2_supermajority_forces_unanimity. Qed.
Print Assumptions C01_supermajority_forces_unanimity.

(* each node's own delivery sequence is well formed (C02), which is what makes "block i of
   node a" and "block i of node b" comparable *)
Theorem C01_delivery_indexed : forall self_ genesis oracle_ ops k d,
  nth_error (delivered (hrun (init_hg self_ genesis oracle_) ops)) k = Some d -> b_index d = Z.of_nat k.
Proof. exact (fun s g o ops k d H => binv_consecutive _ (hrun_binv s g o ops) k d H). Qed.
Print Assumptions C01_delivery_indexed.

(** Stages S2/S3: the view hypotheses hold in every reachable state *)

(* no consensus pass returns an error: the model's `failed` flag is never set under static membership *)
Theorem C01_no_pass_fails : forall genesis all self_ oracle_ ops,
  ids_determine all -> no_accept all -> Forall (hop_ok all) ops ->
  failed (hrun (init_hg self_ genesis oracle_) ops) = false.
Proof. exact hrun_not_failed. Qed.
Print Assumptions C01_no_pass_fails.

(* the premises of the two `_partial` theorems about one state: for every stored candidate x and
   every round r, the lookups of DecideFame form a well-formed view *)
Theorem C01_view_ok_reachable : forall genesis all self_ oracle_ ops x r ex,
  ids_determine all -> no_accept all -> Forall (hop_ok all) ops ->
  let st := hrun (init_hg self_ genesis oracle_) ops in
  1 <= ps_len genesis -> -1 <= r <= last_round st -> get_event st x = Some ex ->
  view_ok (ps_len genesis) r (vparams_of st x) (view_witnesses st) (last_round st) /\
  (forall j, In j (zrange (r + 1) (last_round st)) -> round_witnesses st j <> None).
Proof. exact (fun g all s o ops x r ex ID NA H => u_view_ok g all ID NA s o ops H x r ex). Qed.
Print Assumptions C01_view_ok_reachable.

(* the coordinate / division invariant of every reachable state (first descendants sound,
   complete and with the walk-stop rule; memoised rounds and witness flags satisfy their
   equations read in the current state; memoised events = events listed in the round tables) *)
Theorem C01_coordinate_invariant : forall genesis all self_ oracle_ ops,
  ids_determine all -> no_accept all -> Forall (hop_ok all) ops ->
  cinv genesis None (hrun (init_hg self_ genesis oracle_) ops).
Proof. exact (fun g all s o ops ID NA H => u_cinv g all ID NA s o ops H). Qed.
Print Assumptions C01_coordinate_invariant.

(* AGREEMENT ON FAME: any two nodes (any self, any oracle), any two attempt sequences over one
   universe, per-event mode, static membership: whenever both have decided the fame of x as a
   candidate of round r, the decisions are equal *)
Theorem C01_fame_agreement : forall genesis all self1 self2 oracle1 oracle2 ops1 ops2 x r v1 v2,
  ids_determine all -> no_accept all -> Forall (hop_ok all) ops1 -> Forall (hop_ok all) ops2 ->
  let st1 := hrun (init_hg self1 genesis oracle1) ops1 in
  let st2 := hrun (init_hg self2 genesis oracle2) ops2 in
  no_cross_fork st1 st2 ->
  fame_of st1 x r = Some (Some v1) -> fame_of st2 x r = Some (Some v2) -> v1 = v2.
Proof.
  exact (fun g all s1 s2 o1 o2 ops1 ops2 x r v1 v2 ID NA H1 H2 =>
           u_fame_agreement g all ID NA s1 s2 o1 o2 ops1 ops2 H1 H2 x r v1 v2).
Qed.
Print Assumptions C01_fame_agreement.

(* the same with fork freedom stated on the universe of attempted events *)
Theorem C01_fame_agreement_fork_free_universe :
  forall genesis all self1 self2 oracle1 oracle2 ops1 ops2 x r v1 v2,
  ids_determine all -> fork_free all -> no_accept all -> Forall (hop_ok all) ops1 -> Forall (hop_ok all) ops2 ->
  let st1 := hrun (init_hg self1 genesis oracle1) ops1 in
  let st2 := hrun (init_hg self2 genesis oracle2) ops2 in
  fame_of st1 x r = Some (Some v1) -> fame_of st2 x r = Some (Some v2) -> v1 = v2.
Proof.
  exact (fun g all s1 s2 o1 o2 ops1 ops2 x r v1 v2 ID FF NA H1 H2 =>
           u_fame_agreement_universe g all ID NA s1 s2 o1 o2 ops1 ops2 H1 H2 x r v1 v2 FF).
Qed.
Print Assumptions C01_fame_agreement_fork_free_universe.

(* DECISION STABILITY: the decision of a node is the decision of every node that stores at least
   the same events (in particular of the same node later on) *)
Theorem C01_fame_decision_stable : forall genesis all self1 self2 oracle1 oracle2 ops1 ops2 x r v,
  ids_determine all -> no_accept all -> Forall (hop_ok all) ops1 -> Forall (hop_ok all) ops2 ->
  let st1 := hrun (init_hg self1 genesis oracle1) ops1 in
  let st2 := hrun (init_hg self2 genesis oracle2) ops2 in
  no_cross_fork st1 st2 ->
  (forall y e, get_event st1 y = Some e -> get_event st2 y <> None) ->
  fame_of st1 x r = Some (Some v) -> fame_of st2 x r = Some (Some v).
Proof.
  exact (fun g all s1 s2 o1 o2 ops1 ops2 x r v ID NA H1 H2 =>
           u_fame_stable g all ID NA s1 s2 o1 o2 ops1 ops2 H1 H2 x r v).
Qed.
Print Assumptions C01_fame_decision_stable.

(** Famous witnesses (stretch): the fame recorded in the round tables, and the late-witness lemma *)

(* a fame value recorded in a round table is the value of the voting loop read in the current state
   (it was computed in an earlier state; decisions are stable) *)
Theorem C01_recorded_fame_is_vote : forall genesis all self_ oracle_ ops r ri x (v : bool),
  ids_determine all -> no_accept all -> Forall (hop_ok all) ops ->
  let st := hrun (init_hg self_ genesis oracle_) ops in
  get_round st r = Some ri -> aget x (ri_created ri) = Some (true, if v then TTrue else TFalse) ->
  fame_of st x r = Some (Some v).
Proof. exact recorded_fame_is_vote_hrun. Qed.
Print Assumptions C01_recorded_fame_is_vote.

(* two nodes that have each decided all the round-r witnesses they know (>= supermajority: the
   condition under which WitnessesDecided sets its flag) hold the same famous witnesses of round r;
   in particular a witness one of them learns later cannot be famous *)
Theorem C01_famous_witnesses_agree :
  forall genesis all self1 self2 oracle1 oracle2 ops1 ops2 r ri1 ri2 x,
  ids_determine all -> no_accept all -> Forall (hop_ok all) ops1 -> Forall (hop_ok all) ops2 ->
  let st1 := hrun (init_hg self1 genesis oracle1) ops1 in
  let st2 := hrun (init_hg self2 genesis oracle2) ops2 in
  no_cross_fork st1 st2 ->
  full_dec genesis st1 r -> full_dec genesis st2 r ->
  get_round st1 r = Some ri1 -> get_round st2 r = Some ri2 ->
  (In x (famous_witnesses ri1) <-> In x (famous_witnesses ri2)).
Proof. exact famous_witnesses_agree_hrun. Qed.
Print Assumptions C01_famous_witnesses_agree.

(* the same in terms of the model's sticky flag: two nodes whose round r is flagged "witnesses
   decided" hold the same famous witnesses of round r, whenever each flag was set (the flag was set in
   a state of the run where the round was fully decided: flag_history; the famous witnesses have not
   changed since: famous_stable) *)
Theorem C01_famous_witnesses_agree_decided :
  forall genesis all self1 self2 oracle1 oracle2 ops1 ops2 r ri1 ri2 x,
  ids_determine all -> no_accept all -> Forall (hop_ok all) ops1 -> Forall (hop_ok all) ops2 ->
  let st1 := hrun (init_hg self1 genesis oracle1) ops1 in
  let st2 := hrun (init_hg self2 genesis oracle2) ops2 in
  no_cross_fork st1 st2 ->
  get_round st1 r = Some ri1 -> get_round st2 r = Some ri2 ->
  ri_decided ri1 = true -> ri_decided ri2 = true ->
  (In x (famous_witnesses ri1) <-> In x (famous_witnesses ri2)).
Proof. exact famous_witnesses_agree_decided_hrun. Qed.
Print Assumptions C01_famous_witnesses_agree_decided.

(** Round-received (stretch) *)

(* what a round-received value means, read in the current state: x has round r; the rounds r+1..i are
   flagged decided; i is the first of them whose famous witnesses all see x and are a supermajority *)
Theorem C01_round_received_spec : forall genesis all self_ oracle_ ops x ex i,
  ids_determine all -> no_accept all -> Forall (hop_ok all) ops ->
  let st := hrun (init_hg self_ genesis oracle_) ops in
  get_event st x = Some ex -> ev_rr ex = Some i ->
  exists r, ev_round ex = Some r /\ rrspec genesis st x r i.
Proof. exact rr_spec_hrun. Qed.
Print Assumptions C01_round_received_spec.

(* ROUND-RECEIVED AGREEMENT: two nodes that have both assigned a round-received to x assigned the same *)
Theorem C01_round_received_agreement :
  forall genesis all self1 self2 oracle1 oracle2 ops1 ops2 x e1 e2 i1 i2,
  ids_determine all -> no_accept all -> Forall (hop_ok all) ops1 -> Forall (hop_ok all) ops2 ->
  let st1 := hrun (init_hg self1 genesis oracle1) ops1 in
  let st2 := hrun (init_hg self2 genesis oracle2) ops2 in
  no_cross_fork st1 st2 ->
  get_event st1 x = Some e1 -> get_event st2 x = Some e2 ->
  ev_rr e1 = Some i1 -> ev_rr e2 = Some i2 -> i1 = i2.
Proof. exact rr_agreement_hrun. Qed.
Print Assumptions C01_round_received_agreement.

Theorem C01_round_received_agreement_fork_free_universe :
  forall genesis all self1 self2 oracle1 oracle2 ops1 ops2 x e1 e2 i1 i2,
  ids_determine all -> fork_free all -> no_accept all -> Forall (hop_ok all) ops1 -> Forall (hop_ok all) ops2 ->
  let st1 := hrun (init_hg self1 genesis oracle1) ops1 in
  let st2 := hrun (init_hg self2 genesis oracle2) ops2 in
  get_event st1 x = Some e1 -> get_event st2 x = Some e2 ->
  ev_rr e1 = Some i1 -> ev_rr e2 = Some i2 -> i1 = i2.
Proof. exact rr_agreement_universe. Qed.
Print Assumptions C01_round_received_agreement_fork_free_universe.

(* non-vacuity: the two-validator ping-pong DAG of 24 events; node 0 has inserted all of them, node 1
   (other self, no oracle) the first 17; every premise holds and both nodes have decided the fame of
   the witnesses of rounds 0..5 *)
Definition c01_g : peerset := [mkPeer 100 0; mkPeer 101 1].
Definition c01_ev (k : Z) : event :=
  mkEvent k (k mod 2) (k / 2) (if k <? 2 then -1 else k - 2) (if k =? 0 then -1 else k - 1) k
          (Z.even (k / 3)) (100 - k) [k] [] [] true.
Definition c01_all : list event := map c01_ev (zseq 0 24).
Definition c01_st1 : hg := hrun (init_hg 0 c01_g [7; 8; 9; 10; 11; 12; 13; 14; 15]) (map HInsert c01_all).
Definition c01_st2 : hg := hrun (init_hg 1 c01_g []) (map HInsert (firstn 17 c01_all)).

Example C01_example_premises :
  ids_determine c01_all /\ fork_free c01_all /\ no_accept c01_all /\
  Forall (hop_ok c01_all) (map HInsert c01_all) /\ Forall (hop_ok c01_all) (map HInsert (firstn 17 c01_all)).
Proof.
  split; [apply ids_determine_distinct; vm_compute; reflexivity|].
  split; [apply fork_freeb_sound; vm_compute; reflexivity|].
  split; [apply no_acceptb_sound; vm_compute; reflexivity|].
  split; [apply hop_ok_inserts; vm_compute; reflexivity|].
  apply hop_ok_inserts_firstn; vm_compute; reflexivity.
Qed.

Example C01_example_full_dec :
  full_dec c01_g c01_st1 3 /\ full_dec c01_g c01_st2 3 /\
  option_map famous_witnesses (get_round c01_st1 3) = Some [6; 7] /\
  option_map famous_witnesses (get_round c01_st2 3) = Some [6; 7].
Proof.
  split; [apply full_decb_sound; vm_compute; reflexivity|].
  split; [apply full_decb_sound; vm_compute; reflexivity|]. vm_compute. split; reflexivity.
Qed.

Example C01_example_rr :
  map (fun x => match get_event c01_st1 x with Some e => ev_rr e | None => None end) (zseq 0 12)
  = map (fun x => match get_event c01_st2 x with Some e => ev_rr e | None => None end) (zseq 0 12) /\
  match get_event c01_st2 11 with Some e => ev_rr e | None => None end = Some 6.
Proof. vm_compute. split; reflexivity. Qed.

Example C01_example :
  (last_round c01_st1, last_round c01_st2) = (11, 8) /\
  map (fun x => (fame_of c01_st1 x (x / 2), fame_of c01_st2 x (x / 2))) (zseq 0 12)
  = repeat (Some (Some true), Some (Some true)) 12.
Proof. vm_compute. split; reflexivity. Qed.

(** The block-level statement, static membership *)

(* AGREEMENT ON THE FRAMES: two nodes that were offered events of one fork-free universe (any
   events, in any order, valid or not, interleaved with ProcessSigPool calls) have THE SAME cached
   frame for every round for which both have one (= every round both have processed): round,
   peers, roots (per creator, with ROOT_DEPTH events below the head), events with their round /
   Lamport timestamp / witness flag in consensus order, peer-set table, median timestamp.
   Premises: ids_determine (hash collision freedom), sigkeys_determine (no two attempted events
   carry the same signature R value: the tie-break of the consensus order, see
   C01_agreement_needs_distinct_signatures), no_accept (static membership), fork_free. *)
Theorem C01_frames_agree : forall genesis all self1 self2 oracle1 oracle2 ops1 ops2 R f1 f2,
  ids_determine all -> sigkeys_determine all -> no_accept all -> fork_free all ->
  Forall (hop_ok all) ops1 -> Forall (hop_ok all) ops2 ->
  let st1 := hrun (init_hg self1 genesis oracle1) ops1 in
  let st2 := hrun (init_hg self2 genesis oracle2) ops2 in
  zget R (frames st1) = Some f1 -> zget R (frames st2) = Some f2 -> f1 = f2.
Proof.
  exact (fun g all s1 s2 o1 o2 ops1 ops2 R f1 f2 ID SK NA FF H1 H2 =>
           frames_agree g all ID SK NA FF s1 s2 o1 o2 ops1 ops2 H1 H2 R f1 f2).
Qed.
Print Assumptions C01_frames_agree.

(* AGREEMENT ON THE BLOCKS: the k-th delivered blocks of the two nodes are equal in index,
   round-received, timestamp, transactions, internal transactions, frame (stands for FrameHash:
   the whole frame as above) and peers (PeersHash).  NOT claimed equal: b_sigs (each node collects
   signatures at its own pace), b_bodyid (the body hash after the application filled in its
   state hash: environment), b_committed / b_receipts (set by the node's own commit callback; with
   no_accept the receipts of a committed block are (id, false) for each internal transaction). *)
Theorem C01_agreement : forall genesis all self1 self2 oracle1 oracle2 ops1 ops2 k d1 d2,
  ids_determine all -> sigkeys_determine all -> no_accept all -> fork_free all ->
  Forall (hop_ok all) ops1 -> Forall (hop_ok all) ops2 ->
  let st1 := hrun (init_hg self1 genesis oracle1) ops1 in
  let st2 := hrun (init_hg self2 genesis oracle2) ops2 in
  nth_error (delivered st1) k = Some d1 -> nth_error (delivered st2) k = Some d2 ->
  (b_index d1, b_rr d1, b_ts d1, b_txs d1, b_itxs d1, b_frame d1, b_peers d1) =
  (b_index d2, b_rr d2, b_ts d2, b_txs d2, b_itxs d2, b_frame d2, b_peers d2).
Proof.
  exact (fun g all s1 s2 o1 o2 ops1 ops2 k d1 d2 ID SK NA FF H1 H2 =>
           blocks_agree g all ID SK NA FF s1 s2 o1 o2 ops1 ops2 k d1 d2 H1 H2).
Qed.
Print Assumptions C01_agreement.

(* ... hence the shorter delivered sequence is a prefix of the longer one
   ([cbody d], Proofs/BlockAgree.v, is the 7-tuple of C01_agreement) *)
Theorem C01_agreement_prefix : forall genesis all self1 self2 oracle1 oracle2 ops1 ops2,
  ids_determine all -> sigkeys_determine all -> no_accept all -> fork_free all ->
  Forall (hop_ok all) ops1 -> Forall (hop_ok all) ops2 ->
  let st1 := hrun (init_hg self1 genesis oracle1) ops1 in
  let st2 := hrun (init_hg self2 genesis oracle2) ops2 in
  (length (delivered st1) <= length (delivered st2))%nat ->
  map cbody (delivered st1) = firstn (length (delivered st1)) (map cbody (delivered st2)).
Proof.
  exact (fun g all s1 s2 o1 o2 ops1 ops2 ID SK NA FF H1 H2 =>
           blocks_prefix g all ID SK NA FF s1 s2 o1 o2 ops1 ops2 H1 H2).
Qed.
Print Assumptions C01_agreement_prefix.

(* a block of one node is delivered by the other as soon as the other has processed its round *)
Theorem C01_block_transfer : forall genesis all self1 self2 oracle1 oracle2 ops1 ops2 d1,
  ids_determine all -> sigkeys_determine all -> no_accept all -> fork_free all ->
  Forall (hop_ok all) ops1 -> Forall (hop_ok all) ops2 ->
  let st1 := hrun (init_hg self1 genesis oracle1) ops1 in
  let st2 := hrun (init_hg self2 genesis oracle2) ops2 in
  In d1 (delivered st1) -> (exists l, last_consensus st2 = Some l /\ b_rr d1 <= l) ->
  exists d2, In d2 (delivered st2) /\ b_rr d2 = b_rr d1 /\ b_frame d2 = b_frame d1.
Proof.
  exact (fun g all s1 s2 o1 o2 ops1 ops2 d1 ID SK NA FF H1 H2 =>
           block_transfer g all ID SK NA FF s1 s2 o1 o2 ops1 ops2 d1 H1 H2).
Qed.
Print Assumptions C01_block_transfer.

(* REFUTED without the premise on signature keys: two parentless events with the same Lamport
   timestamp and the same signature key are committed in the order in which each node received
   them (Proofs/AgreementWitness.v: first blocks [0;1;2] and [1;0;2]).  In babble the key is the R
   component of the ECDSA signature; two honest signatures with equal R are a nonce reuse. *)
Definition C01_agreement_without_sigkeys_statement : Prop :=
  forall genesis all self1 self2 oracle1 oracle2 ops1 ops2 k d1 d2,
    ids_determine all -> no_accept all -> fork_free all ->
    Forall (hop_ok all) ops1 -> Forall (hop_ok all) ops2 ->
    let st1 := hrun (init_hg self1 genesis oracle1) ops1 in
    let st2 := hrun (init_hg self2 genesis oracle2) ops2 in
    nth_error (delivered st1) k = Some d1 -> nth_error (delivered st2) k = Some d2 -> b_txs d1 = b_txs d2.
Theorem C01_agreement_needs_distinct_signatures : ~ C01_agreement_without_sigkeys_statement.
Proof. exact tw_refuted. Qed.
Print Assumptions C01_agreement_needs_distinct_signatures.

(* REFUTED without the static-membership premise (no_accept): DYNAMIC MEMBERSHIP BREAKS AGREEMENT.
   Two nodes fed the same 142 valid, fork-free events (4 validators, one accepted join in the first
   block, effective at round 1 + 6 = 7) in two topological orders: the fame of the low rounds stalls
   until round 9 exists, node A has by then divided events into rounds 7..9 with the four-peer set,
   node B divides some of them after the commit, with the five-peer set; events 114 and 116 get
   round 9 in A and 8 in B, and the blocks of index 8 (round-received 9) carry different
   transactions.  Proofs/WindowWitness.v; reproduced on two real cores by harness/cmd/winfork
   (KNOWN_FINDINGS C01 window-fork).  All other premises of C01_agreement are kept. *)
Definition C01_agreement_dynamic_statement : Prop :=
  forall genesis all self1 self2 oracle1 oracle2 ops1 ops2 k d1 d2,
    ids_determine all -> sigkeys_determine all -> fork_free all ->
    Forall (hop_ok all) ops1 -> Forall (hop_ok all) ops2 ->
    let st1 := hrun (init_hg self1 genesis oracle1) ops1 in
    let st2 := hrun (init_hg self2 genesis oracle2) ops2 in
    nth_error (delivered st1) k = Some d1 -> nth_error (delivered st2) k = Some d2 -> b_txs d1 = b_txs d2.
Theorem C01_agreement_dynamic_refuted : ~ C01_agreement_dynamic_statement.
Proof. exact ww_agreement_refuted. Qed.
Print Assumptions C01_agreement_dynamic_refuted.

Example C01_dynamic_fork_witness :
  let sa := hrun (init_hg 0 ww_g []) (map HInsert ww_all) in
  let sb := hrun (init_hg 1 ww_g []) (map HInsert ww_all') in
  failed sa = false /\ failed sb = false /\
  map (fun x => (match get_event sa x with Some e => ev_round e | None => None end,
                 match get_event sb x with Some e => ev_round e | None => None end)) [114; 116]
    = [(Some 9, Some 8); (Some 9, Some 8)] /\
  map (fun b => (b_index b, b_rr b, b_txs b)) (firstn 8 (delivered sa)) = map (fun b => (b_index b, b_rr b, b_txs b)) (firstn 8 (delivered sb)) /\
  option_map (fun b => (b_index b, b_rr b, b_txs b)) (nth_error (delivered sa) 8) = Some (8, 9, [104; 106; 105; 107; 110; 108; 113]) /\
  option_map (fun b => (b_index b, b_rr b, b_txs b)) (nth_error (delivered sb) 8)
    = Some (8, 9, [104; 106; 105; 109; 107; 110; 108; 111; 113; 112; 115]).
Proof. vm_compute. repeat split; reflexivity. Qed.

(* THE SAME FORK BY SCHEDULING ALONE: in the 82-event history ws of Proofs/WindowWitness.v EVERY coin bit is
   true (no event hash with a zero middle byte), i.e. nothing but the order of delivery is adversarial:
   event 54 gets round 8 / 7 and the blocks of index 7 differ.  corpus/C01-window-fork-sched.json replays it
   on two real cores. *)
Example C01_dynamic_fork_by_scheduling :
  forallb e_coin ws_all = true /\
  distinctb (map e_id ws_all) = true /\ distinctb (map e_sigkey ws_all) = true /\ fork_freeb ws_all = true /\
  (length ws_ordb = 82%nat /\ forallb (fun i => existsb (Z.eqb i) ws_ordb) (zseq 0 82) = true) /\
  let sa := hrun (init_hg 0 ww_g []) (map HInsert ws_all) in
  let sb := hrun (init_hg 1 ww_g []) (map HInsert ws_all') in
  failed sa = false /\ failed sb = false /\
  map (fun p => (fst p, length (snd p))) (peersets sa) = [(0, 4%nat); (7, 5%nat)] /\
  map (fun p => (fst p, length (snd p))) (peersets sb) = [(0, 4%nat); (7, 5%nat)] /\
  (rnd sa 54, rnd sb 54) = (Some 8, Some 7) /\
  map (fun b => (b_index b, b_rr b, b_txs b)) (firstn 7 (delivered sa)) = map (fun b => (b_index b, b_rr b, b_txs b)) (firstn 7 (delivered sb)) /\
  option_map (fun b => (b_index b, b_rr b, b_txs b)) (nth_error (delivered sa) 7) = Some (7, 8, [46; 47; 49; 50; 51; 52; 53]) /\
  option_map (fun b => (b_index b, b_rr b, b_txs b)) (nth_error (delivered sb) 7) = Some (7, 8, [46; 47; 49; 48; 50; 51; 52; 53; 55]).
Proof. exact ws_facts. Qed.

(* DYNAMIC MEMBERSHIP, POSITIVE PART (no [no_accept]; layer (b) of the generalisation, Proofs/FirstDescD ..
   Proofs/RoundAgreeD).  Premise on each node: the distance bound [gap_runb] (every step leaves last_round at
   most 5 above the next round to decide; locally checkable; it is what a commit gate would enforce; the C10_gap theorems).
   Two such nodes -- any selfs, any schedules, even different genesis sets -- whose validator-set tables give the
   same answer for the rounds both have ([tables_agree]) assign the same round and the same witness flag to every
   event they share, and strongly-see (with any set) between shared events has the same value.  In both fork
   witnesses above the tables ARE equal and the rounds differ: there the distance bound is violated on both
   nodes (C01_dynamic_fork_violates_bound).  The step from here to the blocks (fame, round-received, the events
   of the frames, and the induction that discharges [tables_agree]) is proved further down: C01_tables_agree_dynamic and
   C01_agreement_dynamic_gap.  Before fix 05eda0b it was false (C01_fame_threshold_regression below: fame was decided with
   the super-majority of the NEXT round's set).  C01_agreement (which also compares timestamp, frame hash and peers)
   stays a static-membership theorem. *)
Theorem C01_rounds_agree_dynamic : forall all self1 self2 genesis1 genesis2 oracle1 oracle2 ops1 ops2 x e1 e2,
  ids_determine all -> self1 <> -1 -> self2 <> -1 ->
  Forall (hop_ok all) ops1 -> Forall (hop_ok all) ops2 ->
  gap_runb (init_hg self1 genesis1 oracle1) ops1 = true -> gap_runb (init_hg self2 genesis2 oracle2) ops2 = true ->
  let st1 := hrun (init_hg self1 genesis1 oracle1) ops1 in
  let st2 := hrun (init_hg self2 genesis2 oracle2) ops2 in
  failed st1 = false -> failed st2 = false -> tables_agree st1 st2 ->
  get_event st1 x = Some e1 -> get_event st2 x = Some e2 ->
  ev_round e1 = ev_round e2 /\ ev_round e1 <> None /\
  zget x (round_memo st1) = zget x (round_memo st2) /\ zget x (witness_memo st1) = zget x (witness_memo st2).
Proof. exact (fun all s1 s2 g1 g2 o1 o2 ops1 ops2 x e1 e2 ID S1 S2 H1 H2 B1 B2 F1 F2 T =>
                gap_round_agree all s1 s2 g1 g2 o1 o2 ops1 ops2 ID S1 S2 H1 H2 B1 B2 F1 F2 T x e1 e2). Qed.
Print Assumptions C01_rounds_agree_dynamic.

Theorem C01_strongly_see_agree_dynamic :
  forall all self1 self2 genesis1 genesis2 oracle1 oracle2 ops1 ops2 g x w e1x e2x e1w e2w,
  ids_determine all -> self1 <> -1 -> self2 <> -1 ->
  Forall (hop_ok all) ops1 -> Forall (hop_ok all) ops2 ->
  gap_runb (init_hg self1 genesis1 oracle1) ops1 = true -> gap_runb (init_hg self2 genesis2 oracle2) ops2 = true ->
  let st1 := hrun (init_hg self1 genesis1 oracle1) ops1 in
  let st2 := hrun (init_hg self2 genesis2 oracle2) ops2 in
  failed st1 = false -> failed st2 = false -> tables_agree st1 st2 ->
  get_event st1 x = Some e1x -> get_event st2 x = Some e2x ->
  get_event st1 w = Some e1w -> get_event st2 w = Some e2w ->
  strongly_see st1 x w g = strongly_see st2 x w g /\ strongly_see st1 x w g <> None.
Proof. exact (fun all s1 s2 g1 g2 o1 o2 ops1 ops2 g x w e1x e2x e1w e2w ID S1 S2 H1 H2 B1 B2 F1 F2 T =>
                gap_strongly_see_agree all s1 s2 g1 g2 o1 o2 ops1 ops2 ID S1 S2 H1 H2 B1 B2 F1 F2 T g x w e1x e2x e1w e2w). Qed.
Print Assumptions C01_strongly_see_agree_dynamic.

(* the table premise holds in particular when the two nodes have delivered the same blocks *)
Theorem C01_same_blocks_tables_agree : forall self1 self2 genesis oracle1 oracle2 ops1 ops2,
  self1 <> -1 -> self2 <> -1 ->
  delivered (hrun (init_hg self1 genesis oracle1) ops1) = delivered (hrun (init_hg self2 genesis oracle2) ops2) ->
  tables_agree (hrun (init_hg self1 genesis oracle1) ops1) (hrun (init_hg self2 genesis oracle2) ops2).
Proof. exact same_blocks_tables_agree. Qed.
Print Assumptions C01_same_blocks_tables_agree.

Example C01_dynamic_fork_violates_bound :
  let ia := init_hg 0 ww_g [] in let ib := init_hg 1 ww_g [] in
  (gap_runb ia (map HInsert ws_all), gap_runb ib (map HInsert ws_all'),
   gap_runb ia (map HInsert ww_all), gap_runb ib (map HInsert ww_all')) = (false, false, false, false) /\
  peersets (hrun ia (map HInsert ws_all)) = peersets (hrun ib (map HInsert ws_all')).
Proof. vm_compute. split; reflexivity. Qed.

(* FAME AGREEMENT UNDER DYNAMIC MEMBERSHIP (code after fix 05eda0b: the quorum of voting round j is the
   super-majority of the voters' set, round j - 1).
   (1) The abstract voting loop is safe for ANY sequence of set sizes: n q = size of the set of round q,
       [view_okD] = at most n j witnesses in round j, quorum of round j = smd n j = 2 * n (j - 1) / 3 + 1, every
       round-j witness strongly sees at least that many round-(j-1) witnesses (Proofs/VotingProofsD.v, generated from
       VotingProofs.v).  With the pre-fix quorum (2 * n j / 3 + 1) this is false: C01_fame_threshold_regression.
   (2) These hypotheses hold in every state of a node that respects the distance bound (Proofs/ViewOkD.v,
       SameHistoryD.v over the division invariant cinvD), so: two nodes -- no [no_accept], any selfs, schedules,
       genesis sets -- that respect the distance bound and whose tables agree on the rounds both have never decide the
       fame of a witness differently (C01_fame_agreement_dynamic).  [tables_agree] itself is discharged by induction
       over the two runs in C01_tables_agree_dynamic (same genesis set). *)
Theorem C01_fame_agreement_partial_dynamic : forall n st1 st2 x r G v1 v2,
  (forall j, In j (zrange (r + 1) (last_round st1)) -> round_witnesses st1 j <> None) ->
  (forall j, In j (zrange (r + 1) (last_round st2)) -> round_witnesses st2 j <> None) ->
  view_okD n r (vparams_of st1 x) (view_witnesses st1) (last_round st1) ->
  view_okD n r (vparams_of st2 x) (view_witnesses st2) (last_round st2) ->
  same_historyD n r (vparams_of st1 x) (view_witnesses st1) (last_round st1)
                    (vparams_of st2 x) (view_witnesses st2) (last_round st2) G ->
  fame_of st1 x r = Some (Some v1) -> fame_of st2 x r = Some (Some v2) -> v1 = v2.
Proof.
  exact (fun n st1 st2 x r G v1 v2 H1 H2 V1 V2 SH F1 F2 =>
    decisions_agreeD n r _ _ _ _ _ _ G v1 v2 V1 V2 SH
      (eq_trans (eq_sym (fame_of_as_view st1 x r H1)) F1)
      (eq_trans (eq_sym (fame_of_as_view st2 x r H2)) F2)).
Qed.
Print Assumptions C01_fame_agreement_partial_dynamic.

Theorem C01_fame_decision_stable_partial_dynamic : forall n st1 st2 x r G v,
  (forall j, In j (zrange (r + 1) (last_round st1)) -> round_witnesses st1 j <> None) ->
  (forall j, In j (zrange (r + 1) (last_round st2)) -> round_witnesses st2 j <> None) ->
  view_okD n r (vparams_of st1 x) (view_witnesses st1) (last_round st1) ->
  view_okD n r (vparams_of st2 x) (view_witnesses st2) (last_round st2) ->
  same_historyD n r (vparams_of st1 x) (view_witnesses st1) (last_round st1)
                    (vparams_of st2 x) (view_witnesses st2) (last_round st2) G ->
  last_round st1 <= last_round st2 ->
  (forall j, r + 1 <= j <= last_round st1 -> incl (view_witnesses st1 j) (view_witnesses st2 j)) ->
  fame_of st1 x r = Some (Some v) -> fame_of st2 x r = Some (Some v).
Proof.
  exact (fun n st1 st2 x r G v H1 H2 V1 V2 SH HJ HI F1 =>
    eq_trans (fame_of_as_view st2 x r H2)
      (decision_monotoneD n r _ _ _ _ _ _ G v V1 V2 SH HJ HI
         (eq_trans (eq_sym (fame_of_as_view st1 x r H1)) F1))).
Qed.
Print Assumptions C01_fame_decision_stable_partial_dynamic.

Theorem C01_supermajority_forces_unanimity_dynamic : forall n r P W J, view_okD n r P W J ->
  forall j y v t, r + 2 <= j <= J -> In y (W j) -> 0 < (j - r) mod 4 ->
  tallyf (VzD P W r (smd n) (j - 1)) (ssset P W j y) = (v, t) -> smd n j <= t ->
  (forall y', In y' (W j) -> VzD P W r (smd n) j y' = v) /\
  (forall j' y'', j < j' <= J -> In y'' (W j') -> VzD P W r (smd n) j' y'' = v).
Proof. exact supermajority_forces_unanimityD. Qed.
Print Assumptions C01_supermajority_forces_unanimity_dynamic.

(* the view hypotheses hold in every state of a node that respects the distance bound, with the sizes of the sets its
   own final table gives *)
Theorem C01_view_ok_dynamic : forall genesis all self_ oracle_ ops x r ex,
  self_ <> -1 -> ids_determine all -> Forall (hop_ok all) ops ->
  gap_runb (init_hg self_ genesis oracle_) ops = true ->
  let st := hrun (init_hg self_ genesis oracle_) ops in
  failed st = false -> -1 <= r <= last_round st -> get_event st x = Some ex ->
  view_okD (nD (psat st)) r (vparams_of st x) (view_witnesses st) (last_round st).
Proof.
  exact (fun g all s o ops x r ex Hs ID H B F Hr Hx =>
    view_ok_reachD (psat (hrun (init_hg s g o) ops)) (hrun (init_hg s g o) ops)
      (proj1 (gap_goodD s g o all ops Hs ID H B F))
      (rinv_contig _ (proj2 (hrun_rtop s g o ops) F))
      (fun q _ => psat_some s g o ops q Hs) x r ex Hr Hx).
Qed.
Print Assumptions C01_view_ok_dynamic.

Theorem C01_fame_agreement_dynamic :
  forall all self1 self2 genesis1 genesis2 oracle1 oracle2 ops1 ops2 x r v1 v2,
  ids_determine all -> self1 <> -1 -> self2 <> -1 ->
  Forall (hop_ok all) ops1 -> Forall (hop_ok all) ops2 ->
  gap_runb (init_hg self1 genesis1 oracle1) ops1 = true -> gap_runb (init_hg self2 genesis2 oracle2) ops2 = true ->
  let st1 := hrun (init_hg self1 genesis1 oracle1) ops1 in
  let st2 := hrun (init_hg self2 genesis2 oracle2) ops2 in
  failed st1 = false -> failed st2 = false -> tables_agree st1 st2 -> no_cross_fork st1 st2 ->
  fame_of st1 x r = Some (Some v1) -> fame_of st2 x r = Some (Some v2) -> v1 = v2.
Proof. exact (fun all s1 s2 g1 g2 o1 o2 ops1 ops2 x r v1 v2 ID S1 S2 H1 H2 B1 B2 F1 F2 T NF =>
                gap_fame_agreement all s1 s2 g1 g2 o1 o2 ops1 ops2 ID S1 S2 H1 H2 B1 B2 F1 F2 T NF x r v1 v2). Qed.
Print Assumptions C01_fame_agreement_dynamic.

Theorem C01_fame_agreement_dynamic_fork_free_universe :
  forall all self1 self2 genesis1 genesis2 oracle1 oracle2 ops1 ops2 x r v1 v2,
  ids_determine all -> fork_free all -> self1 <> -1 -> self2 <> -1 ->
  Forall (hop_ok all) ops1 -> Forall (hop_ok all) ops2 ->
  gap_runb (init_hg self1 genesis1 oracle1) ops1 = true -> gap_runb (init_hg self2 genesis2 oracle2) ops2 = true ->
  failed (hrun (init_hg self1 genesis1 oracle1) ops1) = false -> failed (hrun (init_hg self2 genesis2 oracle2) ops2) = false ->
  tables_agree (hrun (init_hg self1 genesis1 oracle1) ops1) (hrun (init_hg self2 genesis2 oracle2) ops2) ->
  fame_of (hrun (init_hg self1 genesis1 oracle1) ops1) x r = Some (Some v1) ->
  fame_of (hrun (init_hg self2 genesis2 oracle2) ops2) x r = Some (Some v2) -> v1 = v2.
Proof. exact gap_fame_agreement_universe. Qed.
Print Assumptions C01_fame_agreement_dynamic_fork_free_universe.

(* the fame values RECORDED in the round tables: in a node that respects the distance bound, a recorded value is the
   value of the voting loop read in the current state (computed in an earlier state, with a table that had fewer
   entries: decisions are stable and the entries written since lie above every round the loop visits), hence two such
   nodes whose tables agree never record different fame for one witness -- what the shrink fork violated *)
Theorem C01_recorded_fame_is_vote_dynamic : forall genesis all self_ oracle_ ops r ri x (v : bool),
  self_ <> -1 -> ids_determine all -> Forall (hop_ok all) ops ->
  gap_runb (init_hg self_ genesis oracle_) ops = true ->
  failed (hrun (init_hg self_ genesis oracle_) ops) = false ->
  get_round (hrun (init_hg self_ genesis oracle_) ops) r = Some ri ->
  aget x (ri_created ri) = Some (true, if v then TTrue else TFalse) ->
  fame_of (hrun (init_hg self_ genesis oracle_) ops) x r = Some (Some v).
Proof. exact recorded_fame_is_vote_gap. Qed.
Print Assumptions C01_recorded_fame_is_vote_dynamic.

Theorem C01_recorded_fame_agreement_dynamic :
  forall all self1 self2 genesis1 genesis2 oracle1 oracle2 ops1 ops2 r x ri1 ri2 (v1 v2 : bool),
  ids_determine all -> self1 <> -1 -> self2 <> -1 ->
  Forall (hop_ok all) ops1 -> Forall (hop_ok all) ops2 ->
  gap_runb (init_hg self1 genesis1 oracle1) ops1 = true -> gap_runb (init_hg self2 genesis2 oracle2) ops2 = true ->
  failed (hrun (init_hg self1 genesis1 oracle1) ops1) = false -> failed (hrun (init_hg self2 genesis2 oracle2) ops2) = false ->
  tables_agree (hrun (init_hg self1 genesis1 oracle1) ops1) (hrun (init_hg self2 genesis2 oracle2) ops2) ->
  no_cross_fork (hrun (init_hg self1 genesis1 oracle1) ops1) (hrun (init_hg self2 genesis2 oracle2) ops2) ->
  get_round (hrun (init_hg self1 genesis1 oracle1) ops1) r = Some ri1 ->
  aget x (ri_created ri1) = Some (true, if v1 then TTrue else TFalse) ->
  get_round (hrun (init_hg self2 genesis2 oracle2) ops2) r = Some ri2 ->
  aget x (ri_created ri2) = Some (true, if v2 then TTrue else TFalse) ->
  v1 = v2.
Proof. exact recorded_fame_agreement_gap. Qed.
Print Assumptions C01_recorded_fame_agreement_dynamic.

(* two such nodes that have each decided all the round-r witnesses they know (at least a super-majority of the set
   their table gives for round r: the condition under which WitnessesDecided sets its flag) hold the same famous
   witnesses of round r; a witness one of them learns later cannot be famous (late-witness lemma, LateWitnessD.v) *)
Theorem C01_famous_witnesses_agree_dynamic :
  forall all self1 self2 genesis1 genesis2 oracle1 oracle2 ops1 ops2 r ri1 ri2 x,
  ids_determine all -> self1 <> -1 -> self2 <> -1 ->
  Forall (hop_ok all) ops1 -> Forall (hop_ok all) ops2 ->
  gap_runb (init_hg self1 genesis1 oracle1) ops1 = true -> gap_runb (init_hg self2 genesis2 oracle2) ops2 = true ->
  let st1 := hrun (init_hg self1 genesis1 oracle1) ops1 in
  let st2 := hrun (init_hg self2 genesis2 oracle2) ops2 in
  failed st1 = false -> failed st2 = false -> tables_agree st1 st2 -> no_cross_fork st1 st2 ->
  full_decD (psat st1 r) st1 r -> full_decD (psat st2 r) st2 r ->
  get_round st1 r = Some ri1 -> get_round st2 r = Some ri2 ->
  (In x (famous_witnesses ri1) <-> In x (famous_witnesses ri2)).
Proof. exact famous_witnesses_agree_gap. Qed.
Print Assumptions C01_famous_witnesses_agree_dynamic.

(* the same in terms of the model's sticky flag: two such nodes whose round r is flagged "witnesses decided" hold the
   same famous witnesses of round r, whenever each flag was set (a flag that is set was set in a state of the run in
   which the round was fully decided against the set the table gives for round r: flag_historyD; the famous witnesses
   have not changed since: famous_stableD) *)
Theorem C01_famous_witnesses_agree_decided_dynamic :
  forall all self1 self2 genesis1 genesis2 oracle1 oracle2 ops1 ops2 r ri1 ri2 x,
  ids_determine all -> self1 <> -1 -> self2 <> -1 ->
  Forall (hop_ok all) ops1 -> Forall (hop_ok all) ops2 ->
  gap_runb (init_hg self1 genesis1 oracle1) ops1 = true -> gap_runb (init_hg self2 genesis2 oracle2) ops2 = true ->
  let st1 := hrun (init_hg self1 genesis1 oracle1) ops1 in
  let st2 := hrun (init_hg self2 genesis2 oracle2) ops2 in
  failed st1 = false -> failed st2 = false -> tables_agree st1 st2 -> no_cross_fork st1 st2 ->
  get_round st1 r = Some ri1 -> get_round st2 r = Some ri2 ->
  ri_decided ri1 = true -> ri_decided ri2 = true ->
  (In x (famous_witnesses ri1) <-> In x (famous_witnesses ri2)).
Proof. exact famous_witnesses_agree_decided_gap. Qed.
Print Assumptions C01_famous_witnesses_agree_decided_dynamic.

(* ROUND-RECEIVED UNDER DYNAMIC MEMBERSHIP.  What a round-received value means, read in the current state of a node
   that respects the distance bound: x has round r; the rounds r+1..i are flagged decided; i is the first of them whose
   famous witnesses all see x and number at least a super-majority OF THE SET THE TABLE GIVES FOR THAT ROUND
   ([rrspecD (psat st)]: [rcond (psat st j) st j x] for round j).  Two such nodes whose tables agree on the rounds both
   have, and that have both assigned a round-received to x, assigned the same. *)
Theorem C01_round_received_spec_dynamic : forall genesis all self_ oracle_ ops x ex i,
  self_ <> -1 -> ids_determine all -> Forall (hop_ok all) ops ->
  gap_runb (init_hg self_ genesis oracle_) ops = true ->
  let st := hrun (init_hg self_ genesis oracle_) ops in
  failed st = false -> get_event st x = Some ex -> ev_rr ex = Some i ->
  exists r, ev_round ex = Some r /\ rrspecD (psat st) st x r i.
Proof. exact rr_spec_gap. Qed.
Print Assumptions C01_round_received_spec_dynamic.

Theorem C01_round_received_agreement_dynamic :
  forall all self1 self2 genesis1 genesis2 oracle1 oracle2 ops1 ops2 x e1 e2 i1 i2,
  ids_determine all -> self1 <> -1 -> self2 <> -1 ->
  Forall (hop_ok all) ops1 -> Forall (hop_ok all) ops2 ->
  gap_runb (init_hg self1 genesis1 oracle1) ops1 = true -> gap_runb (init_hg self2 genesis2 oracle2) ops2 = true ->
  let st1 := hrun (init_hg self1 genesis1 oracle1) ops1 in
  let st2 := hrun (init_hg self2 genesis2 oracle2) ops2 in
  failed st1 = false -> failed st2 = false -> tables_agree st1 st2 -> no_cross_fork st1 st2 ->
  get_event st1 x = Some e1 -> get_event st2 x = Some e2 ->
  ev_rr e1 = Some i1 -> ev_rr e2 = Some i2 -> i1 = i2.
Proof. exact rr_agreement_gap. Qed.
Print Assumptions C01_round_received_agreement_dynamic.

Theorem C01_round_received_agreement_dynamic_fork_free_universe :
  forall all self1 self2 genesis1 genesis2 oracle1 oracle2 ops1 ops2 x e1 e2 i1 i2,
  ids_determine all -> fork_free all -> self1 <> -1 -> self2 <> -1 ->
  Forall (hop_ok all) ops1 -> Forall (hop_ok all) ops2 ->
  gap_runb (init_hg self1 genesis1 oracle1) ops1 = true -> gap_runb (init_hg self2 genesis2 oracle2) ops2 = true ->
  let st1 := hrun (init_hg self1 genesis1 oracle1) ops1 in
  let st2 := hrun (init_hg self2 genesis2 oracle2) ops2 in
  failed st1 = false -> failed st2 = false -> tables_agree st1 st2 ->
  get_event st1 x = Some e1 -> get_event st2 x = Some e2 ->
  ev_rr e1 = Some i1 -> ev_rr e2 = Some i2 -> i1 = i2.
Proof. exact rr_agreement_gap_universe. Qed.
Print Assumptions C01_round_received_agreement_dynamic_fork_free_universe.

(* DecideRoundReceived is COMPLETE under dynamic membership: in a node that respects the distance bound, a stored event
   x without round-received is in the undetermined list, and there is a round j0 above its round whose flag is not set
   (and which is not fully decided), while every round strictly between is flagged decided and does not receive x
   ([ustopD (psat st) st x]): nothing that could be received is left behind. *)
Theorem C01_round_received_complete_dynamic : forall genesis all self_ oracle_ ops x,
  self_ <> -1 -> ids_determine all -> Forall (hop_ok all) ops ->
  gap_runb (init_hg self_ genesis oracle_) ops = true ->
  let st := hrun (init_hg self_ genesis oracle_) ops in
  failed st = false -> get_event st x <> None -> rr_of st x = None ->
  In x (undetermined st) /\ ustopD (psat st) st x.
Proof.
  exact (fun g all s o ops x Hs ID H B F Hx Hr =>
    conj (uD_un _ _ (hrun_uinvD s g o all ops Hs ID H B F) x Hx Hr)
         (uD_u _ _ (hrun_uinvD s g o all ops Hs ID H B F) x Hx Hr)).
Qed.
Print Assumptions C01_round_received_complete_dynamic.

(* AGREEMENT UNDER DYNAMIC MEMBERSHIP (no [no_accept], NO premise on the tables).  Two nodes started from the same
   genesis set -- any selfs, any oracles, any operation sequences over one fork-free universe of events, joins and
   leaves accepted at will -- that both respect the distance bound ([gap_runb]: every step leaves last_round at most 5
   above the next round to decide; locally checkable; what a commit gate would enforce) and have not failed:
   (1) their validator-set tables give the same set for every round both have (C01_tables_agree_dynamic).  Proved by
       induction on the total number of steps of the two runs (Proofs/BlockAgreeD.v [ta_step]): a step of node 1 adds a
       table entry only by delivering a block of some round R with an accepted internal transaction; with the tables of
       the shorter runs agreeing, fame / famous witnesses / round-received agree (the theorems above), so the events
       of R's frame and their Lamport order agree with those of node 2 whenever node 2 has processed R, so both blocks
       carry the same internal transactions and write the same entry at R + 6; when node 2 has not processed R, the
       distance bound says it has no round R + 6 yet;
   (2) hence every premise [tables_agree] above is discharged: rounds, witness flags, fame and round-received of shared
       events agree (C01_consensus_values_agree_dynamic);
   (3) the k-th delivered blocks have the same index, round-received, timestamp, transactions, internal transactions
       and peers (C01_agreement_dynamic_gap): the ledgers of the two nodes -- and the sequences of membership changes --
       are prefix-comparable (C01_agreement_prefix_dynamic_gap).  The timestamp is the median over the timestamps of
       the famous witnesses of the round received (C18), which agree as sets; the peers field is the table entry of the
       round received (C01_block_peers_dynamic), and the tables agree.
   (4) THE FRAMES AGREE TOO, hence the whole 7-tuple of the static C01_agreement: C01_agreement_full_dynamic_gap,
       C01_agreement_full_prefix_dynamic_gap (Proofs/FsvD.v, FrameD.v, FrameAgreeD.v).  The frame of round R is built
       exactly once, while R is processed: its table snapshot is genesis replayed over the delivered blocks with
       round-received below R; repertoire and first rounds are a function of that snapshot; its roots are a pure
       function of the stored events, the frames of the lower rounds and the snapshot.  Without the distance bound the statement is false: C01_agreement_dynamic_refuted,
   C01_dynamic_fork_by_scheduling (open known finding C01-window-fork).  With the pre-fix fame quorum it was false even under the bound:
   C01_fame_threshold_regression. *)
Theorem C01_tables_agree_dynamic : forall all genesis self1 self2 oracle1 oracle2 ops1 ops2,
  ids_determine all -> sigkeys_determine all -> fork_free all -> self1 <> -1 -> self2 <> -1 ->
  Forall (hop_ok all) ops1 -> Forall (hop_ok all) ops2 ->
  gap_runb (init_hg self1 genesis oracle1) ops1 = true -> gap_runb (init_hg self2 genesis oracle2) ops2 = true ->
  failed (hrun (init_hg self1 genesis oracle1) ops1) = false -> failed (hrun (init_hg self2 genesis oracle2) ops2) = false ->
  tables_agree (hrun (init_hg self1 genesis oracle1) ops1) (hrun (init_hg self2 genesis oracle2) ops2).
Proof. exact (fun all g s1 s2 o1 o2 ops1 ops2 ID SK FF => gap_tables_agree all g ID SK FF s1 s2 o1 o2 ops1 ops2). Qed.
Print Assumptions C01_tables_agree_dynamic.

Theorem C01_consensus_values_agree_dynamic : forall all genesis self1 self2 oracle1 oracle2 ops1 ops2,
  ids_determine all -> sigkeys_determine all -> fork_free all -> self1 <> -1 -> self2 <> -1 ->
  Forall (hop_ok all) ops1 -> Forall (hop_ok all) ops2 ->
  gap_runb (init_hg self1 genesis oracle1) ops1 = true -> gap_runb (init_hg self2 genesis oracle2) ops2 = true ->
  let st1 := hrun (init_hg self1 genesis oracle1) ops1 in
  let st2 := hrun (init_hg self2 genesis oracle2) ops2 in
  failed st1 = false -> failed st2 = false ->
  (forall x e1 e2, get_event st1 x = Some e1 -> get_event st2 x = Some e2 ->
     ev_round e1 = ev_round e2 /\ ev_round e1 <> None /\
     (forall i1 i2, ev_rr e1 = Some i1 -> ev_rr e2 = Some i2 -> i1 = i2)) /\
  (forall x r v1 v2, fame_of st1 x r = Some (Some v1) -> fame_of st2 x r = Some (Some v2) -> v1 = v2) /\
  (forall q, get_round st1 q <> None -> get_round st2 q <> None -> get_peerset st1 q = get_peerset st2 q).
Proof. exact gap_consensus_agree. Qed.
Print Assumptions C01_consensus_values_agree_dynamic.

Theorem C01_agreement_dynamic_gap : forall all genesis self1 self2 oracle1 oracle2 ops1 ops2 k d1 d2,
  ids_determine all -> sigkeys_determine all -> fork_free all -> self1 <> -1 -> self2 <> -1 ->
  Forall (hop_ok all) ops1 -> Forall (hop_ok all) ops2 ->
  gap_runb (init_hg self1 genesis oracle1) ops1 = true -> gap_runb (init_hg self2 genesis oracle2) ops2 = true ->
  let st1 := hrun (init_hg self1 genesis oracle1) ops1 in
  let st2 := hrun (init_hg self2 genesis oracle2) ops2 in
  failed st1 = false -> failed st2 = false ->
  nth_error (delivered st1) k = Some d1 -> nth_error (delivered st2) k = Some d2 ->
  (b_index d1, b_rr d1, b_ts d1, b_txs d1, b_itxs d1, b_peers d1) =
  (b_index d2, b_rr d2, b_ts d2, b_txs d2, b_itxs d2, b_peers d2).
Proof.
  exact (fun all g s1 s2 o1 o2 ops1 ops2 k d1 d2 ID SK FF S1 S2 H1 H2 B1 B2 F1 F2 =>
           blocks_agree_gap_full all g ID SK FF s1 s2 o1 o2 ops1 ops2 S1 S2 H1 H2 B1 B2 F1 F2 k d1 d2).
Qed.
Print Assumptions C01_agreement_dynamic_gap.

(* ... hence the shorter delivered sequence is a prefix of the longer one ([cbodyD d], Proofs/BlockPeersD.v, is the
   6-tuple of C01_agreement_dynamic_gap) *)
Theorem C01_agreement_prefix_dynamic_gap : forall all genesis self1 self2 oracle1 oracle2 ops1 ops2,
  ids_determine all -> sigkeys_determine all -> fork_free all -> self1 <> -1 -> self2 <> -1 ->
  Forall (hop_ok all) ops1 -> Forall (hop_ok all) ops2 ->
  gap_runb (init_hg self1 genesis oracle1) ops1 = true -> gap_runb (init_hg self2 genesis oracle2) ops2 = true ->
  let st1 := hrun (init_hg self1 genesis oracle1) ops1 in
  let st2 := hrun (init_hg self2 genesis oracle2) ops2 in
  failed st1 = false -> failed st2 = false ->
  (length (delivered st1) <= length (delivered st2))%nat ->
  map cbodyD (delivered st1) = firstn (length (delivered st1)) (map cbodyD (delivered st2)).
Proof.
  exact (fun all g s1 s2 o1 o2 ops1 ops2 ID SK FF => blocks_prefix_gap all g ID SK FF s1 s2 o1 o2 ops1 ops2).
Qed.
Print Assumptions C01_agreement_prefix_dynamic_gap.

(* ... and in ALL fields, the frame included: the statement of C01_agreement with the distance bound (and non-failure)
   in place of [no_accept] *)
Theorem C01_agreement_full_dynamic_gap : forall all genesis self1 self2 oracle1 oracle2 ops1 ops2 k d1 d2,
  ids_determine all -> sigkeys_determine all -> fork_free all -> self1 <> -1 -> self2 <> -1 ->
  Forall (hop_ok all) ops1 -> Forall (hop_ok all) ops2 ->
  gap_runb (init_hg self1 genesis oracle1) ops1 = true -> gap_runb (init_hg self2 genesis oracle2) ops2 = true ->
  let st1 := hrun (init_hg self1 genesis oracle1) ops1 in
  let st2 := hrun (init_hg self2 genesis oracle2) ops2 in
  failed st1 = false -> failed st2 = false ->
  nth_error (delivered st1) k = Some d1 -> nth_error (delivered st2) k = Some d2 ->
  (b_index d1, b_rr d1, b_ts d1, b_txs d1, b_itxs d1, b_frame d1, b_peers d1) =
  (b_index d2, b_rr d2, b_ts d2, b_txs d2, b_itxs d2, b_frame d2, b_peers d2).
Proof.
  exact (fun all g s1 s2 o1 o2 ops1 ops2 k d1 d2 ID SK FF S1 S2 H1 H2 B1 B2 F1 F2 =>
           blocks_agree_gap_cbody all g ID SK FF s1 s2 o1 o2 ops1 ops2 S1 S2 H1 H2 B1 B2 F1 F2 k d1 d2).
Qed.
Print Assumptions C01_agreement_full_dynamic_gap.

Theorem C01_agreement_full_prefix_dynamic_gap : forall all genesis self1 self2 oracle1 oracle2 ops1 ops2,
  ids_determine all -> sigkeys_determine all -> fork_free all -> self1 <> -1 -> self2 <> -1 ->
  Forall (hop_ok all) ops1 -> Forall (hop_ok all) ops2 ->
  gap_runb (init_hg self1 genesis oracle1) ops1 = true -> gap_runb (init_hg self2 genesis oracle2) ops2 = true ->
  let st1 := hrun (init_hg self1 genesis oracle1) ops1 in
  let st2 := hrun (init_hg self2 genesis oracle2) ops2 in
  failed st1 = false -> failed st2 = false ->
  (length (delivered st1) <= length (delivered st2))%nat ->
  map cbody (delivered st1) = firstn (length (delivered st1)) (map cbody (delivered st2)).
Proof.
  exact (fun all g s1 s2 o1 o2 ops1 ops2 ID SK FF => blocks_prefix_gap_cbody all g ID SK FF s1 s2 o1 o2 ops1 ops2).
Qed.
Print Assumptions C01_agreement_full_prefix_dynamic_gap.

(* the peers field of a delivered block, in EVERY run that has not failed (no distance bound, no second node): it is
   the validator set the table of the node gives for the block's round-received, which is genesis modified, in block
   order, by exactly the accepted receipts of the delivered blocks with round-received + 6 <= that round *)
Theorem C01_block_peers_dynamic : forall all self_ genesis oracle_ ops d,
  self_ <> -1 -> ids_determine all -> Forall (hop_ok all) ops ->
  let st := hrun (init_hg self_ genesis oracle_) ops in
  failed st = false -> In d (delivered st) ->
  b_peers d = validators_at genesis (delivered st) (b_rr d) /\ get_peerset st (b_rr d) = Some (b_peers d).
Proof. exact block_peers_spec. Qed.
Print Assumptions C01_block_peers_dynamic.

(* REGRESSION WITNESS for fix 05eda0b (known finding C01-fame-threshold-after-shrink): A SECOND FORK UNDER
   DYNAMIC MEMBERSHIP, INDEPENDENT OF THE WINDOW, in the code before the fix.  DecideFame decided at a round-j witness
   with the super-majority of the peer-set of round j (`t >= jPeerSet.SuperMajority()`), but the votes it counts are
   those of the round j-1 witnesses (up to |set(j-1)| of them, strongly-seen with set(j-1)).  When the set shrinks from
   5 to 4 at round j (a leave accepted 6 rounds earlier) three equal votes out of five decided: one round-7 witness
   counts 3 no / 2 yes and decided NOT famous; the three others count 2 no / 2 yes (tie = yes) and a round-8 witness
   decides FAMOUS with their 3 yes.  64 events, 5 validators, every coin bit true, both nodes respect the distance
   bound and the window, same table, same rounds on both; node B receives one event (60) later than node A.
   [fame_old] = the voting loop with the pre-fix quorum (Proofs/ShrinkWitness.v, used only there): "not famous" on A's
   view after event 60, "famous" on B's view (everything but 60); before the fix the blocks of index 4 differed on two
   real cores (corpus/C01-shrink-fork.json, replayed on every run: it must not fork any more).  With the fix (quorum =
   super-majority of the voters' set, round j-1; Model/HgImpl.v [vparams_of]) event 60 does not decide and both nodes
   decide "famous" at 62; the recorded history gives the same six blocks on both nodes. *)
Example C01_fame_threshold_regression :
  let a60 := hrun (init_hg 0 sh_g []) (map HInsert (firstn 61 sh_all)) in
  let b63 := hrun (init_hg 1 sh_g []) (map HInsert (firstn 63 sh_all')) in
  nth_error sh_all 60 = Some (sh_ev (60, 0, 11, 44, 59)) /\ nth_error sh_all' 63 = Some (sh_ev (60, 0, 11, 44, 59)) /\
  failed a60 = false /\ failed b63 = false /\ last_round a60 = 7 /\ last_round b63 = 8 /\
  fame_old a60 35 5 = Some (Some false) /\ fame_old b63 35 5 = Some (Some true) /\
  fame_of a60 35 5 = Some None /\ fame_of b63 35 5 = Some (Some true) /\
  fame_of (hrun (init_hg 0 sh_g []) (map HInsert sh_all)) 35 5 = Some (Some true).
Proof. exact sh_regression. Qed.

Example C01_shrink_fork_witness :
  forallb e_coin sh_all = true /\
  gap_runb (init_hg 0 sh_g []) (map HInsert sh_all) = true /\ gap_runb (init_hg 1 sh_g []) (map HInsert sh_all') = true /\
  window_runb (init_hg 0 sh_g []) (map HInsert sh_all) = true /\ window_runb (init_hg 1 sh_g []) (map HInsert sh_all') = true /\
  let sa := hrun (init_hg 0 sh_g []) (map HInsert sh_all) in
  let sb := hrun (init_hg 1 sh_g []) (map HInsert sh_all') in
  failed sa = false /\ failed sb = false /\
  peersets sa = peersets sb /\ map (fun p => (fst p, length (snd p))) (peersets sa) = [(0, 5%nat); (7, 4%nat)] /\
  map (rnd sa) (zseq 0 64) = map (rnd sb) (zseq 0 64) /\
  fame_row sa 5 = [(35, TTrue); (36, TTrue); (37, TTrue); (38, TTrue); (39, TTrue)] /\
  fame_row sb 5 = [(35, TTrue); (36, TTrue); (37, TTrue); (38, TTrue); (39, TTrue)] /\
  length (delivered sa) = 6%nat /\
  map (fun b => (b_index b, b_rr b, b_txs b)) (delivered sa) = map (fun b => (b_index b, b_rr b, b_txs b)) (delivered sb) /\
  option_map (fun b => (b_index b, b_rr b, b_txs b)) (nth_error (delivered sa) 4) = Some (4, 5, [28; 29; 30; 31; 32; 33]).
Proof. exact sh_facts. Qed.

(* non-vacuity on the two nodes above: node 1 (17 events) has delivered 6 blocks, node 0 (24 events) 9;
   the six are the first six of the nine *)
Example C01_example_blocks :
  sigkeys_determine c01_all /\
  length (delivered c01_st2) = 6%nat /\ length (delivered c01_st1) = 9%nat /\
  map cbody (delivered c01_st2) = firstn 6 (map cbody (delivered c01_st1)) /\
  map (fun d => (b_index d, b_rr d, b_txs d)) (delivered c01_st2) =
    [(0, 1, [0; 1]); (1, 2, [2; 3]); (2, 3, [4; 5]); (3, 4, [6; 7]); (4, 5, [8; 9]); (5, 6, [10; 11])].
Proof. split; [apply sigkeys_determine_distinct; vm_compute; reflexivity|]. vm_compute. repeat split; reflexivity. Qed.
