(* C02 Finality: blocks are delivered once, in order, and never change.
   Statements only.  Model: HgImpl (per-event pipeline + ProcessSigPool + core.commit).
   A node's life is a list of operations [hop] = insertion attempts of arbitrary events (valid
   or not, in any order, including witnesses arriving after their round was decided) interleaved
   with ProcessSigPool calls, from any genesis set.  [delivered] is the sequence of commit
   callbacks; [blocks] is what Store.GetBlock reports. *)
From Coq Require Import ZArith List Bool Sorted.
From V Require Import Model.ZMap Model.Quorum Model.HgImpl Proofs.BlockInv Proofs.RoundOrder Proofs.TidyC02.
Import ListNotations.
Open Scope Z_scope.

(* the k-th commit callback carries block index k: consecutive from 0, no repeat, no gap
   (a decided round without payload produces no block and consumes no index) *)
Theorem C02_consecutive : forall self_ genesis oracle_ ops k d,
  nth_error (delivered (hrun (init_hg self_ genesis oracle_) ops)) k = Some d -> b_index d = Z.of_nat k.
Proof. exact (fun s g o ops k d H => binv_consecutive _ (hrun_binv s g o ops) k d H). Qed.
Print Assumptions C02_consecutive.

(* every stored block sits under its own index, at most the last delivered one, and the number of
   callbacks is last index + 1 *)
Theorem C02_store_matches_deliveries : forall self_ genesis oracle_ ops,
  binv (hrun (init_hg self_ genesis oracle_) ops).
Proof. exact hrun_binv. Qed.
Print Assumptions C02_store_matches_deliveries.

(* once block k has been delivered, at every later point of every continuation the delivery
   sequence still has it at position k and the store reports the delivered body (index,
   round-received, timestamp, transactions, internal transactions, frame, peers, state hash /
   receipts / body id as set by commit); only the signature set may grow *)
Theorem C02_immutable : forall self_ genesis oracle_ ops ops' k d,
  nth_error (delivered (hrun (init_hg self_ genesis oracle_) ops)) k = Some d ->
  nth_error (delivered (hrun (init_hg self_ genesis oracle_) (ops ++ ops'))) k = Some d /\
  exists b, zget (Z.of_nat k) (blocks (hrun (init_hg self_ genesis oracle_) (ops ++ ops'))) = Some b /\
            body b = body d /\ sigs_incl d b.
Proof. exact delivered_block_immutable. Qed.
Print Assumptions C02_immutable.

(* "consecutive indexes from 0, no gaps" as one equation: the delivery sequence carries the
   indexes 0, 1, ..., n-1 in this order, n = last stored index + 1.  Over the whole [hrun]
   (insertions and ProcessSigPool calls), like C02_consecutive. *)
Theorem C02_no_gaps : forall self_ genesis oracle_ ops,
  let st := hrun (init_hg self_ genesis oracle_) ops in
  map b_index (delivered st) = map Z.of_nat (seq 0 (length (delivered st))) /\
  Z.of_nat (length (delivered st)) = last_block st + 1.
Proof. exact hrun_delivered_indexes. Qed.
Print Assumptions C02_no_gaps.

(* the delivery sequence is append-only *)
Theorem C02_append_only : forall self_ genesis oracle_ ops ops',
  exists l, delivered (hrun (init_hg self_ genesis oracle_) (ops ++ ops')) =
            delivered (hrun (init_hg self_ genesis oracle_) ops) ++ l.
Proof. exact hrun_delivered_append_only. Qed.
Print Assumptions C02_append_only.

(* C02_immutable field by field ([body] = every field but b_sigs): only b_sigs may change, and it
   only grows.  Covers b_committed / b_receipts / b_bodyid (what commit filled in) as well. *)
Theorem C02_block_immutable_after_delivery : forall self_ genesis oracle_ ops ops' k d,
  nth_error (delivered (hrun (init_hg self_ genesis oracle_) ops)) k = Some d ->
  nth_error (delivered (hrun (init_hg self_ genesis oracle_) (ops ++ ops'))) k = Some d /\
  exists b, zget (Z.of_nat k) (blocks (hrun (init_hg self_ genesis oracle_) (ops ++ ops'))) = Some b /\
    b_index b = b_index d /\ b_rr b = b_rr d /\ b_ts b = b_ts d /\ b_txs b = b_txs d /\
    b_itxs b = b_itxs d /\ b_frame b = b_frame d /\ b_peers b = b_peers d /\
    b_committed b = b_committed d /\ b_receipts b = b_receipts d /\ b_bodyid b = b_bodyid d /\
    (forall v o, aget v (b_sigs d) = Some o -> aget v (b_sigs b) = Some o).
Proof. exact block_immutable_after_delivery. Qed.
Print Assumptions C02_block_immutable_after_delivery.

(* [body] forgets nothing but b_sigs *)
Theorem C02_body_is_all_but_sigs : forall b d,
  body b = body d <->
  (b_index b = b_index d /\ b_rr b = b_rr d /\ b_ts b = b_ts d /\ b_txs b = b_txs d /\
   b_itxs b = b_itxs d /\ b_frame b = b_frame d /\ b_peers b = b_peers d /\
   b_committed b = b_committed d /\ b_receipts b = b_receipts d /\ b_bodyid b = b_bodyid d).
Proof.
  exact (fun b d => conj (body_fields b d)
    (fun H => match H with conj F1 (conj F2 (conj F3 (conj F4 (conj F5 (conj F6 (conj F7 (conj F8 (conj F9 F10)))))))) =>
                fields_body b d F1 F2 F3 F4 F5 F6 F7 F8 F9 F10 end)).
Qed.
Print Assumptions C02_body_is_all_but_sigs.

(* round-received strictly increases along the delivery sequence (hence no round is delivered
   twice and blocks come in round order).  Proofs/RoundOrder.v: the pending-rounds queue is strictly
   sorted and above the last consensus round, rounds are contiguous, a processed round stays
   flagged decided and is never queued again; a delivered block carries the round it was processed
   for. *)
Theorem C02_rr_increasing : forall self_ genesis oracle_ ops k d d',
  nth_error (delivered (hrun (init_hg self_ genesis oracle_) ops)) k = Some d ->
  nth_error (delivered (hrun (init_hg self_ genesis oracle_) ops)) (S k) = Some d' ->
  b_rr d < b_rr d'.
Proof. exact delivered_rr_increasing. Qed.
Print Assumptions C02_rr_increasing.

(* the queue invariant itself, for every reachable state in which no pass returned a store error *)
Theorem C02_queue_invariant : forall self_ genesis oracle_ ops,
  let st := hrun (init_hg self_ genesis oracle_) ops in
  failed st = false ->
  StronglySorted Z.lt (map fst (pending st)) /\
  (forall r, In r (map fst (pending st)) -> match last_consensus st with Some l => l < r | None => True end) /\
  (forall r, get_round st r <> None <-> 0 <= r <= last_round st) /\
  (forall d, In d (delivered st) -> exists l, last_consensus st = Some l /\ b_rr d <= l).
Proof.
  exact (fun s g o ops Hf =>
    let I := proj2 (hrun_rtop s g o ops) Hf in
    conj (r_sorted _ (proj1 I)) (conj (r_above _ (proj2 I)) (conj (r_contig _ (proj1 I)) (r_del_lc _ (proj1 I))))).
Qed.
Print Assumptions C02_queue_invariant.

(* non-vacuity: a single-validator history that delivers two blocks *)
Definition c02_g : peerset := [mkPeer 100 0].
Definition c02_ev (id idx sp : Z) (txs : list Z) : event := mkEvent id 0 idx sp (-1) 0 true id txs [] [] true.
Definition c02_ops : list hop :=
  [HInsert (c02_ev 0 0 (-1) [1]); HInsert (c02_ev 1 1 0 [2]); HInsert (c02_ev 2 2 1 []); HSigPool;
   HInsert (c02_ev 3 3 2 [3]); HInsert (c02_ev 4 4 3 []); HInsert (c02_ev 5 5 4 [])].
Example C02_example :
  map (fun b => (b_index b, b_rr b, b_txs b)) (delivered (hrun (init_hg 0 c02_g [7; 8; 9]) c02_ops))
  = [(0, 1, [1]); (1, 2, [2])].
Proof. vm_compute. reflexivity. Qed.
(* the hypothesis of C02_queue_invariant is satisfiable on that history, with a non-empty queue *)
Example C02_example_queue :
  let st := hrun (init_hg 0 c02_g [7; 8; 9]) c02_ops in
  (failed st, pending st, last_consensus st, last_round st) = (false, [(4, false); (5, false)], Some 3, 5).
Proof. vm_compute. reflexivity. Qed.
(* on that history (which contains a ProcessSigPool call): indexes 0,1; the stored copy of block 0
   has the delivered body and has kept its signature *)
Example C02_example_immutable :
  let st := hrun (init_hg 0 c02_g [7; 8; 9]) c02_ops in
  map b_index (delivered st) = [0; 1] /\ last_block st = 1 /\
  option_map (fun b => (b_bodyid b, b_committed b, b_sigs b)) (zget 0 (blocks st)) = Some (7, true, [(0, 7)]) /\
  option_map (fun b => (b_bodyid b, b_committed b, b_sigs b)) (nth_error (delivered st) 0) = Some (7, true, [(0, 7)]).
Proof. vm_compute. repeat split; reflexivity. Qed.
