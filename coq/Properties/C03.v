(* C03 Consensus output is a function of the event DAG only.  Statements only.
   What is proved here: (1) the virtual-voting result does not depend on the order in which a
   round's witnesses are visited (Go iterates over maps) nor on which other witnesses a view
   knows (monotone in the view) - theorems about the abstract voting loop that HgImpl
   instantiates; (2) the admitted DAG, the per-creator listings and the insertion counter are
   untouched by the consensus passes; (3) the batching clause of the property is FALSE of the
   code: C03_batching_refuted; (4) stages S2/S3 (Proofs/FirstDesc .. Proofs/Agreement): in
   per-event mode under static membership, round, witness flag, Lamport timestamp and strongly-see
   of a stored event are functions of its ancestry (and no pass ever fails): any two reachable states (any insertion
   orders, any cuts, any node) over one universe assign the same values to the events they share
   (C03_round_function_of_ancestry, C03_lamport_function_of_ancestry,
   C03_strongly_see_function_of_ancestry, C03_order_independent_shared); (5) stage C
   (Proofs/AdmitOrder.v): WHICH events get admitted does not depend on the order either: two
   topological orders of one fork-free set of attempts let in the same events
   (C03_admission_order_independent), hence give the same observation for every identifier
   (C03_order_independent); a topological run over a superset of the attempts admits a superset
   (C03_admission_monotone); delivered blocks of any two runs over one universe are equal position
   by position (C03_blocks_order_consistent, from C01) - the NUMBER of blocks delivered so far may
   differ (a round stays flagged decided when a late witness arrives after its decision, and
   waits for that witness when it arrives before), so "all results equal" holds as prefix
   consistency, not as equality of the sequences.  The literal statement without the premises
   (fork freedom) is false: C03_order_independent_statement_refuted.  The check evaluates the
   statements on every generated DAG (harness cmd/sim -dagrun). *)
From Coq Require Import ZArith List Bool Permutation.
From V Require Import Model.ZMap Model.Quorum Model.Voting Model.VotingRef Model.HgImpl Model.HgBatch
  Proofs.VotingProofs Proofs.VotingTheorems Proofs.BatchRefute Proofs.AdmissionProofs Proofs.BlockInv
  Proofs.OrderProofs Proofs.Static Proofs.Agreement Proofs.AgreementU Proofs.AdmitOrder Proofs.BlockAgree
  Model.Window Proofs.GapWindow Proofs.RoundAgreeD Proofs.RoundReceivedD Proofs.OrderIndepD
  Proofs.BlockAgreeD Proofs.BlockPeersD Proofs.OrderAgreeD.
Import ListNotations.
Open Scope Z_scope.

(* HgImpl's DecideFame for one witness IS the abstract loop (definitional) *)
Theorem C03_fame_is_voting_loop : forall st x r,
  fame_of st x r = fame_loop (vparams_of st x) (round_witnesses st) r (zrange (r + 1) (last_round st)) [].
Proof. exact (fun st x r => eq_refl). Qed.
Print Assumptions C03_fame_is_voting_loop.

(* process-local iteration order (Go map order) is irrelevant for the fame decision *)
Theorem C03_vote_counting_order_insensitive : forall n r P P' W W' J,
  view_ok n r P W J -> same_params_upto_order r J P P' W ->
  (forall j, Permutation (W j) (W' j)) ->
  fame_loop P' (fun j => Some (W' j)) r (zrange (r + 1) J) []
  = fame_loop P (fun j => Some (W j)) r (zrange (r + 1) J) [].
Proof. exact VOTE_T5_order_irrelevant. Qed.
Print Assumptions C03_vote_counting_order_insensitive.

(* a node that knows fewer witnesses (a downward-closed sub-DAG) never decides differently, and
   what it has decided stays decided with the same value in every larger view *)
Theorem C03_fame_prefix : forall n r P1 W1 J1 P2 W2 J2 G v,
  view_ok n r P1 W1 J1 -> view_ok n r P2 W2 J2 -> same_history n r P1 W1 J1 P2 W2 J2 G ->
  J1 <= J2 -> (forall j, r + 1 <= j <= J1 -> incl (W1 j) (W2 j)) ->
  fame_loop P1 (fun j => Some (W1 j)) r (zrange (r + 1) J1) [] = Some (Some v) ->
  fame_loop P2 (fun j => Some (W2 j)) r (zrange (r + 1) J2) [] = Some (Some v).
Proof. exact VOTE_T4_decision_monotone. Qed.
Print Assumptions C03_fame_prefix.

(* the batching clause is false: same events, same order, same validator set; consensus passes
   after every insertion vs after every third insertion give different rounds *)
Theorem C03_batching_refuted :
  exists genesis evs k x r1 r2,
    round_of_event (run (init_hg (-1) genesis []) evs) x = Some r1 /\
    round_of_event (run_batched k (init_hg (-1) genesis []) evs) x = Some r2 /\ r1 <> r2.
Proof. exact batching_witness. Qed.
Print Assumptions C03_batching_refuted.

(** Stages S2/S3: division results are functions of the ancestry (per-event mode, static
    membership).  st1 and st2 are ANY two reachable states over one universe:
    different insertion orders, different cuts of the DAG, different nodes. *)

(* round and witness flag: set at the event's insertion, the same in every state that stores it *)
Theorem C03_round_function_of_ancestry :
  forall genesis all self1 self2 oracle1 oracle2 ops1 ops2 x e1 e2,
  ids_determine all -> no_accept all -> Forall (hop_ok all) ops1 -> Forall (hop_ok all) ops2 ->
  let st1 := hrun (init_hg self1 genesis oracle1) ops1 in
  let st2 := hrun (init_hg self2 genesis oracle2) ops2 in
  get_event st1 x = Some e1 -> get_event st2 x = Some e2 ->
  ev_round e1 = ev_round e2 /\ ev_round e1 <> None /\
  zget x (round_memo st1) = zget x (round_memo st2) /\ zget x (witness_memo st1) = zget x (witness_memo st2).
Proof.
  exact (fun g all s1 s2 o1 o2 ops1 ops2 x e1 e2 ID NA H1 H2 => u_round g all ID NA s1 s2 o1 o2 ops1 ops2 H1 H2 x e1 e2).
Qed.
Print Assumptions C03_round_function_of_ancestry.

Theorem C03_lamport_function_of_ancestry :
  forall genesis all self1 self2 oracle1 oracle2 ops1 ops2 x e1 e2,
  ids_determine all -> no_accept all -> Forall (hop_ok all) ops1 -> Forall (hop_ok all) ops2 ->
  let st1 := hrun (init_hg self1 genesis oracle1) ops1 in
  let st2 := hrun (init_hg self2 genesis oracle2) ops2 in
  get_event st1 x = Some e1 -> get_event st2 x = Some e2 -> ev_lt e1 = ev_lt e2 /\ ev_lt e1 <> None.
Proof.
  exact (fun g all s1 s2 o1 o2 ops1 ops2 x e1 e2 ID NA H1 H2 => u_lamport g all ID NA s1 s2 o1 o2 ops1 ops2 H1 H2 x e1 e2).
Qed.
Print Assumptions C03_lamport_function_of_ancestry.

(* _stronglySee(x, w) read through the coordinates (first descendants of w gain entries over
   time, the walk stops at witnesses) has one value, whatever the state that stores both *)
Theorem C03_strongly_see_function_of_ancestry :
  forall genesis all self1 self2 oracle1 oracle2 ops1 ops2 x w e1x e2x e1w e2w,
  ids_determine all -> no_accept all -> Forall (hop_ok all) ops1 -> Forall (hop_ok all) ops2 ->
  let st1 := hrun (init_hg self1 genesis oracle1) ops1 in
  let st2 := hrun (init_hg self2 genesis oracle2) ops2 in
  get_event st1 x = Some e1x -> get_event st2 x = Some e2x ->
  get_event st1 w = Some e1w -> get_event st2 w = Some e2w ->
  strongly_see st1 x w genesis = strongly_see st2 x w genesis /\ strongly_see st1 x w genesis <> None.
Proof.
  exact (fun g all s1 s2 o1 o2 ops1 ops2 x w e1x e2x e1w e2w ID NA H1 H2 =>
           u_strongly_see g all ID NA s1 s2 o1 o2 ops1 ops2 H1 H2 x w e1x e2x e1w e2w).
Qed.
Print Assumptions C03_strongly_see_function_of_ancestry.

(* THE SAME UNDER DYNAMIC MEMBERSHIP (no [no_accept]); code after fix 05eda0b.
   - Lamport timestamps never read a validator set: they are a function of the ancestry for ANY two nodes over one
     universe, with no membership premise at all (C03_lamport_function_of_ancestry_dynamic).
   - Round, witness flag, strongly-see and round-received read the validator-set table: they are functions of the
     ancestry AND OF THE TABLE: any two nodes (any selfs, insertion orders, cuts, genesis sets) that respect the distance
     bound [gap_runb] and whose tables agree on the rounds both have ([tables_agree]) assign the same values to the
     events they share.  Without the bound they do not: C01_dynamic_fork_by_scheduling. *)
Theorem C03_lamport_function_of_ancestry_dynamic :
  forall all self1 self2 genesis1 genesis2 oracle1 oracle2 ops1 ops2 x e1 e2,
  ids_determine all -> Forall (hop_ok all) ops1 -> Forall (hop_ok all) ops2 ->
  failed (hrun (init_hg self1 genesis1 oracle1) ops1) = false -> failed (hrun (init_hg self2 genesis2 oracle2) ops2) = false ->
  get_event (hrun (init_hg self1 genesis1 oracle1) ops1) x = Some e1 ->
  get_event (hrun (init_hg self2 genesis2 oracle2) ops2) x = Some e2 ->
  ev_lt e1 = ev_lt e2 /\ ev_lt e1 <> None.
Proof. exact lamport_agree_any. Qed.
Print Assumptions C03_lamport_function_of_ancestry_dynamic.

Theorem C03_round_function_of_ancestry_dynamic :
  forall all self1 self2 genesis1 genesis2 oracle1 oracle2 ops1 ops2 x e1 e2,
  ids_determine all -> self1 <> -1 -> self2 <> -1 ->
  Forall (hop_ok all) ops1 -> Forall (hop_ok all) ops2 ->
  gap_runb (init_hg self1 genesis1 oracle1) ops1 = true -> gap_runb (init_hg self2 genesis2 oracle2) ops2 = true ->
  let st1 := hrun (init_hg self1 genesis1 oracle1) ops1 in
  let st2 := hrun (init_hg self2 genesis2 oracle2) ops2 in
  failed st1 = false -> failed st2 = false -> tables_agree st1 st2 ->
  get_event st1 x = Some e1 -> get_event st2 x = Some e2 ->
  ev_round e1 = ev_round e2 /\ ev_round e1 <> None /\
  zget x (round_memo st1) = zget x (round_memo st2) /\ zget x (witness_memo st1) = zget x (witness_memo st2).
Proof. exact (fun all s1 s2 g1 g2 o1 o2 ops1 ops2 x e1 e2 ID S1 S2 H1 H2 B1 B2 F1 F2 T =>
                gap_round_agree all s1 s2 g1 g2 o1 o2 ops1 ops2 ID S1 S2 H1 H2 B1 B2 F1 F2 T x e1 e2). Qed.
Print Assumptions C03_round_function_of_ancestry_dynamic.

Theorem C03_strongly_see_function_of_ancestry_dynamic :
  forall all self1 self2 genesis1 genesis2 oracle1 oracle2 ops1 ops2 g x w e1x e2x e1w e2w,
  ids_determine all -> self1 <> -1 -> self2 <> -1 ->
  Forall (hop_ok all) ops1 -> Forall (hop_ok all) ops2 ->
  gap_runb (init_hg self1 genesis1 oracle1) ops1 = true -> gap_runb (init_hg self2 genesis2 oracle2) ops2 = true ->
  let st1 := hrun (init_hg self1 genesis1 oracle1) ops1 in
  let st2 := hrun (init_hg self2 genesis2 oracle2) ops2 in
  failed st1 = false -> failed st2 = false -> tables_agree st1 st2 ->
  get_event st1 x = Some e1x -> get_event st2 x = Some e2x ->
  get_event st1 w = Some e1w -> get_event st2 w = Some e2w ->
  strongly_see st1 x w g = strongly_see st2 x w g /\ strongly_see st1 x w g <> None.
Proof. exact (fun all s1 s2 g1 g2 o1 o2 ops1 ops2 g x w e1x e2x e1w e2w ID S1 S2 H1 H2 B1 B2 F1 F2 T =>
                gap_strongly_see_agree all s1 s2 g1 g2 o1 o2 ops1 ops2 ID S1 S2 H1 H2 B1 B2 F1 F2 T g x w e1x e2x e1w e2w). Qed.
Print Assumptions C03_strongly_see_function_of_ancestry_dynamic.

Theorem C03_round_received_function_of_ancestry_dynamic :
  forall all self1 self2 genesis1 genesis2 oracle1 oracle2 ops1 ops2 x e1 e2 i1 i2,
  ids_determine all -> fork_free all -> self1 <> -1 -> self2 <> -1 ->
  Forall (hop_ok all) ops1 -> Forall (hop_ok all) ops2 ->
  gap_runb (init_hg self1 genesis1 oracle1) ops1 = true -> gap_runb (init_hg self2 genesis2 oracle2) ops2 = true ->
  let st1 := hrun (init_hg self1 genesis1 oracle1) ops1 in
  let st2 := hrun (init_hg self2 genesis2 oracle2) ops2 in
  failed st1 = false -> failed st2 = false -> tables_agree st1 st2 ->
  get_event st1 x = Some e1 -> get_event st2 x = Some e2 ->
  ev_rr e1 = Some i1 -> ev_rr e2 = Some i2 -> i1 = i2.
Proof. exact rr_agreement_gap_universe. Qed.
Print Assumptions C03_round_received_function_of_ancestry_dynamic.

(* The full statements *)
Definition is_topological (evs : list event) : Prop :=
  forall i e, nth_error evs i = Some e ->
    (e_sp e = -1 \/ exists j p, (j < i)%nat /\ nth_error evs j = Some p /\ e_id p = e_sp e) /\
    (e_op e = -1 \/ exists j p, (j < i)%nat /\ nth_error evs j = Some p /\ e_id p = e_op e).
Definition obs (st : hg) (x : Z) := option_map (fun e => (ev_round e, ev_lt e)) (get_event st x).
(* the observation of a shared event does not depend on the order / cut *)
Theorem C03_order_independent_shared :
  forall genesis all self1 self2 oracle1 oracle2 ops1 ops2 x,
  ids_determine all -> no_accept all -> Forall (hop_ok all) ops1 -> Forall (hop_ok all) ops2 ->
  let st1 := hrun (init_hg self1 genesis oracle1) ops1 in
  let st2 := hrun (init_hg self2 genesis oracle2) ops2 in
  get_event st1 x <> None -> get_event st2 x <> None -> obs st1 x = obs st2 x.
Proof. exact (fun g all s1 s2 o1 o2 ops1 ops2 x ID NA H1 H2 => u_obs g all ID NA s1 s2 o1 o2 ops1 ops2 H1 H2 x). Qed.
Print Assumptions C03_order_independent_shared.

(* ADMISSION IS ORDER INDEPENDENT: two topological orders (parents attempted first) of one set of
   attempts - any events: bad signatures, wrong indexes, unknown creators included - over a
   fork-free universe with distinct identifiers, static membership, let in the same events.  The
   two runs may even belong to different nodes (self, oracle). *)
Theorem C03_admission_order_independent : forall genesis evs evs' self1 self2 oracle1 oracle2,
  Permutation evs evs' -> is_topological evs -> is_topological evs' ->
  ids_determine evs -> fork_free evs -> no_accept evs -> (forall e, In e evs -> 0 <= e_id e) ->
  forall x, get_event (run (init_hg self1 genesis oracle1) evs) x <> None <->
            get_event (run (init_hg self2 genesis oracle2) evs') x <> None.
Proof.
  exact (fun g evs evs' s1 s2 o1 o2 P T1 T2 ID FF NA NN x =>
           admitted_order_independent g evs evs' P T1 T2 ID FF NA NN s1 s2 o1 o2 x).
Qed.
Print Assumptions C03_admission_order_independent.

(* THE ORDER-INDEPENDENCE STATEMENT, with the premises it needs *)
Theorem C03_order_independent : forall genesis evs evs' self1 self2 oracle1 oracle2,
  Permutation evs evs' -> is_topological evs -> is_topological evs' ->
  ids_determine evs -> fork_free evs -> no_accept evs -> (forall e, In e evs -> 0 <= e_id e) ->
  forall x, obs (run (init_hg self1 genesis oracle1) evs) x = obs (run (init_hg self2 genesis oracle2) evs') x.
Proof.
  exact (fun g evs evs' s1 s2 o1 o2 P T1 T2 ID FF NA NN x =>
           obs_order_independent g evs evs' P T1 T2 ID FF NA NN s1 s2 o1 o2 x).
Qed.
Print Assumptions C03_order_independent.

(* a sub-DAG: every event a run admits is admitted by any topological run that attempts (at least)
   the admitted events of the first - in particular by a run over a superset of the attempts *)
Theorem C03_admission_monotone : forall genesis all self1 self2 oracle1 oracle2 ops1 evs2,
  ids_determine all -> fork_free all -> no_accept all ->
  Forall (hop_ok all) ops1 -> Forall (hop_ok all) (map HInsert evs2) -> is_topological evs2 ->
  let st1 := hrun (init_hg self1 genesis oracle1) ops1 in
  let st2 := hrun (init_hg self2 genesis oracle2) (map HInsert evs2) in
  (forall x es, get_event st1 x = Some es -> In (ev_e es) evs2) ->
  forall x, get_event st1 x <> None -> get_event st2 x <> None.
Proof.
  exact (fun g all s1 s2 o1 o2 ops1 evs2 ID FF NA H1 H2 T =>
           admitted_incl g all ID FF NA s1 o1 ops1 s2 o2 evs2 H1 H2 T).
Qed.
Print Assumptions C03_admission_monotone.

(* the delivered blocks of two runs over one universe - any orders, any cuts - agree position by
   position (C01_agreement restated for [run]) *)
Theorem C03_blocks_order_consistent : forall genesis all evs1 evs2 self1 self2 oracle1 oracle2 k d1 d2,
  ids_determine all -> sigkeys_determine all -> no_accept all -> fork_free all ->
  Forall (hop_ok all) (map HInsert evs1) -> Forall (hop_ok all) (map HInsert evs2) ->
  nth_error (delivered (hrun (init_hg self1 genesis oracle1) (map HInsert evs1))) k = Some d1 ->
  nth_error (delivered (hrun (init_hg self2 genesis oracle2) (map HInsert evs2))) k = Some d2 ->
  cbody d1 = cbody d2.
Proof.
  exact (fun g all evs1 evs2 s1 s2 o1 o2 k d1 d2 ID SK NA FF H1 H2 =>
           blocks_agree g all ID SK NA FF s1 s2 o1 o2 (map HInsert evs1) (map HInsert evs2) k d1 d2 H1 H2).
Qed.
Print Assumptions C03_blocks_order_consistent.

(* THE SAME UNDER DYNAMIC MEMBERSHIP (no [no_accept], no premise on the tables): two runs over one fork-free universe
   -- any insertion orders, any cuts, any selfs, the same genesis set -- that both respect the distance bound [gap_runb]
   and have not failed give the same observation (round, Lamport timestamp) for every event both have admitted, and
   their delivered blocks agree position by position in index, round-received, timestamp, transactions, internal
   transactions and peers ([cbodyD], Proofs/BlockPeersD.v; C01_agreement_dynamic_gap restated for insertion
   sequences).  Without the bound: C01_dynamic_fork_by_scheduling (the order of insertion alone forks). *)
Theorem C03_order_independent_shared_dynamic :
  forall all genesis self1 self2 oracle1 oracle2 ops1 ops2 x,
  ids_determine all -> sigkeys_determine all -> fork_free all -> self1 <> -1 -> self2 <> -1 ->
  Forall (hop_ok all) ops1 -> Forall (hop_ok all) ops2 ->
  gap_runb (init_hg self1 genesis oracle1) ops1 = true -> gap_runb (init_hg self2 genesis oracle2) ops2 = true ->
  let st1 := hrun (init_hg self1 genesis oracle1) ops1 in
  let st2 := hrun (init_hg self2 genesis oracle2) ops2 in
  failed st1 = false -> failed st2 = false ->
  get_event st1 x <> None -> get_event st2 x <> None -> obs st1 x = obs st2 x.
Proof.
  exact (fun all g s1 s2 o1 o2 ops1 ops2 x ID SK FF S1 S2 H1 H2 B1 B2 F1 F2 =>
           obs_agree_gap all g ID SK FF s1 s2 o1 o2 ops1 ops2 S1 S2 H1 H2 B1 B2 F1 F2 x).
Qed.
Print Assumptions C03_order_independent_shared_dynamic.

Theorem C03_blocks_order_consistent_dynamic : forall all genesis evs1 evs2 self1 self2 oracle1 oracle2 k d1 d2,
  ids_determine all -> sigkeys_determine all -> fork_free all -> self1 <> -1 -> self2 <> -1 ->
  Forall (hop_ok all) (map HInsert evs1) -> Forall (hop_ok all) (map HInsert evs2) ->
  gap_runb (init_hg self1 genesis oracle1) (map HInsert evs1) = true ->
  gap_runb (init_hg self2 genesis oracle2) (map HInsert evs2) = true ->
  failed (hrun (init_hg self1 genesis oracle1) (map HInsert evs1)) = false ->
  failed (hrun (init_hg self2 genesis oracle2) (map HInsert evs2)) = false ->
  nth_error (delivered (hrun (init_hg self1 genesis oracle1) (map HInsert evs1))) k = Some d1 ->
  nth_error (delivered (hrun (init_hg self2 genesis oracle2) (map HInsert evs2))) k = Some d2 ->
  cbodyD d1 = cbodyD d2.
Proof.
  exact (fun all g evs1 evs2 s1 s2 o1 o2 k d1 d2 ID SK FF S1 S2 H1 H2 B1 B2 F1 F2 =>
           blocks_agree_gap_full all g ID SK FF s1 s2 o1 o2 (map HInsert evs1) (map HInsert evs2) S1 S2 H1 H2 B1 B2 F1 F2 k d1 d2).
Qed.
Print Assumptions C03_blocks_order_consistent_dynamic.

(* THE PREFIX STATEMENT (literal, no premise): attempting more events only appends blocks *)
Theorem C03_prefix : forall genesis evs more,
  exists l, map b_txs (delivered (run (init_hg (-1) genesis []) (evs ++ more)))
          = map b_txs (delivered (run (init_hg (-1) genesis []) evs)) ++ l.
Proof. exact (fun g evs more => delivered_txs_prefix (-1) g [] evs more). Qed.
Print Assumptions C03_prefix.

(* REFUTED: the order-independence statement WITHOUT fork freedom.  Two first events a, b of one
   creator: [a; b] admits a, [b; a] admits b (Proofs/AdmitOrder.v: ow_a, ow_b). *)
Definition C03_order_independent_statement : Prop :=
  forall genesis evs evs', Permutation evs evs' -> is_topological evs -> is_topological evs' ->
    forall x, obs (run (init_hg (-1) genesis []) evs) x = obs (run (init_hg (-1) genesis []) evs') x.
Theorem C03_order_independent_statement_refuted : ~ C03_order_independent_statement.
Proof. exact ow_refuted. Qed.
Print Assumptions C03_order_independent_statement_refuted.

(* non-vacuity of the S2/S3 theorems: the C01 example (two nodes, 24 / 17 events of one DAG) *)
Example C03_example_functions :
  let g := [mkPeer 100 0; mkPeer 101 1] in
  let ev k := mkEvent k (k mod 2) (k / 2) (if k <? 2 then -1 else k - 2) (if k =? 0 then -1 else k - 1) k
                      (Z.even (k / 3)) (100 - k) [k] [] [] true in
  let all := map ev (zseq 0 24) in
  let st1 := hrun (init_hg 0 g []) (map HInsert all) in
  let st2 := hrun (init_hg 1 g []) (map HInsert (firstn 17 all)) in
  no_acceptb all = true /\ failed st1 = false /\ failed st2 = false /\
  map (obs st1) (zseq 0 17) = map (obs st2) (zseq 0 17) /\
  obs st2 16 = Some (Some 8, Some 16) /\
  strongly_see st1 16 13 g = Some true /\ strongly_see st2 16 13 g = Some true /\
  strongly_see st1 16 16 g = Some false /\ strongly_see st2 16 16 g = Some false.
Proof. vm_compute. repeat split; reflexivity. Qed.

(* non-vacuity of C03_order_independent: the same 24 events, the first two swapped (both topological) *)
Example C03_example_orders :
  let g := [mkPeer 100 0; mkPeer 101 1] in
  let ev k := mkEvent k (k mod 2) (k / 2) (if k <? 2 then -1 else k - 2) (if k <? 2 then -1 else k - 1) k
                      (Z.even (k / 3)) (100 - k) [k] [] [] true in
  let evs := map ev (zseq 0 24) in
  let evs' := ev 1 :: ev 0 :: map ev (zseq 2 22) in
  fork_freeb evs = true /\ no_acceptb evs = true /\
  map (obs (run (init_hg (-1) g []) evs)) (zseq 0 24) = map (obs (run (init_hg (-1) g []) evs')) (zseq 0 24) /\
  obs (run (init_hg (-1) g []) evs') 16 = Some (Some 7, Some 15).
Proof. vm_compute. repeat split; reflexivity. Qed.
