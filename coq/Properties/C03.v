(* C03 Consensus output is a function of the event DAG only.  Statements only.
   What is proved here: (1) the virtual-voting result does not depend on the order in which a
   round's witnesses are visited (Go iterates over maps) nor on which other witnesses a view
   knows (monotone in the view) - theorems about the abstract voting loop that HgImpl
   instantiates; (2) the admitted DAG, the per-creator listings and the insertion counter are
   untouched by the consensus passes; (3) the batching clause of the property is FALSE of the
   code: C03_batching_refuted.  The full order-independence / prefix statements are kept as
   Definitions below; the check evaluates them on every generated DAG (harness cmd/sim -dagrun). *)
From Coq Require Import ZArith List Bool Permutation.
From V Require Import Model.ZMap Model.Quorum Model.Voting Model.VotingRef Model.HgImpl Model.HgBatch
  Proofs.VotingProofs Proofs.VotingTheorems Proofs.BatchRefute.
Import ListNotations.
Open Scope Z_scope.

(* HgImpl's DecideFame for one witness IS the abstract loop (definitional) *)
Theorem C03_fame_is_voting_loop : forall st x r,
  fame_of st x r = fame_loop (vparams_of st x) (round_witnesses st) r (zrange (r + 1) (last_round st)) [].
Proof. exact (fun st x r => eq_refl). Qed.
Print Assumptions C03_fame_is_voting_loop.

(* process-local iteration order (Go map order) is irrelevant for the fame decision *)
Theorem C03_vote_counting_order_insensitive : forall n r P P' W W' J,
  view_ok n r P W J -> same_params_upto_order r J P P' W ->
  (forall j, Permutation (W j) (W' j)) ->
  fame_loop P' (fun j => Some (W' j)) r (zrange (r + 1) J) []
  = fame_loop P (fun j => Some (W j)) r (zrange (r + 1) J) [].
Proof. exact VOTE_T5_order_irrelevant. Qed.
Print Assumptions C03_vote_counting_order_insensitive.

(* a node that knows fewer witnesses (a downward-closed sub-DAG) never decides differently, and
   what it has decided stays decided with the same value in every larger view *)
Theorem C03_fame_prefix : forall n r P1 W1 J1 P2 W2 J2 G v,
  view_ok n r P1 W1 J1 -> view_ok n r P2 W2 J2 -> same_history n r P1 W1 J1 P2 W2 J2 G ->
  J1 <= J2 -> (forall j, r + 1 <= j <= J1 -> incl (W1 j) (W2 j)) ->
  fame_loop P1 (fun j => Some (W1 j)) r (zrange (r + 1) J1) [] = Some (Some v) ->
  fame_loop P2 (fun j => Some (W2 j)) r (zrange (r + 1) J2) [] = Some (Some v).
Proof. exact VOTE_T4_decision_monotone. Qed.
Print Assumptions C03_fame_prefix.

(* the batching clause is false: same events, same order, same validator set; consensus passes
   after every insertion vs after every third insertion give different rounds *)
Theorem C03_batching_refuted :
  exists genesis evs k x r1 r2,
    round_of_event (run (init_hg (-1) genesis []) evs) x = Some r1 /\
    round_of_event (run_batched k (init_hg (-1) genesis []) evs) x = Some r2 /\ r1 <> r2.
Proof. exact batching_witness. Qed.
Print Assumptions C03_batching_refuted.

(* FULL STATEMENTS not yet proved (evaluated on every generated DAG by the check) *)
Definition is_topological (evs : list event) : Prop :=
  forall i e, nth_error evs i = Some e ->
    (e_sp e = -1 \/ exists j p, (j < i)%nat /\ nth_error evs j = Some p /\ e_id p = e_sp e) /\
    (e_op e = -1 \/ exists j p, (j < i)%nat /\ nth_error evs j = Some p /\ e_id p = e_op e).
Definition obs (st : hg) (x : Z) := option_map (fun e => (ev_round e, ev_lt e)) (get_event st x).
Definition C03_order_independent_statement : Prop :=
  forall genesis evs evs', Permutation evs evs' -> is_topological evs -> is_topological evs' ->
    forall x, obs (run (init_hg (-1) genesis []) evs) x = obs (run (init_hg (-1) genesis []) evs') x.
Definition C03_prefix_statement : Prop :=
  forall genesis evs more,
    exists l, map b_txs (delivered (run (init_hg (-1) genesis []) (evs ++ more)))
            = map b_txs (delivered (run (init_hg (-1) genesis []) evs)) ++ l.
