(* C04 Committed order extends causality; events are committed whole and once.
   Statements only.  Model: HgImpl.  A node's life is a list of operations [hop] (insertion
   attempts of arbitrary events, valid or not, in any order, interleaved with ProcessSigPool
   calls) from any genesis set.  Hypotheses on the attempted events: identifiers (hashes)
   determine events ([ids_determine], SHA-256 collision freedom) and are numbered from 0.
   [frames] is the frame cache (Store.GetFrame), [delivered] the commit callbacks, [rcv st r] the
   received list of round r (RoundInfo.ReceivedEvents), [ev_lt]/[ev_rr] the lamportTimestamp and
   roundReceived fields of a stored event, [lt_memo] the timestamp cache used by frames. *)
From Coq Require Import ZArith List Bool Sorted Permutation.
From V Require Import Model.ZMap Model.Quorum Model.HgImpl Proofs.AdmissionProofs Proofs.BlockInv
  Proofs.OrderSort Proofs.OrderFrames Proofs.OrderProofs Proofs.Static Proofs.Agreement Proofs.RoundReceived
  Proofs.Committed Proofs.CausalityWitness Model.Window Proofs.GapWindow Proofs.CommittedD
  Proofs.BlockAgree Proofs.BlockAgreeD Proofs.OrderAgreeD.
Import ListNotations.
Open Scope Z_scope.

Definition reach (all : list event) (st : hg) : Prop :=
  exists self_ genesis oracle_ ops,
    ids_determine all /\ Forall (hop_ok all) ops /\ st = hrun (init_hg self_ genesis oracle_) ops.

(* the global invariant (DAG well-formedness, timestamp tables, received lists, frames, delivered
   blocks) holds in every reachable state *)
Theorem C04_invariant : forall all st, reach all st -> ginv all st.
Proof.
  exact (fun all st R =>
    match R with ex_intro _ s (ex_intro _ g (ex_intro _ o (ex_intro _ ops (conj ID (conj H E))))) =>
      eq_ind_r (ginv all) (hrun_ginv all s g o ops ID H) E end).
Qed.
Print Assumptions C04_invariant.

(* Lamport timestamps: an event's timestamp is 1 + the maximum of its parents' timestamps (-1 for
   an absent parent); in particular every parent in the DAG carries a strictly smaller one *)
Theorem C04_lamport_strict : forall all st x ex t,
  reach all st -> get_event st x = Some ex -> ev_lt ex = Some t ->
  exists a b, parent_ts st (e_sp (ev_e ex)) = Some a /\ parent_ts st (e_op (ev_e ex)) = Some b /\
              -1 <= a /\ -1 <= b /\ t = 1 + Z.max a b.
Proof. exact (fun all st x ex t R => lamport_strict all st x ex t (C04_invariant all st R)). Qed.
Print Assumptions C04_lamport_strict.

Theorem C04_lamport_parent : forall all st x ex t p,
  reach all st -> get_event st x = Some ex -> ev_lt ex = Some t ->
  (p = e_sp (ev_e ex) \/ p = e_op (ev_e ex)) -> p <> -1 ->
  exists ep tp, get_event st p = Some ep /\ ev_lt ep = Some tp /\ tp < t.
Proof. exact (fun all st x ex t p R => lamport_parent_lt all st x ex t p (C04_invariant all st R)). Qed.
Print Assumptions C04_lamport_parent.

(* every ancestor (chain of parents through stored events) has a strictly smaller timestamp *)
Theorem C04_lamport_ancestor : forall all st a b eb tb,
  reach all st -> anc st a b -> get_event st b = Some eb -> ev_lt eb = Some tb ->
  exists ta, zget a (lt_memo st) = Some ta /\ ta < tb.
Proof. exact (fun all st a b eb tb R => lamport_ancestor_lt all st a b eb tb (C04_invariant all st R)). Qed.
Print Assumptions C04_lamport_ancestor.

(* SortedFrameEvents: the model's sort returns the permutation of its input that is sorted by
   (Lamport timestamp, signature rank); when these pairs are pairwise distinct it is the only such
   permutation, so Go's unstable sort.Sort yields the same list *)
Theorem C04_sort_spec : forall st l,
  Permutation (fe_sort st l) l /\ StronglySorted (fe_le st) (fe_sort st l) /\
  (NoDup (map (fe_key st) l) ->
   forall l', Permutation l' l -> StronglySorted (fe_le st) l' -> l' = fe_sort st l).
Proof.
  exact (fun st l => conj (fe_sort_perm st l) (conj (fe_sort_sorted st l)
           (fun N l' P S => fe_sort_unique st l l' N P S))).
Qed.
Print Assumptions C04_sort_spec.

(* in a cached frame an event never precedes one of its ancestors *)
Theorem C04_frame_respects_ancestry : forall all st rr f i j a b,
  reach all st -> zget rr (frames st) = Some f ->
  nth_error (f_events f) i = Some a -> nth_error (f_events f) j = Some b ->
  anc st (fe_id a) (fe_id b) -> (i < j)%nat.
Proof. exact (fun all st rr f i j a b R => frame_respects_ancestry all st rr f i j a b (C04_invariant all st R)). Qed.
Print Assumptions C04_frame_respects_ancestry.

(* every cached frame of a reachable state is sorted by the full key; with pairwise distinct keys
   it is the only sorted arrangement of its events *)
Theorem C04_frame_sorted : forall all st rr f,
  reach all st -> zget rr (frames st) = Some f ->
  StronglySorted (fe_le st) (f_events f) /\
  (NoDup (map (fe_key st) (f_events f)) ->
   forall l', Permutation l' (f_events f) -> StronglySorted (fe_le st) l' -> l' = f_events f).
Proof. exact (fun all st rr f R => frame_sorted all st rr f (C04_invariant all st R)). Qed.
Print Assumptions C04_frame_sorted.

(* a block built from a frame carries the frame events' transactions, concatenated in frame order *)
Theorem C04_block_payload : forall index f st,
  b_txs (block_of_frame index f st) = flat_map (txs_of st) (f_events f) /\
  b_itxs (block_of_frame index f st) = flat_map (itxs_of st) (f_events f) /\
  b_rr (block_of_frame index f st) = f_round f.
Proof. exact (fun index f st => conj eq_refl (conj eq_refl eq_refl)). Qed.
Print Assumptions C04_block_payload.

(* every delivered block is the block of the cached frame of its round-received: exactly the
   payload of the events of one round-received *)
Theorem C04_delivered_payload : forall all st d,
  reach all st -> In d (delivered st) ->
  zget (b_rr d) (frames st) = Some (b_frame d) /\
  b_txs d = flat_map (txs_of st) (f_events (b_frame d)) /\
  b_itxs d = flat_map (itxs_of st) (f_events (b_frame d)).
Proof. exact (fun all st d R => delivered_block_payload all st d (C04_invariant all st R)). Qed.
Print Assumptions C04_delivered_payload.

(* an event's transactions are contiguous in the block and in the creator's order *)
Theorem C04_event_contiguous : forall all st d l1 fe l2,
  reach all st -> In d (delivered st) -> f_events (b_frame d) = l1 ++ fe :: l2 ->
  b_txs d = flat_map (txs_of st) l1 ++ txs_of st fe ++ flat_map (txs_of st) l2.
Proof. exact (fun all st d l1 fe l2 R => delivered_event_segment all st d l1 fe l2 (C04_invariant all st R)). Qed.
Print Assumptions C04_event_contiguous.

(* the events of a frame were received in that round and carry the frame's timestamps *)
Theorem C04_frame_events : forall all st rr f fe,
  reach all st -> zget rr (frames st) = Some f -> In fe (f_events f) ->
  f_round f = rr /\ zget (fe_id fe) (lt_memo st) = Some (fe_lt fe) /\
  exists ex, get_event st (fe_id fe) = Some ex /\ ev_rr ex = Some rr /\
             (failed st = false -> ev_lt ex = Some (fe_lt fe)).
Proof. exact (fun all st rr f fe R => frame_events_received all st rr f fe (C04_invariant all st R)). Qed.
Print Assumptions C04_frame_events.

(* round-received is assigned once: whatever the continuation, the value stays *)
Theorem C04_rr_once : forall all self_ genesis oracle_ ops ops' x ex r,
  ids_determine all -> Forall (hop_ok all) (ops ++ ops') ->
  get_event (hrun (init_hg self_ genesis oracle_) ops) x = Some ex -> ev_rr ex = Some r ->
  exists ex', get_event (hrun (init_hg self_ genesis oracle_) (ops ++ ops')) x = Some ex' /\ ev_rr ex' = Some r.
Proof.
  exact (fun all s g o ops ops' x ex r ID H Hx Hr =>
    eq_ind_r (fun st => exists ex', get_event st x = Some ex' /\ ev_rr ex' = Some r)
      (rr_stable all _ ops' x ex r ID (proj2 (proj1 (Forall_app _ _ _) H))
         (hrun_ginv all s g o ops ID (proj1 (proj1 (Forall_app _ _ _) H))) Hx Hr)
      (hrun_app _ ops ops')).
Qed.
Print Assumptions C04_rr_once.

(* an event is listed in the received list of exactly its round-received, once *)
Theorem C04_received_lists : forall all st,
  reach all st ->
  (forall r x, In x (rcv st r) <-> exists ex, get_event st x = Some ex /\ ev_rr ex = Some r) /\
  (forall r, NoDup (rcv st r)) /\
  (forall r r' x, In x (rcv st r) -> In x (rcv st r') -> r = r').
Proof.
  exact (fun all st R => let G := C04_invariant all st R in
    conj (fun r x => received_iff all st r x G)
      (conj (fun r => received_nodup all st r G) (fun r r' x => received_one_round all st r r' x G))).
Qed.
Print Assumptions C04_received_lists.

(* hence it appears in the frame of at most one round, once *)
Theorem C04_frames_disjoint : forall all st rr rr' f f' x,
  reach all st -> zget rr (frames st) = Some f -> zget rr' (frames st) = Some f' ->
  In x (map fe_id (f_events f)) -> In x (map fe_id (f_events f')) ->
  rr = rr' /\ NoDup (map fe_id (f_events f)).
Proof.
  exact (fun all st rr rr' f f' x R H H' Hx Hx' => let G := C04_invariant all st R in
    conj (frame_one_round all st rr rr' f f' x G H H' Hx Hx') (frame_nodup all st rr f G H)).
Qed.
Print Assumptions C04_frames_disjoint.

(* every event is committed at most once: the k-th and k'-th commit callbacks share an event only
   if k = k', and no event occurs twice in the frame of a delivered block *)
Theorem C04_committed_once : forall all self_ genesis oracle_ ops k k' d d' x,
  ids_determine all -> Forall (hop_ok all) ops ->
  let st := hrun (init_hg self_ genesis oracle_) ops in
  nth_error (delivered st) k = Some d -> nth_error (delivered st) k' = Some d' ->
  In x (map fe_id (f_events (b_frame d))) -> In x (map fe_id (f_events (b_frame d'))) ->
  k = k' /\ NoDup (map fe_id (f_events (b_frame d))).
Proof. exact committed_once. Qed.
Print Assumptions C04_committed_once.

(* inside a delivered block an ancestor is committed before its descendant *)
Theorem C04_block_respects_ancestry : forall all st d i j a b,
  reach all st -> In d (delivered st) ->
  nth_error (f_events (b_frame d)) i = Some a -> nth_error (f_events (b_frame d)) j = Some b ->
  anc st (fe_id a) (fe_id b) -> (i < j)%nat.
Proof. exact (fun all st d i j a b R => delivered_block_respects_ancestry all st d i j a b (C04_invariant all st R)). Qed.
Print Assumptions C04_block_respects_ancestry.

(* round-received is monotone along ancestry: PROVED for static membership (no attempted event carries an
   accepted internal transaction), by the famous-witness argument: an event seen by all famous
   witnesses of round i has all its ancestors seen by them too, and the first such round is what
   round-received means (Proofs/RoundReceived.v: rr_spec_run) *)
Theorem C04_rr_monotone_static : forall genesis all self_ oracle_ ops a b ea eb ra rb,
  ids_determine all -> no_accept all -> Forall (hop_ok all) ops ->
  let st := hrun (init_hg self_ genesis oracle_) ops in
  anc st a b -> get_event st a = Some ea -> get_event st b = Some eb ->
  ev_rr ea = Some ra -> ev_rr eb = Some rb -> ra <= rb.
Proof. exact rr_monotone_oanc_hrun. Qed.
Print Assumptions C04_rr_monotone_static.

(* STILL TO BE PROVED IN GENERAL (dynamic membership; kept visible, asserted nowhere): round-received is monotone along ancestry.
   It needs the famous-witness argument (an event seen by all famous witnesses of round i has all
   its ancestors seen by them too, and ancestors are not received later).  Together with the
   theorems above and C02_rr_increasing it gives the full statement below; the oracle of the check
   (orderOracle) evaluates both on every history. *)
Definition C04_rr_monotone_statement : Prop :=
  forall all st a b ea eb ra rb,
    reach all st -> anc st a b -> get_event st a = Some ea -> get_event st b = Some eb ->
    ev_rr ea = Some ra -> ev_rr eb = Some rb -> ra <= rb.

(* THE COMMITTED ORDER EXTENDS CAUSALITY (static membership).  A block is delivered only for a frame
   that carries at least one transaction or internal transaction (Hashgraph.ProcessDecidedRounds /
   process_frame), so the property is about ancestors WITH A PAYLOAD: if b is in the k-th delivered
   block and a is a proper ancestor of b carrying a transaction, then a is in a delivered block too,
   an earlier one, or the same one at an earlier position.  (The transactions of a are then
   delivered before those of b: C04_event_contiguous, C04_delivered_payload.) *)
Theorem C04_order_extends_causality : forall genesis all self_ oracle_ ops k d j b a ea,
  ids_determine all -> no_accept all -> Forall (hop_ok all) ops ->
  let st := hrun (init_hg self_ genesis oracle_) ops in
  nth_error (delivered st) k = Some d -> nth_error (f_events (b_frame d)) j = Some b ->
  anc st a (fe_id b) -> get_event st a = Some ea ->
  (e_txs (ev_e ea) <> [] \/ e_itxs (ev_e ea) <> []) ->
  exists k' d' i fa, nth_error (delivered st) k' = Some d' /\
    nth_error (f_events (b_frame d')) i = Some fa /\ fe_id fa = a /\
    ((k' < k)%nat \/ (k' = k /\ (i < j)%nat)).
Proof. exact order_extends_causality_static. Qed.
Print Assumptions C04_order_extends_causality.

(* the same for the frame cache (Store.GetFrame), for every ancestor, payload or not: an ancestor of
   an event of the cached frame of round R is in the cached frame of a round R' <= R *)
Theorem C04_frames_extend_causality : forall genesis all self_ oracle_ ops R f b a,
  ids_determine all -> no_accept all -> Forall (hop_ok all) ops ->
  let st := hrun (init_hg self_ genesis oracle_) ops in
  zget R (frames st) = Some f -> In b (f_events f) -> anc st a (fe_id b) ->
  exists R' f' fa, zget R' (frames st) = Some f' /\ In fa (f_events f') /\ fe_id fa = a /\ R' <= R.
Proof. exact frames_extend_causality_static. Qed.
Print Assumptions C04_frames_extend_causality.

(* an ancestor of an event received in a PROCESSED round (at or below the last consensus round) is
   received, and not later *)
Theorem C04_committed_ancestor : forall genesis all self_ oracle_ ops a b eb R,
  ids_determine all -> no_accept all -> Forall (hop_ok all) ops ->
  let st := hrun (init_hg self_ genesis oracle_) ops in
  anc st a b -> get_event st b = Some eb -> ev_rr eb = Some R ->
  (exists l, last_consensus st = Some l /\ R <= l) ->
  exists ea R', get_event st a = Some ea /\ ev_rr ea = Some R' /\ R' <= R.
Proof. exact committed_ancestor_o. Qed.
Print Assumptions C04_committed_ancestor.

(* every event received in a processed round is in the cached frame of that round, and, if it
   carries a payload, in the frame of a delivered block of that round: the received set of a
   processed round is complete and final *)
Theorem C04_processed_rounds_complete : forall genesis all self_ oracle_ ops x ex R,
  ids_determine all -> no_accept all -> Forall (hop_ok all) ops ->
  let st := hrun (init_hg self_ genesis oracle_) ops in
  get_event st x = Some ex -> ev_rr ex = Some R -> (exists l, last_consensus st = Some l /\ R <= l) ->
  exists f, zget R (frames st) = Some f /\ In x (map fe_id (f_events f)) /\
    ((e_txs (ev_e ex) <> [] \/ e_itxs (ev_e ex) <> []) ->
     exists d, In d (delivered st) /\ b_rr d = R /\ b_frame d = f).
Proof. exact (fun g all s o ops x ex R ID NA H => pi_db _ (hrun_pinv g all ID NA s o ops H) x ex R). Qed.
Print Assumptions C04_processed_rounds_complete.

(* THE SAME UNDER DYNAMIC MEMBERSHIP (no [no_accept]: join / leave requests accepted or refused at will), for every node
   that respects the distance bound [gap_runb] (Proofs/GapWindow.v) and has not failed; code after fix 05eda0b.
   Proofs/FirstDescD .. Proofs/CommittedD: the division invariant, the voting loop, the sticky flags, round-received and
   the processed rounds with the validator set of each round read from the node's own final table. *)
Theorem C04_rr_monotone_dynamic : forall genesis all self_ oracle_ ops a b ea eb ra rb,
  self_ <> -1 -> ids_determine all -> Forall (hop_ok all) ops ->
  gap_runb (init_hg self_ genesis oracle_) ops = true ->
  let st := hrun (init_hg self_ genesis oracle_) ops in
  failed st = false ->
  anc st a b -> get_event st a = Some ea -> get_event st b = Some eb ->
  ev_rr ea = Some ra -> ev_rr eb = Some rb -> ra <= rb.
Proof.
  exact (fun g all s o ops a b ea eb ra rb Hs ID H B F Hanc =>
    rr_monotone_gap s g o all ops Hs ID H B F a b ea eb ra rb (oanc_anc _ a b Hanc)).
Qed.
Print Assumptions C04_rr_monotone_dynamic.

Theorem C04_order_extends_causality_dynamic : forall genesis all self_ oracle_ ops k d j b a ea,
  self_ <> -1 -> ids_determine all -> Forall (hop_ok all) ops ->
  gap_runb (init_hg self_ genesis oracle_) ops = true ->
  let st := hrun (init_hg self_ genesis oracle_) ops in
  failed st = false ->
  nth_error (delivered st) k = Some d -> nth_error (f_events (b_frame d)) j = Some b ->
  anc st a (fe_id b) -> get_event st a = Some ea ->
  (e_txs (ev_e ea) <> [] \/ e_itxs (ev_e ea) <> []) ->
  exists k' d' i fa, nth_error (delivered st) k' = Some d' /\
    nth_error (f_events (b_frame d')) i = Some fa /\ fe_id fa = a /\
    ((k' < k)%nat \/ (k' = k /\ (i < j)%nat)).
Proof.
  exact (fun g all s o ops k d j b a ea Hs ID H B F =>
    order_extends_causalityD s g o all ops Hs ID H B F k d j b a ea).
Qed.
Print Assumptions C04_order_extends_causality_dynamic.

Theorem C04_frames_extend_causality_dynamic : forall genesis all self_ oracle_ ops R f b a,
  self_ <> -1 -> ids_determine all -> Forall (hop_ok all) ops ->
  gap_runb (init_hg self_ genesis oracle_) ops = true ->
  let st := hrun (init_hg self_ genesis oracle_) ops in
  failed st = false ->
  zget R (frames st) = Some f -> In b (f_events f) -> anc st a (fe_id b) ->
  exists R' f' fa, zget R' (frames st) = Some f' /\ In fa (f_events f') /\ fe_id fa = a /\ R' <= R.
Proof.
  exact (fun g all s o ops R f b a Hs ID H B F =>
    frames_extend_causalityD s g o all ops Hs ID H B F R f b a).
Qed.
Print Assumptions C04_frames_extend_causality_dynamic.

Theorem C04_committed_ancestor_dynamic : forall genesis all self_ oracle_ ops a b eb R,
  self_ <> -1 -> ids_determine all -> Forall (hop_ok all) ops ->
  gap_runb (init_hg self_ genesis oracle_) ops = true ->
  let st := hrun (init_hg self_ genesis oracle_) ops in
  failed st = false ->
  anc st a b -> get_event st b = Some eb -> ev_rr eb = Some R ->
  (exists l, last_consensus st = Some l /\ R <= l) ->
  exists ea R', get_event st a = Some ea /\ ev_rr ea = Some R' /\ R' <= R.
Proof.
  exact (fun g all s o ops a b eb R Hs ID H B F =>
    committed_ancestor_oD s g o all ops Hs ID H B F a b eb R).
Qed.
Print Assumptions C04_committed_ancestor_dynamic.

Theorem C04_processed_rounds_complete_dynamic : forall genesis all self_ oracle_ ops x ex R,
  self_ <> -1 -> ids_determine all -> Forall (hop_ok all) ops ->
  gap_runb (init_hg self_ genesis oracle_) ops = true ->
  let st := hrun (init_hg self_ genesis oracle_) ops in
  failed st = false ->
  get_event st x = Some ex -> ev_rr ex = Some R -> (exists l, last_consensus st = Some l /\ R <= l) ->
  exists f, zget R (frames st) = Some f /\ In x (map fe_id (f_events f)) /\
    ((e_txs (ev_e ex) <> [] \/ e_itxs (ev_e ex) <> []) ->
     exists d, In d (delivered st) /\ b_rr d = R /\ b_frame d = f).
Proof.
  exact (fun g all s o ops x ex R Hs ID H B F =>
    pi_db _ (hrun_pinvD s g o all ops Hs ID H B F) x ex R).
Qed.
Print Assumptions C04_processed_rounds_complete_dynamic.

(* THE COMMITTED ORDER AGREES BETWEEN NODES under dynamic membership.  Two nodes started from the same genesis set
   -- any selfs, oracles, operation sequences over one fork-free universe, joins and leaves accepted at will -- that
   both respect the distance bound and have not failed: their k-th delivered blocks list the same events with the same
   Lamport timestamps in the same order ([kl f] = the (event, Lamport) pairs of the frame, Proofs/BlockAgreeD.v), hence
   the committed order ([corder st] = the concatenation over the delivered blocks) of the node with fewer blocks is
   a prefix of the other's: an event committed at position (k, j) by one node is committed at (k, j) by every node
   that has a k-th block.  With C04_order_extends_causality_dynamic: one order, shared by all such nodes, that
   extends causality. *)
Theorem C04_block_events_agree_dynamic : forall all genesis self1 self2 oracle1 oracle2 ops1 ops2 k d1 d2,
  ids_determine all -> sigkeys_determine all -> fork_free all -> self1 <> -1 -> self2 <> -1 ->
  Forall (hop_ok all) ops1 -> Forall (hop_ok all) ops2 ->
  gap_runb (init_hg self1 genesis oracle1) ops1 = true -> gap_runb (init_hg self2 genesis oracle2) ops2 = true ->
  let st1 := hrun (init_hg self1 genesis oracle1) ops1 in
  let st2 := hrun (init_hg self2 genesis oracle2) ops2 in
  failed st1 = false -> failed st2 = false ->
  nth_error (delivered st1) k = Some d1 -> nth_error (delivered st2) k = Some d2 ->
  map (fun fe => (fe_id fe, fe_lt fe)) (f_events (b_frame d1)) = map (fun fe => (fe_id fe, fe_lt fe)) (f_events (b_frame d2)).
Proof.
  exact (fun all g s1 s2 o1 o2 ops1 ops2 k d1 d2 ID SK FF S1 S2 H1 H2 B1 B2 F1 F2 =>
           block_events_agree_gap all g ID SK FF s1 s2 o1 o2 ops1 ops2 S1 S2 H1 H2 B1 B2 F1 F2 k d1 d2).
Qed.
Print Assumptions C04_block_events_agree_dynamic.

Theorem C04_committed_order_prefix_dynamic : forall all genesis self1 self2 oracle1 oracle2 ops1 ops2,
  ids_determine all -> sigkeys_determine all -> fork_free all -> self1 <> -1 -> self2 <> -1 ->
  Forall (hop_ok all) ops1 -> Forall (hop_ok all) ops2 ->
  gap_runb (init_hg self1 genesis oracle1) ops1 = true -> gap_runb (init_hg self2 genesis oracle2) ops2 = true ->
  let st1 := hrun (init_hg self1 genesis oracle1) ops1 in
  let st2 := hrun (init_hg self2 genesis oracle2) ops2 in
  failed st1 = false -> failed st2 = false ->
  (length (delivered st1) <= length (delivered st2))%nat ->
  exists l, corder st2 = corder st1 ++ l.
Proof.
  exact (fun all g s1 s2 o1 o2 ops1 ops2 ID SK FF => corder_prefix_gap all g ID SK FF s1 s2 o1 o2 ops1 ops2).
Qed.
Print Assumptions C04_committed_order_prefix_dynamic.

(* REFUTED: the literal form "every ancestor of a committed event is in a delivered block" (without
   the payload premise).  Frames without transactions produce no block; in the 15-event, two-validator
   history Proofs/CausalityWitness.v (cw) the only delivered block holds events 2..6 and the parents
   0, 1 of event 2 (received in round 1, frame without transactions) are in no block. *)
Definition C04_order_extends_causality_statement : Prop :=
  forall all st k d j b a,
    reach all st -> nth_error (delivered st) k = Some d ->
    nth_error (f_events (b_frame d)) j = Some b -> anc st a (fe_id b) ->
    exists k' d' i fa, nth_error (delivered st) k' = Some d' /\
      nth_error (f_events (b_frame d')) i = Some fa /\ fe_id fa = a /\
      ((k' < k)%nat \/ (k' = k /\ (i < j)%nat)).
Theorem C04_order_extends_causality_statement_refuted : ~ C04_order_extends_causality_statement.
Proof. exact cw_literal_refuted. Qed.
Print Assumptions C04_order_extends_causality_statement_refuted.

(* REFUTED: "an ancestor of an event that has a round-received number has one too" (for rounds not
   yet processed).  DecideRoundReceived stops, for an event of round r, at the first undecided round
   above r; when round 2 is held undecided by a late witness and round 3 is decided, the events of
   round 2 are received in round 3 while their round-1 ancestors still wait for round 2.  55-event,
   four-validator history found by build/sim (seed 1): Proofs/CausalityWitness.v (aw), event 18 has
   round-received 3, its self-parent 17 has none.  Nothing is committed from round 3 before round 2
   (C02 queue order), which is why C04_committed_ancestor holds. *)
Definition C04_ancestor_received_statement : Prop :=
  forall genesis all self_ oracle_ ops a b eb r,
    ids_determine all -> no_accept all -> fork_free all -> Forall (hop_ok all) ops ->
    let st := hrun (init_hg self_ genesis oracle_) ops in
    anc st a b -> get_event st b = Some eb -> ev_rr eb = Some r ->
    exists ea r', get_event st a = Some ea /\ ev_rr ea = Some r'.
Theorem C04_ancestor_received_statement_refuted : ~ C04_ancestor_received_statement.
Proof. exact aw_ancestor_refuted. Qed.
Print Assumptions C04_ancestor_received_statement_refuted.

(* non-vacuity: two validators gossiping in ping-pong; event k has self-parent k-2 and
   other-parent k-1, carries transaction k.  Nine blocks are delivered; each frame holds two events,
   the ancestor first, timestamps 1 + max of the parents'. *)
Definition c04_g : peerset := [mkPeer 100 0; mkPeer 101 1].
Definition c04_ev (k : Z) : event :=
  mkEvent k (k mod 2) (k / 2) (if k <? 2 then -1 else k - 2) (if k =? 0 then -1 else k - 1) k
          (Z.even (k / 3)) (100 - k) [k] [] [] true.
Definition c04_all : list event := map c04_ev (zseq 0 24).
Definition c04_ops : list hop := map HInsert c04_all.
Definition c04_st : hg := hrun (init_hg 0 c04_g [7; 8; 9; 10; 11; 12; 13; 14; 15]) c04_ops.

Example C04_example_reach : reach c04_all c04_st.
Proof.
  exists 0, c04_g, [7; 8; 9; 10; 11; 12; 13; 14; 15], c04_ops.
  split; [apply ids_determine_distinct; vm_compute; reflexivity|].
  split; [apply hop_ok_inserts; vm_compute; reflexivity|reflexivity].
Qed.

Example C04_example :
  failed c04_st = false /\
  map (fun b => (b_index b, b_rr b, b_txs b, map fe_id (f_events (b_frame b)), map fe_lt (f_events (b_frame b))))
      (firstn 3 (delivered c04_st))
  = [(0, 1, [0; 1], [0; 1], [0; 1]); (1, 2, [2; 3], [2; 3], [2; 3]); (2, 3, [4; 5], [4; 5], [4; 5])] /\
  length (delivered c04_st) = 9%nat /\
  match get_event c04_st 5 with Some e => (ev_lt e, ev_rr e, e_sp (ev_e e), e_op (ev_e e)) | None => (None, None, 0, 0) end
  = (Some 5, Some 3, 3, 4) /\
  rcv c04_st 3 = [4; 5].
Proof. vm_compute. repeat split; reflexivity. Qed.
