(* C05 Transaction integrity.  Statements only.
   Model/NodeModel.v: the pools of core.go and addSelfEvent's capture / insert / trim discipline,
   with the outcome of the insertion (and what the commit callback appends meanwhile) as inputs,
   so the theorems hold for EVERY pattern of failing / succeeding insertions and submissions.
   Transactions are identified by harness serial numbers (byte identity: C15/C20). *)
From Coq Require Import ZArith List Bool.
From V Require Import Model.ZMap Model.Quorum Model.HgImpl Model.NodeModel Proofs.NodeProofs
  Proofs.AdmissionProofs Proofs.BlockInv Proofs.OrderProofs Proofs.TidyC05
  Model.CoreModel Proofs.CoreProofs.
Import ListNotations.
Open Scope Z_scope.

(* nothing lost, nothing duplicated, order preserved: everything a node accepted is, in order of
   acceptance, the payload of its own events followed by what is still pending *)
Theorem C05_conservation : forall ops,
  p_submitted (prun ops) = flat_map fst (p_created (prun ops)) ++ p_txs (prun ops) /\
  p_isubmitted (prun ops) = flat_map snd (p_created (prun ops)) ++ p_itxs (prun ops).
Proof. exact prun_conserved. Qed.
Print Assumptions C05_conservation.

(* each accepted transaction is pending or in exactly one self-event, never both, never twice *)
Theorem C05_exactly_one_event : forall ops,
  NoDup (p_submitted (prun ops)) ->
  NoDup (flat_map fst (p_created (prun ops)) ++ p_txs (prun ops)) /\
  forall t, In t (p_submitted (prun ops)) <->
            In t (flat_map fst (p_created (prun ops))) \/ In t (p_txs (prun ops)).
Proof. exact prun_exactly_once. Qed.
Print Assumptions C05_exactly_one_event.

(* a failed insertion (sync failure, store failure, consensus-pass error) keeps everything pending *)
Theorem C05_failure_keeps_pending : forall p dtx ditx,
  p_txs (pstep p (PSelfEvent true false dtx ditx)) = p_txs p ++ dtx /\
  p_itxs (pstep p (PSelfEvent true false dtx ditx)) = p_itxs p ++ ditx /\
  p_created (pstep p (PSelfEvent true false dtx ditx)) = p_created p.
Proof. exact failed_self_event_keeps_pool. Qed.
Print Assumptions C05_failure_keeps_pending.

(** The commit side, on the hashgraph model (HgImpl, every reachable state of every sequence of
    insertion attempts and ProcessSigPool calls, [hrun]; hypotheses as in C04: identifiers
    determine events, numbered from 0).
    [committed_txs st]    = concatenation of the delivered blocks' transaction lists (commit order);
    [committed_events st] = concatenation of the delivered blocks' frame events (commit order);
    [etxs st x]           = payload of the stored event x. *)

(* the committed transaction stream is exactly the concatenation, in commit order, of the payloads
   of the committed events (whole events, nothing else) *)
Theorem C05_committed_stream : forall all self_ genesis oracle_ ops,
  ids_determine all -> Forall (hop_ok all) ops ->
  let st := hrun (init_hg self_ genesis oracle_) ops in
  committed_txs st = flat_map (etxs st) (committed_events st).
Proof. exact (fun all s g o ops ID H => committed_stream all _ (hrun_ginv all s g o ops ID H)). Qed.
Print Assumptions C05_committed_stream.

(* no event is committed twice: not in two blocks, not twice in one *)
Theorem C05_no_event_committed_twice : forall all self_ genesis oracle_ ops,
  ids_determine all -> Forall (hop_ok all) ops ->
  NoDup (committed_events (hrun (init_hg self_ genesis oracle_) ops)).
Proof. exact committed_events_nodup. Qed.
Print Assumptions C05_no_event_committed_twice.

(* hence, if the admitted events have duplicate-free and pairwise disjoint payloads, no
   transaction is committed twice (neither in two blocks nor twice in one) *)
Theorem C05_no_transaction_committed_twice : forall all self_ genesis oracle_ ops,
  ids_determine all -> Forall (hop_ok all) ops ->
  payloads_disjoint (hrun (init_hg self_ genesis oracle_) ops) ->
  NoDup (committed_txs (hrun (init_hg self_ genesis oracle_) ops)).
Proof. exact no_transaction_committed_twice. Qed.
Print Assumptions C05_no_transaction_committed_twice.

(* the same with the hypothesis on the attempted events (what the senders built) *)
Theorem C05_no_transaction_committed_twice_attempts : forall all self_ genesis oracle_ ops,
  ids_determine all -> Forall (hop_ok all) ops ->
  (forall e, In e all -> NoDup (e_txs e)) ->
  (forall e e' t, In e all -> In e' all -> In t (e_txs e) -> In t (e_txs e') -> e = e') ->
  NoDup (committed_txs (hrun (init_hg self_ genesis oracle_) ops)).
Proof. exact no_transaction_committed_twice_attempts. Qed.
Print Assumptions C05_no_transaction_committed_twice_attempts.

(* every committed transaction is in the payload of a committed event, which is an admitted
   event: stored under its identifier, one of the attempted events, with a valid signature *)
Theorem C05_committed_was_submitted : forall all self_ genesis oracle_ ops t,
  ids_determine all -> Forall (hop_ok all) ops ->
  let st := hrun (init_hg self_ genesis oracle_) ops in
  In t (committed_txs st) ->
  exists x ex, In x (committed_events st) /\ get_event st x = Some ex /\ In t (e_txs (ev_e ex)) /\
               In (ev_e ex) all /\ e_id (ev_e ex) = x /\ e_sigok (ev_e ex) = true.
Proof. exact committed_was_submitted. Qed.
Print Assumptions C05_committed_was_submitted.

(** The link between the two models.  [O c] is the life (any [pop] sequence) of the node with key
    c, [slot e] says which self-event of its creator e is.  If every attempted event carries the
    payload its creator's addSelfEvent captured for that self-event, different events of one
    creator are different self-events, and the transactions accepted by the nodes are pairwise
    distinct within and across nodes, then the attempted events have duplicate-free, pairwise
    disjoint payloads (this is C05_exactly_one_event, node by node) ... *)
Theorem C05_pools_give_disjoint_payloads : forall all creators (O : Z -> list pop) slot,
  from_pools all creators (fun c => prun (O c)) slot ->
  NoDup creators -> NoDup (flat_map (fun c => p_submitted (prun (O c))) creators) ->
  (forall e, In e all -> NoDup (e_txs e)) /\
  (forall e e' t, In e all -> In e' all -> In t (e_txs e) -> In t (e_txs e') -> e = e').
Proof. exact pools_payloads_disjoint. Qed.
Print Assumptions C05_pools_give_disjoint_payloads.

(* ... and therefore no submitted transaction is committed twice, by any node, whatever the
   gossip: end to end over pools + hashgraph *)
Theorem C05_submitted_committed_at_most_once : forall all creators O slot self_ genesis oracle_ ops,
  ids_determine all -> Forall (hop_ok all) ops ->
  from_pools all creators (fun c => prun (O c)) slot ->
  NoDup creators -> NoDup (flat_map (fun c => p_submitted (prun (O c))) creators) ->
  NoDup (committed_txs (hrun (init_hg self_ genesis oracle_) ops)).
Proof. exact no_transaction_committed_twice_pools. Qed.
Print Assumptions C05_submitted_committed_at_most_once.

(* the combinatorial core, as it used to be kept (C05_commit_once_statement): blocks made of
   distinct event payloads chosen among pairwise disjoint, duplicate-free payloads carry no
   transaction twice *)
Theorem C05_commit_once : forall (blocks : list (list Z)) (events : list (list Z)),
  NoDup (concat events) -> (exists sel, concat blocks = concat sel /\ NoDup sel /\ incl sel events) ->
  NoDup (concat blocks).
Proof. exact commit_once_lists. Qed.
Print Assumptions C05_commit_once.

(** The combined model (Model/CoreModel.v): the core's pools, head and seq over the hashgraph
    model; operations addTransactions / addInternalTransaction / addSelfEvent / the insertion loop
    of sync / processSigPool.  [node self genesis oracle ops] is the core after [ops] from its
    initial state.  [run_ok all .. ops]: every event handed to the hashgraph is in [all] (the list
    in which identifiers determine events) with an identifier >= 0, and a synced event that claims
    this node as creator does not verify unless the node made it ([not_forged]; unforgeability).
    Freshness of the identifier of a new self-event is NOT a premise: it follows. *)

(* the hashgraph of the node is the [hrun] state of the calls the core made, which satisfy the
   premises of the hashgraph theorems: all of C02 / C04 / C05 above / C07 / C09 / C10 / C18 apply *)
Theorem C05_core_hashgraph_is_hrun : forall all self_ genesis oracle_ ops,
  run_ok all (core_init self_ genesis oracle_) ops ->
  c_hg (node self_ genesis oracle_ ops) = hrun (init_hg self_ genesis oracle_) (node_calls self_ genesis oracle_ ops) /\
  Forall (hop_ok all) (node_calls self_ genesis oracle_ ops).
Proof. exact node_hg. Qed.
Print Assumptions C05_core_hashgraph_is_hrun.

(* (1) the node's own stored events are exactly the self-events made by addSelfEvent: the k-th one
   is stored with index k and the payload captured from the pools, every stored event of the node
   is one of them, seq and head are those of the last one *)
Theorem C05_own_events_are_created : forall all self_ genesis oracle_ ops,
  ids_determine all -> run_ok all (core_init self_ genesis oracle_) ops ->
  let c := node self_ genesis oracle_ ops in
  (forall k id txs itxs, nth_error (c_created c) k = Some (id, (txs, itxs)) ->
     exists ex, get_event (c_hg c) id = Some ex /\ e_creator (ev_e ex) = self_ /\
                e_index (ev_e ex) = Z.of_nat k /\ e_txs (ev_e ex) = txs /\ e_itxs (ev_e ex) = itxs) /\
  (forall x ex, get_event (c_hg c) x = Some ex -> e_creator (ev_e ex) = self_ ->
     exists txs itxs, nth_error (c_created c) (Z.to_nat (e_index (ev_e ex))) = Some (x, (txs, itxs))) /\
  c_seq c = Z.of_nat (length (c_created c)) - 1 /\ c_head c = last (map fst (c_created c)) (-1).
Proof. exact own_events_are_created. Qed.
Print Assumptions C05_own_events_are_created.

(* (2) conservation, the statement the Go oracle `conservation` evaluates: at every moment what
   addTransactions accepted is, in order, the payloads of the node's own stored events followed by
   the pool ... *)
Theorem C05_core_conservation : forall all self_ genesis oracle_ ops,
  ids_determine all -> run_ok all (core_init self_ genesis oracle_) ops ->
  let c := node self_ genesis oracle_ ops in
  c_submitted c = flat_map (etxs (c_hg c)) (created_ids c) ++ c_txs c /\
  NoDup (created_ids c) /\
  (forall x, In x (created_ids c) <-> exists ex, get_event (c_hg c) x = Some ex /\ e_creator (ev_e ex) = self_).
Proof. exact node_conservation. Qed.
Print Assumptions C05_core_conservation.

(* ... so that an accepted transaction is either still in the pool and in no own stored event, or
   in exactly one own stored event and not in the pool *)
Theorem C05_core_exactly_one : forall all self_ genesis oracle_ ops t,
  ids_determine all -> run_ok all (core_init self_ genesis oracle_) ops ->
  let c := node self_ genesis oracle_ ops in
  NoDup (c_submitted c) -> In t (c_submitted c) ->
  (In t (c_txs c) /\ forall x, In x (created_ids c) -> ~ In t (etxs (c_hg c) x)) \/
  (~ In t (c_txs c) /\ exists x, In x (created_ids c) /\ In t (etxs (c_hg c) x) /\
                        forall y, In y (created_ids c) -> In t (etxs (c_hg c) y) -> y = x).
Proof. exact node_exactly_one. Qed.
Print Assumptions C05_core_exactly_one.

(* (3) commit side of one node: the own events it committed are self-events of addSelfEvent, none
   twice; a transaction committed through an own event was accepted by addTransactions; with
   distinct accepted transactions none is committed twice, and none is still in the pool *)
Theorem C05_core_commit_side : forall all self_ genesis oracle_ ops,
  ids_determine all -> run_ok all (core_init self_ genesis oracle_) ops ->
  let c := node self_ genesis oracle_ ops in
  NoDup (own_committed_events c) /\ incl (own_committed_events c) (created_ids c) /\
  incl (own_committed_txs c) (c_submitted c) /\
  (NoDup (c_submitted c) ->
     NoDup (own_committed_txs c) /\ forall t, In t (own_committed_txs c) -> ~ In t (c_txs c)).
Proof. exact node_commit_side. Qed.
Print Assumptions C05_core_commit_side.

(* The hypothesis [from_pools] of C05_submitted_committed_at_most_once, now a theorem: for nodes
   that are cores ([nd G Or Ops k] = node k (G k) (Or k) (Ops k)), every list of events that are
   stored at their creators' nodes is made of the creators' pool payloads, slot = index *)
Theorem C05_nodes_from_pools : forall all creators G Or Ops,
  ids_determine all ->
  (forall k, In k creators -> run_ok all (core_init k (G k) (Or k)) (Ops k)) ->
  forall evs,
  (forall e, In e evs -> In e all /\ In (e_creator e) creators /\
                         get_event (c_hg (nd G Or Ops (e_creator e))) (e_id e) <> None) ->
  from_pools evs creators (fun k => pools_of (nd G Or Ops k)) (fun e => Z.to_nat (e_index e)).
Proof. exact nodes_from_pools. Qed.
Print Assumptions C05_nodes_from_pools.

(* C05_submitted_committed_at_most_once with [from_pools] discharged.  Any observer (any node,
   any operation sequence [hops]) whose admitted events were made by their creators' cores -- i.e.
   are stored at the creator's node -- never commits a transaction twice, when the transactions
   accepted by the nodes are pairwise distinct within and across nodes. *)
Theorem C05_submitted_committed_at_most_once_cores : forall all creators G Or Ops,
  ids_determine all ->
  (forall k, In k creators -> run_ok all (core_init k (G k) (Or k)) (Ops k)) ->
  forall self_ genesis oracle_ hops,
  Forall (hop_ok all) hops ->
  let R := hrun (init_hg self_ genesis oracle_) hops in
  NoDup creators ->
  (forall x ex, get_event R x = Some ex ->
     In (e_creator (ev_e ex)) creators /\ get_event (c_hg (nd G Or Ops (e_creator (ev_e ex)))) x <> None) ->
  NoDup (flat_map (fun k => c_submitted (nd G Or Ops k)) creators) ->
  NoDup (committed_txs R).
Proof. exact network_committed_at_most_once. Qed.
Print Assumptions C05_submitted_committed_at_most_once_cores.

(* the NodeModel pools read off a core obey NodeModel's conservation law (link of the two models) *)
Theorem C05_core_pools_conserved : forall all self_ genesis oracle_ ops,
  ids_determine all -> run_ok all (core_init self_ genesis oracle_) ops ->
  p_submitted (pools_of (node self_ genesis oracle_ ops)) =
    flat_map fst (p_created (pools_of (node self_ genesis oracle_ ops))) ++ p_txs (pools_of (node self_ genesis oracle_ ops)) /\
  p_isubmitted (pools_of (node self_ genesis oracle_ ops)) =
    flat_map snd (p_created (pools_of (node self_ genesis oracle_ ops))) ++ p_itxs (pools_of (node self_ genesis oracle_ ops)).
Proof. exact (fun all s g o ops ID H => pools_of_conserved all _ (node_cinv all s g o ops ID H)). Qed.
Print Assumptions C05_core_pools_conserved.

(* NOT PROVED (asserted nowhere): the premise of the last theorem that every event an observer
   admits is stored at its creator's node is a statement about the network (an admitted event
   verifies, so by unforgeability its creator signed it, and a core signs only the self-events it
   inserts first); it is not derived from a model of the network.  Not modelled in CoreModel: the
   pool of own block signatures (payload [sigs] is an input), fast-forward / reset / bootstrap. *)

Example C05_example :
  let p := prun [PSubmit [1; 2]; PSelfEvent true false [] []; PSubmit [3]; PSelfEvent true true [4] [];
                 PSelfEvent false true [] []; PSelfEvent true true [] []] in
  p_created p = [([1; 2; 3], []); ([4], [])] /\ p_txs p = [] /\ p_submitted p = [1; 2; 3; 4].
Proof. vm_compute. repeat split. Qed.

(* non-vacuity of the commit side: two validators gossiping in ping-pong, event k carries
   transaction k, created by node (k mod 2) as its self-event number k/2 out of a pool fed with
   PSubmit [k].  All hypotheses hold; three blocks are delivered. *)
Definition c05_g : peerset := [mkPeer 100 0; mkPeer 101 1].
Definition c05_ev (k : Z) : event :=
  mkEvent k (k mod 2) (k / 2) (if k <? 2 then -1 else k - 2) (if k =? 0 then -1 else k - 1) k
          (Z.even (k / 3)) (100 - k) [k] [] [] true.
Definition c05_all : list event := map c05_ev [0; 1; 2; 3; 4; 5; 6; 7; 8; 9; 10; 11].
Definition c05_ops : list hop := map HInsert c05_all ++ [HSigPool].
Definition c05_st : hg := hrun (init_hg 0 c05_g [7; 8; 9; 10; 11; 12]) c05_ops.
Definition c05_O (c : Z) : list pop :=
  flat_map (fun j => [PSubmit [2 * j + c]; PSelfEvent true true [] []]) [0; 1; 2; 3; 4; 5].
Definition c05_slot (e : event) : nat := Z.to_nat (e_index e).

Example C05_example_commit :
  ids_determine c05_all /\ Forall (hop_ok c05_all) c05_ops /\
  from_pools c05_all [0; 1] (fun c => prun (c05_O c)) c05_slot /\
  NoDup (flat_map (fun c => p_submitted (prun (c05_O c))) [0; 1]) /\
  failed c05_st = false /\
  committed_events c05_st = [0; 1; 2; 3; 4; 5] /\
  committed_txs c05_st = [0; 1; 2; 3; 4; 5] /\
  map b_txs (delivered c05_st) = [[0; 1]; [2; 3]; [4; 5]].
Proof.
  split; [apply ids_determine_distinct; vm_compute; reflexivity|].
  split; [apply Forall_app; split; [apply hop_ok_inserts; vm_compute; reflexivity|repeat constructor]|].
  split.
  { split.
    - intros e He. repeat (destruct He as [<-|He]; [vm_compute; split; [tauto|reflexivity]|]). destruct He.
    - intros e e' He He' Hc Hs.
      assert (E : e_id e = e_id e').
      { repeat (destruct He as [<-|He]; [repeat (destruct He' as [<-|He']; [try reflexivity; vm_compute in Hc, Hs; try discriminate Hc; discriminate Hs|]); destruct He'|]). destruct He. }
      assert (ID : ids_determine c05_all) by (apply ids_determine_distinct; vm_compute; reflexivity).
      apply ID; assumption. }
  split; [apply distinctb_NoDup; vm_compute; reflexivity|].
  vm_compute. repeat split; reflexivity.
Qed.

(* non-vacuity of the combined model: the history of C05_example_commit seen from node 0 as a
   core: it accepts transaction k and makes self-event k for even k, and syncs event k of node 1 for
   odd k; then accepts 12 and 13 which stay pending.  The premises hold (checked), three blocks are
   delivered, the own committed transactions are 0, 2, 4. *)
Definition c05c_ops : list cop :=
  flat_map (fun k => if Z.even k
                     then [CAddTxs [k]; CAddSelfEvent k (if k =? 0 then -1 else k - 1) k (Z.even (k / 3)) (100 - k) []]
                     else [CSync [c05_ev k]]) [0; 1; 2; 3; 4; 5; 6; 7; 8; 9; 10; 11]
  ++ [CSigPool; CAddTxs [12; 13]].
Definition c05c_init : core := core_init 0 c05_g [7; 8; 9; 10; 11; 12].
Definition c05c : core := node 0 c05_g [7; 8; 9; 10; 11; 12] c05c_ops.

Example C05_example_core :
  run_evs c05c_init c05c_ops = c05_all /\
  ids_determine c05_all /\ run_ok c05_all c05c_init c05c_ops /\
  c_hg c05c = c05_st /\
  created_ids c05c = [0; 2; 4; 6; 8; 10] /\ c_txs c05c = [12; 13] /\ c_head c05c = 10 /\ c_seq c05c = 5 /\
  c_submitted c05c = [0; 2; 4; 6; 8; 10; 12; 13] /\
  own_committed_events c05c = [0; 2; 4] /\ own_committed_txs c05c = [0; 2; 4] /\
  committed_txs (c_hg c05c) = [0; 1; 2; 3; 4; 5].
Proof.
  assert (E : run_evs c05c_init c05c_ops = c05_all) by (vm_compute; reflexivity).
  split; [exact E|]. split; [apply ids_determine_distinct; vm_compute; reflexivity|].
  split.
  { apply run_ok_of_checks; [rewrite E; apply incl_refl| |vm_compute; reflexivity].
    intros e He. repeat (destruct He as [<-|He]; [vm_compute; discriminate|]). destruct He. }
  vm_compute. repeat split; reflexivity.
Qed.
