(* C05 Transaction integrity.  Statements only.
   Model/NodeModel.v: the pools of core.go and addSelfEvent's capture / insert / trim discipline,
   with the outcome of the insertion (and what the commit callback appends meanwhile) as inputs,
   so the theorems hold for EVERY pattern of failing / succeeding insertions and submissions.
   Transactions are identified by harness serial numbers (byte identity: C15/C20). *)
From Coq Require Import ZArith List Bool.
From V Require Import Model.ZMap Model.Quorum Model.HgImpl Model.NodeModel Proofs.NodeProofs
  Proofs.AdmissionProofs Proofs.BlockInv Proofs.OrderProofs Proofs.TidyC05.
Import ListNotations.
Open Scope Z_scope.

(* nothing lost, nothing duplicated, order preserved: everything a node accepted is, in order of
   acceptance, the payload of its own events followed by what is still pending *)
Theorem C05_conservation : forall ops,
  p_submitted (prun ops) = flat_map fst (p_created (prun ops)) ++ p_txs (prun ops) /\
  p_isubmitted (prun ops) = flat_map snd (p_created (prun ops)) ++ p_itxs (prun ops).
Proof. exact prun_conserved. Qed.
Print Assumptions C05_conservation.

(* each accepted transaction is pending or in exactly one self-event, never both, never twice *)
Theorem C05_exactly_one_event : forall ops,
  NoDup (p_submitted (prun ops)) ->
  NoDup (flat_map fst (p_created (prun ops)) ++ p_txs (prun ops)) /\
  forall t, In t (p_submitted (prun ops)) <->
            In t (flat_map fst (p_created (prun ops))) \/ In t (p_txs (prun ops)).
Proof. exact prun_exactly_once. Qed.
Print Assumptions C05_exactly_one_event.

(* a failed insertion (sync failure, store failure, consensus-pass error) keeps everything pending *)
Theorem C05_failure_keeps_pending : forall p dtx ditx,
  p_txs (pstep p (PSelfEvent true false dtx ditx)) = p_txs p ++ dtx /\
  p_itxs (pstep p (PSelfEvent true false dtx ditx)) = p_itxs p ++ ditx /\
  p_created (pstep p (PSelfEvent true false dtx ditx)) = p_created p.
Proof. exact failed_self_event_keeps_pool. Qed.
Print Assumptions C05_failure_keeps_pending.

(** The commit side, on the hashgraph model (HgImpl, every reachable state of every sequence of
    insertion attempts and ProcessSigPool calls, [hrun]; hypotheses as in C04: identifiers
    determine events, numbered from 0).
    [committed_txs st]    = concatenation of the delivered blocks' transaction lists (commit order);
    [committed_events st] = concatenation of the delivered blocks' frame events (commit order);
    [etxs st x]           = payload of the stored event x. *)

(* the committed transaction stream is exactly the concatenation, in commit order, of the payloads
   of the committed events (whole events, nothing else) *)
Theorem C05_committed_stream : forall all self_ genesis oracle_ ops,
  ids_determine all -> Forall (hop_ok all) ops ->
  let st := hrun (init_hg self_ genesis oracle_) ops in
  committed_txs st = flat_map (etxs st) (committed_events st).
Proof. exact (fun all s g o ops ID H => committed_stream all _ (hrun_ginv all s g o ops ID H)). Qed.
Print Assumptions C05_committed_stream.

(* no event is committed twice: not in two blocks, not twice in one *)
Theorem C05_no_event_committed_twice : forall all self_ genesis oracle_ ops,
  ids_determine all -> Forall (hop_ok all) ops ->
  NoDup (committed_events (hrun (init_hg self_ genesis oracle_) ops)).
Proof. exact committed_events_nodup. Qed.
Print Assumptions C05_no_event_committed_twice.

(* hence, if the admitted events have duplicate-free and pairwise disjoint payloads, no
   transaction is committed twice (neither in two blocks nor twice in one) *)
Theorem C05_no_transaction_committed_twice : forall all self_ genesis oracle_ ops,
  ids_determine all -> Forall (hop_ok all) ops ->
  payloads_disjoint (hrun (init_hg self_ genesis oracle_) ops) ->
  NoDup (committed_txs (hrun (init_hg self_ genesis oracle_) ops)).
Proof. exact no_transaction_committed_twice. Qed.
Print Assumptions C05_no_transaction_committed_twice.

(* the same with the hypothesis on the attempted events (what the senders built) *)
Theorem C05_no_transaction_committed_twice_attempts : forall all self_ genesis oracle_ ops,
  ids_determine all -> Forall (hop_ok all) ops ->
  (forall e, In e all -> NoDup (e_txs e)) ->
  (forall e e' t, In e all -> In e' all -> In t (e_txs e) -> In t (e_txs e') -> e = e') ->
  NoDup (committed_txs (hrun (init_hg self_ genesis oracle_) ops)).
Proof. exact no_transaction_committed_twice_attempts. Qed.
Print Assumptions C05_no_transaction_committed_twice_attempts.

(* every committed transaction is in the payload of a committed event, which is an admitted
   event: stored under its identifier, one of the attempted events, with a valid signature *)
Theorem C05_committed_was_submitted : forall all self_ genesis oracle_ ops t,
  ids_determine all -> Forall (hop_ok all) ops ->
  let st := hrun (init_hg self_ genesis oracle_) ops in
  In t (committed_txs st) ->
  exists x ex, In x (committed_events st) /\ get_event st x = Some ex /\ In t (e_txs (ev_e ex)) /\
               In (ev_e ex) all /\ e_id (ev_e ex) = x /\ e_sigok (ev_e ex) = true.
Proof. exact committed_was_submitted. Qed.
Print Assumptions C05_committed_was_submitted.

(** The link between the two models.  [O c] is the life (any [pop] sequence) of the node with key
    c, [slot e] says which self-event of its creator e is.  If every attempted event carries the
    payload its creator's addSelfEvent captured for that self-event, different events of one
    creator are different self-events, and the transactions accepted by the nodes are pairwise
    distinct within and across nodes, then the attempted events have duplicate-free, pairwise
    disjoint payloads (this is C05_exactly_one_event, node by node) ... *)
Theorem C05_pools_give_disjoint_payloads : forall all creators (O : Z -> list pop) slot,
  from_pools all creators (fun c => prun (O c)) slot ->
  NoDup creators -> NoDup (flat_map (fun c => p_submitted (prun (O c))) creators) ->
  (forall e, In e all -> NoDup (e_txs e)) /\
  (forall e e' t, In e all -> In e' all -> In t (e_txs e) -> In t (e_txs e') -> e = e').
Proof. exact pools_payloads_disjoint. Qed.
Print Assumptions C05_pools_give_disjoint_payloads.

(* ... and therefore no submitted transaction is committed twice, by any node, whatever the
   gossip: end to end over pools + hashgraph *)
Theorem C05_submitted_committed_at_most_once : forall all creators O slot self_ genesis oracle_ ops,
  ids_determine all -> Forall (hop_ok all) ops ->
  from_pools all creators (fun c => prun (O c)) slot ->
  NoDup creators -> NoDup (flat_map (fun c => p_submitted (prun (O c))) creators) ->
  NoDup (committed_txs (hrun (init_hg self_ genesis oracle_) ops)).
Proof. exact no_transaction_committed_twice_pools. Qed.
Print Assumptions C05_submitted_committed_at_most_once.

(* the combinatorial core, as it used to be kept (C05_commit_once_statement): blocks made of
   distinct event payloads chosen among pairwise disjoint, duplicate-free payloads carry no
   transaction twice *)
Theorem C05_commit_once : forall (blocks : list (list Z)) (events : list (list Z)),
  NoDup (concat events) -> (exists sel, concat blocks = concat sel /\ NoDup sel /\ incl sel events) ->
  NoDup (concat blocks).
Proof. exact commit_once_lists. Qed.
Print Assumptions C05_commit_once.

(* NOT PROVED (asserted nowhere): that the pool model and the hashgraph model are driven by the
   same node -- [from_pools] is a hypothesis relating the two models' inputs, discharged on every
   explored history by the check's oracle (each event's payload is compared with what the
   creating core captured), not by a proof about a combined node model. *)

Example C05_example :
  let p := prun [PSubmit [1; 2]; PSelfEvent true false [] []; PSubmit [3]; PSelfEvent true true [4] [];
                 PSelfEvent false true [] []; PSelfEvent true true [] []] in
  p_created p = [([1; 2; 3], []); ([4], [])] /\ p_txs p = [] /\ p_submitted p = [1; 2; 3; 4].
Proof. vm_compute. repeat split. Qed.

(* non-vacuity of the commit side: two validators gossiping in ping-pong, event k carries
   transaction k, created by node (k mod 2) as its self-event number k/2 out of a pool fed with
   PSubmit [k].  All hypotheses hold; three blocks are delivered. *)
Definition c05_g : peerset := [mkPeer 100 0; mkPeer 101 1].
Definition c05_ev (k : Z) : event :=
  mkEvent k (k mod 2) (k / 2) (if k <? 2 then -1 else k - 2) (if k =? 0 then -1 else k - 1) k
          (Z.even (k / 3)) (100 - k) [k] [] [] true.
Definition c05_all : list event := map c05_ev [0; 1; 2; 3; 4; 5; 6; 7; 8; 9; 10; 11].
Definition c05_ops : list hop := map HInsert c05_all ++ [HSigPool].
Definition c05_st : hg := hrun (init_hg 0 c05_g [7; 8; 9; 10; 11; 12]) c05_ops.
Definition c05_O (c : Z) : list pop :=
  flat_map (fun j => [PSubmit [2 * j + c]; PSelfEvent true true [] []]) [0; 1; 2; 3; 4; 5].
Definition c05_slot (e : event) : nat := Z.to_nat (e_index e).

Example C05_example_commit :
  ids_determine c05_all /\ Forall (hop_ok c05_all) c05_ops /\
  from_pools c05_all [0; 1] (fun c => prun (c05_O c)) c05_slot /\
  NoDup (flat_map (fun c => p_submitted (prun (c05_O c))) [0; 1]) /\
  failed c05_st = false /\
  committed_events c05_st = [0; 1; 2; 3; 4; 5] /\
  committed_txs c05_st = [0; 1; 2; 3; 4; 5] /\
  map b_txs (delivered c05_st) = [[0; 1]; [2; 3]; [4; 5]].
Proof.
  split; [apply ids_determine_distinct; vm_compute; reflexivity|].
  split; [apply Forall_app; split; [apply hop_ok_inserts; vm_compute; reflexivity|repeat constructor]|].
  split.
  { split.
    - intros e He. repeat (destruct He as [<-|He]; [vm_compute; split; [tauto|reflexivity]|]). destruct He.
    - intros e e' He He' Hc Hs.
      assert (E : e_id e = e_id e').
      { repeat (destruct He as [<-|He]; [repeat (destruct He' as [<-|He']; [try reflexivity; vm_compute in Hc, Hs; try discriminate Hc; discriminate Hs|]); destruct He'|]). destruct He. }
      assert (ID : ids_determine c05_all) by (apply ids_determine_distinct; vm_compute; reflexivity).
      apply ID; assumption. }
  split; [apply distinctb_NoDup; vm_compute; reflexivity|].
  vm_compute. repeat split; reflexivity.
Qed.
