(* C05 Transaction integrity.  Statements only.
   Model/NodeModel.v: the pools of core.go and addSelfEvent's capture / insert / trim discipline,
   with the outcome of the insertion (and what the commit callback appends meanwhile) as inputs,
   so the theorems hold for EVERY pattern of failing / succeeding insertions and submissions.
   Transactions are identified by harness serial numbers (byte identity: C15/C20). *)
From Coq Require Import ZArith List Bool.
From V Require Import Model.NodeModel Proofs.NodeProofs.
Import ListNotations.
Open Scope Z_scope.

(* nothing lost, nothing duplicated, order preserved: everything a node accepted is, in order of
   acceptance, the payload of its own events followed by what is still pending *)
Theorem C05_conservation : forall ops,
  p_submitted (prun ops) = flat_map fst (p_created (prun ops)) ++ p_txs (prun ops) /\
  p_isubmitted (prun ops) = flat_map snd (p_created (prun ops)) ++ p_itxs (prun ops).
Proof. exact prun_conserved. Qed.
Print Assumptions C05_conservation.

(* each accepted transaction is pending or in exactly one self-event, never both, never twice *)
Theorem C05_exactly_one_event : forall ops,
  NoDup (p_submitted (prun ops)) ->
  NoDup (flat_map fst (p_created (prun ops)) ++ p_txs (prun ops)) /\
  forall t, In t (p_submitted (prun ops)) <->
            In t (flat_map fst (p_created (prun ops))) \/ In t (p_txs (prun ops)).
Proof. exact prun_exactly_once. Qed.
Print Assumptions C05_exactly_one_event.

(* a failed insertion (sync failure, store failure, consensus-pass error) keeps everything pending *)
Theorem C05_failure_keeps_pending : forall p dtx ditx,
  p_txs (pstep p (PSelfEvent true false dtx ditx)) = p_txs p ++ dtx /\
  p_itxs (pstep p (PSelfEvent true false dtx ditx)) = p_itxs p ++ ditx /\
  p_created (pstep p (PSelfEvent true false dtx ditx)) = p_created p.
Proof. exact failed_self_event_keeps_pool. Qed.
Print Assumptions C05_failure_keeps_pending.

(* FULL STATEMENT of the commit side, kept visible: every transaction of a committed block is the
   payload of an admitted event (C07) committed exactly once (C04_once); with C05_exactly_one_event
   no submitted transaction is committed twice.  The oracle evaluates it on every history. *)
Definition C05_commit_once_statement : Prop :=
  forall (blocks : list (list Z)) (events : list (list Z)),
    NoDup (concat events) -> (exists sel, concat blocks = concat sel /\ NoDup sel /\ incl sel events) ->
    NoDup (concat blocks).

Example C05_example :
  let p := prun [PSubmit [1; 2]; PSelfEvent true false [] []; PSubmit [3]; PSelfEvent true true [4] [];
                 PSelfEvent false true [] []; PSelfEvent true true [] []] in
  p_created p = [([1; 2; 3], []); ([4], [])] /\ p_txs p = [] /\ p_submitted p = [1; 2; 3; 4].
Proof. vm_compute. repeat split. Qed.
