(* C06 Liveness under fair gossip.  PARTIAL: the convergence bound ("everything commits within K
   fair all-pairs cycles") needs a scheduler model and the probabilistic termination argument of
   virtual voting (coin rounds) and is NOT proved; it is explored by the check (adversarial prefix,
   then fair cycles until quiescence, bound 30; measured 1-7 cycles).  Proved: the idle condition,
   the safety facts the liveness argument rests on (a decision, once possible, is forced on all
   later rounds), and the DETERMINISTIC CORE of termination on the abstract voting loop
   (Model/Voting.v): unanimity is decided at the next normal round, hence within two rounds; a
   supermajority of equal votes makes the next normal round unanimous, hence decided within three;
   the coin is used only by witnesses whose tally has no supermajority.  What stays outside: that
   some coin round eventually produces unanimity (probability 1, not a theorem here). *)
From Coq Require Import ZArith List Bool.
From V Require Import Model.ZMap Model.Quorum Model.Voting Model.VotingRef Model.VotingExamples Model.VotingWitness Model.NodeModel
  Proofs.NodeProofs Proofs.VotingProofs Proofs.VotingTheorems Proofs.TidyC06.
Import ListNotations.
Open Scope Z_scope.

(* a node is idle exactly when nothing is pending: no loaded event awaits consensus, the pools and
   the own-signature pool are empty, and the target round (activation of the last membership
   change) has been reached *)
Theorem C06_idle_iff : forall pending_loaded p self_sigs last_consensus target_round,
  busy pending_loaded p self_sigs last_consensus target_round = false <->
  (pending_loaded <= 0 /\ p_txs p = [] /\ p_itxs p = [] /\ self_sigs = 0%nat /\
   match last_consensus with Some lcr => target_round <= lcr | None => True end).
Proof. exact busy_idle_iff. Qed.
Print Assumptions C06_idle_iff.

(* while a node is busy every successful sync ends in a self-event that empties its pools
   (so accepted transactions do enter the DAG) *)
Theorem C06_busy_creates : forall p dtx ditx,
  p_txs (pstep p (PSelfEvent true true dtx ditx)) = dtx /\
  p_created (pstep p (PSelfEvent true true dtx ditx)) = p_created p ++ [(p_txs p, p_itxs p)].
Proof.
  exact (fun p dtx ditx => conj (skipn_length_app (p_txs p) dtx) eq_refl).
Qed.
Print Assumptions C06_busy_creates.

(* the vote of every witness is defined in every well-formed view: the voting loop never gets
   stuck, and once some witness has a supermajority tally in a normal round the decision is made *)
Theorem C06_voting_never_stuck : forall n r P W J, view_ok n r P W J ->
  fame_loop P (fun j => Some (W j)) r (zrange (r + 1) J) [] = Some (loop_ref P W r (sm n) (zrange (r + 1) J)).
Proof. exact (fun n r P W J H => proj1 (VOTE_T1_votes_are_reference_votes n r P W J H)). Qed.
Print Assumptions C06_voting_never_stuck.

Theorem C06_decider_decides : forall n r P W J, view_ok n r P W J -> forall v,
  (exists j y, r + 1 <= j <= J /\ In y (W j) /\ decider P W r (sm n) j y = true /\ Vz P W r (sm n) j y = v) ->
  fame_loop P (fun j => Some (W j)) r (zrange (r + 1) J) [] = Some (Some v).
Proof. exact (fun n r P W J H v => proj2 (VOTE_decision_iff_decider n r P W J H v)). Qed.
Print Assumptions C06_decider_decides.

(** The deterministic core of termination.  [view_ok n r P W J]: a well-formed view (n validators,
    candidate of round r, witnesses W j of rounds r+1..J, every witness strongly sees a
    supermajority of the previous round); [Vz .. j y] = the vote of witness y of round j,
    [decider .. j y] = y decides in round j; [decided_by .. J' v] = the loop of DecideFame run over
    the rounds r+1..J' returns the decision v.  A round j is normal when (j - r) mod 4 <> 0. *)

(* (a) all round-(r+1) witnesses vote the same way (all see the candidate or none does): fame is
   decided at round r+2 (distance 2) as soon as that round has a witness *)
Theorem C06_unanimous_decides_next_round : forall n r P W J, view_ok n r P W J -> forall v y,
  r + 2 <= J -> In y (W (r + 2)) ->
  (forall w, In w (W (r + 1)) -> seesb P w = v) ->
  fame_loop P (fun j => Some (W j)) r (zrange (r + 1) (r + 2)) [] = Some (Some v) /\
  fame_loop P (fun j => Some (W j)) r (zrange (r + 1) J) [] = Some (Some v).
Proof. exact unanimous_decides_next_round. Qed.
Print Assumptions C06_unanimous_decides_next_round.

(* in general: once the votes of some round j0 are unanimous, fame is decided at the next normal
   round -- j0+1, or j0+2 when j0+1 is a coin round (which stays unanimous) -- hence within 2
   rounds *)
Theorem C06_unanimity_decides_within_two_rounds : forall n r P W J, view_ok n r P W J -> forall j0 v y1 y2,
  r + 1 <= j0 -> j0 + 2 <= J -> In y1 (W (j0 + 1)) -> In y2 (W (j0 + 2)) ->
  (forall w, In w (W j0) -> Vz P W r (sm n) j0 w = v) ->
  decided_by r P W (j0 + 2) v /\ decided_by r P W J v.
Proof. exact unanimity_decides_within_two_rounds. Qed.
Print Assumptions C06_unanimity_decides_within_two_rounds.

Theorem C06_unanimity_decides_at_next_normal_round : forall n r P W J, view_ok n r P W J -> forall j0 v j y,
  r + 1 <= j0 -> j0 < j <= J -> 0 < (j - r) mod 4 -> In y (W j) ->
  (forall w, In w (W j0) -> Vz P W r (sm n) j0 w = v) ->
  decided_by r P W j v /\ decided_by r P W J v.
Proof. exact unanimity_decides_at_next_normal_round. Qed.
Print Assumptions C06_unanimity_decides_at_next_normal_round.

(* (b) U: all round-j witnesses of the history (known to the view or not; at most n); A: a
   supermajority of them (the honest ones, say) voting v as far as the view knows them.  If j+1 is
   a normal round, every witness of round j+1 VOTES v ... *)
Theorem C06_supermajority_forces_next_round : forall n r P W J, view_ok n r P W J -> forall j U A v,
  r + 1 <= j -> j + 1 <= J -> 0 < (j + 1 - r) mod 4 ->
  NoDup U -> Z.of_nat (length U) <= n -> incl (W j) U ->
  NoDup A -> incl A U -> sm n <= Z.of_nat (length A) ->
  (forall w, In w A -> In w (W j) -> Vz P W r (sm n) j w = v) ->
  forall y, In y (W (j + 1)) -> Vz P W r (sm n) (j + 1) y = v.
Proof. exact supermajority_forces_next_round. Qed.
Print Assumptions C06_supermajority_forces_next_round.

(* ... so that fame is decided at most 3 rounds after the supermajority: at j+2, or at j+3 when
   j+2 is a coin round *)
Theorem C06_supermajority_decides_within_three_rounds : forall n r P W J, view_ok n r P W J ->
  forall j U A v y2 y3,
  r + 1 <= j -> j + 3 <= J -> 0 < (j + 1 - r) mod 4 ->
  NoDup U -> Z.of_nat (length U) <= n -> incl (W j) U ->
  NoDup A -> incl A U -> sm n <= Z.of_nat (length A) ->
  (forall w, In w A -> In w (W j) -> Vz P W r (sm n) j w = v) ->
  In y2 (W (j + 2)) -> In y3 (W (j + 3)) ->
  decided_by r P W (j + 3) v /\ decided_by r P W J v.
Proof. exact supermajority_decides_within_three_rounds. Qed.
Print Assumptions C06_supermajority_decides_within_three_rounds.

(* The stronger reading of (b) -- "every witness of round j+1 DECIDES v" -- is FALSE: a witness of
   round j+1 strongly sees only a supermajority of round j, of which as few as 2*sm - n vote v.
   Witness: 4 validators (sm = 3), candidate of round 0; witnesses 1,2,3 of round 1 see it, 4 does
   not; each witness of round 2 strongly sees 4 and two of the others: tally 2 < 3, nobody decides
   in round 2 (everybody votes true); round 3 decides. *)
Definition C06_supermajority_decides_next_round_statement : Prop :=
  forall n r P W J j A v, view_ok n r P W J ->
    r + 1 <= j -> j + 1 <= J -> 0 < (j + 1 - r) mod 4 ->
    NoDup A -> incl A (W j) -> sm n <= Z.of_nat (length A) ->
    (forall w, In w A -> Vz P W r (sm n) j w = v) ->
    forall y, In y (W (j + 1)) -> decider P W r (sm n) (j + 1) y = true.

(* the witness view is Model/VotingWitness.v (c06_P, c06_W) *)
Example C06_counterexample_values :
  view_okb 4 0 c06_P c06_W 3 = true /\
  map (Vz c06_P c06_W 0 (sm 4) 1) [1; 2; 3; 4] = [true; true; true; false] /\
  map (fun y => tallyf (Vz c06_P c06_W 0 (sm 4) 1) (ssset c06_P c06_W 2 y)) [5; 6; 7; 8]
    = [(true, 2); (true, 2); (true, 2); (true, 2)] /\
  map (decider c06_P c06_W 0 (sm 4) 2) [5; 6; 7; 8] = [false; false; false; false] /\
  map (Vz c06_P c06_W 0 (sm 4) 2) [5; 6; 7; 8] = [true; true; true; true] /\
  fame_loop c06_P (fun j => Some (c06_W j)) 0 (zrange 1 2) [] = Some None /\
  fame_loop c06_P (fun j => Some (c06_W j)) 0 (zrange 1 3) [] = Some (Some true).
Proof. vm_compute. repeat split; reflexivity. Qed.

Theorem C06_supermajority_decides_next_round_refuted : ~ C06_supermajority_decides_next_round_statement.
Proof. exact supermajority_decides_next_round_refuted. Qed.
Print Assumptions C06_supermajority_decides_next_round_refuted.

(* (c) the coin.  In a coin round a witness votes the majority value of its tally when that tally
   is a supermajority and flips its coin otherwise; nobody decides in a coin round *)
Theorem C06_coin_round_vote : forall n r P W j y,
  r + 2 <= j -> (j - r) mod 4 = 0 ->
  let vt := tallyf (Vz P W r (sm n) (j - 1)) (ssset P W j y) in
  (sm n <= snd vt -> Vz P W r (sm n) j y = fst vt) /\
  (snd vt < sm n -> Vz P W r (sm n) j y = vp_coin P y) /\
  decider P W r (sm n) j y = false.
Proof. exact coin_round_vote. Qed.
Print Assumptions C06_coin_round_vote.

(* two supermajority tallies of one round never disagree: a supermajority tally of one witness
   fixes the majority value of every other witness's tally *)
Theorem C06_supermajority_tally_unique : forall n r P W J, view_ok n r P W J -> forall j y y',
  r + 2 <= j <= J -> In y (W j) -> In y' (W j) ->
  sm n <= snd (tallyf (Vz P W r (sm n) (j - 1)) (ssset P W j y)) ->
  fst (tallyf (Vz P W r (sm n) (j - 1)) (ssset P W j y')) = fst (tallyf (Vz P W r (sm n) (j - 1)) (ssset P W j y)).
Proof. exact supermajority_tally_unique. Qed.
Print Assumptions C06_supermajority_tally_unique.

(* hence, in a coin round in which some witness has a supermajority tally for v, every witness
   votes v, except those WITHOUT a supermajority tally, who vote their own coin: the coin matters
   exactly when (and for the witnesses for whom) no value reaches a supermajority *)
Theorem C06_coin_only_without_supermajority : forall n r P W J, view_ok n r P W J -> forall j y y',
  r + 2 <= j <= J -> (j - r) mod 4 = 0 -> In y (W j) -> In y' (W j) ->
  sm n <= snd (tallyf (Vz P W r (sm n) (j - 1)) (ssset P W j y)) ->
  Vz P W r (sm n) j y = fst (tallyf (Vz P W r (sm n) (j - 1)) (ssset P W j y)) /\
  (Vz P W r (sm n) j y' = fst (tallyf (Vz P W r (sm n) (j - 1)) (ssset P W j y)) \/
   (snd (tallyf (Vz P W r (sm n) (j - 1)) (ssset P W j y')) < sm n /\ Vz P W r (sm n) j y' = vp_coin P y')).
Proof. exact coin_round_votes. Qed.
Print Assumptions C06_coin_only_without_supermajority.

(* and after a unanimous round the coin is not used at all, in any round: everybody has a
   supermajority tally for the unanimous value *)
Theorem C06_coin_irrelevant_when_unanimous : forall n r P W J, view_ok n r P W J -> forall j v y,
  r + 2 <= j <= J -> (forall w, In w (W (j - 1)) -> Vz P W r (sm n) (j - 1) w = v) -> In y (W j) ->
  Vz P W r (sm n) j y = v /\ sm n <= snd (tallyf (Vz P W r (sm n) (j - 1)) (ssset P W j y)).
Proof. exact coin_irrelevant_when_unanimous. Qed.
Print Assumptions C06_coin_irrelevant_when_unanimous.

(* non-vacuity.  Model/VotingExamples.v ex2: five rounds of four witnesses, rounds 2 and 3 split
   2/2 (tallies of 2, no supermajority), round 4 is a coin round in which every witness, having no
   supermajority tally, votes its coin (41, 42, 43: false; 44: true); a round-5 witness that does
   not strongly see 44 then has a tally of 3 for false and decides "not famous".  So the
   hypotheses of the theorems above are satisfiable and the coin is really used. *)
Example C06_example_core :
  view_okb 4 0 ex2_P ex2_W 5 = true /\
  map (fun y => snd (tallyf (Vz ex2_P ex2_W 0 (sm 4) 3) (ssset ex2_P ex2_W 4 y))) (ex2_W 4) = [2; 2; 2; 2] /\
  map (Vz ex2_P ex2_W 0 (sm 4) 4) (ex2_W 4) = map (vp_coin ex2_P) (ex2_W 4) /\
  fame_loop ex2_P (fun j => Some (ex2_W j)) 0 (zrange 1 5) [] = Some (Some false) /\
  (* the counterexample view above also instantiates (a)-(b): round 2 is unanimous, round 3 decides *)
  decided_by 0 c06_P c06_W 3 true.
Proof. vm_compute. repeat split; reflexivity. Qed.

(* NOT STATED IN COQ: the convergence bound itself.  A faithful statement needs a scheduler model
   (n cores exchanging event diffs, self-event creation with environment-supplied hashes) that this
   development does not have; it is explored on the real cores instead (harness cmd/sim -live:
   arbitrary adversarial prefix with truncations, lost responses and a silent minority < n/3, then
   fair all-pairs cycles among the others; oracle: within 30 cycles nobody is busy and every accepted
   transaction is committed by all of them).  C06 is therefore claimed at exploration level only. *)
