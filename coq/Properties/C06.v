(* C06 Liveness under fair gossip.  PARTIAL: the convergence bound ("everything commits within K
   fair all-pairs cycles") needs the termination argument of virtual voting and is NOT proved; it is
   kept as a Definition and explored by the check (adversarial prefix, then fair cycles until
   quiescence, bound 30; measured 1-7 cycles).  Proved: the idle condition and the safety facts the
   liveness argument rests on (a decision, once possible, is forced on all later rounds). *)
From Coq Require Import ZArith List Bool.
From V Require Import Model.ZMap Model.Quorum Model.Voting Model.VotingRef Model.NodeModel
  Proofs.NodeProofs Proofs.VotingProofs Proofs.VotingTheorems.
Import ListNotations.
Open Scope Z_scope.

(* a node is idle exactly when nothing is pending: no loaded event awaits consensus, the pools and
   the own-signature pool are empty, and the target round (activation of the last membership
   change) has been reached *)
Theorem C06_idle_iff : forall pending_loaded p self_sigs last_consensus target_round,
  busy pending_loaded p self_sigs last_consensus target_round = false <->
  (pending_loaded <= 0 /\ p_txs p = [] /\ p_itxs p = [] /\ self_sigs = 0%nat /\
   match last_consensus with Some lcr => target_round <= lcr | None => True end).
Proof. exact busy_idle_iff. Qed.
Print Assumptions C06_idle_iff.

(* while a node is busy every successful sync ends in a self-event that empties its pools
   (so accepted transactions do enter the DAG) *)
Theorem C06_busy_creates : forall p dtx ditx,
  p_txs (pstep p (PSelfEvent true true dtx ditx)) = dtx /\
  p_created (pstep p (PSelfEvent true true dtx ditx)) = p_created p ++ [(p_txs p, p_itxs p)].
Proof.
  exact (fun p dtx ditx => conj (skipn_length_app (p_txs p) dtx) eq_refl).
Qed.
Print Assumptions C06_busy_creates.

(* the vote of every witness is defined in every well-formed view: the voting loop never gets
   stuck, and once some witness has a supermajority tally in a normal round the decision is made *)
Theorem C06_voting_never_stuck : forall n r P W J, view_ok n r P W J ->
  fame_loop P (fun j => Some (W j)) r (zrange (r + 1) J) [] = Some (loop_ref P W r (sm n) (zrange (r + 1) J)).
Proof. exact (fun n r P W J H => proj1 (VOTE_T1_votes_are_reference_votes n r P W J H)). Qed.
Print Assumptions C06_voting_never_stuck.

Theorem C06_decider_decides : forall n r P W J, view_ok n r P W J -> forall v,
  (exists j y, r + 1 <= j <= J /\ In y (W j) /\ decider P W r (sm n) j y = true /\ Vz P W r (sm n) j y = v) ->
  fame_loop P (fun j => Some (W j)) r (zrange (r + 1) J) [] = Some (Some v).
Proof. exact (fun n r P W J H v => proj2 (VOTE_decision_iff_decider n r P W J H v)). Qed.
Print Assumptions C06_decider_decides.

(* NOT STATED IN COQ: the convergence bound itself.  A faithful statement needs a scheduler model
   (n cores exchanging event diffs, self-event creation with environment-supplied hashes) that this
   development does not have; it is explored on the real cores instead (harness cmd/sim -live:
   arbitrary adversarial prefix with truncations, lost responses and a silent minority < n/3, then
   fair all-pairs cycles among the others; oracle: within 30 cycles nobody is busy and every accepted
   transaction is committed by all of them).  C06 is therefore claimed at exploration level only. *)
