(* C07 Event admission.  Statements only; every proof is `exact <lemma>`.
   Model: HgImpl.insert_event / insert_and_run (transliteration of Hashgraph.InsertEvent with
   checkSelfParent as repaired by the fix commit 26c0384 in /repo).
   [e_sigok e] is the result of Event.Verify(): the event signature of the stated creator AND
   the signature of every membership request by the peer it concerns. *)
From Coq Require Import ZArith List Bool FMapPositive.
From V Require Import Model.ZMap Model.Quorum Model.HgImpl Proofs.AdmissionProofs Proofs.BlockInv Proofs.TidyC07.
Import ListNotations.
Open Scope Z_scope.

(* what an accepted attempt has passed *)
Theorem C07_admitted_checks : forall st e st',
  insert_event st e = (InsOk, st') ->
  e_sigok e = true /\ check_self_parent st e = InsOk /\ check_other_parent st e = InsOk.
Proof. exact insert_ok_checks. Qed.
Print Assumptions C07_admitted_checks.

(* Every reachable state of every sequence of insertion attempts (valid events and arbitrary
   tamperings alike), from any genesis set: the DAG contains only signed events of known
   participants whose parents are present, whose self-parent is the creator's event one
   height below (index = self-parent index + 1, 0 for a first event), and the per-creator
   listings enumerate exactly the stored events by height. *)
Theorem C07_admitted_wf : forall self_ genesis oracle_ evs,
  ids_determine evs -> (forall e, In e evs -> 0 <= e_id e) ->
  dag_ok (run (init_hg self_ genesis oracle_) evs).
Proof. exact run_dag_ok. Qed.
Print Assumptions C07_admitted_wf.

(* The same over the full operation alphabet [hop] of the other properties: insertion attempts
   interleaved, in any way, with ProcessSigPool calls ([hrun]).  [all] lists the attempted events;
   every stored event is one of them. *)
Theorem C07_admitted_wf_hrun : forall all self_ genesis oracle_ ops,
  ids_determine all ->
  Forall (fun o => match o with HInsert e => In e all /\ 0 <= e_id e | HSigPool => True end) ops ->
  dag_ok (hrun (init_hg self_ genesis oracle_) ops) /\
  from_attempts (hrun (init_hg self_ genesis oracle_) ops) all.
Proof. exact hrun_dag_ok. Qed.
Print Assumptions C07_admitted_wf_hrun.

(* ... with the attempted events read off the operation sequence itself *)
Theorem C07_admitted_wf_ops : forall self_ genesis oracle_ ops,
  ids_determine (attempts_of ops) -> (forall e, In e (attempts_of ops) -> 0 <= e_id e) ->
  dag_ok (hrun (init_hg self_ genesis oracle_) ops) /\
  from_attempts (hrun (init_hg self_ genesis oracle_) ops) (attempts_of ops).
Proof. exact hrun_dag_ok_ops. Qed.
Print Assumptions C07_admitted_wf_ops.

(* ProcessSigPool never touches the admitted DAG *)
Theorem C07_sigpool_preserves_dag : forall st, dag_ok st -> dag_ok (process_sigpool st).
Proof. exact process_sigpool_dag_ok. Qed.
Print Assumptions C07_sigpool_preserves_dag.

(* consequently: no two events of one creator at one height ... *)
Theorem C07_no_fork : forall st x y ex ey,
  dag_ok st -> get_event st x = Some ex -> get_event st y = Some ey ->
  e_creator (ev_e ex) = e_creator (ev_e ey) -> e_index (ev_e ex) = e_index (ev_e ey) -> x = y.
Proof. exact dag_ok_no_fork. Qed.
Print Assumptions C07_no_fork.

(* ... and per-creator indexes are gap-free *)
Theorem C07_gap_free : forall st x ex i,
  dag_ok st -> get_event st x = Some ex -> 0 <= i <= e_index (ev_e ex) ->
  exists y ey, get_event st y = Some ey /\ e_creator (ev_e ey) = e_creator (ev_e ex) /\ e_index (ev_e ey) = i.
Proof. exact dag_ok_gap_free. Qed.
Print Assumptions C07_gap_free.

(* A rejected event leaves the DAG, the known-events map, the queues, every consensus result
   and the insertion counter unchanged: the whole state is untouched.  (In a reachable state the
   late Store.SetEvent failure cannot occur any more: third conjunct of insert_event_inv.) *)
Theorem C07_reject_noop : forall st e all r st',
  dag_ok st -> from_attempts st all -> ids_determine all -> In e all -> 0 <= e_id e ->
  insert_event st e = (r, st') -> r <> InsOk -> st' = st.
Proof.
  exact (fun st e all r st' OK FA ID Hin Hid H Hr =>
    insert_reject_noop st e r st' H Hr
      (proj2 (proj2 (insert_event_inv st e all r st' OK FA ID Hin Hid H)))).
Qed.
Print Assumptions C07_reject_noop.

(* the consensus passes never touch the admitted DAG *)
Theorem C07_consensus_preserves_dag : forall st, dag_ok st -> dag_ok (run_consensus st).
Proof. exact (fun st OK => dag_ok_frame st _ OK (Proofs.HgDagFrames.run_consensus_frame st)). Qed.
Print Assumptions C07_consensus_preserves_dag.

(* non-vacuity: a concrete attempt sequence with a wrong index, a stale signature and an unknown
   parent; three events are admitted, the rest is refused *)
Definition c07_g : peerset := [mkPeer 100 0; mkPeer 101 1].
Definition c07_ev (id c idx sp op : Z) (ok : bool) : event := mkEvent id c idx sp op 0 true id [] [] [] ok.
Definition c07_attempts : list event :=
  [c07_ev 0 0 5 (-1) (-1) true;      (* first event with index 5: refused *)
   c07_ev 1 0 0 (-1) (-1) true;      (* admitted *)
   c07_ev 2 1 0 (-1) 1 true;         (* admitted *)
   c07_ev 3 0 1 1 2 false;           (* stale signature: refused *)
   c07_ev 4 0 1 1 9 true;            (* unknown other-parent: refused *)
   c07_ev 5 0 2 1 2 true;            (* skipped index: refused *)
   c07_ev 6 0 1 1 2 true].           (* admitted *)
Example C07_example :
  map fst (PositiveMap.elements (events (run (init_hg (-1) c07_g []) c07_attempts))) = [2; 3; 7]%positive /\
  topo (run (init_hg (-1) c07_g []) c07_attempts) = 3.
Proof. vm_compute. split; reflexivity. Qed.

(* the same attempts interleaved with ProcessSigPool calls: same DAG; hypotheses of
   C07_admitted_wf_ops hold *)
Definition c07_ops : list hop :=
  [HSigPool; HInsert (c07_ev 0 0 5 (-1) (-1) true); HInsert (c07_ev 1 0 0 (-1) (-1) true); HSigPool;
   HInsert (c07_ev 2 1 0 (-1) 1 true); HInsert (c07_ev 3 0 1 1 2 false); HSigPool;
   HInsert (c07_ev 4 0 1 1 9 true); HInsert (c07_ev 5 0 2 1 2 true); HInsert (c07_ev 6 0 1 1 2 true); HSigPool].
Example C07_example_hrun :
  attempts_of c07_ops = c07_attempts /\
  map fst (PositiveMap.elements (events (hrun (init_hg (-1) c07_g []) c07_ops))) = [2; 3; 7]%positive /\
  Forall (fun e => 0 <=? e_id e = true) (attempts_of c07_ops) /\
  NoDup (map e_id (attempts_of c07_ops)).
Proof.
  vm_compute. repeat split; repeat constructor;
    intros H; repeat (destruct H as [H|H]; [discriminate H|]); destruct H.
Qed.
