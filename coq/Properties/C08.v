(* C08 No network input can crash a node or alter its committed history.
   Statements only; every proof is `exact <lemma>`.

   Model/Hostile.v models the validation layer that remote values go through - the helpers
   (DecodeFromString, DecodeSignature, ToPublicKey, Verify, InternalTransaction/Event/Block.Verify,
   SelfParent/OtherParent, NewPeerSet, GetSignatures, SortedFrameEvents.Less, Frame.Hash's string
   encoder), core.fastForward's checks, ProcessSigPool, and the RPC handlers - as total functions into
   Ok | Err | Panic | Hang, parameterised by the set of repairs present ([asis] / [repaired]).
   `safe o` means: o is neither Panic nor Hang.  The quantifiers range over ALL values of the
   argument types (arbitrary byte strings, integers, null elements): a superset of the hostile
   grammar.  What an ECDSA signature check answers, what the store / consensus layer answers to a
   well-formed object, and hash comparisons are universally quantified booleans. *)
From Coq Require Import ZArith List Bool.
From V Require Import Model.Hostile Model.HostileWitness Proofs.HostileProofs Proofs.HostileRefuted.
Import ListNotations.
Open Scope Z_scope.

(* ================= the repaired code ================= *)

(* T1: no command / response, in no state, makes the node panic or hang *)
Theorem C08_no_panic : forall st c, ns_locked st = false -> safe (fst (handle repaired st c)).
Proof. exact handle_safe. Qed.
Print Assumptions C08_no_panic.

(* T2: only an ACCEPTED fast-forward response changes the delivered blocks or the application
   state; in particular a message that is answered with an error leaves both unchanged *)
Theorem C08_blocks_unchanged : forall st c o st',
  handle repaired st c = (o, st') ->
  (ns_blocks st' = ns_blocks st /\ ns_app st' = ns_app st) \/
  (o = Ok tt /\ exists f snap blocks, c = RFastForward f snap blocks).
Proof. exact handle_blocks_unchanged. Qed.
Print Assumptions C08_blocks_unchanged.

(* T3: any request that was answered without error before an arbitrary message c is answered
   without error after it (no poisoned signature pool, no lock left behind in the model's terms) *)
Theorem C08_still_serves : forall st c v,
  ns_locked st = false ->
  heads_ok (ns_known st) (ns_heads st) = true ->
  is_request v = true ->
  fst (handle repaired st v) = Ok tt ->
  fst (handle repaired (snd (handle repaired st c)) v) = Ok tt.
Proof. exact handle_still_serves. Qed.
Print Assumptions C08_still_serves.

(* T3b: every handler releases the core lock on every path (both versions of the code), and a sync
   request whose eventDiff fails - a Known index below -1, events rolled out of the cache - is answered
   with an error and is a no-op: together with T3 the next valid request is served *)
Theorem C08_lock_released : forall fx st c, ns_locked st = false -> ns_locked (snd (handle fx st c)) = false.
Proof. exact handle_releases_lock. Qed.
Print Assumptions C08_lock_released.

Theorem C08_sync_diff_error_noop : forall fx st limit,
  gate (ns_state st) true = true -> ns_locked st = false ->
  handle fx st (CSync limit true) = (Err, st).
Proof. exact sync_diff_error_is_noop. Qed.
Print Assumptions C08_sync_diff_error_noop.

(* T3c: core.heads. Every recorded head (the other-parent of the next self-event) is an event of the
   hashgraph: an invariant of every command in both versions of the code - it is the premise of T3 -
   and an event that is refused or silently skipped (validly signed but ill-chained: a fork of the
   sender's own chain with any index, a duplicate, a second first event) leaves the hashgraph unchanged
   and never becomes, or makes anything become, a head *)
Theorem C08_heads_known : forall fx st c,
  heads_ok (ns_known st) (ns_heads st) = true ->
  heads_ok (ns_known (snd (handle fx st c))) (ns_heads (snd (handle fx st c))) = true.
Proof. exact handle_heads_known. Qed.
Print Assumptions C08_heads_known.

Theorem C08_skipped_event_no_new_head : forall fx st e sigs m,
  we_rest_ok e = false ->
  let st' := snd (handle fx st (CEager e sigs m)) in
  ns_known st' = ns_known st /\
  forall k h, head_of (ns_heads st') k = Some (Some h) -> head_of (ns_heads st) k = Some (Some h).
Proof. exact skipped_event_no_new_head. Qed.
Print Assumptions C08_skipped_event_no_new_head.

(* T4: the helpers, for every value *)
Theorem C08_helpers_no_panic :
  (forall s, safe (decode_from_string repaired s)) /\
  (forall fx s, safe (decode_signature fx s)) /\
  (forall pk r s b, safe (keys_verify repaired pk r s b)) /\
  (forall t, safe (itx_verify repaired t)) /\
  (forall itxs bsigs creator sig b, safe (event_verify repaired itxs bsigs creator sig b)) /\
  (forall v sig b, safe (block_verify repaired v sig b)) /\
  (forall which n, safe (parent_at repaired which n)) /\
  (forall ks, safe (get_signatures repaired ks)) /\
  (forall st limit conf d, safe (sync_request repaired st limit conf d)) /\
  (forall st t present, safe (join_request repaired st t present)) /\
  (forall st e pool, safe (fst (eager_sync repaired st e pool))) /\
  (forall f, safe (ff_check repaired f)).
Proof.
  exact (conj decode_from_string_safe (conj decode_signature_safe (conj keys_verify_safe
        (conj itx_verify_safe (conj event_verify_safe (conj block_verify_safe (conj parent_at_safe
        (conj get_signatures_safe (conj sync_request_safe (conj join_request_safe
        (conj eager_sync_safe ff_check_safe))))))))))).
Qed.
Print Assumptions C08_helpers_no_panic.

(* T5: ProcessSigPool never fails, whatever is pending; and the comparator used to sort the events
   of a validated frame never dereferences nil *)
Theorem C08_sigpool_total : forall l, fst (process_sigpool repaired l) = Ok tt.
Proof. exact process_sigpool_repaired_ok. Qed.
Print Assumptions C08_sigpool_total.

Theorem C08_validated_frame_sortable : forall a b,
  fev_valid a = true -> fev_valid b = true -> safe (fe_less repaired a b).
Proof. exact fe_less_safe. Qed.
Print Assumptions C08_validated_frame_sortable.

(* T6: every string of an accepted internal transaction, and every block-signature string of an
   accepted event, is one on which the canonical JSON encoder terminates *)
Theorem C08_accepted_text_encodable :
  (forall t, itx_verify repaired t = Ok true ->
     quote_str (it_key t) = Ok tt /\ quote_str (it_addr t) = Ok tt /\ quote_str (it_moniker t) = Ok tt) /\
  (forall fx l, bsigs_wellformed fx l = Ok tt -> forall s, In s l -> quote_str s = Ok tt).
Proof. exact (conj itx_verify_repaired_encodable bsigs_wellformed_encodable). Qed.
Print Assumptions C08_accepted_text_encodable.

(* ================= the code as it is: REFUTED, one witness per site ================= *)

Theorem C08_no_panic_refuted : ~ (forall st c, ns_locked st = false -> safe (fst (handle asis st c))).
Proof. exact no_panic_asis_refuted. Qed.
Print Assumptions C08_no_panic_refuted.

Theorem C08_blocks_unchanged_refuted : ~ blocks_unchanged_statement asis.
Proof. exact blocks_unchanged_asis_refuted. Qed.
Print Assumptions C08_blocks_unchanged_refuted.

Theorem C08_still_serves_refuted : ~ still_serves_statement asis.
Proof. exact still_serves_asis_refuted. Qed.
Print Assumptions C08_still_serves_refuted.

Theorem C08_site_hex_refuted : decode_from_string asis [] = Panic /\ decode_from_string asis [48] = Panic /\
                               decode_from_string repaired [] = Ok ([], false).
Proof. exact w_hex. Qed.
Print Assumptions C08_site_hex_refuted.

Theorem C08_site_signature_refuted :
  decode_signature asis s_bang = Ok (None, None) /\
  block_verify asis g_bytes s_bang false = Panic /\
  block_verify repaired g_bytes s_bang false = Err.
Proof. exact w_sig. Qed.
Print Assumptions C08_site_signature_refuted.

Theorem C08_site_key_refuted :
  to_public_key asis [] = KNil /\ to_public_key asis [4] = KXYNil /\
  block_verify asis [] s_one false = Panic /\ block_verify asis [4] s_one false = Panic /\
  block_verify repaired [] s_one false = Ok false /\ block_verify repaired [4] s_one false = Ok false.
Proof. exact w_key. Qed.
Print Assumptions C08_site_key_refuted.

Theorem C08_site_parents_refuted :
  parent_at asis 0 0 = Panic /\ parent_at asis 1 1 = Panic /\ parent_at asis 1 2 = Ok tt.
Proof. exact w_parents. Qed.
Print Assumptions C08_site_parents_refuted.

Theorem C08_site_sync_limit_refuted :
  sync_request asis 0 (-1) 1000 3 = Panic /\ sync_request asis 5 (-1) 1000 3 = Panic /\
  sync_request repaired 5 (-1) 1000 3 = Ok 0 /\ sync_request asis 0 (-1) 1000 0 = Ok 0.
Proof. exact w_limit. Qed.
Print Assumptions C08_site_sync_limit_refuted.

Theorem C08_site_less_refuted :
  fe_less asis (FEv 1 2 s_bang) (FEv 1 2 s_one) = Panic /\
  fe_less asis (FEv 1 2 s_abc) (FEv 1 2 s_one) = Panic /\
  fe_less asis (FEv 1 2 s_bang) (FEv 2 2 s_one) = Ok true /\
  fe_less repaired (FEv 1 2 s_bang) (FEv 1 2 s_one) = Ok true.
Proof. exact w_less. Qed.
Print Assumptions C08_site_less_refuted.

Theorem C08_site_join_refuted :
  join_request asis 0 (mkItx [] [] [] s_one false) false = Panic /\
  join_request repaired 0 (mkItx [] [] [] s_one false) false = Err.
Proof. exact w_join. Qed.
Print Assumptions C08_site_join_refuted.

Theorem C08_site_event_itx_refuted :
  event_verify asis [mkItx [48; 88] [] [] s_one false] [] g_bytes s_abc false = Panic /\
  fst (eager_sync asis 0 (mkWE true [mkItx [] [] [] s_one false] [] g_bytes s_abc false true) []) = Panic /\
  fst (eager_sync repaired 0 (mkWE true [mkItx [] [] [] s_one false] [] g_bytes s_abc false true) []) = Err.
Proof. exact w_event_itx. Qed.
Print Assumptions C08_site_event_itx_refuted.

Theorem C08_site_fast_forward_refuted :
  ff_check asis (with_peers good_ff [Some g_hex; None]) = Panic /\
  ff_check asis (with_sigs good_ff [([], false, s_one, false)]) = Panic /\
  ff_check asis (with_sigs good_ff [(g_hex, true, s_bang, false)]) = Panic /\
  ff_check asis (with_roots good_ff [None]) = Panic /\
  ff_check asis (with_events good_ff [FNil]) = Panic /\
  ff_check asis (with_events good_ff [FCoreNil 1]) = Panic /\
  ff_check asis (with_events good_ff [FEv 1 1 s_one]) = Panic /\
  ff_check asis (with_fffd good_ff) = Hang /\
  ff_check repaired (with_peers good_ff [Some g_hex; None]) = Err /\
  ff_check repaired (with_roots good_ff [None]) = Err /\
  ff_check repaired (with_events good_ff [FEv 1 1 s_one]) = Err /\
  ff_check repaired (with_fffd good_ff) = Err.
Proof. exact w_ff. Qed.
Print Assumptions C08_site_fast_forward_refuted.

Theorem C08_site_sigpool_refuted :
  process_sigpool asis [mkPE true true g_bytes s_abc false; good_entry] =
     (Err, [mkPE true true g_bytes s_abc false; good_entry]) /\
  fst (process_sigpool asis [mkPE true true g_bytes s_bang false]) = Panic /\
  process_sigpool repaired [mkPE true true g_bytes s_abc false; good_entry] = (Ok tt, []).
Proof. exact w_sigpool. Qed.
Print Assumptions C08_site_sigpool_refuted.

(* a malformed pending signature is NEVER removed: every call fails on it *)
Theorem C08_site_sigpool_stuck : forall e r,
  pe_known e = true -> pe_member e = true ->
  block_verify asis (pe_validator e) (pe_sig e) (pe_sigok e) = Err ->
  process_sigpool asis (e :: r) = (Err, e :: r).
Proof. exact process_sigpool_asis_stuck. Qed.
Print Assumptions C08_site_sigpool_stuck.

Theorem C08_site_encoder_hang_refuted :
  itx_verify asis (mkItx g_hex s_plain s_fffd s_one true) = Ok true /\
  join_request asis 0 (mkItx g_hex s_plain s_fffd s_one true) true = Ok true /\
  quote_str s_fffd = Hang /\
  itx_verify repaired (mkItx g_hex s_plain s_fffd s_one true) = Err.
Proof. exact w_moniker. Qed.
Print Assumptions C08_site_encoder_hang_refuted.

Theorem C08_site_restore_before_check_refuted :
  handle asis st_catching_up (RFastForward (with_frame_hash good_ff false) 99 [50]) =
    (Err, mkNS 1 1000 3 [10; 11] 99 [] false [1; 2] [] true) /\
  handle repaired st_catching_up (RFastForward (with_frame_hash good_ff false) 99 [50]) = (Err, st_catching_up).
Proof. exact w_restore_before_check. Qed.
Print Assumptions C08_site_restore_before_check_refuted.

Theorem C08_site_reset_not_atomic_refuted :
  handle asis st_catching_up (RFastForward (with_insert good_ff false) 99 [50]) =
    (Err, mkNS 1 1000 3 [] 99 [] false [] [] true) /\
  handle repaired st_catching_up (RFastForward (with_insert good_ff false) 99 [50]) = (Err, st_catching_up).
Proof. exact w_reset_not_atomic. Qed.
Print Assumptions C08_site_reset_not_atomic_refuted.

Theorem C08_site_wedge_refuted :
  fst (handle asis st_babbling (CEager good_event [] good_meta)) = Ok tt /\
  fst (handle asis st_babbling poison) = Err /\
  fst (handle asis (snd (handle asis st_babbling poison)) (CEager good_event [] good_meta)) = Err /\
  fst (handle asis (snd (handle asis (snd (handle asis st_babbling poison)) (CEager good_event [] good_meta))) (CEager good_event [] good_meta)) = Err /\
  fst (handle repaired (snd (handle repaired st_babbling poison)) (CEager good_event [] good_meta)) = Ok tt.
Proof. exact w_wedge. Qed.
Print Assumptions C08_site_wedge_refuted.

(* what the oracle's liveness probe detects: a handler that returned without releasing the core lock
   (no path of the model does; seeded change seeded/C08) makes every later request block *)
Theorem C08_leaked_lock_wedges :
  handle asis st_babbling (CSync 10 true) = (Err, st_babbling) /\
  handle repaired st_suspended (CSync 10 true) = (Err, st_suspended) /\
  fst (handle repaired (snd (handle repaired st_babbling (CSync 10 true))) (CSync 10 false)) = Ok tt /\
  fst (handle repaired (leak_lock st_babbling) (CSync 10 false)) = Hang /\
  fst (handle repaired (leak_lock st_babbling) (CEager good_event [] good_meta)) = Hang.
Proof. exact w_sync_diff_error. Qed.
Print Assumptions C08_leaked_lock_wedges.

(* what the probe after a Byzantine validator's ill-chained event detects: a head that is not in the
   hashgraph (no path of the model records one; seeded change seeded/C08-r2) makes every later valid
   push fail while the node is busy *)
Theorem C08_unknown_head_wedges :
  handle asis st_babbling (CEager fork_event [] fork_meta) = (Ok tt, st_babbling) /\
  handle repaired st_babbling (CEager fork_event [] fork_meta) = (Ok tt, st_babbling) /\
  fst (handle repaired (snd (handle repaired st_babbling (CEager fork_event [] fork_meta)))
                       (CEager good_event [] (mkEM 100 8 8 false))) = Ok tt /\
  heads_ok (ns_known (poison_head st_babbling 7 999)) (ns_heads (poison_head st_babbling 7 999)) = false /\
  fst (handle repaired (poison_head st_babbling 7 999) (CEager good_event [] (mkEM 100 8 8 false))) = Err /\
  fst (handle repaired (snd (handle repaired (poison_head st_babbling 7 999) (CEager good_event [] (mkEM 100 8 8 false))))
                       (CEager good_event [] (mkEM 101 8 8 false))) = Err.
Proof. exact w_ill_chained_event. Qed.
Print Assumptions C08_unknown_head_wedges.

(* ================= the hypotheses are satisfiable / the model is not vacuous ================= *)

(* honest objects are accepted by both versions: the repairs do not reject valid traffic *)
Example C08_honest_objects_accepted :
  to_public_key asis g_bytes = KPoint g_x g_y /\
  itx_verify asis good_itx = Ok true /\ itx_verify repaired good_itx = Ok true /\
  fst (eager_sync asis 0 good_event []) = Ok tt /\
  fst (eager_sync repaired 0 good_event [good_entry]) = Ok tt /\
  ff_check asis good_ff = Ok tt /\ ff_check repaired good_ff = Ok tt /\
  process_sigpool repaired [good_entry] = (Ok tt, []) /\
  handle repaired st_catching_up (RFastForward good_ff 99 [50]) = (Ok tt, mkNS 1 1000 3 [50] 99 [] false [] [] true) /\
  handle repaired st_babbling (CSync 2 false) = (Ok tt, st_babbling) /\
  frame_validate good_ff = true /\ fev_valid good_fev = true.
Proof. vm_compute. repeat split. Qed.

(* base-36 / hex / UTF-8 corner cases of the value grammar *)
Example C08_grammar_corner_cases :
  set_string36 [45; 48] = Some 0 /\ set_string36 [43] = None /\ set_string36 [] = None /\
  set_string36 [90; 122] = Some (35 * 36 + 35) /\ set_string36 [49; 95; 48] = None /\
  split_bar [] = [[]] /\ split_bar [124] = [[]; []] /\
  hex_pairs [48; 52; 90; 90] = ([4], false) /\ hex_pairs [48; 52; 48] = ([4], false) /\
  utf8_valid [195; 169] = true /\ utf8_valid [255] = false /\ utf8_valid [239; 191] = false /\
  has_fffd [97; 239; 191; 189; 98] = true /\ has_fffd [239; 191; 188] = false /\
  encodable s_plain = true /\ encodable s_fffd = false.
Proof. vm_compute. repeat split. Qed.
