(* C09 Block signatures: only valid validator signatures count; anchor needs > 1/3.
   Statements only.  Model: HgImpl (SigPool [sigpool], ProcessSigPool [process_sig],
   SetAnchorBlock, core.commit / signBlock / selfBlockSignatures [self_sigs]).

   A signature is [bsig] = (validator key, block index, identifier of the body it verifies
   against): "verifies against this node's own body of block i" is [bs_over s = b_bodyid b], a
   datum supplied per signature by the harness (keys.Verify on the real hashes), never an axiom.
   Adversarial payloads are the universally quantified [e_sigs] of the inserted events:
   signatures over other bodies, by keys outside any validator set, by removed / not yet
   effective validators, duplicates, for unknown or future indexes; malformed encodings are
   signatures that verify against no body ([bs_over] = an identifier no block has).
   [self_ <> -1]: a node with an application (core), not a bare Hashgraph. *)
From Coq Require Import ZArith List Bool Sorted.
From V Require Import Model.ZMap Model.Quorum Model.HgImpl Model.PeerSetSpec
  Proofs.BlockInv Proofs.PeerSetProofs Proofs.SigProofs Proofs.TidyRR.
Import ListNotations.
Open Scope Z_scope.

(* round-received increases strictly along the delivered blocks.  It used to be a named
   hypothesis of the theorems below; it is now a theorem of every reachable state
   (Proofs/RoundOrder.v, C02_rr_increasing) and has been discharged everywhere *)
Definition rr_increasing (st : hg) : Prop := StronglySorted Z.lt (map b_rr (delivered st)).
Theorem C09_rr_increasing_holds : forall self_ genesis oracle_ ops,
  rr_increasing (hrun (init_hg self_ genesis oracle_) ops).
Proof. exact reach_rr_increasing. Qed.
Print Assumptions C09_rr_increasing_holds.

(** recorded signatures *)

(* every recorded signature is over this node's own body of the block (re-export of binv) *)
Theorem C09_recorded_over_own_body : forall self_ genesis oracle_ ops i b v o,
  zget i (blocks (hrun (init_hg self_ genesis oracle_) ops)) = Some b -> aget v (b_sigs b) = Some o -> o = b_bodyid b.
Proof. exact (fun s g o ops i b v o' Hb Hv => b_valid _ (hrun_binv s g o ops) i b Hb v o' Hv). Qed.
Print Assumptions C09_recorded_over_own_body.

(* at recording time: in any reachable state, ProcessSigPool either ignores a signature, or the
   signature is for a stored block, verifies against the node's own body of it, its signer is in
   the peer set that get_peerset returns NOW for the block's round-received, and the only change
   to the block store is that signature added to that block *)
Theorem C09_recorded_at_recording_time : forall self_ genesis oracle_ ops s,
  let st := hrun (init_hg self_ genesis oracle_) ops in
  process_sig st s = st \/
  exists b ps, sig_accepts st s b ps /\
    (forall i, zget i (blocks (process_sig st s)) = if i =? bs_index s then Some (sig_recorded b s) else zget i (blocks st)) /\
    last_block (process_sig st s) = last_block st /\
    anchor (process_sig st s) =
      (if (trust_count ps <? Z.of_nat (length (b_sigs (sig_recorded b s)))) &&
          (match anchor st with None => true | Some a => a <? bs_index s end)
       then Some (bs_index s) else anchor st) /\
    sigpool (process_sig st s) = filter (fun t => negb (sig_key_eq t s)) (sigpool st).
Proof. exact (fun s g o ops sg => process_sig_spec _ sg (hrun_binv s g o ops)). Qed.
Print Assumptions C09_recorded_at_recording_time.

(* the node's own signature is put on a block by commit exactly when the node is in the peer set
   of the block's round-received (as the table stands at commit), over the committed body *)
Theorem C09_commit_signs_iff_member : forall genesis s f,
  binv s -> frame_ok f -> c10inv genesis s ->
  let b := block_of_frame (last_block s + 1) f s in
  exists bps bf, commit_post s b (commit (store_set_block s b) b) bps bf /\
    b_sigs b = [] /\ b_index b = last_block s + 1 /\ 0 <= b_rr b /\
    b_index bf = b_index b /\ b_rr bf = b_rr b /\ b_bodyid bf = hd (-1) (oracle s) /\
    b_sigs bf = (if mem_key (self s) (keys bps) then [(self s, hd (-1) (oracle s))] else []) /\
    (forall r, r < b_rr b + 6 -> get_peerset (commit (store_set_block s b) b) r = get_peerset s r).
Proof. exact commit_facts. Qed.
Print Assumptions C09_commit_signs_iff_member.

(* for all histories and all payloads: the signer of every recorded signature is a member of a
   validator set of the node's table (the one in force for the block's round when recorded),
   signers are pairwise distinct, and -- round-received increasing along the delivered blocks
   (C02_rr_increasing), so that by C10_no_retroactive later commits cannot have changed the set
   of an earlier block's round -- the signer is in the set the FINAL table gives for the block's
   round *)
Theorem C09_recorded_valid : forall self_ genesis oracle_ ops i b v o,
  self_ <> -1 ->
  zget i (blocks (hrun (init_hg self_ genesis oracle_) ops)) = Some b -> aget v (b_sigs b) = Some o ->
  o = b_bodyid b /\
  NoDup (map fst (b_sigs b)) /\
  (exists k ps, In (k, ps) (peersets (hrun (init_hg self_ genesis oracle_) ops)) /\ mem_key v (keys ps) = true) /\
  (exists ps, get_peerset (hrun (init_hg self_ genesis oracle_) ops) (b_rr b) = Some ps /\ mem_key v (keys ps) = true).
Proof. exact recorded_valid. Qed.
Print Assumptions C09_recorded_valid.

(* the last conjunct on its own: the signer of every recorded signature is in the set the FINAL
   peer-set table gives for the block's round-received *)
Theorem C09_recorded_member_final : forall self_ genesis oracle_ ops i b v o, self_ <> -1 ->
  zget i (blocks (hrun (init_hg self_ genesis oracle_) ops)) = Some b -> aget v (b_sigs b) = Some o ->
  exists ps, get_peerset (hrun (init_hg self_ genesis oracle_) ops) (b_rr b) = Some ps /\ mem_key v (keys ps) = true.
Proof. exact recorded_member_final. Qed.
Print Assumptions C09_recorded_member_final.

(** attribution *)

(* when every inserted event carries only signatures keyed by its own creator (what ReadWireInfo
   builds: wevent.BlockSignatures(creatorBytes)), every pool entry was carried by an inserted
   event and is keyed by that event's creator, and every recorded signature is either the node's
   own (signBlock) or was carried, for that index and body, by an event of its signer *)
Theorem C09_attribution : forall self_ genesis oracle_ ops,
  self_ <> -1 -> wire_attributed ops ->
  let st := hrun (init_hg self_ genesis oracle_) ops in
  (forall s, In s (sigpool st) ->
     exists e, In e (events_of ops) /\ In s (e_sigs e) /\ bs_validator s = e_creator e) /\
  (forall i b v o, zget i (blocks st) = Some b -> aget v (b_sigs b) = Some o ->
     v = self st \/ exists e, In e (events_of ops) /\ In (mkBsig v i o) (e_sigs e) /\ v = e_creator e).
Proof.
  exact (fun s g o ops Hs W =>
    let I := reach_c09inv_attr s g o ops Hs W in conj (s_pool _ _ _ _ I) (s_attr _ _ _ _ I)).
Qed.
Print Assumptions C09_attribution.

(* provenance without any assumption: nothing enters the pool or a block except through the
   payload of an inserted event or the node's own signBlock *)
Theorem C09_provenance : forall self_ genesis oracle_ ops,
  self_ <> -1 ->
  let st := hrun (init_hg self_ genesis oracle_) ops in
  (forall s, In s (sigpool st) -> exists e, In e (events_of ops) /\ In s (e_sigs e) /\ True) /\
  (forall i b v o, zget i (blocks st) = Some b -> aget v (b_sigs b) = Some o ->
     v = self st \/ exists e, In e (events_of ops) /\ In (mkBsig v i o) (e_sigs e) /\ True).
Proof.
  exact (fun s g o ops Hs => let I := reach_c09inv s g o ops Hs in conj (s_pool _ _ _ _ I) (s_attr _ _ _ _ I)).
Qed.
Print Assumptions C09_provenance.

(** anchor *)

(* the anchor block is stored and carries more signatures than the TrustCount of a validator set
   of the table (the set of its round when the anchor was set / the signature added), hence from
   more than a third of that set's distinct validators -- the signers being distinct members
   (C09_recorded_valid); and the same for the set the final table gives for the block's round *)
Theorem C09_anchor_trusted : forall self_ genesis oracle_ ops a,
  self_ <> -1 -> anchor (hrun (init_hg self_ genesis oracle_) ops) = Some a ->
  exists b, zget a (blocks (hrun (init_hg self_ genesis oracle_) ops)) = Some b /\
    (exists k ps, In (k, ps) (peersets (hrun (init_hg self_ genesis oracle_) ops)) /\
                  trust_count ps < Z.of_nat (length (b_sigs b))) /\
    (exists ps, get_peerset (hrun (init_hg self_ genesis oracle_) ops) (b_rr b) = Some ps /\
                trust_count ps < Z.of_nat (length (b_sigs b))).
Proof. exact anchor_trusted. Qed.
Print Assumptions C09_anchor_trusted.

(* the headline: the anchor block carries signatures over the node's own body of it, by pairwise
   distinct members of the validator set that the table gives for the block's round, and they are
   more than a third of that set *)
Theorem C09_anchor_third_of_validators : forall self_ genesis oracle_ ops a,
  self_ <> -1 -> anchor (hrun (init_hg self_ genesis oracle_) ops) = Some a ->
  exists b ps, zget a (blocks (hrun (init_hg self_ genesis oracle_) ops)) = Some b /\
    get_peerset (hrun (init_hg self_ genesis oracle_) ops) (b_rr b) = Some ps /\
    NoDup (map fst (b_sigs b)) /\
    (forall v, In v (map fst (b_sigs b)) -> In v (keys ps) /\ aget v (b_sigs b) = Some (b_bodyid b)) /\
    3 * Z.of_nat (length (map fst (b_sigs b))) > ps_len ps.
Proof. exact anchor_third_reach. Qed.
Print Assumptions C09_anchor_third_of_validators.

(* "> TrustCount" means more than a third of the distinct validators; a single signature
   suffices for a set of at most one peer *)
Theorem C09_trust_count_third : forall ps k, trust_count ps < k -> 3 * k > ps_len ps.
Proof. exact trust_gt_third. Qed.
Print Assumptions C09_trust_count_third.
Theorem C09_trust_count_single : forall ps k, ps_slice_len ps <= 1 -> 1 <= k -> trust_count ps < k.
Proof. exact trust_single. Qed.
Print Assumptions C09_trust_count_single.

(* between resets (no reset operation exists in hrun) the anchor index never decreases *)
Theorem C09_anchor_monotone : forall self_ genesis oracle_ ops ops' a,
  self_ <> -1 -> anchor (hrun (init_hg self_ genesis oracle_) ops) = Some a ->
  exists a', anchor (hrun (init_hg self_ genesis oracle_) (ops ++ ops')) = Some a' /\ a <= a'.
Proof. exact anchor_monotone. Qed.
Print Assumptions C09_anchor_monotone.

(** self signatures *)

(* the node holds a signature of its own for index i only if it delivered block i to its
   application, and the signature is over that delivered block's body (which includes the state
   hash returned by the application: b_bodyid is assigned at commit) *)
Theorem C09_signs_only_delivered : forall self_ genesis oracle_ ops s,
  self_ <> -1 -> In s (self_sigs (hrun (init_hg self_ genesis oracle_) ops)) ->
  bs_validator s = self (hrun (init_hg self_ genesis oracle_) ops) /\ 0 <= bs_index s /\
  exists d, nth_error (delivered (hrun (init_hg self_ genesis oracle_) ops)) (Z.to_nat (bs_index s)) = Some d /\
            b_index d = bs_index s /\ bs_over s = b_bodyid d.
Proof. exact (fun s g o ops sg Hs HI => s_self _ _ _ _ (reach_c09inv s g o ops Hs) sg HI). Qed.
Print Assumptions C09_signs_only_delivered.

(* No full statement of this file is left unproved: the former
   C09_recorded_member_final_statement is the theorem C09_recorded_member_final above. *)

(* non-vacuity: validators 0 (self) and 1; the events of validator 1 carry adversarial payloads:
   a signature over another body (99), one for a future block (index 3), a duplicate, and a
   correct one (body 7 of block 0).  Only the correct ones are recorded; the anchor is set once
   block 0 has 2 > TrustCount = 1 signatures. *)
Definition c09_g : peerset := [mkPeer 100 0; mkPeer 101 1].
Definition c09_ev (id c idx sp op : Z) (txs : list Z) (sigs : list bsig) : event :=
  mkEvent id c idx sp op 0 true id txs [] sigs true.
Definition c09_ops : list hop :=
  [HInsert (c09_ev 0 0 0 (-1) (-1) [1] []); HInsert (c09_ev 1 1 0 (-1) (-1) [] []);
   HInsert (c09_ev 2 0 1 0 1 [] []); HInsert (c09_ev 3 1 1 1 2 [] []);
   HInsert (c09_ev 4 0 2 2 3 [] []); HInsert (c09_ev 5 1 2 3 4 [] []);
   HInsert (c09_ev 6 0 3 4 5 [] []); HInsert (c09_ev 7 1 3 5 6 [] []);
   HInsert (c09_ev 8 0 4 6 7 [] []); HSigPool;
   HInsert (c09_ev 9 1 4 7 8 [] [mkBsig 1 0 99; mkBsig 1 3 7; mkBsig 1 3 7]); HSigPool;
   HInsert (c09_ev 10 0 5 8 9 [] []); HSigPool;
   HInsert (c09_ev 11 1 5 9 10 [] [mkBsig 1 0 7]); HSigPool].
Example C09_example :
  let st k := hrun (init_hg 0 c09_g [7; 8; 9]) (firstn k c09_ops) in
  (* after the adversarial payload and a ProcessSigPool: nothing recorded but the own signature,
     no anchor (1 signature is not > TrustCount = 1), both bad signatures still pending *)
  option_map b_sigs (zget 0 (blocks (st 12%nat))) = Some [(0, 7)] /\ anchor (st 12%nat) = None /\
  sigpool (st 12%nat) = [mkBsig 1 0 99; mkBsig 1 3 7] /\
  (* after the correct signature: recorded, anchor set, the future-block signature still pending *)
  option_map b_sigs (zget 0 (blocks (st 16%nat))) = Some [(0, 7); (1, 7)] /\ anchor (st 16%nat) = Some 0 /\
  sigpool (st 16%nat) = [mkBsig 1 3 7] /\ self_sigs (st 16%nat) = [mkBsig 0 0 7] /\
  wire_attributed c09_ops /\ rr_increasing (st 16%nat).
Proof. vm_compute. repeat split; repeat constructor; intros s H; repeat (destruct H as [<-|H]; [reflexivity|]); destruct H. Qed.
