(* C10 Validator-set history is a replayable function of the committed blocks.
   Statements only.  Model: HgImpl (PeerSetCache table [peersets], core.validators [validators],
   core.commit / processAcceptedInternalTransactions, GetFrame / NewBlockFromFrame); executable
   specification: Model/PeerSetSpec.v ([replay], [ps_lookup], [validators_at]).

   A node's life is an arbitrary list of operations [hop] (insertion attempts of arbitrary events,
   ProcessSigPool calls) from [init_hg self genesis oracle]; [self <> -1] = the node has an
   application (core.commit, not the dummy callback of a bare Hashgraph).  [reach] = hrun from
   init.  Join / leave requests, accepted or refused, successive or simultaneous, are the
   [e_itxs] of the inserted events: they are universally quantified. *)
From Coq Require Import ZArith List Bool Sorted.
From V Require Import Model.ZMap Model.Quorum Model.HgImpl Model.PeerSetSpec
  Proofs.BlockInv Proofs.HgBlockFrames Proofs.PeerSetProofs Proofs.TidyRR
  Proofs.AdmissionProofs Proofs.OrderProofs Proofs.Agreement Proofs.WindowWitness Model.Window Proofs.LrMono Proofs.WindowStable Proofs.GapWindow
  Proofs.FirstDesc Proofs.FirstDescD Proofs.CInvRunD.
Import ListNotations.
Open Scope Z_scope.

(* the table and core.validators are the replay of the node's own delivered blocks, always *)
Theorem C10_table_is_replay : forall self_ genesis oracle_ ops,
  self_ <> -1 ->
  (peersets (hrun (init_hg self_ genesis oracle_) ops), validators (hrun (init_hg self_ genesis oracle_) ops)) =
  replay [(0, genesis)] genesis (delivered (hrun (init_hg self_ genesis oracle_) ops)).
Proof. exact reach_table. Qed.
Print Assumptions C10_table_is_replay.

(* two nodes (any self, any schedules, any body identifiers) that delivered the same blocks
   report the same validator-set history *)
Theorem C10_same_blocks_same_history : forall self1 self2 genesis o1 o2 ops1 ops2,
  self1 <> -1 -> self2 <> -1 ->
  delivered (hrun (init_hg self1 genesis o1) ops1) = delivered (hrun (init_hg self2 genesis o2) ops2) ->
  tbl (hrun (init_hg self1 genesis o1) ops1) = tbl (hrun (init_hg self2 genesis o2) ops2).
Proof.
  exact (fun s1 s2 g o1 o2 ops1 ops2 H1 H2 E =>
           eq_trans (eq_trans (reach_table s1 g o1 ops1 H1) (f_equal (replay [(0, g)] g) E))
                    (eq_sym (reach_table s2 g o2 ops2 H2))).
Qed.
Print Assumptions C10_same_blocks_same_history.

(* nothing but a commit changes the table: whatever a node does next, if no new block is
   delivered, table and core.validators are unchanged *)
Theorem C10_only_commit : forall self_ genesis oracle_ ops ops',
  self_ <> -1 ->
  delivered (hrun (init_hg self_ genesis oracle_) (ops ++ ops')) = delivered (hrun (init_hg self_ genesis oracle_) ops) ->
  tbl (hrun (init_hg self_ genesis oracle_) (ops ++ ops')) = tbl (hrun (init_hg self_ genesis oracle_) ops).
Proof. exact reach_only_commit. Qed.
Print Assumptions C10_only_commit.

(* ... and function by function, in any state: InsertEvent, DivideRounds, DecideFame,
   DecideRoundReceived, GetFrame, ProcessSigPool never write them *)
Theorem C10_only_commit_functions : forall st,
  (forall e, tbl (snd (insert_event st e)) = tbl st) /\ tbl (divide_rounds st) = tbl st /\
  tbl (decide_fame st) = tbl st /\ tbl (decide_round_received st) = tbl st /\
  (forall rr, tbl (snd (get_frame st rr)) = tbl st) /\ tbl (process_sigpool st) = tbl st.
Proof.
  exact (fun st => conj (only_commit_insert st) (conj (only_commit_divide st) (conj (only_commit_fame st)
          (conj (only_commit_rr st) (conj (only_commit_get_frame st) (only_commit_sigpool st)))))).
Qed.
Print Assumptions C10_only_commit_functions.

(* the table is sorted by round with strictly increasing keys, and its first key is 0 *)
Theorem C10_table_wf : forall self_ genesis oracle_ ops,
  self_ <> -1 ->
  StronglySorted Z.lt (map fst (peersets (hrun (init_hg self_ genesis oracle_) ops))) /\
  hd_error (map fst (peersets (hrun (init_hg self_ genesis oracle_) ops))) = Some 0.
Proof. exact (fun s g o ops H => table_wf_sorted _ (c_wf _ _ (proj2 (hrun_c10inv s g o ops H)))). Qed.
Print Assumptions C10_table_wf.

(* lookup: for a round r >= 0 the answer exists and is the entry with the greatest key <= r *)
Theorem C10_lookup : forall self_ genesis oracle_ ops r,
  self_ <> -1 -> 0 <= r ->
  exists k ps, get_peerset (hrun (init_hg self_ genesis oracle_) ops) r = Some ps /\
               greatest_le r (peersets (hrun (init_hg self_ genesis oracle_) ops)) k ps.
Proof. exact (fun s g o ops r H Hr => get_greatest r _ (c_wf _ _ (proj2 (hrun_c10inv s g o ops H))) Hr). Qed.
Print Assumptions C10_lookup.

(* the same, against the executable lookup specification *)
Theorem C10_lookup_spec : forall self_ genesis oracle_ ops r,
  self_ <> -1 -> 0 <= r ->
  get_peerset (hrun (init_hg self_ genesis oracle_) ops) r = ps_lookup r (peersets (hrun (init_hg self_ genesis oracle_) ops)).
Proof. exact (fun s g o ops r H Hr => get_is_lookup r _ (c_wf _ _ (proj2 (hrun_c10inv s g o ops H))) Hr). Qed.
Print Assumptions C10_lookup_spec.

(* the quirk of PeerSetCache.Get -- "below all keys: return the FIRST entry" -- is dead code for
   rounds >= 0, because key 0 is always present: Get is the plain scan *)
Theorem C10_lookup_quirk_dead : forall self_ genesis oracle_ ops r,
  self_ <> -1 -> 0 <= r ->
  get_peerset (hrun (init_hg self_ genesis oracle_) ops) r =
  ps_table_get_le r (peersets (hrun (init_hg self_ genesis oracle_) ops)) None.
Proof. exact (fun s g o ops r H Hr => get_wf_no_below r _ (c_wf _ _ (proj2 (hrun_c10inv s g o ops H))) Hr). Qed.
Print Assumptions C10_lookup_quirk_dead.

(* the quirk is real on tables without key 0 (not reachable): inserting ABOVE r changes Get r *)
Example C10_quirk_exists :
  ps_table_get 1 (ps_table_insert 3 [mkPeer 9 9] [(5, [])]) <> ps_table_get 1 [(5, [])].
Proof. vm_compute. discriminate. Qed.

(* no retroactive change: whatever happens after a state (any further operations), the validator
   set of round r stays what it was, provided every block delivered in between has
   round-received + 6 > r.  (A block of round-received rr can only change rounds >= rr + 6.) *)
Theorem C10_no_retroactive : forall self_ genesis oracle_ ops ops' r,
  self_ <> -1 ->
  (forall l, delivered (hrun (init_hg self_ genesis oracle_) (ops ++ ops')) =
             delivered (hrun (init_hg self_ genesis oracle_) ops) ++ l -> Forall (fun d => r < b_rr d + 6) l) ->
  get_peerset (hrun (init_hg self_ genesis oracle_) (ops ++ ops')) r = get_peerset (hrun (init_hg self_ genesis oracle_) ops) r.
Proof. exact reach_no_retro. Qed.
Print Assumptions C10_no_retroactive.

(* the same on the table operations themselves: inserting at k changes no round below k
   (well-formed table) *)
Theorem C10_no_retroactive_table : forall t k ps r,
  table_wf t -> 0 <= k -> r < k -> ps_table_get r (ps_table_insert k ps t) = ps_table_get r t.
Proof. exact (fun t k ps r W Hk Hr => get_insert_wf r k ps t W Hk Hr). Qed.
Print Assumptions C10_no_retroactive_table.

(* peers hash: every delivered block carries (as b_peers, which stands for PeersHash) exactly the
   set that the table recorded in its frame gives for the block's round-received; GetFrame records
   the table of the moment it computes the frame (second theorem), frames are cached and never
   recomputed *)
Theorem C10_peers_hash : forall self_ genesis oracle_ ops d,
  self_ <> -1 -> In d (delivered (hrun (init_hg self_ genesis oracle_) ops)) ->
  0 <= b_rr d /\ b_rr d = f_round (b_frame d) /\ b_peers d = f_peers (b_frame d) /\
  ps_table_get (b_rr d) (f_peersets (b_frame d)) = Some (b_peers d).
Proof.
  exact (fun s g o ops d H HI =>
    match c_frames _ _ (proj2 (hrun_c10inv s g o ops H)) d HI with
    | conj (conj F0 F1) (conj Ep Er) =>
      conj (eq_ind_r (fun x => 0 <= x) F0 Er)
           (conj Er (conj Ep (eq_ind_r (fun x => ps_table_get x _ = Some (b_peers d))
                                       (eq_ind_r (fun p => ps_table_get _ _ = Some p) F1 Ep) Er)))
    end).
Qed.
Print Assumptions C10_peers_hash.

Theorem C10_peers_hash_source : forall st rr f st',
  zget rr (frames st) = None -> get_frame st rr = (Some f, st') ->
  f_round f = rr /\ f_peersets f = peersets st /\ get_peerset st rr = Some (f_peers f) /\ 0 <= rr /\
  frames st' = zset rr f (frames st).
Proof. exact get_frame_fresh. Qed.
Print Assumptions C10_peers_hash_source.

(* THE STATEMENT in its declarative form, for every reachable state and every round r >= 0: the
   validator set of round r is genesis modified, in block order, by exactly the accepted receipts
   of the delivered blocks with round-received + 6 <= r.  It rests on round-received increasing
   strictly along the delivered blocks (C02_rr_increasing, Proofs/RoundOrder.v -- formerly a named
   hypothesis of this theorem): otherwise two blocks could claim the same effective round and the
   second change would be dropped by SetPeerSet (the "already in the table" branch of
   [replay_step]). *)
Definition rr_increasing (st : hg) : Prop := StronglySorted Z.lt (map b_rr (delivered st)).
Theorem C10_rr_increasing_holds : forall self_ genesis oracle_ ops,
  rr_increasing (hrun (init_hg self_ genesis oracle_) ops).
Proof. exact reach_rr_increasing. Qed.
Print Assumptions C10_rr_increasing_holds.

Theorem C10_lookup_is_effective_prefix : forall self_ genesis oracle_ ops r,
  self_ <> -1 -> 0 <= r ->
  get_peerset (hrun (init_hg self_ genesis oracle_) ops) r =
  Some (validators_at genesis (delivered (hrun (init_hg self_ genesis oracle_) ops)) r).
Proof. exact lookup_is_effective_prefix. Qed.
Print Assumptions C10_lookup_is_effective_prefix.

(* hence the "round already in the table" error branch of SetPeerSet (on which core.validators
   would keep its OLD value) is dead for the blocks a node delivers: the effective round of a
   new block is above every key of the table replayed from the earlier ones *)
Theorem C10_set_peerset_never_collides : forall genesis ds d,
  StronglySorted Z.lt (map b_rr (ds ++ [d])) -> 0 <= b_rr d ->
  table_has (b_rr d + 6) (fst (replay_genesis genesis ds)) = false.
Proof. exact replay_fresh_key. Qed.
Print Assumptions C10_set_peerset_never_collides.

(* membership gates, the parts local to one call: _witness (when it computes rather than reads
   its memo) answers true only for an event whose creator is in the peer set the table gives for
   the event's round; _stronglySee counts distinct keys of the given round's set only, against
   that set's supermajority.  (The signature gate is C09_recorded_valid.) *)
Theorem C10_witness_gate : forall fuel st x st',
  zget x (witness_memo st) = None -> witness_f fuel st x = (Some true, st') ->
  exists ex xr ps, get_event st x = Some ex /\ fst (round_f fuel st x) = Some xr /\
                   get_peerset st xr = Some ps /\ mem_key (e_creator (ev_e ex)) (keys ps) = true.
Proof. exact witness_gate. Qed.
Print Assumptions C10_witness_gate.

Theorem C10_quorum_gate : forall st x y ps,
  strongly_see st x y ps = Some true ->
  exists l, NoDup l /\ incl l (keys ps) /\ super_majority ps <= Z.of_nat (length l).
Proof. exact strongly_see_gate. Qed.
Print Assumptions C10_quorum_gate.

(* THE WINDOW PROPERTY IS FALSE.  The membership gates above are per-call facts; that every memoised
   witness flag / round and every quorum used by DecideFame / DecideRoundReceived was computed with
   the set the FINAL table gives for that round needs "a table entry is written only for a round that
   no event has been divided into yet" (core.processAcceptedInternalTransactions: effective round =
   round-received + 6, "all consistent hashgraphs will have decided the fame of round r witnesses by
   round r+5").  Nothing bounds last_round - last_consensus: in the history ww of
   Proofs/WindowWitness.v (4 validators, 142 valid fork-free gossip events, one accepted join in the
   first block, coin bit false on 5 events) the entry for round 7 is written when 21 events already
   sit in rounds 7..9, divided with the four-peer set.  Consequence: C01_agreement_dynamic_refuted
   (two nodes fed the same events in two orders deliver different blocks); the same fork is
   reproduced on the Go code (harness/cmd/winfork, KNOWN_FINDINGS C01/C10). *)
Definition C10_window_statement : Prop :=
  forall genesis all self_ oracle_ ops o r ps,
    ids_determine all -> fork_free all -> Forall (hop_ok all) (ops ++ [o]) ->
    let st := hrun (init_hg self_ genesis oracle_) ops in
    In (r, ps) (peersets (hstep st o)) -> ~ In r (map fst (peersets st)) -> last_round (hstep st o) < r.
Theorem C10_window_refuted : ~ C10_window_statement.
Proof. exact ww_window_refuted. Qed.
Print Assumptions C10_window_refuted.

(* ... and the window is exactly what is missing: when every step of a run writes table entries only
   for rounds above every round divided so far ([window_runb], executable; Model/Window.v), every
   validator-set lookup made during the run - for a round that exists at that point - returns what the
   FINAL table returns: the set that governs a round is final when the round is divided, so every
   memoised round / witness flag / quorum was computed with the set of the final table.  Nodes with an
   application (self <> -1); a bare Hashgraph never changes its table. *)
Theorem C10_window_lookup_final : forall self_ genesis oracle_ ops k r,
  self_ <> -1 -> window_runb (init_hg self_ genesis oracle_) ops = true ->
  r <= last_round (hrun (init_hg self_ genesis oracle_) (firstn k ops)) ->
  get_peerset (hrun (init_hg self_ genesis oracle_) (firstn k ops)) r =
  get_peerset (hrun (init_hg self_ genesis oracle_) ops) r.
Proof. exact (fun s g o ops k r Hs => window_lookup_final s g o Hs ops k r). Qed.
Print Assumptions C10_window_lookup_final.

(* the lookups made DURING step k - for the round the step creates as well, and against the table before
   the step - equal the final answer too *)
Theorem C10_window_lookup_final_step : forall self_ genesis oracle_ ops k r,
  self_ <> -1 -> window_runb (init_hg self_ genesis oracle_) ops = true -> (k < length ops)%nat ->
  r <= last_round (hrun (init_hg self_ genesis oracle_) (firstn (S k) ops)) ->
  get_peerset (hrun (init_hg self_ genesis oracle_) (firstn k ops)) r = get_peerset (hrun (init_hg self_ genesis oracle_) ops) r /\
  get_peerset (hrun (init_hg self_ genesis oracle_) (firstn (S k) ops)) r = get_peerset (hrun (init_hg self_ genesis oracle_) ops) r.
Proof. exact (fun s g o ops k r Hs => window_lookup_final_step s g o Hs ops k r). Qed.
Print Assumptions C10_window_lookup_final_step.

(* A sufficient condition a node can CHECK LOCALLY AND ENFORCE: after every step the last round is at most
   5 above the next round that was to be processed before the step ([gap_runb], Model/Window.v gap_stepb;
   the invariant of the gate "do not divide more than 6 rounds ahead of consensus").  It implies the window
   premise - the blocks a step delivers have a round-received above the previous last consensus round and
   write at round-received + 6 - and, unlike the window premise on the run so far, it constrains every
   future block as well. *)
Theorem C10_gap_implies_window : forall self_ genesis oracle_ ops,
  self_ <> -1 -> gap_runb (init_hg self_ genesis oracle_) ops = true ->
  window_runb (init_hg self_ genesis oracle_) ops = true.
Proof. exact (fun s g o ops Hs => gap_run_window s g o Hs ops []). Qed.
Print Assumptions C10_gap_implies_window.

Theorem C10_gap_lookup_final : forall self_ genesis oracle_ ops k r,
  self_ <> -1 -> gap_runb (init_hg self_ genesis oracle_) ops = true ->
  r <= last_round (hrun (init_hg self_ genesis oracle_) (firstn k ops)) ->
  get_peerset (hrun (init_hg self_ genesis oracle_) (firstn k ops)) r =
  get_peerset (hrun (init_hg self_ genesis oracle_) ops) r.
Proof. exact gap_lookup_final. Qed.
Print Assumptions C10_gap_lookup_final.

(* MEMBERSHIP GATES UNDER DYNAMIC MEMBERSHIP (no [no_accept]: join / leave requests are accepted or
   refused at will).  [psat st r] = the peer-set the table of [st] gives for round r.  For any run
   that respects the distance bound and has not failed:
   - every memoised round satisfies the round equation READ WITH THE FINAL TABLE: with spr, opr
     the parents' rounds and pr = max spr opr, round = pr + 1 iff the event strongly sees (with the
     set of pr) a super-majority (of the set of pr) of the round-pr witnesses, else pr;
   - every memoised witness flag = creator in the set of the event's own round && self-parent's
     round below it;
   whatever the table held when the value was memoised.  This is the whole division invariant
   [cinvD] (Proofs/FirstDescD.v: [cinv] of Proofs/FirstDesc.v with the single static set replaced by a
   function of the round), in every state of the run; the static invariant is the instance
   [cinv_cinvD].  Without the premise both gates fail: C10_window_witness, C01_dynamic_fork_witness. *)
Theorem C10_division_invariant_dynamic : forall self_ genesis oracle_ all ops k,
  self_ <> -1 -> ids_determine all -> Forall (hop_ok all) ops ->
  gap_runb (init_hg self_ genesis oracle_) ops = true ->
  failed (hrun (init_hg self_ genesis oracle_) (firstn k ops)) = false ->
  cinvD (psat (hrun (init_hg self_ genesis oracle_) ops)) None
        (hrun (init_hg self_ genesis oracle_) (firstn k ops)).
Proof. exact (fun s g o all ops k Hs ID H Hg => hrun_cinvD s g o all ops Hs ID H Hg k). Qed.
Print Assumptions C10_division_invariant_dynamic.

Theorem C10_round_gate_dynamic : forall self_ genesis oracle_ all ops x r,
  self_ <> -1 -> ids_determine all -> Forall (hop_ok all) ops ->
  gap_runb (init_hg self_ genesis oracle_) ops = true ->
  failed (hrun (init_hg self_ genesis oracle_) ops) = false ->
  rmemo (hrun (init_hg self_ genesis oracle_) ops) x = Some r ->
  0 <= r /\ exists ex, get_event (hrun (init_hg self_ genesis oracle_) ops) x = Some ex /\
    reqD (psat (hrun (init_hg self_ genesis oracle_) ops)) (hrun (init_hg self_ genesis oracle_) ops) x ex r.
Proof. exact (fun s g o all ops x r => gates_round_final s g o all ops x r). Qed.
Print Assumptions C10_round_gate_dynamic.

Theorem C10_witness_gate_dynamic : forall self_ genesis oracle_ all ops x w,
  self_ <> -1 -> ids_determine all -> Forall (hop_ok all) ops ->
  gap_runb (init_hg self_ genesis oracle_) ops = true ->
  failed (hrun (init_hg self_ genesis oracle_) ops) = false ->
  wmemo (hrun (init_hg self_ genesis oracle_) ops) x = Some w ->
  exists ex r, get_event (hrun (init_hg self_ genesis oracle_) ops) x = Some ex /\
    rmemo (hrun (init_hg self_ genesis oracle_) ops) x = Some r /\
    weq (psat (hrun (init_hg self_ genesis oracle_) ops) r) (hrun (init_hg self_ genesis oracle_) ops) ex r w.
Proof. exact (fun s g o all ops x w => gates_witness_final s g o all ops x w). Qed.
Print Assumptions C10_witness_gate_dynamic.

(* the static invariant is the constant-function instance *)
Theorem C10_division_invariant_static_instance : forall g E st, cinv g E st -> cinvD (fun _ => g) E st.
Proof. exact cinv_cinvD. Qed.
Print Assumptions C10_division_invariant_static_instance.

(* last_round never decreases along a run (used above; any events, any membership) *)
Theorem C10_last_round_monotone : forall st ops, last_round st <= last_round (hrun st ops).
Proof. exact (fun st ops => hrun_lrq_le ops st). Qed.
Print Assumptions C10_last_round_monotone.

(* the witness, spelled out: just before event 118 nothing has been committed and rounds up to 9
   exist; inserting 118 commits seven blocks at once and writes the five-peer set for round 7 *)
Example C10_window_witness :
  let st := hrun (init_hg 0 ww_g []) (map HInsert (firstn 118 ww_all)) in
  let st' := hstep st (HInsert (ww_ev (118, 2, 24, 112, 115))) in
  map fst (peersets st) = [0] /\ last_consensus st = None /\ last_round st = 9 /\
  map (fun p => (fst p, map pkey (snd p))) (peersets st') = [(0, [0; 1; 2; 3]); (7, [0; 1; 2; 3; 4])] /\
  last_round st' = 9 /\ last_consensus st' = Some 7.
Proof. vm_compute. repeat split; reflexivity. Qed.

(* non-vacuity: one validator; a join accepted and a join refused in the first block (round
   received 1 => effective at 7), then a leave of the joiner and a re-join of the refused peer in
   a later block *)
Definition c10_g : peerset := [mkPeer 100 0].
Definition c10_ev (id idx sp : Z) (txs : list Z) (itxs : list itx) : event :=
  mkEvent id 0 idx sp (-1) 0 true id txs itxs [] true.
Definition c10_ops : list hop :=
  [HInsert (c10_ev 0 0 (-1) [1] [mkItx 0 true (mkPeer 101 1) true true; mkItx 1 true (mkPeer 102 2) true false]);
   HInsert (c10_ev 1 1 0 [] []); HInsert (c10_ev 2 2 1 [] []); HSigPool;
   HInsert (c10_ev 3 3 2 [] [mkItx 2 false (mkPeer 101 1) true true; mkItx 3 true (mkPeer 102 2) true true]);
   HInsert (c10_ev 4 4 3 [] []); HInsert (c10_ev 5 5 4 [] []); HInsert (c10_ev 6 6 5 [] []); HSigPool].
Example C10_example :
  let st := hrun (init_hg 0 c10_g [7; 8; 9]) c10_ops in
  map (fun b => (b_index b, b_rr b)) (delivered st) = [(0, 1); (1, 4)] /\
  map (fun e => (fst e, keys (snd e))) (peersets st) = [(0, [0]); (7, [0; 1]); (10, [0; 2])] /\
  keys (validators st) = [0; 2] /\
  option_map keys (get_peerset st 9) = Some [0; 1] /\
  rr_increasing st.
Proof. vm_compute. repeat split; repeat constructor. Qed.
(* the statement of C10_lookup_is_effective_prefix evaluated on that history, rounds 0..12: the
   lookup and the declarative replay agree (sets [0] up to round 6, [0;1] for 7..9, [0;2] from 10) *)
Example C10_example_prefix :
  let st := hrun (init_hg 0 c10_g [7; 8; 9]) c10_ops in
  map (fun r => option_map keys (get_peerset st r)) (zrange 0 12) =
  map (fun r => Some (keys (validators_at c10_g (delivered st) r))) (zrange 0 12) /\
  map (fun r => keys (validators_at c10_g (delivered st) r)) [0; 6; 7; 9; 10; 12] =
  [[0]; [0]; [0; 1]; [0; 1]; [0; 2]; [0; 2]].
Proof. vm_compute. repeat split; reflexivity. Qed.

(* the premise of C10_window_lookup_final holds on the join/leave history above and fails on the
   window-fork history (node A of Proofs/WindowWitness.v) *)
Example C10_example_window :
  window_runb (init_hg 0 c10_g [7; 8; 9]) c10_ops = true /\
  gap_runb (init_hg 0 c10_g [7; 8; 9]) c10_ops = true /\
  window_runb (init_hg 0 ww_g []) (map HInsert ww_all) = false /\
  gap_runb (init_hg 0 ww_g []) (map HInsert ww_all) = false.
Proof. vm_compute. repeat split; reflexivity. Qed.
