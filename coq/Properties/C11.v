(* C11 Crash recovery: bootstrap from the database reproduces the same chain.  Statements only.

   Model (Model/Recovery.v): the Badger database is the LOG of the node's committed write
   transactions; a crash leaves the database denoted by a PREFIX of that log (ASSUMED of Badger:
   per-transaction atomicity, durability in commit order); [bootstrap] is Hashgraph.Bootstrap after
   newCore on the reopened store (peer set 0, topological events 0,1,2,.. until the first missing key,
   batches of 100 through the unchanged HgImpl pipeline with DB writes off, ProcessSigPool after every
   batch with BadgerStore.GetBlock's cache-then-database lookup behind the LastBlockIndex test of fix
   d90db55), [head_seq] is core.setHeadAndSeq.  [bootstrap_cur] / [recovered] are the code as it stands;
   [recovered_unguarded] is the same with the ProcessSigPool of before d90db55 (regression witness only).

   A node's life is a list of operations [nop] (insertion attempts of arbitrary events, valid or not, and
   ProcessSigPool calls) from any genesis set; [node_log] is what it writes (the entries Bootstrap can
   read back; the others are shown invisible); the crash point k ranges over EVERY entry of the log,
   i.e. also between the several writes of one operation.  [ops_started .. k] operations had written
   their first entry; [pre_state .. k] is the node as it was when those operations completed (the new
   event of an insertion is written BEFORE its consensus passes and commits run, so everything the node
   delivered before the crash was delivered by those operations: it is an initial segment of
   [delivered (pre_state .. k)], theorem C11_delivered_before_is_prefix).

   Premise [wf]: event identifiers (hash ordinals) determine the events offered to the node, and are
   non-negative (SHA-256 collision freedom on the history; the premise of C07).
   What the DB form of an event loses (round, lamport timestamp, round-received: recomputed) and what it
   keeps but Bootstrap overwrites (topological index, coordinates) is stated in Model/Recovery.v.
   NOT covered: a node that fast-forwarded (Hashgraph.Reset restarts the topological counter: "WE CAN ONLY
   BOOTSTRAP FROM 0"), cache eviction (store cache larger than the history, as in HgImpl). *)
From Coq Require Import ZArith List Bool.
From V Require Import Model.ZMap Model.Quorum Model.HgImpl Model.Recovery
  Proofs.AdmissionProofs Proofs.BlockInv Proofs.HgSim Proofs.RecoveryProofs Proofs.RecoveryWitness.
Import ListNotations.
Open Scope Z_scope.

(* Bootstrap never fails on a database left by a crash: no topological gap, every replayed event is
   admitted again *)
Theorem C11_bootstrap_succeeds : forall self_ genesis oracle_ ops k, wf (op_events ops) ->
  br_ok (recovered self_ genesis oracle_ ops k) = true.
Proof. exact (recover_ok true). Qed.
Print Assumptions C11_bootstrap_succeeds.

(* the recovered DAG is exactly the written one: the event table (with the RECOMPUTED rounds, lamport
   timestamps, round-received, coordinates, topological indexes), the per-creator indexes and
   KnownEvents equal those of the node when the started operations completed; an event is known
   iff its record is in the crashed database, with the same body *)
Theorem C11_known_exact : forall self_ genesis oracle_ ops k, wf (op_events ops) ->
  let r := recovered self_ genesis oracle_ ops k in
  let pre := pre_state self_ genesis oracle_ ops k in
  let d := crash_db self_ genesis oracle_ ops k in
  events (br_st r) = events pre /\ pevents (br_st r) = pevents pre /\ known_events (br_st r) = known_events pre /\
  (forall x es, get_event (br_st r) x = Some es -> zget x (db_ev d) = Some (ev_e es)) /\
  (forall x e, zget x (db_ev d) = Some e -> exists es, get_event (br_st r) x = Some es /\ ev_e es = e).
Proof. exact (recover_known_exact true). Qed.
Print Assumptions C11_known_exact.

(* HEADLINE.  For every history and EVERY crash point, the blocks delivered to the reset application
   during bootstrap are exactly the blocks of the node when the operations that had started completed
   (same bodies, same indexes, same order; the last block index too), hence (next theorem) every block
   delivered before the crash reappears identically at the same position; ProcessSigPool never
   consults a block of the previous life *)
Theorem C11_redelivers : forall self_ genesis oracle_ ops k, wf (op_events ops) ->
  br_db_block (recovered self_ genesis oracle_ ops k) = false /\
  delivered (br_st (recovered self_ genesis oracle_ ops k)) = delivered (pre_state self_ genesis oracle_ ops k) /\
  last_block (br_st (recovered self_ genesis oracle_ ops k)) = last_block (pre_state self_ genesis oracle_ ops k).
Proof. exact recover_redelivers_cur. Qed.
Print Assumptions C11_redelivers.

(* every delivery list of the node's past is an initial segment of the later ones: what was delivered
   before the crash (during the first i <= j operations) reappears identically, at the same positions *)
Theorem C11_delivered_before_is_prefix : forall self_ genesis oracle_ ops i j, (i <= j)%nat ->
  exists l, delivered (nrun (init_hg self_ genesis oracle_) (firstn j ops)) =
            delivered (nrun (init_hg self_ genesis oracle_) (firstn i ops)) ++ l.
Proof. exact delivered_before_is_prefix. Qed.
Print Assumptions C11_delivered_before_is_prefix.

(* run over a prefix of the insertion order delivers a prefix of the blocks *)
Theorem C11_run_prefix_delivered : forall st l1 l2, binv st ->
  exists l, delivered (run st (l1 ++ l2)) = delivered (run st l1) ++ l.
Proof. exact run_prefix_delivered. Qed.
Print Assumptions C11_run_prefix_delivered.

(* setHeadAndSeq after bootstrap: the head is the node's own recorded event of greatest index and seq is
   that index, so the next self-event (index seq+1) sits at a height no recorded own event occupies;
   without own events head/seq are ""/-1.  Every own event another node can have seen was written
   before it could be gossiped (Store.SetEvent inside InsertEvent precedes the return of
   addSelfEvent): environment fact, checked by the harness at every crash point *)
Theorem C11_no_self_fork : forall self_ genesis oracle_ ops k, wf (op_events ops) ->
  let rec := br_st (recovered self_ genesis oracle_ ops k) in
  let evs := pre_events self_ genesis oracle_ ops k in
  (forall e, In e evs -> e_creator e = self rec -> e_index e <= snd (head_seq rec)) /\
  ((head_seq rec = (-1, -1) /\ forall e, In e evs -> e_creator e <> self rec) \/
   exists e, In e evs /\ e_creator e = self rec /\ head_seq rec = (e_id e, e_index e)).
Proof. exact (recover_head_seq true). Qed.
Print Assumptions C11_no_self_fork.

(* resuming: on ANY continuation (insertion attempts and ProcessSigPool calls) the recovered node keeps
   the admission invariant of C07 and the block-store invariant of C02, delivers exactly the blocks the
   node that never crashed delivers, and stays equal to it in every component but blocks' collected
   signatures, anchor block and pending signatures ([simr true]).  Agreement with the rest of the
   network is therefore inherited from the un-crashed node *)
Theorem C11_continues : forall all self_ genesis oracle_ ops k ops',
  wf all -> incl (op_events ops) all -> incl (op_events ops') all ->
  let rec := br_st (recovered self_ genesis oracle_ ops k) in
  let pre := pre_state self_ genesis oracle_ ops k in
  dag_ok (nrun rec ops') /\ binv (nrun rec ops') /\ simr true (nrun rec ops') (nrun pre ops') /\
  delivered (nrun rec ops') = delivered (nrun pre ops').
Proof. exact recover_continues_cur. Qed.
Print Assumptions C11_continues.

(* the writes of the real node that are not in [node_log] (rounds, frames, later peer sets, rewrites of
   an already written event record) do not change what Bootstrap computes *)
Theorem C11_bootstrap_ignores_other_writes : forall self_ genesis oracle_ d evs w,
  dbev_ok d evs -> invisible d w ->
  bootstrap_cur self_ genesis oracle_ (db_apply d w) = bootstrap_cur self_ genesis oracle_ d.
Proof. exact (bootstrap_ignores true). Qed.
Print Assumptions C11_bootstrap_ignores_other_writes.

(* the running node's ProcessSigPool (HgImpl.process_sig, no database) is unchanged by the test added in
   d90db55: no block is ever stored above the last block index *)
Theorem C11_guard_redundant_in_memory : forall st s, binv st ->
  process_sig st s = if last_block st <? bs_index s then st else process_sig st s.
Proof. exact process_sig_guard_redundant. Qed.
Print Assumptions C11_guard_redundant_in_memory.

(** Regression: ProcessSigPool before fix d90db55 *)

(* witness: 115 events of one validator, event 1 carries a signature of block 105; after a clean
   shutdown the replay reached the first ProcessSigPool (after 100 events) with blocks 0..96 re-created,
   found block 105 of the previous life in the DATABASE, stored it, and numbered the next blocks
   106, 107, ... .  On the real code: harness/cmd/crash -byz (scenario early-signature), which every run
   of the check stages and which must show identical re-delivery; reverting d90db55 makes it fail *)
Theorem C11_unguarded_bootstrap_redelivers_shifted : exists self_ genesis oracle_ ops k, wf (op_events ops) /\
  map b_index (delivered (br_st (recovered_unguarded self_ genesis oracle_ ops k))) <>
  map b_index (delivered (pre_state self_ genesis oracle_ ops k)).
Proof. exact (ex_intro _ 0 (ex_intro _ w_genesis (ex_intro _ w_oracle (ex_intro _ (w_ops 115) (ex_intro _ 1000%nat (conj (w_wf 115) w_unguarded_shifted)))))). Qed.
Print Assumptions C11_unguarded_bootstrap_redelivers_shifted.

(* the unguarded function failed exactly when it took a block from the database *)
Theorem C11_unguarded_bootstrap_exact_unless_db_block : forall self_ genesis oracle_ ops k, wf (op_events ops) ->
  br_db_block (recovered_unguarded self_ genesis oracle_ ops k) = false ->
  delivered (br_st (recovered_unguarded self_ genesis oracle_ ops k)) = delivered (pre_state self_ genesis oracle_ ops k).
Proof. exact (fun s g o ops k W E => proj1 (proj2 (recover_redelivers false s g o ops k W (or_intror E)))). Qed.
Print Assumptions C11_unguarded_bootstrap_exact_unless_db_block.

(* non-vacuity: the witness history crashed in the middle of its 52nd operation (150 log entries):
   premises hold, 49 blocks re-delivered, head/seq restored; and the regression history with the code as
   it stands: same indexes as before the shutdown, the early signature attached to the re-created block *)
Example C11_example :
  let r := recovered 0 w_genesis w_oracle (w_ops 115) 150 in
  ops_started 0 w_genesis w_oracle (w_ops 115) 150 = 52%nat /\
  br_ok r = true /\ br_db_block r = false /\
  length (delivered (br_st r)) = 49%nat /\
  map b_index (delivered (br_st r)) = map b_index (delivered (pre_state 0 w_genesis w_oracle (w_ops 115) 150)) /\
  head_seq (br_st r) = (51, 51) /\ known_events (br_st r) = [(0, 51)].
Proof. vm_compute. repeat split. Qed.

Example C11_example_regression_history :
  let r := recovered 0 w_genesis w_oracle (w_ops 115) 1000 in
  br_ok r = true /\ br_db_block r = false /\
  map b_index (skipn 95 (delivered (br_st r))) =
    [95; 96; 97; 98; 99; 100; 101; 102; 103; 104; 105; 106; 107; 108; 109; 110; 111] /\
  option_map b_sigs (zget 105 (blocks (br_st r))) = Some [(0, 105)].
Proof. vm_compute. repeat split. Qed.
