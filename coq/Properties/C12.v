(* C12 Fast-sync acceptance.  Statements only; every proof is `exact <term>`.

   Model: Model/FastSync.v (core.fastForward = CheckBlock; frame hash; Reset -- and
   Node.fastForward = getBestFastForwardResponse; proxy.Restore; core.fastForward).

   The property as stated ("adopted only if ... signatures of more than one third of DISTINCT
   members verify ...; a refused response leaves hashgraph, store, validator sets and application
   untouched") is FALSE of the unchanged code in three ways, each refuted below with a witness
   (Model/FastSyncWitness.v) that harness/cmd/ff replays on the real core / Node on every run:
     C12_accept_sound_refuted            one signer listed under several spellings of its key
     C12_reject_noop_refuted             the application is restored before anything is checked
     C12_reset_failure_not_noop_refuted  a response that passes the checks but whose Reset fails
   What does hold of the unchanged code is proved (C12_accept_checks, C12_reject_noop_core, ...),
   and the full property is proved for the repaired rule (ff_decide_fixed / node_ff_fixed:
   dedupe signers on the canonical key, count only signers the node knows, check before
   restore), to which the correspondence switches (FFMODE fixed) once the repair is applied. *)
From Coq Require Import ZArith List Bool Permutation.
From V Require Import Model.Quorum Model.FastSync Model.FastSyncWitness Proofs.FastSyncProofs.
Import ListNotations.
Open Scope Z_scope.

(** * The specification-side signer set is the intended one: the distinct members of the frame's
      validator set for which the block carries a verifying signature, each once *)
Theorem C12_signer_set_exact : forall ps sigs,
  NoDup (distinct_valid_signers ps sigs) /\
  forall v, In v (distinct_valid_signers ps sigs) <->
            member ps v = true /\ exists s, In s sigs /\ se_bytes s = v /\ se_verif s = 1.
Proof. exact (fun ps sigs => conj (distinct_valid_signers_NoDup ps sigs) (distinct_valid_signers_spec ps sigs)). Qed.
Print Assumptions C12_signer_set_exact.

(** * What holds of the unchanged code *)

(* an adopted response has passed: frame digest, peer-set digest, and more than TrustCount
   verifying map ENTRIES of members (hence 3 * entries > Len) -- entries, not signers *)
Theorem C12_accept_checks : forall b f,
  ff_decide b f = FFOk ->
  fb_frame_hash b = ff_hash f /\
  fb_peers_hash b = Some (peers_digest (ff_peers f)) /\
  fs_tc (ff_peers f) < valid_sigs (ff_peers f) (fb_sigs b) /\
  3 * valid_sigs (ff_peers f) (fb_sigs b) > fs_len (ff_peers f).
Proof. exact ff_accept_checks. Qed.
Print Assumptions C12_accept_checks.

(* the decision does not depend on the iteration order of the Go map block.Signatures *)
Theorem C12_decision_order_independent : forall i rr ph fh s s' f,
  Permutation s s' -> ff_decide (mkBlock i rr ph fh s) f = ff_decide (mkBlock i rr ph fh s') f.
Proof. exact ff_decide_perm. Qed.
Print Assumptions C12_decision_order_independent.

(* core level: a response refused by CheckBlock or by the frame-hash test (or on which CheckBlock
   panics) leaves hashgraph, store, validator sets, peer selector and pools exactly as they were *)
Theorem C12_reject_noop_core : forall st b f r st',
  core_ff st b f = (r, st') ->
  r = FFWrongPeerSet \/ r = FFNotEnoughSigs \/ r = FFBadFrameHash \/ r = FFPanicCheck ->
  st' = st.
Proof. exact core_ff_reject_noop. Qed.
Print Assumptions C12_reject_noop_core.

(* an adopted response installs exactly the state Reset derives from (block, frame), the frame's
   validator set as peers (peer selector) and the latest set of the frame's peer-set history as
   validators; nothing else of the core is written *)
Theorem C12_accept_state : forall st b f st',
  core_ff st b f = (FFOk, st') ->
  st' = mkCore (HgReset b f) (new_validators f) (ff_peers f) (cs_rest st).
Proof. exact core_ff_accept_state. Qed.
Print Assumptions C12_accept_state.

(* tampering with the frame: a block adopted with frame f is adopted with no frame that hashes
   differently (any change of round, timestamp, roots, events or their annotations, peer-set history,
   peer addresses ...) nor with a frame declaring another validator key list -- unchanged code and
   repaired rule alike.  (Tampering with the block BODY is a matter of signatures:
   C12_tamper_refused_fixed / C12_tamper_refused_refuted.) *)
Theorem C12_frame_tamper_refused : forall b f f',
  ff_hash f' <> ff_hash f \/ peers_digest (ff_peers f') <> peers_digest (ff_peers f) ->
  (ff_decide b f = FFOk -> ff_decide b f' <> FFOk) /\
  (forall known, ff_decide_fixed known b f = FFOk -> ff_decide_fixed known b f' <> FFOk).
Proof.
  exact (fun b f f' HD => conj (fun H => frame_tamper_refused b f f' H HD)
                               (fun known H => frame_tamper_refused_fixed known b f f' H HD)).
Qed.
Print Assumptions C12_frame_tamper_refused.

(* Node.fastForward only ever considers an answer it received, with a block index > 0 *)
Theorem C12_best_response_received : forall l x,
  best_response l = Some x -> In (Some x) l /\ 0 < fb_index (r_block x).
Proof. exact best_response_in. Qed.
Print Assumptions C12_best_response_received.

(** * Refutations of the full statements on the faithful model (each replayed on the real code) *)

(* full statement: adoption implies both digests match and MORE THAN ONE THIRD OF THE DISTINCT
   MEMBERS have a verifying signature (accept_sound_statement in Proofs/FastSyncProofs.v).
   Witness w_dup_block: validator 1 of 4 under three spellings; kind sigs.reencode-1-signer;
   oracle class duplicate-signer-counted *)
Theorem C12_accept_sound_refuted : ~ accept_sound_statement ff_decide.
Proof. exact accept_sound_refuted. Qed.
Print Assumptions C12_accept_sound_refuted.

Theorem C12_distinct_signers_refuted : exists b f,
  NoDup (map se_key (fb_sigs b)) /\ ff_decide b f = FFOk /\
  distinct_valid_signers (ff_peers f) (fb_sigs b) = [1] /\ fs_len (ff_peers f) = 4.
Proof. exact distinct_signers_refuted. Qed.
Print Assumptions C12_distinct_signers_refuted.

(* full statement: a refused response leaves core, application and node state untouched
   (reject_noop_statement).  Witness w_tampered as the only answer: refused with "not enough
   valid signatures" AFTER proxy.Restore(snapshot 7); oracle class restored-before-check *)
Theorem C12_reject_noop_refuted : ~ reject_noop_statement node_ff.
Proof. exact reject_noop_refuted. Qed.
Print Assumptions C12_reject_noop_refuted.

Theorem C12_restore_before_check_refuted : exists ns l ns',
  node_ff ns l = (Some FFNotEnoughSigs, ns') /\ ns_core ns' = ns_core ns /\ ns_app ns' <> ns_app ns.
Proof. exact restore_before_check_refuted. Qed.
Print Assumptions C12_restore_before_check_refuted.

(* a response that passes both checks (self-made set {4}, self-signed) but whose Reset fails after
   the state was cleared: refused, and the core is NOT as it was.  kind
   forged.set*.events-keep.peersets-forged; oracle class reject-not-noop *)
Theorem C12_reset_failure_not_noop_refuted : exists st b f st',
  core_ff st b f = (FFResetError, st') /\ st' <> st.
Proof. exact reset_failure_not_noop_refuted. Qed.
Print Assumptions C12_reset_failure_not_noop_refuted.

(* tampering (tamper_refused_statement): if every entry that verifies on this body was made with
   an adversary key and the adversary owns at most a third of the declared set, the response is
   refused -- false of the code: the adversary owns key 1 only (1 of 4 members) *)
Theorem C12_tamper_refused_refuted : ~ tamper_refused_statement ff_decide.
Proof. exact tamper_refused_refuted. Qed.
Print Assumptions C12_tamper_refused_refuted.

(** * The repaired rule *)

Theorem C12_accept_sound_fixed : forall known, accept_sound_statement (ff_decide_fixed known).
Proof. exact accept_fixed_sound_statement. Qed.
Print Assumptions C12_accept_sound_fixed.

(* the same, for the boolean decision [accept_fixed] *)
Theorem C12_accept_sound : forall known b f,
  accept_fixed known b f = true ->
  fb_frame_hash b = ff_hash f /\
  fb_peers_hash b = Some (peers_digest (ff_peers f)) /\
  3 * Z.of_nat (length (distinct_valid_signers (ff_peers f) (fb_sigs b))) > fs_len (ff_peers f).
Proof. exact accept_fixed_sound_bool. Qed.
Print Assumptions C12_accept_sound.

(* whatever field of the block body was changed, signatures honest validators made over the
   original body do not verify; for a tampered frame or validator set the digests differ
   (C12_accept_sound_fixed) *)
Theorem C12_tamper_refused_fixed : forall known, tamper_refused_statement (ff_decide_fixed known).
Proof. exact tamper_refused_fixed_statement. Qed.
Print Assumptions C12_tamper_refused_fixed.

(* repaired Node.fastForward: a response refused by the checks leaves core, application and node
   state untouched ... *)
Theorem C12_reject_noop_node_fixed : forall known ns l r ns',
  node_ff_fixed known ns l = (Some r, ns') ->
  r = FFWrongPeerSet \/ r = FFNotEnoughSigs \/ r = FFBadFrameHash \/ r = FFPanicCheck ->
  ns' = ns.
Proof. exact node_ff_fixed_reject_noop. Qed.
Print Assumptions C12_reject_noop_node_fixed.

(* ... and the application is only ever restored from a response that passed every check *)
Theorem C12_restore_only_checked_fixed : forall known ns l r ns',
  node_ff_fixed known ns l = (r, ns') -> ns_app ns' <> ns_app ns ->
  exists x, best_response l = Some x /\ check_ff_fixed known (r_block x) (r_frame x) = FFOk /\
            ns_app ns' = r_snapshot x :: ns_app ns.
Proof. exact node_ff_fixed_restore_checked. Qed.
Print Assumptions C12_restore_only_checked_fixed.

(* the repair only removes acceptances (on responses on which the unchanged code does not panic) *)
Theorem C12_fixed_stricter : forall known b f,
  existsb se_short (fb_sigs b) = false ->
  existsb (verify_panics (ff_peers f)) (fb_sigs b) = false ->
  ff_decide_fixed known b f = FFOk -> ff_decide b f = FFOk.
Proof. exact fixed_implies_current. Qed.
Print Assumptions C12_fixed_stricter.

(* The three repairs are separate commits.  The correspondence runs the switchable rule
   (check_block_gen ... with one switch per repair) so that it stays exact on a partially repaired
   tree; at its end points it IS the unchanged rule resp. the repaired rule of the theorems above,
   and whatever the switches a response refused by the checks leaves the core untouched. *)
Theorem C12_rule_switches_exact : forall known,
  (forall st b f, core_ff_gen rule_current known st b f = core_ff st b f) /\
  (forall ns l, node_ff_gen rule_current known ns l = node_ff ns l) /\
  (forall st b f, core_ff_gen rule_fixed known st b f = core_ff_fixed known st b f) /\
  (forall ns l, node_ff_gen rule_fixed known ns l = node_ff_fixed known ns l).
Proof.
  exact (fun known => conj (gen_current_core known) (conj (gen_current_node known)
           (conj (gen_fixed_core known) (gen_fixed_node known)))).
Qed.
Print Assumptions C12_rule_switches_exact.

Theorem C12_reject_noop_core_any_rule : forall rl known st b f r st',
  core_ff_gen rl known st b f = (r, st') ->
  r = FFWrongPeerSet \/ r = FFNotEnoughSigs \/ r = FFBadFrameHash \/ r = FFPanicCheck ->
  st' = st.
Proof. exact core_ff_gen_reject_noop. Qed.
Print Assumptions C12_reject_noop_core_any_rule.

(** * Non-vacuity: an honest response (3 of 4 distinct known validators sign) is adopted by both
      rules; the repaired rule refuses the respelled-signer response and does not restore the
      application for a refused answer *)
Example C12_example :
  ff_decide w_good_block w_frame4 = FFOk /\
  ff_decide_fixed w_known w_good_block w_frame4 = FFOk /\
  distinct_valid_signers w_set4 (fb_sigs w_good_block) = [3; 1; 2] /\
  ff_decide_fixed w_known w_dup_block w_frame4 = FFNotEnoughSigs /\
  node_ff_fixed w_known w_ns0 [None; Some w_tampered; None; None] = (Some FFNotEnoughSigs, w_ns0) /\
  ns_app (snd (node_ff_fixed w_known w_ns0 [None; Some (mkResp w_good_block w_frame4 9)])) = [9].
Proof. vm_compute. repeat split; reflexivity. Qed.
