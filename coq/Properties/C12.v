(* C12 Fast-sync acceptance.  Statements only; every proof is `exact <term>`.

   Model: Model/FastSync.v.  The tree now implements the REPAIRED rule (/repo a556752 CheckBlock counts a
   validator once; 52c591c Node.fastForward checks before proxy.Restore; a41e4c4 only signers the node
   already knows are counted): [ff_decide_fixed], [core_ff_fixed], [node_ff_fixed] with [known] = the
   keys of c.peers, c.genesisPeers, c.validators and the store's peer sets.  The headline theorems
   (part 1) are about that rule, and the correspondence (bin/props/ffcommon.py) REQUIRES the tree to
   implement it.

   Part 2 keeps, as REGRESSION WITNESSES, the refutations of the rule the code had before those
   commits ([ff_decide], [core_ff], [node_ff]): each documents why one repair matters, is replayed
   by harness/cmd/ff on every run, and is what the check reports again if the repair is lost.

   Part 3: what is still FALSE of the repaired tree (finding F4, open): a response that passes every
   check but whose frame Hashgraph.Reset cannot insert leaves the node emptied. *)
From Coq Require Import ZArith List Bool Permutation.
From V Require Import Model.Quorum Model.FastSync Model.FastSyncWitness Proofs.FastSyncProofs.
Import ListNotations.
Open Scope Z_scope.

(** * 1. The rule the tree implements *)

(* the specification-side signer set: the distinct members of the frame's validator set for which
   the block carries a verifying signature, each once *)
Theorem C12_signer_set_exact : forall ps sigs,
  NoDup (distinct_valid_signers ps sigs) /\
  forall v, In v (distinct_valid_signers ps sigs) <->
            member ps v = true /\ exists s, In s sigs /\ se_bytes s = v /\ se_verif s = 1.
Proof. exact (fun ps sigs => conj (distinct_valid_signers_NoDup ps sigs) (distinct_valid_signers_spec ps sigs)). Qed.
Print Assumptions C12_signer_set_exact.

(* THE PROPERTY: a response is adopted only if the frame hashes to the block's frame hash, the frame's
   validator set hashes to the block's peer-set hash, and more than one third of the DISTINCT members
   of that set have a verifying signature (accept_sound_statement, Proofs/FastSyncProofs.v) *)
Theorem C12_accept_sound : forall known, accept_sound_statement (ff_decide_fixed known).
Proof. exact accept_fixed_sound_statement. Qed.
Print Assumptions C12_accept_sound.

(* the same for the boolean decision [accept_fixed], spelled out *)
Theorem C12_accept_sound_bool : forall known b f,
  accept_fixed known b f = true ->
  fb_frame_hash b = ff_hash f /\
  fb_peers_hash b = Some (peers_digest (ff_peers f)) /\
  3 * Z.of_nat (length (distinct_valid_signers (ff_peers f) (fb_sigs b))) > fs_len (ff_peers f).
Proof. exact accept_fixed_sound_bool. Qed.
Print Assumptions C12_accept_sound_bool.

(* tampering with the block BODY: signatures honest validators made over the original body do not
   verify on another body; if every entry that does verify was made with an adversary key and the
   adversary owns at most a third of the declared set, the response is refused *)
Theorem C12_tamper_refused : forall known, tamper_refused_statement (ff_decide_fixed known).
Proof. exact tamper_refused_fixed_statement. Qed.
Print Assumptions C12_tamper_refused.

(* tampering with the FRAME: a block adopted with frame f is adopted with no frame that hashes
   differently (round, timestamp, roots, events and their annotations, peer-set history, peer
   addresses ...) nor with a frame declaring another validator key list *)
Theorem C12_frame_tamper_refused : forall known b f f',
  ff_hash f' <> ff_hash f \/ peers_digest (ff_peers f') <> peers_digest (ff_peers f) ->
  ff_decide_fixed known b f = FFOk -> ff_decide_fixed known b f' <> FFOk.
Proof. exact (fun known b f f' HD H => frame_tamper_refused_fixed known b f f' H HD). Qed.
Print Assumptions C12_frame_tamper_refused.

(* re-spelled or repeated entries change nothing: the decision only depends on the signature map as
   a multiset (Go iterates it in random order) *)
Theorem C12_decision_order_independent : forall known i rr ph fh s s' f,
  Permutation s s' ->
  ff_decide_fixed known (mkBlock i rr ph fh s) f = ff_decide_fixed known (mkBlock i rr ph fh s') f.
Proof. exact ff_decide_fixed_perm. Qed.
Print Assumptions C12_decision_order_independent.

(* core level: a response refused by CheckBlock or by the frame-hash test (or on which CheckBlock
   panics) leaves hashgraph, store, validator sets, peer selector and pools exactly as they were *)
Theorem C12_reject_noop_core : forall known st b f r st',
  core_ff_fixed known st b f = (r, st') ->
  r = FFWrongPeerSet \/ r = FFNotEnoughSigs \/ r = FFBadFrameHash \/ r = FFPanicCheck ->
  st' = st.
Proof. exact core_ff_fixed_reject_noop. Qed.
Print Assumptions C12_reject_noop_core.

(* node level: ... and the application and the node state as well *)
Theorem C12_reject_noop_node : forall known ns l r ns',
  node_ff_fixed known ns l = (Some r, ns') ->
  r = FFWrongPeerSet \/ r = FFNotEnoughSigs \/ r = FFBadFrameHash \/ r = FFPanicCheck ->
  ns' = ns.
Proof. exact node_ff_fixed_reject_noop. Qed.
Print Assumptions C12_reject_noop_node.

(* the application is only ever restored from the chosen response, after it passed every check *)
Theorem C12_restore_only_checked : forall known ns l r ns',
  node_ff_fixed known ns l = (r, ns') -> ns_app ns' <> ns_app ns ->
  exists x, best_response l = Some x /\ check_ff_fixed known (r_block x) (r_frame x) = FFOk /\
            ns_app ns' = r_snapshot x :: ns_app ns.
Proof. exact node_ff_fixed_restore_checked. Qed.
Print Assumptions C12_restore_only_checked.

(* an adopted response installs exactly the state Reset derives from (block, frame), the frame's
   validator set as peers (peer selector) and the latest set of the frame's peer-set history as
   validators (/repo 3b6a6ac); nothing else of the core is written *)
Theorem C12_accept_state : forall known st b f st',
  core_ff_fixed known st b f = (FFOk, st') ->
  st' = mkCore (HgReset b f) (new_validators f) (ff_peers f) (cs_rest st).
Proof. exact core_ff_fixed_accept_state. Qed.
Print Assumptions C12_accept_state.

(* Node.fastForward only ever considers an answer it received, with a block index > 0 *)
Theorem C12_best_response_received : forall l x,
  best_response l = Some x -> In (Some x) l /\ 0 < fb_index (r_block x).
Proof. exact best_response_in. Qed.
Print Assumptions C12_best_response_received.

(* the rule run by the correspondence (one switch per repair) IS the repaired rule when all switches
   are on and the pre-repair rule when all are off; with any combination of switches a response
   refused by the checks leaves the core untouched *)
Theorem C12_rule_switches_exact : forall known,
  (forall st b f, core_ff_gen rule_fixed known st b f = core_ff_fixed known st b f) /\
  (forall ns l, node_ff_gen rule_fixed known ns l = node_ff_fixed known ns l) /\
  (forall st b f, core_ff_gen rule_current known st b f = core_ff st b f) /\
  (forall ns l, node_ff_gen rule_current known ns l = node_ff ns l).
Proof.
  exact (fun known => conj (gen_fixed_core known) (conj (gen_fixed_node known)
           (conj (gen_current_core known) (gen_current_node known)))).
Qed.
Print Assumptions C12_rule_switches_exact.

Theorem C12_reject_noop_core_any_rule : forall rl known st b f r st',
  core_ff_gen rl known st b f = (r, st') ->
  r = FFWrongPeerSet \/ r = FFNotEnoughSigs \/ r = FFBadFrameHash \/ r = FFPanicCheck ->
  st' = st.
Proof. exact core_ff_gen_reject_noop. Qed.
Print Assumptions C12_reject_noop_core_any_rule.

(* SEQUENCES of interactions on one node.  Node.fastForward is retried while the node is CatchingUp;
   nothing of the decision is carried from one call to the next.  After any prefix of calls whose
   outcomes are "quiet" - the response was refused by the checks, or it passed them and
   proxy.Restore then failed, so that nothing was applied - the node, its application and the sets it
   knows are exactly as they were, and the next call answers exactly as it would on the untouched
   node.  (A tree that remembers "this block was already checked" and then skips the frame-hash test
   for a replayed block with another frame - seeded/C12 - breaks this: harness NS lines.) *)
Theorem C12_decision_independent_of_history : forall genesis known ns prefix s rs nsf kf,
  node_seq genesis known ns prefix = (rs, nsf, kf) ->
  Forall quiet rs ->
  (nsf = ns /\ kf = known) /\
  fst (fst (node_seq genesis known ns (prefix ++ [s]))) =
    rs ++ [fst (node_step known ns (st_answers s) (st_restore_ok s))] /\
  snd (fst (node_seq genesis known ns (prefix ++ [s]))) =
    snd (node_step known ns (st_answers s) (st_restore_ok s)).
Proof.
  exact (fun genesis known ns prefix s rs nsf kf H HQ =>
    conj (match node_seq_quiet_prefix genesis known ns prefix [s] rs nsf kf H HQ with
          | conj a (conj b _) => conj a b end)
         (node_decision_independent_of_history genesis known ns prefix s rs nsf kf H HQ)).
Qed.
Print Assumptions C12_decision_independent_of_history.

(* one call with a succeeding Restore is Node.fastForward of the theorems above *)
Theorem C12_node_step_is_fast_forward : forall known ns l,
  node_step known ns l true =
    match node_ff_fixed known ns l with
    | (Some r, ns') => (NRes r, ns')
    | (None, ns') => (NNone, ns')
    end.
Proof. exact node_step_is_node_ff_fixed. Qed.
Print Assumptions C12_node_step_is_fast_forward.

(* core level: the decisions of a sequence of core.fastForward calls, and the known sets at its
   end, are a function of the responses and of the initially known sets alone - whatever the core's
   state; the known sets change by ADOPTIONS only, to
   known_after genesis f = [frame.Peers; genesis peers; latest set of frame.PeerSets] ++ frame.PeerSets
   (c.peers, c.genesisPeers - never written -, c.validators, the store's table after Store.Reset) *)
Theorem C12_core_decisions_independent_of_state : forall genesis known st1 st2 l,
  fst (fst (core_seq genesis known st1 l)) = fst (fst (core_seq genesis known st2 l)) /\
  snd (core_seq genesis known st1 l) = snd (core_seq genesis known st2 l).
Proof. exact core_seq_state_blind. Qed.
Print Assumptions C12_core_decisions_independent_of_state.

Theorem C12_known_sets_evolution : forall genesis f v,
  (mem_key v genesis = true -> in_known (known_after genesis f) v = true) /\
  (mem_key v (peers_digest (ff_peers f)) = true -> in_known (known_after genesis f) v = true).
Proof. exact (fun genesis f v => conj (known_after_genesis genesis f v) (known_after_peers genesis f v)). Qed.
Print Assumptions C12_known_sets_evolution.

(** * 2. Regression witnesses: the rule before a556752 / 52c591c / a41e4c4 *)

(* what that rule did guarantee: digests, and more than TrustCount verifying map ENTRIES *)
Theorem C12_old_rule_accept_checks : forall b f,
  ff_decide b f = FFOk ->
  fb_frame_hash b = ff_hash f /\
  fb_peers_hash b = Some (peers_digest (ff_peers f)) /\
  fs_tc (ff_peers f) < valid_sigs (ff_peers f) (fb_sigs b) /\
  3 * valid_sigs (ff_peers f) (fb_sigs b) > fs_len (ff_peers f).
Proof. exact ff_accept_checks. Qed.
Print Assumptions C12_old_rule_accept_checks.

(* before a556752: one validator listed under several spellings of its key ("0X<UPPER>",
   "0x<lower>", "zz<lower>") is counted once per spelling.  Witness w_dup_block: validator 1 of 4,
   three entries > TrustCount = 2.  harness kind sigs.reencode-1-signer; oracle class
   duplicate-signer-counted *)
Theorem C12_old_rule_counts_spellings : ~ accept_sound_statement ff_decide.
Proof. exact accept_sound_refuted. Qed.
Print Assumptions C12_old_rule_counts_spellings.

Theorem C12_old_rule_counts_spellings_witness : exists b f,
  NoDup (map se_key (fb_sigs b)) /\ ff_decide b f = FFOk /\
  distinct_valid_signers (ff_peers f) (fb_sigs b) = [1] /\ fs_len (ff_peers f) = 4 /\
  ff_decide_fixed w_known b f = FFNotEnoughSigs.
Proof.
  exact (ex_intro _ w_dup_block (ex_intro _ w_frame4
    (match distinct_signers_refuted_witness with conj a (conj b (conj c d)) => conj a (conj b (conj c (conj d eq_refl))) end))).
Qed.
Print Assumptions C12_old_rule_counts_spellings_witness.

(* ... so an adversary owning ONE key of four got a tampered body adopted *)
Theorem C12_old_rule_tamper_adopted : ~ tamper_refused_statement ff_decide.
Proof. exact tamper_refused_refuted. Qed.
Print Assumptions C12_old_rule_tamper_adopted.

(* before 52c591c: Node.fastForward called proxy.Restore before core.fastForward checked anything.
   Witness w_tampered as the only answer: refused with "not enough valid signatures" AFTER
   Restore(snapshot 7).  harness NF lines; oracle class restored-before-check *)
Theorem C12_old_rule_restores_before_check : exists ns l ns',
  node_ff ns l = (Some FFNotEnoughSigs, ns') /\ ns_core ns' = ns_core ns /\ ns_app ns' <> ns_app ns.
Proof. exact restore_before_check_refuted. Qed.
Print Assumptions C12_old_rule_restores_before_check.

Theorem C12_old_rule_reject_not_noop : ~ reject_noop_statement node_ff.
Proof. exact reject_noop_refuted. Qed.
Print Assumptions C12_old_rule_reject_not_noop.

(* the repairs only remove acceptances (on responses on which the old code did not panic) *)
Theorem C12_fixed_stricter : forall known b f,
  existsb se_short (fb_sigs b) = false ->
  existsb (verify_panics (ff_peers f)) (fb_sigs b) = false ->
  ff_decide_fixed known b f = FFOk -> ff_decide b f = FFOk.
Proof. exact fixed_implies_current. Qed.
Print Assumptions C12_fixed_stricter.

(** * 3. Still false of the repaired tree (finding F4, open) *)

(* "a refused response leaves the node untouched" (reject_noop_statement) fails for the class
   FFResetError: validators 1, 2, 3 - known to the node, more than a third - sign a frame that
   Hashgraph.Reset cannot insert (witness w_byz): every check passes, the application is restored,
   Reset clears hashgraph and store and then fails.  harness kinds byzantine.quorum-signs.*; oracle
   classes reject-not-noop / restored-then-reset-failed.  Not reachable by strangers any more
   (C14_no_strangers), nor with at most a third of Byzantine validators (C12_tamper_refused). *)
Theorem C12_reset_failure_not_noop : ~ reject_noop_statement (node_ff_fixed w_known).
Proof. exact reject_noop_fixed_refuted. Qed.
Print Assumptions C12_reset_failure_not_noop.

Theorem C12_reset_failure_not_noop_core : exists st b f st',
  core_ff st b f = (FFResetError, st') /\ st' <> st.
Proof. exact reset_failure_not_noop_refuted. Qed.
Print Assumptions C12_reset_failure_not_noop_core.

(** * Non-vacuity: an honest response (3 of 4 distinct known validators sign) is adopted; the
      respelled-signer response and the tampered one are refused, the latter without restoring the
      application; a checked response is restored from *)
Example C12_example :
  ff_decide_fixed w_known w_good_block w_frame4 = FFOk /\
  distinct_valid_signers w_set4 (fb_sigs w_good_block) = [3; 1; 2] /\
  ff_decide_fixed w_known w_dup_block w_frame4 = FFNotEnoughSigs /\
  node_ff_fixed w_known w_ns0 [None; Some w_tampered; None; None] = (Some FFNotEnoughSigs, w_ns0) /\
  ns_app (snd (node_ff_fixed w_known w_ns0 [None; Some (mkResp w_good_block w_frame4 9)])) = [9].
Proof. vm_compute. repeat split; reflexivity. Qed.

(* a two-step sequence: the honest response passes the checks but Restore fails (nothing applied); the
   same block with a frame that hashes differently is then refused, node untouched; the honest
   response again, Restore working, is adopted *)
Example C12_sequence_example :
  node_seq [0; 1; 2; 3] w_known w_ns0
    [mkStep [None; Some (mkResp w_good_block w_frame4 9)] false;
     mkStep [None; Some (mkResp w_good_block (mkFrame w_set4 77 1 [(0, w_set4)]) 9)] true;
     mkStep [None; Some (mkResp w_good_block w_frame4 9)] true]
  = ([NRestoreFailed; NRes FFBadFrameHash; NRes FFOk],
     mkNode (mkCore (HgReset w_good_block w_frame4) w_set4 w_set4 0) [9] true,
     known_after [0; 1; 2; 3] w_frame4).
Proof. vm_compute. reflexivity. Qed.
