(* C13 Fast-sync continuity.  Statements only.

   Model: Model/HgReset.v (Hashgraph.Reset, InmemStore.Reset, InsertFrameEvent, Frame.SortedFrameEvents,
   core.fastForward after a successful checkFastForward, node.fastForward's receipts) on top of
   Model/HgImpl.v.  A transported frame = model [frame] + the bodies [cores] of the events it mentions
   (event identifiers stand for hashes, so a FrameEvent's Core is a function of its id).

   What is here:
   - frames on full-history nodes: computed once, carried by the block (kept from the first version);
   - C13_reset_state / C13_reset_dag / C13_reset_validators: the state a fast-forward leaves behind,
     for EVERY victim state, block, frame whose event ids are distinct and non-negative and whose
     peer-set table is sorted (what an honest GetFrame produces; see frame_shape);
   - C13_continuity_round_partial (+ witness flag, Lamport timestamp): an event inserted after the
     reset gets the same round on the reset node as on a full-history node PROVIDED roots_sufficient
     (the two nodes agree on what round() reads: the parent round's witnesses that the event strongly
     sees are known to the reset node, and the coordinate comparisons give the same answers);
   - C13_roots_insufficient_refuted: the unconditional statement is FALSE of the faithful model, as it
     is of the code (known finding C13-roots-insufficient): concrete history found and minimised on the
     real node.core objects (harness/cmd/resetwit), replayed here by vm_compute; the same witness shows
     that it is exactly roots_sufficient that fails.
   - C13_continuity_statement: the full block-level statement, as a Definition (asserted nowhere; it is
     false without roots_sufficient by the refutation, and its proof under roots_sufficient needs the
     order invariants re-established from a reset state: not done). *)
From Coq Require Import ZArith List Bool Sorted Permutation.
From V Require Import Model.ZMap Model.Quorum Model.HgImpl Model.HgReset Model.PeerSetSpec
  Proofs.ZMapFacts Proofs.AdmissionProofs Proofs.BlockInv Proofs.OrderProofs
  Proofs.PeerSetProofs Proofs.ResetProofs Proofs.ResetServer Proofs.ResetMemo Proofs.ResetRound Proofs.ResetWitness Proofs.ResetRefute Proofs.ResetWitnessOk Proofs.ResetExample Proofs.Static Proofs.ResetAfter Proofs.ResetOrder Proofs.ResetDag Proofs.ResetShape Proofs.ResetWitnessDeliv Proofs.ResetExampleDeliv.
Import ListNotations.
Open Scope Z_scope.

(** * Frames on full-history nodes *)

(* GetFrame returns the stored frame when there is one: a frame is never recomputed *)
Theorem C13_frame_computed_once : forall st rr f,
  zget rr (frames st) = Some f -> get_frame st rr = (Some f, st).
Proof. exact (fun st rr f H => ltac:(unfold get_frame; rewrite H; reflexivity)). Qed.
Print Assumptions C13_frame_computed_once.

(* a block built from a frame carries that frame (FrameHash), its round and its validator set (PeersHash) *)
Theorem C13_block_carries_frame : forall i f st,
  b_frame (block_of_frame i f st) = f /\ b_rr (block_of_frame i f st) = f_round f /\
  b_peers (block_of_frame i f st) = f_peers f /\ b_ts (block_of_frame i f st) = f_ts f.
Proof. exact (fun i f st => conj eq_refl (conj eq_refl (conj eq_refl eq_refl))). Qed.
Print Assumptions C13_block_carries_frame.

(** * The state after core.fastForward(block, frame) *)

(* block store = the anchor block alone, frame cache = the frame alone, peer-set table = the frame's
   table, validators = the latest recorded set of that table, lower bound = last consensus round =
   the block's round-received, no undetermined events, no pending rounds, no anchor; signature
   pool, own signatures, delivered blocks untouched *)
Theorem C13_reset_state : forall v b f cores v1,
  frame_shape f -> core_fast_forward v b f cores = (true, v1) ->
  blocks v1 = zset (b_index b) b zempty /\ last_block v1 = Z.max (b_index b) (-1) /\
  frames v1 = zset (f_round f) f zempty /\
  peersets v1 = f_peersets f /\ validators v1 = ff_validators f /\
  lower_bound v1 = Some (b_rr b) /\ last_consensus v1 = Some (b_rr b) /\
  undetermined v1 = [] /\ pending v1 = [] /\ anchor v1 = None /\ pending_loaded v1 = 0 /\
  sigpool v1 = sigpool v /\ self_sigs v1 = self_sigs v /\ delivered v1 = delivered v /\ self v1 = self v.
Proof.
  exact (fun v b f cores v1 FS H =>
    let P := reset_hg_post v b f cores v1 FS H in
    conj (rp_blocks _ _ _ _ _ P) (conj (rp_last_block _ _ _ _ _ P) (conj (rp_frames _ _ _ _ _ P)
    (conj (rp_table _ _ _ _ _ P) (conj (rp_validators _ _ _ _ _ P) (conj (rp_lb _ _ _ _ _ P)
    (conj (rp_lc _ _ _ _ _ P) (conj (rp_und _ _ _ _ _ P) (conj (rp_pending _ _ _ _ _ P)
    (conj (rp_anchor _ _ _ _ _ P) (conj (rp_pl _ _ _ _ _ P) (conj (rp_sigpool _ _ _ _ _ P)
    (conj (rp_self_sigs _ _ _ _ _ P) (conj (rp_delivered _ _ _ _ _ P) (rp_self _ _ _ _ _ P))))))))))))))).
Qed.
Print Assumptions C13_reset_state.

(* the DAG of the reset node = the root events and the frame events, each with the body shipped in
   the frame, its recorded round / Lamport timestamp / witness flag in the event, in the memo
   tables and in the round table, no round-received, fame undecided, nothing received; nothing else
   is stored or memoised (except stale Lamport memo entries, which Reset keeps) *)
Theorem C13_reset_dag : forall v b f cores v1,
  frame_shape f -> core_fast_forward v b f cores = (true, v1) -> reset_dag f cores v v1.
Proof. exact (fun v b f cores v1 FS H => reset_post_dag v b f cores v1 (reset_hg_post v b f cores v1 FS H)). Qed.
Print Assumptions C13_reset_dag.

(* node.fastForward then applies the anchor block's receipts: table and validators are what
   core.commit computes on a full-history node from the same table (C10's replay_step) *)
Theorem C13_reset_validators : forall v b f cores v',
  frame_shape f -> node_fast_forward v b f cores = (true, v') ->
  (peersets v', validators v') = replay_step (f_peersets f, ff_validators f) (b_rr b) (b_itxs b).
Proof. exact node_fast_forward_table. Qed.
Print Assumptions C13_reset_validators.

(* InmemStore.Reset ranges over the Go map Frame.PeerSets, i.e. calls SetPeerSet in an arbitrary
   order: whatever permutation of the frame's entries is used, the recorded table is the frame's
   (sorted) table and every lookup -- for EVERY round, not only the rounds that are keys -- is the
   lookup in that table (PeerSetCache keeps its rounds sorted on every insertion) *)
Theorem C13_reset_table_order_independent : forall st f l s,
  Permutation.Permutation l (f_peersets f) -> StronglySorted Z.lt (map fst (f_peersets f)) ->
  set_peersets (store_clear st) l = (true, s) ->
  peersets s = f_peersets f /\ forall r, get_peerset s r = ps_table_get r (f_peersets f).
Proof. exact reset_table_any_order. Qed.
Print Assumptions C13_reset_table_order_independent.

(* after the fast-forward, for every round: the validator set the reset node uses is the one the
   frame's table gives *)
Theorem C13_reset_lookup : forall v b f cores v1 r,
  frame_shape f -> core_fast_forward v b f cores = (true, v1) ->
  get_peerset v1 r = ps_table_get r (f_peersets f).
Proof.
  exact (fun v b f cores v1 r FS H =>
    eq_ind_r (fun t => ps_table_get r t = ps_table_get r (f_peersets f)) eq_refl
             (rp_table _ _ _ _ _ (reset_hg_post v b f cores v1 FS H))).
Qed.
Print Assumptions C13_reset_lookup.

(** * The serving side: what an honest peer answers, for every reachable state *)

(* GetAnchorBlockWithFrame on any state a full-history node can reach (any schedule of insertion
   attempts of validly identified events and ProcessSigPool calls): the state is not changed, the
   block is the stored copy of a DELIVERED block (same body, at least its signatures), the frame is
   the one that block was built from, the event bodies are the server's stored events *)
Theorem C13_anchor_answer : forall all ss g os ops b f cores s',
  ids_determine all -> Forall (hop_ok all) ops -> ss <> -1 ->
  anchor_block_with_frame (hrun (init_hg ss g os) ops) = (Some (b, f, cores), s') ->
  s' = hrun (init_hg ss g os) ops /\ f = b_frame b /\ cores = frame_cores (hrun (init_hg ss g os) ops) f /\
  exists k d, nth_error (delivered (hrun (init_hg ss g os) ops)) k = Some d /\
              zget (Z.of_nat k) (blocks (hrun (init_hg ss g os) ops)) = Some b /\ body b = body d /\ sigs_incl d b.
Proof. exact anchor_answer. Qed.
Print Assumptions C13_anchor_answer.

(* the frame of every delivered block records the validator-set table that C10's replay gives for
   the blocks delivered BEFORE it *)
Theorem C13_frame_table_is_replay : forall g ss os ops ds1 d ds2,
  ss <> -1 -> delivered (hrun (init_hg ss g os) ops) = ds1 ++ d :: ds2 ->
  f_peersets (b_frame d) = fst (replay_genesis g ds1).
Proof. exact (fun g ss os ops ds1 d ds2 Hs H => si_dtab g _ (hrun_sinv g ss os ops Hs) ds1 d ds2 H). Qed.
Print Assumptions C13_frame_table_is_replay.

(* ... hence: a node (in ANY state v) that fast-forwards from the k-th delivered block of a
   full-history node and its frame ends with exactly the table and the core.validators that C10
   specifies for a node that delivered blocks 0..k: the reset node uses the validator sets a
   full-history node uses, pending changes inside the six-round window included *)
Theorem C13_reset_validators_replay : forall g ss os ops k d b v cores v',
  ss <> -1 ->
  nth_error (delivered (hrun (init_hg ss g os) ops)) k = Some d ->
  zget (Z.of_nat k) (blocks (hrun (init_hg ss g os) ops)) = Some b ->
  frame_shape (b_frame b) ->
  node_fast_forward v b (b_frame b) cores = (true, v') ->
  (peersets v', validators v') = replay_genesis g (firstn (S k) (delivered (hrun (init_hg ss g os) ops))).
Proof. exact reset_table_is_replay. Qed.
Print Assumptions C13_reset_validators_replay.

(* in every reachable state, every event of every cached frame -- root events included -- carries the
   serving node's memoised round and Lamport timestamp, and the witness flag of its entry in the
   RoundInfo of that round (memo entries are never overwritten, witness flags never change) *)
Theorem C13_frame_values_are_memo : forall all ss g os ops rr f,
  ids_determine all -> Forall (hop_ok all) ops ->
  zget rr (frames (hrun (init_hg ss g os) ops)) = Some f ->
  Forall (frame_event_ok (hrun (init_hg ss g os) ops)) (all_frame_events f).
Proof. exact (fun all ss g os ops rr f ID Ho H => proj1 (hrun_fmemo all ss g os ops ID Ho rr f H)). Qed.
Print Assumptions C13_frame_values_are_memo.

(* which past is shipped: every root of every cached frame holds at most ROOT_DEPTH + 1 = 11 events
   with consecutive indexes (the head and its self-ancestors), all but possibly the head by the
   root's participant; together with C13_reset_dag: the reset DAG is closed under nothing deeper *)
Theorem C13_root_depth : forall all ss g os ops rr f c l,
  ids_determine all -> Forall (hop_ok all) ops ->
  zget rr (frames (hrun (init_hg ss g os) ops)) = Some f -> In (c, l) (f_roots f) ->
  (length l <= S ROOT_DEPTH)%nat /\
  exists idx, forall k fe, nth_error l k = Some fe ->
    exists es, get_event (hrun (init_hg ss g os) ops) (fe_id fe) = Some es /\
               e_index (ev_e es) = idx + Z.of_nat k /\ ((S k < length l)%nat -> e_creator (ev_e es) = c).
Proof. exact (fun all ss g os ops rr f c l ID Ho H Hin => proj2 (hrun_fmemo all ss g os ops ID Ho rr f H) c l Hin). Qed.
Print Assumptions C13_root_depth.

(* ... hence the reset node stores every root / frame event with the serving node's round, Lamport
   timestamp and witness flag (event fields and memo tables) *)
Theorem C13_reset_values_are_servers : forall all ss g os ops rr f v b cores v1,
  ids_determine all -> Forall (hop_ok all) ops ->
  zget rr (frames (hrun (init_hg ss g os) ops)) = Some f ->
  frame_shape f -> core_fast_forward v b f cores = (true, v1) ->
  forall fe, In fe (all_frame_events f) ->
    exists es ri t,
      get_event v1 (fe_id fe) = Some es /\
      ev_round es = zget (fe_id fe) (round_memo (hrun (init_hg ss g os) ops)) /\
      ev_lt es = zget (fe_id fe) (lt_memo (hrun (init_hg ss g os) ops)) /\
      zget (fe_id fe) (round_memo v1) = zget (fe_id fe) (round_memo (hrun (init_hg ss g os) ops)) /\
      zget (fe_id fe) (lt_memo v1) = zget (fe_id fe) (lt_memo (hrun (init_hg ss g os) ops)) /\
      get_round (hrun (init_hg ss g os) ops) (fe_round fe) = Some ri /\
      aget (fe_id fe) (ri_created ri) = Some (fe_wit fe, t) /\
      zget (fe_id fe) (witness_memo v1) = Some (fe_wit fe).
Proof. exact reset_values_are_servers. Qed.
Print Assumptions C13_reset_values_are_servers.

(** * Honest responders: [frame_shape] is a theorem (static membership) *)

(* every frame cached by a node that any sequence of insertion attempts (events of a universe with
   distinct identifiers, none carrying an accepted internal transaction = static membership) and
   ProcessSigPool calls can reach has the shape: the identifiers of its root events and events are
   pairwise distinct and non-negative, the rounds non-negative, the validator-set table sorted.
   (roots of different participants are chains of different creators; a root lies strictly below,
   in Lamport time, the first frame event of its participant) *)
Theorem C13_served_frame_shape : forall g all self_ oracle_ ops R f,
  ids_determine all -> no_accept all -> Forall (hop_ok all) ops ->
  zget R (frames (hrun (init_hg self_ g oracle_) ops)) = Some f -> frame_shape f.
Proof. exact (fun g all self_ oracle_ ops R f ID NA => served_frame_shape g all ID NA self_ oracle_ ops R f). Qed.
Print Assumptions C13_served_frame_shape.

(* in particular the frame of GetAnchorBlockWithFrame; the decision procedure the runner evaluates
   on every fast-forward answers true *)
Theorem C13_anchor_frame_shape : forall g all self_ oracle_ ops b f cores s',
  ids_determine all -> no_accept all -> Forall (hop_ok all) ops -> self_ <> -1 ->
  anchor_block_with_frame (hrun (init_hg self_ g oracle_) ops) = (Some (b, f, cores), s') ->
  frame_shape f /\ frame_shapeb f = true.
Proof.
  exact (fun g all self_ oracle_ ops b f cores s' ID NA Ho Hs H =>
    let FS := anchor_frame_shape g all ID NA self_ oracle_ ops b f cores s' Ho Hs H in
    conj FS (frame_shapeb_complete f FS)).
Qed.
Print Assumptions C13_anchor_frame_shape.

(* the reset-state theorems without any hypothesis on the frame: a node in ANY state that
   fast-forwards from the answer of an honest peer *)
Theorem C13_reset_state_served : forall g all ss os ops b f cores s' v v1,
  ids_determine all -> no_accept all -> Forall (hop_ok all) ops -> ss <> -1 ->
  anchor_block_with_frame (hrun (init_hg ss g os) ops) = (Some (b, f, cores), s') ->
  core_fast_forward v b f cores = (true, v1) ->
  blocks v1 = zset (b_index b) b zempty /\ last_block v1 = Z.max (b_index b) (-1) /\
  frames v1 = zset (f_round f) f zempty /\
  peersets v1 = f_peersets f /\ validators v1 = ff_validators f /\
  lower_bound v1 = Some (b_rr b) /\ last_consensus v1 = Some (b_rr b) /\
  undetermined v1 = [] /\ pending v1 = [] /\ anchor v1 = None /\ pending_loaded v1 = 0 /\
  sigpool v1 = sigpool v /\ self_sigs v1 = self_sigs v /\ delivered v1 = delivered v /\ self v1 = self v.
Proof.
  exact (fun g all ss os ops b f cores s' v v1 ID NA Ho Hs H =>
    C13_reset_state v b f cores v1 (anchor_frame_shape g all ID NA ss os ops b f cores s' Ho Hs H)).
Qed.
Print Assumptions C13_reset_state_served.

Theorem C13_reset_dag_served : forall g all ss os ops b f cores s' v v1,
  ids_determine all -> no_accept all -> Forall (hop_ok all) ops -> ss <> -1 ->
  anchor_block_with_frame (hrun (init_hg ss g os) ops) = (Some (b, f, cores), s') ->
  core_fast_forward v b f cores = (true, v1) -> reset_dag f cores v v1.
Proof.
  exact (fun g all ss os ops b f cores s' v v1 ID NA Ho Hs H =>
    C13_reset_dag v b f cores v1 (anchor_frame_shape g all ID NA ss os ops b f cores s' Ho Hs H)).
Qed.
Print Assumptions C13_reset_dag_served.

Theorem C13_reset_validators_served : forall g all ss os ops b f cores s' v v',
  ids_determine all -> no_accept all -> Forall (hop_ok all) ops -> ss <> -1 ->
  anchor_block_with_frame (hrun (init_hg ss g os) ops) = (Some (b, f, cores), s') ->
  node_fast_forward v b f cores = (true, v') ->
  (peersets v', validators v') = replay_step (f_peersets f, ff_validators f) (b_rr b) (b_itxs b).
Proof.
  exact (fun g all ss os ops b f cores s' v v' ID NA Ho Hs H =>
    C13_reset_validators v b f cores v' (anchor_frame_shape g all ID NA ss os ops b f cores s' Ho Hs H)).
Qed.
Print Assumptions C13_reset_validators_served.

(** * C02 for a node that fast-forwarded: the blocks delivered AFTER the reset *)

(* consecutive indexes from the anchor's index + 1: for ANY victim state, block, frame (no
   hypothesis at all) and any continuation (insertion attempts of arbitrary events, ProcessSigPool).
   [delivered] keeps the callbacks made before the reset (Reset does not touch the list); the k-th
   new one has index max(anchor index, -1) + 1 + k and is stored under that index *)
Theorem C13_after_reset_consecutive : forall v b f cores v' ops,
  node_fast_forward v b f cores = (true, v') ->
  exists news, delivered (hrun v' ops) = delivered v ++ news /\
    last_block (hrun v' ops) = Z.max (b_index b) (-1) + Z.of_nat (length news) /\
    forall k d, nth_error news k = Some d ->
      b_index d = Z.max (b_index b) (-1) + 1 + Z.of_nat k /\
      exists sb, zget (b_index d) (blocks (hrun v' ops)) = Some sb /\ b_index sb = b_index d.
Proof. exact deliveries_after_reset_consecutive. Qed.
Print Assumptions C13_after_reset_consecutive.

(* round-received strictly increases along the new blocks and stays above the anchor's, provided
   the frame has the shape and records no round above the anchor's round-received (both are theorems
   for honest responders, below).  Proved with the queue invariant of C02 generalised to
   roundLowerBound = Some lb (Proofs/ResetOrder.v: rinvR) *)
Theorem C13_after_reset_rr_increasing : forall v b f cores v' ops,
  frame_shape f -> Forall (fun fe => fe_round fe <= b_rr b) (all_frame_events f) -> 0 <= b_rr b ->
  node_fast_forward v b f cores = (true, v') ->
  exists news, delivered (hrun v' ops) = delivered v ++ news /\
    StronglySorted Z.lt (map b_rr news) /\ forall d, In d news -> b_rr b < b_rr d.
Proof. exact (fun v b f cores v' ops FS RB R0 FF => deliveries_after_reset_increasing v b f cores v' FS RB R0 FF ops). Qed.
Print Assumptions C13_after_reset_rr_increasing.

(* the queue invariant itself holds right after the fast-forward and in every later state in which
   no pass has hit a store error *)
Theorem C13_after_reset_queue_invariant : forall v b f cores v' ops,
  frame_shape f -> Forall (fun fe => fe_round fe <= b_rr b) (all_frame_events f) -> 0 <= b_rr b ->
  node_fast_forward v b f cores = (true, v') ->
  failed (hrun v' ops) = false -> rinvR (b_rr b) (last_round v') (delivered v) (hrun v' ops).
Proof.
  exact (fun v b f cores v' ops FS RB R0 FF =>
    proj2 (hrun_rtopR (b_rr b) (last_round v') (delivered v) (proj2 (reset_last_round v b f cores v' FS RB R0 FF)) ops v'
             (rinvR_rtopR _ _ _ v' (reset_rinvR v b f cores v' FS RB R0 FF)))).
Qed.
Print Assumptions C13_after_reset_queue_invariant.

(* honest responder (static membership), any victim, any continuation: C02's "0, or the block after
   a fast-sync anchor" as a theorem *)
Theorem C13_after_reset_served : forall g all ss os ops b f cores s' v v' ops',
  ids_determine all -> no_accept all -> Forall (hop_ok all) ops -> ss <> -1 ->
  anchor_block_with_frame (hrun (init_hg ss g os) ops) = (Some (b, f, cores), s') ->
  node_fast_forward v b f cores = (true, v') ->
  exists news, delivered (hrun v' ops') = delivered v ++ news /\
    (forall k d, nth_error news k = Some d -> b_index d = b_index b + 1 + Z.of_nat k) /\
    StronglySorted Z.lt (map b_rr news) /\ (forall d, In d news -> b_rr b < b_rr d).
Proof. exact after_reset_served. Qed.
Print Assumptions C13_after_reset_served.

(* the theorem above is not vacuous: on a history of real node.core objects
   (corpus/C13-after-reset-example.trace, 4 validators, 25 events; Proofs/ResetWitnessDeliv.v) its
   premises hold for the serving node 2 ([rd_server] = hrun (init_hg 2 ...) rd_server_ops), node 3
   ([rd_v0], nothing delivered yet) fast-forwards to the anchor block (index 0, round received 1),
   and the operations it performs afterwards deliver two more blocks: indexes 1, 2, rounds
   received 2, 3 *)
Theorem C13_after_reset_served_nonvacuous :
  (ids_determine rd_all /\ no_accept rd_all /\ Forall (hop_ok rd_all) rd_server_ops /\ rd_server_self <> -1) /\
  exists b f cores s' v',
    anchor_block_with_frame rd_server = (Some (b, f, cores), s') /\
    node_fast_forward rd_v0 b f cores = (true, v') /\
    b_index b = 0 /\ b_rr b = 1 /\
    map (fun d => (b_index d, b_rr d)) (delivered v') = [] /\
    map (fun d => (b_index d, b_rr d)) (delivered (hrun v' rd_victim_ops_after)) = [(1, 2); (2, 3)].
Proof. exact rd_nonvacuous. Qed.
Print Assumptions C13_after_reset_served_nonvacuous.

(** * C07 for a node that fast-forwarded: the events admitted AFTER the reset *)

(* InsertFrameEvent checks nothing (no signature check, parents may be absent, a creator's
   RollingIndex starts at the index of its first root event), so the frame's own events are exempt.
   Premises: the frame has the shape; the bodies shipped with it have non-negative indexes and
   belong to the universe [all] the later insertion attempts are drawn from, in which identifiers
   determine bodies ([cores_ok]; a theorem for honest responders, below).  Then every event x stored
   later that is not one of the frame's events: comes from an attempt, is stored under its own
   identifier, is signed, its self-parent is a stored event of the same creator with index + 1 (or
   it is a first event, index 0), its other-parent is stored, and it is listed in its creator's
   index at position (index - first index of the window) *)
Theorem C13_after_reset_admission : forall v b f cores v' all ops,
  frame_shape f -> cores_ok all cores f -> ids_determine all -> Forall (hop_ok all) ops ->
  node_fast_forward v b f cores = (true, v') ->
  forall x es, get_event (hrun v' ops) x = Some es -> ~ In x (map fe_id (all_frame_events f)) ->
    In (ev_e es) all /\ e_id (ev_e es) = x /\ e_sigok (ev_e es) = true /\
    ((e_sp (ev_e es) = -1 /\ e_index (ev_e es) = 0) \/
     exists ps, get_event (hrun v' ops) (e_sp (ev_e es)) = Some ps /\ e_creator (ev_e ps) = e_creator (ev_e es) /\
                e_index (ev_e es) = e_index (ev_e ps) + 1) /\
    (e_op (ev_e es) = -1 \/ exists po, get_event (hrun v' ops) (e_op (ev_e es)) = Some po) /\
    exists p, zget (e_creator (ev_e es)) (pevents (hrun v' ops)) = Some p /\ 0 <= firstix p <= e_index (ev_e es) /\
              nth_error (pi_items p) (Z.to_nat (e_index (ev_e es) - firstix p)) = Some x.
Proof. exact admitted_after_reset_event. Qed.
Print Assumptions C13_after_reset_admission.

(* the per-creator windows (frame events included): every listed item is a stored event of that
   creator whose index is the window's first index + its position ("indexes = heights relative to
   the frame's roots"); and the windows the reset built are only ever extended at the end, their
   first index does not move *)
Theorem C13_after_reset_index_windows : forall v b f cores v' all ops,
  frame_shape f -> cores_ok all cores f -> ids_determine all -> Forall (hop_ok all) ops ->
  node_fast_forward v b f cores = (true, v') ->
  (forall c p, zget c (pevents (hrun v' ops)) = Some p ->
     (pi_items p = [] -> pi_last p = -1) /\ 0 <= firstix p /\
     forall i x, nth_error (pi_items p) i = Some x ->
       exists es, get_event (hrun v' ops) x = Some es /\ e_creator (ev_e es) = c /\
                  e_index (ev_e es) = firstix p + Z.of_nat i) /\
  (forall c p0, zget c (pevents v') = Some p0 ->
     exists p more, zget c (pevents (hrun v' ops)) = Some p /\ pi_items p = pi_items p0 ++ more /\
                    (pi_items p0 <> [] -> firstix p = firstix p0)).
Proof. exact admitted_after_reset_windows. Qed.
Print Assumptions C13_after_reset_index_windows.

(* no fork among the events admitted after the reset *)
Theorem C13_after_reset_no_fork : forall v b f cores v' all ops,
  frame_shape f -> cores_ok all cores f -> ids_determine all -> Forall (hop_ok all) ops ->
  node_fast_forward v b f cores = (true, v') ->
  forall x y ex ey, get_event (hrun v' ops) x = Some ex -> get_event (hrun v' ops) y = Some ey ->
    ~ In x (map fe_id (all_frame_events f)) -> ~ In y (map fe_id (all_frame_events f)) ->
    e_creator (ev_e ex) = e_creator (ev_e ey) -> e_index (ev_e ex) = e_index (ev_e ey) -> x = y.
Proof. exact admitted_after_reset_no_fork. Qed.
Print Assumptions C13_after_reset_no_fork.

(* honest responder (static membership): [frame_shape] and [cores_ok] are theorems; the generalised
   admission invariant (Proofs/ResetDag.v: dag_okR, exempt set = the frame's events) holds in every
   state the reset node reaches, all its events come from attempts, its windows only grow *)
Theorem C13_after_reset_admission_served : forall g all ss os ops b f cores s' v v' ops',
  ids_determine all -> no_accept all -> Forall (hop_ok all) ops -> ss <> -1 ->
  anchor_block_with_frame (hrun (init_hg ss g os) ops) = (Some (b, f, cores), s') ->
  node_fast_forward v b f cores = (true, v') -> Forall (hop_ok all) ops' ->
  dag_okR (frame_ids f) (hrun v' ops') /\ from_attempts (hrun v' ops') all /\ grows v' (hrun v' ops').
Proof. exact admitted_after_reset_served. Qed.
Print Assumptions C13_after_reset_admission_served.

(* not vacuous: on corpus/C13-after-reset-example.trace the reset node's later operations are drawn
   from the same universe and event 24 (created by the reset node after the reset) is stored at the
   end and is not one of the frame's events *)
Theorem C13_after_reset_admission_nonvacuous :
  Forall (hop_ok rd_all) rd_victim_ops_after /\
  exists b f cores s' v' es,
    anchor_block_with_frame rd_server = (Some (b, f, cores), s') /\
    node_fast_forward rd_v0 b f cores = (true, v') /\
    get_event (hrun v' rd_victim_ops_after) 24 = Some es /\ ~ In 24 (map fe_id (all_frame_events f)).
Proof. exact (conj rd_victim_ops_ok rd_admitted_example). Qed.
Print Assumptions C13_after_reset_admission_nonvacuous.

(** * The after-reset theorems under the premises the runner evaluates on every fast-forward *)

(* [frame_shapeb] (kind RS) and [after_reset_premisesb] (kind RP: anchor's round-received >= 0, no
   recorded round above it, non-negative indexes of the shipped bodies) are computed by the runner on
   the block / frame / bodies every reset node actually received, dynamic membership included.  Under
   them: C02 for the new deliveries, and C07 for the later admissions for every universe [all] that
   contains the shipped bodies *)
Theorem C13_after_reset_checked : forall v b f cores v' ops,
  frame_shapeb f = true -> after_reset_premisesb b f cores = true ->
  node_fast_forward v b f cores = (true, v') ->
  (exists news, delivered (hrun v' ops) = delivered v ++ news /\
     (forall k d, nth_error news k = Some d -> b_index d = Z.max (b_index b) (-1) + 1 + Z.of_nat k) /\
     StronglySorted Z.lt (map b_rr news) /\ (forall d, In d news -> b_rr b < b_rr d)) /\
  (forall all, (forall fe e, In fe (all_frame_events f) -> core_of cores (fe_id fe) = Some e -> In e all) ->
     ids_determine all -> Forall (hop_ok all) ops ->
     dag_okR (frame_ids f) (hrun v' ops) /\ from_attempts (hrun v' ops) all /\ grows v' (hrun v' ops)).
Proof. exact after_reset_checked. Qed.
Print Assumptions C13_after_reset_checked.

(** * Continuity of rounds, witness flags, Lamport timestamps under [roots_sufficient] *)

(* y: an event stored in both nodes with the same body, not yet divided, whose parents have the same
   memoised rounds on both; pr: the parent round.  If the peer set of pr is the same and the roots
   are sufficient for y, _round(y) returns the same value on the reset node v and the full node s *)
Theorem C13_continuity_round_partial : forall fv fs v s y ev es spr opr,
  zget y (round_memo v) = None -> zget y (round_memo s) = None ->
  get_event v y = Some ev -> get_event s y = Some es -> ev_e ev = ev_e es ->
  parent_round v (e_sp (ev_e ev)) = Some spr -> parent_round s (e_sp (ev_e es)) = Some spr ->
  parent_round v (e_op (ev_e ev)) = Some opr -> parent_round s (e_op (ev_e es)) = Some opr ->
  get_peerset v (if spr <? opr then opr else spr) = get_peerset s (if spr <? opr then opr else spr) ->
  (forall pps, get_peerset s (if spr <? opr then opr else spr) = Some pps ->
               roots_sufficient v s y (if spr <? opr then opr else spr) pps) ->
  fst (round_f (S fv) v y) = fst (round_f (S fs) s y).
Proof. exact round_f_agree. Qed.
Print Assumptions C13_continuity_round_partial.

(* the same at the level of DivideRounds ("ev.round == nil" block: _round, SetRound on the event,
   _witness, AddCreatedEvent): with the same validator-set table and sufficient roots, the reset
   node and the full node record for y the same memoised round and witness flag, the same round
   field and the same RoundInfo entry ([divided]); both fail when _round / _witness fail *)
Theorem C13_continuity_divide_partial : forall v s y ev es spr opr,
  0 <= y ->
  zget y (round_memo v) = None -> zget y (round_memo s) = None ->
  zget y (witness_memo v) = None -> zget y (witness_memo s) = None ->
  get_event v y = Some ev -> get_event s y = Some es -> ev_e ev = ev_e es ->
  ev_round ev = None -> ev_round es = None ->
  parent_round v (e_sp (ev_e ev)) = Some spr -> parent_round s (e_sp (ev_e es)) = Some spr ->
  parent_round v (e_op (ev_e ev)) = Some opr -> parent_round s (e_op (ev_e es)) = Some opr ->
  e_sp (ev_e ev) <> y ->
  (forall r ri, get_round v r = Some ri -> aget y (ri_created ri) = None) ->
  (forall r ri, get_round s r = Some ri -> aget y (ri_created ri) = None) ->
  (forall r, get_peerset v r = get_peerset s r) ->
  (forall pps, get_peerset s (if spr <? opr then opr else spr) = Some pps ->
               roots_sufficient v s y (if spr <? opr then opr else spr) pps) ->
  divided (divide_round v y) y = divided (divide_round s y) y.
Proof. exact divide_round_agree. Qed.
Print Assumptions C13_continuity_divide_partial.

(* the coordinate part of roots_sufficient, from the coordinates themselves: strongly-see only
   compares, validator by validator of the peer set, the index of y's last ancestor with the index
   of w's first descendant *)
Theorem C13_strongly_see_reads_indexes : forall v s y w pps yv ys wv ws,
  get_event v y = Some yv -> get_event s y = Some ys -> get_event v w = Some wv -> get_event s w = Some ws ->
  (forall p, In p (keys pps) -> ss_test (ev_la yv) (ev_fd wv) p = ss_test (ev_la ys) (ev_fd ws) p) ->
  strongly_see v y w pps = strongly_see s y w pps.
Proof. exact strongly_see_agree. Qed.
Print Assumptions C13_strongly_see_reads_indexes.

(* same round, same self-parent round, same peer set at that round: same witness flag *)
Theorem C13_continuity_witness_partial : forall fv fs v s y ev es xr spr,
  zget y (witness_memo v) = None -> zget y (witness_memo s) = None ->
  get_event v y = Some ev -> get_event s y = Some es -> ev_e ev = ev_e es ->
  zget y (round_memo v) = Some xr -> zget y (round_memo s) = Some xr ->
  parent_round v (e_sp (ev_e ev)) = Some spr -> parent_round s (e_sp (ev_e es)) = Some spr ->
  get_peerset v xr = get_peerset s xr ->
  fst (witness_f fv v y) = fst (witness_f fs s y).
Proof. exact witness_f_agree. Qed.
Print Assumptions C13_continuity_witness_partial.

(* same parents' timestamps (the other-parent stored in both nodes): same Lamport timestamp *)
Theorem C13_continuity_lamport_partial : forall fv fs v s y ev es plt opt,
  zget y (lt_memo v) = None -> zget y (lt_memo s) = None ->
  get_event v y = Some ev -> get_event s y = Some es -> ev_e ev = ev_e es ->
  ResetRound.parent_lt v (e_sp (ev_e ev)) = Some plt -> ResetRound.parent_lt s (e_sp (ev_e es)) = Some plt ->
  (e_op (ev_e ev) = -1 \/
   (get_event v (e_op (ev_e ev)) <> None /\ get_event s (e_op (ev_e ev)) <> None /\
    zget (e_op (ev_e ev)) (lt_memo v) = Some opt /\ zget (e_op (ev_e ev)) (lt_memo s) = Some opt)) ->
  fst (lamport_f (S fv) v y) = fst (lamport_f (S fs) s y).
Proof. exact lamport_f_agree. Qed.
Print Assumptions C13_continuity_lamport_partial.

(** * The unconditional statement is false (known finding C13-roots-insufficient) *)

(* for all histories of a serving node, a fast-forwarding node (before and after its reset) and a
   full-history node, made of validly signed events with distinct identifiers: an event has the same
   round on the reset node and on the full-history node.  REFUTED. *)
Theorem C13_roots_insufficient_refuted : ~ C13_continuity_round_statement.
Proof. exact continuity_round_refuted. Qed.
Print Assumptions C13_roots_insufficient_refuted.

(* ... and on that witness it is roots_sufficient that fails: the full-history node's event strongly
   sees a parent-round witness that is not in the reset node's store *)
Theorem C13_refutation_is_roots_insufficient :
  exists v1 pps,
    reset_from (hrun (init_hg rw_victim_self rw_genesis rw_victim_oracle) rw_victim_ops_before)
               (hrun (init_hg rw_server_self rw_genesis rw_server_oracle) rw_server_ops) = Some v1 /\
    get_peerset (hrun (init_hg rw_full_self rw_genesis rw_full_oracle) rw_full_ops) rw_parent_round = Some pps /\
    ~ roots_sufficient (hrun v1 rw_victim_ops_after) (hrun (init_hg rw_full_self rw_genesis rw_full_oracle) rw_full_ops)
        rw_event rw_parent_round pps.
Proof. exact roots_insufficient_witness. Qed.
Print Assumptions C13_refutation_is_roots_insufficient.

(** * The full block-level statement (not proved) *)

(* every block the reset node delivers after its reset is the block with the same index that the
   full-history node delivered (payload view: round-received, transactions, internal transactions,
   frame), provided every event the reset node inserted after the reset had sufficient roots.
   Missing for a proof: the order invariants (Proofs/RoundOrder, OrderProofs) re-established from a
   reset state, where lower_bound = Some _ and ancestors below the roots are absent. *)
Definition C13_continuity_statement : Prop :=
  forall genesis all ss os ops_s sv ov ops_v ops_v' sf of ops_f v1 d,
    ids_determine all -> (forall e, In e all -> e_sigok e = true) ->
    Forall (hop_ok all) ops_s -> Forall (hop_ok all) ops_v -> Forall (hop_ok all) ops_v' -> Forall (hop_ok all) ops_f ->
    reset_from (hrun (init_hg sv genesis ov) ops_v) (hrun (init_hg ss genesis os) ops_s) = Some v1 ->
    (forall y ey, get_event (hrun v1 ops_v') y = Some ey -> get_event v1 y = None ->
       forall pr pps, get_peerset (hrun (init_hg sf genesis of) ops_f) pr = Some pps ->
         roots_sufficient (hrun v1 ops_v') (hrun (init_hg sf genesis of) ops_f) y pr pps) ->
    In d (delivered (hrun v1 ops_v')) -> ~ In d (delivered v1) ->
    exists d', In d' (delivered (hrun (init_hg sf genesis of) ops_f)) /\ b_index d' = b_index d /\ pv d' = pv d.

(** * Non-vacuity: the hypotheses of the reset-state theorems hold on a real history *)

(* the fast-forward of the witness history: honest frame, frame_shape holds, the reset succeeds *)
Example C13_reset_hypotheses_satisfiable :
  match anchor_block_with_frame (hrun (init_hg rw_server_self rw_genesis rw_server_oracle) rw_server_ops) with
  | (Some (b, f, cores), _) =>
    frame_shapeb f = true /\
    fst (node_fast_forward (hrun (init_hg rw_victim_self rw_genesis rw_victim_oracle) rw_victim_ops_before) b f cores) = true /\
    (length (root_events f) = 18 /\ length (f_events f) = 7)%nat
  | _ => False
  end.
Proof. vm_compute. repeat split; reflexivity. Qed.

(* the hypotheses of C13_continuity_round_partial, roots_sufficient included, hold on a real history
   (corpus/C13-continuity-example.trace, 4 validators, 17 events: node 3 fast-forwards from node 1
   and then receives event 4, whose parents are root events of round 0): on both nodes the event
   strongly sees the three round-0 witnesses and gets round 1 *)
Example C13_continuity_hypotheses_satisfiable :
  is_some ro_v1 = true /\
  zget 4 (round_memo ro_v) = None /\ zget 4 (round_memo ro_s) = None /\
  (exists ev es, get_event ro_v 4 = Some ev /\ get_event ro_s 4 = Some es /\ ev_e ev = ev_e es /\
     parent_round ro_v (e_sp (ev_e ev)) = Some 0 /\ parent_round ro_s (e_sp (ev_e es)) = Some 0 /\
     parent_round ro_v (e_op (ev_e ev)) = Some 0 /\ parent_round ro_s (e_op (ev_e es)) = Some 0) /\
  get_peerset ro_v 0 = get_peerset ro_s 0 /\
  (forall pps, get_peerset ro_s 0 = Some pps -> roots_sufficient ro_v ro_s 4 0 pps) /\
  round_witnesses_at ro_v 0 = [0; 1; 2] /\
  fst (round_f 1 ro_v 4) = Some 1 /\ fst (round_f 1 ro_s 4) = Some 1.
Proof.
  split; [vm_compute; reflexivity|]. split; [vm_compute; reflexivity|]. split; [vm_compute; reflexivity|].
  split.
  { eexists. eexists. split; [vm_compute; reflexivity|]. split; [vm_compute; reflexivity|].
    split; [vm_compute; reflexivity|]. split; [vm_compute; reflexivity|]. split; [vm_compute; reflexivity|].
    split; vm_compute; reflexivity. }
  split; [vm_compute; reflexivity|].
  split.
  { intros pps H. vm_compute in H. injection H as <-. apply roots_sufficientb_sound. vm_compute. reflexivity. }
  split; [vm_compute; reflexivity|]. split; vm_compute; reflexivity.
Qed.
