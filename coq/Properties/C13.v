(* C13 Fast-sync continuity.  PARTIAL.
   Hashgraph.Reset / InsertFrameEvent are not yet part of the Coq model; what is proved here are the
   facts about frames that make "any honest node can serve any other" meaningful on full-history
   nodes: a frame is computed once per round and never recomputed or altered (the stored frame of a
   processed round is immutable), and a block's frame is the frame of its round-received.
   Continuity itself (a reset node delivers the same blocks as full-history nodes) is evaluated by
   the oracle; on the unchanged code it exposed two defects that were fixed (stale validators after a
   fast-forward inside the activation window: /repo 3b6a6ac; frame.Roots aliased by the store:
   d85ab32) and one known finding (ROOT_DEPTH roots can be insufficient: C13-roots-insufficient). *)
From Coq Require Import ZArith List Bool.
From V Require Import Model.ZMap Model.Quorum Model.HgImpl Proofs.ZMapFacts.
Import ListNotations.
Open Scope Z_scope.

(* GetFrame returns the stored frame when there is one: a frame is never recomputed *)
Theorem C13_frame_computed_once : forall st rr f,
  zget rr (frames st) = Some f -> get_frame st rr = (Some f, st).
Proof. exact (fun st rr f H => ltac:(unfold get_frame; rewrite H; reflexivity)). Qed.
Print Assumptions C13_frame_computed_once.

(* a block built from a frame carries that frame (FrameHash), its round and its validator set (PeersHash) *)
Theorem C13_block_carries_frame : forall i f st,
  b_frame (block_of_frame i f st) = f /\ b_rr (block_of_frame i f st) = f_round f /\
  b_peers (block_of_frame i f st) = f_peers f /\ b_ts (block_of_frame i f st) = f_ts f.
Proof. exact (fun i f st => conj eq_refl (conj eq_refl (conj eq_refl eq_refl))). Qed.
Print Assumptions C13_block_carries_frame.

(* NOT STATED IN COQ: continuity after a reset.  It needs Hashgraph.Reset / InsertFrameEvent in the
   model (planned) and a "roots are sufficient" hypothesis; the oracle shows that hypothesis can
   fail on real histories (known finding C13-roots-insufficient). *)
