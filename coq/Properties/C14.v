(* C14 Fast-sync trust.  Statements only; every proof is `exact <term>`.

   The property ("a catching-up node never resets to a block whose signatures come exclusively
   from keys outside every validator set the node has reason to trust") is FALSE of the unchanged
   code: core.fastForward checks the block against peers.NewPeerSet(frame.Peers) -- the validator
   set declared by the RESPONSE -- and nothing the node knows takes part in the decision
   (C14_decision_ignores_node_state).  C14_no_strangers_refuted: a fresh node configured with the
   honest set {0,1,2,3} adopts the one-member set {4} shipped and signed by key 4 (witness
   w_forged, harness/cmd/ff kinds forged.*; oracle class stranger-set-adopted).
   The property is proved for the repaired rule (ff_decide_fixed), which counts a signer only if
   it belongs to a set the node already knows (configured peers, genesis peers, current validators,
   the peer sets of its store). *)
From Coq Require Import ZArith List Bool.
From V Require Import Model.Quorum Model.FastSync Model.FastSyncWitness Proofs.FastSyncProofs.
Import ListNotations.
Open Scope Z_scope.

(** * The unchanged code *)

(* whatever the node's state (configured peers, validators, store), the decision is the same *)
Theorem C14_decision_ignores_node_state : forall st1 st2 b f,
  fst (core_ff st1 b f) = fst (core_ff st2 b f).
Proof. exact core_ff_state_blind. Qed.
Print Assumptions C14_decision_ignores_node_state.

(* full statement (no_strangers_statement): if no verifying entry comes from a key of a known set,
   the response is not adopted.  Refuted for the code (the known sets are not even an input). *)
Theorem C14_no_strangers_refuted : ~ no_strangers_statement (fun _ => ff_decide).
Proof. exact no_strangers_refuted. Qed.
Print Assumptions C14_no_strangers_refuted.

(* node level: honest answers plus ONE forged answer with a higher block index: the forged one is
   chosen (highest index wins), the application is restored from the forger's snapshot and the
   validator set becomes {4}; no signer is known to the node *)
Theorem C14_single_peer_takeover_refuted : exists ns',
  node_ff w_ns0 [Some (mkResp w_good_block w_frame4 0); Some w_forged; Some (mkResp w_good_block w_frame4 0)]
    = (Some FFOk, ns') /\
  cs_validators (ns_core ns') = [mkFPeer 4 0] /\ ns_app ns' = [2] /\
  (forall s, In s (fb_sigs w_forged_block) -> in_known w_known (se_bytes s) = false).
Proof. exact stranger_adopted_node. Qed.
Print Assumptions C14_single_peer_takeover_refuted.

(** * The repaired rule *)

Theorem C14_no_strangers_fixed : no_strangers_statement ff_decide_fixed.
Proof. exact strangers_refused_fixed_statement. Qed.
Print Assumptions C14_no_strangers_fixed.

(* boolean form: an adopted response has a verifying signature by a member the node already knows *)
Theorem C14_no_strangers : forall known b f,
  accept_fixed known b f = true ->
  exists s, In s (fb_sigs b) /\ se_verif s = 1 /\ member (ff_peers f) (se_bytes s) = true /\
            in_known known (se_bytes s) = true.
Proof. exact accept_fixed_known_signer_bool. Qed.
Print Assumptions C14_no_strangers.

(* more precisely: an adopted response carries verifying signatures of more than TrustCount
   DISTINCT members of the declared set that the node already knows *)
Theorem C14_known_quorum_fixed : forall known b f,
  ff_decide_fixed known b f = FFOk ->
  exists signers, NoDup signers /\
    (forall v, In v signers -> in_known known v = true /\ member (ff_peers f) v = true /\
               exists s, In s (fb_sigs b) /\ se_bytes s = v /\ se_verif s = 1) /\
    fs_tc (ff_peers f) < Z.of_nat (length signers).
Proof. exact accept_fixed_known_quorum. Qed.
Print Assumptions C14_known_quorum_fixed.

(* same at node level: the application is restored only after that check (C12_restore_only_checked_fixed) *)
Theorem C14_node_fixed_refuses_strangers : forall known ns l x,
  best_response l = Some x ->
  (forall s, In s (fb_sigs (r_block x)) -> se_verif s = 1 -> in_known known (se_bytes s) = false) ->
  exists r, node_ff_fixed known ns l = (Some r, ns) /\ r <> FFOk.
Proof. exact node_fixed_refuses_strangers. Qed.
Print Assumptions C14_node_fixed_refuses_strangers.

(** * Non-vacuity and the limit of the repair *)

(* the forged responses are refused by the repaired rule, the honest one adopted; a validator the
   node KNOWS can still declare the set {itself} (outside C14's quantifier: the signer is known;
   requiring more than a third of a known SET instead is discussed in FINDINGS.md) *)
Example C14_example :
  ff_decide w_forged_block w_forged_frame = FFOk /\
  ff_decide_fixed w_known w_forged_block w_forged_frame = FFNotEnoughSigs /\
  ff_decide_fixed w_known w_good_block w_frame4 = FFOk /\
  fst (node_ff_fixed w_known w_ns0
         [Some (mkResp w_good_block w_frame4 0); Some w_forged; Some (mkResp w_good_block w_frame4 0)])
    = Some FFNotEnoughSigs /\
  ff_decide_fixed w_known w_insider_block w_insider_frame = FFOk.
Proof. vm_compute. repeat split; reflexivity. Qed.
