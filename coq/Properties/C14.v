(* C14 Fast-sync trust.  Statements only; every proof is `exact <term>`.

   The tree implements the repaired rule (/repo a41e4c4: core.checkFastForward counts only signers of
   c.peers, c.genesisPeers, c.validators or a peer set of the store; 52c591c: checked before
   proxy.Restore): part 1 states the property for it, and exactly what it costs in liveness.
   Part 2 keeps the refutations of the rule before a41e4c4 as regression witnesses (replayed by
   harness/cmd/ff kinds forged.* on every run; oracle classes stranger-set-adopted,
   stranger-endorsed-adopted, accepted-without-known-quorum). *)
From Coq Require Import ZArith List Bool.
From V Require Import Model.Quorum Model.FastSync Model.FastSyncWitness Proofs.FastSyncProofs.
Import ListNotations.
Open Scope Z_scope.

(** * 1. The rule the tree implements *)

(* THE PROPERTY (no_strangers_statement): if no verifying signature comes from a key of a set the
   node knows, the response is not adopted *)
Theorem C14_no_strangers : no_strangers_statement ff_decide_fixed.
Proof. exact strangers_refused_fixed_statement. Qed.
Print Assumptions C14_no_strangers.

(* boolean form, exhibiting the known signer *)
Theorem C14_no_strangers_bool : forall known b f,
  accept_fixed known b f = true ->
  exists s, In s (fb_sigs b) /\ se_verif s = 1 /\ member (ff_peers f) (se_bytes s) = true /\
            in_known known (se_bytes s) = true.
Proof. exact accept_fixed_known_signer_bool. Qed.
Print Assumptions C14_no_strangers_bool.

(* more precisely: an adopted response carries verifying signatures of more than TrustCount
   DISTINCT members of the declared set that the node already knows *)
Theorem C14_known_quorum : forall known b f,
  ff_decide_fixed known b f = FFOk ->
  exists signers, NoDup signers /\
    (forall v, In v signers -> in_known known v = true /\ member (ff_peers f) v = true /\
               exists s, In s (fb_sigs b) /\ se_bytes s = v /\ se_verif s = 1) /\
    fs_tc (ff_peers f) < Z.of_nat (length signers).
Proof. exact accept_fixed_known_quorum. Qed.
Print Assumptions C14_known_quorum.

(* node level: whatever the other peers answer, if the chosen (highest-index) response is endorsed
   only by strangers it is refused, and core, application and node state are untouched *)
Theorem C14_node_refuses_strangers : forall known ns l x,
  best_response l = Some x ->
  (forall s, In s (fb_sigs (r_block x)) -> se_verif s = 1 -> in_known known (se_bytes s) = false) ->
  exists r, node_ff_fixed known ns l = (Some r, ns) /\ r <> FFOk.
Proof. exact node_fixed_refuses_strangers. Qed.
Print Assumptions C14_node_refuses_strangers.

(* LIVENESS, exactly.  The rule adopts iff digests match, Reset succeeds and more than TrustCount
   distinct members known to the node have a verifying entry ... *)
Theorem C14_accept_iff : forall known b f,
  existsb (verify_panics_fixed known (ff_peers f)) (fb_sigs b) = false ->
  (ff_decide_fixed known b f = FFOk <->
   fb_peers_hash b = Some (peers_digest (ff_peers f)) /\
   fb_frame_hash b = ff_hash f /\
   ff_reset f = 1 /\
   fs_tc (ff_peers f) < Z.of_nat (length (valid_signers_fixed known (ff_peers f) (fb_sigs b)))).
Proof. exact ff_decide_fixed_iff. Qed.
Print Assumptions C14_accept_iff.

(* ... so an HONEST response (consistent digests, insertable frame, every entry a verifying signature
   of a distinct member) is adopted if and only if more than TrustCount of its signers belong to a
   set the node already knows.  A node restarted with a stale peers.json after validator changes may
   therefore have to wait for an anchor block signed by enough validators it knows, or be given the
   current peers.json (FINDINGS.md F3, harness statistic honest-response:<victim>:known-signers...) *)
Theorem C14_honest_accept_iff : forall known b f,
  honest_response b f ->
  (ff_decide_fixed known b f = FFOk <->
   fs_tc (ff_peers f) < Z.of_nat (length (filter (in_known known) (map se_bytes (fb_sigs b))))).
Proof. exact honest_accept_iff. Qed.
Print Assumptions C14_honest_accept_iff.

(* in particular a node that knows every signer adopts every honest, sufficiently signed response *)
Theorem C14_honest_accept_all_known : forall known b f,
  honest_response b f ->
  (forall s, In s (fb_sigs b) -> in_known known (se_bytes s) = true) ->
  fs_tc (ff_peers f) < Z.of_nat (length (fb_sigs b)) ->
  ff_decide_fixed known b f = FFOk.
Proof. exact honest_accept_all_known. Qed.
Print Assumptions C14_honest_accept_all_known.

(** * 2. Regression witnesses: the rule before a41e4c4 *)

(* whatever the node's state (configured peers, validators, store), the decision was the same *)
Theorem C14_old_rule_ignores_node_state : forall st1 st2 b f,
  fst (core_ff st1 b f) = fst (core_ff st2 b f).
Proof. exact core_ff_state_blind. Qed.
Print Assumptions C14_old_rule_ignores_node_state.

(* it checked the block against NewPeerSet(frame.Peers), the set declared by the response: a fresh node
   configured with {0,1,2,3} adopted the one-member set {4} shipped and signed by key 4 (witness
   w_forged; harness kinds forged.*; oracle class stranger-set-adopted) *)
Theorem C14_old_rule_adopts_strangers : ~ no_strangers_statement (fun _ => ff_decide).
Proof. exact no_strangers_refuted. Qed.
Print Assumptions C14_old_rule_adopts_strangers.

(* node level: honest answers plus ONE forged answer with a higher block index: the forged one was
   chosen, the application restored from the forger's snapshot, the validator set replaced by {4} *)
Theorem C14_old_rule_single_peer_takeover : exists ns',
  node_ff w_ns0 [Some (mkResp w_good_block w_frame4 0); Some w_forged; Some (mkResp w_good_block w_frame4 0)]
    = (Some FFOk, ns') /\
  cs_validators (ns_core ns') = [mkFPeer 4 0] /\ ns_app ns' = [2] /\
  (forall s, In s (fb_sigs w_forged_block) -> in_known w_known (se_bytes s) = false).
Proof. exact stranger_adopted_node. Qed.
Print Assumptions C14_old_rule_single_peer_takeover.

(** * Non-vacuity, the liveness example, and the limit of the repair *)

(* the forged response is refused (also when it competes with honest answers), the honest one adopted;
   after a join {0,1,2,3} -> {0,1,2,3,4} an honest anchor block signed by {2,3,4} is refused by a node
   that only knows the genesis set (2 known signers <= TrustCount 2) and adopted with the current
   peers.json; a validator the node KNOWS can still declare the set {itself} (outside C14's
   quantifier: the signer is known; FINDINGS.md F3 residual) *)
Example C14_example :
  ff_decide_fixed w_known w_forged_block w_forged_frame = FFNotEnoughSigs /\
  ff_decide_fixed w_known w_good_block w_frame4 = FFOk /\
  node_ff_fixed w_known w_ns0
      [Some (mkResp w_good_block w_frame4 0); Some w_forged; Some (mkResp w_good_block w_frame4 0)]
    = (Some FFNotEnoughSigs, w_ns0) /\
  ff_decide_fixed w_known w_insider_block w_insider_frame = FFOk.
Proof. vm_compute. repeat split; reflexivity. Qed.

Example C14_liveness_example :
  honest_response w_block5 w_frame5 /\
  ff_decide_fixed [[0; 1; 2; 3]] w_block5 w_frame5 = FFNotEnoughSigs /\
  ff_decide_fixed [[0; 1; 2; 3; 4]; [0; 1; 2; 3]] w_block5 w_frame5 = FFOk /\
  cs_validators (snd (core_ff_fixed [[0; 1; 2; 3; 4]] w_core0 w_block5 w_frame5)) = w_set5.
Proof. exact liveness_example. Qed.
