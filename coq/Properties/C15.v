(* C15 Encoding identity: hashes and signatures survive the wire, JSON and database forms.
   Statements only; every proof is `exact <lemma>`.

   Vocabulary (Model/Wire.v, Proofs/WireJson.v, Proofs/WireProofs.v):
     set_wire_info st e       Hashgraph.SetWireInfo on the sender (fills the four private wire fields)
     to_wire / read_wire st   Event.ToWire / Hashgraph.ReadWireInfo against a store st
     wire_rt true st e        ToWire, encoding/json (SyncResponse, EagerSyncRequest), ReadWireInfo
     db_rt                    Event.MarshalDB then Event.UnmarshalDB (what BadgerStore writes / reads)
     json_rt_block/_frame     a Block / Frame through encoding/json (FastForwardResponse over TCP)
     ug_rt_frame              Frame.Marshal / Frame.Unmarshal (ugorji canonical; BadgerStore frames)
     event_digest, blockbody_digest, block_digest   the JSON document whose SHA256 is the hash
     frame_digest             the same for Frame.Hash; None when the ugorji writer does not terminate
     same_public a b          all serialized fields of the two events are equal: transactions
                              (nil / empty / contents), internal transactions, parents, creator,
                              index, block signatures with their validators, timestamp, signature
     X_valid                  every string in X is valid UTF-8
     store_ok st              the part of the admission invariant the conversion needs (see below)
   Hash functions: a hash is any function of the digest input (event_hash H, event_hex H with the
   private cache); "same digest input" is what is proved, so the conclusions hold for SHA256. *)
From Coq Require Import ZArith List Bool String Permutation.
From V Require Import Model.Wire Model.WireWitness Proofs.WireSort Proofs.WireJson Proofs.WireProofs Proofs.WireWitnessProofs.
Import ListNotations.
Open Scope Z_scope.

(* ---- wire form and back, pointer hand-over (InmemTransport).
   Hypotheses: the store satisfies the admission invariant (an event found by hash sits at its
   creator's index; ids and keys name the same peers); the event has exactly two parent slots;
   its self-parent, if any, is by the same creator; its block signatures are its creator's. *)
Theorem C15_wire_roundtrip : forall st e e1 sp op k,
  store_ok st ->
  b_parents (e_body e) = Some [sp; op] ->
  b_creator (e_body e) = Some k ->
  (sp <> [] -> exists i, ev_find sp (ws_ev st) = Some (k, i)) ->
  (forall l b, b_bsigs (e_body e) = Some l -> In b l -> bs_validator b = Some k) ->
  set_wire_info st e = inr e1 ->
  exists e2, read_wire st (to_wire e1) = inr e2 /\ same_public e2 e /\ same_wire_info e2 e1.
Proof. exact wire_roundtrip. Qed.
Print Assumptions C15_wire_roundtrip.

(* ---- the same through encoding/json (TCP transport), for valid UTF-8 strings *)
Theorem C15_wire_roundtrip_json : forall st e e1 sp op k,
  store_ok st ->
  b_parents (e_body e) = Some [sp; op] ->
  b_creator (e_body e) = Some k ->
  (sp <> [] -> exists i, ev_find sp (ws_ev st) = Some (k, i)) ->
  (forall l b, b_bsigs (e_body e) = Some l -> In b l -> bs_validator b = Some k) ->
  event_valid e = true ->
  set_wire_info st e = inr e1 ->
  exists e2, wire_rt true st e1 = Some (inr e2) /\ same_public e2 e /\ same_wire_info e2 e1.
Proof. exact wire_roundtrip_json. Qed.
Print Assumptions C15_wire_roundtrip_json.

(* ---- same serialized part => same digest input => same hash under ANY hash function, also
   through the private Hex() cache, and the signature still verifies *)
Theorem C15_same_public_same_hash : forall (H : json -> Z) a b,
  same_public a b -> cache_coherent H a -> cache_coherent H b ->
  event_hash H a = event_hash H b /\ event_hex H a = event_hex H b /\ verify_preserved b a = true.
Proof. exact same_public_same_hash. Qed.
Print Assumptions C15_same_public_same_hash.

(* ---- database form: what comes back for ANY event (strings sanitized, maps listed by key, the
   consensus fields gone) *)
Theorem C15_db_roundtrip_general : forall e, db_rt e = Some (n_db e).
Proof. exact db_roundtrip_general. Qed.
Print Assumptions C15_db_roundtrip_general.

(* ---- database form, valid UTF-8: same serialized part; creatorID, otherParentCreatorID,
   selfParentIndex, otherParentIndex, topologicalIndex, lastAncestors, firstDescendants SURVIVE;
   round, lamportTimestamp, roundReceived are LOST *)
Theorem C15_db_roundtrip : forall e,
  event_valid e = true -> coords_valid (e_last e) = true -> coords_valid (e_first e) = true ->
  exists e', db_rt e = Some e' /\ same_public e' e /\ same_wire_info e' e /\
    e_topo e' = e_topo e /\ e_last e' = view_coords (e_last e) /\ e_first e' = view_coords (e_first e) /\
    e_round e' = None /\ e_lamport e' = None /\ e_rr e' = None.
Proof. exact db_roundtrip. Qed.
Print Assumptions C15_db_roundtrip.

(* ---- JSON transport: internal transactions (JoinRequest), blocks, frames *)
Theorem C15_json_roundtrip_itx : forall t, itx_valid t = true -> json_rt_itx t = Some t.
Proof. exact itx_roundtrip. Qed.
Print Assumptions C15_json_roundtrip_itx.

Theorem C15_json_roundtrip_block : forall b,
  block_valid b = true ->
  json_rt_block b = Some (view_block b) /\
  blockbody_digest (view_block b) = blockbody_digest b /\
  block_digest (view_block b) = block_digest b.
Proof. exact block_roundtrip. Qed.
Print Assumptions C15_json_roundtrip_block.

Theorem C15_json_roundtrip_frame : forall f,
  frame_valid f = true ->
  exists f', json_rt_frame f = Some f' /\ frame_digest f' = frame_digest f /\ f' = n_frame false f.
Proof. exact frame_json_roundtrip. Qed.
Print Assumptions C15_json_roundtrip_frame.

(* the events of a transported frame: same serialized part, NO private field (in particular the
   wire fields are zero: see C15_frame_event_rewire_refuted) *)
Theorem C15_json_roundtrip_frame_events : forall f l,
  frame_valid f = true -> f_events f = Some l ->
  f_events (n_frame false f) =
  Some (map (fun o => match o with
                      | None => None
                      | Some fe => Some {| fe_core := match fe_core fe with None => None | Some e => Some (event_clear e) end;
                                          fe_round := fe_round fe; fe_lamport := fe_lamport fe; fe_witness := fe_witness fe |}
                      end) l).
Proof. exact frame_events_roundtrip. Qed.
Print Assumptions C15_json_roundtrip_frame_events.

(* ---- database form of a frame (ugorji), when the writer terminates and no Root pointer is nil *)
Theorem C15_db_roundtrip_frame : forall f,
  frame_valid f = true -> no_nil_root f = true -> frame_digest f <> None ->
  exists f', ug_rt_frame f = Some (Some f') /\ frame_digest f' = frame_digest f /\ f' = n_frame true f.
Proof. exact frame_db_roundtrip. Qed.
Print Assumptions C15_db_roundtrip_frame.

(* ---- the frame digest does not depend on the order in which Roots and PeerSets were filled *)
Theorem C15_frame_canonical : forall f g, frame_perm f g -> frame_digest f = frame_digest g.
Proof. exact frame_canonical. Qed.
Print Assumptions C15_frame_canonical.

(* ---- the equality test used for the predicted "hash unchanged" bit decides equality *)
Theorem C15_json_eqb_decides : forall a b, json_eqb a b = true <-> a = b.
Proof. exact json_eqb_iff. Qed.
Print Assumptions C15_json_eqb_decides.

(* ================================================================================================
   The full statement "for ALL frames the hash is defined and survives" is FALSE of the code.  *)

Definition C15_frame_hash_total_statement : Prop :=
  forall f, frame_valid f = true -> frame_digest f <> None.

(* FINDING (FINDINGS.md F1): one valid UTF-8 moniker U+FFFD and Frame.Marshal / Frame.Hash do not
   return (ugorji v1.1.7 quoteStr).  Witness: WireWitness.frame_fffd; replayed on the real code by
   harness/cmd/wire (HANG0 lines, `wire -replay ufffd`). *)
Theorem C15_frame_hash_total_refuted :
  exists f, frame_valid f = true /\ frame_digest f = None.
Proof. exact frame_hash_total_refuted. Qed.
Print Assumptions C15_frame_hash_total_refuted.

(* invalid UTF-8 does not survive JSON: the receiver computes another hash (a hostile or
   misconfigured sender only: such an object cannot come out of a JSON decoder) *)
Theorem C15_invalid_utf8_changes_hash :
  exists t t', json_rt_itx t = Some t' /\ itx_digest t' <> itx_digest t.
Proof. exact invalid_utf8_changes_hash. Qed.
Print Assumptions C15_invalid_utf8_changes_hash.

(* a block signature of somebody else does not survive the wire form (the wire form drops the
   validator; ReadWireInfo attributes every signature to the creator): that hypothesis of
   C15_wire_roundtrip is needed.  core.go only ever puts the node's own signatures in its events. *)
Theorem C15_wire_foreign_signature_changes_hash :
  exists st e e1 e2, store_ok_b st = true /\ set_wire_info st e = inr e1 /\ read_wire st (to_wire e1) = inr e2 /\
                     event_digest e2 <> event_digest e.
Proof. exact wire_foreign_signature_changes_hash. Qed.
Print Assumptions C15_wire_foreign_signature_changes_hash.

(* FINDING (FINDINGS.md F2): an event received inside a frame through JSON has lost its wire
   fields (C15_json_roundtrip_frame_events) and InsertFrameEvent does not recompute them: its wire
   form cannot be read back, although the same event converts fine on the node that created it. *)
Definition C15_frame_event_rewire_statement : Prop :=
  forall st f f' e e' l, store_ok st -> frame_valid f = true -> json_rt_frame f = Some f' ->
    f_events f = Some [Some {| fe_core := Some e; fe_round := 0; fe_lamport := 0; fe_witness := false |}] ->
    f_events f' = Some [Some {| fe_core := Some e'; fe_round := 0; fe_lamport := 0; fe_witness := false |}] ->
    read_wire st (to_wire e) = inr l -> exists l', read_wire st (to_wire e') = inr l' /\ same_public l' l.

Theorem C15_frame_event_rewire_refuted :
  exists st f f' e e' l,
    store_ok_b st = true /\ frame_valid f = true /\ json_rt_frame f = Some f' /\
    f_events f = Some [Some {| fe_core := Some e; fe_round := 0; fe_lamport := 0; fe_witness := false |}] /\
    f_events f' = Some [Some {| fe_core := Some e'; fe_round := 0; fe_lamport := 0; fe_witness := false |}] /\
    read_wire st (to_wire e) = inr l /\ same_event_hash l e = true /\
    read_wire st (to_wire e') = inl ECreator.
Proof. exact frame_event_rewire_refuted. Qed.
Print Assumptions C15_frame_event_rewire_refuted.

(* the checker used on the concrete stores is sound *)
Theorem C15_store_checker_sound : forall st, store_ok_b st = true -> store_ok st.
Proof. exact store_ok_b_sound. Qed.
Print Assumptions C15_store_checker_sound.

(* ================================================================================================
   The hypotheses are satisfiable on non-trivial instances (vm_compute).  Witnesses: Model/WireWitness.v *)

(* wire round trip of an event with nil / empty / binary transactions, two parents, own signature,
   on a store that satisfies the invariant *)
Example C15_wire_example :
  store_ok_b st0 = true /\
  match set_wire_info st0 (ev1 own_sigs) with
  | inr e1 =>
    (b_cid (e_body e1), b_opcid (e_body e1), b_spi (e_body e1), b_opi (e_body e1)) = (11, 22, 0, 0) /\
    match wire_rt false st0 e1, wire_rt true st0 e1 with
    | Some (inr a), Some (inr b) =>
      same_event_hash a (ev1 own_sigs) = true /\ same_event_hash b (ev1 own_sigs) = true /\
      b_txs (e_body b) = Some [None; Some []; Some [0; 255]] /\ b_bsigs (e_body b) = own_sigs
    | _, _ => False
    end
  | inl _ => False
  end.
Proof. vm_compute. repeat split. Qed.

(* nil and empty slices have different digest inputs (null vs []): a conversion that turned one
   into the other would change the hash *)
Example C15_nil_vs_empty_differ :
  json_eqb (event_digest (ev1 None)) (event_digest (ev1 (Some []))) = false /\
  json_eqb (j_body escape (body1 None))
           (j_body escape {| b_txs := Some [Some []; Some []; Some [0; 255]]; b_itxs := Some []; b_parents := Some [hA0; hB0];
                             b_creator := Some kA; b_index := 1; b_bsigs := None; b_ts := -5;
                             b_cid := 0; b_opcid := 0; b_spi := 0; b_opi := 0 |}) = false.
Proof. vm_compute. split; reflexivity. Qed.

(* database form: the wire fields, topological index and coordinates come back (maps by key),
   round / lamport are gone *)
Example C15_db_example :
  match db_rt ev1w with
  | Some e' => same_event_hash e' ev1w = true /\ b_cid (e_body e') = 11 /\ b_opcid (e_body e') = 22 /\ e_topo e' = 7 /\
               e_last e' = Some [(name "0XA", (hA0, 0)); (name "0XB", (hB0, 0))] /\ e_first e' = Some [] /\
               e_round e' = None /\ e_lamport e' = None
  | None => False
  end /\ event_valid ev1w = true /\ coords_valid (e_last ev1w) = true.
Proof. vm_compute. repeat split. Qed.

(* canonical frames: two fill orders of Roots and PeerSets, same digest; a different content, another *)
Example C15_canonical_example :
  frame_perm (frame2 [(name "0XB", rootX); (name "0XA", rootY)] [(10, None); (2, Some []); (0, Some [None])])
             (frame2 [(name "0XA", rootY); (name "0XB", rootX)] [(0, Some [None]); (10, None); (2, Some [])]) /\
  same_frame_hash (frame2 [(name "0XB", rootX); (name "0XA", rootY)] [(10, None); (2, Some []); (0, Some [None])])
                  (frame2 [(name "0XA", rootY); (name "0XB", rootX)] [(0, Some [None]); (10, None); (2, Some [])]) = Some true /\
  same_frame_hash (frame2 [(name "0XB", rootX); (name "0XA", rootY)] [(10, None)])
                  (frame2 [(name "0XB", rootY); (name "0XA", rootX)] [(10, None)]) = Some false.
Proof.
  split; [|vm_compute; split; reflexivity].
  unfold frame_perm, frame2. cbn [f_round f_peers f_roots f_events f_psets f_ts].
  repeat split.
  - apply perm_swap.
  - repeat constructor; cbn; intuition discriminate.
  - repeat constructor; cbn; intuition discriminate.
  - eapply perm_trans; [apply perm_skip; apply perm_swap | apply perm_swap].
  - repeat constructor; cbn; intuition discriminate.
Qed.

(* frame and block through JSON on a non-trivial instance *)
Example C15_frame_example :
  frame_valid frame1 = true /\ no_nil_root frame1 = true /\ frame_digest frame1 <> None /\
  match json_rt_frame frame1, ug_rt_frame frame1 with
  | Some a, Some (Some b) => same_frame_hash a frame1 = Some true /\ same_frame_hash b frame1 = Some true
  | _, _ => False
  end.
Proof. vm_compute. repeat split; discriminate. Qed.
