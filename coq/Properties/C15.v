(* C15 Encoding identity: hashes and signatures survive the wire, JSON and database forms.
   Statements only; every proof is `exact <lemma>`.

   Vocabulary (Model/Wire.v, Proofs/WireJson.v, Proofs/WireProofs.v):
     set_wire_info st e       Hashgraph.SetWireInfo on the sender (fills the four private wire fields)
     to_wire / read_wire st   Event.ToWire / Hashgraph.ReadWireInfo against a store st
     wire_rt true st e        ToWire, encoding/json (SyncResponse, EagerSyncRequest), ReadWireInfo
     db_rt                    Event.MarshalDB then Event.UnmarshalDB (what BadgerStore writes / reads)
     json_rt_block/_frame     a Block / Frame through encoding/json (FastForwardResponse over TCP)
     ug_rt_frame              Frame.Marshal / Frame.Unmarshal (ugorji canonical; BadgerStore frames)
     event_digest, blockbody_digest, block_digest   the JSON document whose SHA256 is the hash
     frame_digest             the same for Frame.Hash; None when the ugorji writer does not terminate
     same_public a b          all serialized fields of the two events are equal: transactions
                              (nil / empty / contents), internal transactions, parents, creator,
                              index, block signatures with their validators, timestamp, signature
     X_valid                  every string in X is valid UTF-8
     store_ok st              the part of the admission invariant the conversion needs (see below)
   Hash functions: a hash is any function of the digest input (event_hash H, event_hex H with the
   private cache); "same digest input" is what is proved, so the conclusions hold for SHA256. *)
From Coq Require Import ZArith List Bool String Permutation.
From V Require Import Model.Wire Model.WireWitness Proofs.WireSort Proofs.WireJson Proofs.WireProofs Proofs.WireFrameProofs Proofs.WireWitnessProofs.
Import ListNotations.
Open Scope Z_scope.

(* ---- wire form and back, pointer hand-over (InmemTransport).
   Hypotheses: the store satisfies the admission invariant (an event found by hash sits at its
   creator's index; ids and keys name the same peers); the event has exactly two parent slots;
   its self-parent, if any, is by the same creator; its block signatures are its creator's. *)
Theorem C15_wire_roundtrip : forall st e e1 sp op k,
  store_ok st ->
  b_parents (e_body e) = Some [sp; op] ->
  b_creator (e_body e) = Some k ->
  (sp <> [] -> exists i, ev_find sp (ws_ev st) = Some (k, i)) ->
  (forall l b, b_bsigs (e_body e) = Some l -> In b l -> bs_validator b = Some k) ->
  set_wire_info st e = inr e1 ->
  exists e2, read_wire st (to_wire e1) = inr e2 /\ same_public e2 e /\ same_wire_info e2 e1.
Proof. exact wire_roundtrip. Qed.
Print Assumptions C15_wire_roundtrip.

(* ---- the same through encoding/json (TCP transport), for valid UTF-8 strings *)
Theorem C15_wire_roundtrip_json : forall st e e1 sp op k,
  store_ok st ->
  b_parents (e_body e) = Some [sp; op] ->
  b_creator (e_body e) = Some k ->
  (sp <> [] -> exists i, ev_find sp (ws_ev st) = Some (k, i)) ->
  (forall l b, b_bsigs (e_body e) = Some l -> In b l -> bs_validator b = Some k) ->
  event_valid e = true ->
  set_wire_info st e = inr e1 ->
  exists e2, wire_rt true st e1 = Some (inr e2) /\ same_public e2 e /\ same_wire_info e2 e1.
Proof. exact wire_roundtrip_json. Qed.
Print Assumptions C15_wire_roundtrip_json.

(* ---- same serialized part => same digest input => same hash under ANY hash function, also
   through the private Hex() cache, and the signature still verifies *)
Theorem C15_same_public_same_hash : forall (H : json -> Z) a b,
  same_public a b -> cache_coherent H a -> cache_coherent H b ->
  event_hash H a = event_hash H b /\ event_hex H a = event_hex H b /\ verify_preserved b a = true.
Proof. exact same_public_same_hash. Qed.
Print Assumptions C15_same_public_same_hash.

(* ---- database form: what comes back for ANY event (strings sanitized, maps listed by key, the
   consensus fields gone) *)
Theorem C15_db_roundtrip_general : forall e, db_rt e = Some (n_db e).
Proof. exact db_roundtrip_general. Qed.
Print Assumptions C15_db_roundtrip_general.

(* ---- database form, valid UTF-8: same serialized part; creatorID, otherParentCreatorID,
   selfParentIndex, otherParentIndex, topologicalIndex, lastAncestors, firstDescendants SURVIVE;
   round, lamportTimestamp, roundReceived are LOST *)
Theorem C15_db_roundtrip : forall e,
  event_valid e = true -> coords_valid (e_last e) = true -> coords_valid (e_first e) = true ->
  exists e', db_rt e = Some e' /\ same_public e' e /\ same_wire_info e' e /\
    e_topo e' = e_topo e /\ e_last e' = view_coords (e_last e) /\ e_first e' = view_coords (e_first e) /\
    e_round e' = None /\ e_lamport e' = None /\ e_rr e' = None.
Proof. exact db_roundtrip. Qed.
Print Assumptions C15_db_roundtrip.

(* ---- JSON transport: internal transactions (JoinRequest), blocks, frames *)
Theorem C15_json_roundtrip_itx : forall t, itx_valid t = true -> json_rt_itx t = Some t.
Proof. exact itx_roundtrip. Qed.
Print Assumptions C15_json_roundtrip_itx.

Theorem C15_json_roundtrip_block : forall b,
  block_valid b = true ->
  json_rt_block b = Some (view_block b) /\
  blockbody_digest (view_block b) = blockbody_digest b /\
  block_digest (view_block b) = block_digest b.
Proof. exact block_roundtrip. Qed.
Print Assumptions C15_json_roundtrip_block.

Theorem C15_json_roundtrip_frame : forall f,
  frame_valid f = true ->
  exists f', json_rt_frame f = Some f' /\ frame_digest f' = frame_digest f /\ f' = n_frame false f.
Proof. exact frame_json_roundtrip. Qed.
Print Assumptions C15_json_roundtrip_frame.

(* the events of a transported frame: same serialized part, NO private field (in particular the
   wire fields are zero; InsertFrameEvent recomputes them: C15_frame_event_rewire) *)
Theorem C15_json_roundtrip_frame_events : forall f l,
  frame_valid f = true -> f_events f = Some l ->
  f_events (n_frame false f) =
  Some (map (fun o => match o with
                      | None => None
                      | Some fe => Some {| fe_core := match fe_core fe with None => None | Some e => Some (event_clear e) end;
                                          fe_round := fe_round fe; fe_lamport := fe_lamport fe; fe_witness := fe_witness fe |}
                      end) l).
Proof. exact frame_events_roundtrip. Qed.
Print Assumptions C15_json_roundtrip_frame_events.

(* ---- database form of a frame (ugorji), when the writer terminates and no Root pointer is nil *)
Theorem C15_db_roundtrip_frame : forall f,
  frame_valid f = true -> no_nil_root f = true -> frame_digest f <> None ->
  exists f', ug_rt_frame f = Some (Some f') /\ frame_digest f' = frame_digest f /\ f' = n_frame true f.
Proof. exact frame_db_roundtrip. Qed.
Print Assumptions C15_db_roundtrip_frame.

(* ---- the frame digest does not depend on the order in which Roots and PeerSets were filled *)
Theorem C15_frame_canonical : forall f g, frame_perm f g -> frame_digest f = frame_digest g.
Proof. exact frame_canonical. Qed.
Print Assumptions C15_frame_canonical.

(* ---- the equality test used for the predicted "hash unchanged" bit decides equality *)
Theorem C15_json_eqb_decides : forall a b, json_eqb a b = true <-> a = b.
Proof. exact json_eqb_iff. Qed.
Print Assumptions C15_json_eqb_decides.

(* ================================================================================================
   The full statement "for ALL frames the hash is defined and survives" is FALSE of the code.  *)

Definition C15_frame_hash_total_statement : Prop :=
  forall f, frame_valid f = true -> frame_digest f <> None.

(* FINDING (FINDINGS.md F1): one valid UTF-8 moniker U+FFFD and Frame.Marshal / Frame.Hash do not
   return (ugorji v1.1.7 quoteStr).  Witness: WireWitness.frame_fffd; replayed on the real code by
   harness/cmd/wire (HANG0 lines, `wire -replay ufffd`). *)
Theorem C15_frame_hash_total_refuted :
  exists f, frame_valid f = true /\ frame_digest f = None.
Proof. exact frame_hash_total_refuted. Qed.
Print Assumptions C15_frame_hash_total_refuted.

(* invalid UTF-8 does not survive JSON: the receiver computes another hash (a hostile or
   misconfigured sender only: such an object cannot come out of a JSON decoder) *)
Theorem C15_invalid_utf8_changes_hash :
  exists t t', json_rt_itx t = Some t' /\ itx_digest t' <> itx_digest t.
Proof. exact invalid_utf8_changes_hash. Qed.
Print Assumptions C15_invalid_utf8_changes_hash.

(* a block signature of somebody else does not survive the wire form (the wire form drops the
   validator; ReadWireInfo attributes every signature to the creator): that hypothesis of
   C15_wire_roundtrip is needed.  core.go only ever puts the node's own signatures in its events. *)
Theorem C15_wire_foreign_signature_changes_hash :
  exists st e e1 e2, store_ok_b st = true /\ set_wire_info st e = inr e1 /\ read_wire st (to_wire e1) = inr e2 /\
                     event_digest e2 <> event_digest e.
Proof. exact wire_foreign_signature_changes_hash. Qed.
Print Assumptions C15_wire_foreign_signature_changes_hash.

(* ================================================================================================
   Events received in a frame (FINDINGS.md F2, fixed in /repo by 5bf08c3).
     insert_frame_event(s)       Hashgraph.InsertFrameEvent / Reset as of 5bf08c3: topological index
                                 from the counter, creatorID from the repertoire, selfParentIndex =
                                 Index - 1, other-parent looked up in the store
     frame_other_parent_named    the other-parent is "" or in the receiving node's store
     rep_agree ds rs             peer ids are a function of the key (the two repertoires agree)
     truthful ds rs              what D recorded about an event (creator, index) is what the reader has
     reader_knows rs x           the reader has the event's parents (self-parent by the same creator at
                                 index - 1: admission invariant), the event itself, own block signatures *)

(* one event: after a JSON hop (no private field) and InsertFrameEvent on a node D, the wire form
   that D builds is read back by a reader that knows the parents: same serialized part, hence same
   hash and signature - provided D can name the other-parent *)
Theorem C15_frame_event_rewire : forall ds rs cid e sp op k e1,
  store_ok rs -> rep_agree ds rs -> truthful ds rs ->
  b_parents (e_body e) = Some [sp; op] ->
  b_creator (e_body e) = Some k ->
  id_of_key k (ws_rep ds) = Some cid ->
  (sp <> [] -> ev_find sp (ws_ev rs) = Some (k, b_index (e_body e) - 1)) ->
  (forall l b, b_bsigs (e_body e) = Some l -> In b l -> bs_validator b = Some k) ->
  frame_other_parent_named ds op = true ->
  e_body e1 = frame_event_wire_info ds cid e -> e_sig e1 = e_sig e ->
  exists e2, read_wire rs (to_wire e1) = inr e2 /\ same_public e2 e /\ same_wire_info e2 e1.
Proof. exact frame_event_rewire. Qed.
Print Assumptions C15_frame_event_rewire.

(* the explicit, counted exception: an other-parent below the frame is left out of the wire form;
   the reader builds the event without it (harness: other-parent-outside-frame) *)
Theorem C15_frame_event_rewire_residual : forall ds rs cid e sp op k e1,
  store_ok rs -> rep_agree ds rs ->
  b_parents (e_body e) = Some [sp; op] ->
  b_creator (e_body e) = Some k ->
  id_of_key k (ws_rep ds) = Some cid ->
  (sp <> [] -> ev_find sp (ws_ev rs) = Some (k, b_index (e_body e) - 1)) ->
  frame_other_parent_named ds op = false ->
  e_body e1 = frame_event_wire_info ds cid e ->
  op <> [] /\ exists e2, read_wire rs (to_wire e1) = inr e2 /\ b_parents (e_body e2) = Some [sp; []].
Proof. exact frame_event_rewire_residual. Qed.
Print Assumptions C15_frame_event_rewire_residual.

(* the whole frame in insertion order: every event whose other-parent could be named converts back *)
Theorem C15_frame_rewire_all : forall rs l ds n ds' n' out,
  store_ok rs -> rep_agree ds rs -> truthful ds rs ->
  Forall (reader_knows rs) l ->
  insert_frame_events ds n l = Some (ds', n', out) ->
  Forall2 (fun x r => snd r = true ->
                      exists e2, read_wire rs (to_wire (fst r)) = inr e2 /\
                                 same_public e2 (snd (snd x)) /\ same_wire_info e2 (fst r)) l out.
Proof. exact frame_rewire_all. Qed.
Print Assumptions C15_frame_rewire_all.

(* topological indexes follow the insertion order (consensus order: Lamport timestamps, so a parent
   is inserted before its child - C04): serving by topological index is parent-before-child *)
Theorem C15_frame_events_topological : forall l st n st' n' out i j a b,
  insert_frame_events st n l = Some (st', n', out) ->
  nth_error out i = Some a -> nth_error out j = Some b -> (i < j)%nat ->
  e_topo (fst a) < e_topo (fst b).
Proof. exact frame_events_topological. Qed.
Print Assumptions C15_frame_events_topological.

(* regression witness for 5bf08c3: the function BEFORE the fix leaves the arrived event without wire
   fields and the reader answers "Creator 0 not found"; the fixed function on the same input gives
   an event that reads back with the same hash *)
Theorem C15_frame_event_rewire_regression :
  exists rs ds n h fe e e_old e_new l,
    store_ok_b rs = true /\ event_valid e = true /\
    read_wire rs (to_wire e) = inr l /\ same_event_hash l e = true /\
    insert_frame_event_prefix ds n h fe (arrived e) = Some (store_add ds h 11 e_old, n, e_old) /\
    read_wire rs (to_wire e_old) = inl ECreator /\
    insert_frame_event ds n h fe (arrived e) = Some (store_add ds h 11 e_new, n + 1, e_new) /\
    (exists l', read_wire rs (to_wire e_new) = inr l' /\ same_event_hash l' e = true).
Proof. exact frame_event_rewire_regression. Qed.
Print Assumptions C15_frame_event_rewire_regression.

(* ================================================================================================
   Text validation (FINDINGS.md F1; guard in /repo since bc8842f: common.EncodableString).
     encodable s        valid UTF-8 and no U+FFFD
     sig_decodes s      keys.DecodeSignature accepts s ("r|s", base-36 integers)
     itx_text_ok        the text part of InternalTransaction.Verify; event_text_ok: of Event.Verify
     frame_text_ok      Frame.ValidateText (core.checkFastForward, before frame.Hash()); per event:
                        event_frame_text_ok *)

(* the digest of a validated frame is defined: the codec's non-termination (C15_frame_hash_total_refuted,
   which stays true of the library) is not reachable through validated text *)
Theorem C15_frame_hash_total_validated : forall f, frame_text_ok f = true -> frame_digest f <> None.
Proof. exact frame_text_ok_digest_total. Qed.
Print Assumptions C15_frame_hash_total_validated.

(* typed characterisation: validated text = no U+FFFD anywhere in the document, and valid UTF-8
   (so that every round trip theorem above applies to a validated frame) *)
Theorem C15_validated_frame_no_fffd : forall f, frame_text_ok f = true -> jhas_fffd (j_frame raw f) = false.
Proof. exact frame_text_ok_no_fffd. Qed.
Print Assumptions C15_validated_frame_no_fffd.
Theorem C15_validated_frame_valid : forall f, frame_text_ok f = true -> frame_valid f = true.
Proof. exact frame_text_ok_valid. Qed.
Print Assumptions C15_validated_frame_valid.

(* a validated frame survives the JSON transport and the database form with the same digest *)
Theorem C15_validated_frame_roundtrip : forall f,
  frame_text_ok f = true ->
  frame_digest f <> None /\
  (exists f', json_rt_frame f = Some f' /\ frame_digest f' = frame_digest f) /\
  (no_nil_root f = true -> exists f', ug_rt_frame f = Some (Some f') /\ frame_digest f' = frame_digest f).
Proof. exact validated_frame_roundtrip. Qed.
Print Assumptions C15_validated_frame_roundtrip.

(* admission side.  A signature string that keys.DecodeSignature accepts is encodable; an internal
   transaction that passes InternalTransaction.Verify (gate of node.processJoinRequest) and an event
   that passes Event.Verify with parents that are "" or stored hashes (InsertEvent) pass the
   frame's check: whatever frame they end up in, they cannot stop its hash *)
Theorem C15_decodable_signature_encodable : forall s, sig_decodes s = true -> encodable s = true.
Proof. exact sig_decodes_encodable. Qed.
Print Assumptions C15_decodable_signature_encodable.
Theorem C15_verified_itx_text : forall t, itx_text_ok t = true -> itx_frame_text_ok t = true.
Proof. exact verified_itx_text. Qed.
Print Assumptions C15_verified_itx_text.
Theorem C15_admitted_event_text : forall st e,
  store_text_ok st -> event_text_ok e = true -> parents_known st e ->
  event_frame_text_ok e = true /\ event_valid e = true /\ jhas_fffd (j_event raw e) = false.
Proof. exact admitted_event_text. Qed.
Print Assumptions C15_admitted_event_text.

(* a frame assembled from validated peers (accepted internal transactions / peers.json), validated
   events and participant keys passes Frame.ValidateText by construction: its hash is defined *)
Theorem C15_assembled_frame_text : forall f,
  peers_text_ok (f_peers f) = true ->
  list_forall (fun kv : Z * option (list (option peer)) => peers_text_ok (snd kv)) (f_psets f) = true ->
  list_forall (fun kv : gostr * option root => encodable (fst kv) && opt_forall (fun r => fevents_text_ok (r_events r)) (snd kv)) (f_roots f) = true ->
  fevents_text_ok (f_events f) = true ->
  frame_text_ok f = true /\ frame_digest f <> None.
Proof. exact assembled_frame_text. Qed.
Print Assumptions C15_assembled_frame_text.

(* the checker used on the concrete stores is sound *)
Theorem C15_store_checker_sound : forall st, store_ok_b st = true -> store_ok st.
Proof. exact store_ok_b_sound. Qed.
Print Assumptions C15_store_checker_sound.

(* ================================================================================================
   The hypotheses are satisfiable on non-trivial instances (vm_compute).  Witnesses: Model/WireWitness.v *)

(* wire round trip of an event with nil / empty / binary transactions, two parents, own signature,
   on a store that satisfies the invariant *)
Example C15_wire_example :
  store_ok_b st0 = true /\
  match set_wire_info st0 (ev1 own_sigs) with
  | inr e1 =>
    (b_cid (e_body e1), b_opcid (e_body e1), b_spi (e_body e1), b_opi (e_body e1)) = (11, 22, 0, 0) /\
    match wire_rt false st0 e1, wire_rt true st0 e1 with
    | Some (inr a), Some (inr b) =>
      same_event_hash a (ev1 own_sigs) = true /\ same_event_hash b (ev1 own_sigs) = true /\
      b_txs (e_body b) = Some [None; Some []; Some [0; 255]] /\ b_bsigs (e_body b) = own_sigs
    | _, _ => False
    end
  | inl _ => False
  end.
Proof. vm_compute. repeat split. Qed.

(* nil and empty slices have different digest inputs (null vs []): a conversion that turned one
   into the other would change the hash *)
Example C15_nil_vs_empty_differ :
  json_eqb (event_digest (ev1 None)) (event_digest (ev1 (Some []))) = false /\
  json_eqb (j_body escape (body1 None))
           (j_body escape {| b_txs := Some [Some []; Some []; Some [0; 255]]; b_itxs := Some []; b_parents := Some [hA0; hB0];
                             b_creator := Some kA; b_index := 1; b_bsigs := None; b_ts := -5;
                             b_cid := 0; b_opcid := 0; b_spi := 0; b_opi := 0 |}) = false.
Proof. vm_compute. split; reflexivity. Qed.

(* database form: the wire fields, topological index and coordinates come back (maps by key),
   round / lamport are gone *)
Example C15_db_example :
  match db_rt ev1w with
  | Some e' => same_event_hash e' ev1w = true /\ b_cid (e_body e') = 11 /\ b_opcid (e_body e') = 22 /\ e_topo e' = 7 /\
               e_last e' = Some [(name "0XA", (hA0, 0)); (name "0XB", (hB0, 0))] /\ e_first e' = Some [] /\
               e_round e' = None /\ e_lamport e' = None
  | None => False
  end /\ event_valid ev1w = true /\ coords_valid (e_last ev1w) = true.
Proof. vm_compute. repeat split. Qed.

(* canonical frames: two fill orders of Roots and PeerSets, same digest; a different content, another *)
Example C15_canonical_example :
  frame_perm (frame2 [(name "0XB", rootX); (name "0XA", rootY)] [(10, None); (2, Some []); (0, Some [None])])
             (frame2 [(name "0XA", rootY); (name "0XB", rootX)] [(0, Some [None]); (10, None); (2, Some [])]) /\
  same_frame_hash (frame2 [(name "0XB", rootX); (name "0XA", rootY)] [(10, None); (2, Some []); (0, Some [None])])
                  (frame2 [(name "0XA", rootY); (name "0XB", rootX)] [(0, Some [None]); (10, None); (2, Some [])]) = Some true /\
  same_frame_hash (frame2 [(name "0XB", rootX); (name "0XA", rootY)] [(10, None)])
                  (frame2 [(name "0XB", rootY); (name "0XA", rootX)] [(10, None)]) = Some false.
Proof.
  split; [|vm_compute; split; reflexivity].
  unfold frame_perm, frame2. cbn [f_round f_peers f_roots f_events f_psets f_ts].
  repeat split.
  - apply perm_swap.
  - repeat constructor; cbn; intuition discriminate.
  - repeat constructor; cbn; intuition discriminate.
  - eapply perm_trans; [apply perm_skip; apply perm_swap | apply perm_swap].
  - repeat constructor; cbn; intuition discriminate.
Qed.

(* a two-event frame inserted in order on a node that only has the repertoire: both events named,
   indexes 0 and 1, the second reads back with the same hash; the same event alone: residual *)
Example C15_frame_insert_example :
  match insert_frame_events ds0 0 frame_list2 with
  | Some (_, n, [(b, fb); (a, fa)]) =>
    n = 2 /\ fb = true /\ fa = true /\ e_topo b = 0 /\ e_topo a = 1 /\
    (b_cid (e_body a), b_opcid (e_body a), b_spi (e_body a), b_opi (e_body a)) = (11, 22, 0, 0) /\
    match read_wire st0 (to_wire a) with inr a' => same_event_hash a' ev1w = true | inl _ => False end
  | _ => False
  end /\
  match insert_frame_events ds0 0 frame_list1 with
  | Some (_, _, [(a, fa)]) =>
    fa = false /\
    match read_wire st0 (to_wire a) with
    | inr a' => b_parents (e_body a') = Some [hA0; []] /\ same_event_hash a' ev1w = false
    | inl _ => False
    end
  | _ => False
  end.
Proof. vm_compute. repeat split. Qed.

Example C15_text_validation_example :
  frame_text_ok frame1 = true /\ frame_digest frame1 <> None /\
  frame_text_ok frame_fffd = false /\ itx_text_ok itx_bad = false.
Proof. vm_compute. repeat split; discriminate. Qed.

(* frame and block through JSON on a non-trivial instance *)
Example C15_frame_example :
  frame_valid frame1 = true /\ no_nil_root frame1 = true /\ frame_digest frame1 <> None /\
  match json_rt_frame frame1, ug_rt_frame frame1 with
  | Some a, Some (Some b) => same_frame_hash a frame1 = Some true /\ same_frame_hash b frame1 = Some true
  | _, _ => False
  end.
Proof. vm_compute. repeat split; discriminate. Qed.
