(* C16 Store fidelity: the Badger-backed store (LRU caches + rolling participant windows in
   front of a key/value DB) against a plain-map reference.
   Statements only; every proof is `exact <lemma>`.

   Vocabulary (Model/Store.v, Model/StoreSpec.v):
     brun (binit cs) ops   run of the transliterated BadgerStore with cache size cs
     srun sinit ops        run of the plain-map reference
     wf_ops ops            admission discipline of the hashgraph: a NEW event id has a known
                           creator, index = #events of that creator so far, topological index =
                           #events so far; a KNOWN id keeps creator/index/topological index;
                           listing arguments in the callers' range (skip >= -1, start >= 0)
     writes_ok ops rs      every SetEvent of the run was acknowledged (no error returned)
     observe re ops rs     the results that are compared: everything except the cache-only reads
                           GetRound/GetFrame, and - once a close/reopen happened - except the
                           reads answered by the participant window / lastBlock counter
                           (ParticipantEvents, LastEventFrom, KnownEvents, LastBlockIndex)
     jrun                  joint run in which the reference skips the writes the store rejected *)
From Coq Require Import ZArith List Bool.
From V Require Import Model.Store Model.StoreSpec Model.StoreWitness Proofs.StoreProofs.
Import ListNotations.
Open Scope Z_scope.

(* ---- the invariant: a cache entry always equals the DB entry of the same key.
        ALL operation sequences (no discipline needed), ALL cache sizes *)
Theorem C16_cache_coherent : forall cs ops,
  let b := fst (brun (binit cs) ops) in
  (forall k e, In (k, e) (lru_items (b_events b)) -> db_get (b_db b) (KEvent k) = Some (VEvent e)) /\
  (forall k bl, In (k, bl) (lru_items (b_blocks b)) -> db_get (b_db b) (KBlock k) = Some (VBlock bl)) /\
  (forall k p, In (k, p) (lru_items (b_rounds b)) -> db_get (b_db b) (KRound k) = Some (VZ p)) /\
  (forall k p, In (k, p) (lru_items (b_frames b)) -> db_get (b_db b) (KFrame k) = Some (VZ p)).
Proof. exact cache_coherent_unfolded. Qed.
Print Assumptions C16_cache_coherent.

(* ---- refinement of the plain map, all cache sizes, also across close/reopen:
        if every write was acknowledged, every compared read (events, blocks, participant
        event by index, DB-level rounds/frames, topological listing; before the first reopen also
        participant listings, LastEventFrom, KnownEvents, LastBlockIndex) returns exactly what
        the plain map returns - from the cache, after eviction, and after reopen *)
Theorem C16_refines_map : forall cs ops,
  wf_ops ops = true ->
  writes_ok ops (snd (brun (binit cs) ops)) = true ->
  observe false ops (snd (brun (binit cs) ops)) = observe false ops (snd (srun sinit ops)).
Proof. exact refines_map. Qed.
Print Assumptions C16_refines_map.

(* ---- general form without the acknowledgement hypothesis: a rejected write changes nothing,
        and the store refines the plain map of the ACKNOWLEDGED writes (discipline checked
        against that map) *)
Theorem C16_refines_map_acked : forall cs ops,
  fst (fst (jrun (binit cs) sinit ops)) = true ->
  observe false ops (snd (fst (jrun (binit cs) sinit ops))) =
  observe false ops (snd (jrun (binit cs) sinit ops)).
Proof. exact refines_acked. Qed.
Print Assumptions C16_refines_map_acked.

Theorem C16_rejected_write_noop : forall b e b' x,
  bstep b (OSetEvent e) = (b', RErr x) -> b' = b.
Proof. exact rejected_write_noop. Qed.
Print Assumptions C16_rejected_write_noop.

(* ---- the store results of the joint run are the store results *)
Theorem C16_jrun_is_brun : forall ops b s, snd (fst (jrun b s ops)) = snd (brun b ops).
Proof. exact jrun_brun. Qed.
Print Assumptions C16_jrun_is_brun.

(* ---- REFUTED: the refinement as first asked for (wf_ops only).  A disciplined write CAN be
        rejected: witness w_reset_rejected, cache size 2 *)
Theorem C16_refines_map_unconditional_refuted :
  ~ (forall cs ops, wf_ops ops = true ->
       observe false ops (snd (brun (binit cs) ops)) = observe false ops (snd (srun sinit ops))).
Proof. exact refines_map_unconditional_refuted. Qed.
Print Assumptions C16_refines_map_unconditional_refuted.

(* ---- REFUTED: comparing the window-answered reads also after a reopen (even with every write
        acknowledged): witness w_listing_after_reopen *)
Theorem C16_refines_map_across_reopen_refuted :
  ~ (forall cs ops, wf_ops ops = true -> writes_ok ops (snd (brun (binit cs) ops)) = true ->
       observe_all ops (snd (brun (binit cs) ops)) = observe_all ops (snd (srun sinit ops))).
Proof. exact refines_map_across_reopen_refuted. Qed.
Print Assumptions C16_refines_map_across_reopen_refuted.

(* ---- before the first reopen a disciplined write is rejected only with TooLate and only when
        it UPDATES a known event (one that left both the LRU and the creator's window);
        new events are never rejected *)
Theorem C16_only_too_late : forall cs ops e,
  wf_ops (ops ++ [OSetEvent e]) = true -> no_reopen ops = true ->
  let b := fst (brun (binit cs) ops) in
  forall x, snd (bstep b (OSetEvent e)) = RErr x ->
    x = TooLate /\ sp_events (fst (srun sinit ops)) (ev_id e) <> None.
Proof. exact only_too_late. Qed.
Print Assumptions C16_only_too_late.

(* ---- listings.  listings_exact d says, for the DB d:
        (1) for every creator c the DB scan from skip = -1 is duplicate-free, holds every stored
            event of c at position = its index, and holds nothing else;
        (2) there is n such that for every N >= n the topological scan (0,N) returns n events,
            duplicate-free, every stored event at position = its topological index, nothing else;
        (3) any scan (0,N) reaches every stored event with topological index < N. *)
Theorem C16_listings_exact : forall cs ops,
  wf_ops ops = true ->
  writes_ok ops (snd (brun (binit cs) ops)) = true ->
  listings_exact (b_db (fst (brun (binit cs) ops))).
Proof. exact listings_exact_acked. Qed.
Print Assumptions C16_listings_exact.

(* without any acknowledgement hypothesis as long as the store was not reopened *)
Theorem C16_listings_exact_no_reopen : forall cs ops,
  wf_ops ops = true -> no_reopen ops = true ->
  listings_exact (b_db (fst (brun (binit cs) ops))).
Proof. exact listings_exact_no_reopen. Qed.
Print Assumptions C16_listings_exact_no_reopen.

(* and in general w.r.t. the acknowledged history *)
Theorem C16_listings_exact_acked : forall cs ops,
  fst (fst (jrun (binit cs) sinit ops)) = true ->
  listings_exact (b_db (fst (brun (binit cs) ops))).
Proof. exact listings_exact_general. Qed.
Print Assumptions C16_listings_exact_acked.

(* ---- REFUTED: gap-free listings for wf_ops alone.  Witness w_topo_gap: after a reopen a new
        event is rejected (SkippedIndex), its topological index is never used, and the scan
        stops at the gap although a later event is stored *)
Theorem C16_listings_exact_unconditional_refuted :
  ~ (forall cs ops, wf_ops ops = true -> listings_exact (b_db (fst (brun (binit cs) ops)))).
Proof. exact listings_exact_unconditional_refuted. Qed.
Print Assumptions C16_listings_exact_unconditional_refuted.

(* ---- model adequacy: the two "scan until the first missing key" loops are modelled with
        db_fuel d = (number of DB writes) + 1 iterations.  For every reachable DB - ANY operation
        sequence, disciplined or not - additional fuel changes nothing: the loop always ends on a
        missing key, never on the fuel *)
Theorem C16_fuel_irrelevant : forall cs ops c i t bound extra,
  let d := b_db (fst (brun (binit cs) ops)) in
  db_part_scan (db_fuel d + extra) d c i = db_part_scan (db_fuel d) d c i /\
  db_topo_scan (db_fuel d + extra) d t bound = db_topo_scan (db_fuel d) d t bound.
Proof. exact fuel_irrelevant. Qed.
Print Assumptions C16_fuel_irrelevant.

(* ------------------------------------------------------------------------- *)
(* Examples                                                                   *)
(* ------------------------------------------------------------------------- *)

(* non-vacuity: eviction (cache sizes 1, 2, 3: almost everything is evicted), overwrite, reopen;
   hypotheses hold and ALL results, not only the compared ones, coincide except GetRound/GetFrame
   (absent here) *)
Example C16_example_good :
  wf_ops w_good = true /\ length w_good = 41%nat /\
  (forall cs, In cs [1; 2; 3; 50000] ->
     writes_ok w_good (snd (brun (binit cs) w_good)) = true /\
     observe false w_good (snd (brun (binit cs) w_good)) = observe false w_good (snd (srun sinit w_good))) /\
  (* the event LRU of size 1 holds one entry while 8 events are readable *)
  length (lru_items (b_events (fst (brun (binit 1) w_good)))) = 1%nat /\
  nth 39 (snd (brun (binit 1) w_good)) RUnit = REvent (mkev 104 7 4 6 1) /\
  nth 27 (snd (brun (binit 2) w_good)) RUnit = RUnit (* OReopen *) /\
  nth 29 (snd (brun (binit 2) w_good)) RUnit = REvent (mkev 103 7 3 5 9) (* overwritten, after reopen *).
Proof.
  split; [reflexivity|]. split; [reflexivity|]. split.
  - intros cs H. cbn in H. repeat (destruct H as [<-|H]; [vm_compute; split; reflexivity|]). contradiction.
  - vm_compute. repeat split.
Qed.

(* W1, cache size 2: the update of event 100 is rejected, the store keeps payload 1, the map has 2;
   with cache size 1 the rolling window never evicts (size/2 = 0) and the update is accepted *)
Example C16_reset_rejected_refuted :
  wf_ops w_reset_rejected = true /\
  snd (brun (binit 2) w_reset_rejected) =
    [RUnit; RUnit; RUnit; RUnit; RErr TooLate; REvent (mkev 100 7 0 0 1)] /\
  snd (srun sinit w_reset_rejected) =
    [RUnit; RUnit; RUnit; RUnit; RUnit; REvent (mkev 100 7 0 0 2)] /\
  snd (brun (binit 1) w_reset_rejected) = snd (srun sinit w_reset_rejected) /\
  b_rim (fst (brun (binit 1) w_reset_rejected)) = [(7, mkRi 1 2 [100; 101; 102])].
Proof. vm_compute. repeat split. Qed.

(* W2: after reopen the listing is empty WITHOUT error (no DB fall-back), LastEventFrom is Empty,
   KnownEvents says -1, LastBlockIndex -1; the single-event read falls back correctly *)
Example C16_listing_after_reopen_refuted :
  wf_ops w_listing_after_reopen = true /\
  skipn 5 (snd (brun (binit 5) w_listing_after_reopen)) =
    [RIds []; RId 101; RErr Empty; RKnown [(7, -1)]; RZ (-1)] /\
  skipn 5 (snd (srun sinit w_listing_after_reopen)) =
    [RIds [100; 101; 102]; RId 101; RId 102; RKnown [(7, 2)]; RZ (-1)].
Proof. vm_compute. repeat split. Qed.

(* W3: SkippedIndex after reopen, then a topological gap: event 103 is stored and readable but the
   topological scan returns only two events *)
Example C16_topo_gap_refuted :
  wf_ops w_topo_gap = true /\
  skipn 5 (snd (brun (binit 5) w_topo_gap)) =
    [RUnit; RErr SkippedIndex; RUnit;
     REvents [mkev 100 7 0 0 2; mkev 101 7 1 1 1]; REvent (mkev 103 8 0 3 1)].
Proof. vm_compute. repeat split. Qed.

(* W4, cache size 2: GetRound / GetFrame answer KeyNotFound after eviction although the DB has
   the value (by design they never fall back to the DB) *)
Example C16_round_frame_cache_only_refuted :
  snd (brun (binit 2) w_round_cache_only) =
    [RUnit; RUnit; RUnit; RErr KeyNotFound; RZ 11; RUnit; RUnit; RUnit; RErr KeyNotFound; RZ 11] /\
  snd (srun sinit w_round_cache_only) =
    [RUnit; RUnit; RUnit; RZ 11; RZ 11; RUnit; RUnit; RUnit; RZ 11; RZ 11].
Proof. vm_compute. repeat split. Qed.

(* W5: skip = -2 (outside wf_ops): the cache says TooLate, the DB scan starts at index -1, finds
   nothing: empty listing although two events exist *)
Example C16_negative_skip_refuted :
  wf_ops w_negative_skip = false /\
  nth 3 (snd (brun (binit 5) w_negative_skip)) RUnit = RIds [] /\
  nth 3 (snd (srun sinit w_negative_skip)) RUnit = RIds [100; 101].
Proof. vm_compute. repeat split. Qed.
