(* C17 A node that is not babbling changes nothing; a suspended node still serves syncs.
   Statements only; every proof is `exact <lemma>`. *)
From Coq Require Import ZArith List Bool.
From RecordUpdate Require Import RecordSet.
From V Require Import Model.Gate Proofs.GateProofs.
Import ListNotations RecordSetNotations.
Open Scope Z_scope.

(* In every state other than Babbling (CatchingUp, Joining, Leaving, Shutdown, Suspended -- maintenance
   mode is Suspended from Init), for every sequence of requests (sync / eager sync with any effect /
   fast-forward / join / unknown), submitted transactions and would-be heartbeats: the state, the DAG,
   the number of self-events, the delivered blocks, the undetermined events and the internal-transaction
   pool are unchanged; only the transaction pool grows, by the number of submitted transactions; the
   answers are exactly [frozen_answer]: every request is refused with an error, except a sync request
   to a Suspended node, which gets the read-only sync answer. *)
Theorem C17_frozen : forall n is,
  n_state n <> Babbling ->
  let n' := fst (run n is) in
  n_state n' = n_state n /\ n_evs n' = n_evs n /\ n_self n' = n_self n /\
  n_delivered n' = n_delivered n /\ n_undet n' = n_undet n /\ n_ipool n' = n_ipool n /\
  n_pool n' = n_pool n + count_tx is /\
  snd (run n is) = map (frozen_answer n) is /\
  (forall i r, In i is -> frozen_answer n i = Some r ->
     resp_is_err r = true \/
     (n_state n = Suspended /\ exists k l, i = IRpc (RSync k l) /\ r = sync_response n k l)).
Proof. exact frozen_full. Qed.
Print Assumptions C17_frozen.

(* maintenance mode: Init puts the node in Suspended whatever the other options, hence frozen *)
Theorem C17_maintenance_frozen : forall n is in_peerset fastsync,
  n_state n = init_state true in_peerset fastsync ->
  n_state n = Suspended /\ n_evs (fst (run n is)) = n_evs n /\ n_self (fst (run n is)) = n_self n /\
  n_delivered (fst (run n is)) = n_delivered n.
Proof. exact maintenance_frozen. Qed.
Print Assumptions C17_maintenance_frozen.

(* the answer of a Suspended node to a sync request is the same function of what the node knows as
   the answer of a Babbling node, and leaves the node as it is *)
Theorem C17_suspended_sync : forall n k l,
  process_rpc (n <| n_state := Suspended |>) (RSync k l) = (n <| n_state := Suspended |>, sync_response n k l) /\
  process_rpc (n <| n_state := Babbling |>) (RSync k l) = (n <| n_state := Babbling |>, sync_response n k l).
Proof. exact suspended_sync_same. Qed.
Print Assumptions C17_suspended_sync.

(* ... and that function is a correct difference: only events the node has and the requester lacks ... *)
Theorem C17_sync_diff_sound : forall n k l err evs kn e,
  sync_response n k l = RespSync err evs kn -> In e evs ->
  In e (n_evs n) /\ known_of k (ev_creator e) < ev_index e.
Proof. exact sync_response_sound. Qed.
Print Assumptions C17_sync_diff_sound.

(* ... all of them when they fit in the sync limit; in the node's topological order, as a prefix, otherwise;
   together with the node's own known map *)
Theorem C17_sync_diff_complete : forall n k l evs kn e,
  sync_response n k l = RespSync false evs kn ->
  Z.of_nat (length (event_diff (n_evs n) k)) <= zmin l (n_sync_limit n) ->
  In e (n_evs n) -> known_of k (ev_creator e) < ev_index e -> In e evs.
Proof. exact sync_response_complete. Qed.
Print Assumptions C17_sync_diff_complete.

Theorem C17_sync_diff_prefix : forall n k l err evs kn,
  sync_response n k l = RespSync err evs kn ->
  kn = known_events n /\
  (err = true -> evs = [] /\ diff_fails (n_parts n) k = true) /\
  (err = false ->
     diff_fails (n_parts n) k = false /\
     exists m, evs = firstn m (event_diff (n_evs n) k) /\
       (length evs = length (event_diff (n_evs n) k) \/
        Z.of_nat (length evs) = Z.max 0 (zmin l (n_sync_limit n)))).
Proof. exact sync_response_events. Qed.
Print Assumptions C17_sync_diff_prefix.

(* checkSuspend in Babbling: over the limit, or evicted  =>  Suspended *)
Theorem C17_suspends : forall n,
  n_state n = Babbling ->
  (n_undet n - n_init_undet n > n_suspend_limit n * n_validators n \/
   exists l, n_lcr n = Some l /\ n_removed n > 0 /\ n_removed n > n_accepted n /\ l >= n_removed n) ->
  n_state (check_suspend n) = Suspended.
Proof. exact suspends. Qed.
Print Assumptions C17_suspends.

(* and only then *)
Theorem C17_suspends_only_if : forall n,
  n_state n = Babbling -> n_state (check_suspend n) <> Babbling ->
  (n_undet n - n_init_undet n > n_suspend_limit n * n_validators n \/
   exists l, n_lcr n = Some l /\ n_removed n > 0 /\ n_removed n > n_accepted n /\ l >= n_removed n).
Proof. exact suspends_only_if. Qed.
Print Assumptions C17_suspends_only_if.

(* one turn of the babble loop (work with any effect, then checkSuspend): a node that is still
   Babbling afterwards is within limit x validators and not evicted *)
Theorem C17_heartbeat_bound : forall n e,
  let n' := fst (step n (IHeartbeat e)) in
  n_state n = Babbling -> n_state n' = Babbling ->
  n_undet n' - n_init_undet n' <= n_suspend_limit n' * n_validators n' /\ evicted n' = false.
Proof. exact heartbeat_bound. Qed.
Print Assumptions C17_heartbeat_bound.

Theorem C17_heartbeat_suspends : forall n e,
  n_state n = Babbling ->
  too_many (apply_effect n e) = true \/ evicted (apply_effect n e) = true ->
  n_state (fst (step n (IHeartbeat e))) = Suspended.
Proof. exact heartbeat_suspends. Qed.
Print Assumptions C17_heartbeat_suspends.

(* non-vacuity: a Suspended node with a 5-event DAG is sent an eager sync that would add events, a
   join, a transaction, a fast-forward request and a sync request; a Babbling node with the same
   eager sync does change; a Babbling node over the limit is suspended by the heartbeat. *)
Definition ex_evs := [mkEv 10 0 0; mkEv 20 0 1; mkEv 10 1 2; mkEv 30 0 3; mkEv 20 1 4].
Definition ex_node (s : nstate) :=
  mkNode s ex_evs [10; 20; 30] 2 1 3 0 5 0 3 1 1000 (-1) (-1) (Some 0) true.
Definition ex_eff := mkEff [mkEv 30 1 5; mkEv 10 2 6] 1 1 4 0 0 3 (-1) (Some 1) true false.
Definition ex_eff2 := mkEff [mkEv 20 2 7] 0 0 4 0 1 3 (-1) (Some 1) true false.
Definition ex_inputs :=
  [IRpc (REager ex_eff); IRpc (RJoin true false None); ITx; IRpc RFastForward;
   IRpc (RSync [(10, 0); (20, 1)] 10); IHeartbeat ex_eff2].
Example C17_example :
  (let (n', outs) := run (ex_node Suspended) ex_inputs in
   n_evs n' = ex_evs /\ n_self n' = 2 /\ n_delivered n' = 1 /\ n_pool n' = 4 /\ n_ipool n' = 0 /\
   outs = [Some RespGate; Some RespGate; None; Some RespGate;
           Some (RespSync false [mkEv 10 1 2; mkEv 30 0 3] [(10, 1); (20, 1); (30, 0)]); None]) /\
  (let (n', outs) := run (ex_node Babbling) ex_inputs in
   length (n_evs n') = 8%nat /\ n_self n' = 3 /\ n_delivered n' = 2 /\ n_ipool n' = 1 /\ n_state n' = Suspended) /\
  n_state (check_suspend (ex_node Babbling)) = Suspended /\
  n_state (check_suspend ((ex_node Babbling) <| n_undet := 3 |>)) = Babbling /\
  n_state (check_suspend ((ex_node Babbling) <| n_undet := 0 |> <| n_removed := 1 |> <| n_lcr := Some 1 |>)) = Suspended.
Proof. vm_compute. repeat split. Qed.
