(* C18 Block timestamps are Byzantine-tolerant medians.
   Statements only; every proof is `exact <lemma>`.

   Go code: src/common/median.go ; executable model: Model/Median.v (wrap64, sortZ, median).

   NOTE ON THE RANGE PREMISE.  The task suggested the premise  -2^62 <= h <= 2^62  on the
   honest values.  With that closed upper bound the statement is FALSE: two honest values
   equal to 2^62 sum to 2^63, which wraps to -2^63 in int64, and the "median" becomes -2^62
   (see C18_closed_range_refuted / C18_corner_value below).  The premise is therefore
   tightened to  -2^62 <= h <= 2^62 - 1  (i.e. -2^62 <= h < 2^62): exactly the condition that
   the sum of two honest values stays in the int64 range [-2^63, 2^63 - 1].
   No assumption whatsoever is made on the Byzantine values (arbitrary Z). *)
From Coq Require Import ZArith List Sorted Permutation.
From V Require Import Model.Median Model.MedianAux Proofs.MedianProofs.
Import ListNotations.
Open Scope Z_scope.

(* ---- 1. sortZ is a sorted permutation; order independence ---- *)

Theorem C18_sortZ_sorted : forall l, Sorted Z.le (sortZ l).
Proof. exact sortZ_sorted. Qed.
Print Assumptions C18_sortZ_sorted.

Theorem C18_sortZ_strongly_sorted : forall l, StronglySorted Z.le (sortZ l).
Proof. exact sortZ_ssorted. Qed.
Print Assumptions C18_sortZ_strongly_sorted.

Theorem C18_sortZ_perm : forall l, Permutation (sortZ l) l.
Proof. exact sortZ_perm. Qed.
Print Assumptions C18_sortZ_perm.

Theorem C18_sortZ_perm_invariant : forall l l', Permutation l l' -> sortZ l = sortZ l'.
Proof. exact sortZ_perm_invariant. Qed.
Print Assumptions C18_sortZ_perm_invariant.

(* the median does not depend on the order of its input *)
Theorem C18_median_order_independent : forall l l', Permutation l l' -> median l = median l'.
Proof. exact median_perm_invariant. Qed.
Print Assumptions C18_median_order_independent.

(* ---- 2. the BFT median theorem (honest strict majority suffices) ---- *)

Theorem C18_median_bft : forall (hon byz l : list Z),
  Permutation l (hon ++ byz) ->
  (2 * length byz < length hon + length byz)%nat ->
  (forall h, In h hon -> - 2 ^ 62 <= h <= 2 ^ 62 - 1) ->
  forall lo hi, (forall h, In h hon -> lo <= h <= hi) ->
  lo <= median l <= hi.
Proof. exact median_bft. Qed.
Print Assumptions C18_median_bft.

(* for an odd number of famous witnesses no range premise is needed at all *)
Theorem C18_median_bft_odd : forall (hon byz l : list Z) m,
  Permutation l (hon ++ byz) ->
  length l = (2 * m + 1)%nat ->
  (2 * length byz < length hon + length byz)%nat ->
  forall lo hi, (forall h, In h hon -> lo <= h <= hi) ->
  lo <= median l <= hi.
Proof. exact median_bft_odd. Qed.
Print Assumptions C18_median_bft_odd.

(* the key positional facts on the sorted list *)
Theorem C18_sorted_nth_between : forall l hon byz lo hi k,
  Permutation l (hon ++ byz) ->
  (forall h, In h hon -> lo <= h <= hi) ->
  (length byz <= k)%nat -> (k + length byz < length l)%nat ->
  lo <= nth k (sortZ l) 0 <= hi.
Proof. exact sorted_nth_between. Qed.
Print Assumptions C18_sorted_nth_between.

(* ---- 3. fewer than one third Byzantine ---- *)

Theorem C18_third_corollary : forall (hon byz l : list Z),
  Permutation l (hon ++ byz) ->
  (3 * length byz < length hon + length byz)%nat ->
  (forall h, In h hon -> - 2 ^ 62 <= h <= 2 ^ 62 - 1) ->
  forall lo hi, (forall h, In h hon -> lo <= h <= hi) ->
  lo <= median l <= hi.
Proof. exact median_bft_third. Qed.
Print Assumptions C18_third_corollary.

(* instantiated at the smallest and largest honest time *)
Theorem C18_third_minmax : forall (hon byz l : list Z),
  Permutation l (hon ++ byz) ->
  (3 * length byz < length hon + length byz)%nat ->
  (forall h, In h hon -> - 2 ^ 62 <= h <= 2 ^ 62 - 1) ->
  list_min hon <= median l <= list_max hon.
Proof. exact median_bft_minmax. Qed.
Print Assumptions C18_third_minmax.

(* ---- optional facts ---- *)

Theorem C18_median_singleton : forall x, median [x] = x.
Proof. exact median_singleton. Qed.
Print Assumptions C18_median_singleton.

Theorem C18_median_odd_In : forall l m, length l = (2 * m + 1)%nat -> In (median l) l.
Proof. exact median_odd_In. Qed.
Print Assumptions C18_median_odd_In.

Theorem C18_median_in_int64 : forall l,
  (forall x, In x l -> in_int64 x) -> in_int64 (median l).
Proof. exact median_in_int64. Qed.
Print Assumptions C18_median_in_int64.

(* ---- 4. the range premise is necessary, and the closed bound 2^62 is too weak ---- *)

(* two honest values 2^62+1, no Byzantine value at all: the "median" is negative *)
Example C18_wrap_needed :
  median [2 ^ 62 + 1; 2 ^ 62 + 1] = - (2 ^ 62 - 1) /\ median [2 ^ 62 + 1; 2 ^ 62 + 1] < 0.
Proof. vm_compute. split; reflexivity. Qed.

Theorem C18_wrap_needed_full :
  let hon := [2 ^ 62 + 1; 2 ^ 62 + 1] in
  let byz := @nil Z in
  Permutation hon (hon ++ byz) /\
  (2 * length byz < length hon + length byz)%nat /\
  (forall h, In h hon -> 2 ^ 62 + 1 <= h <= 2 ^ 62 + 1) /\
  median hon = - (2 ^ 62 - 1) /\ median hon < 0 /\
  ~ (2 ^ 62 + 1 <= median hon <= 2 ^ 62 + 1).
Proof. exact median_wrap_needed. Qed.
Print Assumptions C18_wrap_needed_full.

(* the corner case: honest values in the CLOSED range [-2^62, 2^62] are not enough *)
Example C18_corner_value : median [2 ^ 62; 2 ^ 62] = - 2 ^ 62.
Proof. vm_compute. reflexivity. Qed.

Theorem C18_closed_range_refuted : ~ median_bft_closed_range_statement.
Proof. exact median_bft_closed_range_refuted. Qed.
Print Assumptions C18_closed_range_refuted.

(* the lower corner is fine: -2^62 + -2^62 = -2^63 does not wrap *)
Example C18_lower_corner_value : median [- 2 ^ 62; - 2 ^ 62] = - 2 ^ 62.
Proof. vm_compute. reflexivity. Qed.

(* ---- 5. non-vacuity: concrete instances with extreme Byzantine values ---- *)

Example C18_example_low : 100 <= median [101; - 2 ^ 63; 100; 102] <= 102.
Proof.
  exact (C18_median_bft [100; 101; 102] [- 2 ^ 63] [101; - 2 ^ 63; 100; 102]
           (sortZ_eq_perm [101; - 2 ^ 63; 100; 102] ([100; 101; 102] ++ [- 2 ^ 63]) eq_refl)
           (proj1 (Nat.leb_le 3 4) eq_refl)
           hon_example_range 100 102 hon_example_bounds).
Qed.

Example C18_example_high : 100 <= median [2 ^ 63 - 1; 102; 100; 101] <= 102.
Proof.
  exact (C18_median_bft [100; 101; 102] [2 ^ 63 - 1] [2 ^ 63 - 1; 102; 100; 101]
           (sortZ_eq_perm [2 ^ 63 - 1; 102; 100; 101] ([100; 101; 102] ++ [2 ^ 63 - 1]) eq_refl)
           (proj1 (Nat.leb_le 3 4) eq_refl)
           hon_example_range 100 102 hon_example_bounds).
Qed.

Example C18_example_third :
  list_min [100; 101; 102; 103; 104] <= median [2 ^ 63 - 1; 102; 104; 100; - 2 ^ 63; 103; 101]
    <= list_max [100; 101; 102; 103; 104].
Proof. exact median_example_third. Qed.

(* the actual values *)
Example C18_example_values :
  median [101; - 2 ^ 63; 100; 102] = 100 /\ median [2 ^ 63 - 1; 102; 100; 101] = 101 /\
  median [2 ^ 63 - 1; 102; 104; 100; - 2 ^ 63; 103; 101] = 102 /\
  sortZ [3; -1; 2; -1] = [-1; -1; 2; 3] /\ median [3; -1; 2; -1] = 0 /\ median [-3; -4] = -3.
Proof. vm_compute. repeat split. Qed.
