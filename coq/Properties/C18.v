(* C18 Block timestamps are Byzantine-tolerant medians.
   Statements only; every proof is `exact <lemma>`.

   Go code: src/common/median.go ; executable model: Model/Median.v (wrap64, sortZ, median).

   NOTE ON THE RANGE PREMISE.  The task suggested the premise  -2^62 <= h <= 2^62  on the
   honest values.  With that closed upper bound the statement is FALSE: two honest values
   equal to 2^62 sum to 2^63, which wraps to -2^63 in int64, and the "median" becomes -2^62
   (see C18_closed_range_refuted / C18_corner_value below).  The premise is therefore
   tightened to  -2^62 <= h <= 2^62 - 1  (i.e. -2^62 <= h < 2^62): exactly the condition that
   the sum of two honest values stays in the int64 range [-2^63, 2^63 - 1].
   No assumption whatsoever is made on the Byzantine values (arbitrary Z).

   Section 6 ties the median to the hashgraph model (Model/HgImpl.v get_frame / block_of_frame /
   commit): the timestamp of every delivered block IS that median, over the famous witnesses of
   the block's round-received, in every reachable state (Proofs/TidyC18.v). *)
From Coq Require Import ZArith List Bool Sorted Permutation.
From V Require Import Model.ZMap Model.Quorum Model.Median Model.MedianAux Model.HgImpl
  Proofs.MedianProofs Proofs.AdmissionProofs Proofs.BlockInv Proofs.OrderProofs Proofs.TidyC18.
Import ListNotations.
Open Scope Z_scope.

(* ---- 1. sortZ is a sorted permutation; order independence ---- *)

Theorem C18_sortZ_sorted : forall l, Sorted Z.le (sortZ l).
Proof. exact sortZ_sorted. Qed.
Print Assumptions C18_sortZ_sorted.

Theorem C18_sortZ_strongly_sorted : forall l, StronglySorted Z.le (sortZ l).
Proof. exact sortZ_ssorted. Qed.
Print Assumptions C18_sortZ_strongly_sorted.

Theorem C18_sortZ_perm : forall l, Permutation (sortZ l) l.
Proof. exact sortZ_perm. Qed.
Print Assumptions C18_sortZ_perm.

Theorem C18_sortZ_perm_invariant : forall l l', Permutation l l' -> sortZ l = sortZ l'.
Proof. exact sortZ_perm_invariant. Qed.
Print Assumptions C18_sortZ_perm_invariant.

(* the median does not depend on the order of its input *)
Theorem C18_median_order_independent : forall l l', Permutation l l' -> median l = median l'.
Proof. exact median_perm_invariant. Qed.
Print Assumptions C18_median_order_independent.

(* ---- 2. the BFT median theorem (honest strict majority suffices) ---- *)

Theorem C18_median_bft : forall (hon byz l : list Z),
  Permutation l (hon ++ byz) ->
  (2 * length byz < length hon + length byz)%nat ->
  (forall h, In h hon -> - 2 ^ 62 <= h <= 2 ^ 62 - 1) ->
  forall lo hi, (forall h, In h hon -> lo <= h <= hi) ->
  lo <= median l <= hi.
Proof. exact median_bft. Qed.
Print Assumptions C18_median_bft.

(* for an odd number of famous witnesses no range premise is needed at all *)
Theorem C18_median_bft_odd : forall (hon byz l : list Z) m,
  Permutation l (hon ++ byz) ->
  length l = (2 * m + 1)%nat ->
  (2 * length byz < length hon + length byz)%nat ->
  forall lo hi, (forall h, In h hon -> lo <= h <= hi) ->
  lo <= median l <= hi.
Proof. exact median_bft_odd. Qed.
Print Assumptions C18_median_bft_odd.

(* the key positional facts on the sorted list *)
Theorem C18_sorted_nth_between : forall l hon byz lo hi k,
  Permutation l (hon ++ byz) ->
  (forall h, In h hon -> lo <= h <= hi) ->
  (length byz <= k)%nat -> (k + length byz < length l)%nat ->
  lo <= nth k (sortZ l) 0 <= hi.
Proof. exact sorted_nth_between. Qed.
Print Assumptions C18_sorted_nth_between.

(* ---- 3. fewer than one third Byzantine ---- *)

Theorem C18_third_corollary : forall (hon byz l : list Z),
  Permutation l (hon ++ byz) ->
  (3 * length byz < length hon + length byz)%nat ->
  (forall h, In h hon -> - 2 ^ 62 <= h <= 2 ^ 62 - 1) ->
  forall lo hi, (forall h, In h hon -> lo <= h <= hi) ->
  lo <= median l <= hi.
Proof. exact median_bft_third. Qed.
Print Assumptions C18_third_corollary.

(* instantiated at the smallest and largest honest time *)
Theorem C18_third_minmax : forall (hon byz l : list Z),
  Permutation l (hon ++ byz) ->
  (3 * length byz < length hon + length byz)%nat ->
  (forall h, In h hon -> - 2 ^ 62 <= h <= 2 ^ 62 - 1) ->
  list_min hon <= median l <= list_max hon.
Proof. exact median_bft_minmax. Qed.
Print Assumptions C18_third_minmax.

(* ---- optional facts ---- *)

Theorem C18_median_singleton : forall x, median [x] = x.
Proof. exact median_singleton. Qed.
Print Assumptions C18_median_singleton.

Theorem C18_median_odd_In : forall l m, length l = (2 * m + 1)%nat -> In (median l) l.
Proof. exact median_odd_In. Qed.
Print Assumptions C18_median_odd_In.

Theorem C18_median_in_int64 : forall l,
  (forall x, In x l -> in_int64 x) -> in_int64 (median l).
Proof. exact median_in_int64. Qed.
Print Assumptions C18_median_in_int64.

(* ---- 4. the range premise is necessary, and the closed bound 2^62 is too weak ---- *)

(* two honest values 2^62+1, no Byzantine value at all: the "median" is negative *)
Example C18_wrap_needed :
  median [2 ^ 62 + 1; 2 ^ 62 + 1] = - (2 ^ 62 - 1) /\ median [2 ^ 62 + 1; 2 ^ 62 + 1] < 0.
Proof. vm_compute. split; reflexivity. Qed.

Theorem C18_wrap_needed_full :
  let hon := [2 ^ 62 + 1; 2 ^ 62 + 1] in
  let byz := @nil Z in
  Permutation hon (hon ++ byz) /\
  (2 * length byz < length hon + length byz)%nat /\
  (forall h, In h hon -> 2 ^ 62 + 1 <= h <= 2 ^ 62 + 1) /\
  median hon = - (2 ^ 62 - 1) /\ median hon < 0 /\
  ~ (2 ^ 62 + 1 <= median hon <= 2 ^ 62 + 1).
Proof. exact median_wrap_needed. Qed.
Print Assumptions C18_wrap_needed_full.

(* the corner case: honest values in the CLOSED range [-2^62, 2^62] are not enough *)
Example C18_corner_value : median [2 ^ 62; 2 ^ 62] = - 2 ^ 62.
Proof. vm_compute. reflexivity. Qed.

Theorem C18_closed_range_refuted : ~ median_bft_closed_range_statement.
Proof. exact median_bft_closed_range_refuted. Qed.
Print Assumptions C18_closed_range_refuted.

(* the lower corner is fine: -2^62 + -2^62 = -2^63 does not wrap *)
Example C18_lower_corner_value : median [- 2 ^ 62; - 2 ^ 62] = - 2 ^ 62.
Proof. vm_compute. reflexivity. Qed.

(* ---- 5. non-vacuity: concrete instances with extreme Byzantine values ---- *)

Example C18_example_low : 100 <= median [101; - 2 ^ 63; 100; 102] <= 102.
Proof.
  exact (C18_median_bft [100; 101; 102] [- 2 ^ 63] [101; - 2 ^ 63; 100; 102]
           (sortZ_eq_perm [101; - 2 ^ 63; 100; 102] ([100; 101; 102] ++ [- 2 ^ 63]) eq_refl)
           (proj1 (Nat.leb_le 3 4) eq_refl)
           hon_example_range 100 102 hon_example_bounds).
Qed.

Example C18_example_high : 100 <= median [2 ^ 63 - 1; 102; 100; 101] <= 102.
Proof.
  exact (C18_median_bft [100; 101; 102] [2 ^ 63 - 1] [2 ^ 63 - 1; 102; 100; 101]
           (sortZ_eq_perm [2 ^ 63 - 1; 102; 100; 101] ([100; 101; 102] ++ [2 ^ 63 - 1]) eq_refl)
           (proj1 (Nat.leb_le 3 4) eq_refl)
           hon_example_range 100 102 hon_example_bounds).
Qed.

Example C18_example_third :
  list_min [100; 101; 102; 103; 104] <= median [2 ^ 63 - 1; 102; 104; 100; - 2 ^ 63; 103; 101]
    <= list_max [100; 101; 102; 103; 104].
Proof. exact median_example_third. Qed.

(* the actual values *)
Example C18_example_values :
  median [101; - 2 ^ 63; 100; 102] = 100 /\ median [2 ^ 63 - 1; 102; 100; 101] = 101 /\
  median [2 ^ 63 - 1; 102; 104; 100; - 2 ^ 63; 103; 101] = 102 /\
  sortZ [3; -1; 2; -1] = [-1; -1; 2; 3] /\ median [3; -1; 2; -1] = 0 /\ median [-3; -4] = -3.
Proof. vm_compute. repeat split. Qed.

(* ---- 6. end to end: the timestamp of a delivered block ---- *)

(* [hrun]: any sequence of insertion attempts (valid or not) and ProcessSigPool calls from any
   genesis; hypotheses as in C04 (identifiers determine events, numbered from 0).
   [fws st r]  = the famous witnesses of round r as the round table of st reports them,
   [ets st w]  = Body.Timestamp of the stored event w.
   The timestamp of every delivered block is the median of the timestamps of the famous witnesses
   of its round-received -- read in the state at hand, at delivery or at any later time: the set
   is frozen once the round has been processed and stored events keep their body --, it is the
   frame's timestamp, and these witnesses are stored (admitted) events. *)
Theorem C18_block_timestamp_is_median : forall all self_ genesis oracle_ ops d,
  ids_determine all -> Forall (hop_ok all) ops ->
  let st := hrun (init_hg self_ genesis oracle_) ops in
  In d (delivered st) ->
  b_ts d = median (map (ets st) (fws st (b_rr d))) /\
  b_ts d = f_ts (b_frame d) /\
  (forall w, In w (fws st (b_rr d)) -> exists ex, get_event st w = Some ex /\ ets st w = e_ts (ev_e ex)).
Proof. exact block_timestamp_is_median. Qed.
Print Assumptions C18_block_timestamp_is_median.

(* [fws] is the famous-witness list of the RoundInfo, which exists for every delivered block's
   round when no pass returned a store error *)
Theorem C18_famous_witnesses_of_round : forall all self_ genesis oracle_ ops d,
  ids_determine all -> Forall (hop_ok all) ops ->
  let st := hrun (init_hg self_ genesis oracle_) ops in
  failed st = false -> In d (delivered st) ->
  exists ri, get_round st (b_rr d) = Some ri.
Proof. exact delivered_round_present. Qed.
Print Assumptions C18_famous_witnesses_of_round.
Theorem C18_fws_is_round_info : forall st r ri, get_round st r = Some ri -> fws st r = famous_witnesses ri.
Proof. exact fws_round. Qed.
Print Assumptions C18_fws_is_round_info.

(* THE PROPERTY.  [is_byz] marks the Byzantine famous witnesses of the block's round (arbitrary
   timestamps); the others are honest.  Fewer than half Byzantine + honest timestamps in the
   no-wrap range => the block timestamp lies between the smallest and the largest honest one. *)
Theorem C18_block_timestamp_in_honest_range : forall all self_ genesis oracle_ ops d (is_byz : Z -> bool),
  ids_determine all -> Forall (hop_ok all) ops ->
  let st := hrun (init_hg self_ genesis oracle_) ops in
  In d (delivered st) ->
  let fw := fws st (b_rr d) in
  let hon := map (ets st) (filter (fun w => negb (is_byz w)) fw) in
  (2 * length (filter is_byz fw) < length fw)%nat ->
  (forall h, In h hon -> - 2 ^ 62 <= h <= 2 ^ 62 - 1) ->
  list_min hon <= b_ts d <= list_max hon.
Proof. exact block_timestamp_in_honest_range. Qed.
Print Assumptions C18_block_timestamp_in_honest_range.

(* a fortiori with fewer than a third Byzantine (the protocol's assumption) *)
Theorem C18_block_timestamp_in_honest_range_third : forall all self_ genesis oracle_ ops d (is_byz : Z -> bool),
  ids_determine all -> Forall (hop_ok all) ops ->
  let st := hrun (init_hg self_ genesis oracle_) ops in
  In d (delivered st) ->
  let fw := fws st (b_rr d) in
  let hon := map (ets st) (filter (fun w => negb (is_byz w)) fw) in
  (3 * length (filter is_byz fw) < length fw)%nat ->
  (forall h, In h hon -> - 2 ^ 62 <= h <= 2 ^ 62 - 1) ->
  list_min hon <= b_ts d <= list_max hon.
Proof. exact block_timestamp_in_honest_range_third. Qed.
Print Assumptions C18_block_timestamp_in_honest_range_third.

(* with an odd number of famous witnesses no range premise is needed *)
Theorem C18_block_timestamp_in_honest_range_odd : forall all self_ genesis oracle_ ops d (is_byz : Z -> bool) m,
  ids_determine all -> Forall (hop_ok all) ops ->
  let st := hrun (init_hg self_ genesis oracle_) ops in
  In d (delivered st) ->
  let fw := fws st (b_rr d) in
  let hon := map (ets st) (filter (fun w => negb (is_byz w)) fw) in
  length fw = (2 * m + 1)%nat ->
  (2 * length (filter is_byz fw) < length fw)%nat ->
  list_min hon <= b_ts d <= list_max hon.
Proof. exact block_timestamp_in_honest_range_odd. Qed.
Print Assumptions C18_block_timestamp_in_honest_range_odd.

(* non-vacuity: three validators gossiping in a ring; event k is created by validator k mod 3;
   validators 0 and 1 stamp 1000 + 10k, validator 2 is Byzantine and stamps nearly 2^63.  Five
   blocks are delivered; each round has three famous witnesses, one of them Byzantine; every block
   timestamp is an honest one (the larger of the two, the median of three with one huge value). *)
Definition c18_g : peerset := [mkPeer 100 0; mkPeer 101 1; mkPeer 102 2].
Definition c18_ev (k : Z) : event :=
  mkEvent k (k mod 3) (k / 3) (if k <? 3 then -1 else k - 3) (if k =? 0 then -1 else k - 1)
          (if k mod 3 =? 2 then 2 ^ 63 - 1 - k else 1000 + 10 * k)
          (Z.even (k / 3)) (100 - k) [k] [] [] true.
Definition c18_all : list event := map c18_ev (zseq 0 30).
Definition c18_ops : list hop := map HInsert c18_all ++ [HSigPool].
Definition c18_st : hg := hrun (init_hg 0 c18_g [7; 8; 9; 10; 11; 12; 13; 14; 15]) c18_ops.
Definition c18_byz (w : Z) : bool := w mod 3 =? 2.

Example C18_example_blocks :
  ids_determine c18_all /\ Forall (hop_ok c18_all) c18_ops /\ failed c18_st = false /\
  map (fun d => (b_index d, b_rr d, b_ts d, fws c18_st (b_rr d), map (ets c18_st) (fws c18_st (b_rr d))))
      (delivered c18_st)
  = [(0, 1, 1060, [4; 5; 6], [1040; 9223372036854775802; 1060]);
     (1, 2, 1100, [8; 9; 10], [9223372036854775799; 1090; 1100]);
     (2, 3, 1130, [12; 13; 14], [1120; 1130; 9223372036854775793]);
     (3, 4, 1180, [16; 17; 18], [1160; 9223372036854775790; 1180]);
     (4, 5, 1220, [20; 21; 22], [9223372036854775787; 1210; 1220])] /\
  (* the hypotheses of C18_block_timestamp_in_honest_range hold for every delivered block *)
  forallb (fun d => let fw := fws c18_st (b_rr d) in
                    (2 * Z.of_nat (length (filter c18_byz fw)) <? Z.of_nat (length fw)) &&
                    forallb (fun h => (- 2 ^ 62 <=? h) && (h <=? 2 ^ 62 - 1))
                            (map (ets c18_st) (filter (fun w => negb (c18_byz w)) fw)))
          (delivered c18_st) = true.
Proof.
  split; [apply ids_determine_distinct; vm_compute; reflexivity|].
  split; [apply Forall_app; split; [apply hop_ok_inserts; vm_compute; reflexivity|repeat constructor]|].
  vm_compute. repeat split; reflexivity.
Qed.
