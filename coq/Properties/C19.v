(* C19 Quorum thresholds.  Statements only; every proof is `exact <lemma>`. *)
From Coq Require Import ZArith List.
From V Require Import Model.Quorum Proofs.QuorumProofs.
Import ListNotations.
Open Scope Z_scope.

(* the supermajority threshold is the least integer strictly greater than 2n/3 (all n >= 0) *)
Theorem C19_sm_least : forall n, 0 <= n ->
  (3 * sm n > 2 * n /\ 3 * (sm n - 1) <= 2 * n) /\ (forall m, 3 * m > 2 * n -> sm n <= m).
Proof. exact (fun n H => conj (sm_least n H) (fun m => sm_is_least n m H)). Qed.
Print Assumptions C19_sm_least.

(* trusted only with strictly more than n/3 signatures of distinct validators *)
Theorem C19_trusted_gt_third : forall k slice_len n, 1 <= n -> n <= slice_len ->
  trusted k slice_len n = true -> 3 * k > n.
Proof. exact trusted_gt_third. Qed.
Print Assumptions C19_trusted_gt_third.

(* a single signature suffices only for n = 1 *)
Theorem C19_trusted_one_iff : forall n, 1 <= n -> (trusted 1 n n = true <-> n = 1).
Proof. exact (fun n H => trusted_one_iff n n H eq_refl). Qed.
Print Assumptions C19_trusted_one_iff.

(* any two supermajorities of a validator set share more than n/3 validators *)
Theorem C19_sm_intersect : forall u a b : list Z,
  NoDup u -> NoDup a -> NoDup b -> incl a u -> incl b u ->
  let n := Z.of_nat (length u) in
  sm n <= Z.of_nat (length a) -> sm n <= Z.of_nat (length b) ->
  3 * Z.of_nat (length (inter a b)) > n.
Proof. exact sm_intersect. Qed.
Print Assumptions C19_sm_intersect.

(* a supermajority contains a majority of honest validators when fewer than n/3 are faulty *)
Theorem C19_sm_honest_majority : forall u a flt : list Z,
  NoDup u -> NoDup a -> NoDup flt -> incl a u -> incl flt u ->
  let n := Z.of_nat (length u) in
  3 * Z.of_nat (length flt) < n -> sm n <= Z.of_nat (length a) ->
  Z.of_nat (length (diff a flt)) > Z.of_nat (length (inter a flt)).
Proof. exact sm_honest_majority. Qed.
Print Assumptions C19_sm_honest_majority.

(* a trusted block always has at least one honest signer *)
Theorem C19_trusted_has_honest : forall u signers flt : list Z,
  NoDup u -> NoDup signers -> NoDup flt -> incl signers u -> incl flt u ->
  let n := Z.of_nat (length u) in
  1 <= n -> 3 * Z.of_nat (length flt) < n ->
  trusted (Z.of_nat (length signers)) n n = true ->
  exists s, In s signers /\ ~ In s flt.
Proof. exact trusted_has_honest. Qed.
Print Assumptions C19_trusted_has_honest.

(* validator sets built by any sequence of additions and removals have pairwise distinct
   keys, and their thresholds are those of the number of distinct validators *)
Theorem C19_thresholds_use_distinct_count : forall (idf : Z -> Z) ops,
  Forall (fun o => idfun idf (op_peer o)) ops ->
  let ps := ps_run ops in
  let n := Z.of_nat (length (dedup (keys ps))) in
  NoDup (keys ps) /\ super_majority ps = sm n /\ trust_count ps = tc n n.
Proof. exact thresholds_use_distinct_count. Qed.
Print Assumptions C19_thresholds_use_distinct_count.

(* also for a hostile peer slice that repeats keys *)
Theorem C19_trusted_hostile_slice : forall k ps,
  1 <= ps_len ps -> trusted k (ps_slice_len ps) (ps_len ps) = true -> 3 * k > ps_len ps.
Proof. exact trusted_hostile_slice. Qed.
Print Assumptions C19_trusted_hostile_slice.

(* non-vacuity: concrete sets meet the hypotheses *)
Example C19_example :
  sm 4 = 3 /\ tc 4 4 = 2 /\ trusted 3 4 4 = true /\ trusted 2 4 4 = false /\
  keys (ps_run [OpAdd (mkPeer 1 10); OpAdd (mkPeer 2 20); OpAdd (mkPeer 1 10); OpRemove (mkPeer 2 20)]) = [10].
Proof. vm_compute. repeat split. Qed.
