(* C20 The application proxy is transparent for arbitrary payloads.
   Statements only; every proof is `exact <lemma>`. *)
From Coq Require Import ZArith List Bool.
From V Require Import Model.Proxy Proofs.ProxyProofs.
Import ListNotations.
Open Scope Z_scope.

(* ---------- the retry loop of both socket clients ---------- *)

(* a call that returns without error returns the reply of an attempt that went through (the first one),
   and that attempt is one of the three *)
Theorem C20_no_empty_success : forall (R : Type) conn (outs : list (outcome R)) r,
  c_result (call conn outs) = Some r ->
  exists k, (k < 3)%nat /\ nth_error outs k = Some (Ok r) /\
    forall j, (j < k)%nat -> exists o, nth_error outs j = Some o /\ is_ok o = false.
Proof. exact no_empty_success. Qed.
Print Assumptions C20_no_empty_success.

(* when every attempt fails (dial, call, timeout, in any combination) the call returns an error *)
Theorem C20_all_fail_error : forall (R : Type) conn (outs : list (outcome R)),
  (forall o, In o (firstn 3 outs) -> is_ok o = false) -> c_result (call conn outs) = None.
Proof. exact all_fail_error. Qed.
Print Assumptions C20_all_fail_error.

(* conversely an attempt that goes through after at most two failures makes the call succeed *)
Theorem C20_first_ok_decides : forall (R : Type) conn (outs : list (outcome R)) k r,
  (k < 3)%nat -> nth_error outs k = Some (Ok r) ->
  (forall j, (j < k)%nat -> exists o, nth_error outs j = Some o /\ is_ok o = false) ->
  c_result (call conn outs) = Some r.
Proof. exact first_ok_success. Qed.
Print Assumptions C20_first_ok_decides.

Theorem C20_at_most_three : forall (R : Type) conn (outs : list (outcome R)),
  (c_attempts (call conn outs) <= 3)%nat /\ (c_deliveries (call conn outs) <= 3)%nat /\
  (c_dials (call conn outs) <= 3)%nat.
Proof. exact at_most_three. Qed.
Print Assumptions C20_at_most_three.

(* a success means the handler ran at least once (it may have run up to three times: a retried call is
   delivered again), and the connection is kept; an error after three attempts drops the connection *)
Theorem C20_at_least_once : forall (R : Type) conn (outs : list (outcome R)) r,
  c_result (call conn outs) = Some r ->
  (1 <= c_deliveries (call conn outs))%nat /\ c_conn (call conn outs) = true.
Proof. exact at_least_once. Qed.
Print Assumptions C20_at_least_once.

Theorem C20_error_drops_connection : forall (R : Type) conn (outs : list (outcome R)),
  (3 <= length outs)%nat -> c_result (call conn outs) = None -> c_conn (call conn outs) = false.
Proof. exact error_drops_connection. Qed.
Print Assumptions C20_error_drops_connection.

(* Successive calls on one client are independent: the reply (and the number of deliveries) of the k-th call is a
   function of the k-th call's own attempts only -- not of the connection left by earlier calls, not of any
   earlier or later reply.  (The model is value-semantic: a returned reply is never touched again; the harness's
   retention check `content-changed-after-later-call` is the implementation-side counterpart.) *)
Theorem C20_calls_independent : forall (R : Type) (calls : list (list (outcome R))) conn,
  map c_result (call_seq conn calls) = map (fun outs => c_result (call false outs)) calls /\
  map c_deliveries (call_seq conn calls) = map (fun outs => c_deliveries (call false outs)) calls.
Proof. exact call_seq_results. Qed.
Print Assumptions C20_calls_independent.

Theorem C20_earlier_results_unaffected : forall (R : Type) conn conn' (pre pre' : list (list (outcome R))) c post post',
  length pre = length pre' ->
  nth_error (map c_result (call_seq conn (pre ++ c :: post))) (length pre) = Some (c_result (call false c)) /\
  nth_error (map c_result (call_seq conn' (pre' ++ c :: post'))) (length pre) = Some (c_result (call false c)).
Proof. exact earlier_results_unaffected. Qed.
Print Assumptions C20_earlier_results_unaffected.

(* ---------- failure and success reporting, from the handler's point of view ---------- *)
(* [isnull r]: the reply r is encoded as JSON null; [denull]: what the server methods do to a nil byte-slice
   reply (faf0201); the handler's error is wrapped so that its message is never empty (ebb9c0a). *)

(* If the application handled none of the three attempts successfully -- network faults at any position,
   handler errors with ANY message, the empty one included -- Babble gets an error.  (Was refuted before
   ebb9c0a: finding C20-empty-error-message-is-success.) *)
Theorem C20_failure_reported : forall (R : Type) (isnull : R -> bool) (denull : R -> R) conn (l : list (attempt R)),
  (forall a, In a (firstn 3 l) -> handled a = false) -> c_result (call_attempts isnull denull conn l) = None.
Proof. exact failures_reported. Qed.
Print Assumptions C20_failure_reported.

(* A call that the application handles successfully in one of the three attempts, the earlier ones not being
   handled, is a success for Babble with the application's reply -- also when that reply is a nil slice, which
   arrives as the empty slice.  (Was refuted before faf0201: finding C20-nil-result-is-error.) *)
Theorem C20_success_reported : forall (R : Type) (isnull : R -> bool) (denull : R -> R),
  (forall r, isnull (denull r) = false) ->
  forall conn (l : list (attempt R)) k r,
  (k < 3)%nat -> nth_error l k = Some (APass (HOk r)) ->
  (forall j, (j < k)%nat -> exists a, nth_error l j = Some a /\ handled a = false) ->
  c_result (call_attempts isnull denull conn l) = Some (denull r).
Proof. exact success_reported. Qed.
Print Assumptions C20_success_reported.

(* without faults: exactly one delivery *)
Theorem C20_success_first_attempt : forall (R : Type) (isnull : R -> bool) (denull : R -> R),
  (forall r, isnull (denull r) = false) ->
  forall conn r (rest : list (attempt R)),
  c_result (call_attempts isnull denull conn (APass (HOk r) :: rest)) = Some (denull r) /\
  c_deliveries (call_attempts isnull denull conn (APass (HOk r) :: rest)) = 1%nat.
Proof. exact handled_first. Qed.
Print Assumptions C20_success_first_attempt.

(* the premise holds of the byte-slice replies (snapshot, state hash) *)
Theorem C20_bytes_never_null : forall b, bytes_null (bytes_denull b) = false.
Proof. exact bytes_denull_ok. Qed.
Print Assumptions C20_bytes_never_null.

(* every success comes from an attempt whose handler succeeded, and carries exactly its reply *)
Theorem C20_success_source : forall (R : Type) (isnull : R -> bool) (denull : R -> R) conn (l : list (attempt R)) r,
  c_result (call_attempts isnull denull conn l) = Some r ->
  exists k r0, (k < 3)%nat /\ nth_error l k = Some (APass (HOk r0)) /\ r = denull r0 /\
    forall j, (j < k)%nat -> exists a, nth_error l j = Some a /\ is_ok (outcome_of isnull denull a) = false.
Proof. exact success_source. Qed.
Print Assumptions C20_success_source.

(* What remains true of net/rpc and Go's jsonrpc client by themselves (a server that hands the handler's return
   to the library unchanged, as the code did before the two fixes, or as a non-Go application may): an error
   with an empty message is a success with the zero reply, a null result is an error after three deliveries;
   the same inputs through the server methods give an error resp. a success. *)
Theorem C20_library_conventions_empty_message :
  let l := [APass (HErr true (Some [])); APass (HErr true (Some [])); APass (HErr true (Some []))] in
  c_result (call_attempts_raw bytes_null false l) = Some (Some []) /\
  c_result (call_attempts bytes_null bytes_denull false l) = None /\
  c_deliveries (call_attempts bytes_null bytes_denull false l) = 3%nat.
Proof. exact empty_message_raw_and_fixed. Qed.
Print Assumptions C20_library_conventions_empty_message.

Theorem C20_library_conventions_nil_reply :
  let l : list (attempt bytes) := [APass (HOk None); APass (HOk None); APass (HOk None)] in
  c_result (call_attempts_raw bytes_null false l) = None /\
  c_deliveries (call_attempts_raw bytes_null false l) = 3%nat /\
  c_result (call_attempts bytes_null bytes_denull false l) = Some (Some []) /\
  c_deliveries (call_attempts bytes_null bytes_denull false l) = 1%nat.
Proof. exact nil_reply_raw_and_fixed. Qed.
Print Assumptions C20_library_conventions_nil_reply.

(* ---------- the field mapping ---------- *)

(* Blocks, commit responses and transactions come out of the JSON-RPC layer with exactly the content
   that went in: every byte of every byte string (any values, any length, nil and empty kept apart,
   hence a fortiori identical modulo nil == empty), every index, every internal transaction and
   receipt, every signature entry; only the unexported caches are dropped.  Premise: byte values are
   bytes, and the Go strings (peer address / key / moniker, signatures) are valid UTF-8. *)
Theorem C20_roundtrip_block : forall b,
  block_bytes_ok b = true -> block_str_ok b = true -> through_block b = Some (strip_block b).
Proof. exact roundtrip_block. Qed.
Print Assumptions C20_roundtrip_block.

Theorem C20_roundtrip_response : forall c,
  cresp_bytes_ok c = true -> cresp_str_ok c = true -> through_cresp c = Some (strip_cresp c).
Proof. exact roundtrip_cresp. Qed.
Print Assumptions C20_roundtrip_response.

Theorem C20_roundtrip_transaction : forall b, bytes_ok b = true -> through_bytes b = Some b.
Proof. exact roundtrip_tx. Qed.
Print Assumptions C20_roundtrip_transaction.

(* peers.NewPeer (b2c4118) normalises address and moniker: whatever raw strings it is given, the result is
   valid UTF-8 (the key being a hex string), normalising twice changes nothing, and the wire leaves such a
   peer as it is.  (Before b2c4118 the creating node kept the raw bytes: finding
   C20-invalid-utf8-string-sanitised.) *)
Theorem C20_new_peer_valid : forall key net mon,
  str_ok key = true -> peer_str_ok (new_peer key net mon) = true /\ wire_peer (new_peer key net mon) = new_peer key net mon.
Proof. exact (fun key net mon H => conj (new_peer_ok key net mon H) (new_peer_wire key net mon H)). Qed.
Print Assumptions C20_new_peer_valid.

Theorem C20_to_valid_idempotent : forall s, str_ok (to_valid s) = true /\ to_valid (to_valid s) = to_valid s.
Proof. exact (fun s => conj (to_valid_ok s) (to_valid_idem s)). Qed.
Print Assumptions C20_to_valid_idempotent.

(* Hence: every block (response) whose internal transactions carry peers made by NewPeer from ARBITRARY address
   and moniker strings -- key and signature strings being the output of the hex / base-36 encoders -- reaches
   the socket application with exactly the content the in-process application sees. *)
Theorem C20_roundtrip_built_block : forall b,
  block_bytes_ok b = true -> built_block b -> through_block b = Some (strip_block b).
Proof. exact roundtrip_built_block. Qed.
Print Assumptions C20_roundtrip_built_block.

Theorem C20_roundtrip_built_response : forall c,
  cresp_bytes_ok c = true -> built_cresp c -> through_cresp c = Some (strip_cresp c).
Proof. exact roundtrip_built_cresp. Qed.
Print Assumptions C20_roundtrip_built_response.

(* for ANY strings: what arrives is the sanitised view ... *)
Theorem C20_roundtrip_block_wire : forall b,
  block_bytes_ok b = true -> through_block b = Some (wire_block b).
Proof. exact through_block_wire. Qed.
Print Assumptions C20_roundtrip_block_wire.

(* ... which still differs for a Peer that does NOT come from NewPeer or a JSON decode (a struct literal with a
   stray byte in the moniker; the code builds no such peer: documented deviation D1, the harness's control case) *)
Theorem C20_raw_peer_literal_changes :
  exists b, block_bytes_ok b = true /\ through_block b <> Some (strip_block b) /\
            through_block b = Some (wire_block b).
Proof. exact (ex_intro _ bad_block invalid_utf8_witness). Qed.
Print Assumptions C20_raw_peer_literal_changes.

(* non-vacuity *)
Definition ex_peer := mkPeer [Good 49; Good 50] [Good 48; Good 88] [Good 233; Good 128512] 77.
Definition ex_block :=
  mkBlock (mkBody 9007199254740993 (-1) 3
                  (Some []) None (Some [255; 254; 0])
                  (Some [Some [0; 1; 2; 3; 255]; None; Some []; Some [104; 105]])
                  (Some [mkItx 0 ex_peer [Good 115]; mkItx 1 ex_peer []])
                  (Some [mkReceipt (mkItx 0 ex_peer [Good 115]) true]))
          (Some [([Good 48; Good 88], [Good 97])]) (Some [1]) [Good 65] true.
Definition ex_built_block :=
  mkBlock (mkBody 5 6 7 (Some []) None None (Some [Some [255]])
                  (Some [mkItx 0 (new_peer [Good 48; Good 88] [Bad 255; Good 58] [Good 109; Bad 195; Bad 40]) [Good 50]])
                  (Some [mkReceipt (mkItx 1 (new_peer [Good 48] [] [Bad 128]) []) false]))
          (Some [([Good 48], [Good 49])]) None [] false.
Example C20_example :
  block_bytes_ok ex_block = true /\ block_str_ok ex_block = true /\
  through_block ex_block = Some (strip_block ex_block) /\
  b64enc [77; 97; 110] = [19; 22; 5; 46] /\ b64enc [77; 97] = [19; 22; 4; 64] /\ b64enc [77] = [19; 16; 64; 64] /\
  c_result (call false [CallFail true; Timeout false; Ok 5]) = Some 5 /\
  c_deliveries (call false [CallFail true; Timeout false; Ok 5]) = 2%nat /\
  c_dials (call false [CallFail true; Timeout false; Ok 5]) = 3%nat /\
  c_result (call true [DialFail; DialFail; DialFail; Ok 5]) = None /\
  c_result (call_attempts bytes_null bytes_denull true [ADropReply; APass (HErr false None); APass (HOk (Some [1]))]) = Some (Some [1]) /\
  c_result (call_attempts bytes_null bytes_denull true [ADropReply; APass (HErr true None); APass (HOk None)]) = Some (Some []) /\
  c_result (call_attempts bytes_null bytes_denull false [APass (HErr true (Some [])); AStallReply; ADown; APass (HOk (Some []))]) = None /\
  new_peer [Good 48] [Good 97; Bad 255; Bad 254; Good 98; Bad 128] [Bad 237; Bad 160; Bad 128] =
    mkPeer [Good 97; Good 65533; Good 98; Good 65533] [Good 48] [Good 65533] 0 /\
  built_block ex_built_block /\ through_block ex_built_block = Some (strip_block ex_built_block) /\
  map c_result (call_seq false [[CallFail true; Ok 1]; [Ok 2]; [DialFail; DialFail; DialFail]; [Ok 4]]) = [Some 1; Some 2; None; Some 4].
Proof.
  repeat match goal with |- _ /\ _ => split end; try (vm_compute; reflexivity).
  unfold built_block, ex_built_block. cbn [bl_body bo_itxs bo_receipts bl_sigs norm_slice]. repeat split.
  - intros t [H | []]. subst t. exists [Good 48; Good 88], [Bad 255; Good 58], [Good 109; Bad 195; Bad 40]. repeat split.
  - intros r [H | []]. subst r. exists [Good 48], [], [Bad 128]. repeat split.
Qed.
