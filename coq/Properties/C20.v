(* C20 The application proxy is transparent for arbitrary payloads.
   Statements only; every proof is `exact <lemma>`. *)
From Coq Require Import ZArith List Bool.
From V Require Import Model.Proxy Proofs.ProxyProofs.
Import ListNotations.
Open Scope Z_scope.

(* ---------- the retry loop of both socket clients ---------- *)

(* a call that returns without error returns the reply of an attempt that went through (the first one),
   and that attempt is one of the three *)
Theorem C20_no_empty_success : forall (R : Type) conn (outs : list (outcome R)) r,
  c_result (call conn outs) = Some r ->
  exists k, (k < 3)%nat /\ nth_error outs k = Some (Ok r) /\
    forall j, (j < k)%nat -> exists o, nth_error outs j = Some o /\ is_ok o = false.
Proof. exact no_empty_success. Qed.
Print Assumptions C20_no_empty_success.

(* when every attempt fails (dial, call, timeout, in any combination) the call returns an error *)
Theorem C20_all_fail_error : forall (R : Type) conn (outs : list (outcome R)),
  (forall o, In o (firstn 3 outs) -> is_ok o = false) -> c_result (call conn outs) = None.
Proof. exact all_fail_error. Qed.
Print Assumptions C20_all_fail_error.

(* conversely an attempt that goes through after at most two failures makes the call succeed *)
Theorem C20_first_ok_decides : forall (R : Type) conn (outs : list (outcome R)) k r,
  (k < 3)%nat -> nth_error outs k = Some (Ok r) ->
  (forall j, (j < k)%nat -> exists o, nth_error outs j = Some o /\ is_ok o = false) ->
  c_result (call conn outs) = Some r.
Proof. exact first_ok_success. Qed.
Print Assumptions C20_first_ok_decides.

Theorem C20_at_most_three : forall (R : Type) conn (outs : list (outcome R)),
  (c_attempts (call conn outs) <= 3)%nat /\ (c_deliveries (call conn outs) <= 3)%nat /\
  (c_dials (call conn outs) <= 3)%nat.
Proof. exact at_most_three. Qed.
Print Assumptions C20_at_most_three.

(* a success means the handler ran at least once (it may have run up to three times: a retried call is
   delivered again), and the connection is kept; an error after three attempts drops the connection *)
Theorem C20_at_least_once : forall (R : Type) conn (outs : list (outcome R)) r,
  c_result (call conn outs) = Some r ->
  (1 <= c_deliveries (call conn outs))%nat /\ c_conn (call conn outs) = true.
Proof. exact at_least_once. Qed.
Print Assumptions C20_at_least_once.

Theorem C20_error_drops_connection : forall (R : Type) conn (outs : list (outcome R)),
  (3 <= length outs)%nat -> c_result (call conn outs) = None -> c_conn (call conn outs) = false.
Proof. exact error_drops_connection. Qed.
Print Assumptions C20_error_drops_connection.

(* ---------- failure reporting, from the handler's point of view ---------- *)

(* FULL statement (false, see below): if the application handled none of the three attempts
   successfully, Babble gets an error. *)
Definition C20_failure_reported_statement : Prop :=
  forall (R : Type) (isnull : R -> bool) conn (l : list (attempt R)),
    (forall a, In a (firstn 3 l) -> handled a = false) -> c_result (call_attempts isnull conn l) = None.

(* proved part: network faults at any position and handler errors with a non-empty message.
   Missing: a handler error whose message is empty (net/rpc sends it as a result). *)
Theorem C20_failure_reported_partial : forall (R : Type) (isnull : R -> bool) conn (l : list (attempt R)),
  (forall a, In a (firstn 3 l) -> plain_failure R a = true) -> c_result (call_attempts isnull conn l) = None.
Proof. exact failures_reported. Qed.
Print Assumptions C20_failure_reported_partial.

(* refuted on the faithful model: three attempts, the handler fails each time with an empty message and
   returns the zero reply: Babble receives that empty reply as a success after ONE delivery.
   FINDING C20-empty-error-message-is-success (replayed on the Go code by harness/cmd/proxy). *)
Theorem C20_failure_reported_refuted :
  exists l : list (attempt bytes),
    (forall a, In a (firstn 3 l) -> handled a = false) /\
    c_result (call_attempts bytes_null false l) = Some (Some []) /\
    c_deliveries (call_attempts bytes_null false l) = 1%nat.
Proof. exact (ex_intro _ _ empty_message_witness). Qed.
Print Assumptions C20_failure_reported_refuted.

(* every success comes from an attempt whose handler ran and returned exactly that reply *)
Theorem C20_success_source : forall (R : Type) (isnull : R -> bool) conn (l : list (attempt R)) r,
  c_result (call_attempts isnull conn l) = Some r ->
  exists k, (k < 3)%nat /\ isnull r = false /\
    (nth_error l k = Some (APass (HOk r)) \/ nth_error l k = Some (APass (HErr true r))).
Proof. exact success_source. Qed.
Print Assumptions C20_success_source.

(* FULL statement (false): a call the application handled successfully is a success for Babble *)
Definition C20_success_reported_statement : Prop :=
  forall (R : Type) (isnull : R -> bool) conn (l : list (attempt R)),
    (exists a r, l = a :: r /\ handled a = true) -> c_result (call_attempts isnull conn l) <> None.

(* refuted: a handler returning a nil byte slice (GetSnapshot, Restore) -- JSON null -- is an error for
   the client, after three deliveries.  FINDING C20-nil-result-is-error. *)
Theorem C20_success_reported_refuted :
  exists l : list (attempt bytes),
    (forall a, In a l -> handled a = true) /\
    c_result (call_attempts bytes_null false l) = None /\
    c_deliveries (call_attempts bytes_null false l) = 3%nat.
Proof. exact (ex_intro _ _ nil_reply_witness). Qed.
Print Assumptions C20_success_reported_refuted.

(* ---------- the field mapping ---------- *)

(* Blocks, commit responses and transactions come out of the JSON-RPC layer with exactly the content
   that went in: every byte of every byte string (any values, any length, nil and empty kept apart,
   hence a fortiori identical modulo nil == empty), every index, every internal transaction and
   receipt, every signature entry; only the unexported caches are dropped.  Premise: byte values are
   bytes, and the Go strings (peer address / key / moniker, signatures) are valid UTF-8. *)
Theorem C20_roundtrip_block : forall b,
  block_bytes_ok b = true -> block_str_ok b = true -> through_block b = Some (strip_block b).
Proof. exact roundtrip_block. Qed.
Print Assumptions C20_roundtrip_block.

Theorem C20_roundtrip_response : forall c,
  cresp_bytes_ok c = true -> cresp_str_ok c = true -> through_cresp c = Some (strip_cresp c).
Proof. exact roundtrip_cresp. Qed.
Print Assumptions C20_roundtrip_response.

Theorem C20_roundtrip_transaction : forall b, bytes_ok b = true -> through_bytes b = Some b.
Proof. exact roundtrip_tx. Qed.
Print Assumptions C20_roundtrip_transaction.

(* FULL statement without the premise on strings (false) *)
Definition C20_roundtrip_statement : Prop :=
  forall b, block_bytes_ok b = true -> through_block b = Some (strip_block b).

(* without the premise: what arrives is the sanitised view ... *)
Theorem C20_roundtrip_block_wire : forall b,
  block_bytes_ok b = true -> through_block b = Some (wire_block b).
Proof. exact through_block_wire. Qed.
Print Assumptions C20_roundtrip_block_wire.

(* ... which differs for a moniker that is not valid UTF-8 (documented deviation D1) *)
Theorem C20_roundtrip_refuted_invalid_utf8 :
  exists b, block_bytes_ok b = true /\ through_block b <> Some (strip_block b) /\
            through_block b = Some (wire_block b).
Proof. exact (ex_intro _ bad_block invalid_utf8_witness). Qed.
Print Assumptions C20_roundtrip_refuted_invalid_utf8.

(* non-vacuity *)
Definition ex_peer := mkPeer [Good 49; Good 50] [Good 48; Good 88] [Good 233; Good 128512] 77.
Definition ex_block :=
  mkBlock (mkBody 9007199254740993 (-1) 3
                  (Some []) None (Some [255; 254; 0])
                  (Some [Some [0; 1; 2; 3; 255]; None; Some []; Some [104; 105]])
                  (Some [mkItx 0 ex_peer [Good 115]; mkItx 1 ex_peer []])
                  (Some [mkReceipt (mkItx 0 ex_peer [Good 115]) true]))
          (Some [([Good 48; Good 88], [Good 97])]) (Some [1]) [Good 65] true.
Example C20_example :
  block_bytes_ok ex_block = true /\ block_str_ok ex_block = true /\
  through_block ex_block = Some (strip_block ex_block) /\
  b64enc [77; 97; 110] = [19; 22; 5; 46] /\ b64enc [77; 97] = [19; 22; 4; 64] /\ b64enc [77] = [19; 16; 64; 64] /\
  c_result (call false [CallFail true; Timeout false; Ok 5]) = Some 5 /\
  c_deliveries (call false [CallFail true; Timeout false; Ok 5]) = 2%nat /\
  c_dials (call false [CallFail true; Timeout false; Ok 5]) = 3%nat /\
  c_result (call true [DialFail; DialFail; DialFail; Ok 5]) = None /\
  c_result (call_attempts bytes_null true [ADropReply; APass (HErr false None); APass (HOk (Some [1]))]) = Some (Some [1]).
Proof. vm_compute. repeat split. Qed.
