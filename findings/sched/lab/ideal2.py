import itertools, sys
def sm(n): return 2*n//3+1
def step(n, s, votes, decided, j, L, E):
    V = range(n); R = [v for v in V if v not in L]
    S = {v: (R if v in E else list(V)) for v in V}
    newvotes = {}; coin = False
    for (q, l), X in votes.items():
        if (q, l) in decided: continue
        d = j + 1 - q
        nv = {}
        for v in V:
            ya = sum(1 for u in S[v] if X[u] is True); na = sum(1 for u in S[v] if X[u] is False)
            val, t = (True, ya) if ya >= na else (False, na)
            if d % 4 != 0:
                if t >= s and (q, l) not in decided: decided[(q, l)] = (j + 1, val, v)
                nv[v] = val
            else:
                nv[v] = val if t >= s else None
                if t < s: coin = True
        newvotes[(q, l)] = nv
    for l in L: newvotes[(j, l)] = {v: (v not in E) for v in V}
    return newvotes, coin
def search(n, maxsol=5):
    s = sm(n); f = n - s; V = list(range(n)); sols = []
    Ls = [set(c) for k in range(1, f + 1) for c in itertools.combinations(V, k)]
    def dfs(seq, votes, decided, prevE):
        if len(sols) >= maxsol: return
        j = len(seq)
        if j == 4:
            return
        for L in Ls:
            if prevE is not None and (L & prevE): continue
            if j == 0 and L != set(range(len(L))): continue   # symmetry
            R = [v for v in V if v not in L]
            for k in range(0, len(R) + 1):
                for Ec in itertools.combinations(R, k):
                    E = set(Ec)
                    d2 = dict(decided)
                    nv, coin = step(n, s, votes, d2, j, L, E)
                    x = (0, 0)
                    if j >= 0 and x in d2: continue
                    if j == 3:
                        # at round 4: coin used for x, and round 1 or 2 fully decided
                        tg1 = [t for t in list(votes.keys()) if t[0] == 1]; tg2 = [t for t in list(votes.keys()) if t[0] == 2]
                        r1 = all(t in d2 for t in tg1); r2 = all(t in d2 for t in tg2)
                        if coin and (r1 or r2):
                            sols.append((seq + [(sorted(L), sorted(E))], r1, r2, {k: v[:2] for k, v in d2.items()}))
                            if len(sols) >= maxsol: return
                    else:
                        dfs(seq + [(sorted(L), sorted(E))], nv, d2, E)
    dfs([], {}, {}, None)
    return sols
for n in range(4, 8):
    sols = search(n)
    print("n=%d s=%d f=%d" % (n, sm(n), n - sm(n)))
    for s_ in sols: print("   ", s_)
