# search: concurrency of deciders. cycles 0..3 as before (L_j, E_j); cycle 4: E = R.
import itertools, sys
def sm(n): return 2*n//3+1
def search(n, maxsol=8, relax=False):
    s = sm(n); f = n - s; V = list(range(n)); sols = []
    Ls = [set(c) for k in range(1, f + 1) for c in itertools.combinations(V, k)]
    def views(L, E):
        R = [v for v in V if v not in L]
        return {v: (R if v in E else list(V)) for v in V}
    def tally(X, S):
        ya = sum(1 for u in S if X[u] is True); na = sum(1 for u in S if X[u] is False)
        return (True, ya) if ya >= na else (False, na)
    def dfs(seq, votes, decided):
        if len(sols) >= maxsol: return
        j = len(seq)
        for L in Ls:
            if j > 0:
                prevE = set(seq[-1][1])
                if not relax and (L & prevE): continue
            if j == 0 and L != set(range(len(L))): continue
            R = [v for v in V if v not in L]
            for k in range(0, len(R) + 1):
                for Ec in itertools.combinations(R, k):
                    E = set(Ec); S = views(L, E)
                    nv = {}; dec = dict(decided); ok = True
                    deciders = {}
                    for tg, X in votes.items():
                        if tg in dec: continue
                        d = j + 1 - tg[0]
                        Y = {}
                        for v in V:
                            val, t = tally(X, S[v])
                            if d % 4 != 0:
                                Y[v] = val
                                if t >= s: deciders.setdefault(tg, []).append(v)
                            else:
                                Y[v] = val if t >= s else None
                        nv[tg] = Y
                    for tg in deciders: dec[tg] = (j + 1, deciders[tg])
                    for l in L: nv[(j, l)] = {v: (v not in E) for v in V}
                    x = (0, 0)
                    if x in dec: continue
                    if j < 3:
                        dfs(seq + [(sorted(L), sorted(E))], nv, dec)
                        if len(sols) >= maxsol: return
                    else:
                        # round 4 (j=3): want some round q in {1,2} whose remaining targets are all decided at round 4 ONLY by
                        # validators in L (late, T-type, tips) and x's coin-round votes by R are all forced and equal
                        if len(R) != s: continue
                        Xx = nv[x]
                        rv = [Xx[v] for v in R]
                        if any(v is None for v in rv) or len(set(rv)) != 1: continue
                        for q in (1, 2):
                            tgs = [t for t in votes if t[0] == q]
                            if not tgs: continue
                            pend = [t for t in tgs if t not in decided]
                            if not pend: continue
                            if all(t in dec and dec[t][0] == 4 and set(dec[t][1]) <= L for t in pend):
                                sols.append((seq + [(sorted(L), sorted(E))], q, {k: v for k, v in dec.items()}))
                                break
    dfs([], {}, {})
    return sols
for n in range(4, 8):
    for relax in (False, True):
        sols = search(n, 5, relax)
        print("n=%d relax=%s: %d" % (n, relax, len(sols)))
        for so in sols[:5]: print("   ", so)
        if sols: break
