# lone decider at distance 3, then forced "no" votes in the coin round by everybody else.
import itertools
def sm(n): return 2*n//3+1
def search(n, maxsol=6):
    s = sm(n); f = n - s; V = list(range(n)); sols = []
    Ls = [set(c) for k in range(1, f + 1) for c in itertools.combinations(V, k)]
    def tally(X, S):
        ya = sum(1 for u in S if X[u]); na = len(S) - ya
        return (True, ya) if ya >= na else (False, na)
    for L0 in Ls:
        if L0 != set(range(len(L0))): continue
        R0 = [v for v in V if v not in L0]
        for k0 in range(len(R0) + 1):
            for E0 in itertools.combinations(R0, k0):
                X1 = {v: (v not in E0) for v in V}          # votes at r+1 on x = witness of validator 0
                for L1 in Ls:
                    R1 = [v for v in V if v not in L1]
                    for k1 in range(len(R1) + 1):
                        for E1 in itertools.combinations(R1, k1):
                            X2 = {}; dec = False
                            for v in V:
                                val, t = tally(X1, R1 if v in E1 else V)
                                X2[v] = val
                                if t >= s: dec = True
                            if dec: continue
                            for L2 in Ls:
                                R2 = [v for v in V if v not in L2]
                                if len(R2) < s: continue
                                E2 = set(R2)                      # everybody but the late ones is early
                                deciders = []; X3 = {}
                                for v in V:
                                    val, t = tally(X2, R2 if v in E2 else V)
                                    X3[v] = val
                                    if t >= s: deciders.append((v, val))
                                if not deciders: continue
                                if any(v not in L2 for v, _ in deciders): continue
                                if any(val for _, val in deciders): continue          # decided value must be "no"
                                if any(X3[v] for v in R2): continue                    # the others all vote no at r+3
                                # realisability: L1 subset of T0 or handled by Ef (allowed); L2 likewise
                                sols.append(((sorted(L0), sorted(E0)), (sorted(L1), sorted(E1)), (sorted(L2), sorted(E2)), deciders))
                                if len(sols) >= maxsol: return sols
    return sols
for n in (4, 5, 6, 7):
    print(n, sm(n))
    for so in search(n): print("   ", so)
