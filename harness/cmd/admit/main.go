// Command admit: sequences of insertion attempts (valid gossip interleaved with tamperings of valid
// events) against a bare Hashgraph; every attempt is replayed on the Coq model (C07) and the
// admission oracle is evaluated on the implementation.
package main

import (
	"bufio"
	"flag"
	"fmt"
	"math/rand"
	"os"
	"sort"
	"strings"

	"github.com/mosaicnetworks/babble/src/crypto/keys"
	hg "github.com/mosaicnetworks/babble/src/hashgraph"
	"github.com/mosaicnetworks/babble/src/peers"
	"verifharness/hx"
)

type seq struct {
	w        *hx.World
	nd       *hx.Node
	rng      *rand.Rand
	n        int
	heads    map[int]*hg.Event // creator ord -> last admitted event
	admitted []*hg.Event
	rejected []*hg.Event
	foreign  int // ordinal of a key outside the validator set
	kinds    map[string]int
	heights  map[int]int // eid -> height in its creator's chain (harness's own bookkeeping)
	lazy     int         // small-cache sequences: a creator that is rarely chosen and rarely referenced (-1: none)
}

func classify(err error, panicked bool) string {
	if panicked {
		return "panic"
	}
	if err == nil {
		return "ok"
	}
	s := err.Error()
	if _, ok := err.(hg.SelfParentError); ok && !hg.IsNormalSelfParentError(err) {
		return "selfparent-other"
	}
	switch {
	case strings.Contains(s, "SetEvent"):
		return "store"
	case hg.IsNormalSelfParentError(err):
		return "selfparent-normal"
	case strings.Contains(s, "Self-parent") || strings.Contains(s, "ParticipantEvents") || strings.Contains(s, "Empty") || strings.Contains(s, "UnknownParticipant") || strings.Contains(s, "Unknown Participant"):
		return "selfparent-other"
	case strings.Contains(s, "Other-parent"):
		return "otherparent"
	case strings.Contains(s, "SetEvent"):
		return "store"
	case strings.Contains(s, "SetWireInfo"):
		return "wire"
	case strings.Contains(s, "ignature") || strings.Contains(s, "internal transaction"):
		return "badsig"
	}
	return "other:" + s
}

func (q *seq) digest() string {
	h := q.nd.Hg
	var sb strings.Builder
	type ke struct {
		id uint32
		i  int
	}
	l := []ke{}
	for id, last := range q.nd.Store.KnownEvents() {
		l = append(l, ke{id, last})
	}
	sort.Slice(l, func(i, j int) bool { return l[i].id < l[j].id })
	for _, k := range l {
		fmt.Fprintf(&sb, "%d:%d ", k.id, k.i)
		if p, ok := q.nd.Store.RepertoireByID()[k.id]; ok {
			hs, _ := q.nd.Store.ParticipantEvents(p.PubKeyString(), -1)
			fmt.Fprintf(&sb, "[%s] ", strings.Join(hs, ","))
			last, _ := q.nd.Store.LastEventFrom(p.PubKeyString())
			sb.WriteString(last + " ")
		}
	}
	fmt.Fprintf(&sb, "U%d R%d B%d", len(h.UndeterminedEvents), q.nd.Store.LastRound(), q.nd.Store.LastBlockIndex())
	for r := 0; r <= q.nd.Store.LastRound(); r++ {
		if ri, err := q.nd.Store.GetRound(r); err == nil {
			fmt.Fprintf(&sb, " r%d:%d:%d", r, len(ri.CreatedEvents), len(ri.ReceivedEvents))
		}
	}
	return sb.String()
}

// attempt inserts ev (as gossip would: setWireInfo = true) and reports / checks the outcome
func (q *seq) attempt(kind string, ev *hg.Event) {
	w := q.w
	q.kinds[kind]++
	eid := w.RegisterEvent(ev)
	wasKnown := false
	if _, err := q.nd.Store.GetEvent(ev.Hex()); err == nil {
		wasKnown = true
	}
	before := q.digest()
	topoBefore := q.nd.Hg.VerifTopologicalIndex()
	line := w.EventLine(ev)
	var err error
	panicked := false
	// half of the attempts arrive as gossip does: wire form -> ReadWireInfo -> insert without SetWireInfo
	viaWire := false
	func() {
		defer func() {
			if r := recover(); r != nil {
				panicked = true
			}
		}()
		if wev, ok := q.wireOf(ev); ok && q.rng.Intn(2) == 0 {
			if ev2, rerr := q.nd.Hg.ReadWireInfo(wev); rerr == nil {
				if ev2.Hex() != ev.Hex() {
					// the (creator, index) references resolved to other events than the sender meant
					// (possible only for tampered events): deliver the event directly instead
					q.kinds["wire-resolves-differently"]++
				} else {
					viaWire = true
					ev = ev2
				}
			}
		}
		err = q.nd.Hg.InsertEventAndRunConsensus(ev, !viaWire)
	}()
	if viaWire {
		q.kinds["via-wire"]++
	}
	cls := classify(err, panicked)
	if q.lazy >= 0 && cls != "ok" && !panicked && !wasKnown {
		// small-cache sequence: the event was inserted and a LATER consensus method failed on an evicted event (an
		// InmemStore below its supported window): that is an admitted event whose pass failed, not a rejection
		if _, gerr := q.nd.Store.GetEvent(ev.Hex()); gerr == nil && q.nd.Hg.VerifTopologicalIndex() == topoBefore+1 {
			q.kinds["small-cache:inserted-then-pass-failed"]++
			cls = "ok"
		}
	}
	fmt.Fprintf(w.Out, "I %d %s => %s\n", q.nd.ID, line, cls)
	fmt.Fprintf(w.Out, "# attempt kind=%s\n", kind)
	if cls == "ok" {
		q.nd.NoteInserted(ev)
		q.admitted = append(q.admitted, ev)
		c := w.Ord(ev.Creator())
		// admission oracle (C07)
		okv, _ := ev.Verify()
		if !okv {
			w.Violation("C07", "admitted-invalid-signature", fmt.Sprintf("kind=%s eid=%d", kind, eid))
		}
		want := 0
		if ev.SelfParent() != "" {
			sp := w.Eid(ev.SelfParent())
			want = w.EvByEid[sp].Index() + 1
			if last, ok := q.heads[c]; !ok || last.Hex() != ev.SelfParent() {
				w.Violation("C07", "admitted-self-parent-not-latest", fmt.Sprintf("kind=%s eid=%d", kind, eid))
			}
		} else if _, ok := q.heads[c]; ok {
			w.Violation("C07", "admitted-second-first-event", fmt.Sprintf("kind=%s eid=%d", kind, eid))
		}
		if ev.Index() != want {
			w.Violation("C07", "admitted-index-not-height", fmt.Sprintf("kind=%s creator=%d index=%d height=%d", kind, c, ev.Index(), want))
		}
		if op := ev.OtherParent(); op != "" {
			found := false
			for _, a := range q.admitted {
				if a.Hex() == op {
					found = true
				}
			}
			if !found {
				w.Violation("C07", "admitted-with-unadmitted-other-parent", fmt.Sprintf("kind=%s eid=%d", kind, eid))
			}
		}
		if _, ok := q.nd.Store.RepertoireByPubKey()[ev.Creator()]; !ok {
			w.Violation("C07", "admitted-unknown-creator", fmt.Sprintf("kind=%s eid=%d", kind, eid))
		}
		for _, itx := range ev.InternalTransactions() {
			it := itx
			if v, _ := it.Verify(); !v {
				w.Violation("C07", "admitted-unsigned-membership-request", fmt.Sprintf("kind=%s eid=%d", kind, eid))
			}
		}
		q.heads[c] = ev
	} else {
		q.rejected = append(q.rejected, ev)
		after := q.digest()
		if after != before {
			w.Violation("C07", "reject-not-noop", fmt.Sprintf("kind=%s result=%s before=[%s] after=[%s]", kind, cls, before, after))
		}
		if !wasKnown {
			if _, gerr := q.nd.Store.GetEvent(ev.Hex()); gerr == nil {
				w.Violation("C07", "rejected-event-retrievable", fmt.Sprintf("kind=%s result=%s eid=%d", kind, cls, eid))
			}
		}
		if q.nd.Hg.VerifTopologicalIndex() != topoBefore {
			w.Violation("C16", "rejected-event-consumed-topological-index", fmt.Sprintf("kind=%s result=%s", kind, cls))
		}
	}
	// per-creator listing has no two events at one height and no gaps
	q.nd.AfterActionX(false, false)
}

// wireOf builds the wire form as a (possibly Byzantine) sender would: parents are referred to by
// (creator id, index) of the events the harness knows; ok=false when a parent is not a known event.
func (q *seq) wireOf(ev *hg.Event) (hg.WireEvent, bool) {
	w := q.w
	c := w.Ord(ev.Creator())
	if c < 0 {
		return hg.WireEvent{}, false
	}
	body := hg.WireBody{
		Transactions:         ev.Body.Transactions,
		InternalTransactions: ev.Body.InternalTransactions,
		CreatorID:            w.Peers[c].ID(),
		Index:                ev.Index(),
		SelfParentIndex:      -1,
		OtherParentIndex:     -1,
		Timestamp:            ev.Body.Timestamp,
	}
	if sp := ev.SelfParent(); sp != "" {
		id := w.Eid(sp)
		if id < 0 || w.Ord(w.EvByEid[id].Creator()) != c {
			return hg.WireEvent{}, false
		}
		body.SelfParentIndex = w.EvByEid[id].Index()
	}
	if op := ev.OtherParent(); op != "" {
		id := w.Eid(op)
		if id < 0 {
			return hg.WireEvent{}, false
		}
		oc := w.Ord(w.EvByEid[id].Creator())
		if oc < 0 {
			return hg.WireEvent{}, false
		}
		body.OtherParentCreatorID = w.Peers[oc].ID()
		body.OtherParentIndex = w.EvByEid[id].Index()
	}
	return hg.WireEvent{Body: body, Signature: ev.Signature}, true
}

func (q *seq) mkEvent(c int, sp, op string, index int, txs [][]byte, itxs []hg.InternalTransaction, signer int) *hg.Event {
	ev := hg.NewEvent(txs, itxs, nil, []string{sp, op}, keys.FromPublicKey(&q.w.Privs[c].PublicKey), index)
	ev.Body.Timestamp = 1600000000 + int64(q.rng.Intn(1000))
	if signer >= 0 {
		ev.Sign(q.w.Privs[signer])
	}
	return ev
}

func (q *seq) headHex(c int) (string, int) {
	if h, ok := q.heads[c]; ok {
		return h.Hex(), h.Index() + 1
	}
	return "", 0
}

func (q *seq) randomOther(c int) string {
	cands := []string{}
	for o, h := range q.heads {
		if o == q.lazy && q.rng.Intn(10) != 0 {
			continue
		}
		if o != c {
			cands = append(cands, h.Hex())
		}
	}
	sort.Strings(cands)
	if len(cands) == 0 || q.rng.Intn(8) == 0 {
		return ""
	}
	return cands[q.rng.Intn(len(cands))]
}

func (q *seq) txs() [][]byte {
	if q.rng.Intn(3) == 0 {
		return [][]byte{q.w.NewTx(q.rng.Intn(4))}
	}
	return nil
}

func (q *seq) step() {
	rng := q.rng
	c := rng.Intn(q.n)
	if c == q.lazy && rng.Intn(6) != 0 {
		c = (c + 1 + rng.Intn(q.n-1)) % q.n
	}
	sp, idx := q.headHex(c)
	op := q.randomOther(c)
	r := rng.Intn(100)
	switch {
	case r < 5:
		// multi-step: a VALID event arrives before its other-parent (rejected), the parent arrives, then a copy of the
		// SAME BODY carrying a signature that is not its creator's (by another validator / a corrupted signature string)
		// arrives before the genuine event: the body hash has been seen with a good signature, the forged copy must still
		// be refused, and the genuine one admitted afterwards
		o := (c + 1) % q.n
		spo, idxo := q.headHex(o)
		e1 := q.mkEvent(o, spo, q.randomOther(o), idxo, q.txs(), nil, o)
		e2 := q.mkEvent(c, sp, e1.Hex(), idx, q.txs(), nil, c)
		q.attempt("valid-before-its-other-parent", e2)
		q.attempt("valid", e1)
		forged := &hg.Event{Body: e2.Body}
		if rng.Intn(2) == 0 {
			forged.Sign(q.w.Privs[o])
		} else {
			forged.Signature = e1.Signature // a well-formed signature of something else
		}
		q.attempt("same-body-forged-signature", forged)
		q.attempt("valid", &hg.Event{Body: e2.Body, Signature: e2.Signature})
	case r < 8:
		// a body that was already attempted (admitted or rejected), re-submitted under another signature
		var pool []*hg.Event
		pool = append(pool, q.admitted...)
		pool = append(pool, q.rejected...)
		if len(pool) > 0 {
			src := pool[rng.Intn(len(pool))]
			forged := &hg.Event{Body: src.Body}
			forged.Sign(q.w.Privs[(q.w.Ord(src.Creator())+1+q.n)%q.n])
			q.attempt("seen-body-forged-signature", forged)
		}
	case r < 55:
		q.attempt("valid", q.mkEvent(c, sp, op, idx, q.txs(), nil, c))
	case r < 59:
		q.attempt("index-skipped", q.mkEvent(c, sp, op, idx+1+rng.Intn(3), q.txs(), nil, c))
	case r < 63:
		q.attempt("index-same-as-parent", q.mkEvent(c, sp, op, idx-1, q.txs(), nil, c))
	case r < 66:
		q.attempt("index-below-parent", q.mkEvent(c, sp, op, idx-2-rng.Intn(3), q.txs(), nil, c))
	case r < 68:
		q.attempt("index-negative", q.mkEvent(c, sp, op, -1-rng.Intn(9), q.txs(), nil, c))
	case r < 70:
		q.attempt("index-huge", q.mkEvent(c, sp, op, 1<<40, q.txs(), nil, c))
	case r < 73:
		ev := q.mkEvent(c, sp, op, idx, q.txs(), nil, c)
		ev.Body.Timestamp++ // altered after signing
		q.attempt("stale-signature", ev)
	case r < 75:
		o := (c + 1) % q.n
		q.attempt("signed-by-other-validator", q.mkEvent(c, sp, op, idx, nil, nil, o))
	case r < 78: // equivocation: a second child of an older event of c
		var old *hg.Event
		for _, a := range q.admitted {
			if q.w.Ord(a.Creator()) == c && a.Hex() != sp {
				old = a
			}
		}
		if old != nil {
			q.attempt("equivocation", q.mkEvent(c, old.Hex(), op, old.Index()+1, [][]byte{q.w.NewTx(0)}, nil, c))
		} else {
			q.attempt("second-first-event", q.mkEvent(c, "", op, 0, [][]byte{q.w.NewTx(0)}, nil, c))
		}
	case r < 81:
		q.attempt("unknown-other-parent", q.mkEvent(c, sp, fmt.Sprintf("0X%064X", rng.Int63()), idx, nil, nil, c))
	case r < 83:
		q.attempt("unknown-self-parent", q.mkEvent(c, fmt.Sprintf("0X%064X", rng.Int63()), op, idx, nil, nil, c))
	case r < 85:
		f := q.foreign
		ev := hg.NewEvent(nil, nil, nil, []string{"", op}, keys.FromPublicKey(&q.w.Privs[f].PublicKey), 0)
		ev.Sign(q.w.Privs[f])
		q.attempt("foreign-creator", ev)
	case r < 88: // membership request signed by the wrong key / the right key
		p := q.w.Peers[q.foreign]
		itx := hg.NewInternalTransactionJoin(*peers.NewPeer(p.PubKeyHex, "", ""))
		signer := q.foreign
		kind := "itx-valid"
		if rng.Intn(2) == 0 {
			signer = c
			kind = "itx-signed-by-wrong-key"
		}
		itx.Sign(q.w.Privs[signer])
		q.attempt(kind, q.mkEvent(c, sp, op, idx, nil, []hg.InternalTransaction{itx}, c))
	case r < 90:
		if len(q.admitted) > 0 {
			q.attempt("duplicate", q.admitted[rng.Intn(len(q.admitted))])
		}
	case r < 92: // someone else's event as self-parent
		o := (c + 1) % q.n
		if h, ok := q.heads[o]; ok {
			q.attempt("self-parent-of-other-creator", q.mkEvent(c, h.Hex(), op, h.Index()+1, nil, nil, c))
		}
	case r < 94: // own earlier event as other-parent
		if sp != "" {
			q.attempt("own-event-as-other-parent", q.mkEvent(c, sp, sp, idx, q.txs(), nil, c))
		}
	case r < 97:
		if len(q.rejected) > 0 {
			q.attempt("resubmit-rejected", q.rejected[rng.Intn(len(q.rejected))])
		}
	default:
		if len(q.rejected) > 0 {
			rj := q.rejected[rng.Intn(len(q.rejected))]
			q.attempt("child-of-rejected", q.mkEvent(c, sp, rj.Hex(), idx, nil, nil, c))
		}
	}
}

var smallSeqs int

func main() {
	seed := flag.Int64("seed", 1, "seed")
	nseq := flag.Int("seqs", 30, "number of sequences")
	steps := flag.Int("steps", 60, "attempts per sequence")
	flag.Parse()
	out := bufio.NewWriterSize(os.Stdout, 1<<20)
	defer out.Flush()
	master := rand.New(rand.NewSource(*seed))
	for s := 0; s < *nseq; s++ {
		w := hx.NewWorld(out)
		n := 2 + master.Intn(4)
		fmt.Fprintf(out, "H %d n=%d\n", s, n)
		gen := []int{}
		for i := 0; i < n; i++ {
			gen = append(gen, w.AddKey())
		}
		q := &seq{w: w, rng: rand.New(rand.NewSource(master.Int63())), n: n, heads: map[int]*hg.Event{}, kinds: map[string]int{}, lazy: -1}
		q.foreign = w.AddKey()
		cache, nsteps := 1000, *steps
		if master.Intn(4) == 0 {
			// small-cache sequence: an InmemStore whose LRU evicts the last event of a creator that stays silent and
			// unreferenced for a while. The model has no cache (a valid event whose parent was evicted is legitimately
			// refused), so the node is declared unmodelled (F) and only the admission oracle is evaluated: whatever IS
			// admitted must still be well formed.
			cache, nsteps = 5+master.Intn(8), 4*(*steps)
			q.lazy = master.Intn(n)
			smallSeqs++
		}
		q.nd = w.NewBareNode(0, gen, hg.NewInmemStore(cache))
		if q.lazy >= 0 {
			fmt.Fprintf(out, "F 0\n")
		}
		// sometimes start a chain with a non-zero first index
		if master.Intn(3) == 0 {
			c := master.Intn(n)
			q.attempt("first-index-nonzero", q.mkEvent(c, "", "", []int{5, -7, 1}[master.Intn(3)], nil, nil, c))
		}
		for i := 0; i < nsteps; i++ {
			q.step()
		}
		ks := []string{}
		for k, v := range q.kinds {
			ks = append(ks, fmt.Sprintf("%s=%d", k, v))
		}
		sort.Strings(ks)
		fmt.Fprintf(out, "Z %d admitted=%d rejected=%d %s\n", s, len(q.admitted), len(q.rejected), strings.Join(ks, " "))
	}
}
