package main

import (
	"bufio"
	"fmt"
	"math/rand"
	"sort"

	hg "github.com/mosaicnetworks/babble/src/hashgraph"
	"verifharness/hx"
)

// Directed scenario "early signature": one peer answers a sync with a re-ordered (still
// parent-closed) list of events, so that an event carrying validator X's signature of block N
// enters node R's hashgraph BEFORE the events that make R create block N; the insertion positions
// are arranged around a multiple of 100 (Bootstrap's batch size). All events are honest events.
// After a clean shutdown R is reopened and bootstrapped; the ordinary recovery oracle runs.
// Regression input of fix d90db55 (before it, the re-delivered blocks were renumbered).

func countEvents(nd *hx.Node) int {
	n := 0
	for _, last := range nd.Core.KnownEvents() {
		n += last + 1
	}
	return n
}

// feed inserts ev (an event of another node's store) into nd through the wire form, without the
// self-event creation of core.sync
func (h *hist) feed(nd *hx.Node, from *hx.Node, ev *hg.Event) error {
	wire, _ := from.Core.ToWire([]*hg.Event{ev})
	e2, err := nd.Hg.ReadWireInfo(wire[0])
	if err != nil {
		return err
	}
	return nd.Core.InsertEventAndRunConsensus(e2, false)
}

func runByz(out *bufio.Writer, seed int64, hid int, tmp string, cache int) {
	rng := rand.New(rand.NewSource(seed))
	w := hx.NewWorld(out)
	c := cfg{n: 4, steps: 0, cache: cache, nbadger: 1, maxKills: 0}
	h := &hist{w: w, rng: rng, cfg: c, hid: hid, tmp: tmp, actions: map[string]int{}, byNode: map[*hx.Node]*bnode{},
		pendingJoins: map[int]bool{}, joined: map[int]bool{}, leaving: map[int]bool{}, snapKinds: map[string]int{}}
	h.scenario = "early-signature"
	fmt.Fprintf(out, "H %d seed=%d n=4 byz-early-signature\n", hid, seed)
	for i := 0; i < 4; i++ {
		h.genesis = append(h.genesis, w.AddKey())
	}
	h.nextNodeID = 4
	b := h.newBadgerNode(0, 0, 0)
	b.killAt = -1
	h.nodes = append(h.nodes, b.nd)
	for i := 1; i < 4; i++ {
		h.nodes = append(h.nodes, w.NewNode(i, i, h.genesis, h.genesis, hg.NewInmemStore(cache)))
	}
	defer func() {
		if b.B != nil {
			safeClose(b.B)
		}
	}()
	R, X := h.nodes[0], h.nodes[1]
	for _, nd := range h.nodes {
		h.selfEvent(nd)
	}
	// phase 1: ordinary gossip among the four until R holds ~60 events
	for step := 0; countEvents(R) < 60 && step < 2000; step++ {
		i, j := rng.Intn(4), rng.Intn(4)
		if i == j {
			continue
		}
		if rng.Intn(3) == 0 {
			h.submit(h.nodes[i])
		}
		h.pull(h.nodes[i], h.nodes[j], -1, false)
	}
	// phase 2: R is idle; X, B, C go on. X takes the events it lacks from its peers one by one (as a
	// sync whose response holds no event of the sender); when that makes X commit a block R does
	// not have, X records it with a self-event without other-parent, which carries X's signature.
	var s *hg.Event
	target := -1
	for step := 0; s == nil && step < 4000; step++ {
		i := 1 + rng.Intn(3)
		if rng.Intn(2) == 0 {
			h.submit(h.nodes[i])
		}
		if i != 1 {
			j := 1 + rng.Intn(3)
			if j != i {
				h.pull(h.nodes[i], h.nodes[j], -1, false)
			}
			continue
		}
		peer := h.nodes[2+rng.Intn(2)]
		diff, err := peer.Core.EventDiff(X.Core.KnownEvents())
		if err != nil || len(diff) == 0 {
			continue
		}
		before := X.Store.LastBlockIndex()
		var last *hg.Event
		for _, ev := range diff {
			if h.feed(X, peer, ev) == nil {
				last = ev
			}
		}
		if X.Store.LastBlockIndex() > before && X.Store.LastBlockIndex() > R.Store.LastBlockIndex() && countEvents(R) < 95 {
			target = X.Store.LastBlockIndex()
			X.Core.AddSelfEvent("")
			head, _ := X.Store.GetEvent(X.Core.Head())
			carries := false
			for _, bs := range head.BlockSignatures() {
				if bs.Index == target {
					carries = true
				}
			}
			if carries {
				s = head
			}
		} else if last != nil {
			X.Core.AddSelfEvent(last.Hex())
		}
		X.Core.ProcessSigPool()
		h.after(X, true)
	}
	if s == nil {
		fmt.Fprintf(out, "# byz: could not stage the scenario\n")
		h.printStats()
		return
	}
	// phase 3: X answers R's sync with s and the ancestors of s only (topological order)
	closure := map[string]*hg.Event{}
	var walk func(x string)
	walk = func(x string) {
		if x == "" || closure[x] != nil {
			return
		}
		if _, err := R.Store.GetEvent(x); err == nil {
			return
		}
		ev, err := X.Store.GetEvent(x)
		if err != nil {
			return
		}
		closure[x] = ev
		walk(ev.SelfParent())
		walk(ev.OtherParent())
	}
	walk(s.Hex())
	cl := []*hg.Event{}
	for _, ev := range closure {
		cl = append(cl, ev)
	}
	sort.Slice(cl, func(i, j int) bool { return cl[i].VerifTopologicalIndex() < cl[j].VerifTopologicalIndex() })
	h.guarded(func() {
		for _, ev := range cl {
			if err := h.feed(R, X, ev); err != nil {
				fmt.Fprintf(out, "# byz: feed error %v\n", err)
			}
		}
	})
	posS := countEvents(R)
	hasBlock := R.Store.LastBlockIndex() >= target
	// R alone (monologue) until the next multiple of 100 is crossed
	boundary := ((posS + 99) / 100) * 100
	h.guarded(func() {
		for countEvents(R) < boundary+1 {
			R.Core.AddSelfEvent("")
		}
		R.Core.ProcessSigPool()
	})
	h.after(R, true)
	stillMissing := R.Store.LastBlockIndex() < target
	fmt.Fprintf(out, "# byz: signature of block %d by validator %d inserted in R at position %d (closure %d); R had block: %v; boundary %d; block still missing at boundary: %v\n",
		target, X.Self, posS, len(cl), hasBlock, boundary, stillMissing)
	h.actions["byz-staged"] = 1
	if stillMissing && !hasBlock {
		h.actions["byz-signature-before-block-across-batch-boundary"] = 1
	}
	// phase 4: ordinary gossip again
	for step := 0; step < 120; step++ {
		i, j := rng.Intn(4), rng.Intn(4)
		if i == j {
			continue
		}
		if rng.Intn(3) == 0 {
			h.submit(h.nodes[i])
		}
		h.pull(h.nodes[i], h.nodes[j], -1, false)
	}
	fmt.Fprintf(out, "# byz: R delivered %d blocks before shutdown (last index %d)\n", len(b.delivKeys), R.Store.LastBlockIndex())
	before := w.Violations
	h.cleanShutdown(b)
	h.finalChecks()
	if w.Violations == before {
		// regression input of fix d90db55: the scenario was staged and the re-delivery is identical
		h.actions["byz-redelivery-identical"] = 1
		fmt.Fprintf(out, "# byz: re-delivery after the clean shutdown identical (%d blocks)\n", len(b.delivKeys))
	}
	h.printStats()
}
