package main

import (
	"bufio"
	"crypto/ecdsa"
	"encoding/hex"
	"fmt"
	"io"
	"math/rand"
	"os"
	"os/exec"
	"path/filepath"
	"strings"
	"time"

	"github.com/mosaicnetworks/babble/src/crypto/keys"
	hg "github.com/mosaicnetworks/babble/src/hashgraph"
	"github.com/mosaicnetworks/babble/src/peers"
	"verifharness/hx"
)

// Real crashes (exploration, thorough tier): the harness re-executes itself as the NODE PROCESS.
// The child runs an endless gossip history whose node 0 lives on a BadgerStore in <dir>/db and
// appends, with unbuffered write(2) calls that survive the death of the process,
//   D <i> <key>   inside the commit callback of node 0 (block i delivered to the application)
//   E <hash>      after Store.SetEvent of a new event of node 0 has returned
// to <dir>/log. The parent SIGKILLs it at a random instant, opens the database, bootstraps a fresh
// core and checks: every logged delivery is re-delivered identically, every logged event is known,
// the database's own topological listing is recovered completely, head/seq are the last own event,
// and the model's bootstrap of the listed events agrees with the implementation's.

func addKeyFrom(w *hx.World, k *ecdsa.PrivateKey) int {
	p := peers.NewPeer(keys.PublicKeyHex(&k.PublicKey), fmt.Sprintf("addr%d", len(w.Peers)), fmt.Sprintf("m%d", len(w.Peers)))
	ord := len(w.Peers)
	w.Privs = append(w.Privs, k)
	w.Peers = append(w.Peers, p)
	w.KeyOrd[p.PubKeyString()] = ord
	return ord
}

func childMain(dir string, seed int64, maxn, steps, cache int) {
	rng := rand.New(rand.NewSource(seed))
	out := bufio.NewWriter(io.Discard)
	w := hx.NewWorld(out)
	n := 3 + rng.Intn(maxn-2)
	c := cfg{n: n, steps: 1 << 30, cache: cache, nbadger: 1, maxKills: 0}
	h := &hist{w: w, rng: rng, cfg: c, hid: 0, tmp: dir, actions: map[string]int{}, byNode: map[*hx.Node]*bnode{},
		pendingJoins: map[int]bool{}, joined: map[int]bool{}, leaving: map[int]bool{}, snapKinds: map[string]int{}}
	var sb strings.Builder
	for i := 0; i < n; i++ {
		o := w.AddKey()
		h.genesis = append(h.genesis, o)
		sb.WriteString(hex.EncodeToString(keys.DumpPrivateKey(w.Privs[o])) + "\n")
	}
	if err := os.WriteFile(filepath.Join(dir, "keys.tmp"), []byte(sb.String()), 0o644); err != nil {
		panic(err)
	}
	os.Rename(filepath.Join(dir, "keys.tmp"), filepath.Join(dir, "keys"))
	lf, err := os.OpenFile(filepath.Join(dir, "log"), os.O_CREATE|os.O_WRONLY|os.O_APPEND, 0o644)
	if err != nil {
		panic(err)
	}
	h.childLog = lf
	h.fixedDB = filepath.Join(dir, "db")
	h.nextNodeID = n
	b := h.newBadgerNode(0, 0, 0)
	b.killAt = -1
	h.nodes = append(h.nodes, b.nd)
	for i := 1; i < n; i++ {
		h.nodes = append(h.nodes, w.NewNode(i, i, h.genesis, h.genesis, hg.NewInmemStore(cache)))
	}
	for _, nd := range h.nodes {
		h.selfEvent(nd)
	}
	for {
		i, j := rng.Intn(n), rng.Intn(n)
		if rng.Intn(4) == 0 {
			h.submit(h.nodes[i])
		}
		if i != j {
			h.pull(h.nodes[i], h.nodes[j], -1, false)
		}
		out.Flush()
	}
}

func sigkillOnce(out *bufio.Writer, seed int64, hid int, tmp string, maxn, steps, cache int) {
	rng := rand.New(rand.NewSource(seed))
	dir, err := os.MkdirTemp(tmp, "kill")
	if err != nil {
		panic(err)
	}
	defer os.RemoveAll(dir)
	if maxn < 3 {
		maxn = 3
	}
	cmd := exec.Command(os.Args[0], "-child", dir, "-seed", fmt.Sprint(seed), "-maxn", fmt.Sprint(maxn), "-cache", fmt.Sprint(cache))
	cmd.Stdout, cmd.Stderr = io.Discard, io.Discard
	if err := cmd.Start(); err != nil {
		fmt.Fprintf(out, "# sigkill: cannot start child: %v\n", err)
		return
	}
	// wait for the keys, then let the node live for a random while
	for i := 0; i < 400; i++ {
		if _, err := os.Stat(filepath.Join(dir, "keys")); err == nil {
			break
		}
		time.Sleep(10 * time.Millisecond)
	}
	life := time.Duration(50+rng.Intn(1500)) * time.Millisecond
	time.Sleep(life)
	cmd.Process.Kill() // SIGKILL
	cmd.Wait()

	w := hx.NewWorld(out)
	h := &hist{w: w, rng: rng, cfg: cfg{cache: cache}, hid: hid, tmp: tmp, actions: map[string]int{}, byNode: map[*hx.Node]*bnode{},
		pendingJoins: map[int]bool{}, joined: map[int]bool{}, leaving: map[int]bool{}, snapKinds: map[string]int{}}
	h.scenario = "sigkill"
	fmt.Fprintf(out, "H %d seed=%d sigkill life=%dms\n", hid, seed, life/time.Millisecond)
	kb, err := os.ReadFile(filepath.Join(dir, "keys"))
	if err != nil {
		fmt.Fprintf(out, "# sigkill: killed before the keys were written\n")
		h.actions["sigkill-too-early"] = 1
		h.printStats()
		return
	}
	for _, l := range strings.Fields(string(kb)) {
		raw, _ := hex.DecodeString(l)
		k, err := keys.ParsePrivateKey(raw)
		if err != nil {
			panic(err)
		}
		h.genesis = append(h.genesis, addKeyFrom(w, k))
	}
	h.cfg.n = len(h.genesis)
	h.nextNodeID = h.cfg.n
	dbdir := filepath.Join(dir, "db")
	if _, err := os.Stat(dbdir); err != nil {
		h.actions["sigkill-too-early"] = 1
		h.printStats()
		return
	}
	b := &bnode{lin: 0, self: 0, dir: dbdir, killAt: -1, vlogPrev: -1}
	h.bn = append(h.bn, b)
	// the durable log
	logged := []string{}
	lb, _ := os.ReadFile(filepath.Join(dir, "log"))
	for _, l := range strings.Split(string(lb), "\n") {
		f := strings.Fields(l)
		if len(f) == 3 && f[0] == "D" {
			b.delivKeys = append(b.delivKeys, f[2])
		} else if len(f) == 2 && f[0] == "E" {
			logged = append(logged, f[1])
		}
	}
	// what the database holds (read through a first handle, closed before the recovery proper)
	fmt.Fprintf(out, "CN 0 0\n")
	B, err := hg.NewBadgerStore(cache, dbdir, false, hx.QuietLogger())
	if err != nil {
		h.violation("event-lost-after-restart", fmt.Sprintf("kind=db-unopenable-after-sigkill err=%q", err.Error()))
		h.printStats()
		return
	}
	b.B = B
	if _, err := B.VerifDBGetPeerSet(0); err == nil {
		all := []*peers.Peer{}
		for _, o := range h.genesis {
			all = append(all, w.Peers[o])
		}
		fmt.Fprintf(out, "CW 0 P 0 %s\n", h.psStr(all))
		b.log = append(b.log, wrec{kind: 'P', key: 0})
	}
	for i := 0; ; i++ {
		blk, err := B.VerifDBGetBlock(i)
		if err != nil {
			break
		}
		h.logWrite(b, wrec{kind: 'B', key: i, blk: blk})
	}
	dbl, err := B.VerifDBTopologicalEvents(0, 1<<30)
	if err != nil {
		h.violation("event-lost-after-restart", fmt.Sprintf("kind=db-topo-listing-error-after-sigkill err=%q", err.Error()))
	}
	inDB := map[string]bool{}
	for i, ev := range dbl {
		inDB[ev.Hex()] = true
		h.logWrite(b, wrec{kind: 'E', isNew: true, topo: i, ev: ev})
	}
	safeClose(B)
	b.B = nil
	for _, x := range logged {
		if !inDB[x] {
			h.violation("event-lost-after-restart", fmt.Sprintf("kind=acknowledged-event-missing-after-sigkill hash=%s.. db-events=%d", x[:10], len(dbl)))
			break
		}
	}
	h.actions["sigkill"] = 1
	h.actions["sigkill-logged-events"] = len(logged)
	h.actions["sigkill-logged-deliveries"] = len(b.delivKeys)
	h.snapshots++
	h.snapKinds["after:sigkill"]++
	h.checkRecovery(b, dbdir, len(b.log), "sigkill")
	h.printStats()
}
