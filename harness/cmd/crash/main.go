// Command crash: crash-recovery check (C11). Gossip histories over real node.core objects in
// which some nodes run over a real BadgerStore; the store is decorated to log and count its
// write transactions; at chosen write ordinals the DB directory is snapshotted (a crash at that
// instant) and a fresh core is bootstrapped from the copy and compared with (a) the durable
// pre-crash observations, (b) the Coq model of bootstrap run on the write-log prefix. Some crash
// points really kill the node: the running operation is abandoned, the node is replaced by the
// recovered one and the history goes on (agreement / fresh self-event / persistence oracles).
package main

import (
	"bufio"
	"flag"
	"fmt"
	"math/rand"
	"os"
	"sort"
	"strings"

	hg "github.com/mosaicnetworks/babble/src/hashgraph"
	"github.com/mosaicnetworks/babble/src/peers"
	"verifharness/hx"
)

type cfg struct {
	n, steps, tail, cache int
	dyn                   bool
	nbadger               int
	fullOps               int     // operations in which EVERY write is a crash point
	snapRate              float64 // probability of a crash point after any other write
	blockRate             float64 // probability of a crash point after a block write (frame writes: always)
	maxKills              int
	byz                   bool
	bug                   string
}

// bnode: one Badger-backed lineage (a node and its successive incarnations after crashes)
type bnode struct {
	lin          int
	self         int
	nd           *hx.Node
	dir          string
	contDir      string
	B            *hg.BadgerStore
	log          []wrec
	gen          int
	killAt       int
	kills        int
	snapAll      bool
	fullLeft     int
	seqAtRestart int
	freshChecked bool
	restarted    bool
	delivKeys    []string // durable delivery log of the current incarnation
	recovered    [][]string
	lastCCEvents int
	dead         bool
	vlogPrev     int64 // size of the value log after the previous acknowledged write (-1: unknown)
}

type hist struct {
	w          *hx.World
	nodes      []*hx.Node
	bn         []*bnode
	byNode     map[*hx.Node]*bnode
	rng        *rand.Rand
	cfg        cfg
	hid        int
	tmp        string
	actions    map[string]int
	genesis    []int
	nextNodeID int
	weights    []float64
	// dynamic membership
	pendingJoins map[int]bool
	joined       map[int]bool
	leaving      map[int]bool
	// statistics
	snapshots   int
	snapKinds   map[string]int // "<kind of the last write>|<kind of the next write>" filled lazily
	lastSnapKey map[int]string
	checks      int
	modelChecks int
	maxEvents   int
	crashMidOp  int
	redelivered int
	// child-process mode (real SIGKILL)
	childLog *os.File
	fixedDB  string
	scenario string
	midOp    int
}

func (h *hist) violation(class, detail string) {
	h.w.Violation("C11", class, fmt.Sprintf("hist=%d scenario=%s %s", h.hid, h.scenario, detail))
}

/**************************************** write log ****************************************/

func (h *hist) psStr(ps []*peers.Peer) string {
	s := []string{}
	for _, p := range ps {
		s = append(s, fmt.Sprintf("%d:%d", p.ID(), h.w.Ord(p.PubKeyHex)))
	}
	return strings.Join(s, " ")
}

// logWrite appends one acknowledged write to the lineage's log and prints it for the model
func (h *hist) logWrite(b *bnode, rec wrec) {
	w := h.w
	rec.gen = b.gen
	switch rec.kind {
	case 'E':
		_, known := w.Eids[rec.ev.Hex()]
		rec.key = w.RegisterEvent(rec.ev)
		if rec.isNew || !known {
			fmt.Fprintf(w.Out, "CW %d E %d %s\n", b.lin, rec.topo, w.EventLine(rec.ev))
		} else {
			fmt.Fprintf(w.Out, "CW %d U %d %d\n", b.lin, rec.topo, rec.key)
		}
	case 'P':
		ps, err := b.B.VerifInmem().GetPeerSet(rec.key)
		if err == nil {
			all, _ := b.B.VerifInmem().GetAllPeerSets()
			fmt.Fprintf(w.Out, "CW %d P %d %s\n", b.lin, rec.key, h.psStr(all[rec.key]))
			_ = ps
		}
	case 'B':
		blk := rec.blk
		type se struct{ v, o int }
		l := []se{}
		for _, bs := range blk.GetSignatures() {
			l = append(l, se{w.Ord(bs.ValidatorHex()), w.SigOver(bs)})
		}
		sort.Slice(l, func(i, j int) bool { return l[i].v < l[j].v })
		com := 0
		if len(blk.StateHash()) > 0 {
			com = 1
		}
		fmt.Fprintf(w.Out, "CW %d B %d %d %d %d", b.lin, blk.Index(), blk.RoundReceived(), w.BodyID(blk), com)
		for _, x := range l {
			fmt.Fprintf(w.Out, " %d:%d", x.v, x.o)
		}
		fmt.Fprintf(w.Out, "\n")
	default:
		fmt.Fprintf(w.Out, "CW %d %c %d\n", b.lin, rec.kind, rec.key)
	}
	b.log = append(b.log, rec)
	h.actions[fmt.Sprintf("w:%c", rec.kind)]++
}

// wrote is called by the CountStore after every acknowledged write
func (h *hist) wrote(b *bnode, rec wrec) {
	h.logWrite(b, rec)
	if h.childLog != nil {
		if rec.kind == 'E' && rec.isNew {
			h.childLog.Write([]byte("E " + rec.ev.Hex() + "\n"))
		}
		return
	}
	k := len(b.log)
	kill := b.killAt == k
	snap := kill || b.snapAll || h.rng.Float64() < h.cfg.snapRate ||
		(h.cfg.blockRate > 0 && (rec.kind == 'F' || (rec.kind == 'B' && h.rng.Float64() < h.cfg.blockRate)))
	// crash points INSIDE this write: prefixes of the value log that end between the previous write and this one
	// (see vlogCuts). Only for the store methods that are one Badger transaction on one or three keys.
	prev, cur := b.vlogPrev, vlogSize(b.dir)
	b.vlogPrev = cur
	var cuts []int64
	if (snap || kill) && prev >= 0 && cur > prev && strings.IndexByte("EBFR", rec.kind) >= 0 {
		cuts = vlogCuts(b.dir, prev, cur)
	}
	if snap {
		h.midOp++
		h.snapshot(b, k, kill)
		if len(cuts) > 0 && (b.snapAll || h.rng.Intn(3) == 0) {
			// the write is not acknowledged in such an image: recovery must give the state after k-1 writes
			off := cuts[h.rng.Intn(len(cuts))]
			if dir, err := os.MkdirTemp(h.tmp, "cut"); err == nil {
				if err := copyDirCut(b.dir, dir, off); err == nil {
					h.snapshots++
					h.snapKinds["inside:"+string(rec.kind)]++
					h.checkRecovery(b, dir, k-1, "inside-write")
				}
				os.RemoveAll(dir)
			}
		}
	}
	if kill {
		h.crashMidOp++
		if len(cuts) > 0 && h.rng.Intn(2) == 0 {
			// the process dies INSIDE this write: the node continues from a value log that ends at one of the cut
			// points; the write was never acknowledged, so it leaves the log (CT tells the model)
			off := cuts[h.rng.Intn(len(cuts))]
			if cont, err := os.MkdirTemp(h.tmp, "cont"); err == nil {
				if err := copyDirCut(b.dir, cont, off); err == nil {
					os.RemoveAll(b.contDir)
					b.contDir = cont
					b.log = b.log[:k-1]
					fmt.Fprintf(h.w.Out, "CT %d\n", b.lin)
					h.actions["kill-inside-write:"+string(rec.kind)]++
				} else {
					os.RemoveAll(cont)
				}
			}
		}
		b.vlogPrev = -1
		panic(crashSignal{b.lin})
	}
}

func (h *hist) snapshot(b *bnode, k int, kill bool) {
	dir, err := os.MkdirTemp(h.tmp, "snap")
	if err != nil {
		panic(err)
	}
	if err := copyDir(b.dir, dir); err != nil {
		panic(err)
	}
	why := "random"
	if kill {
		why = "kill"
	} else if b.snapAll {
		why = "every-write"
	}
	h.snapshots++
	key := string(b.log[k-1].kind)
	if b.log[k-1].kind == 'E' && b.log[k-1].isNew {
		key = "Enew"
	}
	h.snapKinds["after:"+key]++
	h.checkRecovery(b, dir, k, why)
	os.RemoveAll(dir)
	if kill {
		cont, err := os.MkdirTemp(h.tmp, "cont")
		if err != nil {
			panic(err)
		}
		if err := copyDir(b.dir, cont); err != nil {
			panic(err)
		}
		b.contDir = cont
	}
}

/**************************************** gossip ****************************************/

// guarded runs one operation of node a; a crashSignal abandons it and restarts the lineage
func (h *hist) guarded(f func()) (crashed bool) {
	defer func() {
		if r := recover(); r != nil {
			if cs, ok := r.(crashSignal); ok {
				crashed = true
				h.restart(h.bn[cs.lin], true)
				return
			}
			panic(r)
		}
	}()
	f()
	return false
}

func (h *hist) beginOp(a *hx.Node) {
	if b := h.byNode[a]; b != nil && b.fullLeft > 0 && h.rng.Intn(12) == 0 {
		b.snapAll = true
		b.fullLeft--
		h.actions["every-write-ops"]++
	}
}

func (h *hist) endOp(a *hx.Node) {
	if b := h.byNode[a]; b != nil {
		b.snapAll = false
	}
}

func (h *hist) pull(a, b *hx.Node, limit int, lose bool) {
	known := a.Core.KnownEvents()
	diff, err := b.Core.EventDiff(known)
	if err != nil {
		h.actions["diff-error"]++
		return
	}
	if limit >= 0 && limit < len(diff) {
		diff = diff[:limit]
		h.actions["truncated"]++
	}
	wire, _ := b.Core.ToWire(diff)
	if lose {
		h.actions["lost"]++
		return
	}
	ran := false
	h.beginOp(a)
	dup := len(wire) > 0 && h.rng.Intn(12) == 0
	crashed := h.guarded(func() {
		err = a.Core.Sync(b.Core.ValidatorID(), wire)
		if err != nil {
			h.actions["sync-error"]++
		}
		if dup && err == nil {
			// the same response delivered twice (two concurrent pulls): every event is rejected
			// with a normal self-parent error; rejected attempts must not leave a trace in the store
			h.actions["duplicate-sync"]++
			if derr := a.Core.Sync(b.Core.ValidatorID(), wire); derr != nil && !hg.IsNormalSelfParentError(derr) {
				h.actions["duplicate-sync-error"]++
			}
		}
		if err == nil || hg.IsNormalSelfParentError(err) {
			if perr := a.Core.ProcessSigPool(); perr != nil {
				h.actions["sigpool-error"]++
			}
			ran = true
		}
	})
	h.endOp(a)
	if crashed {
		return
	}
	h.after(a, ran)
}

func (h *hist) selfEvent(a *hx.Node) {
	h.beginOp(a)
	crashed := h.guarded(func() {
		a.Core.AddSelfEvent("")
		a.Core.ProcessSigPool()
	})
	h.endOp(a)
	if !crashed {
		h.after(a, true)
	}
}

func (h *hist) after(a *hx.Node, sigPoolRan bool) {
	before := len(a.Final)
	a.AfterAction(sigPoolRan)
	h.agreement(a, before)
	if b := h.byNode[a]; b != nil {
		h.freshSelfEvent(b)
	}
	if h.cfg.dyn {
		h.membership(a)
	}
}

// agreement oracle: pairwise prefix-consistency of the delivered blocks
func (h *hist) agreement(a *hx.Node, before int) {
	for k := before; k < len(a.Final); k++ {
		for _, o := range h.nodes {
			if o == a || k >= len(o.Final) {
				continue
			}
			if o.FinalBody[k] != a.FinalBody[k] {
				ba, bo := h.byNode[a], h.byNode[o]
				if (ba != nil && ba.restarted) || (bo != nil && bo.restarted) {
					h.violation("disagreement-after-restart", fmt.Sprintf("index=%d node%d=[%s] node%d=[%s]", k, a.ID, a.FinalBody[k], o.ID, o.FinalBody[k]))
				} else {
					h.w.Violation("C01", "blocks-differ", fmt.Sprintf("hist=%d index=%d node%d node%d", h.hid, k, a.ID, o.ID))
				}
			}
		}
	}
}

// the first self-event a restarted node creates must sit at a height no other node has seen
// occupied by a different event of this creator
func (h *hist) freshSelfEvent(b *bnode) {
	if !b.restarted || b.freshChecked || b.nd.Core.Seq() <= b.seqAtRestart {
		return
	}
	b.freshChecked = true
	pub := h.w.Peers[b.self].PubKeyString()
	hs, err := b.nd.Store.ParticipantEvents(pub, b.seqAtRestart)
	if err != nil || len(hs) == 0 {
		return
	}
	first, err := b.nd.Store.GetEvent(hs[0])
	if err != nil {
		return
	}
	h.actions["fresh-self-event-checked"]++
	if first.Index() != b.seqAtRestart+1 {
		h.violation("self-fork-after-restart", fmt.Sprintf("kind=first-index node=%d index=%d restored-seq=%d", b.nd.ID, first.Index(), b.seqAtRestart))
	}
	for _, o := range h.nodes {
		if o == b.nd {
			continue
		}
		x, err := o.Store.ParticipantEvent(pub, first.Index())
		if err == nil && x != first.Hex() {
			h.violation("self-fork-after-restart", fmt.Sprintf("kind=height-already-used node=%d index=%d seen-by=%d", b.nd.ID, first.Index(), o.ID))
		}
	}
}

func (h *hist) membership(a *hx.Node) {
	all, _ := a.Store.GetAllPeerSets()
	for r, ps := range all {
		for _, p := range ps {
			o := h.w.Ord(p.PubKeyHex)
			if h.pendingJoins[o] && !h.joined[o] {
				h.joined[o] = true
				cur := []int{}
				for _, q := range ps {
					cur = append(cur, h.w.Ord(q.PubKeyHex))
				}
				nd := h.w.NewNode(h.nextNodeID, o, cur, h.genesis, hg.NewInmemStore(h.cfg.cache))
				h.nextNodeID++
				nd.Core.SetAcceptedRound(r)
				nd.Core.SetHeadAndSeq()
				h.nodes = append(h.nodes, nd)
				h.weights = append(h.weights, 1)
				h.actions["node-joined"]++
			}
		}
	}
	if h.leaving[a.Self] && a.Core.RemovedRound() > 0 && a.Hg.LastConsensusRound != nil && *a.Hg.LastConsensusRound >= a.Core.RemovedRound() {
		if !a.Silent {
			a.Silent = true
			h.actions["node-left"]++
		}
	}
}

func (h *hist) requestJoin(a *hx.Node) {
	o := h.w.AddKey()
	p := h.w.Peers[o]
	itx := hg.NewInternalTransactionJoin(*peers.NewPeer(p.PubKeyHex, p.NetAddr, p.Moniker))
	itx.Sign(h.w.Privs[o])
	if h.rng.Intn(5) == 0 {
		h.w.Refused[h.w.ItxID(&itx)] = true
		h.actions["join-refused-by-app"]++
	} else {
		h.pendingJoins[o] = true
	}
	a.Core.AddInternalTransaction(itx)
	h.actions["join-request"]++
}

func (h *hist) requestLeave(a *hx.Node) {
	if h.leaving[a.Self] || h.byNode[a] != nil {
		return
	}
	p := h.w.Peers[a.Self]
	itx := hg.NewInternalTransactionLeave(*peers.NewPeer(p.PubKeyHex, p.NetAddr, p.Moniker))
	itx.Sign(h.w.Privs[a.Self])
	h.leaving[a.Self] = true
	a.Core.AddInternalTransaction(itx)
	h.actions["leave-request"]++
}

func (h *hist) submit(a *hx.Node) {
	k := 1 + h.rng.Intn(3)
	txs := [][]byte{}
	for i := 0; i < k; i++ {
		txs = append(txs, h.w.NewTx(h.rng.Intn(4)))
	}
	a.Core.AddTransactions(txs)
	fmt.Fprintf(h.w.Out, "T %d", a.ID)
	for _, tx := range txs {
		fmt.Fprintf(h.w.Out, " %d", hx.TxSerialOf(tx))
	}
	fmt.Fprintf(h.w.Out, "\n")
	h.actions["submit"]++
}

func (h *hist) newBadgerNode(lin, id, self int) *bnode {
	dir, err := os.MkdirTemp(h.tmp, "db")
	if h.fixedDB != "" {
		dir = h.fixedDB
		err = os.MkdirAll(dir, 0o755)
	}
	if err != nil {
		panic(err)
	}
	B, err := hg.NewBadgerStore(h.cfg.cache, dir, false, hx.QuietLogger())
	if err != nil {
		panic(err)
	}
	b := &bnode{lin: lin, self: self, dir: dir, B: B, killAt: -1, fullLeft: h.cfg.fullOps, vlogPrev: -1}
	cs := &CountStore{Store: B, B: B, h: h, b: b}
	h.bn = append(h.bn, b)
	fmt.Fprintf(h.w.Out, "CN %d %d\n", lin, self)
	// newCore -> Hashgraph.Init writes the genesis peer set through the decorated store
	nd := h.w.NewNode(id, self, h.genesis, h.genesis, cs)
	b.nd = nd
	h.byNode[nd] = b
	h.hookApp(b, nd)
	h.scheduleKill(b)
	return b
}

func (h *hist) hookApp(b *bnode, nd *hx.Node) {
	b.delivKeys = nil
	nd.App.OnCommit = func(block hg.Block, state []byte) {
		b.delivKeys = append(b.delivKeys, deliveryKey(block, state))
		if h.childLog != nil {
			h.childLog.Write([]byte(fmt.Sprintf("D %d %s\n", block.Index(), deliveryKey(block, state))))
		}
	}
}

func deliveryKey(block hg.Block, state []byte) string {
	bh, _ := block.Body.Hash()
	return fmt.Sprintf("%d:%X/%X", block.Index(), bh[:8], state[:8])
}

func (h *hist) scheduleKill(b *bnode) {
	b.killAt = -1
	if b.kills >= h.cfg.maxKills {
		return
	}
	// the first kill falls anywhere in the expected life of the history; later ones sooner
	span := 6 * h.cfg.steps / (1 + 2*b.kills)
	b.killAt = len(b.log) + 1 + h.rng.Intn(span+1)
}

func runHistory(out *bufio.Writer, seed int64, hid int, c cfg, tmp string) int {
	rng := rand.New(rand.NewSource(seed))
	w := hx.NewWorld(out)
	h := &hist{w: w, rng: rng, cfg: c, hid: hid, tmp: tmp, actions: map[string]int{}, byNode: map[*hx.Node]*bnode{},
		pendingJoins: map[int]bool{}, joined: map[int]bool{}, leaving: map[int]bool{}, snapKinds: map[string]int{}}
	h.scenario = "random"
	if c.dyn {
		h.scenario = "random-dyn"
	}
	fmt.Fprintf(out, "H %d seed=%d n=%d steps=%d\n", hid, seed, c.n, c.steps)
	for i := 0; i < c.n; i++ {
		h.genesis = append(h.genesis, w.AddKey())
	}
	h.nextNodeID = c.n
	for i := 0; i < c.n; i++ {
		if i < c.nbadger {
			b := h.newBadgerNode(i, i, i)
			h.nodes = append(h.nodes, b.nd)
		} else {
			h.nodes = append(h.nodes, w.NewNode(i, i, h.genesis, h.genesis, hg.NewInmemStore(c.cache)))
		}
	}
	defer func() {
		for _, b := range h.bn {
			if b.B != nil {
				safeClose(b.B)
			}
		}
	}()
	for _, nd := range h.nodes {
		if c.n == 1 || rng.Intn(2) == 0 {
			h.selfEvent(h.current(nd))
		}
	}
	h.weights = make([]float64, c.n)
	for i := range h.weights {
		h.weights[i] = []float64{1, 1, 0.3, 0.08}[rng.Intn(4)]
		if i < c.nbadger && h.weights[i] < 0.3 {
			h.weights[i] = 0.3
		}
	}
	pick := func() int {
		tot := 0.0
		for i, x := range h.weights {
			if !h.nodes[i].Silent {
				tot += x
			}
		}
		r := rng.Float64() * tot
		for i, x := range h.weights {
			if h.nodes[i].Silent {
				continue
			}
			if r < x {
				return i
			}
			r -= x
		}
		return 0
	}
	truncRate := []float64{0, 0.1, 0.5}[rng.Intn(3)]
	loseRate := []float64{0, 0.05, 0.2}[rng.Intn(3)]
	submitRate := []float64{0.1, 0.25, 0.5}[rng.Intn(3)]
	for step := 0; step < c.steps; step++ {
		a := h.nodes[pick()]
		if c.dyn && rng.Intn(40) == 0 {
			live := 0
			for _, nd := range h.nodes {
				if !nd.Silent && !h.leaving[nd.Self] {
					live++
				}
			}
			if rng.Intn(3) > 0 || live <= 2 {
				h.requestJoin(a)
			} else {
				h.requestLeave(a)
			}
			continue
		}
		// a crash between two operations (the process dies while idle)
		if b := h.byNode[a]; b != nil && b.kills < c.maxKills && rng.Intn(6*c.steps) < 3 {
			h.snapshot(b, len(b.log), true)
			h.restart(b, false)
			continue
		}
		if rng.Float64() < submitRate {
			h.submit(a)
			if c.n == 1 {
				h.selfEvent(a)
			}
			continue
		}
		if c.n == 1 {
			if a.Core.Busy() {
				h.selfEvent(a)
			}
			continue
		}
		bi := pick()
		for tries := 0; h.nodes[bi] == a && tries < 50; tries++ {
			bi = pick()
		}
		if h.nodes[bi] == a {
			continue
		}
		bnd := h.nodes[bi]
		limit := -1
		if rng.Float64() < truncRate {
			limit = rng.Intn(6)
		}
		ai := h.index(a)
		h.pull(a, bnd, limit, rng.Float64() < loseRate)
		h.actions["pull"]++
		if rng.Intn(3) == 0 {
			h.pull(h.nodes[bi], h.nodes[ai], -1, false)
			h.actions["push"]++
		}
	}
	for cyc := 0; cyc < c.tail; cyc++ {
		for i := range h.nodes {
			for j := range h.nodes {
				if i != j && !h.nodes[i].Silent && !h.nodes[j].Silent {
					h.pull(h.nodes[i], h.nodes[j], -1, false)
				}
			}
		}
	}
	// clean shutdown of every Badger node: close, reopen the same directory, bootstrap
	for _, b := range h.bn {
		h.cleanShutdown(b)
	}
	h.finalChecks()
	h.printStats()
	return w.Violations
}

func (h *hist) index(a *hx.Node) int {
	for i, nd := range h.nodes {
		if nd == a {
			return i
		}
	}
	return -1
}

// current incarnation of a node that may have been replaced
func (h *hist) current(nd *hx.Node) *hx.Node {
	for _, b := range h.bn {
		if b.self == nd.Self {
			return b.nd
		}
	}
	return nd
}

func safeClose(B *hg.BadgerStore) {
	defer func() { recover() }()
	B.Close()
}

func (h *hist) printStats() {
	st := map[string]int{"n": h.cfg.n, "snapshots": h.snapshots, "checks": h.checks, "modelchecks": h.modelChecks,
		"maxevents": h.maxEvents, "killed-mid-operation": h.crashMidOp, "redelivered": h.redelivered, "midop": h.midOp}
	for _, b := range h.bn {
		st["restarts"] += b.gen
		st["writes"] += len(b.log)
		if b.gen >= 2 {
			st["restarted-twice"]++
		}
	}
	for k, v := range h.actions {
		st["a:"+k] = v
	}
	for k, v := range h.snapKinds {
		st["s:"+k] = v
	}
	keys := []string{}
	for k := range st {
		keys = append(keys, k)
	}
	sort.Strings(keys)
	s := []string{}
	for _, k := range keys {
		s = append(s, fmt.Sprintf("%s=%d", k, st[k]))
	}
	fmt.Fprintf(h.w.Out, "Z %d %s\n", h.hid, strings.Join(s, " "))
}

func main() {
	seed := flag.Int64("seed", 1, "seed")
	nh := flag.Int("hist", 4, "number of histories")
	maxn := flag.Int("maxn", 5, "max validators")
	steps := flag.Int("steps", 120, "random actions per history")
	tail := flag.Int("tail", 1, "fair all-pairs cycles at the end")
	cache := flag.Int("cache", 10000, "store cache size")
	dyn := flag.Bool("dyn", false, "joins and leaves")
	fullOps := flag.Int("fullops", 2, "operations per Badger node in which every write is a crash point")
	snapRate := flag.Float64("snaprate", 0.01, "probability of a crash point after any other write")
	blockRate := flag.Float64("blockrate", 0.15, "probability of a crash point after a block write (after a frame write: always, unless 0)")
	maxKills := flag.Int("kills", 2, "real kills (restart and continue) per Badger node")
	sigkill := flag.Int("sigkill", 0, "number of child processes to SIGKILL at random instants")
	child := flag.String("child", "", "(internal) run as the node process writing to this directory")
	byz := flag.Bool("byz", false, "directed scenario: a validator's block signature reaches the node before the block exists")
	flag.Parse()
	if *child != "" {
		childMain(*child, *seed, *maxn, *steps, *cache)
		return
	}
	out := bufio.NewWriterSize(os.Stdout, 1<<20)
	defer out.Flush()
	tmp, err := os.MkdirTemp("", "verif-crash-")
	if err != nil {
		panic(err)
	}
	defer os.RemoveAll(tmp)
	master := rand.New(rand.NewSource(*seed))
	for i := 0; i < *nh; i++ {
		n := 1 + master.Intn(*maxn)
		if i%7 != 3 && n < 3 && *maxn >= 3 {
			n = 3 + master.Intn(*maxn-2)
		}
		nb := 1
		if n >= 3 && master.Intn(3) == 0 {
			nb = 2
		}
		c := cfg{n: n, steps: *steps/2 + master.Intn(*steps), dyn: *dyn, tail: *tail, cache: *cache, nbadger: nb,
			fullOps: *fullOps, snapRate: *snapRate, blockRate: *blockRate, maxKills: *maxKills}
		runHistory(out, master.Int63(), i, c, tmp)
		out.Flush()
	}
	if *byz {
		runByz(out, master.Int63(), *nh, tmp, *cache)
	}
	for i := 0; i < *sigkill; i++ {
		sigkillOnce(out, master.Int63(), *nh+1+i, tmp, *maxn, *steps, *cache)
		out.Flush()
	}
}
