package main

import (
	"fmt"
	"os"
	"sort"
	"strings"

	hg "github.com/mosaicnetworks/babble/src/hashgraph"
	"verifharness/hx"
)

// expectation derived from the first k entries of a write log
type expect struct {
	events  []*hg.Event // events whose new-event write is in the prefix, in write order
	gens    map[string]int
	last    map[int]int // creator ordinal -> last index
	ownHead string
	ownSeq  int
}

func (h *hist) expected(b *bnode, k int) *expect {
	x := &expect{gens: map[string]int{}, last: map[int]int{}, ownSeq: -1}
	seen := map[string]bool{}
	for _, r := range b.log[:k] {
		if r.kind != 'E' || seen[r.ev.Hex()] {
			continue
		}
		// the DB treats an event as new when its key is absent; the harness-side flag (absent from
		// the cache) coincides with it as long as nothing was lost, and is cross-checked below
		seen[r.ev.Hex()] = true
		x.events = append(x.events, r.ev)
		x.gens[r.ev.Hex()] = r.gen
		o := h.w.Ord(r.ev.Creator())
		if cur, ok := x.last[o]; !ok || r.ev.Index() > cur {
			x.last[o] = r.ev.Index()
		}
		if o == b.self {
			x.ownHead, x.ownSeq = r.ev.Hex(), r.ev.Index()
		}
	}
	return x
}

func storeEvents(w *hx.World, st hg.Store) (map[string]*hg.Event, []*hg.Event) {
	set := map[string]*hg.Event{}
	l := []*hg.Event{}
	for _, p := range st.RepertoireByPubKey() {
		hs, err := st.ParticipantEvents(p.PubKeyString(), -1)
		if err != nil {
			continue
		}
		for _, x := range hs {
			if ev, err := st.GetEvent(x); err == nil {
				set[x] = ev
				l = append(l, ev)
			}
		}
	}
	sort.Slice(l, func(i, j int) bool { return l[i].VerifTopologicalIndex() < l[j].VerifTopologicalIndex() })
	return set, l
}

// recoverNode opens a BadgerStore on dir, builds a fresh core with a RESET application, runs
// core.bootstrap + setHeadAndSeq (what babble does with --bootstrap) and returns the node.
func (h *hist) recoverNode(b *bnode, dir string, onCommit func(hg.Block, []byte)) (*hx.Node, *hg.BadgerStore, error) {
	B, err := hg.NewBadgerStore(h.cfg.cache, dir, false, hx.QuietLogger())
	if err != nil {
		return nil, nil, fmt.Errorf("open: %v", err)
	}
	id := h.nextNodeID
	h.nextNodeID++
	nd := h.w.NewNode(id, b.self, h.genesis, h.genesis, B)
	nd.App.OnCommit = onCommit
	if err := nd.Core.Bootstrap(); err != nil {
		return nd, B, fmt.Errorf("bootstrap: %v", err)
	}
	if err := nd.Core.SetHeadAndSeq(); err != nil {
		return nd, B, fmt.Errorf("setHeadAndSeq: %v", err)
	}
	return nd, B, nil
}

// checkRecovery: the DB directory `dir` holds the first k writes of lineage b. Bootstrap a fresh
// core from it and compare with the durable pre-crash observations and (via CC) with the model.
func (h *hist) checkRecovery(b *bnode, dir string, k int, why string) {
	w := h.w
	h.checks++
	x := h.expected(b, k)
	if len(x.events) > h.maxEvents {
		h.maxEvents = len(x.events)
	}
	where := fmt.Sprintf("lineage=%d gen=%d write=%d(%s) events=%d", b.lin, b.gen, k, why, len(x.events))
	pre := append([]string{}, b.delivKeys...)
	got := []string{}
	nd, B, err := h.recoverNode(b, dir, func(block hg.Block, state []byte) { got = append(got, deliveryKey(block, state)) })
	if B != nil {
		defer safeClose(B)
	}
	if err != nil {
		h.violation("event-lost-after-restart", fmt.Sprintf("kind=recovery-failed %s err=%q", where, err.Error()))
		if nd == nil {
			return
		}
	}
	if B.GetMaintenanceMode() {
		h.violation("not-persisted-after-restart", "kind=maintenance-mode-left-on "+where)
	}
	// the DB's own topological listing against the log
	if dbl, err := B.VerifDBTopologicalEvents(0, 1<<30); err != nil {
		h.violation("event-lost-after-restart", fmt.Sprintf("kind=db-topo-listing-error %s err=%q", where, err.Error()))
	} else {
		for i := 0; i < len(dbl) || i < len(x.events); i++ {
			if i >= len(dbl) {
				h.violation(h.lostClass(x, x.events[i]), fmt.Sprintf("kind=db-topo-listing-short %s listed=%d", where, len(dbl)))
				break
			}
			if i >= len(x.events) {
				h.violation("unknown-event-after-restart", fmt.Sprintf("kind=db-topo-listing-long %s listed=%d", where, len(dbl)))
				break
			}
			if dbl[i].Hex() != x.events[i].Hex() {
				h.violation("event-lost-after-restart", fmt.Sprintf("kind=db-topo-listing-order %s position=%d", where, i))
				break
			}
		}
	}
	// 1. redelivery
	for i, key := range pre {
		if i >= len(got) {
			h.violation("redelivery-missing-block", fmt.Sprintf("%s block=%d delivered-before=%d redelivered=%d", where, i, len(pre), len(got)))
			break
		}
		if got[i] != key {
			h.violation("redelivered-block-differs", fmt.Sprintf("%s block=%d before=%s after=%s", where, i, key, got[i]))
			break
		}
		h.redelivered++
	}
	b.recovered = append(b.recovered, got)
	// 2. events
	set, listed := storeEvents(w, nd.Store)
	for _, ev := range x.events {
		if _, ok := set[ev.Hex()]; !ok {
			h.violation(h.lostClass(x, ev), fmt.Sprintf("%s eid=%d creator=%d index=%d", where, w.Eid(ev.Hex()), w.Ord(ev.Creator()), ev.Index()))
			break
		}
	}
	want := map[string]bool{}
	for _, ev := range x.events {
		want[ev.Hex()] = true
	}
	for hex, ev := range set {
		if !want[hex] {
			h.violation("unknown-event-after-restart", fmt.Sprintf("%s eid=%d creator=%d index=%d", where, w.Eid(hex), w.Ord(ev.Creator()), ev.Index()))
			break
		}
	}
	for id, last := range nd.Core.KnownEvents() {
		p, ok := nd.Store.RepertoireByID()[id]
		if !ok {
			continue
		}
		o := w.Ord(p.PubKeyHex)
		wl, ok := x.last[o]
		if !ok {
			wl = -1
		}
		if last > wl {
			h.violation("unknown-event-after-restart", fmt.Sprintf("kind=known-map %s creator=%d known=%d written=%d", where, o, last, wl))
		} else if last < wl {
			h.violation("event-lost-after-restart", fmt.Sprintf("kind=known-map %s creator=%d known=%d written=%d", where, o, last, wl))
		}
	}
	// 3. head / seq, and what the others know of this creator
	if nd.Core.Head() != x.ownHead || nd.Core.Seq() != x.ownSeq {
		h.violation("self-fork-after-restart", fmt.Sprintf("kind=head-not-restored %s seq=%d written-seq=%d", where, nd.Core.Seq(), x.ownSeq))
	}
	selfID := w.Peers[b.self].ID()
	for _, o := range h.nodes {
		if o.Self == b.self {
			continue
		}
		if last, ok := o.Core.KnownEvents()[selfID]; ok && last > x.ownSeq {
			h.violation("self-fork-after-restart", fmt.Sprintf("kind=others-know-unrecorded-own-event %s node=%d knows=%d written-seq=%d", where, o.ID, last, x.ownSeq))
		}
	}
	// 4. the model: bootstrap of the log prefix (CC installs the model state under this trace id)
	if len(x.events) != b.lastCCEvents || why != "every-write" {
		b.lastCCEvents = len(x.events)
		h.modelChecks++
		ids := []string{}
		for _, idx := range nd.App.NewIdx {
			if blk, err := nd.Store.GetBlock(idx); err == nil {
				ids = append(ids, fmt.Sprint(w.BodyID(blk)))
			}
		}
		okStr := "ok"
		if err != nil {
			okStr = "error"
		}
		fmt.Fprintf(w.Out, "CC %d %d %d %d %s | %s => %d %d %s\n", nd.ID, b.lin, k, b.self, h.genesisStr(), strings.Join(ids, " "),
			w.Eid(nd.Core.Head()), nd.Core.Seq(), okStr)
		// observables are read from the in-memory layer (Store.GetBlock of the BadgerStore would also
		// report blocks of the previous life straight from the database)
		nd.Store = B.VerifInmem()
		for _, ev := range listed {
			nd.NoteInserted(ev)
		}
		nd.AfterActionX(false, false)
	}
}

func (h *hist) genesisStr() string {
	s := []string{}
	for _, o := range h.genesis {
		s = append(s, fmt.Sprintf("%d:%d", h.w.Peers[o].ID(), o))
	}
	return strings.Join(s, " ")
}

func (h *hist) lostClass(x *expect, ev *hg.Event) string {
	if x.gens[ev.Hex()] >= 1 {
		return "not-persisted-after-restart"
	}
	return "event-lost-after-restart"
}

// restart: the lineage's node was killed after write len(b.log); b.contDir holds the DB at that
// instant. The old core is dropped, a new one is bootstrapped and takes its place in the history.
func (h *hist) restart(b *bnode, midOp bool) {
	old := b.nd
	safeClose(b.B)
	os.RemoveAll(b.dir)
	b.dir, b.contDir = b.contDir, ""
	b.gen++
	b.kills++
	b.restarted = true
	x := h.expected(b, len(b.log))
	// the application is reset; the re-delivered blocks form the new durable delivery log
	b.delivKeys = nil
	nd, B, err := h.recoverNode(b, b.dir, func(block hg.Block, state []byte) {
		b.delivKeys = append(b.delivKeys, deliveryKey(block, state))
	})
	if err != nil {
		h.violation("event-lost-after-restart", fmt.Sprintf("kind=restart-failed lineage=%d gen=%d err=%q", b.lin, b.gen, err.Error()))
	}
	// newCore -> Init wrote the genesis peer set again (the store is not in maintenance mode then)
	b.B = B
	h.logWrite(b, wrec{kind: 'P', key: 0})
	cs := &CountStore{Store: B, B: B, h: h, b: b}
	nd.Hg.Store = cs
	nd.Store = cs
	b.nd = nd
	delete(h.byNode, old)
	h.byNode[nd] = b
	for i := range h.nodes {
		if h.nodes[i] == old {
			h.nodes[i] = nd
		}
	}
	b.seqAtRestart = x.ownSeq
	b.freshChecked = false
	b.snapAll = false
	h.actions["restart"]++
	h.scheduleKill(b)
	// a node that restarts creates an event as soon as it is busy; here it simply rejoins the gossip
	before := 0
	nd.AfterAction(true)
	h.agreement(nd, before)
}

// cleanShutdown: Close the store, reopen the same directory, bootstrap, compare with everything
func (h *hist) cleanShutdown(b *bnode) {
	safeClose(b.B)
	b.B = nil
	h.snapKinds["after:clean-close"]++
	h.snapshots++
	h.checkRecovery(b, b.dir, len(b.log), "clean-shutdown")
}

// finalChecks: every recovery's deliveries must be a prefix of what the lineage finally delivered
func (h *hist) finalChecks() {
	for _, b := range h.bn {
		final := b.delivKeys
		for _, got := range b.recovered {
			for i := range got {
				if i < len(final) && got[i] != final[i] {
					h.violation("redelivered-block-differs", fmt.Sprintf("kind=differs-from-later-delivery lineage=%d block=%d", b.lin, i))
					break
				}
			}
		}
	}
}
