package main

import (
	"encoding/binary"
	"fmt"
	"io"
	"os"
	"path/filepath"

	hg "github.com/mosaicnetworks/babble/src/hashgraph"
	"github.com/mosaicnetworks/babble/src/peers"
)

// crashSignal is panicked by the CountStore when the kill ordinal is reached: the running
// operation of the node is abandoned exactly there (nothing after the k-th write happens).
type crashSignal struct{ lin int }

// wrec: one write acknowledged by the BadgerStore, as seen at the hg.Store interface.
type wrec struct {
	kind  byte // 'P' peer set, 'E' event, 'R' round, 'B' block, 'F' frame, 'X' reset
	key   int  // round / block index / eid
	isNew bool // E: the event was not stored before (event record + topo key + participant key)
	topo  int
	ev    *hg.Event
	blk   *hg.Block
	gen   int // restart generation in which the write was made
}

// CountStore decorates the node's BadgerStore: every write method that returned without error is
// one entry of the lineage's write log (the DB then contains exactly the logged writes, in order);
// after each entry the history may take a snapshot of the DB directory or kill the node.
type CountStore struct {
	hg.Store // the *hg.BadgerStore (all reads pass through)
	B        *hg.BadgerStore
	h        *hist
	b        *bnode
}

func (c *CountStore) SetEvent(e *hg.Event) error {
	_, gerr := c.B.VerifInmem().GetEvent(e.Hex())
	isNew := gerr != nil
	if err := c.Store.SetEvent(e); err != nil {
		return err
	}
	c.h.wrote(c.b, wrec{kind: 'E', isNew: isNew, topo: e.VerifTopologicalIndex(), ev: e})
	return nil
}

func (c *CountStore) SetRound(r int, ri *hg.RoundInfo) error {
	if err := c.Store.SetRound(r, ri); err != nil {
		return err
	}
	c.h.wrote(c.b, wrec{kind: 'R', key: r})
	return nil
}

func (c *CountStore) SetBlock(b *hg.Block) error {
	if err := c.Store.SetBlock(b); err != nil {
		return err
	}
	c.h.wrote(c.b, wrec{kind: 'B', key: b.Index(), blk: b})
	return nil
}

func (c *CountStore) SetFrame(f *hg.Frame) error {
	if err := c.Store.SetFrame(f); err != nil {
		return err
	}
	c.h.wrote(c.b, wrec{kind: 'F', key: f.Round})
	return nil
}

func (c *CountStore) SetPeerSet(r int, ps *peers.PeerSet) error {
	if err := c.Store.SetPeerSet(r, ps); err != nil {
		return err
	}
	c.h.wrote(c.b, wrec{kind: 'P', key: r})
	return nil
}

func (c *CountStore) Reset(f *hg.Frame) error {
	if err := c.Store.Reset(f); err != nil {
		return err
	}
	c.h.wrote(c.b, wrec{kind: 'X', key: f.Round})
	return nil
}

// copyDir copies a Badger directory (flat: MANIFEST, *.vlog, *.sst; the LOCK pid file is skipped).
//
// Soundness of taking the copy while the DB is open: the harness is single-threaded and the copy
// is taken between two Store calls, i.e. after the last transaction's Commit has returned. In
// badger v1.6.0 Commit returns only after the value-log write(2) of the transaction has completed
// (valueLog.write -> toDisk -> fd.Write) and no other goroutine writes to the directory while the
// memtable is below its flush threshold (64 MB; the runs write a few MB). The bytes read back by
// the copy are therefore exactly the bytes the kernel would keep if the process were SIGKILLed at
// this instant; opening the copy makes Badger replay the value log as it does after a real crash.
// If the copy missed a committed write the oracle would report event-lost (a loud failure of the
// method, not a silent one); the thorough tier cross-checks with real SIGKILLs.
func copyDir(src, dst string) error {
	if err := os.MkdirAll(dst, 0o755); err != nil {
		return err
	}
	ents, err := os.ReadDir(src)
	if err != nil {
		return err
	}
	for _, e := range ents {
		if e.IsDir() || e.Name() == "LOCK" {
			continue
		}
		in, err := os.Open(filepath.Join(src, e.Name()))
		if err != nil {
			return err
		}
		out, err := os.Create(filepath.Join(dst, e.Name()))
		if err != nil {
			in.Close()
			return err
		}
		_, err = io.Copy(out, in)
		in.Close()
		if cerr := out.Close(); err == nil {
			err = cerr
		}
		if err != nil {
			return fmt.Errorf("copy %s: %v", e.Name(), err)
		}
	}
	return nil
}

// vlogSize: size of the (single) value log file of a Badger directory; -1 when there is not exactly one.
func vlogSize(dir string) int64 {
	m, _ := filepath.Glob(filepath.Join(dir, "*.vlog"))
	if len(m) != 1 {
		return -1
	}
	fi, err := os.Stat(m[0])
	if err != nil {
		return -1
	}
	return fi.Size()
}

// vlogCuts: offsets in (from, to) at which the value log can end if the process is killed while the bytes of
// one store write are being appended: every entry boundary strictly inside the region (badger v1.6.0 entry =
// header (key length u32, value length u32, expiresAt u64, meta, user meta: 18 bytes) + key + value + crc32; a
// transaction is its entries followed by a commit-marker entry, and on replay the entries of a transaction whose
// marker is missing are discarded) plus one torn entry (a cut in the middle of the first entry). Nil when the
// region does not parse as a whole number of entries.
func vlogCuts(dir string, from, to int64) []int64 {
	m, _ := filepath.Glob(filepath.Join(dir, "*.vlog"))
	if len(m) != 1 {
		return nil
	}
	f, err := os.Open(m[0])
	if err != nil {
		return nil
	}
	defer f.Close()
	data := make([]byte, to-from)
	if _, err := f.ReadAt(data, from); err != nil {
		return nil
	}
	res := []int64{}
	commits := []int64{} // boundaries that follow a commit marker strictly inside the region: the store method is not one transaction
	off := int64(0)
	n := int64(len(data))
	for off+18 <= n {
		klen := int64(binary.BigEndian.Uint32(data[off : off+4]))
		vlen := int64(binary.BigEndian.Uint32(data[off+4 : off+8]))
		fin := data[off+16]&(1<<7) != 0 // bitFinTxn
		off += 18 + klen + vlen + 4
		if off < n {
			res = append(res, from+off)
			if fin {
				commits = append(commits, from+off)
			}
		}
	}
	if off != n {
		return nil
	}
	if n > 40 {
		res = append(res, from+n/2)
	}
	// a cut after an inner commit marker is the state that differs from both "before" and "after" the write:
	// such cuts get three quarters of the weight when there are any
	for i, n0 := 0, len(res); len(commits) > 0 && i < 3*n0; i++ {
		res = append(res, commits[i%len(commits)])
	}
	return res
}

// copyDirCut: copyDir, with the value log truncated at offset off.
func copyDirCut(src, dst string, off int64) error {
	if err := copyDir(src, dst); err != nil {
		return err
	}
	m, _ := filepath.Glob(filepath.Join(dst, "*.vlog"))
	if len(m) != 1 {
		return fmt.Errorf("no single value log")
	}
	return os.Truncate(m[0], off)
}
