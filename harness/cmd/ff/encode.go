package main

import (
	"crypto/sha256"
	"encoding/hex"
	"fmt"
	"sort"
	"strings"

	"github.com/mosaicnetworks/babble/src/common"
	hg "github.com/mosaicnetworks/babble/src/hashgraph"
	"github.com/mosaicnetworks/babble/src/net"
	"github.com/mosaicnetworks/babble/src/node"
	"github.com/mosaicnetworks/babble/src/peers"
)

// ords: the numbering shared with the model (per history).
type ords struct {
	bytesOrd  map[string]int    // hex of key bytes -> ordinal
	peerVar   map[string]int    // non-canonical upper-cased peer key string -> variant >= 1
	sigVar    map[string]int    // non-canonical signature-map key string -> variant >= 1
	hashOrd   map[string]int    // hex of a SHA256 value -> ordinal
	peersList map[string]string // hex of a peer-set hash -> key list it is the hash of
	snapOrd   map[string]int
	digestOrd map[string]int
}

func newOrds() *ords {
	return &ords{bytesOrd: map[string]int{}, peerVar: map[string]int{}, sigVar: map[string]int{},
		hashOrd: map[string]int{}, peersList: map[string]string{}, snapOrd: map[string]int{}, digestOrd: map[string]int{}}
}

func intern(m map[string]int, k string, base int) int {
	if v, ok := m[k]; ok {
		return v
	}
	v := len(m) + base
	m[k] = v
	return v
}

func (o *ords) key(b []byte) int { return intern(o.bytesOrd, hex.EncodeToString(b), 0) }

func canonical(b []byte) string { return fmt.Sprintf("0X%X", b) }

// peerEnc: (bytes ordinal, variant) of a frame peer, as PeerSet.initMaps / Peer.PubKeyBytes see it
func (o *ords) peerEnc(p *peers.Peer) (int, int) {
	b := safePubKeyBytes(p)
	k := strings.ToUpper(p.PubKeyHex)
	if k == canonical(b) {
		return o.key(b), 0
	}
	return o.key(b), intern(o.peerVar, k, 1)
}

func safePubKeyBytes(p *peers.Peer) (b []byte) {
	defer func() {
		if r := recover(); r != nil {
			b = nil
		}
	}()
	return p.PubKeyBytes()
}

func (o *ords) keyList(ps []*peers.Peer) string {
	s := []string{}
	for _, p := range ps {
		s = append(s, fmt.Sprint(o.key(safePubKeyBytes(p))))
	}
	if len(s) == 0 {
		return "e"
	}
	return strings.Join(s, ",")
}

func hashKey(h []byte) string {
	if h == nil {
		return "nil"
	}
	return hex.EncodeToString(h)
}

// registerPeers records that the peer-set hash of ps is the hash of its key list.
func (o *ords) registerPeers(ps []*peers.Peer) {
	defer func() { recover() }()
	h, err := peers.NewPeerSet(ps).Hash()
	if err == nil {
		o.peersList[hashKey(h)] = o.keyList(ps)
	}
}

// sigData: what the model needs to know about one entry of block.Signatures
type sigData struct {
	key   string
	bytes []byte
	ord   int
	vr    int
	short bool
	verif int // 0 false/error, 1 true, 2 panic
}

func (o *ords) sigEntries(b *hg.Block) []sigData {
	keysSorted := []string{}
	for k := range b.Signatures {
		keysSorted = append(keysSorted, k)
	}
	sort.Strings(keysSorted)
	res := []sigData{}
	for _, k := range keysSorted {
		d := sigData{key: k}
		if len(k) < 2 {
			d.short = true
			d.ord = -1
			d.vr = intern(o.sigVar, "short:"+k, 1)
			res = append(res, d)
			continue
		}
		d.bytes, _ = common.DecodeFromString(k)
		d.ord = o.key(d.bytes)
		if k == canonical(d.bytes) {
			d.vr = 0
		} else {
			d.vr = intern(o.sigVar, k, 1)
		}
		d.verif = safeVerify(b, hg.BlockSignature{Validator: d.bytes, Index: b.Index(), Signature: b.Signatures[k]})
		res = append(res, d)
	}
	return res
}

var verifyMemo = map[string]int{}

func safeVerify(b *hg.Block, s hg.BlockSignature) (res int) {
	bh, _ := b.Body.Hash()
	mk := string(bh) + "|" + string(s.Validator) + "|" + s.Signature
	if v, ok := verifyMemo[mk]; ok {
		return v
	}
	defer func() {
		if r := recover(); r != nil {
			res = 2
		}
		verifyMemo[mk] = res
	}()
	ok, _ := b.Verify(s)
	if ok {
		return 1
	}
	return 0
}

func safeFrameHash(f *hg.Frame) (h []byte, ok bool) {
	defer func() {
		if r := recover(); r != nil {
			h, ok = nil, false
		}
	}()
	x, err := f.Hash()
	return x, err == nil
}

// respLine: the model's view of one response (FR line, without the reset outcome)
func (o *ords) respLine(r *net.FastForwardResponse) string {
	var sb strings.Builder
	b, f := &r.Block, &r.Frame
	o.registerPeers(f.Peers)
	bp, ok := o.peersList[hashKey(b.Body.PeersHash)]
	if !ok {
		bp = "?"
	}
	fmt.Fprintf(&sb, "B %d %d | BP %s | P", b.Index(), b.RoundReceived(), bp)
	for _, p := range f.Peers {
		if p == nil {
			sb.WriteString(" nil")
			continue
		}
		bo, v := o.peerEnc(p)
		fmt.Fprintf(&sb, " %d:%d", bo, v)
	}
	fh, fok := safeFrameHash(f)
	fho := -1
	if fok {
		fho = intern(o.hashOrd, hashKey(fh), 0)
	}
	fmt.Fprintf(&sb, " | FH %d %d | S", intern(o.hashOrd, hashKey(b.Body.FrameHash), 0), fho)
	for _, d := range o.sigEntries(b) {
		fmt.Fprintf(&sb, " %d:%d:%d:%d", d.ord, d.vr, b2i(d.short), d.verif)
	}
	// frame.PeerSets (the validators of a fast-forwarded core are the set of the greatest round)
	sb.WriteString(" | PS")
	rounds := []int{}
	for rd := range f.PeerSets {
		rounds = append(rounds, rd)
	}
	sort.Ints(rounds)
	for _, rd := range rounds {
		l := []string{}
		for _, p := range f.PeerSets[rd] {
			if p != nil {
				bo, v := o.peerEnc(p)
				l = append(l, fmt.Sprintf("%d:%d", bo, v))
			}
		}
		fmt.Fprintf(&sb, " %d=%s", rd, strings.Join(l, ","))
	}
	fmt.Fprintf(&sb, " | SN %d", intern(o.snapOrd, string(r.Snapshot), 0))
	return sb.String()
}

func b2i(b bool) int {
	if b {
		return 1
	}
	return 0
}

// ---------- state digest ----------

func optp(p *int) string {
	if p == nil {
		return "-"
	}
	return fmt.Sprint(*p)
}

func pubs(ps *peers.PeerSet) string {
	if ps == nil {
		return "nil"
	}
	s := []string{}
	for _, p := range ps.Peers {
		s = append(s, strings.ToUpper(p.PubKeyHex))
	}
	return strings.Join(s, ",")
}

// digestText: everything observable of a core that fast-forward could touch.
func digestText(c *node.VerifCore, appLen int) string {
	var sb strings.Builder
	h := c.Hg()
	st := h.Store
	// known events
	type ke struct {
		id   uint32
		last int
	}
	kl := []ke{}
	for id, last := range st.KnownEvents() {
		kl = append(kl, ke{id, last})
	}
	sort.Slice(kl, func(i, j int) bool { return kl[i].id < kl[j].id })
	sb.WriteString("known")
	for _, k := range kl {
		fmt.Fprintf(&sb, " %d:%d", k.id, k.last)
	}
	// last event and root of every participant of the repertoire
	reps := []string{}
	for k := range st.RepertoireByPubKey() {
		reps = append(reps, k)
	}
	sort.Strings(reps)
	sb.WriteString("\nlast")
	for _, k := range reps {
		le, err := st.LastEventFrom(k)
		fmt.Fprintf(&sb, " %s=%s/%v", k, le, err != nil)
		if r, err := st.GetRoot(k); err == nil && r != nil {
			fmt.Fprintf(&sb, "/r%d", len(r.Events))
			for _, fe := range r.Events {
				if fe != nil && fe.Core != nil {
					sb.WriteString(":" + fe.Core.Hex())
				}
			}
		}
	}
	// blocks
	fmt.Fprintf(&sb, "\nblocks %d", st.LastBlockIndex())
	for _, i := range window(st.LastBlockIndex()) {
		b, err := st.GetBlock(i)
		if err != nil {
			fmt.Fprintf(&sb, " %d:?", i)
			continue
		}
		bh, _ := b.Body.Hash()
		sg := []string{}
		for k, v := range b.Signatures {
			sg = append(sg, k+"="+v)
		}
		sort.Strings(sg)
		fmt.Fprintf(&sb, " %d:%x:%s", i, bh, strings.Join(sg, ";"))
	}
	// peer sets
	all, _ := st.GetAllPeerSets()
	rs := []int{}
	for r := range all {
		rs = append(rs, r)
	}
	sort.Ints(rs)
	sb.WriteString("\npeersets")
	for _, r := range rs {
		fmt.Fprintf(&sb, " %d=%s", r, pubs(peers.NewPeerSet(all[r])))
	}
	// rounds
	fmt.Fprintf(&sb, "\nrounds %d", st.LastRound())
	for _, r := range window(st.LastRound()) {
		ri, err := st.GetRound(r)
		if err != nil {
			continue
		}
		fmt.Fprintf(&sb, " %d:%d:%d", r, len(ri.CreatedEvents), len(ri.ReceivedEvents))
	}
	// hashgraph scalars
	rlb, rok := h.VerifRoundLowerBound()
	fmt.Fprintf(&sb, "\nhg und=%d %s lcr=%s fcr=%s anchor=%s rlb=%d/%v topo=%d loaded=%d cons=%d pend",
		len(h.UndeterminedEvents), shortHash(strings.Join(h.UndeterminedEvents, ",")), optp(h.LastConsensusRound), optp(h.FirstConsensusRound),
		optp(h.AnchorBlock), rlb, rok, h.VerifTopologicalIndex(), h.PendingLoadedEvents, st.ConsensusEventsCount())
	for _, pr := range h.PendingRounds.GetOrderedPendingRounds() {
		fmt.Fprintf(&sb, " %d:%v", pr.Index, pr.Decided)
	}
	// core
	fmt.Fprintf(&sb, "\ncore head=%s seq=%d val=%s peers=%s acc=%d rem=%d tgt=%d txp=%d itxp=%d sbs=%d heads=%d app=%d",
		c.Head(), c.Seq(), pubs(c.Validators()), pubs(c.Peers()), c.AcceptedRound(), c.RemovedRound(), c.TargetRound(),
		len(c.TransactionPool()), c.InternalTransactionPoolLen(), c.SelfBlockSignaturesLen(), c.HeadsLen(), appLen)
	return sb.String()
}

// window: the indexes 0..last, or the first and last 64 of them when there are more (a forged
// block index may be huge)
func window(last int) []int {
	res := []int{}
	for i := 0; i <= last; i++ {
		if i == 64 && last-64 > i {
			i = last - 64
		}
		res = append(res, i)
	}
	return res
}

func shortHash(s string) string {
	h := sha256.Sum256([]byte(s))
	return hex.EncodeToString(h[:6])
}

func (o *ords) digest(c *node.VerifCore, appLen int) (d int) {
	defer func() {
		if r := recover(); r != nil {
			// an unreadable state is a state of its own
			d = intern(o.digestOrd, fmt.Sprintf("unreadable: %v", r), 0)
		}
	}()
	return intern(o.digestOrd, shortHash(digestText(c, appLen)), 0)
}

// knownSets: the validator sets the core has reason to trust: configured peers, genesis peers,
// current validators, the peer sets of its store (as key ordinals)
func (o *ords) knownSets(c *node.VerifCore, genesis []*peers.Peer) (string, map[int]bool) {
	sets := [][]*peers.Peer{}
	if c.Peers() != nil {
		sets = append(sets, c.Peers().Peers)
	}
	sets = append(sets, genesis)
	if c.Validators() != nil {
		sets = append(sets, c.Validators().Peers)
	}
	all, _ := c.Hg().Store.GetAllPeerSets()
	rs := []int{}
	for r := range all {
		rs = append(rs, r)
	}
	sort.Ints(rs)
	for _, r := range rs {
		sets = append(sets, all[r])
	}
	seen := map[string]bool{}
	out := []string{}
	member := map[int]bool{}
	for _, s := range sets {
		l := o.keyList(s)
		for _, p := range s {
			member[o.key(safePubKeyBytes(p))] = true
		}
		if !seen[l] {
			seen[l] = true
			out = append(out, l)
		}
	}
	return strings.Join(out, ";"), member
}
