package main

import (
	"bufio"
	"io"
	"math/rand"

	hg "github.com/mosaicnetworks/babble/src/hashgraph"
	"github.com/mosaicnetworks/babble/src/peers"
	"verifharness/hx"
)

// history: honest real cores gossiping (like cmd/sim) until one of them has an anchor block.
type history struct {
	w       *hx.World
	nodes   []*hx.Node
	genesis []int
	rng     *rand.Rand
	dyn     bool
	pending map[int]bool
	joined  map[int]bool
	nextID  int
	steps   int
}

func (h *history) pull(a, b *hx.Node, limit int) {
	known := a.Core.KnownEvents()
	diff, err := b.Core.EventDiff(known)
	if err != nil {
		return
	}
	if limit >= 0 && limit < len(diff) {
		diff = diff[:limit]
	}
	wire, _ := b.Core.ToWire(diff)
	err = a.Core.Sync(b.Core.ValidatorID(), wire)
	if err == nil || hg.IsNormalSelfParentError(err) {
		a.Core.ProcessSigPool()
	}
	if h.dyn {
		h.membership(a)
	}
}

// membership: start the node of a joiner once its join is effective in a's peer-set table
func (h *history) membership(a *hx.Node) {
	all, _ := a.Store.GetAllPeerSets()
	for r, ps := range all {
		for _, p := range ps {
			o := h.w.Ord(p.PubKeyHex)
			if h.pending[o] && !h.joined[o] {
				h.joined[o] = true
				cur := []int{}
				for _, q := range ps {
					cur = append(cur, h.w.Ord(q.PubKeyHex))
				}
				nd := h.w.NewNode(h.nextID, o, cur, h.genesis, hg.NewInmemStore(10000))
				h.nextID++
				nd.Core.SetAcceptedRound(r)
				nd.Core.SetHeadAndSeq()
				h.nodes = append(h.nodes, nd)
			}
		}
	}
}

func (h *history) requestJoin(a *hx.Node) {
	o := h.w.AddKey()
	p := h.w.Peers[o]
	itx := hg.NewInternalTransactionJoin(*peers.NewPeer(p.PubKeyHex, p.NetAddr, p.Moniker))
	itx.Sign(h.w.Privs[o])
	h.pending[o] = true
	a.Core.AddInternalTransaction(itx)
}

func anchorOf(nd *hx.Node) int {
	if nd.Hg.AnchorBlock == nil {
		return -1
	}
	return *nd.Hg.AnchorBlock
}

// buildHistory runs gossip until some node's anchor block index >= target (or the step cap).
func buildHistory(rng *rand.Rand, n int, dyn bool, target int, maxSteps int) *history {
	w := hx.NewWorld(bufio.NewWriter(io.Discard))
	h := &history{w: w, rng: rng, dyn: dyn, pending: map[int]bool{}, joined: map[int]bool{}}
	for i := 0; i < n; i++ {
		h.genesis = append(h.genesis, w.AddKey())
	}
	h.nextID = n
	for i := 0; i < n; i++ {
		h.nodes = append(h.nodes, w.NewNode(i, i, h.genesis, h.genesis, hg.NewInmemStore(10000)))
	}
	for _, nd := range h.nodes {
		if n == 1 || rng.Intn(2) == 0 {
			nd.Core.AddSelfEvent("")
		}
	}
	joinAt := -1
	if dyn {
		joinAt = 5 + rng.Intn(20)
	}
	lag := -1 // one node that gossips rarely: a natural catching-up candidate
	if n >= 4 && rng.Intn(2) == 0 {
		lag = rng.Intn(n)
	}
	done := func() bool {
		for _, nd := range h.nodes {
			if a := anchorOf(nd); a >= target {
				if !dyn {
					return true
				}
				// with a join: the anchor block must lie after the round at which the join took effect
				b, err := nd.Store.GetBlock(a)
				if err != nil {
					continue
				}
				all, _ := nd.Store.GetAllPeerSets()
				for r, ps := range all {
					if len(ps) > n && b.RoundReceived() >= r {
						return true
					}
				}
			}
		}
		return false
	}
	for step := 0; step < maxSteps && !done(); step++ {
		h.steps++
		ai := rng.Intn(len(h.nodes))
		if ai == lag && rng.Intn(8) != 0 {
			continue
		}
		a := h.nodes[ai]
		if step == joinAt {
			h.requestJoin(a)
			continue
		}
		if rng.Intn(3) == 0 {
			k := 1 + rng.Intn(3)
			txs := [][]byte{}
			for i := 0; i < k; i++ {
				txs = append(txs, w.NewTx(rng.Intn(4)))
			}
			a.Core.AddTransactions(txs)
			if len(h.nodes) == 1 {
				a.Core.AddSelfEvent("")
				a.Core.ProcessSigPool()
			}
			continue
		}
		if len(h.nodes) == 1 {
			if a.Core.Busy() {
				a.Core.AddSelfEvent("")
				a.Core.ProcessSigPool()
			}
			continue
		}
		bi := rng.Intn(len(h.nodes))
		if bi == ai {
			continue
		}
		limit := -1
		if rng.Intn(6) == 0 {
			limit = rng.Intn(6)
		}
		h.pull(a, h.nodes[bi], limit)
		if rng.Intn(3) == 0 {
			h.pull(h.nodes[bi], a, -1)
		}
	}
	return h
}

// responder: the node with the highest anchor block
func (h *history) responder() *hx.Node {
	var best *hx.Node
	for _, nd := range h.nodes {
		if anchorOf(nd) >= 0 && (best == nil || anchorOf(nd) > anchorOf(best)) {
			best = nd
		}
	}
	return best
}
