// Command ff: fast-sync acceptance (C12) and trust (C14).
//
// For each generated history of honest real cores (random gossip until a node has an anchor
// block) the anchor (block, frame) pair is taken with GetAnchorBlockWithFrame, sent through the
// JSON encoding of net.FastForwardResponse as the transport does, and then handed - unchanged
// and under every mutation of the grammar in mutate.go - to victims in several states through
// core.fastForward (FF lines) and through Node.fastForward with a scripted transport and a
// recording application proxy (NF lines).
//
// Output (one case per line; see runner/ffdrv.ml):
//
//	FR <hist> <rid> | B <index> <rr> | BP <key list the block's PeersHash is the hash of, or ?>
//	     | P <bytes:variant>.. | FH <block frame-hash ord> <frame hash ord>
//	     | S <bytes:variant:short:verif>.. | PS <round>=<bytes:variant,..>..
//	     | SN <snapshot ord>                                                      a response
//	FF <hist> <case> <victim> <kind> <rid> | R <reset outcome> | K <known sets>
//	     => <class> <noop 0/1> <post>                                            core.fastForward
//	NF <hist> <case> <kind> | RESP <rid or ->.. | R <..> | K <..>
//	     => <class|none> <restores> <snapshot ord|-> <core noop> <babbling>      Node.fastForward
//	V <C12|C14> <class> <detail>      the property evaluated directly on the implementation
//	Z ...                             statistics
package main

import (
	"bufio"
	"encoding/json"
	"flag"
	"fmt"
	"math/rand"
	"os"
	"runtime/pprof"
	"sort"
	"strings"

	hg "github.com/mosaicnetworks/babble/src/hashgraph"
	"github.com/mosaicnetworks/babble/src/net"
	"github.com/mosaicnetworks/babble/src/node"
	"github.com/mosaicnetworks/babble/src/peers"
	"verifharness/hx"
)

type runner struct {
	out   *bufio.Writer
	hid   int
	h     *history
	o     *ords
	rng   *rand.Rand
	valid []byte // JSON of the honest response
	mc    *mctx
	cid   int
	sid   int // sequence ids
	rid   int
	stats map[string]int
	viol  map[string]int
}

func classOf(err error) string {
	if err == nil {
		return "ok"
	}
	s := err.Error()
	switch {
	case strings.HasPrefix(s, "Wrong PeerSet"):
		return "wrong-peerset"
	case strings.HasPrefix(s, "Not enough valid signatures"):
		return "not-enough-sigs"
	case strings.HasPrefix(s, "Invalid Frame Hash"):
		return "bad-frame-hash"
	case strings.HasPrefix(s, "panic:"):
		return "panic"
	case strings.HasPrefix(s, "restore refused"):
		return "restore-error"
	}
	return "reset-error"
}

func safeFF(c *node.VerifCore, b *hg.Block, f *hg.Frame) (err error) {
	defer func() {
		if r := recover(); r != nil {
			err = fmt.Errorf("panic: %v", r)
		}
	}()
	return c.FastForward(b, f)
}

func (rn *runner) violation(prop, class, detail string) {
	rn.viol[prop+" "+class]++
	fmt.Fprintf(rn.out, "V %s %s hist=%d %s\n", prop, class, rn.hid, detail)
}

func (rn *runner) fresh() *net.FastForwardResponse {
	var r net.FastForwardResponse
	if err := json.Unmarshal(rn.valid, &r); err != nil {
		panic(err)
	}
	return &r
}

// transport: what the requester receives is the JSON decoding of what the responder sent
func transport(r *net.FastForwardResponse) (*net.FastForwardResponse, []byte) {
	b, err := json.Marshal(r)
	if err != nil {
		return nil, nil
	}
	var out net.FastForwardResponse
	if err := json.Unmarshal(b, &out); err != nil {
		return nil, nil
	}
	return &out, b
}

// ---------- victims ----------

type victim struct {
	nd      *hx.Node
	genesis []*peers.Peer
}

func (rn *runner) peersOf(ords []int) []*peers.Peer {
	ps := []*peers.Peer{}
	for _, o := range ords {
		ps = append(ps, rn.h.w.Peers[o])
	}
	return ps
}

func (rn *runner) buildVictim(kind string) *victim {
	h := rn.h
	w := h.w
	id := 1000 + rn.cid
	switch kind {
	case "fresh", "partial", "reset":
		self := h.genesis[rn.hid%len(h.genesis)]
		nd := w.NewNode(id, self, h.genesis, h.genesis, hg.NewInmemStore(10000))
		nd.Core.SetHeadAndSeq()
		v := &victim{nd, rn.peersOf(h.genesis)}
		if kind == "partial" && len(h.nodes) > 1 {
			src := h.responder()
			if src.Self == self {
				for _, x := range h.nodes {
					if x.Self != self {
						src = x
					}
				}
			}
			diff, err := src.Core.EventDiff(nd.Core.KnownEvents())
			if err == nil && len(diff) > 0 {
				k := 1 + (rn.hid*7)%len(diff)
				wire, _ := src.Core.ToWire(diff[:k])
				nd.Core.Sync(src.Core.ValidatorID(), wire)
				nd.Core.ProcessSigPool()
			}
		}
		if kind == "reset" {
			r := rn.fresh()
			nd.Core.FastForward(&r.Block, &r.Frame)
		}
		return v
	case "foreign":
		// a node of another network: its own one-member validator set and a few blocks of its own
		self := w.AddKey()
		rn.o.key(w.Peers[self].PubKeyBytes())
		nd := w.NewNode(id, self, []int{self}, []int{self}, hg.NewInmemStore(10000))
		for i := 0; i < 3; i++ {
			nd.Core.AddTransactions([][]byte{w.NewTx(i)})
			nd.Core.AddSelfEvent("")
			nd.Core.ProcessSigPool()
		}
		return &victim{nd, rn.peersOf([]int{self})}
	case "joiner":
		// configured like a joining node: a key outside every set, the current peers.json, the genesis set
		self := w.AddKey()
		rn.o.key(w.Peers[self].PubKeyBytes())
		cur := []int{}
		for _, p := range rn.fresh().Frame.Peers {
			cur = append(cur, w.Ord(p.PubKeyHex))
		}
		nd := w.NewNode(id, self, cur, h.genesis, hg.NewInmemStore(10000))
		nd.Core.SetHeadAndSeq()
		return &victim{nd, rn.peersOf(h.genesis)}
	}
	panic("unknown victim kind " + kind)
}

// ---------- the property, evaluated on the implementation ----------

type verdict struct {
	frameOK, peersOK bool
	entries          int          // verifying entries whose bytes are a member's
	signers          map[int]bool // distinct verifying members (key ordinals)
	endorsers        map[int]bool // distinct keys with a verifying entry, members or not
	n                int          // distinct members (by key bytes)
	tc               int          // TrustCount of the frame's set (0 if it cannot be built)
}

func (rn *runner) judge(r *net.FastForwardResponse) verdict {
	v := verdict{signers: map[int]bool{}, endorsers: map[int]bool{}}
	b, f := &r.Block, &r.Frame
	if fh, ok := safeFrameHash(f); ok {
		v.frameOK = string(fh) == string(b.Body.FrameHash)
	}
	func() {
		defer func() { recover() }()
		ph, err := peers.NewPeerSet(f.Peers).Hash()
		v.peersOK = err == nil && string(ph) == string(b.Body.PeersHash)
	}()
	func() {
		defer func() { recover() }()
		v.tc = peers.NewPeerSet(f.Peers).TrustCount()
	}()
	members := map[int]bool{}
	for _, p := range f.Peers {
		if p != nil {
			members[rn.o.key(safePubKeyBytes(p))] = true
		}
	}
	v.n = len(members)
	for _, d := range rn.o.sigEntries(b) {
		if !d.short && d.verif == 1 {
			v.endorsers[d.ord] = true
			if members[d.ord] {
				v.entries++
				v.signers[d.ord] = true
			}
		}
	}
	return v
}

func (rn *runner) oracleAccept(where, kind string, v verdict, known map[int]bool) {
	det := fmt.Sprintf("kind=%s at=%s members=%d entries=%d distinct=%d", kind, where, v.n, v.entries, len(v.signers))
	// C12: which of the three conditions of the property the adopted response fails
	reasons := []string{}
	if !v.frameOK {
		reasons = append(reasons, "frame-hash")
	}
	if !v.peersOK {
		reasons = append(reasons, "peers-hash")
	}
	dup := false
	if 3*len(v.signers) <= v.n {
		if 3*v.entries > v.n {
			dup = true
		} else {
			reasons = append(reasons, "undersigned")
		}
	}
	single := strings.HasPrefix(kind, "body.") || strings.HasPrefix(kind, "frame.")
	switch {
	case len(reasons) > 0 && single:
		// a single-field tampering of a valid response was adopted
		rn.violation("C12", "tampered-field-accepted:"+strings.TrimSuffix(kind, "+fix-hashes"), det+" fails="+strings.Join(reasons, ","))
	case len(reasons) > 0:
		for _, r := range reasons {
			if r == "undersigned" {
				rn.violation("C12", "undersigned-accepted", det)
			} else {
				rn.violation("C12", "inconsistent-accepted:"+r, det)
			}
		}
	}
	if dup {
		rn.violation("C12", "duplicate-signer-counted", det)
	}
	// C14 (rule level, theorem C14_known_quorum): more than TrustCount(frame set) DISTINCT members that
	// the victim already knows must have signed
	knownSigners := 0
	for s := range v.signers {
		if known[s] {
			knownSigners++
		}
	}
	if knownSigners <= v.tc && knownSigners > 0 {
		rn.violation("C14", "accepted-without-known-quorum", fmt.Sprintf("%s known-signers=%d trustcount=%d", det, knownSigners, v.tc))
	}
	// C14: every key that endorses the block (verifying signature) is outside every known set
	strangers := len(v.endorsers) > 0
	for s := range v.endorsers {
		if known[s] {
			strangers = false
		}
	}
	if strangers && len(v.signers) > 0 {
		rn.violation("C14", "stranger-set-adopted", det)
	} else if strangers {
		rn.violation("C14", "stranger-endorsed-adopted", det)
	}
}

// ---------- core-level case ----------

func keyListOfSet(o *ords, ps *peers.PeerSet) string {
	if ps == nil {
		return "nil"
	}
	return o.keyList(ps.Peers)
}

func (rn *runner) defResp(r *net.FastForwardResponse) int {
	rn.rid++
	fmt.Fprintf(rn.out, "FR %d %d | %s\n", rn.hid, rn.rid, rn.o.respLine(r))
	return rn.rid
}

// runCore applies r to v; returns true when the victim may be reused (refused and unchanged)
func (rn *runner) runCore(v *victim, vkind, mkind string, r *net.FastForwardResponse) bool {
	rn.cid++
	rid := rn.defResp(r)
	c := v.nd.Core
	knownStr, known := rn.o.knownSets(c, v.genesis)
	d0 := rn.o.digest(c, len(v.nd.App.Delivered))
	verdict := rn.judge(r) // before the call: Reset shares the frame's maps with the store
	err := safeFF(c, &r.Block, &r.Frame)
	d1 := rn.o.digest(c, len(v.nd.App.Delivered))
	class := classOf(err)
	reset := 1
	switch {
	case class == "reset-error":
		reset = 0
	case class == "panic" && d1 != d0:
		reset = 2
	}
	post := "-"
	if class == "ok" {
		post = fmt.Sprintf("%d:%s:%s:%s", c.Hg().Store.LastBlockIndex(), optp(c.Hg().LastConsensusRound),
			keyListOfSet(rn.o, c.Validators()), keyListOfSet(rn.o, c.Peers()))
	}
	fmt.Fprintf(rn.out, "FF %d %d %s %s %d | R %d | K %s => %s %d %s\n", rn.hid, rn.cid, vkind, mkind, rid, reset, knownStr,
		class, b2i(d0 == d1), post)
	if mkind == "valid" {
		// liveness of the repaired rule (theorem C14_honest_accept_iff): the honest response is adopted
		// exactly when more than TrustCount of its signers are known to the victim
		ks := 0
		for sg := range verdict.signers {
			if known[sg] {
				ks++
			}
		}
		tag := fmt.Sprintf("honest-response:%s:known-signers", vkind)
		switch {
		case ks > verdict.tc && class == "ok":
			rn.stats[tag+">trustcount:adopted"]++
		case ks > verdict.tc:
			rn.stats[tag+">trustcount:REFUSED"]++
			rn.violation("C12", "honest-response-refused-with-known-quorum",
				fmt.Sprintf("kind=valid at=%s class=%s signers=%d known-signers=%d trustcount=%d", vkind, class, len(verdict.signers), ks, verdict.tc))
		case class == "ok":
			rn.stats[tag+"<=trustcount:adopted"]++
		default:
			rn.stats[tag+"<=trustcount:refused"]++
		}
	}
	rn.stats["class:"+class]++
	rn.stats["group:"+strings.SplitN(mkind, ".", 2)[0]+":"+class]++
	if class == "ok" {
		rn.oracleAccept(vkind, mkind, verdict, known)
	} else {
		if d0 != d1 {
			rn.violation("C12", "reject-not-noop", fmt.Sprintf("kind=%s at=%s class=%s", mkind, vkind, class))
		}
		if class == "panic" {
			rn.violation("C12", "panic-on-malformed-response", fmt.Sprintf("kind=%s at=%s err=%q", mkind, vkind, trunc(err.Error(), 80)))
		}

	}
	return class != "ok" && d0 == d1
}

func trunc(s string, n int) string {
	if len(s) > n {
		return s[:n]
	}
	return s
}

// ---------- history ----------

func (rn *runner) runHistory(thorough bool) {
	resp := rn.h.responder()
	block, frame, err := resp.Core.GetAnchorBlockWithFrame()
	if err != nil {
		rn.stats["no-anchor"]++
		return
	}
	snapshot := []byte(fmt.Sprintf("snapshot-of-block-%d", block.Index()))
	honest := net.FastForwardResponse{FromID: resp.Core.ValidatorID(), Block: *block, Frame: *frame, Snapshot: snapshot}
	rn.valid, err = json.Marshal(&honest)
	if err != nil {
		panic(err)
	}
	// numbering: world keys first, so that ordinals coincide with hx's
	for _, p := range rn.h.w.Peers {
		rn.o.key(p.PubKeyBytes())
	}
	for _, nd := range rn.h.nodes {
		all, _ := nd.Store.GetAllPeerSets()
		for _, ps := range all {
			rn.o.registerPeers(ps)
		}
	}
	rn.mc = &mctx{rng: rn.rng, h: rn.h, o: rn.o}
	if block.Index() > 0 {
		rn.mc.other, _ = resp.Store.GetBlock(block.Index() - 1)
	}
	nsig := len(block.Signatures)
	fmt.Fprintf(rn.out, "Z hist=%d validators=%d frame-peers=%d block=%d rr=%d sigs=%d trustcount=%d events=%d roots=%d peersets=%d txs=%d itxs=%d dyn=%v steps=%d\n",
		rn.hid, len(rn.h.genesis), len(frame.Peers), block.Index(), block.RoundReceived(), nsig, trustCountOf(frame.Peers),
		len(frame.Events), len(frame.Roots), len(frame.PeerSets), len(block.Transactions()), len(block.InternalTransactions()), rn.h.dyn, rn.h.steps)

	muts := allMutations()
	vkinds := []string{"fresh", "partial", "foreign", "joiner", "reset"}
	for vi, vk := range vkinds {
		var v *victim
		for mi, m := range muts {
			// every mutation on the fresh victim; on the others every signature / forged / control
			// mutation and a rotating third of the field tamperings
			if vk != "fresh" && m.group == "frame" && !thorough && (mi+vi+rn.hid)%3 != 0 {
				continue
			}
			r := rn.fresh()
			if !m.fn(r, rn.mc) {
				rn.stats["inapplicable"]++
				continue
			}
			rr, _ := transport(r)
			if rr == nil {
				rn.stats["unencodable"]++
				continue
			}
			if v == nil {
				v = rn.buildVictim(vk)
			}
			if !rn.runCore(v, vk, m.kind, rr) {
				v = nil
			}
		}
	}
	rn.nodeCases(muts, thorough)
	rn.sequences(muts, thorough)
}

func main() {
	seed := flag.Int64("seed", 1, "seed")
	nh := flag.Int("hist", 12, "number of histories")
	maxn := flag.Int("maxn", 6, "max validators")
	thorough := flag.Bool("thorough", false, "all mutations on all victims")
	first := flag.Int("first", 0, "offset of the validator-count rotation")
	prof := flag.String("cpuprofile", "", "write a CPU profile")
	flag.Parse()
	if *prof != "" {
		f, _ := os.Create(*prof)
		pprof.StartCPUProfile(f)
		defer pprof.StopCPUProfile()
	}
	out := bufio.NewWriterSize(os.Stdout, 1<<20)
	defer out.Flush()
	master := rand.New(rand.NewSource(*seed))
	tot := map[string]int{}
	viol := map[string]int{}
	for i := 0; i < *nh; i++ {
		n := 1 + (i+*first)%*maxn // every size 1..maxn in turn
		dyn := n >= 3 && master.Intn(3) == 0
		target := 1 + master.Intn(3) // node-level selection needs a block index > 0
		if master.Intn(4) == 0 {
			target = 0
		}
		rng := rand.New(rand.NewSource(master.Int63()))
		h := buildHistory(rng, n, dyn, target, 4000)
		rn := &runner{out: out, hid: i, h: h, o: newOrds(), rng: rng, stats: map[string]int{}, viol: map[string]int{}}
		if h.responder() == nil {
			tot["history-without-anchor"]++
			continue
		}
		rn.runHistory(*thorough)
		for k, v := range rn.stats {
			tot[k] += v
		}
		for k, v := range rn.viol {
			viol[k] += v
		}
		tot["histories"]++
	}
	ks := []string{}
	for k := range tot {
		ks = append(ks, k)
	}
	sort.Strings(ks)
	s := []string{}
	for _, k := range ks {
		s = append(s, fmt.Sprintf("%s=%d", k, tot[k]))
	}
	fmt.Fprintf(out, "Z total %s\n", strings.Join(s, " "))
	ks = ks[:0]
	for k := range viol {
		ks = append(ks, k)
	}
	sort.Strings(ks)
	for _, k := range ks {
		fmt.Fprintf(out, "Z violations %s = %d\n", k, viol[k])
	}
}
