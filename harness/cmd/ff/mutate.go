package main

import (
	"crypto/ecdsa"
	"encoding/hex"
	"fmt"
	"math/rand"
	"sort"
	"strings"

	"github.com/mosaicnetworks/babble/src/crypto/keys"
	hg "github.com/mosaicnetworks/babble/src/hashgraph"
	"github.com/mosaicnetworks/babble/src/net"
	"github.com/mosaicnetworks/babble/src/peers"
)

// mctx: what a tamperer has at hand.
type mctx struct {
	rng       *rand.Rand
	h         *history
	o         *ords
	attackers []*ecdsa.PrivateKey // keys outside every honest set
	attPeers  []*peers.Peer
	other     *hg.Block // another block of the responder's store (signatures over another block)
}

func (c *mctx) ensureAttackers(n int) {
	for len(c.attackers) < n {
		k, _ := keys.GenerateECDSAKey()
		c.attackers = append(c.attackers, k)
		i := len(c.attPeers)
		p := peers.NewPeer(keys.PublicKeyHex(&k.PublicKey), fmt.Sprintf("evil%d", i), fmt.Sprintf("evil%d", i))
		c.attPeers = append(c.attPeers, p)
		c.o.key(p.PubKeyBytes())
	}
}

// mutation: kind = stable name used in V lines / histograms; group = body|frame|sigs|forged|control
type mutation struct {
	kind  string
	group string
	fn    func(r *net.FastForwardResponse, c *mctx) bool // false = not applicable to this response
}

func flip(b []byte) []byte {
	if len(b) == 0 {
		return []byte{1}
	}
	c := append([]byte{}, b...)
	c[len(c)/2] ^= 0x40
	return c
}

func sortedSigKeys(b *hg.Block) []string {
	ks := []string{}
	for k := range b.Signatures {
		ks = append(ks, k)
	}
	sort.Strings(ks)
	return ks
}

func trustCountOf(ps []*peers.Peer) int { return peers.NewPeerSet(ps).TrustCount() }

// reencode: another map-key string that DecodeFromString maps to the same validator bytes
func reencode(key string, variant int) string {
	hexpart := key[2:]
	lo, up := strings.ToLower(hexpart), strings.ToUpper(hexpart)
	switch variant {
	case 0:
		return "0x" + lo
	case 1:
		return "zz" + lo
	case 2:
		return "0X" + lo
	case 3:
		return "0x" + up
	case 4:
		return "  " + up
	}
	// mixed case patterns: unbounded supply of spellings
	rb := []byte(lo)
	bits := variant
	for i := range rb {
		if rb[i] >= 'a' && rb[i] <= 'f' {
			if bits&1 == 1 {
				rb[i] = rb[i] - 'a' + 'A'
			}
			bits >>= 1
			if bits == 0 {
				bits = variant + 7
			}
		}
	}
	return "0X" + string(rb)
}

func fixFrameHash(r *net.FastForwardResponse) {
	h, _ := r.Frame.Hash()
	r.Block.Body.FrameHash = h
}

func fixPeersHash(r *net.FastForwardResponse) {
	h, _ := peers.NewPeerSet(r.Frame.Peers).Hash()
	r.Block.Body.PeersHash = h
}

func signWith(r *net.FastForwardResponse, ks []*ecdsa.PrivateKey) {
	r.Block.Signatures = map[string]string{}
	for _, k := range ks {
		s, _ := r.Block.Sign(k)
		r.Block.SetSignature(s)
	}
}

func clonePeer(p *peers.Peer) *peers.Peer { return peers.NewPeer(p.PubKeyHex, p.NetAddr, p.Moniker) }

// anyFrameEvent picks a frame event (from Events, else from a root)
func anyFrameEvent(r *net.FastForwardResponse, rng *rand.Rand, fromRoots bool) *hg.FrameEvent {
	if !fromRoots && len(r.Frame.Events) > 0 {
		return r.Frame.Events[rng.Intn(len(r.Frame.Events))]
	}
	ks := []string{}
	for k, rt := range r.Frame.Roots {
		if rt != nil && len(rt.Events) > 0 {
			ks = append(ks, k)
		}
	}
	sort.Strings(ks)
	if len(ks) == 0 {
		return nil
	}
	rt := r.Frame.Roots[ks[rng.Intn(len(ks))]]
	return rt.Events[rng.Intn(len(rt.Events))]
}

func bodyMutations() []mutation {
	m := []mutation{}
	add := func(kind string, fn func(b *hg.BlockBody, c *mctx) bool) {
		m = append(m, mutation{kind, "body", func(r *net.FastForwardResponse, c *mctx) bool { return fn(&r.Block.Body, c) }})
	}
	add("body.Index+1", func(b *hg.BlockBody, c *mctx) bool { b.Index++; return true })
	add("body.Index-1", func(b *hg.BlockBody, c *mctx) bool { b.Index--; return true })
	add("body.RoundReceived+1", func(b *hg.BlockBody, c *mctx) bool { b.RoundReceived++; return true })
	add("body.RoundReceived-1", func(b *hg.BlockBody, c *mctx) bool { b.RoundReceived--; return true })
	add("body.Timestamp+1", func(b *hg.BlockBody, c *mctx) bool { b.Timestamp++; return true })
	add("body.StateHash.flip", func(b *hg.BlockBody, c *mctx) bool { b.StateHash = flip(b.StateHash); return true })
	add("body.StateHash.empty", func(b *hg.BlockBody, c *mctx) bool {
		if len(b.StateHash) == 0 {
			return false
		}
		b.StateHash = []byte{}
		return true
	})
	add("body.FrameHash.flip", func(b *hg.BlockBody, c *mctx) bool { b.FrameHash = flip(b.FrameHash); return true })
	add("body.PeersHash.flip", func(b *hg.BlockBody, c *mctx) bool { b.PeersHash = flip(b.PeersHash); return true })
	add("body.PeersHash.nil", func(b *hg.BlockBody, c *mctx) bool { b.PeersHash = nil; return true })
	add("body.Transactions.append", func(b *hg.BlockBody, c *mctx) bool {
		b.Transactions = append(b.Transactions, []byte("stolen funds"))
		return true
	})
	add("body.Transactions.drop", func(b *hg.BlockBody, c *mctx) bool {
		if len(b.Transactions) == 0 {
			return false
		}
		b.Transactions = b.Transactions[:len(b.Transactions)-1]
		return true
	})
	add("body.Transactions.flipbyte", func(b *hg.BlockBody, c *mctx) bool {
		if len(b.Transactions) == 0 {
			return false
		}
		i := c.rng.Intn(len(b.Transactions))
		b.Transactions[i] = flip(b.Transactions[i])
		return true
	})
	add("body.Transactions.swap", func(b *hg.BlockBody, c *mctx) bool {
		if len(b.Transactions) < 2 || string(b.Transactions[0]) == string(b.Transactions[1]) {
			return false
		}
		b.Transactions[0], b.Transactions[1] = b.Transactions[1], b.Transactions[0]
		return true
	})
	add("body.InternalTransactions.append", func(b *hg.BlockBody, c *mctx) bool {
		c.ensureAttackers(1)
		itx := hg.NewInternalTransactionJoin(*clonePeer(c.attPeers[0]))
		itx.Sign(c.attackers[0])
		b.InternalTransactions = append(b.InternalTransactions, itx)
		return true
	})
	add("body.InternalTransactions.drop", func(b *hg.BlockBody, c *mctx) bool {
		if len(b.InternalTransactions) == 0 {
			return false
		}
		b.InternalTransactions = b.InternalTransactions[:len(b.InternalTransactions)-1]
		return true
	})
	add("body.Receipts.append", func(b *hg.BlockBody, c *mctx) bool {
		c.ensureAttackers(1)
		itx := hg.NewInternalTransactionJoin(*clonePeer(c.attPeers[0]))
		itx.Sign(c.attackers[0])
		b.InternalTransactionReceipts = append(b.InternalTransactionReceipts, itx.AsAccepted())
		return true
	})
	add("body.Receipts.flip", func(b *hg.BlockBody, c *mctx) bool {
		if len(b.InternalTransactionReceipts) == 0 {
			return false
		}
		b.InternalTransactionReceipts[0].Accepted = !b.InternalTransactionReceipts[0].Accepted
		return true
	})
	add("body.Receipts.drop", func(b *hg.BlockBody, c *mctx) bool {
		if len(b.InternalTransactionReceipts) == 0 {
			return false
		}
		b.InternalTransactionReceipts = b.InternalTransactionReceipts[1:]
		return true
	})
	return m
}

func frameMutations() []mutation {
	base := []mutation{}
	add := func(kind string, fn func(f *hg.Frame, r *net.FastForwardResponse, c *mctx) bool) {
		base = append(base, mutation{kind, "frame", func(r *net.FastForwardResponse, c *mctx) bool { return fn(&r.Frame, r, c) }})
	}
	add("frame.Round+1", func(f *hg.Frame, r *net.FastForwardResponse, c *mctx) bool { f.Round++; return true })
	add("frame.Round-1", func(f *hg.Frame, r *net.FastForwardResponse, c *mctx) bool { f.Round--; return true })
	add("frame.Timestamp+1", func(f *hg.Frame, r *net.FastForwardResponse, c *mctx) bool { f.Timestamp++; return true })
	add("frame.Peers.swap", func(f *hg.Frame, r *net.FastForwardResponse, c *mctx) bool {
		if len(f.Peers) < 2 {
			return false
		}
		f.Peers[0], f.Peers[1] = f.Peers[1], f.Peers[0]
		return true
	})
	add("frame.Peers.drop", func(f *hg.Frame, r *net.FastForwardResponse, c *mctx) bool {
		if len(f.Peers) < 2 {
			return false
		}
		f.Peers = f.Peers[:len(f.Peers)-1]
		return true
	})
	add("frame.Peers.append-stranger", func(f *hg.Frame, r *net.FastForwardResponse, c *mctx) bool {
		c.ensureAttackers(1)
		f.Peers = append(f.Peers, clonePeer(c.attPeers[0]))
		return true
	})
	add("frame.Peers.duplicate", func(f *hg.Frame, r *net.FastForwardResponse, c *mctx) bool {
		f.Peers = append(f.Peers, clonePeer(f.Peers[0]))
		return true
	})
	add("frame.Peers.NetAddr", func(f *hg.Frame, r *net.FastForwardResponse, c *mctx) bool {
		i := c.rng.Intn(len(f.Peers))
		f.Peers[i] = peers.NewPeer(f.Peers[i].PubKeyHex, "evil:1337", f.Peers[i].Moniker)
		return true
	})
	add("frame.Peers.Moniker", func(f *hg.Frame, r *net.FastForwardResponse, c *mctx) bool {
		i := c.rng.Intn(len(f.Peers))
		f.Peers[i] = peers.NewPeer(f.Peers[i].PubKeyHex, f.Peers[i].NetAddr, "mallory")
		return true
	})
	add("frame.Peers.lowercase-key", func(f *hg.Frame, r *net.FastForwardResponse, c *mctx) bool {
		i := c.rng.Intn(len(f.Peers))
		f.Peers[i] = peers.NewPeer(strings.ToLower(f.Peers[i].PubKeyHex), f.Peers[i].NetAddr, f.Peers[i].Moniker)
		return true
	})
	add("frame.Peers.reprefix-key", func(f *hg.Frame, r *net.FastForwardResponse, c *mctx) bool {
		i := c.rng.Intn(len(f.Peers))
		f.Peers[i] = peers.NewPeer("zz"+f.Peers[i].PubKeyHex[2:], f.Peers[i].NetAddr, f.Peers[i].Moniker)
		return true
	})
	add("frame.Roots.delete", func(f *hg.Frame, r *net.FastForwardResponse, c *mctx) bool {
		ks := []string{}
		for k := range f.Roots {
			ks = append(ks, k)
		}
		if len(ks) == 0 {
			return false
		}
		sort.Strings(ks)
		delete(f.Roots, ks[c.rng.Intn(len(ks))])
		return true
	})
	add("frame.Roots.drop-event", func(f *hg.Frame, r *net.FastForwardResponse, c *mctx) bool {
		ks := []string{}
		for k, rt := range f.Roots {
			if rt != nil && len(rt.Events) > 0 {
				ks = append(ks, k)
			}
		}
		if len(ks) == 0 {
			return false
		}
		sort.Strings(ks)
		rt := f.Roots[ks[c.rng.Intn(len(ks))]]
		rt.Events = rt.Events[:len(rt.Events)-1]
		return true
	})
	add("frame.Roots.add-stranger", func(f *hg.Frame, r *net.FastForwardResponse, c *mctx) bool {
		c.ensureAttackers(1)
		if f.Roots == nil {
			f.Roots = map[string]*hg.Root{}
		}
		f.Roots[c.attPeers[0].PubKeyString()] = hg.NewRoot()
		return true
	})
	for _, where := range []string{"Roots", "Events"} {
		fromRoots := where == "Roots"
		add("frame."+where+".event.Round", func(f *hg.Frame, r *net.FastForwardResponse, c *mctx) bool {
			fe := anyFrameEvent(r, c.rng, fromRoots)
			if fe == nil {
				return false
			}
			fe.Round++
			return true
		})
		add("frame."+where+".event.Lamport", func(f *hg.Frame, r *net.FastForwardResponse, c *mctx) bool {
			fe := anyFrameEvent(r, c.rng, fromRoots)
			if fe == nil {
				return false
			}
			fe.LamportTimestamp += 3
			return true
		})
		add("frame."+where+".event.Witness", func(f *hg.Frame, r *net.FastForwardResponse, c *mctx) bool {
			fe := anyFrameEvent(r, c.rng, fromRoots)
			if fe == nil {
				return false
			}
			fe.Witness = !fe.Witness
			return true
		})
	}
	add("frame.Events.drop", func(f *hg.Frame, r *net.FastForwardResponse, c *mctx) bool {
		if len(f.Events) == 0 {
			return false
		}
		f.Events = f.Events[:len(f.Events)-1]
		return true
	})
	add("frame.Events.duplicate", func(f *hg.Frame, r *net.FastForwardResponse, c *mctx) bool {
		if len(f.Events) == 0 {
			return false
		}
		f.Events = append(f.Events, f.Events[0])
		return true
	})
	add("frame.Events.swap", func(f *hg.Frame, r *net.FastForwardResponse, c *mctx) bool {
		if len(f.Events) < 2 {
			return false
		}
		f.Events[0], f.Events[1] = f.Events[1], f.Events[0]
		return true
	})
	add("frame.Events.event.payload", func(f *hg.Frame, r *net.FastForwardResponse, c *mctx) bool {
		fe := anyFrameEvent(r, c.rng, false)
		if fe == nil {
			return false
		}
		fe.Core.Body.Transactions = append(fe.Core.Body.Transactions, []byte("injected"))
		return true
	})
	add("frame.Events.event.signature", func(f *hg.Frame, r *net.FastForwardResponse, c *mctx) bool {
		fe := anyFrameEvent(r, c.rng, false)
		if fe == nil {
			return false
		}
		fe.Core.Signature = fe.Core.Signature + "0"
		return true
	})
	add("frame.PeerSets.delete", func(f *hg.Frame, r *net.FastForwardResponse, c *mctx) bool {
		rs := []int{}
		for k := range f.PeerSets {
			rs = append(rs, k)
		}
		if len(rs) == 0 {
			return false
		}
		sort.Ints(rs)
		delete(f.PeerSets, rs[c.rng.Intn(len(rs))])
		return true
	})
	add("frame.PeerSets.add-round", func(f *hg.Frame, r *net.FastForwardResponse, c *mctx) bool {
		c.ensureAttackers(1)
		if f.PeerSets == nil {
			f.PeerSets = map[int][]*peers.Peer{}
		}
		f.PeerSets[f.Round+50] = []*peers.Peer{clonePeer(c.attPeers[0])}
		return true
	})
	add("frame.PeerSets.add-member", func(f *hg.Frame, r *net.FastForwardResponse, c *mctx) bool {
		c.ensureAttackers(1)
		rs := []int{}
		for k := range f.PeerSets {
			rs = append(rs, k)
		}
		if len(rs) == 0 {
			return false
		}
		sort.Ints(rs)
		k := rs[c.rng.Intn(len(rs))]
		f.PeerSets[k] = append(f.PeerSets[k], clonePeer(c.attPeers[0]))
		return true
	})
	// every frame tampering also in the variant where the tamperer makes the block header
	// consistent again (recomputes FrameHash / PeersHash): then the honest signatures fail
	res := []mutation{}
	for _, m := range base {
		m := m
		res = append(res, m)
		res = append(res, mutation{m.kind + "+fix-hashes", "frame", func(r *net.FastForwardResponse, c *mctx) bool {
			if !m.fn(r, c) {
				return false
			}
			fixFrameHash(r)
			fixPeersHash(r)
			return true
		}})
	}
	return res
}

// validEntries: map keys of the entries that verify and belong to the frame's set
func validEntries(r *net.FastForwardResponse) []string {
	ps := peers.NewPeerSet(r.Frame.Peers)
	res := []string{}
	for _, k := range sortedSigKeys(&r.Block) {
		if len(k) < 2 {
			continue
		}
		bs, err := r.Block.GetSignature(k)
		if err != nil {
			continue
		}
		if _, ok := ps.ByPubKey[bs.ValidatorHex()]; !ok {
			continue
		}
		if safeVerify(&r.Block, bs) == 1 {
			res = append(res, k)
		}
	}
	return res
}

func keepOnly(r *net.FastForwardResponse, ks []string) {
	m := map[string]string{}
	for _, k := range ks {
		m[k] = r.Block.Signatures[k]
	}
	r.Block.Signatures = m
}

func sigMutations() []mutation {
	m := []mutation{}
	add := func(kind string, fn func(r *net.FastForwardResponse, c *mctx) bool) {
		m = append(m, mutation{kind, "sigs", fn})
	}
	add("sigs.keep-trustcount", func(r *net.FastForwardResponse, c *mctx) bool {
		tc := trustCountOf(r.Frame.Peers)
		v := validEntries(r)
		if len(v) <= tc {
			return false
		}
		c.rng.Shuffle(len(v), func(i, j int) { v[i], v[j] = v[j], v[i] })
		keepOnly(r, v[:tc])
		return true
	})
	add("sigs.keep-trustcount+1", func(r *net.FastForwardResponse, c *mctx) bool {
		tc := trustCountOf(r.Frame.Peers)
		v := validEntries(r)
		if len(v) <= tc {
			return false
		}
		c.rng.Shuffle(len(v), func(i, j int) { v[i], v[j] = v[j], v[i] })
		keepOnly(r, v[:tc+1])
		return true
	})
	// one honest-looking signer listed under several spellings of its key
	for _, distinct := range []int{1, 2} {
		distinct := distinct
		add(fmt.Sprintf("sigs.reencode-%d-signer", distinct), func(r *net.FastForwardResponse, c *mctx) bool {
			tc := trustCountOf(r.Frame.Peers)
			v := validEntries(r)
			if len(v) < distinct || tc+1 <= distinct {
				return false
			}
			c.rng.Shuffle(len(v), func(i, j int) { v[i], v[j] = v[j], v[i] })
			keepOnly(r, v[:distinct])
			variant := c.rng.Intn(3)
			for i := 0; len(r.Block.Signatures) < tc+1; i++ {
				k := v[i%distinct]
				r.Block.Signatures[reencode(k, variant)] = r.Block.Signatures[k]
				variant++
			}
			return true
		})
	}
	add("sigs.all-respelled", func(r *net.FastForwardResponse, c *mctx) bool {
		nm := map[string]string{}
		for _, k := range sortedSigKeys(&r.Block) {
			nm[reencode(k, c.rng.Intn(4))] = r.Block.Signatures[k]
		}
		r.Block.Signatures = nm
		return true
	})
	add("sigs.swap", func(r *net.FastForwardResponse, c *mctx) bool {
		v := validEntries(r)
		if len(v) < 2 {
			return false
		}
		a, b := v[0], v[1]
		r.Block.Signatures[a], r.Block.Signatures[b] = r.Block.Signatures[b], r.Block.Signatures[a]
		// leave exactly trustcount+1 entries so that the two broken ones matter
		tc := trustCountOf(r.Frame.Peers)
		if len(v) > tc+1 {
			keepOnly(r, v[:tc+1])
		}
		return true
	})
	add("sigs.foreign-signers", func(r *net.FastForwardResponse, c *mctx) bool {
		tc := trustCountOf(r.Frame.Peers)
		v := validEntries(r)
		if len(v) < tc {
			return false
		}
		keepOnly(r, v[:tc])
		c.ensureAttackers(3)
		for _, k := range c.attackers[:3] {
			s, _ := r.Block.Sign(k)
			r.Block.SetSignature(s)
		}
		return true
	})
	add("sigs.over-other-block", func(r *net.FastForwardResponse, c *mctx) bool {
		if c.other == nil {
			return false
		}
		n := 0
		for k := range r.Block.Signatures {
			if s, ok := c.other.Signatures[k]; ok {
				r.Block.Signatures[k] = s
				n++
			}
		}
		return n > 0
	})
	add("sigs.empty", func(r *net.FastForwardResponse, c *mctx) bool { r.Block.Signatures = map[string]string{}; return true })
	add("sigs.nil", func(r *net.FastForwardResponse, c *mctx) bool { r.Block.Signatures = nil; return true })
	for i, g := range []string{"", "!|!", "zz|zz", "1|", "|", "12345"} {
		g := g
		add(fmt.Sprintf("sigs.garbage-value-%d", i), func(r *net.FastForwardResponse, c *mctx) bool {
			v := validEntries(r)
			if len(v) == 0 {
				return false
			}
			r.Block.Signatures[v[c.rng.Intn(len(v))]] = g
			return true
		})
	}
	for i, g := range []string{"", "0", "0X", "0Xzz", "0XABC", "garbage"} {
		g := g
		add(fmt.Sprintf("sigs.garbage-key-%d", i), func(r *net.FastForwardResponse, c *mctx) bool {
			r.Block.Signatures[g] = "1|1"
			return true
		})
	}
	return m
}

// forge: a response made by the responder alone: validator set, frame and block of its own
// making, signed with its own keys.
type forgeOpt struct {
	k          int    // size of the forged set
	events     string // "keep" honest events/roots, "empty"
	peerSets   string // "keep" honest peer-set history, "forged"
	dupSigner  bool   // one stranger signs, listed under several spellings
	includeKey int    // >= 0: honest key ordinal put (unsigned) in the forged set
	index      int    // > 0: forged block index
}

func forge(r *net.FastForwardResponse, c *mctx, o forgeOpt) bool {
	c.ensureAttackers(o.k)
	ps := []*peers.Peer{}
	if o.includeKey >= 0 {
		ps = append(ps, clonePeer(c.h.w.Peers[o.includeKey]))
	}
	for i := 0; i < o.k; i++ {
		ps = append(ps, clonePeer(c.attPeers[i]))
	}
	r.Frame.Peers = ps
	if o.peerSets == "forged" {
		nps := map[int][]*peers.Peer{}
		for rd := range r.Frame.PeerSets {
			nps[rd] = ps
		}
		if len(nps) == 0 {
			nps[0] = ps
		}
		r.Frame.PeerSets = nps
	}
	if o.events == "empty" {
		r.Frame.Events = []*hg.FrameEvent{}
		r.Frame.Roots = map[string]*hg.Root{}
		for _, p := range ps {
			r.Frame.Roots[p.PubKeyString()] = hg.NewRoot()
		}
	}
	if o.index > 0 {
		r.Block.Body.Index = o.index
	}
	r.Block.Body.Transactions = append(r.Block.Body.Transactions, []byte("forged state"))
	r.Snapshot = []byte("forged snapshot")
	fixFrameHash(r)
	fixPeersHash(r)
	tc := trustCountOf(ps)
	if o.dupSigner {
		signWith(r, c.attackers[:1])
		k := sortedSigKeys(&r.Block)[0]
		for v := 0; len(r.Block.Signatures) < tc+1; v++ {
			r.Block.Signatures[reencode(k, v)] = r.Block.Signatures[k]
		}
	} else {
		n := tc + 1
		if n > o.k {
			return false
		}
		signWith(r, c.attackers[:n])
	}
	return true
}

func forgedMutations() []mutation {
	m := []mutation{}
	for _, k := range []int{1, 2, 4} {
		for _, ev := range []string{"keep", "empty"} {
			for _, pss := range []string{"keep", "forged"} {
				k, ev, pss := k, ev, pss
				m = append(m, mutation{fmt.Sprintf("forged.set%d.events-%s.peersets-%s", k, ev, pss), "forged",
					func(r *net.FastForwardResponse, c *mctx) bool {
						return forge(r, c, forgeOpt{k: k, events: ev, peerSets: pss, includeKey: -1})
					}})
			}
		}
	}
	m = append(m, mutation{"forged.set4.one-signer-respelled", "forged", func(r *net.FastForwardResponse, c *mctx) bool {
		return forge(r, c, forgeOpt{k: 4, events: "empty", peerSets: "forged", dupSigner: true, includeKey: -1})
	}})
	m = append(m, mutation{"forged.set3+victim-key-unsigned", "forged", func(r *net.FastForwardResponse, c *mctx) bool {
		return forge(r, c, forgeOpt{k: 3, events: "keep", peerSets: "keep", includeKey: 0})
	}})
	// the honest validator set is kept; the body is forged; the honest signatures (made over the
	// genuine body, public gossip material) are replayed and do not verify; the only verifying
	// signatures are those of strangers that belong to no set at all
	m = append(m, mutation{"forged.body.stale-honest-sigs+stranger-sigs", "forged", func(r *net.FastForwardResponse, c *mctx) bool {
		tc := trustCountOf(r.Frame.Peers)
		if len(validEntries(r)) <= tc {
			return false
		}
		r.Block.Body.Transactions = append(r.Block.Body.Transactions, []byte("attacker gets all the money"))
		r.Block.Body.StateHash = []byte("forged state hash")
		c.ensureAttackers(tc + 1)
		for _, k := range c.attackers[:tc+1] {
			s, _ := r.Block.Sign(k)
			r.Block.SetSignature(s)
		}
		return true
	}})
	// spellings of the forged set's own key strings
	for _, sp := range []string{"lowercase", "reprefixed", "duplicated", "empty", "garbage-key"} {
		sp := sp
		m = append(m, mutation{"forged.set2.peer-keys-" + sp, "forged", func(r *net.FastForwardResponse, c *mctx) bool {
			if !forge(r, c, forgeOpt{k: 2, events: "empty", peerSets: "forged", includeKey: -1}) {
				return false
			}
			ps := r.Frame.Peers
			switch sp {
			case "lowercase": // ToUpper() makes them canonical again: still members
				for i, p := range ps {
					ps[i] = peers.NewPeer(strings.ToLower(p.PubKeyHex), p.NetAddr, p.Moniker)
				}
			case "reprefixed": // same bytes, same peers hash, but never found by ValidatorHex()
				for i, p := range ps {
					ps[i] = peers.NewPeer("zz"+p.PubKeyHex[2:], p.NetAddr, p.Moniker)
				}
			case "duplicated": // Len() = 2 but len(Peers) = 4
				ps = append(ps, clonePeer(ps[0]), clonePeer(ps[1]))
			case "empty":
				ps = []*peers.Peer{}
			case "garbage-key": // a member whose key is not a curve point, "signing" with a well-formed signature
				ps = []*peers.Peer{peers.NewPeer("0X1234", "evil", "evil")}
			}
			r.Frame.Peers = ps
			nps := map[int][]*peers.Peer{}
			for rd := range r.Frame.PeerSets {
				nps[rd] = ps
			}
			r.Frame.PeerSets = nps
			r.Frame.Roots = map[string]*hg.Root{}
			for _, p := range ps {
				r.Frame.Roots[p.PubKeyString()] = hg.NewRoot()
			}
			sigs := r.Block.Signatures
			fixFrameHash(r)
			fixPeersHash(r)
			signWith(r, c.attackers[:2])
			if sp == "garbage-key" {
				for _, v := range sigs {
					r.Block.Signatures["0X1234"] = v
				}
			}
			return true
		}})
	}
	m = append(m, mutation{"forged.set1.index-1000000", "forged", func(r *net.FastForwardResponse, c *mctx) bool {
		return forge(r, c, forgeOpt{k: 1, events: "empty", peerSets: "forged", includeKey: -1, index: 1000000})
	}})
	return m
}

// insiderMutations: NOT covered by C14 (a signer is known to the victim); recorded to show what
// the repaired rule does and does not stop.
func insiderMutations() []mutation {
	return []mutation{
		{"insider.shrinks-set-to-itself", "insider", func(r *net.FastForwardResponse, c *mctx) bool {
			// validator 0 of the honest genesis set ships the set {itself}, signed by itself
			me := c.h.w.Peers[0]
			r.Frame.Peers = []*peers.Peer{clonePeer(me)}
			r.Block.Body.Transactions = append(r.Block.Body.Transactions, []byte("insider state"))
			fixFrameHash(r)
			fixPeersHash(r)
			signWith(r, c.h.w.Privs[:1])
			return true
		}},
	}
}

// byzantineMutations: more than a third of the validators the victim KNOWS (the harness holds the
// honest keys) sign a frame that Hashgraph.Reset cannot insert. Outside C14 (the signers are known)
// and outside the BFT assumption; it is the only way left to reach a Reset failure after the
// checks once strangers are refused (finding F4: the node is left emptied).
func byzantineMutations() []mutation {
	m := []mutation{}
	for _, base := range frameMutations() {
		base := base
		if strings.HasSuffix(base.kind, "+fix-hashes") {
			continue
		}
		switch base.kind {
		case "frame.Roots.drop-event", "frame.Roots.delete", "frame.Roots.event.Lamport", "frame.Events.event.Lamport",
			"frame.PeerSets.delete", "frame.Events.drop", "frame.Events.duplicate":
		default:
			continue
		}
		m = append(m, mutation{"byzantine.quorum-signs." + base.kind, "byzantine", func(r *net.FastForwardResponse, c *mctx) bool {
			if !base.fn(r, c) {
				return false
			}
			fixFrameHash(r)
			fixPeersHash(r)
			// the first TrustCount+1 members of the frame's set whose keys are honest validators' keys
			tc := trustCountOf(r.Frame.Peers)
			ks := []*ecdsa.PrivateKey{}
			for _, p := range r.Frame.Peers {
				if o := c.h.w.Ord(p.PubKeyHex); o >= 0 && len(ks) < tc+1 {
					ks = append(ks, c.h.w.Privs[o])
				}
			}
			if len(ks) < tc+1 {
				return false
			}
			signWith(r, ks)
			return true
		}})
	}
	return m
}

func controlMutations() []mutation {
	return []mutation{
		{"valid", "control", func(r *net.FastForwardResponse, c *mctx) bool { return true }},
		{"valid.snapshot-tampered", "control", func(r *net.FastForwardResponse, c *mctx) bool {
			r.Snapshot = append([]byte("tampered:"), r.Snapshot...)
			return true
		}},
		{"valid.fromid-tampered", "control", func(r *net.FastForwardResponse, c *mctx) bool { r.FromID ^= 0xffff; return true }},
		{"valid.extra-foreign-signature", "control", func(r *net.FastForwardResponse, c *mctx) bool {
			c.ensureAttackers(1)
			s, _ := r.Block.Sign(c.attackers[0])
			r.Block.SetSignature(s)
			return true
		}},
	}
}

func allMutations() []mutation {
	m := controlMutations()
	m = append(m, bodyMutations()...)
	m = append(m, frameMutations()...)
	m = append(m, sigMutations()...)
	m = append(m, forgedMutations()...)
	m = append(m, insiderMutations()...)
	m = append(m, byzantineMutations()...)
	return m
}

var _ = hex.EncodeToString
