package main

import (
	"encoding/json"
	"fmt"
	"strings"
	"time"

	"github.com/mosaicnetworks/babble/src/config"
	hg "github.com/mosaicnetworks/babble/src/hashgraph"
	"github.com/mosaicnetworks/babble/src/net"
	"github.com/mosaicnetworks/babble/src/node"
	_state "github.com/mosaicnetworks/babble/src/node/state"
	"github.com/mosaicnetworks/babble/src/peers"
	"github.com/mosaicnetworks/babble/src/proxy"
)

// scriptTransport answers FastForward requests from a table (target address -> JSON bytes).
type scriptTransport struct {
	answers map[string][]byte
	calls   []string
	ch      chan net.RPC
	// answer of every peer to a JoinRequest (nil: not scripted)
	joinAnswer *net.JoinResponse
	joins      int
}

func (t *scriptTransport) Listen()                  {}
func (t *scriptTransport) Consumer() <-chan net.RPC { return t.ch }
func (t *scriptTransport) LocalAddr() string        { return "victim" }
func (t *scriptTransport) AdvertiseAddr() string    { return "victim" }
func (t *scriptTransport) Sync(string, *net.SyncRequest, *net.SyncResponse) error {
	return fmt.Errorf("not scripted")
}
func (t *scriptTransport) EagerSync(string, *net.EagerSyncRequest, *net.EagerSyncResponse) error {
	return fmt.Errorf("not scripted")
}
func (t *scriptTransport) Join(target string, args *net.JoinRequest, resp *net.JoinResponse) error {
	if t.joinAnswer == nil {
		return fmt.Errorf("not scripted")
	}
	t.joins++
	b, err := json.Marshal(t.joinAnswer) // through the JSON transport
	if err != nil {
		return err
	}
	return json.Unmarshal(b, resp)
}
func (t *scriptTransport) Close() error { return nil }
func (t *scriptTransport) FastForward(target string, args *net.FastForwardRequest, resp *net.FastForwardResponse) error {
	t.calls = append(t.calls, target)
	b, ok := t.answers[target]
	if !ok {
		return fmt.Errorf("unreachable")
	}
	return json.Unmarshal(b, resp)
}

// recProxy: the application; records Restore calls.
type recProxy struct {
	ch       chan []byte
	restores [][]byte
	commits  int
	states   []string
	// Restore fails this many times before working (stateful sequences)
	failRestores int
	failed       int
}

func (p *recProxy) SubmitCh() chan []byte { return p.ch }
func (p *recProxy) CommitBlock(b hg.Block) (proxy.CommitResponse, error) {
	p.commits++
	rs := []hg.InternalTransactionReceipt{}
	for _, itx := range b.InternalTransactions() {
		rs = append(rs, itx.AsAccepted())
	}
	return proxy.CommitResponse{StateHash: []byte("state"), InternalTransactionReceipts: rs}, nil
}
func (p *recProxy) GetSnapshot(int) ([]byte, error) { return []byte("snap"), nil }
func (p *recProxy) Restore(s []byte) error {
	if p.failRestores > 0 {
		// the application refuses the snapshot and keeps its state
		p.failRestores--
		p.failed++
		return fmt.Errorf("restore refused by the application")
	}
	p.restores = append(p.restores, append([]byte{}, s...))
	return nil
}
func (p *recProxy) OnStateChanged(s _state.State) error {
	p.states = append(p.states, s.String())
	return nil
}

func safeNodeFF(n *node.Node) (err error) {
	defer func() {
		if r := recover(); r != nil {
			err = fmt.Errorf("panic: %v", r)
		}
	}()
	return n.VerifFastForward()
}

// nodeCase: a real Node (fresh store, honest configuration, fast-sync enabled) whose peers answer
// its FastForward requests with the given responses (nil = unreachable), in peer order.
func (rn *runner) nodeCase(kind string, answers []*net.FastForwardResponse) {
	rn.nodeCaseJ(kind, answers, nil)
}

// nodeCaseJ: with join != nil the victim is an OUTSIDER (its key is in no validator set: the node starts in the
// Joining state); every peer answers its JoinRequest with `join` (an unauthenticated message of a single peer), the
// node goes CatchingUp and then asks for a fast-forward. What the node has reason to trust is what it was configured
// with BEFORE it talked to anybody: the known sets of the trace line and of the oracle are taken before the join.
func (rn *runner) nodeCaseJ(kind string, answers []*net.FastForwardResponse, join *net.JoinResponse) {
	h := rn.h
	w := h.w
	rn.cid++
	self := h.genesis[0]
	if join != nil {
		self = w.AddKey()
	}
	ps := []*peers.Peer{}
	for _, o := range h.genesis {
		p := w.Peers[o]
		ps = append(ps, peers.NewPeer(p.PubKeyHex, p.NetAddr, p.Moniker))
	}
	gen := []*peers.Peer{}
	for _, p := range ps {
		gen = append(gen, peers.NewPeer(p.PubKeyHex, p.NetAddr, p.Moniker))
	}
	conf := config.NewDefaultConfig()
	conf.LogLevel = "panic"
	conf.EnableFastSync = true
	conf.JoinTimeout = 20 * time.Millisecond
	tr := &scriptTransport{answers: map[string][]byte{}, ch: make(chan net.RPC), joinAnswer: join}
	rids := []string{}
	var byAddr = map[string]*net.FastForwardResponse{}
	for i, p := range ps {
		if i < len(answers) && answers[i] != nil {
			rr, bytes := transport(answers[i])
			if rr == nil {
				rids = append(rids, "-")
				continue
			}
			tr.answers[p.NetAddr] = bytes
			byAddr[p.NetAddr] = rr
			rids = append(rids, fmt.Sprint(rn.defResp(rr)))
		} else {
			rids = append(rids, "-")
		}
	}
	px := &recProxy{ch: make(chan []byte)}
	n := node.NewNode(conf, node.NewValidator(w.Privs[self], "victim"), peers.NewPeerSet(ps), peers.NewPeerSet(gen),
		hg.NewInmemStore(10000), tr, px)
	if err := n.Init(); err != nil {
		rn.stats["node-init-error"]++
		return
	}
	c := n.VerifCore()
	knownStr, known := rn.o.knownSets(c, gen)
	if join != nil {
		if n.GetState() != _state.Joining {
			rn.stats["join-case-not-joining"]++
			return
		}
		if err := n.VerifJoin(); err != nil || tr.joins == 0 || n.GetState() != _state.CatchingUp {
			rn.stats["join-case-join-failed"]++
			return
		}
		rn.stats["join-case"]++
	}
	d0 := rn.o.digest(c, px.commits)
	r0 := len(px.restores)
	err := safeNodeFF(n)
	d1 := rn.o.digest(c, px.commits)
	class := classOf(err)
	if err != nil && strings.HasPrefix(err.Error(), "getBestFastForwardResponse returned nil") {
		class = "none"
	}
	nres := len(px.restores) - r0
	snap := "-"
	var chosen *net.FastForwardResponse
	if nres > 0 {
		last := px.restores[len(px.restores)-1]
		snap = fmt.Sprint(intern(rn.o.snapOrd, string(last), 0))
		for _, a := range tr.calls {
			if r, ok := byAddr[a]; ok && string(r.Snapshot) == string(last) {
				chosen = r
			}
		}
	}
	reset := 1
	switch {
	case class == "reset-error":
		reset = 0
	case class == "panic" && d1 != d0:
		reset = 2
	}
	// the order in which the node asked its peers = order of the RESP list
	fmt.Fprintf(rn.out, "NF %d %d %s | RESP %s | R %d | K %s => %s %d %s %d %d\n", rn.hid, rn.cid, kind, strings.Join(rids, " "),
		reset, knownStr, class, nres, snap, b2i(d0 == d1), b2i(n.GetState() == _state.Babbling))
	rn.stats["node:"+class]++
	if len(tr.calls) != len(ps) {
		rn.stats["node-calls-differ"]++
	}
	for i, a := range tr.calls {
		if i < len(ps) && a != ps[i].NetAddr {
			rn.stats["node-call-order-differs"]++
		}
	}
	switch class {
	case "ok":
		if chosen != nil {
			rn.oracleAccept("node", kind, rn.judge(chosen), known)
		}
	case "none":
		if nres > 0 {
			rn.violation("C12", "restored-without-response", "kind="+kind)
		}
	default:
		if nres > 0 && class == "reset-error" {
			// the response passed every check; the application was restored; then Reset failed
			rn.violation("C12", "restored-then-reset-failed", fmt.Sprintf("kind=%s class=%s", kind, class))
		} else if nres > 0 {
			rn.violation("C12", "restored-before-check", fmt.Sprintf("kind=%s class=%s snapshot=%q", kind, class, trunc(string(px.restores[len(px.restores)-1]), 40)))
		}
		if d0 != d1 {
			rn.violation("C12", "reject-not-noop", fmt.Sprintf("kind=%s at=node class=%s", kind, class))
		}
		if class == "panic" {
			rn.violation("C12", "panic-on-malformed-response", fmt.Sprintf("kind=%s at=node err=%q", kind, trunc(err.Error(), 80)))
		}
	}
}

func (rn *runner) nodeCases(muts []mutation, thorough bool) {
	n := len(rn.h.genesis)
	all := func(r *net.FastForwardResponse) []*net.FastForwardResponse {
		l := []*net.FastForwardResponse{}
		for i := 0; i < n; i++ {
			l = append(l, r)
		}
		return l
	}
	// every peer honest
	rn.nodeCase("valid", all(rn.fresh()))
	// nobody answers
	rn.nodeCase("unreachable", nil)
	// a single peer answers with a tampered response (the others are unreachable)
	for mi, m := range muts {
		if m.kind == "valid" {
			continue
		}
		if !thorough && (m.group == "body" || m.group == "frame") && (mi+rn.hid)%6 != 0 {
			continue
		}
		r := rn.fresh()
		if !m.fn(r, rn.mc) {
			continue
		}
		l := make([]*net.FastForwardResponse, n)
		l[rn.rng.Intn(n)] = r
		rn.nodeCase(m.kind, l)
	}
	// an outsider joins through a single peer whose JoinResponse lists validators of its own making, then the same
	// peer answers the fast-forward with a frame of exactly those validators, signed by them
	for _, k := range []int{1, 3} {
		r := rn.fresh()
		if forge(r, rn.mc, forgeOpt{k: k, events: "empty", peerSets: "forged", includeKey: -1, index: 1000000}) {
			l := make([]*net.FastForwardResponse, n)
			evil := rn.rng.Intn(n)
			l[evil] = r
			jp := []*peers.Peer{}
			for _, p := range r.Frame.Peers {
				q := clonePeer(p)
				// the made-up validators are all reachable at the malicious peer's own address
				q.NetAddr = rn.h.w.Peers[rn.h.genesis[evil]].NetAddr
				jp = append(jp, q)
			}
			rn.nodeCaseJ(fmt.Sprintf("join-poisoned.forged.set%d", k), l, &net.JoinResponse{FromID: jp[0].ID(), Accepted: true, AcceptedRound: 1, Peers: jp})
		}
	}
	// ... and the honest version: the JoinResponse lists the real validators, everybody answers honestly
	{
		jp := []*peers.Peer{}
		for _, o := range rn.h.genesis {
			jp = append(jp, clonePeer(rn.h.w.Peers[o]))
		}
		rn.nodeCaseJ("join-honest.valid", all(rn.fresh()), &net.JoinResponse{FromID: jp[0].ID(), Accepted: true, AcceptedRound: 1, Peers: jp})
	}
	// honest answers and one forged answer with a higher block index: the highest index wins
	if n >= 2 {
		r := rn.fresh()
		if forge(r, rn.mc, forgeOpt{k: 1, events: "empty", peerSets: "forged", includeKey: -1, index: 1000000}) {
			l := all(rn.fresh())
			l[rn.rng.Intn(n)] = r
			rn.nodeCase("honest+forged.index-1000000", l)
		}
		// ... and with a lower index: the honest answer is chosen
		r2 := rn.fresh()
		if r2.Block.Index() > 1 && forge(r2, rn.mc, forgeOpt{k: 1, events: "empty", peerSets: "forged", includeKey: -1, index: 1}) {
			l := all(rn.fresh())
			l[rn.rng.Intn(n)] = r2
			rn.nodeCase("honest+forged.index-1", l)
		}
	}
}
