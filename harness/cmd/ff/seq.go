package main

import (
	"fmt"
	"strings"

	"github.com/mosaicnetworks/babble/src/config"
	hg "github.com/mosaicnetworks/babble/src/hashgraph"
	"github.com/mosaicnetworks/babble/src/net"
	"github.com/mosaicnetworks/babble/src/node"
	_state "github.com/mosaicnetworks/babble/src/node/state"
	"github.com/mosaicnetworks/babble/src/peers"
)

// Stateful victims: sequences of 2-3 fast-forward interactions on the SAME core / Node.
//   (a) a valid response passes the checks but is not applied (the application refuses the
//       snapshot: proxy.Restore fails once), then a second response;
//   (b) a refused response, then the valid one;
//   (c) the valid response applied, then a second (same / older / tampered) response.
// Every step is printed (FS / NS lines) and replayed by the model as a fold over the sequence;
// the oracle is evaluated on every step given the victim's state before that step.

type seqNode struct {
	n   *node.Node
	tr  *scriptTransport
	px  *recProxy
	ps  []*peers.Peer
	gen []*peers.Peer
}

func (rn *runner) newSeqNode() *seqNode {
	h := rn.h
	w := h.w
	self := h.genesis[0]
	sn := &seqNode{}
	for _, o := range h.genesis {
		p := w.Peers[o]
		sn.ps = append(sn.ps, peers.NewPeer(p.PubKeyHex, p.NetAddr, p.Moniker))
		sn.gen = append(sn.gen, peers.NewPeer(p.PubKeyHex, p.NetAddr, p.Moniker))
	}
	conf := config.NewDefaultConfig()
	conf.LogLevel = "panic"
	conf.EnableFastSync = true
	sn.tr = &scriptTransport{answers: map[string][]byte{}, ch: make(chan net.RPC)}
	sn.px = &recProxy{ch: make(chan []byte)}
	sn.n = node.NewNode(conf, node.NewValidator(w.Privs[self], "victim"), peers.NewPeerSet(sn.ps), peers.NewPeerSet(sn.gen),
		hg.NewInmemStore(10000), sn.tr, sn.px)
	if err := sn.n.Init(); err != nil {
		rn.stats["node-init-error"]++
		return nil
	}
	return sn
}

type seqStep struct {
	kind        string
	resp        *net.FastForwardResponse // nil: nobody answers
	restoreFail bool
}

// nodeStep: one Node.fastForward on sn; the single answer comes from peer `slot`
func (rn *runner) nodeStep(sn *seqNode, seq, step int, st seqStep, slot int, history string) {
	rids := []string{}
	sn.tr.answers = map[string][]byte{}
	sn.tr.calls = nil
	var answer *net.FastForwardResponse
	for i, p := range sn.ps {
		if i == slot && st.resp != nil {
			rr, bytes := transport(st.resp)
			if rr == nil {
				rids = append(rids, "-")
				continue
			}
			sn.tr.answers[p.NetAddr] = bytes
			answer = rr
			rids = append(rids, fmt.Sprint(rn.defResp(rr)))
		} else {
			rids = append(rids, "-")
		}
	}
	if st.restoreFail {
		sn.px.failRestores = 1
	} else {
		sn.px.failRestores = 0
	}
	c := sn.n.VerifCore()
	knownStr, known := rn.o.knownSets(c, sn.gen)
	d0 := rn.o.digest(c, sn.px.commits)
	r0 := len(sn.px.restores)
	var verdict verdict
	if answer != nil {
		verdict = rn.judge(answer)
	}
	err := safeNodeFF(sn.n)
	d1 := rn.o.digest(c, sn.px.commits)
	class := classOf(err)
	if err != nil && strings.HasPrefix(err.Error(), "getBestFastForwardResponse returned nil") {
		class = "none"
	}
	nres := len(sn.px.restores) - r0
	snap := "-"
	if nres > 0 {
		snap = fmt.Sprint(intern(rn.o.snapOrd, string(sn.px.restores[len(sn.px.restores)-1]), 0))
	}
	reset := 1
	switch {
	case class == "reset-error":
		reset = 0
	case class == "panic" && d1 != d0:
		reset = 2
	}
	fmt.Fprintf(rn.out, "NS %d %d %d %s | RESP %s | R %d | K %s | G %s | RF %d => %s %d %s %d %d\n", rn.hid, seq, step, st.kind,
		strings.Join(rids, " "), reset, knownStr, rn.o.keyList(sn.gen), b2i(st.restoreFail), class, nres, snap, b2i(d0 == d1),
		b2i(sn.n.GetState() == _state.Babbling))
	rn.stats["nodeseq:"+class]++
	at := "node-seq"
	if history == "" {
		history = "-"
	}
	history = fmt.Sprintf("%s;seq=%d/%d", history, seq, step)
	det := fmt.Sprintf("kind=%s at=%s after=%s", st.kind, at, history)
	switch class {
	case "ok":
		if answer != nil {
			rn.oracleAccept(at+"("+history+")", st.kind, verdict, known)
		}
	case "none":
		if nres > 0 {
			rn.violation("C12", "restored-without-response", det)
		}
		if d0 != d1 {
			rn.violation("C12", "reject-not-noop", det+" class=none")
		}
	default:
		if nres > 0 && class == "reset-error" {
			rn.violation("C12", "restored-then-reset-failed", fmt.Sprintf("kind=%s class=%s after=%s", st.kind, class, history))
		} else if nres > 0 {
			rn.violation("C12", "restored-before-check", fmt.Sprintf("kind=%s class=%s after=%s", st.kind, class, history))
		}
		if d0 != d1 {
			rn.violation("C12", "reject-not-noop", fmt.Sprintf("kind=%s at=%s class=%s after=%s", st.kind, at, class, history))
		}
		if class == "panic" {
			rn.violation("C12", "panic-on-malformed-response", fmt.Sprintf("kind=%s at=%s err=%q after=%s", st.kind, at, trunc(err.Error(), 80), history))
		}
	}
}

func (rn *runner) nodeSequence(steps []seqStep) {
	sn := rn.newSeqNode()
	if sn == nil {
		return
	}
	rn.sid++
	slot := rn.rng.Intn(len(sn.ps))
	hist := []string{}
	for i, st := range steps {
		rn.nodeStep(sn, rn.sid, i+1, st, slot, strings.Join(hist, ","))
		tag := st.kind
		if st.restoreFail {
			tag += "/restore-fails"
		}
		hist = append(hist, tag)
	}
}

// coreStep: one core.fastForward on v, as a step of a sequence
func (rn *runner) coreStep(v *victim, vkind string, seq, step int, kind string, r *net.FastForwardResponse, history string) {
	rid := rn.defResp(r)
	c := v.nd.Core
	knownStr, known := rn.o.knownSets(c, v.genesis)
	d0 := rn.o.digest(c, len(v.nd.App.Delivered))
	verdict := rn.judge(r)
	err := safeFF(c, &r.Block, &r.Frame)
	d1 := rn.o.digest(c, len(v.nd.App.Delivered))
	class := classOf(err)
	reset := 1
	switch {
	case class == "reset-error":
		reset = 0
	case class == "panic" && d1 != d0:
		reset = 2
	}
	post := "-"
	if class == "ok" {
		post = fmt.Sprintf("%d:%s:%s:%s", c.Hg().Store.LastBlockIndex(), optp(c.Hg().LastConsensusRound),
			keyListOfSet(rn.o, c.Validators()), keyListOfSet(rn.o, c.Peers()))
	}
	fmt.Fprintf(rn.out, "FS %d %d %d %s %s %d | R %d | K %s | G %s => %s %d %s\n", rn.hid, seq, step, vkind, kind, rid, reset, knownStr,
		rn.o.keyList(v.genesis), class, b2i(d0 == d1), post)
	rn.stats["coreseq:"+class]++
	at := "core-seq"
	if history == "" {
		history = "-"
	}
	history = fmt.Sprintf("%s;seq=%d/%d", history, seq, step)
	if class == "ok" {
		rn.oracleAccept(at+"("+history+")", kind, verdict, known)
		return
	}
	if d0 != d1 {
		rn.violation("C12", "reject-not-noop", fmt.Sprintf("kind=%s at=%s class=%s after=%s", kind, at, class, history))
	}
	if class == "panic" {
		rn.violation("C12", "panic-on-malformed-response", fmt.Sprintf("kind=%s at=%s err=%q after=%s", kind, at, trunc(err.Error(), 80), history))
	}
	if kind == "valid" {
		ks := 0
		for sg := range verdict.signers {
			if known[sg] {
				ks++
			}
		}
		if ks > verdict.tc {
			rn.violation("C12", "honest-response-refused-with-known-quorum",
				fmt.Sprintf("kind=valid at=%s class=%s known-signers=%d trustcount=%d after=%s", at, class, ks, verdict.tc, history))
		}
	}
}

type coreSeqStep struct {
	kind string
	resp *net.FastForwardResponse
}

func (rn *runner) coreSequence(steps []coreSeqStep) {
	v := rn.buildVictim("fresh")
	rn.sid++
	hist := []string{}
	for i, st := range steps {
		rr, _ := transport(st.resp)
		if rr == nil {
			return
		}
		rn.coreStep(v, "fresh", rn.sid, i+1, st.kind, rr, strings.Join(hist, ","))
		hist = append(hist, st.kind)
	}
}

// older: the responder's previous block with its frame, if it carries enough signatures
func (rn *runner) olderResponse() *net.FastForwardResponse {
	if rn.mc.other == nil {
		return nil
	}
	resp := rn.h.responder()
	f, err := resp.Store.GetFrame(rn.mc.other.RoundReceived())
	if err != nil || len(rn.mc.other.Signatures) <= trustCountOf(f.Peers) {
		return nil
	}
	r := &net.FastForwardResponse{FromID: resp.Core.ValidatorID(), Block: *rn.mc.other, Frame: *f,
		Snapshot: []byte(fmt.Sprintf("snapshot-of-block-%d", rn.mc.other.Index()))}
	rr, _ := transport(r)
	return rr
}

func (rn *runner) mutated(m mutation) *net.FastForwardResponse {
	r := rn.fresh()
	if !m.fn(r, rn.mc) {
		return nil
	}
	return r
}

func (rn *runner) sequences(muts []mutation, thorough bool) {
	byKind := map[string]mutation{}
	for _, m := range muts {
		byKind[m.kind] = m
	}
	refusing := []string{"body.Index+1", "frame.Timestamp+1", "body.FrameHash.flip", "sigs.keep-trustcount",
		"forged.set1.events-empty.peersets-forged", "sigs.reencode-1-signer", "frame.Peers.swap"}
	pick := func(mi int, m mutation) bool {
		return thorough || !(m.group == "body" || m.group == "frame") || (mi+rn.hid)%3 == 0
	}
	older := rn.olderResponse()

	// ---- (a) check passes, nothing applied (Restore fails), then every mutation kind ----
	for _, m := range muts {
		if r := rn.mutated(m); r != nil {
			rn.nodeSequence([]seqStep{{"valid", rn.fresh(), true}, {m.kind, r, false}})
		}
	}
	if older != nil {
		rn.nodeSequence([]seqStep{{"valid", rn.fresh(), true}, {"older-block", older, false}})
	}
	rn.nodeSequence([]seqStep{{"valid", rn.fresh(), true}, {"valid", rn.fresh(), true}, {"valid", rn.fresh(), false}})
	// three steps: the pending check survives a refused response in between
	for i, x := range refusing {
		mx, ok := byKind[x]
		if !ok {
			continue
		}
		for _, y := range []string{"frame.Timestamp+1", "frame.Events.drop", "frame.PeerSets.add-member", "frame.Peers.NetAddr"} {
			my := byKind[y]
			rx, ry := rn.mutated(mx), rn.mutated(my)
			if rx == nil || ry == nil || (!thorough && (i+rn.hid)%2 != 0) {
				continue
			}
			rn.nodeSequence([]seqStep{{"valid", rn.fresh(), true}, {x, rx, false}, {y, ry, false}})
		}
	}
	// ---- (b) a refused response, then the valid one ----
	for _, x := range refusing {
		if mx, ok := byKind[x]; ok {
			if rx := rn.mutated(mx); rx != nil {
				rn.nodeSequence([]seqStep{{x, rx, false}, {"valid", rn.fresh(), false}})
				rn.coreSequence([]coreSeqStep{{x, rx}, {"valid", rn.fresh()}})
			}
		}
	}
	rn.nodeSequence([]seqStep{{"unreachable", nil, false}, {"valid", rn.fresh(), false}})
	// ---- (c) the valid response applied, then a second one ----
	for mi, m := range muts {
		if !pick(mi, m) {
			continue
		}
		if r := rn.mutated(m); r != nil {
			rn.coreSequence([]coreSeqStep{{"valid", rn.fresh()}, {m.kind, r}})
		}
		if r := rn.mutated(m); r != nil && (thorough || (mi+rn.hid)%2 == 0) {
			rn.nodeSequence([]seqStep{{"valid", rn.fresh(), false}, {m.kind, r, false}})
		}
	}
	if older != nil {
		rn.coreSequence([]coreSeqStep{{"valid", rn.fresh()}, {"older-block", older}})
		rn.nodeSequence([]seqStep{{"valid", rn.fresh(), false}, {"older-block", older, false}})
		rn.coreSequence([]coreSeqStep{{"older-block", older}, {"valid", rn.fresh()}})
	}
}
