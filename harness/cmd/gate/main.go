// Command gate: real babble Nodes (in-memory transport, in-memory dummy application) driven
// synchronously through processRPC / addTransaction / checkSuspend in every node state (C17).
//
// Lines:
//   N <node> parts <id>... cfg <syncLimit> <suspendLimit>
//   E <node> <eid> <creator id> <index>            an event of the node's DAG, in topological order
//   G <node> <request> ; <digest> => <answer> ; <digest'> ; NEW <eid:creator:index>...
//   X <node> ; <digest> => <digest'>               a transaction submitted (Node.addTransaction)
//   H <node> ; <digest> => <state'>                Node.checkSuspend
//   I <maintenance> <in peer set> <fast sync> => <state after Init>
//   digest  = <state> <seq+1> <lastBlock+1> <pool> <ipool> <undetermined> <initialUndetermined> <validators>
//             <removedRound> <acceptedRound> <lastConsensusRound|-> <anchor 0/1>
//   request = sync <limit> <id:idx,...> | eager <events> <bad 0/1> | ff | join <sigok> <present> | unknown
//   answer  = gate | unknown | sync <err> E <eid>.. K <id:idx>.. | eager <err> | ff <err> | join <err> <accepted>
//   Z statistics, V C17 <class> <detail> oracle violations.
//
// Everything is called synchronously; the concurrent check-then-act window between the gate and the
// handlers is not exercised here.
package main

import (
	"bufio"
	"crypto/ecdsa"
	"flag"
	"fmt"
	"math/rand"
	"os"
	"sort"
	"strings"
	"time"

	"github.com/mosaicnetworks/babble/src/config"
	"github.com/mosaicnetworks/babble/src/crypto/keys"
	"github.com/mosaicnetworks/babble/src/dummy"
	hg "github.com/mosaicnetworks/babble/src/hashgraph"
	"github.com/mosaicnetworks/babble/src/net"
	"github.com/mosaicnetworks/babble/src/node"
	_state "github.com/mosaicnetworks/babble/src/node/state"
	"github.com/mosaicnetworks/babble/src/peers"
	"verifharness/hx"
)

var out *bufio.Writer
var violations = map[string]int{}
var stats = map[string]int{}

func V(class, detail string) {
	violations[class]++
	if violations[class] <= 6 {
		if len(detail) > 600 {
			detail = detail[:600]
		}
		fmt.Fprintf(out, "V C17 %s %s\n", class, detail)
	}
}

type World struct {
	rng   *rand.Rand
	privs []*ecdsa.PrivateKey
	peers []*peers.Peer
	eids  map[string]int
	nextN int
}

func (w *World) addKey() int {
	k, _ := keys.GenerateECDSAKey()
	p := peers.NewPeer(keys.PublicKeyHex(&k.PublicKey), fmt.Sprintf("addr%d", len(w.peers)), fmt.Sprintf("m%d", len(w.peers)))
	w.privs = append(w.privs, k)
	w.peers = append(w.peers, p)
	return len(w.peers) - 1
}

func (w *World) peerSet(ords []int) *peers.PeerSet {
	ps := []*peers.Peer{}
	for _, o := range ords {
		p := w.peers[o]
		ps = append(ps, peers.NewPeer(p.PubKeyHex, p.NetAddr, p.Moniker))
	}
	return peers.NewPeerSet(ps)
}

func (w *World) eid(hex string) int {
	if id, ok := w.eids[hex]; ok {
		return id
	}
	id := len(w.eids)
	w.eids[hex] = id
	return id
}

type N struct {
	w     *World
	id    int
	self  int
	n     *node.Node
	app   *dummy.InmemDummyClient
	known map[uint32]int // what has been printed as E lines
	parts string         // participant ids as last printed
	conf  *config.Config
	trans *net.InmemTransport
	lastTopo int
	origin   string // how the node got its validator set, for the oracle's messages
	reset bool // the hashgraph was reset by a fast-forward / rebuilt by a bootstrap: sync requests are not generated for it
}

// deafApp: the application's state-change handler fails (an application that is down, a socket proxy timing out).
// Node.transition only logs such an error: the node's state machine must not depend on it. mode 1: fails always,
// mode 2: fails once Init has returned.
type deafApp struct {
	*dummy.InmemDummyClient
	mode   int
	inited bool
}

func (a *deafApp) OnStateChanged(s _state.State) error {
	if a.mode == 1 || (a.mode == 2 && a.inited) {
		stats["app-state-handler-failed"]++
		return fmt.Errorf("application unreachable")
	}
	return a.InmemDummyClient.OnStateChanged(s)
}

type nodeOpts struct {
	maintenance, fastsync bool
	suspendLimit, syncLimit int
	preload *N // events of this node are inserted before Init: initialUndeterminedEvents > 0
	store     hg.Store // nil: a fresh InmemStore
	bootstrap bool     // conf.Bootstrap: Init replays the store
}

func (w *World) newNode(self int, current, genesis []int, o nodeOpts) *N {
	conf := config.NewDefaultConfig()
	conf.LogLevel = "panic"
	conf.JoinTimeout = 3 * time.Millisecond
	conf.MaintenanceMode = o.maintenance
	conf.EnableFastSync = o.fastsync
	conf.SuspendLimit = o.suspendLimit
	conf.SyncLimit = o.syncLimit
	conf.CacheSize = 50000
	conf.Bootstrap = o.bootstrap
	var store hg.Store = o.store
	if store == nil {
		store = hg.NewInmemStore(conf.CacheSize)
	}
	_, trans := net.NewInmemTransport(w.peers[self].NetAddr)
	app := dummy.NewInmemDummyClient(hx.QuietLogger())
	deaf := &deafApp{InmemDummyClient: app, mode: w.rng.Intn(3)}
	nd := node.NewNode(conf, node.NewValidator(w.privs[self], w.peers[self].Moniker), w.peerSet(current), w.peerSet(genesis),
		store, trans, deaf)
	if o.preload != nil {
		oc := o.preload.n.VerifCore()
		diff, _ := oc.EventDiff(map[uint32]int{})
		wire, _ := oc.ToWire(diff)
		for i := range wire {
			ev, err := nd.VerifCore().Hg().ReadWireInfo(wire[i])
			if err != nil {
				break
			}
			if err := nd.VerifCore().InsertEventAndRunConsensus(ev, false); err != nil {
				break
			}
		}
	}
	if err := nd.Init(); err != nil {
		panic(err)
	}
	deaf.inited = true
	x := &N{w: w, id: w.nextN, self: self, origin: "configured", n: nd, app: app, known: map[uint32]int{}, conf: conf, trans: trans, lastTopo: -1}
	w.nextN++
	x.declare()
	return x
}

// declare prints the N line of the node (again after a fast-forward: the model node restarts with an empty event list).
func (x *N) declare() {
	ids := []int{}
	for id := range x.n.VerifCore().KnownEvents() {
		ids = append(ids, int(id))
	}
	sort.Ints(ids)
	fmt.Fprintf(out, "GT N %d parts", x.id)
	for _, id := range ids {
		fmt.Fprintf(out, " %d", id)
	}
	fmt.Fprintf(out, " cfg %d %d\n", x.conf.SyncLimit, x.conf.SuspendLimit)
	x.parts = x.partsStr()
}

func (x *N) partsStr() string {
	ids := []int{}
	for id := range x.n.VerifCore().KnownEvents() {
		ids = append(ids, int(id))
	}
	sort.Ints(ids)
	s := []string{}
	for _, id := range ids {
		s = append(s, fmt.Sprint(id))
	}
	return strings.Join(s, " ")
}

// flushParts prints a Q line when the repertoire (the ids KnownEvents lists) changed.
func (x *N) flushParts() {
	if p := x.partsStr(); p != x.parts {
		x.parts = p
		fmt.Fprintf(out, "GT Q %d %s\n", x.id, p)
	}
}

func lcrStr(h *hg.Hashgraph) string {
	if h.LastConsensusRound == nil {
		return "-"
	}
	return fmt.Sprint(*h.LastConsensusRound)
}

func (x *N) digest() string {
	c := x.n.VerifCore()
	h := c.Hg()
	anchor := 0
	if _, _, err := c.GetAnchorBlockWithFrame(); err == nil {
		anchor = 1
	}
	return fmt.Sprintf("%s %d %d %d %d %d %d %d %d %d %s %d", x.n.GetState().String(), c.Seq()+1, h.Store.LastBlockIndex()+1,
		len(c.TransactionPool()), c.InternalTransactionPoolLen(), len(h.UndeterminedEvents), x.n.VerifInitialUndetermined(),
		c.Validators().Len(), c.RemovedRound(), c.AcceptedRound(), lcrStr(h), anchor)
}

// observable part used by the oracle: everything but the transaction pool and the state name
type obs struct {
	known     string
	head      string
	seq       int
	lastBlock int
	undet     int
	ipool     int
	pool      int
	committed int
	state     _state.State
}

func knownStr(m map[uint32]int) string {
	ids := []int{}
	for id := range m {
		ids = append(ids, int(id))
	}
	sort.Ints(ids)
	s := []string{}
	for _, id := range ids {
		s = append(s, fmt.Sprintf("%d:%d", id, m[uint32(id)]))
	}
	return strings.Join(s, ",")
}

func (x *N) observe() obs {
	c := x.n.VerifCore()
	return obs{known: knownStr(c.KnownEvents()), head: c.Head(), seq: c.Seq(), lastBlock: c.Hg().Store.LastBlockIndex(),
		undet: len(c.Hg().UndeterminedEvents), ipool: c.InternalTransactionPoolLen(), pool: len(c.TransactionPool()),
		committed: len(x.app.GetCommittedTransactions()), state: x.n.GetState()}
}

func (a obs) frozenEq(b obs) bool {
	return a.known == b.known && a.head == b.head && a.seq == b.seq && a.lastBlock == b.lastBlock && a.undet == b.undet &&
		a.ipool == b.ipool && a.committed == b.committed && a.state == b.state
}

// newEvents lists (and registers) the events the node acquired since the last call, in topological order.
func (x *N) newEvents() []*hg.Event {
	st := x.n.VerifCore().Hg().Store
	evs := []*hg.Event{}
	for id, last := range st.KnownEvents() {
		prev, ok := x.known[id]
		if !ok {
			prev = -1
		}
		if last > prev {
			p, ok := st.RepertoireByID()[id]
			if !ok {
				continue
			}
			hs, err := st.ParticipantEvents(p.PubKeyString(), prev)
			if err != nil {
				continue
			}
			for _, h := range hs {
				if ev, err := st.GetEvent(h); err == nil {
					evs = append(evs, ev)
				}
			}
			x.known[id] = last
		}
	}
	sort.Slice(evs, func(i, j int) bool { return evs[i].VerifTopologicalIndex() < evs[j].VerifTopologicalIndex() })
	if len(evs) > 0 {
		if t := evs[0].VerifTopologicalIndex(); t <= x.lastTopo && !x.reset {
			fmt.Fprintf(out, "Z topo-regression node=%d first=%d last_printed=%d creator=%d index=%d\n", x.id, t, x.lastTopo, x.w.peerIDOf(evs[0].Creator()), evs[0].Index())
		}
		x.lastTopo = evs[len(evs)-1].VerifTopologicalIndex()
	}
	return evs
}

func (x *N) evTriples(evs []*hg.Event) string {
	s := []string{}
	for _, ev := range evs {
		cid := x.w.peerIDOf(ev.Creator())
		s = append(s, fmt.Sprintf("%d:%d:%d", x.w.eid(ev.Hex()), cid, ev.Index()))
	}
	return strings.Join(s, " ")
}

func (w *World) peerIDOf(pub string) uint32 {
	for _, p := range w.peers {
		if strings.EqualFold(p.PubKeyHex, pub) {
			return p.ID()
		}
	}
	return 0
}

// flushE prints E lines for events acquired outside a G line (set-up gossip).
func (x *N) flushE() {
	x.flushParts()
	for _, ev := range x.newEvents() {
		fmt.Fprintf(out, "GT E %d %d %d %d\n", x.id, x.w.eid(ev.Hex()), x.w.peerIDOf(ev.Creator()), ev.Index())
	}
}

// call delivers one command through the node's processRPC and returns the response.
func (x *N) call(cmd interface{}) (resp net.RPCResponse, panicked interface{}) {
	ch := make(chan net.RPCResponse, 1)
	func() {
		defer func() { panicked = recover() }()
		x.n.VerifProcessRPC(net.RPC{Command: cmd, RespChan: ch})
	}()
	if panicked != nil {
		return
	}
	select {
	case resp = <-ch:
	default:
		panicked = "no response"
	}
	return
}

// expectedDiff computes, from the store alone, what a sync answer must contain.
func (x *N) expectedDiff(known map[uint32]int, limit int) (pairs []string, fails bool) {
	st := x.n.VerifCore().Hg().Store
	evs := []*hg.Event{}
	for id := range st.KnownEvents() {
		p, ok := st.RepertoireByID()[id]
		if !ok {
			continue
		}
		ct, ok := known[id]
		if !ok {
			ct = -1
		}
		if ct < -1 {
			fails = true
		}
		last, _ := st.KnownEvents()[id]
		for i := ct + 1; i <= last; i++ {
			if i < 0 {
				continue
			}
			h, err := st.ParticipantEvent(p.PubKeyString(), i)
			if err != nil {
				continue
			}
			if ev, err := st.GetEvent(h); err == nil {
				evs = append(evs, ev)
			}
		}
	}
	if fails {
		return nil, true
	}
	sort.Slice(evs, func(i, j int) bool { return evs[i].VerifTopologicalIndex() < evs[j].VerifTopologicalIndex() })
	lim := limit
	if x.conf.SyncLimit < lim {
		lim = x.conf.SyncLimit
	}
	if len(evs) > 0 && lim < len(evs) {
		evs = evs[:lim]
	}
	for _, ev := range evs {
		pairs = append(pairs, fmt.Sprintf("%d:%d", x.w.peerIDOf(ev.Creator()), ev.Index()))
	}
	return pairs, false
}

type request struct {
	kind string
	cmd  interface{}
	text string
	// for the oracle
	known map[uint32]int
	limit int
}

func (w *World) genKnown(x *N) map[uint32]int {
	mine := x.n.VerifCore().KnownEvents()
	k := map[uint32]int{}
	mode := w.rng.Intn(7)
	for id, last := range mine {
		switch mode {
		case 0: // knows nothing
		case 1: // knows everything
			k[id] = last
		case 2: // knows more than the node
			k[id] = last + w.rng.Intn(3)
		case 6:
			if w.rng.Intn(3) == 0 {
				k[id] = -2 - w.rng.Intn(3) // below -1: the store's TooLate path
			} else {
				k[id] = last
			}
		default:
			if w.rng.Intn(4) == 0 {
				continue // participant unknown to the requester
			}
			k[id] = -1 + w.rng.Intn(last+2)
		}
	}
	if w.rng.Intn(5) == 0 {
		k[uint32(12345+w.rng.Intn(10))] = w.rng.Intn(5) // a participant the node does not know
	}
	return k
}

func knownTok(m map[uint32]int) string {
	s := knownStr(m)
	if s == "" {
		return "-"
	}
	return s
}

// genRequest makes a request for node x; other nodes provide real events.
func (w *World) genRequest(x *N, others []*N) request {
	r := w.rng.Intn(10)
	if x.reset && r < 3 {
		// the event list of a node whose hashgraph was reset is not tracked for the model: no sync requests
		r = 3 + w.rng.Intn(7)
	}
	switch r {
	case 0, 1, 2:
		k := w.genKnown(x)
		limit := []int{0, 1, 2, 5, 1000, 1000, 1000}[w.rng.Intn(7)]
		from := w.peers[others[w.rng.Intn(len(others))].self].ID()
		return request{kind: "sync", cmd: &net.SyncRequest{FromID: from, Known: k, SyncLimit: limit},
			text: fmt.Sprintf("sync %d %s", limit, knownTok(k)), known: k, limit: limit}
	case 3, 4, 5, 6:
		o := others[w.rng.Intn(len(others))]
		oc := o.n.VerifCore()
		var wire []hg.WireEvent
		bad := 0
		mode := w.rng.Intn(6)
		switch mode {
		case 0: // EMPTY eager sync
		case 1: // events the node already has
			diff, _ := oc.EventDiff(map[uint32]int{})
			if len(diff) > 6 {
				diff = diff[:6]
			}
			wire, _ = oc.ToWire(diff)
		default: // what the other node has and this one lacks (possibly truncated / corrupted)
			diff, _ := oc.EventDiff(x.n.VerifCore().KnownEvents())
			if len(diff) > 0 && mode == 2 {
				diff = diff[:1+w.rng.Intn(len(diff))]
			}
			wire, _ = oc.ToWire(diff)
			if len(wire) > 0 && mode == 3 {
				i := w.rng.Intn(len(wire))
				wire[i].Signature = "1|2" // does not verify
				bad = 1
			}
			if len(wire) > 1 && mode == 4 {
				// drop the first event: a later one may refer to an unknown parent
				wire = wire[1:]
				bad = 2 // may or may not fail; decided by the implementation
			}
		}
		return request{kind: "eager", cmd: &net.EagerSyncRequest{FromID: w.peers[o.self].ID(), Events: wire},
			text: fmt.Sprintf("eager %d %d", len(wire), bad)}
	case 7:
		return request{kind: "ff", cmd: &net.FastForwardRequest{FromID: w.peers[others[0].self].ID()}, text: "ff"}
	case 8:
		// join request: from a stranger (valid / forged signature) or from a peer already present
		mode := w.rng.Intn(3)
		var key *ecdsa.PrivateKey
		var p *peers.Peer
		present := 0
		if mode == 2 {
			o := others[w.rng.Intn(len(others))]
			key, p = w.privs[o.self], w.peers[o.self]
			if _, ok := x.n.VerifCore().Peers().ByPubKey[p.PubKeyString()]; ok {
				present = 1
			}
		} else {
			key, _ = keys.GenerateECDSAKey()
			p = peers.NewPeer(keys.PublicKeyHex(&key.PublicKey), "stranger", "stranger")
		}
		itx := hg.NewInternalTransactionJoin(*peers.NewPeer(p.PubKeyHex, p.NetAddr, p.Moniker))
		itx.Sign(key)
		sigok := 1
		if mode == 1 {
			other, _ := keys.GenerateECDSAKey()
			itx.Sign(other)
			sigok = 0
		}
		return request{kind: "join", cmd: &net.JoinRequest{InternalTransaction: itx}, text: fmt.Sprintf("join %d %d", sigok, present)}
	default:
		return request{kind: "unknown", cmd: &struct{ X int }{1}, text: "unknown"}
	}
}

func b2i(b bool) int {
	if b {
		return 1
	}
	return 0
}

// deliver sends the request, prints the G line and evaluates the oracle.
func (w *World) deliver(x *N, rq request) {
	x.flushParts()
	before := x.observe()
	dBefore := x.digest()
	var expPairs []string
	var expFails bool
	if rq.kind == "sync" {
		expPairs, expFails = x.expectedDiff(rq.known, rq.limit)
	}
	resp, pan := x.call(rq.cmd)
	after := x.observe()
	newEvs := x.newEvents()
	st := before.state
	stats["req_"+st.String()+"_"+rq.kind]++
	if pan != nil {
		V("handler-panicked", fmt.Sprintf("state=%s request=%s: %v", st, rq.text, pan))
		return
	}
	isErr := resp.Error != nil
	answer := ""
	switch {
	case isErr && resp.Response == nil && resp.Error.Error() == "Not in Babbling state":
		answer = "gate"
	case isErr && resp.Response == nil && resp.Error.Error() == "unexpected command":
		answer = "unknown"
	default:
		switch r := resp.Response.(type) {
		case *net.SyncResponse:
			got := []string{}
			eids := []string{}
			for _, we := range r.Events {
				got = append(got, fmt.Sprintf("%d:%d", we.Body.CreatorID, we.Body.Index))
				eids = append(eids, fmt.Sprint(x.wireEid(we)))
			}
			answer = fmt.Sprintf("sync %d E %s K %s", b2i(isErr), strings.Join(eids, " "), strings.ReplaceAll(knownStr(r.Known), ",", " "))
			// oracle: the answer is the difference computed from the store
			if expFails != isErr || (!isErr && strings.Join(got, " ") != strings.Join(expPairs, " ")) || knownStr(r.Known) != before.known {
				cls := "sync-wrong-diff"
				if st == _state.Suspended {
					cls = "suspended-sync-wrong-diff"
				}
				V(cls, fmt.Sprintf("state=%s request=%s expected=[%s] fails=%v got=[%s] err=%v", st, rq.text, strings.Join(expPairs, " "), expFails, strings.Join(got, " "), resp.Error))
			}
			if len(r.Events) > 0 {
				stats["sync_nonempty_"+st.String()]++
			}
		case *net.EagerSyncResponse:
			answer = fmt.Sprintf("eager %d", b2i(isErr))
			if r.Success == isErr {
				V("eager-success-flag-inconsistent", fmt.Sprintf("success=%v err=%v", r.Success, resp.Error))
			}
		case *net.FastForwardResponse:
			answer = fmt.Sprintf("ff %d", b2i(isErr))
		case *net.JoinResponse:
			answer = fmt.Sprintf("join %d %d", b2i(isErr), b2i(r.Accepted))
		default:
			answer = fmt.Sprintf("other %d", b2i(isErr))
		}
	}
	fmt.Fprintf(out, "GT G %d %s ; %s => %s ; %s ; NEW %s\n", x.id, rq.text, dBefore, answer, x.digest(), x.evTriples(newEvs))

	// oracle
	if st != _state.Babbling {
		if !before.frozenEq(after) || len(newEvs) > 0 {
			V(fmt.Sprintf("non-babbling-node-changed:%s:%s", st, rq.kind), fmt.Sprintf("request=%s before=%+v after=%+v new=%d", rq.text, before, after, len(newEvs)))
		}
		if before.pool != after.pool {
			V(fmt.Sprintf("non-babbling-node-changed:%s:%s", st, rq.kind), "transaction pool changed by a request")
		}
		mutating := rq.kind != "sync" && rq.kind != "ff"
		allowed := st == _state.Suspended && rq.kind == "sync"
		if !allowed && !isErr {
			if mutating {
				V("mutating-request-not-refused", fmt.Sprintf("state=%s request=%s answer=%s", st, rq.text, answer))
			} else {
				V("request-not-refused", fmt.Sprintf("state=%s request=%s answer=%s", st, rq.text, answer))
			}
		}
		if allowed && answer == "gate" {
			V("suspended-sync-refused", fmt.Sprintf("request=%s", rq.text))
		}
	} else {
		if rq.kind == "sync" || rq.kind == "ff" || rq.kind == "unknown" {
			if !before.frozenEq(after) || before.pool != after.pool || len(newEvs) > 0 {
				V("read-only-request-changed-node", fmt.Sprintf("request=%s before=%+v after=%+v", rq.text, before, after))
			}
		}
	}
}

func (x *N) wireEid(we hg.WireEvent) int {
	st := x.n.VerifCore().Hg().Store
	p, ok := st.RepertoireByID()[we.Body.CreatorID]
	if !ok {
		return -1
	}
	h, err := st.ParticipantEvent(p.PubKeyString(), we.Body.Index)
	if err != nil {
		return -1
	}
	return x.w.eid(h)
}

func (w *World) submitTx(x *N) {
	before := x.observe()
	d := x.digest()
	x.n.VerifAddTransaction([]byte(fmt.Sprintf("tx%d", w.rng.Int63())))
	after := x.observe()
	newEvs := x.newEvents()
	fmt.Fprintf(out, "GT X %d ; %s => %s\n", x.id, d, x.digest())
	stats["tx_"+before.state.String()]++
	if !before.frozenEq(after) || len(newEvs) > 0 {
		V(fmt.Sprintf("non-babbling-node-changed:%s:tx", before.state), fmt.Sprintf("before=%+v after=%+v", before, after))
	}
	if after.pool != before.pool+1 {
		V("transaction-not-pooled", fmt.Sprintf("state=%s pool %d -> %d", before.state, before.pool, after.pool))
	}
}

// checkSuspend calls Node.checkSuspend, prints the H line and evaluates the oracle.
func (w *World) checkSuspend(x *N) {
	c := x.n.VerifCore()
	h := c.Hg()
	st := x.n.GetState()
	d := x.digest()
	newUndet := len(h.UndeterminedEvents) - x.n.VerifInitialUndetermined()
	tooMany := newUndet > x.conf.SuspendLimit*c.Validators().Len()
	evicted := h.LastConsensusRound != nil && c.RemovedRound() > 0 && c.RemovedRound() > c.AcceptedRound() && *h.LastConsensusRound >= c.RemovedRound()
	x.n.VerifCheckSuspend()
	after := x.n.GetState()
	fmt.Fprintf(out, "GT H %d ; %s => %s\n", x.id, d, after)
	stats["check_"+st.String()]++
	if tooMany {
		stats["check_toomany"]++
	}
	if evicted {
		stats["check_evicted"]++
	}
	if st == _state.Babbling {
		if (tooMany || evicted) && after != _state.Suspended {
			V("did-not-suspend", fmt.Sprintf("node=%d %s undetermined=%d initial=%d limit=%d validators=%d evicted=%v state=%s", x.id, x.origin, len(h.UndeterminedEvents),
				x.n.VerifInitialUndetermined(), x.conf.SuspendLimit, c.Validators().Len(), evicted, after))
		}
		if !(tooMany || evicted) && after != _state.Babbling {
			V("suspended-without-cause", fmt.Sprintf("node=%d %s undetermined=%d initial=%d limit=%d validators=%d state=%s", x.id, x.origin, len(h.UndeterminedEvents),
				x.n.VerifInitialUndetermined(), x.conf.SuspendLimit, c.Validators().Len(), after))
		}
	}
}

// gossip: a pulls from b and pushes to b, through b's processRPC and a's node-level sync (as node.gossip does).
func (w *World) gossip(a, b *N) bool {
	ac := a.n.VerifCore()
	resp, pan := b.call(&net.SyncRequest{FromID: w.peers[a.self].ID(), Known: ac.KnownEvents(), SyncLimit: 1000})
	if pan != nil || resp.Error != nil {
		return false
	}
	sr := resp.Response.(*net.SyncResponse)
	if a.n.GetState() == _state.Babbling {
		if err := a.n.VerifSync(w.peers[b.self].ID(), sr.Events); err != nil {
			return false
		}
	}
	diff, err := ac.EventDiff(sr.Known)
	if err != nil {
		return false
	}
	if len(diff) > 0 {
		wire, _ := ac.ToWire(diff)
		r2, pan := b.call(&net.EagerSyncRequest{FromID: w.peers[a.self].ID(), Events: wire})
		if pan != nil || r2.Error != nil {
			return false
		}
	}
	return true
}

var allStates = []_state.State{_state.Babbling, _state.CatchingUp, _state.Joining, _state.Leaving, _state.Shutdown, _state.Suspended}

// gateScenario: a network of real nodes that gossip; at random points one node is put in each state
// and receives a generated request sequence.
func (w *World) gateScenario(nNodes, rounds, seqLen int) {
	ords := []int{}
	for i := 0; i < nNodes; i++ {
		ords = append(ords, w.addKey())
	}
	nodes := []*N{}
	for _, o := range ords {
		nodes = append(nodes, w.newNode(o, ords, ords, nodeOpts{suspendLimit: 1000, syncLimit: []int{1000, 1000, 7}[w.rng.Intn(3)]}))
	}
	for r := 0; r < rounds; r++ {
		// some ordinary gossip among Babbling nodes
		for g := 0; g < 4+w.rng.Intn(14); g++ {
			a := nodes[w.rng.Intn(len(nodes))]
			b := nodes[w.rng.Intn(len(nodes))]
			if a == b {
				continue
			}
			if w.rng.Intn(2) == 0 {
				a.n.VerifAddTransaction([]byte(fmt.Sprintf("g%d", w.rng.Int63())))
			}
			w.gossip(a, b)
		}
		for _, n := range nodes {
			n.flushE()
		}
		// target node in every state
		t := nodes[w.rng.Intn(len(nodes))]
		others := []*N{}
		for _, n := range nodes {
			if n != t {
				others = append(others, n)
			}
		}
		states := append([]_state.State{}, allStates...)
		w.rng.Shuffle(len(states), func(i, j int) { states[i], states[j] = states[j], states[i] })
		for _, s := range states {
			t.n.VerifSetState(s)
			// pending pool content before the requests
			if w.rng.Intn(2) == 0 {
				w.submitTx(t)
			}
			for k := 0; k < seqLen; k++ {
				if w.rng.Intn(5) == 0 {
					w.submitTx(t)
					continue
				}
				w.deliver(t, w.genRequest(t, others))
			}
		}
		t.n.VerifSetState(_state.Babbling)
	}
}

// maintenanceScenario: a node started in maintenance mode is Suspended from Init and frozen.
func (w *World) initScenario(seqLen int) {
	ords := []int{w.addKey(), w.addKey(), w.addKey()}
	stranger := w.addKey()
	live := []*N{}
	for _, o := range ords[:2] {
		live = append(live, w.newNode(o, ords, ords, nodeOpts{suspendLimit: 1000, syncLimit: 1000}))
	}
	for i := 0; i < 6; i++ {
		live[0].n.VerifAddTransaction([]byte(fmt.Sprintf("i%d", i)))
		w.gossip(live[0], live[1])
		w.gossip(live[1], live[0])
	}
	for _, n := range live {
		n.flushE()
	}
	for _, maint := range []bool{false, true} {
		for _, inps := range []bool{false, true} {
			for _, fs := range []bool{false, true} {
				self := ords[2]
				if !inps {
					self = stranger
				}
				x := w.newNode(self, ords, ords, nodeOpts{maintenance: maint, fastsync: fs, suspendLimit: 1000, syncLimit: 1000})
				fmt.Fprintf(out, "GT I %d %d %d => %s\n", b2i(maint), b2i(inps), b2i(fs), x.n.GetState())
				stats["init"]++
				if maint && x.n.GetState() != _state.Suspended {
					V("maintenance-mode-not-suspended", x.n.GetState().String())
				}
				for k := 0; k < seqLen; k++ {
					if w.rng.Intn(4) == 0 {
						w.submitTx(x)
					} else {
						w.deliver(x, w.genRequest(x, live))
					}
				}
			}
		}
	}
}

// noQuorumScenario: fewer than a supermajority of the validators are alive: the undetermined set
// grows until the nodes suspend themselves; afterwards they are frozen but still serve syncs.
func (w *World) noQuorumScenario(nValidators, alive, limit, steps int) {
	ords := []int{}
	for i := 0; i < nValidators; i++ {
		ords = append(ords, w.addKey())
	}
	nodes := []*N{}
	for i, o := range ords[:alive] {
		opts := nodeOpts{suspendLimit: limit, syncLimit: 1000}
		if i > 0 && w.rng.Intn(2) == 0 {
			// the first node works alone for a while; this one starts with those events already in its hashgraph
			for k := 0; k < 2+w.rng.Intn(5); k++ {
				nodes[0].n.VerifAddTransaction([]byte(fmt.Sprintf("p%d", k)))
				nodes[0].n.VerifMonologue()
			}
			opts.preload = nodes[0]
			stats["noquorum_preloaded_nodes"]++
		}
		nodes = append(nodes, w.newNode(o, ords, ords, opts))
	}
	for _, n := range nodes {
		n.flushE()
	}
	for s := 0; s < steps; s++ {
		a := nodes[w.rng.Intn(len(nodes))]
		if a.n.GetState() == _state.Babbling {
			a.n.VerifAddTransaction([]byte(fmt.Sprintf("q%d", s)))
		}
		if len(nodes) > 1 {
			b := nodes[w.rng.Intn(len(nodes))]
			if a != b && a.n.GetState() == _state.Babbling {
				w.gossip(a, b)
			}
		} else if a.n.GetState() == _state.Babbling {
			a.n.VerifMonologue()
		}
		for _, n := range nodes {
			n.flushE()
		}
		// the heartbeat's checkSuspend
		if a.n.GetState() == _state.Babbling || w.rng.Intn(4) == 0 {
			w.checkSuspend(a)
		}
		// a suspended node keeps answering
		for _, n := range nodes {
			if n.n.GetState() == _state.Suspended && w.rng.Intn(2) == 0 {
				others := []*N{}
				for _, m := range nodes {
					if m != n {
						others = append(others, m)
					}
				}
				if len(others) == 0 {
					others = []*N{n}
				}
				if w.rng.Intn(4) == 0 {
					w.submitTx(n)
				} else {
					w.deliver(n, w.genRequest(n, others))
				}
			}
		}
	}
	sus := 0
	for _, n := range nodes {
		if n.n.GetState() == _state.Suspended {
			sus++
		}
	}
	stats["noquorum_runs"]++
	stats["noquorum_suspended_nodes"] += sus
	if sus == 0 {
		stats["noquorum_never_reached_limit"]++
	}
}

// evictionScenario: a validator is removed through consensus; it must suspend itself once the last
// consensus round reaches its removedRound.
func (w *World) evictionScenario(nValidators, steps int) {
	ords := []int{}
	for i := 0; i < nValidators; i++ {
		ords = append(ords, w.addKey())
	}
	nodes := []*N{}
	for _, o := range ords {
		nodes = append(nodes, w.newNode(o, ords, ords, nodeOpts{suspendLimit: 1000, syncLimit: 1000}))
	}
	victim := nodes[0]
	submitted := false
	for s := 0; s < steps; s++ {
		a := nodes[w.rng.Intn(len(nodes))]
		b := nodes[w.rng.Intn(len(nodes))]
		if a == b {
			continue
		}
		if !submitted && s > 10 {
			// a leave request of the victim, as core.leave builds it
			p := w.peers[victim.self]
			itx := hg.NewInternalTransaction(hg.PEER_REMOVE, *peers.NewPeer(p.PubKeyHex, p.NetAddr, p.Moniker))
			itx.Sign(w.privs[victim.self])
			nodes[1].n.VerifCore().AddInternalTransaction(itx)
			submitted = true
		}
		if a.n.GetState() == _state.Babbling && w.rng.Intn(2) == 0 {
			a.n.VerifAddTransaction([]byte(fmt.Sprintf("e%d", s)))
		}
		if a.n.GetState() == _state.Babbling {
			w.gossip(a, b)
		}
		for _, n := range nodes {
			n.flushE()
		}
		vc := victim.n.VerifCore()
		if victim.n.GetState() == _state.Babbling && vc.RemovedRound() > 0 {
			// re-admitted validators have acceptedRound >= removedRound: must not suspend
			old := vc.AcceptedRound()
			vc.SetAcceptedRound(vc.RemovedRound() + w.rng.Intn(2))
			w.checkSuspend(victim)
			vc.SetAcceptedRound(old)
		}
		for _, n := range nodes {
			if n.n.GetState() == _state.Babbling {
				w.checkSuspend(n)
			}
		}
		if victim.n.GetState() == _state.Suspended && w.rng.Intn(2) == 0 {
			w.deliver(victim, w.genRequest(victim, nodes[1:]))
		}
	}
	stats["eviction_runs"]++
	if victim.n.GetState() == _state.Suspended {
		stats["eviction_suspended"]++
	}
	if victim.n.VerifCore().RemovedRound() > 0 {
		stats["eviction_removed_round_set"]++
	}
}

func main() {
	seed := flag.Int64("seed", 1, "seed")
	rounds := flag.Int("rounds", 12, "gate scenario rounds per network")
	nets := flag.Int("nets", 2, "gate scenario networks")
	seqLen := flag.Int("seq", 7, "requests per state")
	nq := flag.Int("noquorum", 6, "no-quorum runs")
	ev := flag.Int("evict", 2, "eviction runs")
	mb := flag.Int("member", 4, "membership-change runs (join / leave, then fast-forward or bootstrap, then no quorum)")
	flag.Parse()
	out = bufio.NewWriterSize(os.Stdout, 1<<20)
	defer out.Flush()
	w := &World{rng: rand.New(rand.NewSource(*seed)), eids: map[string]int{}}
	for i := 0; i < *nets; i++ {
		w.gateScenario(3+w.rng.Intn(2), *rounds, *seqLen)
	}
	w.initScenario(*seqLen)
	for i := 0; i < *nq; i++ {
		nv := 3 + w.rng.Intn(3)
		alive := 1 + w.rng.Intn(2*nv/3) // at most 2n/3 alive: below the supermajority
		w.noQuorumScenario(nv, alive, 1+w.rng.Intn(4), 60+w.rng.Intn(60))
	}
	for i := 0; i < *ev; i++ {
		w.evictionScenario(3+w.rng.Intn(2), 260)
	}
	for i := 0; i < *mb; i++ {
		w.membershipScenario(i%2 == 0, 10+w.rng.Intn(6), i%3 == 2)
	}
	keys := []string{}
	for k := range stats {
		keys = append(keys, k)
	}
	sort.Strings(keys)
	fmt.Fprintf(out, "Z")
	for _, k := range keys {
		fmt.Fprintf(out, " %s=%d", k, stats[k])
	}
	fmt.Fprintf(out, "\n")
	vk := []string{}
	for k := range violations {
		vk = append(vk, k)
	}
	sort.Strings(vk)
	for _, k := range vk {
		fmt.Fprintf(out, "Z violations %s=%d\n", k, violations[k])
	}
}
