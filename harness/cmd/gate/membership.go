package main

import (
	"fmt"
	"os"
	"time"

	hg "github.com/mosaicnetworks/babble/src/hashgraph"
	"github.com/mosaicnetworks/babble/src/net"
	_state "github.com/mosaicnetworks/babble/src/node/state"
	"github.com/mosaicnetworks/babble/src/peers"
	"verifharness/hx"
)

// pump serves the node's transport: every RPC that arrives on the in-memory transport goes through processRPC
// (what doBackgroundWork does), so that another real Node can fast-forward from this one. The in-memory
// transport hands over Go pointers; a FastForwardResponse is therefore re-encoded (JSON, as the TCP transport
// does), otherwise Reset on the receiving side would renumber the very Event objects of the serving node.
func (x *N) pump(stop chan struct{}) {
	for {
		select {
		case rpc := <-x.trans.Consumer():
			go func(rpc net.RPC) {
				ch := make(chan net.RPCResponse, 1)
				x.n.VerifProcessRPC(net.RPC{Command: rpc.Command, RespChan: ch})
				r := <-ch
				if ff, ok := r.Response.(*net.FastForwardResponse); ok && r.Error == nil {
					cp := &net.FastForwardResponse{FromID: ff.FromID, Snapshot: append([]byte{}, ff.Snapshot...)}
					bb, e1 := ff.Block.Marshal()
					fb, e2 := ff.Frame.Marshal()
					if e1 != nil || e2 != nil || cp.Block.Unmarshal(bb) != nil || cp.Frame.Unmarshal(fb) != nil {
						r = net.RPCResponse{Error: fmt.Errorf("harness: cannot re-encode the response")}
					} else {
						r.Response = cp
					}
				}
				select {
				case rpc.RespChan <- r:
				case <-time.After(2 * time.Second):
				}
			}(rpc)
		case <-stop:
			return
		}
	}
}

// receiptBlock returns the index of the last block that carries internal-transaction receipts (-1 if none).
func (x *N) receiptBlock() int {
	st := x.n.VerifCore().Hg().Store
	last := -1
	for i := 0; i <= st.LastBlockIndex(); i++ {
		if b, err := st.GetBlock(i); err == nil && len(b.InternalTransactionReceipts()) > 0 {
			last = i
		}
	}
	return last
}

func (x *N) anchorIndex() int {
	b, _, err := x.n.VerifCore().GetAnchorBlockWithFrame()
	if err != nil {
		return -1
	}
	return b.Index()
}

// fastForwardFrom runs the real Node.fastForward of x against the serving nodes (through their transports).
func (w *World) fastForwardFrom(x *N, servers []*N) error {
	stop := make(chan struct{})
	for _, s := range servers {
		x.trans.Connect(w.peers[s.self].NetAddr, s.trans)
		go s.pump(stop)
	}
	defer close(stop)
	var err error
	for try := 0; try < 3; try++ {
		x.n.VerifSetState(_state.CatchingUp)
		if err = x.n.VerifFastForward(); err == nil && x.n.GetState() == _state.Babbling {
			break
		}
		time.Sleep(20 * time.Millisecond)
	}
	return err
}

// membershipScenario: the validator set changes through consensus (a join: 3 -> 4, or a leave: 4 -> 3); the live
// nodes learn it from the blocks they commit. Then one node obtains the new set another way:
//   - fast-forward: a node configured with the OLD set (the joiner, or a validator restarted from scratch)
//     runs Node.fastForward against the others and adopts the validators of the anchor frame;
//   - bootstrap (useBootstrap): a validator with a Badger store is shut down and restarted with Bootstrap.
// Then only two nodes keep babbling -- no quorum -- and checkSuspend runs after every step: each node must
// suspend exactly when its new undetermined events exceed limit x the validator count it has NOW.
func (w *World) membershipScenario(grow bool, limit int, useBootstrap bool) {
	nGen := 4
	if grow {
		nGen = 3
	}
	gen := []int{}
	for i := 0; i < nGen; i++ {
		gen = append(gen, w.addKey())
	}
	joiner := -1
	if grow {
		joiner = w.addKey()
	}
	var dbPath string
	nodes := []*N{}
	for i, o := range gen {
		opts := nodeOpts{suspendLimit: limit, syncLimit: 1000}
		if useBootstrap && i == 2 {
			dbPath, _ = os.MkdirTemp("", "gate-badger")
			st, err := hg.NewBadgerStore(50000, dbPath, false, hx.QuietLogger())
			if err != nil {
				panic(err)
			}
			opts.store = st
		}
		nodes = append(nodes, w.newNode(o, gen, gen, opts))
	}
	if dbPath != "" {
		defer os.RemoveAll(dbPath)
	}
	live := nodes
	step := func(n int) {
		for g := 0; g < n; g++ {
			a := live[w.rng.Intn(len(live))]
			b := live[w.rng.Intn(len(live))]
			if a == b {
				continue
			}
			if w.rng.Intn(2) == 0 {
				a.n.VerifAddTransaction([]byte(fmt.Sprintf("m%d", w.rng.Int63())))
			}
			w.gossip(a, b)
		}
		for _, n := range live {
			n.flushE()
		}
	}
	step(40)

	// the membership change
	want := nGen + 1
	var joinItx hg.InternalTransaction
	if grow {
		p := w.peers[joiner]
		joinItx = hg.NewInternalTransactionJoin(*peers.NewPeer(p.PubKeyHex, p.NetAddr, p.Moniker))
		joinItx.Sign(w.privs[joiner])
		w.deliver(nodes[0], request{kind: "join", cmd: &net.JoinRequest{InternalTransaction: joinItx}, text: "join 1 0"})
	} else {
		want = nGen - 1
		p := w.peers[gen[3]]
		itx := hg.NewInternalTransaction(hg.PEER_REMOVE, *peers.NewPeer(p.PubKeyHex, p.NetAddr, p.Moniker))
		itx.Sign(w.privs[gen[3]])
		nodes[1].n.VerifCore().AddInternalTransaction(itx)
	}
	learned := func() bool {
		for _, n := range nodes[:3] {
			if n.n.VerifCore().Validators().Len() != want {
				return false
			}
		}
		return true
	}
	for i := 0; i < 60 && !learned(); i++ {
		step(10)
	}
	if !learned() {
		stats["member_change_not_reached"]++
		return
	}
	stats["member_change_learned_from_blocks"]++
	for _, n := range nodes[:3] {
		n.origin = fmt.Sprintf("membership-learned-from-blocks:validators-%d-to-%d", nGen, want)
	}
	// the departed validator stops; the others go on until the anchor block is a later block without receipts
	live = nodes[:3]
	settled := func() bool {
		for _, n := range live {
			b, _, err := n.n.VerifCore().GetAnchorBlockWithFrame()
			if err != nil || b.Index() <= n.receiptBlock() || b.Index() < 1 || len(b.InternalTransactionReceipts()) > 0 {
				return false
			}
		}
		return true
	}
	for i := 0; i < 80 && !settled(); i++ {
		step(10)
	}
	if !settled() {
		stats["member_anchor_not_settled"]++
		return
	}

	// the node that gets the new validator set another way. Its first sync brings in everything the partner has
	// not yet determined at once: the limit is chosen so that this alone stays below limit x (smaller set), and the
	// crossing of limit x (current set) is reached by the no-quorum steps that follow.
	partner := nodes[0]
	xlimit := len(partner.n.VerifCore().Hg().UndeterminedEvents)/3 + 2 + w.rng.Intn(3)
	if xlimit < limit {
		xlimit = limit
	}
	var x *N
	kind := "fastforward"
	switch {
	case useBootstrap:
		kind = "bootstrap"
		old := nodes[2]
		old.n.Shutdown() // closes the Badger store
		st, err := hg.NewBadgerStore(50000, dbPath, false, hx.QuietLogger())
		if err != nil {
			stats["member_bootstrap_failed"]++
			return
		}
		func() {
			defer func() {
				if r := recover(); r != nil {
					stats["member_bootstrap_failed"]++
					x = nil
				}
			}()
			x = w.newNode(gen[2], gen, gen, nodeOpts{suspendLimit: xlimit, syncLimit: 1000, store: st, bootstrap: true})
		}()
		if x == nil {
			return
		}
		defer x.n.VerifCore().Hg().Store.Close()
		x.reset = true
		x.known = x.n.VerifCore().KnownEvents()
	case grow:
		// the joiner, configured with the three genesis validators
		x = w.newNode(joiner, gen, gen, nodeOpts{suspendLimit: xlimit, syncLimit: 1000, fastsync: true})
		// what Node.join does with the JoinResponse (the request is answered by a real node: the peer is present by now)
		resp, pan := nodes[0].call(&net.JoinRequest{InternalTransaction: joinItx})
		jr, ok := resp.Response.(*net.JoinResponse)
		if pan != nil || resp.Error != nil || !ok || !jr.Accepted {
			stats["member_join_not_accepted"]++
			return
		}
		x.n.VerifCore().SetAcceptedRound(jr.AcceptedRound)
	default:
		// a validator restarted from scratch with the four genesis validators and fast-sync
		x = w.newNode(gen[2], gen, gen, nodeOpts{suspendLimit: xlimit, syncLimit: 1000, fastsync: true})
	}
	if !useBootstrap {
		before := x.n.VerifCore().Validators().Len()
		servers := []*N{nodes[0], nodes[1]}
		if grow {
			servers = append(servers, nodes[2])
		}
		if err := w.fastForwardFrom(x, servers); err != nil || x.n.GetState() != _state.Babbling {
			stats["member_fastforward_failed"]++
			fmt.Fprintf(out, "# fastforward-failed %v state=%s\n", err, x.n.GetState())
			return
		}
		x.reset = true
		x.known = x.n.VerifCore().KnownEvents()
		x.declare()
		after := x.n.VerifCore().Validators().Len()
		x.origin = fmt.Sprintf("fast-forwarded:validators-%d-to-%d", before, after)
		stats[fmt.Sprintf("member_fastforward_validators_%d_to_%d", before, after)]++
		fmt.Fprintf(out, "# after-fastforward undetermined=%d partner_undetermined=%d limit=%d\n", len(x.n.VerifCore().Hg().UndeterminedEvents),
			len(partner.n.VerifCore().Hg().UndeterminedEvents), x.conf.SuspendLimit)
		if after != want {
			stats["member_fastforward_unexpected_validator_count"]++
		}
	} else {
		stats[fmt.Sprintf("member_bootstrap_validators_%d", x.n.VerifCore().Validators().Len())]++
		x.origin = fmt.Sprintf("bootstrapped:validators-%d", x.n.VerifCore().Validators().Len())
	}

	// no quorum: only x and one partner keep going
	pair := []*N{x, partner}
	for s := 0; s < 60+xlimit*(want+1)*2; s++ {
		a, b := pair[s%2], pair[(s+1)%2]
		if a.n.GetState() == _state.Babbling {
			a.n.VerifAddTransaction([]byte(fmt.Sprintf("n%d", s)))
			w.gossip(a, b)
		}
		for _, n := range pair {
			n.flushE()
		}
		// the heartbeat's checkSuspend, on both
		for _, n := range pair {
			if n.n.GetState() == _state.Babbling || w.rng.Intn(6) == 0 {
				w.checkSuspend(n)
			}
		}
		for _, n := range pair {
			if n.n.GetState() == _state.Suspended && w.rng.Intn(3) == 0 {
				o := partner
				if n == partner {
					o = x
				}
				if w.rng.Intn(4) == 0 {
					w.submitTx(n)
				} else {
					w.deliver(n, w.genRequest(n, []*N{o}))
				}
			}
		}
		if x.n.GetState() == _state.Suspended && partner.n.GetState() == _state.Suspended && s%7 == 0 {
			break
		}
	}
	stats["member_runs_"+kind]++
	if x.n.GetState() == _state.Suspended {
		stats["member_suspended_"+kind]++
	} else {
		stats["member_not_suspended_"+kind]++
	}
}
