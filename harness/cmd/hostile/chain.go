package main

import (
	"encoding/json"
	"fmt"
	"math"

	hg "github.com/mosaicnetworks/babble/src/hashgraph"
	"github.com/mosaicnetworks/babble/src/net"
	_state "github.com/mosaicnetworks/babble/src/node/state"
)

// Byzantine-validator scenarios made of validly SIGNED but ill-chained events: forks of the
// validator's own chain (self-parent = an older own event) with a huge / consecutive / negative
// index, skipped or negative index on the real head, a second "first" event, duplicates of old
// events, references to unknown parents. They are delivered by EagerSync and inside SyncResponses
// (FromID = the validator, or another peer). The damage of mishandling them shows on the NEXT
// messages (core.heads, the self-event path), so these cases are followed by the full liveness
// probe (the victim has pending transactions, must create a self-event and accept an honest
// peer's valid push) AND by several rounds of honest traffic plus a second probe.

type chainShape struct {
	name string
	// build returns the wire events (the hostile one, possibly followed by a valid one)
	build func(w *world, t *hnode, who int) ([]hg.WireEvent, bool)
}

// ownEvents: the events of validator `who` in the target's store, oldest first
func (w *world) ownEvents(t *hnode, who int) []*hg.Event {
	store := t.n.VerifCore().Hg().Store
	hs, err := store.ParticipantEvents(w.peerl[who].PubKeyString(), -1)
	if err != nil {
		return nil
	}
	l := []*hg.Event{}
	for _, h := range hs {
		if e, err := store.GetEvent(h); err == nil {
			l = append(l, e)
		}
	}
	return l
}

// signedOn: an event of `who` with the given self-parent / other-parent hashes and index, correctly
// signed; wire references are the given ones (so that unknown parents can be expressed)
func (w *world) signedOn(t *hnode, who int, selfParent string, spIndex int, otherParent string, opCreator uint32, opIndex int, index int) (hg.WireEvent, bool) {
	ev := hg.NewEvent([][]byte{w.newTx()}, nil, nil, []string{selfParent, otherParent}, w.g0PubBytes(who), index)
	if err := ev.Sign(w.privs[who]); err != nil {
		return hg.WireEvent{}, false
	}
	ev.SetWireInfo(spIndex, opCreator, opIndex, w.nodes[who].id)
	return ev.ToWire(), true
}

func (w *world) chainShapes() []chainShape {
	// the other-parent every shape uses: the target's last event of honest node 1 (known)
	op := func(w *world, t *hnode) (string, uint32, int, bool) {
		evs := w.ownEvents(t, 1)
		if len(evs) == 0 {
			return "", 0, -1, true
		}
		e := evs[len(evs)-1]
		return e.Hex(), w.nodes[1].id, e.Index(), true
	}
	fork := func(name string, back int, index func(older, last *hg.Event) int) chainShape {
		return chainShape{name, func(w *world, t *hnode, who int) ([]hg.WireEvent, bool) {
			evs := w.ownEvents(t, who)
			if len(evs) < back+1 {
				return nil, false
			}
			older, last := evs[len(evs)-1-back], evs[len(evs)-1]
			oph, opc, opi, _ := op(w, t)
			we, ok := w.signedOn(t, who, older.Hex(), older.Index(), oph, opc, opi, index(older, last))
			return []hg.WireEvent{we}, ok
		}}
	}
	onHead := func(name string, index func(last *hg.Event) int) chainShape {
		return fork(name, 0, func(_, last *hg.Event) int { return index(last) })
	}
	l := []chainShape{
		// self-parent is NOT the validator's last event: a "normal" self-parent error, the event is not inserted
		fork("fork-huge-index", 1, func(_, _ *hg.Event) int { return math.MaxInt64 }),
		fork("fork-big-index", 1, func(_, last *hg.Event) int { return last.Index() + 1000000 }),
		fork("fork-next-index", 1, func(older, _ *hg.Event) int { return older.Index() + 1 }),
		fork("fork-index-after-head", 1, func(_, last *hg.Event) int { return last.Index() + 1 }),
		fork("fork-negative-index", 1, func(_, _ *hg.Event) int { return -5 }),
		fork("fork-deep-huge-index", 3, func(_, _ *hg.Event) int { return math.MaxInt32 }),
		// on the real head, wrong index
		onHead("head-skipped-index", func(last *hg.Event) int { return last.Index() + 7 }),
		onHead("head-same-index", func(last *hg.Event) int { return last.Index() }),
		onHead("head-negative-index", func(last *hg.Event) int { return -1 }),
		onHead("head-huge-index", func(last *hg.Event) int { return math.MaxInt64 }),
		{"second-first-event", func(w *world, t *hnode, who int) ([]hg.WireEvent, bool) {
			if len(w.ownEvents(t, who)) == 0 {
				return nil, false
			}
			oph, opc, opi, _ := op(w, t)
			we, ok := w.signedOn(t, who, "", -1, oph, opc, opi, 0)
			return []hg.WireEvent{we}, ok
		}},
		{"second-first-event-huge-index", func(w *world, t *hnode, who int) ([]hg.WireEvent, bool) {
			if len(w.ownEvents(t, who)) == 0 {
				return nil, false
			}
			we, ok := w.signedOn(t, who, "", -1, "", 0, -1, math.MaxInt64)
			return []hg.WireEvent{we}, ok
		}},
		{"duplicate-old", func(w *world, t *hnode, who int) ([]hg.WireEvent, bool) {
			evs := w.ownEvents(t, who)
			if len(evs) < 2 {
				return nil, false
			}
			return []hg.WireEvent{evs[len(evs)/2].ToWire()}, true
		}},
		{"duplicate-last", func(w *world, t *hnode, who int) ([]hg.WireEvent, bool) {
			evs := w.ownEvents(t, who)
			if len(evs) < 1 {
				return nil, false
			}
			return []hg.WireEvent{evs[len(evs)-1].ToWire()}, true
		}},
		{"duplicate-all", func(w *world, t *hnode, who int) ([]hg.WireEvent, bool) {
			evs := w.ownEvents(t, who)
			if len(evs) < 2 {
				return nil, false
			}
			l := []hg.WireEvent{}
			for _, e := range evs {
				l = append(l, e.ToWire())
			}
			return l, true
		}},
		{"unknown-other-parent", func(w *world, t *hnode, who int) ([]hg.WireEvent, bool) {
			evs := w.ownEvents(t, who)
			if len(evs) < 1 {
				return nil, false
			}
			last := evs[len(evs)-1]
			we, ok := w.signedOn(t, who, last.Hex(), last.Index(), "0XDEADBEEF", w.nodes[1].id, 1000000, last.Index()+1)
			return []hg.WireEvent{we}, ok
		}},
		{"unknown-other-parent-creator", func(w *world, t *hnode, who int) ([]hg.WireEvent, bool) {
			evs := w.ownEvents(t, who)
			if len(evs) < 1 {
				return nil, false
			}
			last := evs[len(evs)-1]
			we, ok := w.signedOn(t, who, last.Hex(), last.Index(), "0XDEADBEEF", 77, 0, last.Index()+1)
			return []hg.WireEvent{we}, ok
		}},
		{"unknown-self-parent", func(w *world, t *hnode, who int) ([]hg.WireEvent, bool) {
			evs := w.ownEvents(t, who)
			if len(evs) < 1 {
				return nil, false
			}
			last := evs[len(evs)-1]
			oph, opc, opi, _ := op(w, t)
			we, ok := w.signedOn(t, who, "0XDEADBEEF", last.Index()+500, oph, opc, opi, last.Index()+501)
			return []hg.WireEvent{we}, ok
		}},
		{"other-parent-is-own-old-event", func(w *world, t *hnode, who int) ([]hg.WireEvent, bool) {
			evs := w.ownEvents(t, who)
			if len(evs) < 2 {
				return nil, false
			}
			older, last := evs[0], evs[len(evs)-1]
			we, ok := w.signedOn(t, who, older.Hex(), older.Index(), last.Hex(), w.nodes[who].id, last.Index(), math.MaxInt64-1)
			return []hg.WireEvent{we}, ok
		}},
	}
	// a fork followed, in the same message, by the validator's last real event again
	l = append(l, chainShape{"fork-huge-index+duplicate-last", func(w *world, t *hnode, who int) ([]hg.WireEvent, bool) {
		a, ok1 := l[0].build(w, t, who)
		b, ok2 := l[13].build(w, t, who)
		return append(a, b...), ok1 && ok2
	}})
	return l
}

func (w *world) chainCases() []bcase {
	l := []bcase{}
	byz := nValidators - 1
	for _, sh := range w.chainShapes() {
		for _, via := range []string{"eager", "syncresp"} {
			for _, from := range []string{"self", "other"} {
				if from == "other" && via == "syncresp" {
					continue
				}
				sh, via, from := sh, via, from
				l = append(l, bcase{id: "byzchain/" + sh.name + "/" + via + "/from=" + from, kind: "byz-chain", states: []_state.State{_state.Babbling},
					poisons: true, deep: true,
					run: func(w *world, t *hnode) callRes {
						evs, ok := sh.build(w, t, byz)
						if !ok {
							return callRes{outcome: "skipped"}
						}
						fromID := w.nodes[byz].id
						if from == "other" {
							fromID = w.nodes[2].id
						}
						// the victim is under load: it has pending transactions (busy), as the probe's will be
						t.n.VerifAddTransaction(w.newTx())
						var r callRes
						var msg interface{}
						if via == "eager" {
							msg = &net.EagerSyncRequest{FromID: fromID, Events: evs}
							r = eager(fromID, evs)(w, t)
						} else {
							msg = &net.SyncResponse{FromID: fromID, Events: evs}
							r = syncResp(fromID, evs)(w, t)
						}
						b, _ := json.Marshal(msg)
						if len(b) > 700 {
							b = append(b[:700], []byte("...")...)
						}
						r.input = fmt.Sprintf("%s %s", via, b)
						return r
					}})
			}
		}
	}
	return l
}

// deepProbe: several rounds of honest traffic after the hostile message - the honest nodes gossip,
// the victim (with pending transactions) pulls from every one of them and is pushed to - and a
// second full liveness probe. Returns "" or what failed.
func (w *world) deepProbe(t *hnode) string {
	for round := 0; round < 2; round++ {
		w.honestSteps(4)
		t.n.VerifAddTransaction(w.newTx())
		for i := 1; i < nValidators; i++ {
			if r := w.pullRes(t, w.nodes[i]); r.outcome != "ok" {
				return fmt.Sprintf("round%d:pull-from-node%d:%s%s", round, i, r.outcome, siteSuffix(r))
			}
		}
		if p := w.serveProbe(t); p != "" {
			return fmt.Sprintf("round%d:%s", round, p)
		}
	}
	return ""
}
