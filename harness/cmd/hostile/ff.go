package main

import (
	"fmt"
	"math"
	"sort"

	hg "github.com/mosaicnetworks/babble/src/hashgraph"
	"github.com/mosaicnetworks/babble/src/net"
	_state "github.com/mosaicnetworks/babble/src/node/state"
	"github.com/mosaicnetworks/babble/src/peers"
)

// ffmut: a mutation of a valid fast-forward response. pre runs before the response is (optionally)
// re-sealed (frame hash, peers hash and block signatures recomputed with the validators' keys: what a
// Byzantine responder holding > 1/3 of the keys, or - see C14 - anybody, can do); post runs after.
type ffmut struct {
	name string
	pre  func(w *world, r *net.FastForwardResponse)
	post func(w *world, r *net.FastForwardResponse)
}

// honestFF: a valid response obtained from honest node 1 (nil when it has no anchor block yet).
func (w *world) honestFF() *net.FastForwardResponse {
	r := rpcCall(w.nodes[1].n, &net.FastForwardRequest{FromID: w.nodes[0].id})
	if r.outcome != "ok" {
		return nil
	}
	var cp net.FastForwardResponse
	if !viaJSON(r.resp, &cp) {
		return nil
	}
	if cp.Block.Index() <= 0 {
		return nil
	}
	return &cp
}

func (w *world) reseal(r *net.FastForwardResponse) (ok bool) {
	defer func() {
		if recover() != nil {
			ok = false
		}
	}()
	if !hasFFFD(&r.Frame) { // the harness itself must not call the looping encoder
		fh, err := r.Frame.Hash()
		if err != nil {
			return false
		}
		r.Block.Body.FrameHash = fh
	}
	ph, _ := peers.NewPeerSet(r.Frame.Peers).Hash()
	r.Block.Body.PeersHash = ph
	r.Block.Signatures = map[string]string{}
	for i := range w.privs {
		bs, err := r.Block.Sign(w.privs[i])
		if err != nil {
			return false
		}
		r.Block.SetSignature(bs)
	}
	return true
}

func firstRootKey(f *hg.Frame) string {
	ks := []string{}
	for k, r := range f.Roots {
		if r != nil && len(r.Events) > 0 {
			ks = append(ks, k)
		}
	}
	sort.Strings(ks)
	if len(ks) == 0 {
		return ""
	}
	return ks[0]
}

// frameEventTargets: where a hostile FrameEvent can sit: the first root, the frame's own events
func feTargets() []string { return []string{"root", "events"} }

func feSlot(r *net.FastForwardResponse, where string) *[]*hg.FrameEvent {
	if where == "root" {
		k := firstRootKey(&r.Frame)
		if k == "" {
			return nil
		}
		return &r.Frame.Roots[k].Events
	}
	if len(r.Frame.Events) == 0 {
		return nil
	}
	return &r.Frame.Events
}

func (w *world) ffMutations() []ffmut {
	l := []ffmut{{name: "valid"}}
	// --- block
	l = append(l, ffmut{name: "block.sigs=nil", post: func(w *world, r *net.FastForwardResponse) { r.Block.Signatures = nil }})
	l = append(l, ffmut{name: "block.sigs=empty", post: func(w *world, r *net.FastForwardResponse) { r.Block.Signatures = map[string]string{} }})
	for _, k := range w.g.hexStrings() {
		k := k
		l = append(l, ffmut{name: "block.sigs+key=" + k.name, post: func(w *world, r *net.FastForwardResponse) {
			if r.Block.Signatures == nil {
				r.Block.Signatures = map[string]string{}
			}
			r.Block.Signatures[k.s] = w.g.goodSig
		}})
	}
	for _, s := range w.g.sigStrings() {
		s := s
		l = append(l, ffmut{name: "block.sigs[v1]=" + s.name, post: func(w *world, r *net.FastForwardResponse) {
			if r.Block.Signatures == nil {
				r.Block.Signatures = map[string]string{}
			}
			r.Block.Signatures[w.peerl[1].PubKeyString()] = s.s
		}})
	}
	for _, v := range hostileInts {
		v := v
		l = append(l, ffmut{name: fmt.Sprintf("block.index=%d", v), pre: func(w *world, r *net.FastForwardResponse) { r.Block.Body.Index = v }})
		l = append(l, ffmut{name: fmt.Sprintf("block.rr=%d", v), pre: func(w *world, r *net.FastForwardResponse) { r.Block.Body.RoundReceived = v }})
		l = append(l, ffmut{name: fmt.Sprintf("frame.round=%d", v), pre: func(w *world, r *net.FastForwardResponse) { r.Frame.Round = v }})
	}
	l = append(l, ffmut{name: "block.peershash=nil", post: func(w *world, r *net.FastForwardResponse) { r.Block.Body.PeersHash = nil }})
	l = append(l, ffmut{name: "block.framehash=nil", post: func(w *world, r *net.FastForwardResponse) { r.Block.Body.FrameHash = nil }})
	l = append(l, ffmut{name: "snapshot=nil", post: func(w *world, r *net.FastForwardResponse) { r.Snapshot = nil }})
	l = append(l, ffmut{name: "snapshot=garbage", post: func(w *world, r *net.FastForwardResponse) { r.Snapshot = []byte("garbage") }})
	// --- frame.Peers / PeerSets
	l = append(l, ffmut{name: "frame.peers=nil", pre: func(w *world, r *net.FastForwardResponse) { r.Frame.Peers = nil }})
	l = append(l, ffmut{name: "frame.peers=empty", pre: func(w *world, r *net.FastForwardResponse) { r.Frame.Peers = []*peers.Peer{} }})
	l = append(l, ffmut{name: "frame.peers+nil", pre: func(w *world, r *net.FastForwardResponse) { r.Frame.Peers = append(r.Frame.Peers, nil) }})
	l = append(l, ffmut{name: "frame.peers[0]=nil", pre: func(w *world, r *net.FastForwardResponse) { r.Frame.Peers[0] = nil }})
	for _, k := range w.g.hexStrings() {
		k := k
		l = append(l, ffmut{name: "frame.peers+key=" + k.name, pre: func(w *world, r *net.FastForwardResponse) {
			r.Frame.Peers = append(r.Frame.Peers, peers.NewPeer(k.s, "x", "y"))
		}})
		l = append(l, ffmut{name: "frame.peersets+key=" + k.name, pre: func(w *world, r *net.FastForwardResponse) {
			for rd := range r.Frame.PeerSets {
				r.Frame.PeerSets[rd] = append(r.Frame.PeerSets[rd], peers.NewPeer(k.s, "x", "y"))
			}
		}})
	}
	l = append(l, ffmut{name: "frame.peersets=nil", pre: func(w *world, r *net.FastForwardResponse) { r.Frame.PeerSets = nil }})
	l = append(l, ffmut{name: "frame.peersets+nilpeer", pre: func(w *world, r *net.FastForwardResponse) {
		for rd := range r.Frame.PeerSets {
			r.Frame.PeerSets[rd] = append(r.Frame.PeerSets[rd], nil)
		}
	}})
	l = append(l, ffmut{name: "frame.peersets[maxint]", pre: func(w *world, r *net.FastForwardResponse) {
		if r.Frame.PeerSets != nil {
			r.Frame.PeerSets[math.MaxInt64] = r.Frame.Peers
			r.Frame.PeerSets[math.MinInt64] = nil
		}
	}})
	// --- roots
	l = append(l, ffmut{name: "frame.roots=nil", pre: func(w *world, r *net.FastForwardResponse) { r.Frame.Roots = nil }})
	l = append(l, ffmut{name: "frame.roots[k]=nil", pre: func(w *world, r *net.FastForwardResponse) {
		if k := firstRootKey(&r.Frame); k != "" {
			r.Frame.Roots[k] = nil
		}
	}})
	l = append(l, ffmut{name: "frame.roots+nil", pre: func(w *world, r *net.FastForwardResponse) {
		if r.Frame.Roots != nil {
			r.Frame.Roots["0XABCD"] = nil
		}
	}})
	l = append(l, ffmut{name: "frame.roots+unknown-key", pre: func(w *world, r *net.FastForwardResponse) {
		if k := firstRootKey(&r.Frame); k != "" {
			r.Frame.Roots[""] = r.Frame.Roots[k]
		}
	}})
	l = append(l, ffmut{name: "frame.events=nil", pre: func(w *world, r *net.FastForwardResponse) { r.Frame.Events = nil }})
	// --- frame events (in a root / in the frame)
	for _, where := range feTargets() {
		where := where
		fe := func(name string, f func(w *world, sl *[]*hg.FrameEvent)) {
			l = append(l, ffmut{name: where + "." + name, pre: func(w *world, r *net.FastForwardResponse) {
				if sl := feSlot(r, where); sl != nil {
					f(w, sl)
				}
			}})
		}
		fe("+nil", func(w *world, sl *[]*hg.FrameEvent) { *sl = append(*sl, nil) })
		fe("[0]=nil", func(w *world, sl *[]*hg.FrameEvent) { (*sl)[0] = nil })
		fe("[0].core=nil", func(w *world, sl *[]*hg.FrameEvent) { (*sl)[0].Core = nil })
		fe("+core=nil", func(w *world, sl *[]*hg.FrameEvent) {
			*sl = append(*sl, &hg.FrameEvent{LamportTimestamp: (*sl)[0].LamportTimestamp})
		})
		for n := 0; n <= 3; n++ {
			if n == 2 {
				continue
			}
			n := n
			fe(fmt.Sprintf("[0].parents=%d", n), func(w *world, sl *[]*hg.FrameEvent) {
				ps := make([]string, n)
				if n == 0 {
					ps = nil
				}
				(*sl)[0].Core.Body.Parents = ps
			})
		}
		for _, s := range w.g.sigStrings() {
			s := s
			fe("[0].sig="+s.name, func(w *world, sl *[]*hg.FrameEvent) { (*sl)[0].Core.Signature = s.s })
			// same Lamport timestamp as another event so that the comparator must break the tie
			fe("+dup-lamport.sig="+s.name, func(w *world, sl *[]*hg.FrameEvent) {
				c := *(*sl)[0].Core
				c.Signature = s.s
				c.Body.Index = 77
				*sl = append(*sl, &hg.FrameEvent{Core: &c, Round: (*sl)[0].Round, LamportTimestamp: (*sl)[0].LamportTimestamp, Witness: false})
			})
		}
		for _, k := range w.g.keyBytes() {
			k := k
			fe("[0].creator="+k.name, func(w *world, sl *[]*hg.FrameEvent) {
				(*sl)[0].Core.Body.Creator = []byte(k.s)
				if k.s == "" {
					(*sl)[0].Core.Body.Creator = nil
				}
			})
		}
		for _, v := range hostileInts {
			v := v
			fe(fmt.Sprintf("[0].index=%d", v), func(w *world, sl *[]*hg.FrameEvent) { (*sl)[0].Core.Body.Index = v })
			fe(fmt.Sprintf("[0].round=%d", v), func(w *world, sl *[]*hg.FrameEvent) { (*sl)[0].Round = v })
			fe(fmt.Sprintf("[0].lamport=%d", v), func(w *world, sl *[]*hg.FrameEvent) { (*sl)[0].LamportTimestamp = v })
		}
		fe("[0].itx=empty-key", func(w *world, sl *[]*hg.FrameEvent) {
			(*sl)[0].Core.Body.InternalTransactions = []hg.InternalTransaction{itxOf("", "!|!")}
		})
	}
	return l
}

func (w *world) ffCases() []bcase {
	l := []bcase{}
	for _, m := range w.ffMutations() {
		for _, sealed := range []bool{false, true} {
			m, sealed := m, sealed
			if m.name == "valid" && !sealed {
				continue
			}
			name := "ffresp/" + m.name
			if sealed {
				name += "/resealed"
			}
			l = append(l, bcase{id: name, kind: "ffresp", states: []_state.State{_state.CatchingUp}, resets: true,
				run: func(w *world, t *hnode) callRes {
					base := w.honestFF()
					if base == nil {
						return callRes{outcome: "skipped"}
					}
					mutOK := func(f func(w *world, r *net.FastForwardResponse)) (ok bool) {
						defer func() {
							if recover() != nil {
								ok = false
							}
						}()
						if f != nil {
							f(w, base)
						}
						return true
					}
					if !mutOK(m.pre) {
						return callRes{outcome: "skipped"}
					}
					if sealed && !w.reseal(base) {
						stats["b.ff.reseal-impossible"]++
					}
					if !mutOK(m.post) {
						return callRes{outcome: "skipped"}
					}
					var wire net.FastForwardResponse
					if !viaJSON(base, &wire) {
						return callRes{outcome: "unencodable"}
					}
					w.evilResp <- &wire
					return guardedGo(func() (interface{}, error) { return nil, t.n.VerifFastForward() })
				}})
		}
	}
	return l
}

// ffRetryProbe: after a rejected fast-forward response, a valid one must be accepted.
func (w *world) ffRetryProbe(t *hnode) string {
	base := w.honestFF()
	if base == nil {
		return ""
	}
	w.evilResp <- base
	t.n.VerifSetState(_state.CatchingUp)
	r := guardedGo(func() (interface{}, error) { return nil, t.n.VerifFastForward() })
	t.n.VerifSetState(_state.Babbling)
	if r.outcome != "ok" {
		return "ff-retry:" + r.outcome + siteSuffix(r)
	}
	return ""
}
