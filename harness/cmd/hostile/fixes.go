package main

import (
	"fmt"

	"github.com/mosaicnetworks/babble/src/common"
	"github.com/mosaicnetworks/babble/src/crypto/keys"
	hg "github.com/mosaicnetworks/babble/src/hashgraph"
	"github.com/mosaicnetworks/babble/src/net"
	"github.com/mosaicnetworks/babble/src/node"
	_state "github.com/mosaicnetworks/babble/src/node/state"
	"github.com/mosaicnetworks/babble/src/peers"
)

// detectFixes finds out which of the per-site repairs the tree under test contains, with ONE probe
// per site, and prints the configuration line `C8F ...` that selects the model variant: every
// other input of that site must then agree with the model under this configuration.
func detectFixes(g *grammar) {
	probe := func(f func() bool) int {
		ok := false
		func() {
			defer func() { recover() }()
			ok = f()
		}()
		return b2i(ok)
	}
	hexFix := probe(func() bool { _, err := common.DecodeFromString(""); return err != nil })
	sigFix := probe(func() bool { _, _, err := keys.DecodeSignature("!|!"); return err != nil })
	keyFix := probe(func() bool { return keys.ToPublicKey([]byte{4}) == nil && !keys.Verify(nil, g.msg, g.goodR, g.goodS) })
	parFix := probe(func() bool { return hg.NewEvent(nil, nil, nil, nil, g.pubBytes[0], 0).SelfParent() == "" })
	lessFix := probe(func() bool {
		mk := func(s string) *hg.FrameEvent {
			e := hg.NewEvent(nil, nil, nil, []string{"", ""}, g.pubBytes[0], 0)
			e.Signature = s
			return &hg.FrameEvent{Core: e, LamportTimestamp: 1}
		}
		hg.SortedFrameEvents{mk("!|!"), mk("1|1")}.Less(0, 1)
		return true
	})
	utf8Fix := probe(func() bool {
		itx := itxFull(g.pubHex[0], "addr", "evil\xef\xbf\xbd", "")
		itx.Sign(g.privs[0])
		ok, err := itx.Verify()
		return !ok && err != nil
	})
	sigpoolFix := probe(func() bool {
		store := hg.NewInmemStore(100)
		h := hg.NewHashgraph(store, nil, quietEntry())
		ps := []*peers.Peer{peers.NewPeer(g.pubHex[0], "", "")}
		h.Init(peers.NewPeerSet(ps))
		store.SetBlock(hg.NewBlock(0, 0, []byte("fh"), ps, nil, nil, 0))
		h.PendingSignatures.Add(hg.BlockSignature{Validator: g.pubBytes[0], Index: 0, Signature: "abc"})
		return h.ProcessSigPool() == nil && h.PendingSignatures.Len() == 0
	})
	// node-level sites need a (small) world
	w := newWorld(g, 1000)
	defer w.close()
	t := w.nodes[1]
	t.n.VerifAddTransaction([]byte("x"))
	t.n.VerifCore().AddSelfEvent("")
	limitFix := probe(func() bool {
		r := rpcCall(t.n, &net.SyncRequest{FromID: 1, Known: map[uint32]int{}, SyncLimit: -1})
		return r.outcome == "ok"
	})
	fresh := func() *node.VerifCore {
		return node.VerifNewCore(node.NewValidator(w.privs[0], "t"), w.peerSet(), w.peerSet(), hg.NewInmemStore(100), newApp().CommitBlock, false, quietEntry())
	}
	frameFix := probe(func() bool {
		blk := hg.NewBlock(1, 1, []byte("fh"), nil, nil, nil, 0)
		err := fresh().FastForward(blk, &hg.Frame{Peers: []*peers.Peer{nil}})
		return err != nil
	})
	// restore-before-check / rehearsal: a response that fails the signature check; one that fails in Reset
	restoreFix, rehearseFix := -1, -1
	for i := 0; i < 8 && restoreFix < 0; i++ {
		w.honestSteps(60)
		base := w.honestFF()
		if base == nil {
			continue
		}
		tgt := w.nodes[0]
		w.catchUp(tgt)
		bad := *base
		bad.Block.Signatures = map[string]string{}
		w.evilResp <- &bad
		tgt.n.VerifSetState(_state.CatchingUp)
		before := tgt.app.restores
		guardedGo(func() (interface{}, error) { return nil, tgt.n.VerifFastForward() })
		restoreFix = b2i(tgt.app.restores == before)
		// an extra frame event with an index far ahead: passes the checks when re-sealed, cannot be inserted
		var cp net.FastForwardResponse
		viaJSON(base, &cp)
		if len(cp.Frame.Events) > 0 && cp.Frame.Events[0] != nil && cp.Frame.Events[0].Core != nil {
			c := *cp.Frame.Events[0].Core
			c.Body.Index += 1000
			cp.Frame.Events = append(cp.Frame.Events, &hg.FrameEvent{Core: &c, Round: cp.Frame.Events[0].Round, LamportTimestamp: cp.Frame.Events[0].LamportTimestamp + 100000})
			if w.reseal(&cp) {
				nblocks := len(blocksOf(tgt.n))
				w.evilResp <- &cp
				tgt.n.VerifSetState(_state.CatchingUp)
				r := guardedGo(func() (interface{}, error) { return nil, tgt.n.VerifFastForward() })
				if r.outcome == "err" && nblocks > 0 {
					rehearseFix = b2i(len(blocksOf(tgt.n)) == nblocks)
				}
			}
		}
		tgt.n.VerifSetState(_state.Babbling)
	}
	fmt.Fprintf(out, "C8F hex=%d sig=%d key=%d parents=%d limit=%d less=%d frame=%d sigpool=%d utf8=%d restore=%d rehearse=%d\n",
		hexFix, sigFix, keyFix, parFix, limitFix, lessFix, frameFix, sigpoolFix, utf8Fix, restoreFix, rehearseFix)
	stats["fixes-detected"] = hexFix + sigFix + keyFix + parFix + limitFix + lessFix + frameFix + sigpoolFix + utf8Fix + b2i(restoreFix == 1) + b2i(rehearseFix == 1)
}

// frameHashCases: Frame.Hash() on a frame holding one peer with the given moniker (helper
// "framehash"). Run LAST: a case on which the encoder loops leaves a spinning goroutine behind.
func frameHashCases(g *grammar) {
	for _, tv := range textStrings() {
		if tv.name == "fffd-only" || tv.name == "fffd-mid" {
			if !thorough {
				continue
			}
		}
		pr := peers.NewPeer(g.pubHex[0], "addr", tv.s) // (NewPeer may normalise the text)
		f := &hg.Frame{Peers: []*peers.Peer{pr}}
		r := guardedGo(func() (interface{}, error) { return f.Hash() })
		res := "ok"
		switch r.outcome {
		case "hang":
			// internal helper (the entry points are the admission checks and core.fastForward):
			// compared with the model, not an oracle violation by itself
			res = "hang"
			hangsSeen++
		case "panic":
			res = "panic"
		case "err":
			res = "err"
		}
		fmt.Fprintf(out, "C8 framehash 3 %s %s %s => %s\n", enc(pr.PubKeyHex), enc(pr.NetAddr), enc(pr.Moniker), res)
		stats["a.cases"]++
		stats["a.framehash."+res]++
	}
}
