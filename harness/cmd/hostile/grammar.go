package main

import (
	"crypto/ecdsa"
	"crypto/sha256"
	"encoding/hex"
	"fmt"
	"math"
	"math/big"
	"strings"

	"github.com/mosaicnetworks/babble/src/crypto/keys"
)

// nv is a named value of the hostile grammar (the name is part of the stable case id).
type nv struct {
	name string
	s    string
}

type grammar struct {
	privs    []*ecdsa.PrivateKey
	pubBytes [][]byte
	pubHex   []string
	msg      []byte // the 32-byte digest signed by goodSig
	goodSig  string // privs[0] over msg
	goodR    *big.Int
	goodS    *big.Int
}

func newGrammar() *grammar {
	g := &grammar{}
	for i := 0; i < 3; i++ {
		k, _ := keys.GenerateECDSAKey()
		g.privs = append(g.privs, k)
		g.pubBytes = append(g.pubBytes, keys.FromPublicKey(&k.PublicKey))
		g.pubHex = append(g.pubHex, keys.PublicKeyHex(&k.PublicKey))
	}
	h := sha256.Sum256([]byte("hostile"))
	g.msg = h[:]
	r, s, _ := keys.Sign(g.privs[0], g.msg)
	g.goodR, g.goodS = r, s
	g.goodSig = keys.EncodeSignature(r, s)
	return g
}

func hugeLen() int {
	if thorough {
		return 20000
	}
	return 3000
}

// hexStrings: values for fields that the code treats as "0X"-prefixed hex (PubKeyHex, Block.Signatures keys).
func (g *grammar) hexStrings() []nv {
	good := g.pubHex[0]
	l := []nv{
		{"empty", ""},
		{"1char", "0"},
		{"1charX", "X"},
		{"prefix-only", "0X"},
		{"prefix-lower-only", "0x"},
		{"2char-noprefix", "ZZ"},
		{"odd", "0X0"},
		{"odd-long", good[:len(good)-1]},
		{"nonhex", "0XZZ"},
		{"nonhex-mid", good[:20] + "G" + good[21:]},
		{"short-valid-hex", "0X04"},
		{"space", "0X 4"},
		{"nul", "\x00"},
		{"nul3", "\x00\x00\x00"},
		{"utf8", "0X\xc3\xa9"},
		{"badutf8", "\xff\xfe"},
		{"good", good},
		{"good-lower", strings.ToLower(good)},
		{"good-lowerprefix", "0x" + good[2:]},
		{"good-otherprefix", "zz" + good[2:]},
		{"good-noprefix", good[2:]},
		{"good-plus-byte", good + "00"},
		{"good-minus-byte", good[:len(good)-2]},
		{"wrong-prefix-byte", "0X05" + good[4:]},
		{"compressed-prefix", "0X02" + good[4:68]},
		{"offcurve", "0X" + strings.ToUpper(hex.EncodeToString(offCurve(g.pubBytes[0])))},
		{"zero-point", "0X04" + strings.Repeat("00", 64)},
		{"ff-point", "0X04" + strings.Repeat("FF", 64)},
		{"other-good", g.pubHex[1]},
		{"huge-hex", "0X" + strings.Repeat("AB", hugeLen())},
		{"huge-nonhex", strings.Repeat("!", hugeLen())},
	}
	return l
}

func offCurve(pub []byte) []byte {
	b := append([]byte{}, pub...)
	b[len(b)-1] ^= 1
	return b
}

// keyBytes: values for fields holding raw public-key bytes (EventBody.Creator, BlockSignature.Validator).
func (g *grammar) keyBytes() []nv {
	good := g.pubBytes[0]
	p, _ := new(big.Int).SetString("fffffffffffffffffffffffffffffffffffffffffffffffffffffffefffffc2f", 16)
	xp := append([]byte{4}, p.Bytes()...) // x = P (not < P)
	xp = append(xp, good[33:]...)
	l := []nv{
		{"nil", ""},
		{"1byte", "\x04"},
		{"1byte-zero", "\x00"},
		{"short", string(good[:33])},
		{"64bytes", string(good[:64])},
		{"66bytes", string(good) + "\x00"},
		{"wrong-prefix", "\x05" + string(good[1:])},
		{"compressed-prefix", "\x02" + string(good[1:])},
		{"offcurve", string(offCurve(good))},
		{"zero-point", "\x04" + strings.Repeat("\x00", 64)},
		{"ff-point", "\x04" + strings.Repeat("\xff", 64)},
		{"x-equals-p", string(xp)},
		{"good", string(good)},
		{"other-good", string(g.pubBytes[1])},
		{"huge", strings.Repeat("\x04", hugeLen())},
	}
	return l
}

// sigStrings: values for signature fields ("<r base36>|<s base36>").
func (g *grammar) sigStrings() []nv {
	r, s := g.goodR, g.goodS
	n, _ := new(big.Int).SetString("fffffffffffffffffffffffffffffffebaaedce6af48a03bbfd25e8cd0364141", 16)
	r1 := new(big.Int).Add(r, big.NewInt(1))
	l := []nv{
		{"empty", ""},
		{"0fields", "abc"},
		{"bar", "|"},
		{"3fields", "a|b|c"},
		{"2bars", "||"},
		{"nonbase36", "!|!"},
		{"r-bad", "!|" + s.Text(36)},
		{"s-bad", r.Text(36) + "|!"},
		{"r-empty", "|" + s.Text(36)},
		{"s-empty", r.Text(36) + "|"},
		{"zero", "0|0"},
		{"r-zero", "0|" + s.Text(36)},
		{"r-zero-s-bad", "0|!"},
		{"s-zero", r.Text(36) + "|0"},
		{"r-neg", "-" + r.Text(36) + "|" + s.Text(36)},
		{"s-neg", r.Text(36) + "|-" + s.Text(36)},
		{"r-neg-s-bad", "-1|!"},
		{"neg-zero", "-0|-0"},
		{"plus", "+" + r.Text(36) + "|+" + s.Text(36)},
		{"sign-only", "-|+"},
		{"double-sign", "--1|1"},
		{"upper", strings.ToUpper(r.Text(36)) + "|" + strings.ToUpper(s.Text(36))},
		{"underscore", "1_0|1"},
		{"space-lead", " 1|1"},
		{"space-trail", "1|1 "},
		{"newline", "1\n|1"},
		{"utf8", "\xc3\xa9|1"},
		{"one", "1|1"},
		{"r-ge-n", n.Text(36) + "|" + s.Text(36)},
		{"s-ge-n", r.Text(36) + "|" + n.Text(36)},
		{"r-ge-n-s-bad", n.Text(36) + "|!"},
		{"good", g.goodSig},
		{"good-r-plus-1", r1.Text(36) + "|" + s.Text(36)},
		{"swapped", s.Text(36) + "|" + r.Text(36)},
		// (the model runner computes with unary-encoded binary integers: a few hundred digits are enough
		// to be far above the group order)
		{"huge", strings.Repeat("z", 400) + "|" + strings.Repeat("9", 400)},
		{"huge-bad", strings.Repeat("!", hugeLen())},
	}
	return l
}

func (g *grammar) ints() []nv {
	l := []nv{}
	for _, v := range []int{0, 1, -1, 2, -2, 7, 1000, math.MaxInt32, math.MinInt32, math.MaxInt64, math.MinInt64, math.MaxInt64 - 1, math.MinInt64 + 1} {
		l = append(l, nv{fmt.Sprint(v), fmt.Sprint(v)})
	}
	return l
}

// enc prints a byte string as one token.
func enc(s string) string { return "s:" + hex.EncodeToString([]byte(s)) }

func b2i(b bool) int {
	if b {
		return 1
	}
	return 0
}

func bigStr(x *big.Int) string {
	if x == nil {
		return "nil"
	}
	return x.Text(10)
}

// ---- the harness's own safe reference for "does this signature verify" (the external DATA of the model)

func refDecodeHex(s string) []byte {
	if len(s) < 2 {
		return nil
	}
	b, err := hex.DecodeString(s[2:])
	if err != nil {
		// hex.DecodeString returns the bytes decoded before the error
		return b
	}
	return b
}

func refPub(b []byte) *ecdsa.PublicKey {
	if len(b) == 0 {
		return nil
	}
	pk := keys.ToPublicKey(b)
	if pk == nil || pk.X == nil || pk.Y == nil {
		return nil
	}
	return pk
}

func refSig(sig string) (r, s *big.Int) {
	v := strings.Split(sig, "|")
	if len(v) != 2 {
		return nil, nil
	}
	r, _ = new(big.Int).SetString(v[0], 36)
	s, _ = new(big.Int).SetString(v[1], 36)
	return
}

// refVerify: true iff everything parses and the signature verifies (never panics).
func refVerify(pubBytes []byte, digest []byte, sig string) bool {
	pk := refPub(pubBytes)
	r, s := refSig(sig)
	if pk == nil || r == nil || s == nil || r.Sign() <= 0 || s.Sign() <= 0 {
		return false
	}
	return ecdsa.Verify(pk, digest, r, s)
}
