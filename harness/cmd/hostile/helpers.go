package main

import (
	"crypto/ecdsa"
	"encoding/hex"
	"fmt"
	"math/big"
	"sort"
	"strings"

	"github.com/mosaicnetworks/babble/src/common"
	"github.com/mosaicnetworks/babble/src/crypto/keys"
	hg "github.com/mosaicnetworks/babble/src/hashgraph"
	"github.com/mosaicnetworks/babble/src/peers"
)

// hcase prints one helper case (model input => observation) and raises the oracle violation
// when the helper panicked. Helpers are ENTRY points: functions that receive remote values as they
// are (a string / byte slice / integer of a message, or a whole decoded message).
func hcase(helper, id, input string, f func() string) string {
	res, site := guard(f)
	fmt.Fprintf(out, "C8 %s %s => %s\n", helper, input, res)
	stats["a.cases"]++
	stats["a."+helper+"."+strings.SplitN(res, " ", 2)[0]]++
	if site != "" {
		violation("panic:"+site, fmt.Sprintf("helper:%s case=%s", helper, id))
	}
	return res
}

// icase: an INTERNAL helper whose arguments are remote only through core.fastForward (null
// elements of a decoded Frame). It is compared with the model (which says Panic) but is not an
// oracle violation by itself: the entry point (helper ffcheck, and the node-level cases) is.
func icase(helper, id, input string, f func() string) string {
	res, _ := guard(f)
	fmt.Fprintf(out, "C8 %s %s => %s\n", helper, input, res)
	stats["a.cases"]++
	stats["a.internal."+helper+"."+strings.SplitN(res, " ", 2)[0]]++
	return res
}

func errClass(err error) string {
	if err != nil {
		return "err"
	}
	return "ok"
}

// ---- the helpers, one Go call each ----

func doDecode(s string) string {
	b, err := common.DecodeFromString(s)
	return errClass(err) + " " + enc(string(b))
}

func doSig(s string) string {
	r, sv, err := keys.DecodeSignature(s)
	if err != nil {
		return "err"
	}
	return "ok " + bigStr(r) + " " + bigStr(sv)
}

func pubClass(pk *ecdsa.PublicKey) string {
	if pk == nil {
		return "nil"
	}
	if pk.X == nil || pk.Y == nil {
		return "xynil"
	}
	return "point"
}

func doPubkey(b string) string {
	var arg []byte
	if b != "" {
		arg = []byte(b)
	}
	return pubClass(keys.ToPublicKey(arg))
}

func boolRes(ok bool, err error) string {
	if err != nil {
		return "err"
	}
	return fmt.Sprintf("ok %d", b2i(ok))
}

func itxOf(pubKeyHex, sig string) hg.InternalTransaction {
	return itxFull(pubKeyHex, "addr", "monika", sig)
}

func itxFull(pubKeyHex, netAddr, moniker, sig string) hg.InternalTransaction {
	itx := hg.NewInternalTransaction(hg.PEER_ADD, *peers.NewPeer(pubKeyHex, netAddr, moniker))
	itx.Signature = sig
	return itx
}

// itxTokens: the model input of one internal transaction
func itxTokens(it hg.InternalTransaction) string {
	p := it.Body.Peer
	return fmt.Sprintf("%s %s %s %s %d", enc(p.PubKeyHex), enc(p.NetAddr), enc(p.Moniker), enc(it.Signature),
		b2i(refVerify(refDecodeHex(p.PubKeyHex), itxDigest(it), it.Signature)))
}

func itxDigest(itx hg.InternalTransaction) []byte {
	h, _ := itx.Body.Hash()
	return h
}

// signedItx: an internal transaction for pubKeyHex signed with priv (so that it verifies when pubKeyHex decodes to priv's key)
func signedItx(pubKeyHex string, priv *ecdsa.PrivateKey) hg.InternalTransaction {
	itx := itxOf(pubKeyHex, "")
	itx.Sign(priv)
	return itx
}

func partA(g *grammar) {
	hexs, sigs, kbs, ints := g.hexStrings(), g.sigStrings(), g.keyBytes(), g.ints()

	// common.DecodeFromString
	for _, v := range hexs {
		s := v.s
		hcase("decode", v.name, enc(s), func() string { return doDecode(s) })
	}
	// keys.DecodeSignature
	for _, v := range sigs {
		s := v.s
		hcase("sig", v.name, enc(s), func() string { return doSig(s) })
	}
	// keys.ToPublicKey
	for _, v := range kbs {
		s := v.s
		hcase("pubkey", v.name, enc(s), func() string { return doPubkey(s) })
	}
	// keys.Verify over (key class) x (r, s) ; the boolean "verifies" is the harness's own safe reference
	for _, k := range kbs {
		for _, v := range sigs {
			r, s := refSig(v.s)
			var arg []byte
			if k.s != "" {
				arg = []byte(k.s)
			}
			pk := keys.ToPublicKey(arg)
			valid := refVerify(arg, g.msg, v.s)
			if len(strings.Split(v.s, "|")) != 2 {
				continue
			}
			hcase("verify", k.name+"/"+v.name, fmt.Sprintf("%s %s %s %d", pubClass(pk), bigStr(r), bigStr(s), b2i(valid)),
				func() string { return fmt.Sprintf("ok %d", b2i(keys.Verify(pk, g.msg, r, s))) })
		}
	}
	// InternalTransaction.Verify : (PubKeyHex string) x (signature string)
	for _, k := range hexs {
		for _, v := range sigs {
			itx := itxOf(k.s, v.s)
			hcase("itxverify", k.name+"/"+v.name, itxTokens(itx), func() string { return boolRes(itx.Verify()) })
		}
		// properly signed by key 0 over the body that carries this PubKeyHex
		itx := signedItx(k.s, g.privs[0])
		hcase("itxverify", k.name+"/signed", itxTokens(itx), func() string { return boolRes(itx.Verify()) })
	}
	// free text of the peer (NetAddr, Moniker): properly signed, so that only the text matters
	for _, tv := range textStrings() {
		for which := 0; which < 2; which++ {
			na, mo := "addr", tv.s
			if which == 1 {
				na, mo = tv.s, "m"
			}
			itx := itxFull(g.pubHex[0], na, mo, "")
			itx.Sign(g.privs[0])
			hcase("itxverify", fmt.Sprintf("text%d:%s", which, tv.name), itxTokens(itx), func() string { return boolRes(itx.Verify()) })
		}
	}
	// Block.Verify : (validator bytes) x (signature string)
	blk := hg.NewBlock(0, 1, []byte("framehash"), []*peers.Peer{}, [][]byte{[]byte("tx")}, nil, 0)
	bdig, _ := blk.Body.Hash()
	for _, k := range kbs {
		for _, v := range sigs {
			bs := hg.BlockSignature{Validator: []byte(k.s), Index: 0, Signature: v.s}
			valid := refVerify([]byte(k.s), bdig, v.s)
			hcase("blockverify", k.name+"/"+v.name, fmt.Sprintf("%s %s %d", enc(k.s), enc(v.s), b2i(valid)),
				func() string { return boolRes(blk.Verify(bs)) })
		}
	}
	{
		bs, _ := blk.Sign(g.privs[0])
		hcase("blockverify", "signed", fmt.Sprintf("%s %s %d", enc(string(bs.Validator)), enc(bs.Signature), 1),
			func() string { return boolRes(blk.Verify(bs)) })
	}
	// Event.Verify : internal transactions x creator bytes x signature string
	nEv := 0
	var evBsigs []hg.BlockSignature
	evCase := func(id string, itxs []hg.InternalTransaction, creator string, sig string, sign *ecdsa.PrivateKey) {
		ev := hg.NewEvent([][]byte{[]byte("tx")}, itxs, evBsigs, []string{"", ""}, []byte(creator), 0)
		if creator == "" {
			ev.Body.Creator = nil
		}
		ev.Signature = sig
		if sign != nil {
			ev.Sign(sign)
		}
		dig, _ := ev.Body.Hash()
		var sb strings.Builder
		fmt.Fprintf(&sb, "%d", len(itxs))
		for _, it := range itxs {
			sb.WriteString(" " + itxTokens(it))
		}
		fmt.Fprintf(&sb, " %d", len(ev.Body.BlockSignatures))
		for _, bs := range ev.Body.BlockSignatures {
			sb.WriteString(" " + enc(bs.Signature))
		}
		fmt.Fprintf(&sb, " %s %s %d", enc(string(ev.Body.Creator)), enc(ev.Signature), b2i(refVerify(ev.Body.Creator, dig, ev.Signature)))
		hcase("eventverify", id, sb.String(), func() string { return boolRes(ev.Verify()) })
		nEv++
	}
	goodItx := signedItx(g.pubHex[1], g.privs[1])
	for _, k := range kbs {
		for _, v := range sigs {
			evCase(k.name+"/"+v.name, nil, k.s, v.s, nil)
		}
		evCase(k.name+"/signed0", nil, k.s, "", g.privs[0])
		evCase(k.name+"/signed0+itx", []hg.InternalTransaction{goodItx}, k.s, "", g.privs[0])
	}
	for _, k := range hexs {
		for _, v := range []nv{sigs[5], sigs[1], sigs[31], sigs[10]} {
			// a well-signed event carrying a hostile internal transaction (first or after a good one)
			evCase("itx:"+k.name+"/"+v.name, []hg.InternalTransaction{itxOf(k.s, v.s)}, string(g.pubBytes[0]), "", g.privs[0])
			evCase("itx2:"+k.name+"/"+v.name, []hg.InternalTransaction{goodItx, itxOf(k.s, v.s)}, string(g.pubBytes[0]), "", g.privs[0])
		}
		evCase("itx-signed:"+k.name, []hg.InternalTransaction{signedItx(k.s, g.privs[0])}, string(g.pubBytes[0]), "", g.privs[0])
	}
	// a well-signed event carrying block signatures with hostile signature strings
	for _, v := range sigs {
		evBsigs = []hg.BlockSignature{{Validator: g.pubBytes[0], Index: 0, Signature: v.s}}
		evCase("bsig:"+v.name, nil, string(g.pubBytes[0]), "", g.privs[0])
	}
	for _, tv := range textStrings() {
		evBsigs = []hg.BlockSignature{{Validator: g.pubBytes[0], Index: 0, Signature: g.goodSig}, {Validator: g.pubBytes[0], Index: 1, Signature: tv.s}}
		evCase("bsig-text:"+tv.name, nil, string(g.pubBytes[0]), "", g.privs[0])
	}
	evBsigs = nil
	// Event.SelfParent / OtherParent
	for n := 0; n <= 3; n++ {
		for which := 0; which <= 1; which++ {
			ps := make([]string, n)
			if n == 0 && which == 0 {
				ps = nil
			}
			ev := hg.NewEvent(nil, nil, nil, ps, g.pubBytes[0], 0)
			w := which
			hcase("parent", fmt.Sprintf("%d/%d", which, n), fmt.Sprintf("%d %d", which, n), func() string {
				if w == 0 {
					ev.SelfParent()
				} else {
					ev.OtherParent()
				}
				return "ok"
			})
		}
	}
	// Peer.ID / PubKeyBytes ; NewPeerSet with nil elements and hostile keys
	for _, k := range hexs {
		p := peers.NewPeer(k.s, "", "")
		hcase("peerid", k.name, enc(k.s), func() string { p.ID(); return "ok " + enc(string(p.PubKeyBytes())) })
	}
	psCase := func(id string, l []*string) {
		ps := []*peers.Peer{}
		toks := []string{fmt.Sprint(len(l))}
		for _, s := range l {
			if s == nil {
				ps = append(ps, nil)
				toks = append(toks, "nil")
			} else {
				ps = append(ps, peers.NewPeer(*s, "", ""))
				toks = append(toks, enc(*s))
			}
		}
		run := hcase
		for _, x := range l {
			if x == nil {
				run = icase // a null Peer is remote only through a decoded Frame: entry = ffcheck
			}
		}
		run("newpeerset", id, strings.Join(toks, " "), func() string {
			s := peers.NewPeerSet(ps)
			s.Hash()
			return fmt.Sprintf("ok %d", len(s.Peers))
		})
	}
	good0, good1 := g.pubHex[0], g.pubHex[1]
	psCase("nil-slice", nil)
	psCase("one-nil", []*string{nil})
	psCase("good-nil", []*string{&good0, nil})
	psCase("nil-good", []*string{nil, &good0})
	psCase("good-good", []*string{&good0, &good1})
	psCase("dup", []*string{&good0, &good0})
	for _, k := range hexs {
		s := k.s
		psCase("good+"+k.name, []*string{&good0, &s})
		psCase(k.name+"+good", []*string{&s, &good1})
	}
	// Block.GetSignatures over hostile map keys ; SetSignature on a nil map
	gsCase := func(id string, keysl []string) {
		b := hg.NewBlock(0, 1, []byte("fh"), []*peers.Peer{}, nil, nil, 0)
		sort.Strings(keysl)
		toks := []string{}
		for _, k := range keysl {
			b.Signatures[k] = g.goodSig
		}
		ks := []string{}
		for k := range b.Signatures {
			ks = append(ks, k)
		}
		sort.Strings(ks)
		for _, k := range ks {
			toks = append(toks, enc(k))
		}
		hcase("getsigs", id, fmt.Sprintf("%d %s", len(ks), strings.Join(toks, " ")), func() string {
			return fmt.Sprintf("ok %d", len(b.GetSignatures()))
		})
	}
	gsCase("none", nil)
	for _, k := range hexs {
		gsCase(k.name, []string{k.s})
		gsCase("good+"+k.name, []string{good1, k.s})
	}
	for _, nilmap := range []bool{false, true} {
		b := hg.NewBlock(0, 1, []byte("fh"), []*peers.Peer{}, nil, nil, 0)
		if nilmap {
			b.Signatures = nil
		}
		bs, _ := b.Sign(g.privs[0])
		icase("setsig", fmt.Sprint(nilmap), fmt.Sprint(b2i(nilmap)), func() string { b.SetSignature(bs); return fmt.Sprintf("ok %d", len(b.Signatures)) })
	}
	// SortedFrameEvents.Less over (lamport, nil-class, signature) pairs
	mkFE := func(lt int, cls int, sig string) *hg.FrameEvent {
		switch cls {
		case 1:
			return nil
		case 2:
			return &hg.FrameEvent{LamportTimestamp: lt}
		}
		ev := hg.NewEvent(nil, nil, nil, []string{"", ""}, g.pubBytes[0], 0)
		ev.Signature = sig
		return &hg.FrameEvent{Core: ev, LamportTimestamp: lt}
	}
	lessSigs := []nv{}
	for _, v := range sigs {
		switch v.name {
		case "empty", "bar", "3fields", "nonbase36", "r-bad", "s-bad", "zero", "r-neg", "one", "good", "swapped", "upper", "huge":
			lessSigs = append(lessSigs, v)
		}
	}
	for _, a := range lessSigs {
		for _, b := range lessSigs {
			for _, lts := range [][2]int{{1, 1}, {1, 2}, {2, 1}} {
				l := hg.SortedFrameEvents{mkFE(lts[0], 0, a.s), mkFE(lts[1], 0, b.s)}
				hcase("less", fmt.Sprintf("%s/%s/%d,%d", a.name, b.name, lts[0], lts[1]),
					fmt.Sprintf("%d 0 %s %d 0 %s", lts[0], enc(a.s), lts[1], enc(b.s)),
					func() string { return fmt.Sprintf("ok %d", b2i(l.Less(0, 1))) })
			}
		}
	}
	for _, ca := range []int{0, 1, 2} {
		for _, cb := range []int{0, 1, 2} {
			if ca == 0 && cb == 0 {
				continue
			}
			for _, lts := range [][2]int{{1, 1}, {1, 2}} {
				l := hg.SortedFrameEvents{mkFE(lts[0], ca, g.goodSig), mkFE(lts[1], cb, "1|1")}
				icase("less", fmt.Sprintf("cls%d/cls%d/%d,%d", ca, cb, lts[0], lts[1]),
					fmt.Sprintf("%d %d %s %d %d %s", lts[0], ca, enc(g.goodSig), lts[1], cb, enc("1|1")),
					func() string { return fmt.Sprintf("ok %d", b2i(l.Less(0, 1))) })
			}
		}
	}
	// Frame.SortedFrameEvents : nil roots
	for _, shape := range []string{"no-roots", "nil-map", "one-root", "nil-root", "good+nil-root", "root-nil-events", "two-roots"} {
		f := &hg.Frame{Roots: map[string]*hg.Root{}}
		switch shape {
		case "nil-map":
			f.Roots = nil
		case "one-root":
			f.Roots["a"] = &hg.Root{Events: []*hg.FrameEvent{mkFE(1, 0, g.goodSig)}}
		case "nil-root":
			f.Roots["a"] = nil
		case "good+nil-root":
			f.Roots["a"] = &hg.Root{Events: []*hg.FrameEvent{mkFE(1, 0, g.goodSig)}}
			f.Roots["b"] = nil
		case "root-nil-events":
			f.Roots["a"] = &hg.Root{}
		case "two-roots":
			f.Roots["a"] = &hg.Root{Events: []*hg.FrameEvent{mkFE(1, 0, g.goodSig), mkFE(2, 0, "1|1")}}
			f.Roots["b"] = &hg.Root{Events: []*hg.FrameEvent{mkFE(3, 0, "2|1")}}
		}
		ks := []string{}
		for k := range f.Roots {
			ks = append(ks, k)
		}
		sort.Strings(ks)
		toks := []string{fmt.Sprint(len(ks))}
		for _, k := range ks {
			if f.Roots[k] == nil {
				toks = append(toks, "nil")
			} else {
				toks = append(toks, fmt.Sprint(len(f.Roots[k].Events)))
			}
		}
		icase("frameroots", shape, strings.Join(toks, " "), func() string {
			return fmt.Sprintf("ok %d", len(f.SortedFrameEvents()))
		})
	}
	_ = ints
	_ = hex.EncodeToString
	_ = big.NewInt
	stats["a.eventverify.cases"] = nEv
	partASigPool(g)
	partAFastForward(g)
}

// textStrings: free-text values (monikers, addresses, signature strings seen as text)
func textStrings() []nv {
	return []nv{
		{"plain", "plain"},
		{"empty", ""},
		{"fffd", "evil\xef\xbf\xbd"},
		{"fffd-only", "\xef\xbf\xbd"},
		{"fffd-mid", "a\xef\xbf\xbdb"},
		{"bad-utf8", "a\xffb"},
		{"truncated-rune", "a\xef\xbf"},
		{"other-3byte", "\xef\xbf\xbc"},
		{"2028", "\xe2\x80\xa8"},
		{"quotes", "\"\\<>&\n"},
		{"nul", "\x00"},
		{"4byte", "\xf0\x9f\x98\x80"},
	}
}
