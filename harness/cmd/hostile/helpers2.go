package main

import (
	"bytes"
	"crypto/sha256"
	"encoding/json"
	"fmt"
	"sort"
	"strings"

	hg "github.com/mosaicnetworks/babble/src/hashgraph"
	"github.com/mosaicnetworks/babble/src/net"
	"github.com/mosaicnetworks/babble/src/node"
	"github.com/mosaicnetworks/babble/src/peers"
)

// ---------------------------------------------------------------------------------------------
// Hashgraph.ProcessSigPool on a bare hashgraph holding exactly the given pending signatures.
// Model input per entry: <block known> <validator in the block's peer-set> <validator bytes>
// <signature string> <verifies>.  Observation: outcome and number of entries left in the pool.
// The pool is a Go map: the iteration order is not determined, the runner accepts the outcome of
// any permutation.
// ---------------------------------------------------------------------------------------------

type poolEntry struct {
	index     int
	validator []byte
	sig       string
}

func sigPoolCase(g *grammar, id string, entries []poolEntry) {
	store := hg.NewInmemStore(100)
	h := hg.NewHashgraph(store, nil, quietEntry())
	ps := []*peers.Peer{}
	for i := 0; i < 2; i++ { // keys 0 and 1 are validators, key 2 is not
		ps = append(ps, peers.NewPeer(g.pubHex[i], "", ""))
	}
	h.Init(peers.NewPeerSet(ps))
	blk := hg.NewBlock(0, 0, []byte("fh"), ps, [][]byte{[]byte("tx")}, nil, 0)
	store.SetBlock(blk)
	dig, _ := blk.Body.Hash()
	toks := []string{fmt.Sprint(len(entries))}
	for _, e := range entries {
		bs := hg.BlockSignature{Validator: e.validator, Index: e.index, Signature: e.sig}
		h.PendingSignatures.Add(bs)
		member := false
		for _, p := range ps {
			if p.PubKeyString() == bs.ValidatorHex() {
				member = true
			}
		}
		toks = append(toks, fmt.Sprintf("%d %d %s %s %d", b2i(e.index == 0), b2i(member), enc(string(e.validator)), enc(e.sig), b2i(refVerify(e.validator, dig, e.sig))))
	}
	hcase("sigpool", id, strings.Join(toks, " "), func() string {
		err := h.ProcessSigPool()
		return fmt.Sprintf("%s %d", errClass(err), h.PendingSignatures.Len())
	})
}

func partASigPool(g *grammar) {
	blk := hg.NewBlock(0, 0, []byte("fh"), []*peers.Peer{peers.NewPeer(g.pubHex[0], "", ""), peers.NewPeer(g.pubHex[1], "", "")}, [][]byte{[]byte("tx")}, nil, 0)
	good0, _ := blk.Sign(g.privs[0])
	good1, _ := blk.Sign(g.privs[1])
	good2, _ := blk.Sign(g.privs[2])
	sigPoolCase(g, "empty", nil)
	sigPoolCase(g, "good", []poolEntry{{0, g.pubBytes[0], good0.Signature}})
	sigPoolCase(g, "good-good", []poolEntry{{0, g.pubBytes[0], good0.Signature}, {0, g.pubBytes[1], good1.Signature}})
	sigPoolCase(g, "non-member", []poolEntry{{0, g.pubBytes[2], good2.Signature}})
	sigPoolCase(g, "unknown-block", []poolEntry{{7, g.pubBytes[0], good0.Signature}, {-1, g.pubBytes[1], "!|!"}})
	for _, v := range g.sigStrings() {
		sigPoolCase(g, "hostile:"+v.name, []poolEntry{{0, g.pubBytes[0], v.s}})
		sigPoolCase(g, "hostile+good:"+v.name, []poolEntry{{0, g.pubBytes[0], v.s}, {0, g.pubBytes[1], good1.Signature}})
		sigPoolCase(g, "non-member-hostile:"+v.name, []poolEntry{{0, g.pubBytes[2], v.s}})
	}
	sigPoolCase(g, "malformed+panicking", []poolEntry{{0, g.pubBytes[0], "abc"}, {0, g.pubBytes[1], "!|!"}})
	sigPoolCase(g, "malformed+malformed+good", []poolEntry{{0, g.pubBytes[0], "abc"}, {0, g.pubBytes[1], "a|b|c"}, {1, g.pubBytes[1], good1.Signature}})
}

// ---------------------------------------------------------------------------------------------
// core.fastForward(block, frame) called directly on a fresh core (helper "ffcheck"): the entry point
// through which null elements / hostile strings of a decoded FastForwardResponse reach NewPeerSet,
// CheckBlock, Frame.Hash, Hashgraph.Reset.
// ---------------------------------------------------------------------------------------------

func feTok(fe *hg.FrameEvent) string {
	if fe == nil {
		return "n"
	}
	if fe.Core == nil {
		return "c"
	}
	return fmt.Sprintf("e%d", len(fe.Core.Body.Parents))
}

func peerTok(p *peers.Peer) string {
	if p == nil {
		return "nil"
	}
	return enc(p.PubKeyHex)
}

// hasFFFD: the harness's own scan (standard encoder, which cannot loop) for the replacement character
func hasFFFD(f *hg.Frame) bool {
	b, err := json.Marshal(f)
	if err != nil {
		return false
	}
	return bytes.Contains(b, []byte("\xef\xbf\xbd")) || bytes.Contains(b, []byte("\\ufffd"))
}

func ffcheckInput(w *world, r *net.FastForwardResponse) string {
	var sb strings.Builder
	f := &r.Frame
	fmt.Fprintf(&sb, "P %d", len(f.Peers))
	upper := map[string]bool{}
	known := map[string]bool{} // the validators the checking node already knows (CheckBlockWithTrusted)
	for _, p := range w.peerl {
		known[p.PubKeyString()] = true
	}
	hash := []byte{}
	hashable := true
	for _, p := range f.Peers {
		sb.WriteString(" " + peerTok(p))
		if p != nil {
			upper[strings.ToUpper(p.PubKeyHex)] = true
			h := sha256.New()
			h.Write(hash)
			h.Write(refDecodeHex(p.PubKeyHex))
			hash = h.Sum(nil)
		} else {
			hashable = false
		}
	}
	ks := []string{}
	for k := range r.Block.Signatures {
		ks = append(ks, k)
	}
	sort.Strings(ks)
	dig, _ := r.Block.Body.Hash()
	fmt.Fprintf(&sb, " S %d", len(ks))
	for _, k := range ks {
		val := refDecodeHex(k)
		vhex := fmt.Sprintf("0X%X", val)
		sig := r.Block.Signatures[k]
		fmt.Fprintf(&sb, " %s %d %s %d", enc(k), b2i(upper[vhex] && known[vhex]), enc(sig), b2i(refVerify(val, dig, sig)))
	}
	trust := 0
	if len(f.Peers) > 1 {
		trust = (len(upper) + 2) / 3
	}
	u := hasFFFD(f)
	fh := false
	if !u {
		g := guardedGo(func() (interface{}, error) { h, err := f.Hash(); return h, err })
		if g.outcome == "ok" {
			fh = bytes.Equal(g.resp.([]byte), r.Block.FrameHash())
		}
	}
	fmt.Fprintf(&sb, " T %d PH %d FH %d U %d", trust, b2i(hashable && bytes.Equal(hash, r.Block.PeersHash())), b2i(fh), b2i(u))
	rk := []string{}
	for k := range f.Roots {
		rk = append(rk, k)
	}
	sort.Strings(rk)
	fmt.Fprintf(&sb, " R %d", len(rk))
	for _, k := range rk {
		rt := f.Roots[k]
		if rt == nil {
			sb.WriteString(" nil")
			continue
		}
		fmt.Fprintf(&sb, " %d", len(rt.Events))
		for _, fe := range rt.Events {
			sb.WriteString(" " + feTok(fe))
		}
	}
	fmt.Fprintf(&sb, " E %d", len(f.Events))
	for _, fe := range f.Events {
		sb.WriteString(" " + feTok(fe))
	}
	rs := []int{}
	for rd := range f.PeerSets {
		rs = append(rs, rd)
	}
	sort.Ints(rs)
	fmt.Fprintf(&sb, " PS %d", len(rs))
	for _, rd := range rs {
		fmt.Fprintf(&sb, " %d", len(f.PeerSets[rd]))
		for _, p := range f.PeerSets[rd] {
			sb.WriteString(" " + peerTok(p))
		}
	}
	return sb.String()
}

func ffClass(r callRes) string {
	switch r.outcome {
	case "panic", "hang":
		return r.outcome
	case "err":
		s := r.err.Error()
		for _, m := range []string{"Wrong PeerSet", "Not enough valid signatures", "Invalid Frame Hash", "Frame.", "Frame contains", "null FrameEvent", "FrameEvent with"} {
			if strings.Contains(s, m) {
				return "err"
			}
		}
		return "pass" // rejected later, inside Hashgraph.Reset (outside the model)
	}
	return "pass"
}

func partAFastForward(g *grammar) {
	w := newWorld(g, 1000)
	defer w.close()
	var base *net.FastForwardResponse
	for i := 0; i < 8 && base == nil; i++ {
		w.honestSteps(60)
		base = w.honestFF()
	}
	if base == nil {
		stats["a.ffcheck.skipped-no-anchor"]++
		return
	}
	fresh := func() *node.VerifCore {
		app := newApp()
		return node.VerifNewCore(node.NewValidator(w.privs[0], "t"), w.peerSet(), w.peerSet(), hg.NewInmemStore(1000), app.CommitBlock, false, quietEntry())
	}
	want := func(name string) bool {
		for _, p := range []string{"valid", "block.sigs", "frame.peers", "frame.roots", "root.+nil", "root.[0]=nil", "root.[0].core", "root.+core", "root.[0].parents",
			"events.+nil", "events.[0]=nil", "events.[0].core", "events.+core", "events.[0].parents", "block.peershash", "block.framehash", "frame.events=nil",
			"root.[0].itx"} { // (signature ties inside sort.Sort are not predictable: helper `less` and part b cover them)
			if strings.HasPrefix(name, p) {
				return true
			}
		}
		return false
	}
	muts := []ffmut{}
	for _, m := range w.ffMutations() {
		if want(m.name) {
			muts = append(muts, m)
		}
	}
	// free text inside the frame (last: the ones that make the encoder loop leave a spinning goroutine behind)
	for _, tv := range textStrings() {
		tv := tv
		if !thorough && !(tv.name == "plain" || tv.name == "fffd" || tv.name == "other-3byte" || tv.name == "bad-utf8") {
			continue
		}
		muts = append(muts, ffmut{name: "text.peer-moniker=" + tv.name, pre: func(w *world, r *net.FastForwardResponse) { r.Frame.Peers[1].Moniker = tv.s }})
		if thorough || tv.name == "fffd" {
			muts = append(muts, ffmut{name: "text.event-bsig=" + tv.name, pre: func(w *world, r *net.FastForwardResponse) {
				if sl := feSlot(r, "root"); sl != nil {
					(*sl)[0].Core.Body.BlockSignatures = append((*sl)[0].Core.Body.BlockSignatures, hg.BlockSignature{Signature: tv.s})
				}
			}})
		}
	}
	for _, m := range muts {
		for _, sealed := range []bool{false, true} {
			if m.name == "valid" && !sealed {
				continue
			}
			var cp net.FastForwardResponse
			if !viaJSON(base, &cp) {
				continue
			}
			ok := func() (ok bool) {
				defer func() {
					if recover() != nil {
						ok = false
					}
				}()
				if m.pre != nil {
					m.pre(w, &cp)
				}
				if sealed {
					w.reseal(&cp)
				}
				if m.post != nil {
					m.post(w, &cp)
				}
				return true
			}()
			if !ok {
				continue
			}
			var wire net.FastForwardResponse
			if !viaJSON(&cp, &wire) {
				continue
			}
			name := m.name
			if sealed {
				name += "/resealed"
			}
			if hangsSeen >= hangBudget() && hasFFFD(&wire.Frame) {
				stats["a.ffcheck.skipped-hang-budget"]++
				continue
			}
			in := ffcheckInput(w, &wire)
			c := fresh()
			r := guardedGo(func() (interface{}, error) { return nil, c.FastForward(&wire.Block, &wire.Frame) })
			res := ffClass(r)
			fmt.Fprintf(out, "C8 ffcheck %s => %s\n", in, res)
			stats["a.cases"]++
			stats["a.ffcheck."+res]++
			switch r.outcome {
			case "panic":
				violation("panic:"+r.site, "helper:ffcheck case="+name)
			case "hang":
				hangsSeen++
				violation("hang:"+hangSite(), "helper:ffcheck case="+name)
			}
		}
	}
}
