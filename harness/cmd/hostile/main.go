// Command hostile (property C08): hostile network input against the real validation layer.
//
//	part a  every validation helper called directly, under recover(), over a hostile value grammar
//	        (one `H <helper> <inputs> => <outcome>` line per case: replayed on the Coq model Hostile.v)
//	part b  real node.Node objects (in-memory transport, verif hooks) in every node state, fed
//	        structurally valid RPC messages / responses whose fields come from the grammar
//	        (`N <case-id> ... => <outcome> blocks=.. after=..` lines; oracle only, plus `H` lines for
//	        the handlers that have a model)
//	part c  a real TCP NetworkTransport on an ephemeral port fed raw byte strings (`T` lines; exploration)
//
// `V C08 <class> <detail>` lines are oracle violations: class panic:<function> / hang:<where> /
// blocks-changed / node-wedged.  `Z` lines are statistics.  `F` is the detected repair configuration
// of the tree under test (which of the per-site fixes are present), consumed by the model runner.
package main

import (
	"bufio"
	"flag"
	"fmt"
	"math/rand"
	"os"
	"runtime"
	"sort"
	"strings"
)

var (
	out   *bufio.Writer
	rng   *rand.Rand
	stats = map[string]int{}
	// violations already printed (class -> count); every class is printed at most maxPerClass times
	vcount      = map[string]int{}
	maxPerClass = 3
	thorough    bool
	onlyCase    string
	seedFlag    int64
	hangsSeen   int
)

// violation prints `V C08 <class> <detail>`; the first word of detail is the sub-key (site / cause)
// used, with the class, to match the list of known findings.
func violation(class, detail string) {
	key := class + " " + strings.SplitN(detail, " ", 2)[0]
	vcount[key]++
	if vcount[key] <= maxPerClass {
		fmt.Fprintf(out, "V C08 %s %s\n", class, detail)
	}
}

// panicSite returns the innermost function of the babble source tree on the panicking stack.
func panicSite() string {
	pcs := make([]uintptr, 64)
	n := runtime.Callers(3, pcs)
	frames := runtime.CallersFrames(pcs[:n])
	first := ""
	for {
		f, more := frames.Next()
		fn := f.Function
		if strings.Contains(fn, "mosaicnetworks/babble/src/") {
			i := strings.Index(fn, "babble/src/")
			return fn[i+len("babble/src/"):]
		}
		if first == "" && !strings.HasPrefix(fn, "runtime.") {
			first = fn
		}
		if !more {
			break
		}
	}
	if first == "" {
		first = "unknown"
	}
	return first
}

// guard runs f under recover and returns (its result, panic site or "").
func guard(f func() string) (res string, site string) {
	defer func() {
		if r := recover(); r != nil {
			site = panicSite()
			res = "panic"
		}
	}()
	return f(), ""
}

// every hang leaves a goroutine spinning in the encoder for the rest of the run
func hangBudget() int {
	if thorough {
		return 5
	}
	return 2
}

func main() {
	seed := flag.Int64("seed", 1, "seed of every random choice")
	th := flag.Bool("thorough", false, "thorough tier")
	part := flag.String("part", "abc", "parts to run")
	nB := flag.Int("cases", 0, "number of node-level cases (0 = tier default)")
	flag.StringVar(&onlyCase, "only", "", "part b: run only the cases whose id contains this string (debugging / replay)")
	child := flag.Bool("tcpchild", false, "internal: run part c in this process")
	flag.Parse()
	thorough = *th
	seedFlag = *seed
	out = bufio.NewWriterSize(os.Stdout, 1<<20)
	defer out.Flush()
	rng = rand.New(rand.NewSource(*seed))

	g := newGrammar()
	if *child {
		tcpChild(g)
		printStats()
		return
	}
	detectFixes(g)
	if strings.Contains(*part, "a") {
		partA(g)
	}
	if strings.Contains(*part, "b") {
		n := *nB
		if n == 0 {
			n = 260
			if thorough {
				n = 1200
			}
		}
		partB(g, n)
	}
	if strings.Contains(*part, "c") {
		partC(g)
	}
	if strings.Contains(*part, "a") {
		frameHashCases(g)
	}
	printStats()
}

func printStats() {
	keys := []string{}
	for k := range stats {
		keys = append(keys, k)
	}
	sort.Strings(keys)
	for _, k := range keys {
		fmt.Fprintf(out, "Z %s %d\n", k, stats[k])
	}
	vk := []string{}
	for k := range vcount {
		vk = append(vk, k)
	}
	sort.Strings(vk)
	for _, k := range vk {
		fmt.Fprintf(out, "Z violations[%s] %d\n", k, vcount[k])
	}
}
