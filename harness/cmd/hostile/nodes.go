package main

import (
	"encoding/json"
	"fmt"
	"math"
	"os"
	"runtime/pprof"
	"sort"
	"strings"

	"github.com/mosaicnetworks/babble/src/crypto/keys"
	hg "github.com/mosaicnetworks/babble/src/hashgraph"
	"github.com/mosaicnetworks/babble/src/net"
	_state "github.com/mosaicnetworks/babble/src/node/state"
	"github.com/mosaicnetworks/babble/src/peers"
)

// bcase is one node-level hostile case: a message (or response) delivered to the target.
type bcase struct {
	id      string
	kind    string
	states  []_state.State // states in which the case is meaningful (one is drawn)
	run     func(w *world, t *hnode) callRes
	poisons bool                                             // may leave a validly signed hostile event in the target: target is rebuilt afterwards
	resets  bool                                             // fast-forward: an accepted response legitimately replaces the store
	hline   func(w *world, t *hnode, st _state.State) string // model input (computed BEFORE the delivery), "" if none
	hres    func(r callRes) string                           // observation for the model line
	input   func(w *world, t *hnode) string                  // the hostile message as JSON (for the violation report), may be nil
	deep    bool                                             // followed by several rounds of honest traffic and a second probe (damage that shows on the NEXT messages)
}

var allStates = []_state.State{_state.Babbling, _state.CatchingUp, _state.Joining, _state.Suspended, _state.Shutdown, _state.Leaving}
var babbling = []_state.State{_state.Babbling}

func stateName(s _state.State) string { return s.String() }

var hostileInts = []int{0, 1, -1, 2, -2, 7, 1000, math.MaxInt32, math.MinInt32, math.MaxInt64, math.MinInt64, math.MaxInt64 - 1, math.MinInt64 + 1}

// ---- builders of valid base objects ----

// freshHonest: node 1 creates one new event; returns the wire events the target lacks.
func (w *world) freshHonest(t *hnode) []hg.WireEvent {
	h := w.nodes[1]
	h.n.VerifAddTransaction(w.newTx())
	h.n.VerifCore().AddSelfEvent("")
	diff, err := h.n.VerifCore().EventDiff(t.n.VerifCore().KnownEvents())
	if err != nil {
		return nil
	}
	wevs, _ := h.n.VerifCore().ToWire(diff)
	return wevs
}

// byzEvent: an event validly signed by validator `who` (the harness holds its key) on top of what
// the target knows, carrying the given payload.
func (w *world) byzEvent(t *hnode, who int, itxs []hg.InternalTransaction, bsigs []hg.BlockSignature, ts *int64) (hg.WireEvent, bool) {
	store := t.n.VerifCore().Hg().Store
	pub := w.peerl[who].PubKeyString()
	sp, _ := store.LastEventFrom(pub)
	idx := 0
	if sp != "" {
		e, err := store.GetEvent(sp)
		if err != nil {
			return hg.WireEvent{}, false
		}
		idx = e.Index() + 1
	}
	op, _ := store.LastEventFrom(w.peerl[1].PubKeyString())
	creator := w.g0PubBytes(who)
	for i := range bsigs {
		bsigs[i].Validator = creator
	}
	ev := hg.NewEvent([][]byte{w.newTx()}, itxs, bsigs, []string{sp, op}, creator, idx)
	if ts != nil {
		ev.Body.Timestamp = *ts
	}
	if err := ev.Sign(w.privs[who]); err != nil {
		return hg.WireEvent{}, false
	}
	if err := t.n.VerifCore().Hg().SetWireInfo(ev); err != nil {
		return hg.WireEvent{}, false
	}
	return ev.ToWire(), true
}

func (w *world) g0PubBytes(who int) []byte {
	return peers.NewPeer(w.peerl[who].PubKeyHex, "", "").PubKeyBytes()
}

func eager(from uint32, evs []hg.WireEvent) func(w *world, t *hnode) callRes {
	return func(w *world, t *hnode) callRes {
		var req net.EagerSyncRequest
		if !viaJSON(&net.EagerSyncRequest{FromID: from, Events: evs}, &req) {
			return callRes{outcome: "unencodable"}
		}
		return rpcCall(t.n, &req)
	}
}

// syncResp: the events arrive as the answer to the target's own pull (Node.pull -> Node.sync).
func syncResp(from uint32, evs []hg.WireEvent) func(w *world, t *hnode) callRes {
	return func(w *world, t *hnode) callRes {
		var resp net.SyncResponse
		if !viaJSON(&net.SyncResponse{FromID: from, Events: evs}, &resp) {
			return callRes{outcome: "unencodable"}
		}
		return guardedGo(func() (interface{}, error) { return nil, t.n.VerifSync(from, resp.Events) })
	}
}

// wire-event mutations applicable by ANY network party (the event signature is not re-made)
type wmut struct {
	name string
	f    func(w *world, we *hg.WireEvent)
}

func (w *world) wireMutations() []wmut {
	l := []wmut{}
	for _, s := range w.g.sigStrings() {
		s := s
		l = append(l, wmut{"sig=" + s.name, func(w *world, we *hg.WireEvent) { we.Signature = s.s }})
	}
	for _, v := range hostileInts {
		v := v
		l = append(l, wmut{fmt.Sprintf("index=%d", v), func(w *world, we *hg.WireEvent) { we.Body.Index = v }})
		l = append(l, wmut{fmt.Sprintf("spindex=%d", v), func(w *world, we *hg.WireEvent) { we.Body.SelfParentIndex = v }})
		l = append(l, wmut{fmt.Sprintf("opindex=%d", v), func(w *world, we *hg.WireEvent) {
			we.Body.OtherParentIndex = v
			we.Body.OtherParentCreatorID = w.nodes[2].id
		}})
		l = append(l, wmut{fmt.Sprintf("timestamp=%d", v), func(w *world, we *hg.WireEvent) { we.Body.Timestamp = int64(v) }})
	}
	for _, id := range []uint32{0, 1, math.MaxUint32} {
		id := id
		l = append(l, wmut{fmt.Sprintf("creator=%d", id), func(w *world, we *hg.WireEvent) { we.Body.CreatorID = id }})
		l = append(l, wmut{fmt.Sprintf("opcreator=%d", id), func(w *world, we *hg.WireEvent) { we.Body.OtherParentCreatorID = id; we.Body.OtherParentIndex = 0 }})
	}
	l = append(l, wmut{"creator=target", func(w *world, we *hg.WireEvent) { we.Body.CreatorID = w.nodes[0].id }})
	l = append(l, wmut{"txs=nil", func(w *world, we *hg.WireEvent) { we.Body.Transactions = nil }})
	l = append(l, wmut{"txs=[nil]", func(w *world, we *hg.WireEvent) { we.Body.Transactions = [][]byte{nil, {}} }})
	l = append(l, wmut{"txs=huge", func(w *world, we *hg.WireEvent) { we.Body.Transactions = [][]byte{make([]byte, 200000)} }})
	for _, k := range w.g.hexStrings() {
		for _, sn := range []string{"nonbase36", "bar", "good", "zero", "one"} {
			k, sn := k, sn
			var sv string
			for _, s := range w.g.sigStrings() {
				if s.name == sn {
					sv = s.s
				}
			}
			l = append(l, wmut{"itx=" + k.name + "/" + sn, func(w *world, we *hg.WireEvent) {
				we.Body.InternalTransactions = []hg.InternalTransaction{itxOf(k.s, sv)}
			}})
		}
	}
	l = append(l, wmut{"itx=valid-outsider-type7", func(w *world, we *hg.WireEvent) {
		itx := itxOf(w.outsiderHex(), "")
		itx.Body.Type = 7
		itx.Sign(w.outsider)
		we.Body.InternalTransactions = []hg.InternalTransaction{itx}
	}})
	for _, s := range w.g.sigStrings() {
		s := s
		l = append(l, wmut{"bsig-unsigned=" + s.name, func(w *world, we *hg.WireEvent) {
			we.Body.BlockSignatures = []hg.WireBlockSignature{{Index: 0, Signature: s.s}}
		}})
	}
	return l
}

func (w *world) outsiderHex() string {
	return keys.PublicKeyHex(&w.outsider.PublicKey)
}

func (w *world) cases() []bcase {
	l := []bcase{}
	h1 := w.nodes[1]

	// ---------------- SyncRequest ----------------
	syncCase := func(name string, mk func(t *hnode) *net.SyncRequest, states []_state.State) {
		l = append(l, bcase{id: "sync/" + name, kind: "sync", states: states,
			input: func(w *world, t *hnode) string {
				b, _ := json.Marshal(mk(t))
				return string(b)
			},
			run: func(w *world, t *hnode) callRes {
				var req net.SyncRequest
				if !viaJSON(mk(t), &req) {
					return callRes{outcome: "unencodable"}
				}
				return rpcCall(t.n, &req)
			},
			hline: func(w *world, t *hnode, st _state.State) string {
				req := mk(t)
				d := -1
				g := guardedGo(func() (interface{}, error) { return t.n.VerifCore().EventDiff(req.Known) })
				if g.outcome == "ok" {
					d = len(g.resp.([]*hg.Event))
				}
				return fmt.Sprintf("syncreq %d %d %d %d", stateCode(st), req.SyncLimit, t.conf.SyncLimit, d)
			},
			hres: func(r callRes) string {
				switch r.outcome {
				case "ok":
					return fmt.Sprintf("ok %d", len(r.resp.(*net.SyncResponse).Events))
				case "err":
					return "err"
				}
				return r.outcome
			},
		})
	}
	for _, v := range hostileInts {
		v := v
		syncCase(fmt.Sprintf("limit=%d/known=none", v), func(t *hnode) *net.SyncRequest {
			return &net.SyncRequest{FromID: h1.id, Known: map[uint32]int{}, SyncLimit: v}
		}, []_state.State{_state.Babbling, _state.Suspended, _state.Babbling, _state.CatchingUp})
		syncCase(fmt.Sprintf("limit=%d/known=all", v), func(t *hnode) *net.SyncRequest {
			return &net.SyncRequest{FromID: h1.id, Known: t.n.VerifCore().KnownEvents(), SyncLimit: v}
		}, []_state.State{_state.Babbling, _state.Suspended})
		syncCase(fmt.Sprintf("known[h1]=%d", v), func(t *hnode) *net.SyncRequest {
			k := t.n.VerifCore().KnownEvents()
			k[h1.id] = v
			return &net.SyncRequest{FromID: h1.id, Known: k, SyncLimit: 1000}
		}, []_state.State{_state.Babbling, _state.Suspended})
		syncCase(fmt.Sprintf("known[h1]=%d/limit=-1", v), func(t *hnode) *net.SyncRequest {
			k := t.n.VerifCore().KnownEvents()
			k[h1.id] = v
			return &net.SyncRequest{FromID: h1.id, Known: k, SyncLimit: -1}
		}, []_state.State{_state.Babbling, _state.Suspended})
	}
	syncCase("limit=-1/babbling", func(t *hnode) *net.SyncRequest {
		return &net.SyncRequest{FromID: h1.id, Known: map[uint32]int{}, SyncLimit: -1}
	}, babbling)
	syncCase("limit=-1/suspended", func(t *hnode) *net.SyncRequest {
		return &net.SyncRequest{FromID: h1.id, Known: map[uint32]int{}, SyncLimit: -1}
	}, []_state.State{_state.Suspended})
	// Known maps that make core.eventDiff FAIL (an index below -1 for a participant the node knows):
	// the request is answered with an error; what matters is what the node does afterwards
	for _, v := range []int{-2, math.MinInt64, math.MinInt32} {
		v := v
		for _, st := range []_state.State{_state.Babbling, _state.Suspended} {
			st := st
			syncCase(fmt.Sprintf("known[h1]=%d/%s", v, strings.ToLower(stateName(st))), func(t *hnode) *net.SyncRequest {
				k := t.n.VerifCore().KnownEvents()
				k[h1.id] = v
				return &net.SyncRequest{FromID: h1.id, Known: k, SyncLimit: 1000}
			}, []_state.State{st})
		}
		syncCase(fmt.Sprintf("known[all]=%d", v), func(t *hnode) *net.SyncRequest {
			k := t.n.VerifCore().KnownEvents()
			for id := range k {
				k[id] = v
			}
			return &net.SyncRequest{FromID: 77, Known: k, SyncLimit: 5}
		}, babbling)
		syncCase(fmt.Sprintf("known[only-h1]=%d", v), func(t *hnode) *net.SyncRequest {
			return &net.SyncRequest{FromID: h1.id, Known: map[uint32]int{h1.id: v}, SyncLimit: 5}
		}, babbling)
	}
	syncCase("known[all]=maxint", func(t *hnode) *net.SyncRequest {
		k := t.n.VerifCore().KnownEvents()
		for id := range k {
			k[id] = math.MaxInt64
		}
		return &net.SyncRequest{FromID: h1.id, Known: k, SyncLimit: 5}
	}, []_state.State{_state.Babbling, _state.Suspended})
	syncCase("known=missing-ids", func(t *hnode) *net.SyncRequest {
		k := t.n.VerifCore().KnownEvents()
		ids := []int{}
		for id := range k {
			ids = append(ids, int(id))
		}
		sort.Ints(ids) // (deterministic: the request is built twice, for the model line and for the delivery)
		for i, id := range ids {
			if i%2 == 0 {
				delete(k, uint32(id))
			}
		}
		return &net.SyncRequest{FromID: math.MaxUint32, Known: k, SyncLimit: 1000}
	}, []_state.State{_state.Babbling, _state.Suspended})
	syncCase("known=nil", func(t *hnode) *net.SyncRequest { return &net.SyncRequest{FromID: h1.id, SyncLimit: 1000} }, allStates)
	syncCase("known=unknown-ids", func(t *hnode) *net.SyncRequest {
		return &net.SyncRequest{FromID: 77, Known: map[uint32]int{0: 5, 77: -3, math.MaxUint32: math.MaxInt64}, SyncLimit: 3}
	}, allStates)
	syncCase("from=0", func(t *hnode) *net.SyncRequest {
		return &net.SyncRequest{FromID: 0, Known: map[uint32]int{}, SyncLimit: 2}
	}, allStates)

	// ---------------- FastForwardRequest ----------------
	for _, id := range []uint32{0, 77, math.MaxUint32, h1.id} {
		id := id
		l = append(l, bcase{id: fmt.Sprintf("ffreq/from=%d", id), kind: "ffreq", states: allStates,
			run: func(w *world, t *hnode) callRes { return rpcCall(t.n, &net.FastForwardRequest{FromID: id}) }})
	}

	// ---------------- EagerSyncRequest / SyncResponse (any network party) ----------------
	for _, m := range w.wireMutations() {
		m := m
		for _, via := range []string{"eager", "syncresp"} {
			via := via
			l = append(l, bcase{id: via + "/" + m.name, kind: via, states: babbling,
				run: func(w *world, t *hnode) callRes {
					evs := w.freshHonest(t)
					if len(evs) == 0 {
						return callRes{outcome: "skipped"}
					}
					m.f(w, &evs[len(evs)-1])
					if via == "eager" {
						hin := w.eagerInput(t, evs)
						r := eager(h1.id, evs)(w, t)
						r.hin = hin
						return r
					}
					return syncResp(h1.id, evs)(w, t)
				}})
		}
	}
	for _, st := range allStates {
		st := st
		l = append(l, bcase{id: "eager/itx=empty/nonbase36/" + stateName(st), kind: "eager", states: []_state.State{st},
			run: func(w *world, t *hnode) callRes {
				evs := w.freshHonest(t)
				if len(evs) == 0 {
					return callRes{outcome: "skipped"}
				}
				evs[0].Body.InternalTransactions = []hg.InternalTransaction{itxOf("", "!|!")}
				return eager(h1.id, evs)(w, t)
			}})
	}
	l = append(l, bcase{id: "eager/events=nil", kind: "eager", states: allStates, run: eager(h1.id, nil)})
	l = append(l, bcase{id: "eager/events=nil/babbling", kind: "eager", states: babbling, run: eager(h1.id, nil)})
	l = append(l, bcase{id: "eager/events=empty/from=unknown", kind: "eager", states: allStates, run: eager(77, []hg.WireEvent{})})
	l = append(l, bcase{id: "eager/zero-event", kind: "eager", states: babbling, run: eager(h1.id, []hg.WireEvent{{}})})
	l = append(l, bcase{id: "syncresp/zero-event", kind: "syncresp", states: babbling, run: syncResp(h1.id, []hg.WireEvent{{}})})
	l = append(l, bcase{id: "eager/valid/from=unknown", kind: "eager", states: babbling,
		run: func(w *world, t *hnode) callRes { return eager(77, w.freshHonest(t))(w, t) }})
	l = append(l, bcase{id: "eager/valid/duplicated", kind: "eager", states: babbling,
		run: func(w *world, t *hnode) callRes {
			evs := w.freshHonest(t)
			return eager(h1.id, append(evs, evs...))(w, t)
		}})

	// ---------------- events validly signed by a (Byzantine) validator ----------------
	byz := nValidators - 1
	for _, s := range w.g.sigStrings() {
		for _, bi := range []int{0, -1, math.MaxInt64, math.MinInt64, 5000} {
			s, bi := s, bi
			l = append(l, bcase{id: fmt.Sprintf("byz/bsig=%s/index=%d", s.name, bi), kind: "byz-eager", states: babbling, poisons: true,
				run: func(w *world, t *hnode) callRes {
					we, ok := w.byzEvent(t, byz, nil, []hg.BlockSignature{{Index: bi, Signature: s.s}}, nil)
					if !ok {
						return callRes{outcome: "skipped"}
					}
					hin := w.eagerInput(t, []hg.WireEvent{we})
					r := eager(w.nodes[byz].id, []hg.WireEvent{we})(w, t)
					r.hin = hin
					return r
				}})
		}
	}
	for _, v := range []int64{math.MaxInt64, math.MinInt64, 0, -1} {
		v := v
		l = append(l, bcase{id: fmt.Sprintf("byz/timestamp=%d", v), kind: "byz-eager", states: babbling, poisons: true,
			run: func(w *world, t *hnode) callRes {
				we, ok := w.byzEvent(t, byz, nil, nil, &v)
				if !ok {
					return callRes{outcome: "skipped"}
				}
				return eager(w.nodes[byz].id, []hg.WireEvent{we})(w, t)
			}})
	}
	for _, k := range w.g.hexStrings() {
		for _, sn := range []string{"nonbase36", "good", "signed"} {
			k, sn := k, sn
			l = append(l, bcase{id: "byz/itx=" + k.name + "/" + sn, kind: "byz-eager", states: babbling, poisons: true,
				run: func(w *world, t *hnode) callRes {
					itx := itxOf(k.s, "!|!")
					switch sn {
					case "good":
						itx.Signature = w.g.goodSig
					case "signed":
						itx = signedItx(k.s, w.g.privs[0])
					}
					we, ok := w.byzEvent(t, byz, []hg.InternalTransaction{itx}, nil, nil)
					if !ok {
						return callRes{outcome: "skipped"}
					}
					return syncResp(w.nodes[byz].id, []hg.WireEvent{we})(w, t)
				}})
		}
	}

	// ---------------- JoinRequest ----------------
	joinCase := func(name string, mk func(w *world) hg.InternalTransaction, states []_state.State) {
		l = append(l, bcase{id: "join/" + name, kind: "join", states: states,
			input: func(w *world, t *hnode) string {
				b, _ := json.Marshal(&net.JoinRequest{InternalTransaction: mk(w)})
				if len(b) > 400 {
					b = append(b[:400], []byte("...")...)
				}
				return string(b)
			},
			run: func(w *world, t *hnode) callRes {
				var req net.JoinRequest
				if !viaJSON(&net.JoinRequest{InternalTransaction: mk(w)}, &req) {
					return callRes{outcome: "unencodable"}
				}
				return rpcCall(t.n, &req)
			},
			hline: func(w *world, t *hnode, st _state.State) string {
				var req net.JoinRequest
				if !viaJSON(&net.JoinRequest{InternalTransaction: mk(w)}, &req) {
					return ""
				}
				itx := req.InternalTransaction
				present := false
				for _, p := range t.n.GetPeers() {
					if p.PubKeyString() == strings.ToUpper(itx.Body.Peer.PubKeyHex) {
						present = true
					}
				}
				return fmt.Sprintf("joinreq %d %s %d", stateCode(st), itxTokens(itx), b2i(present))
			},
			hres: func(r callRes) string {
				switch r.outcome {
				case "ok":
					return fmt.Sprintf("ok %d", b2i(r.resp.(*net.JoinResponse).Accepted))
				}
				return r.outcome
			},
		})
	}
	for _, k := range w.g.hexStrings() {
		for _, sn := range []string{"nonbase36", "bar", "good", "zero", "one", "r-bad"} {
			k, sn := k, sn
			var sv string
			for _, s := range w.g.sigStrings() {
				if s.name == sn {
					sv = s.s
				}
			}
			sts := babbling
			if k.name == "empty" && sn != "one" {
				sts = allStates
			}
			joinCase("key="+k.name+"/sig="+sn, func(w *world) hg.InternalTransaction { return itxOf(k.s, sv) }, sts)
		}
	}
	for _, s := range w.g.sigStrings() {
		s := s
		joinCase("key=outsider/sig="+s.name, func(w *world) hg.InternalTransaction { return itxOf(w.outsiderHex(), s.s) }, babbling)
	}
	joinCase("valid-outsider", func(w *world) hg.InternalTransaction { return signedItx(w.outsiderHex(), w.outsider) }, allStates)
	joinCase("valid-outsider-lowercase", func(w *world) hg.InternalTransaction {
		return signedItx(strings.ToLower(w.outsiderHex()), w.outsider)
	}, babbling)
	joinCase("valid-outsider-otherprefix", func(w *world) hg.InternalTransaction {
		return signedItx("zz"+w.outsiderHex()[2:], w.outsider)
	}, babbling)
	joinCase("valid-outsider-type7", func(w *world) hg.InternalTransaction {
		itx := itxOf(w.outsiderHex(), "")
		itx.Body.Type = 7
		itx.Sign(w.outsider)
		return itx
	}, babbling)
	joinCase("valid-outsider-type255", func(w *world) hg.InternalTransaction {
		itx := itxOf(w.outsiderHex(), "")
		itx.Body.Type = 255
		itx.Sign(w.outsider)
		return itx
	}, babbling)
	joinCase("valid-present-peer", func(w *world) hg.InternalTransaction { return signedItx(w.peerl[2].PubKeyHex, w.privs[2]) }, babbling)
	joinCase("valid-huge-moniker", func(w *world) hg.InternalTransaction {
		itx := hg.NewInternalTransaction(hg.PEER_ADD, *peers.NewPeer(w.outsiderHex(), strings.Repeat("a", 100000), strings.Repeat("m", 100000)))
		itx.Sign(w.outsider)
		return itx
	}, babbling)

	// ---------------- FastForwardResponse (hostile responder) ----------------
	l = append(l, w.ffCases()...)
	l = append(l, w.chainCases()...)
	return l
}

func stateCode(s _state.State) int { return int(s) }

// essential: one witness per site of FINDINGS.md (plus an honest fast-forward), run in every tier
var essential = map[string]bool{
	"sync/limit=-1/babbling":                                  true,
	"sync/limit=-1/suspended":                                 true,
	"sync/known[h1]=-2/babbling":                              true,
	"sync/known[h1]=-2/suspended":                             true,
	"sync/known[h1]=-9223372036854775808/babbling":            true,
	"sync/known[all]=-2":                                      true,
	"sync/known[only-h1]=-2":                                  true,
	"sync/known[all]=maxint":                                  true,
	"sync/known=missing-ids":                                  true,
	"sync/known=nil":                                          true,
	"sync/known=unknown-ids":                                  true,
	"join/key=empty/sig=one":                                  true,
	"join/valid-outsider":                                     true,
	"eager/itx=empty/nonbase36":                               true,
	"eager/sig=nonbase36":                                     true,
	"eager/events=nil/babbling":                               true,
	"byzchain/fork-huge-index/eager/from=self":                true,
	"byzchain/fork-huge-index/syncresp/from=self":             true,
	"byzchain/fork-next-index/eager/from=self":                true,
	"byzchain/fork-huge-index+duplicate-last/eager/from=self": true,
	"byzchain/head-skipped-index/eager/from=self":             true,
	"byzchain/second-first-event-huge-index/eager/from=self":  true,
	"byzchain/duplicate-old/eager/from=other":                 true,
	"byzchain/unknown-other-parent/eager/from=self":           true,
	"byz/bsig=0fields/index=0":                                true,
	"byz/bsig=nonbase36/index=0":                              true,
	"byz/bsig=good/index=0":                                   true,
	"ffresp/valid/resealed":                                   true,
	"ffresp/frame.round=7":                                    true,
	"ffresp/block.sigs+key=empty":                             true,
	"ffresp/block.sigs[v1]=nonbase36/resealed":                true,
	"ffresp/frame.peers+nil/resealed":                         true,
	"ffresp/frame.roots[k]=nil/resealed":                      true,
	"ffresp/root.[0]=nil/resealed":                            true,
	"ffresp/root.[0].core=nil/resealed":                       true,
	"ffresp/root.[0].parents=1/resealed":                      true,
	"ffresp/root.+dup-lamport.sig=nonbase36/resealed":         true,
	"ffresp/events.[0].index=7/resealed":                      true,
}

func partB(g *grammar, n int) {
	if onlyCase == "" || strings.HasPrefix(onlyCase, "scenario") {
		scenarios(g)
		if onlyCase != "" {
			return
		}
	}
	perWorld := 130
	done := 0
	seq := 0
	for done < n {
		w := newWorld(g, 1000)
		// phase 0: a few cases against an EMPTY target; then grow the history between batches
		cs := w.cases()
		if onlyCase != "" {
			f := []bcase{}
			for _, c := range cs {
				if strings.Contains(c.id, onlyCase) {
					f = append(f, c)
				}
			}
			cs = f
			w.honestSteps(150)
			w.catchUp(w.nodes[0])
		}
		rng.Shuffle(len(cs), func(i, j int) { cs[i], cs[j] = cs[j], cs[i] })
		k := perWorld
		if onlyCase != "" {
			n = len(cs)
		}
		if n-done < k {
			k = n - done
		}
		if k > len(cs) {
			k = len(cs)
		}
		// one witness per known site always runs (in the first world, once the history has an anchor
		// block), whatever the random sample is
		ess := []bcase{}
		if stats["b.worlds"] == 0 && onlyCase == "" {
			rest := []bcase{}
			for _, c := range cs {
				if essential[c.id] {
					ess = append(ess, c)
				} else {
					rest = append(rest, c)
				}
			}
			cs = rest
			if k > len(cs) {
				k = len(cs)
			}
		}
		for i := 0; i < k; i++ {
			if i == 8 || (i > 8 && i%12 == 0) {
				w.honestSteps(40)
				if i == 8 {
					for j := 0; j < 6 && w.honestFF() == nil; j++ {
						w.honestSteps(40)
					}
				}
				if err := w.catchUp(w.nodes[0]); err != nil {
					// the target no longer accepts honest traffic (e.g. poisoned): rebuild
					w.rebuildTarget()
				}
				if i == 8 {
					for _, c := range ess {
						seq++
						w.runCase(seq, c)
						stats["b.essential"]++
					}
				}
			}
			seq++
			w.runCase(seq, cs[i])
		}
		done += k
		stats["b.worlds"]++
		stats["b.rebuilds"] += w.rebuilds
		stats["b.blocks-at-end-of-world"] += w.nodes[1].n.GetLastBlockIndex() + 1
		w.close()
	}
}

func (w *world) runCase(seq int, c bcase) {
	t := w.nodes[0]
	if hangsSeen >= hangBudget() && strings.Contains(c.id, "badutf8") {
		stats["b.skipped-hang-budget"]++ // every hang leaves a spinning goroutine behind
		return
	}
	st := c.states[rng.Intn(len(c.states))]
	before := blocksOf(t.n)
	deliveredBefore := len(t.app.delivered)
	restoresBefore := t.app.restores
	byzID := w.nodes[nValidators-1].id
	byzBefore, byzSeen := t.n.VerifCore().KnownEvents()[byzID]
	hl := ""
	if c.hline != nil {
		hl = c.hline(w, t, st)
	}
	inputDesc := ""
	if c.input != nil {
		inputDesc = " input=" + c.input(w, t)
	}
	t.n.VerifSetState(st)
	r := c.run(w, t)
	t.n.VerifSetState(_state.Babbling)
	if r.input != "" {
		inputDesc = " input=" + r.input
	}
	if r.outcome == "skipped" || r.outcome == "unencodable" {
		stats["b.skipped"]++
		return
	}
	stats["b.cases"]++
	stats["b.kind."+c.kind]++
	stats["b.state."+stateName(st)]++
	stats["b.outcome."+r.outcome]++
	if hl != "" && c.hres != nil {
		fmt.Fprintf(out, "C8 %s => %s\n", hl, c.hres(r))
		stats["b.model-lines"]++
	}
	if r.hin != "" && (r.outcome == "ok" || r.outcome == "err" || r.outcome == "panic") {
		fmt.Fprintf(out, "C8 %s => %s\n", strings.Replace(r.hin, "%STATE%", fmt.Sprint(stateCode(st)), 1), r.outcome)
		stats["b.model-lines"]++
	}
	outc := r.outcome
	blocks, after := "same", "ok"
	rebuild := false
	switch r.outcome {
	case "panic":
		outc = "PANIC@" + r.site
		violation("panic:"+r.site, fmt.Sprintf("%s case=%s state=%s", c.kind, c.id, stateName(st)))
		blocks, after = "n/a", "n/a"
		rebuild = true
	case "hang":
		outc = "HANG"
		hangsSeen++
		if onlyCase != "" {
			pprof.Lookup("goroutine").WriteTo(os.Stderr, 1)
		}
		violation("hang:"+hangSite(), fmt.Sprintf("%s case=%s state=%s", c.kind, c.id, stateName(st)))
		blocks, after = "n/a", "n/a"
		rebuild = true
	case "noresponse":
		violation("hang:no-response", fmt.Sprintf("%s case=%s state=%s", c.kind, c.id, stateName(st)))
	}
	if !rebuild {
		accepted := r.outcome == "ok"
		if !(c.resets && accepted) {
			if d := blocksChanged(before, blocksOf(t.n)); d != "" {
				blocks = "changed"
				sub := "store"
				if c.resets {
					sub = "reset-not-atomic"
				}
				violation("blocks-changed", fmt.Sprintf("%s case=%s state=%s outcome=%s %s", sub, c.id, stateName(st), r.outcome, d))
				rebuild = true
			}
			if len(t.app.delivered) < deliveredBefore {
				blocks = "changed"
			}
		}
		if c.resets && !accepted && t.app.restores != restoresBefore {
			if blocks == "same" {
				blocks = "app-restored"
			} else {
				blocks += "+app-restored"
			}
			if ffClass(r) == "err" {
				violation("blocks-changed", fmt.Sprintf("restore-before-check case=%s state=%s outcome=%s application state restored from the snapshot of a fast-forward response that FAILS the block / frame checks", c.id, stateName(st), r.outcome))
			} else {
				violation("blocks-changed", fmt.Sprintf("reset-not-atomic case=%s state=%s outcome=%s application state restored from the snapshot of a fast-forward response that is then rejected inside Hashgraph.Reset", c.id, stateName(st), r.outcome))
			}
		}
		if c.resets && accepted {
			after = "reset"
			rebuild = true
		} else if c.resets {
			// a node that rejected a fast-forward response stays in CatchingUp and asks again:
			// a VALID response must then be accepted
			rebuild = true
			p := w.lockProbe(t)
			if p == "" {
				p = w.ffRetryProbe(t)
			}
			if p != "" {
				after = "wedged:" + p
				violation("node-wedged", fmt.Sprintf("%s case=%s state=%s outcome=%s probe=%s", c.kind, c.id, stateName(st), r.outcome, p))
			} else {
				after = "ok(ff-retry)"
			}
		} else if p := w.serveProbe(t); p != "" {
			after = "wedged:" + p
			violation("node-wedged", fmt.Sprintf("%s case=%s state=%s outcome=%s probe=%s%s", c.kind, c.id, stateName(st), r.outcome, p, inputDesc))
			rebuild = true
		}
		if byzAfter, ok := t.n.VerifCore().KnownEvents()[byzID]; c.poisons && (ok != byzSeen || byzAfter != byzBefore) {
			rebuild = true
		}
		if c.deep && !rebuild {
			// nothing of the hostile message was inserted: the node must behave as if it had never arrived
			if p := w.deepProbe(t); p != "" {
				after = "wedged:" + p
				violation("node-wedged", fmt.Sprintf("%s case=%s state=%s outcome=%s probe=%s%s", c.kind, c.id, stateName(st), r.outcome, p, inputDesc))
				rebuild = true
			} else {
				after = "ok(+2 honest rounds)"
			}
		}
	}
	det := ""
	if r.err != nil {
		det = " (" + errShort(r.err) + ")"
	}
	fmt.Fprintf(out, "N %d %s state=%s => %s%s blocks=%s after=%s\n", seq, c.id, stateName(st), outc, det, blocks, after)
	if rebuild {
		w.rebuildTarget()
	}
}

// eagerInput: the model input of an EagerSyncRequest whose LAST event is the hostile one (the
// others are honest). Only for single-event requests: the references of the event must be
// resolvable before the delivery.
func (w *world) eagerInput(t *hnode, evs []hg.WireEvent) string {
	if len(evs) != 1 {
		return ""
	}
	we := evs[0]
	var cp hg.WireEvent
	if !viaJSON(&we, &cp) {
		return ""
	}
	h := t.n.VerifCore().Hg()
	g := guardedGo(func() (interface{}, error) { return h.ReadWireInfo(cp) })
	readOK := g.outcome == "ok"
	var sb strings.Builder
	fmt.Fprintf(&sb, "eager %%STATE%% %d %d", b2i(readOK), len(cp.Body.InternalTransactions))
	for _, it := range cp.Body.InternalTransactions {
		sb.WriteString(" " + itxTokens(it))
	}
	fmt.Fprintf(&sb, " %d", len(cp.Body.BlockSignatures))
	for _, bs := range cp.Body.BlockSignatures {
		sb.WriteString(" " + enc(bs.Signature))
	}
	creator, valid := []byte{}, false
	if readOK {
		ev := g.resp.(*hg.Event)
		creator = ev.Body.Creator
		dig, _ := ev.Body.Hash()
		valid = refVerify(creator, dig, ev.Signature)
	}
	fmt.Fprintf(&sb, " %s %s %d 1", enc(string(creator)), enc(cp.Signature), b2i(valid))
	fmt.Fprintf(&sb, " %d", len(cp.Body.BlockSignatures))
	for _, bs := range cp.Body.BlockSignatures {
		known, ok := false, false
		if b, err := h.Store.GetBlock(bs.Index); err == nil {
			known = true
			dig, _ := b.Body.Hash()
			ok = refVerify(creator, dig, bs.Signature)
		}
		fmt.Fprintf(&sb, " %d 1 %s %s %d", b2i(known), enc(string(creator)), enc(bs.Signature), b2i(ok))
	}
	return sb.String()
}
