package main

import (
	"fmt"
	"io"
	"os"
	"strings"
	"time"

	"github.com/sirupsen/logrus"

	hg "github.com/mosaicnetworks/babble/src/hashgraph"
	"github.com/mosaicnetworks/babble/src/net"
	"github.com/mosaicnetworks/babble/src/peers"
)

// Multi-step scenarios of part b: a hostile message whose effect shows only later (when the
// poisoned object reaches a frame, or when the node restarts).

// gossipAll: all-to-all honest gossip (node 0 included), every step under the watchdog.
// Returns the first non-ok step.
func (w *world) gossipAll(k int) (callRes, int) {
	// the last validator never runs as an honest node here: its key belongs to the Byzantine actor
	// (4 of 5 active validators = the supermajority)
	active := nValidators - 1
	for s := 0; s < k; s++ {
		a := rng.Intn(active)
		b := rng.Intn(active - 1)
		if b >= a {
			b++
		}
		if rng.Intn(3) == 0 {
			w.nodes[a].n.VerifAddTransaction(w.newTx())
		}
		if r := w.pullRes(w.nodes[a], w.nodes[b]); r.outcome != "ok" {
			return r, s
		}
	}
	return callRes{outcome: "ok"}, k
}

func scenLine(name, outcome, detail string) {
	stats["b.scenarios"]++
	fmt.Fprintf(out, "N S %s => %s %s\n", name, outcome, detail)
}

// scenarioPoisonedString: a string containing U+FFFD (which is also what encoding/json makes of
// any invalid UTF-8 byte on the wire) travels inside a VALID object into a frame.
func scenarioPoisonedString(g *grammar, name string, inject func(w *world) callRes) {
	w := newWorld(g, 1000)
	defer w.close()
	w.pullWatchdog = 3 * time.Second
	if r, _ := w.gossipAll(60); r.outcome != "ok" {
		scenLine(name, "skipped", "honest gossip failed before the injection")
		return
	}
	before := w.nodes[1].n.GetLastBlockIndex()
	ir := inject(w)
	if ir.outcome == "panic" {
		violation("panic:"+ir.site, "scenario:"+name+" at-injection")
		scenLine(name, "PANIC@"+ir.site, "at injection")
		return
	}
	r, steps := w.gossipAll(500)
	switch r.outcome {
	case "hang":
		site := hangSite()
		violation("hang:"+site, fmt.Sprintf("scenario:%s honest gossip step %d after the injection never returns (every node that processes the frame is stuck)", name, steps))
		scenLine(name, "HANG@"+site, fmt.Sprintf("after %d honest steps", steps))
	case "panic":
		violation("panic:"+r.site, fmt.Sprintf("scenario:%s honest gossip step %d after the injection", name, steps))
		scenLine(name, "PANIC@"+r.site, fmt.Sprintf("after %d honest steps", steps))
	case "ok":
		after := w.nodes[1].n.GetLastBlockIndex()
		if after <= before {
			violation("node-wedged", fmt.Sprintf("scenario:%s no new block in 500 honest steps after the injection (%d -> %d)", name, before, after))
			scenLine(name, "no-progress", fmt.Sprintf("blocks %d -> %d", before, after))
		} else {
			scenLine(name, "ok", fmt.Sprintf("blocks %d -> %d", before, after))
		}
	default:
		violation("node-wedged", fmt.Sprintf("scenario:%s honest gossip fails after the injection: %s %s", name, r.outcome, siteSuffix(r)))
		scenLine(name, r.outcome, siteSuffix(r))
	}
}

// scenarioRestart: a node with a Badger store receives a poisoned (validly signed) event, dies,
// and is restarted with bootstrap from its database.
func scenarioRestart(g *grammar) {
	name := "restart-after-poisoned-block-signature"
	w := newWorld(g, 1000)
	defer w.close()
	dir, err := os.MkdirTemp("", "hostile-badger")
	if err != nil {
		scenLine(name, "skipped", "no temp dir")
		return
	}
	defer os.RemoveAll(dir)
	store, err := hg.NewBadgerStore(10000, dir, false, quietEntry())
	if err != nil {
		scenLine(name, "skipped", "badger: "+errShort(err))
		return
	}
	w.nodes[0] = w.newNodeWith(0, store, false)
	for i := 0; i < 6 && w.nodes[0].n.GetLastBlockIndex() < 1; i++ {
		w.honestSteps(60)
		if err := w.catchUp(w.nodes[0]); err != nil {
			scenLine(name, "skipped", "catch-up failed")
			return
		}
	}
	t := w.nodes[0]
	if t.n.GetLastBlockIndex() < 0 {
		scenLine(name, "skipped", "no block yet")
		return
	}
	byz := nValidators - 1
	we, ok := w.byzEvent(t, byz, nil, []hg.BlockSignature{{Index: 0, Signature: "!|!"}}, nil)
	if !ok {
		scenLine(name, "skipped", "no byz event")
		return
	}
	r := eager(w.nodes[byz].id, []hg.WireEvent{we})(w, t)
	first := r.outcome
	if r.outcome == "panic" {
		first = "PANIC@" + r.site
		violation("panic:"+r.site, "scenario:"+name+" first delivery")
	}
	// the process died: restart from the database
	store.Close()
	store2, err := hg.NewBadgerStore(10000, dir, false, quietEntry())
	if err != nil {
		scenLine(name, "skipped", "badger reopen: "+errShort(err))
		return
	}
	defer store2.Close()
	g2 := guardedGo(func() (interface{}, error) {
		w.nodes[0] = w.newNodeWith(0, store2, true)
		return nil, nil
	})
	second := g2.outcome
	if g2.outcome == "panic" {
		second = "PANIC@" + g2.site
		violation("panic:"+g2.site, "scenario:"+name+" the poisoned event is in the database: the node panics again in Bootstrap at every restart (permanent)")
	}
	scenLine(name, first, "restart="+second)
}

func scenarios(g *grammar) {
	poisoned := "evil\xef\xbf\xbd" // U+FFFD
	scenarioPoisonedString(g, "join-moniker-U+FFFD", func(w *world) callRes {
		// anyone: a correctly self-signed join request; only the moniker is unusual
		itx := hg.NewInternalTransaction(hg.PEER_ADD, *peers.NewPeer(w.outsiderHex(), "1.2.3.4:1337", poisoned))
		itx.Sign(w.outsider)
		var req net.JoinRequest
		// on the wire one invalid UTF-8 byte is enough: encoding/json decodes it as U+FFFD
		viaJSON(&net.JoinRequest{InternalTransaction: itx}, &req)
		return rpcCall(w.nodes[2].n, &req)
	})
	scenarioPoisonedString(g, "join-moniker-plain", func(w *world) callRes {
		itx := hg.NewInternalTransaction(hg.PEER_ADD, *peers.NewPeer(w.outsiderHex(), "1.2.3.4:1337", "plain"))
		itx.Sign(w.outsider)
		return rpcCall(w.nodes[2].n, &net.JoinRequest{InternalTransaction: itx})
	})
	scenarioPoisonedString(g, "byz-block-signature-U+FFFD", func(w *world) callRes {
		// a validator: the signature STRING of a block signature is free text inside its signed event
		byz := nValidators - 1
		t := w.nodes[1]
		we, ok := w.byzEvent(t, byz, nil, []hg.BlockSignature{{Index: 5000, Signature: "1|" + strings.Repeat("\xef\xbf\xbd", 2)}}, nil)
		if !ok {
			return callRes{outcome: "skipped"}
		}
		return eager(w.nodes[byz].id, []hg.WireEvent{we})(w, t)
	})
	scenarioRestart(g)
}

func quietEntry() *logrus.Entry {
	l := logrus.New()
	l.Out = io.Discard
	l.Level = logrus.PanicLevel
	return logrus.NewEntry(l)
}
