package main

import (
	"fmt"
	"io"
	"math"
	"os"
	"strings"
	"time"

	"github.com/sirupsen/logrus"

	hg "github.com/mosaicnetworks/babble/src/hashgraph"
	"github.com/mosaicnetworks/babble/src/net"
	"github.com/mosaicnetworks/babble/src/peers"
)

// Multi-step scenarios of part b: a hostile message whose effect shows only later (when the
// poisoned object reaches a frame, or when the node restarts).

// gossipAll: all-to-all honest gossip (node 0 included), every step under the watchdog.
// Returns the first non-ok step.
func (w *world) gossipAll(k int) (callRes, int) {
	// the last validator never runs as an honest node here: its key belongs to the Byzantine actor
	// (4 of 5 active validators = the supermajority)
	active := nValidators - 1
	for s := 0; s < k; s++ {
		a := rng.Intn(active)
		b := rng.Intn(active - 1)
		if b >= a {
			b++
		}
		if rng.Intn(3) == 0 {
			w.nodes[a].n.VerifAddTransaction(w.newTx())
		}
		if r := w.pullRes(w.nodes[a], w.nodes[b]); r.outcome != "ok" {
			return r, s
		}
	}
	return callRes{outcome: "ok"}, k
}

func scenLine(name, outcome, detail string) {
	stats["b.scenarios"]++
	fmt.Fprintf(out, "N S %s => %s %s\n", name, outcome, detail)
}

// scenarioPoisonedString: a string containing U+FFFD (which is also what encoding/json makes of
// any invalid UTF-8 byte on the wire) travels inside a VALID object into a frame.
func scenarioPoisonedString(g *grammar, name string, inject func(w *world) callRes) {
	w := newWorld(g, 1000)
	defer w.close()
	w.pullWatchdog = 3 * time.Second
	if r, _ := w.gossipAll(60); r.outcome != "ok" {
		scenLine(name, "skipped", "honest gossip failed before the injection")
		return
	}
	before := w.nodes[1].n.GetLastBlockIndex()
	ir := inject(w)
	if ir.outcome == "panic" {
		violation("panic:"+ir.site, "scenario:"+name+" at-injection")
		scenLine(name, "PANIC@"+ir.site, "at injection")
		return
	}
	r, steps := w.gossipAll(500)
	switch r.outcome {
	case "hang":
		site := hangSite()
		violation("hang:"+site, fmt.Sprintf("scenario:%s honest gossip step %d after the injection never returns (every node that processes the frame is stuck)", name, steps))
		scenLine(name, "HANG@"+site, fmt.Sprintf("after %d honest steps", steps))
	case "panic":
		violation("panic:"+r.site, fmt.Sprintf("scenario:%s honest gossip step %d after the injection", name, steps))
		scenLine(name, "PANIC@"+r.site, fmt.Sprintf("after %d honest steps", steps))
	case "ok":
		after := w.nodes[1].n.GetLastBlockIndex()
		if after <= before {
			violation("node-wedged", fmt.Sprintf("scenario:%s no new block in 500 honest steps after the injection (%d -> %d)", name, before, after))
			scenLine(name, "no-progress", fmt.Sprintf("blocks %d -> %d", before, after))
		} else {
			scenLine(name, "ok", fmt.Sprintf("blocks %d -> %d", before, after))
		}
	default:
		violation("node-wedged", fmt.Sprintf("scenario:%s honest gossip fails after the injection: %s %s", name, r.outcome, siteSuffix(r)))
		scenLine(name, r.outcome, siteSuffix(r))
	}
}

// scenarioRestart: a node with a Badger store receives a poisoned (validly signed) event, dies,
// and is restarted with bootstrap from its database.
func scenarioRestart(g *grammar) {
	name := "restart-after-poisoned-block-signature"
	w := newWorld(g, 1000)
	defer w.close()
	dir, err := os.MkdirTemp("", "hostile-badger")
	if err != nil {
		scenLine(name, "skipped", "no temp dir")
		return
	}
	defer os.RemoveAll(dir)
	store, err := hg.NewBadgerStore(10000, dir, false, quietEntry())
	if err != nil {
		scenLine(name, "skipped", "badger: "+errShort(err))
		return
	}
	w.nodes[0] = w.newNodeWith(0, store, false)
	for i := 0; i < 6 && w.nodes[0].n.GetLastBlockIndex() < 1; i++ {
		w.honestSteps(60)
		if err := w.catchUp(w.nodes[0]); err != nil {
			scenLine(name, "skipped", "catch-up failed")
			return
		}
	}
	t := w.nodes[0]
	if t.n.GetLastBlockIndex() < 0 {
		scenLine(name, "skipped", "no block yet")
		return
	}
	byz := nValidators - 1
	we, ok := w.byzEvent(t, byz, nil, []hg.BlockSignature{{Index: 0, Signature: "!|!"}}, nil)
	if !ok {
		scenLine(name, "skipped", "no byz event")
		return
	}
	r := eager(w.nodes[byz].id, []hg.WireEvent{we})(w, t)
	first := r.outcome
	if r.outcome == "panic" {
		first = "PANIC@" + r.site
		violation("panic:"+r.site, "scenario:"+name+" first delivery")
	}
	// the process died: restart from the database
	store.Close()
	store2, err := hg.NewBadgerStore(10000, dir, false, quietEntry())
	if err != nil {
		scenLine(name, "skipped", "badger reopen: "+errShort(err))
		return
	}
	defer store2.Close()
	g2 := guardedGo(func() (interface{}, error) {
		w.nodes[0] = w.newNodeWith(0, store2, true)
		return nil, nil
	})
	second := g2.outcome
	if g2.outcome == "panic" {
		second = "PANIC@" + g2.site
		violation("panic:"+g2.site, "scenario:"+name+" the poisoned event is in the database: the node panics again in Bootstrap at every restart (permanent)")
	}
	scenLine(name, first, "restart="+second)
}

// scenarioRolledCache: the per-participant event windows of the target no longer start at index 0 (the node holds
// more events of a participant than its cache size: a long-running node, or one that was fast-forwarded). Every
// "how far are you" value a peer can put into SyncRequest.Known is then delivered: the node must answer (an error
// such as TooLate is an answer), must not panic or hang, and must still serve a well-formed request afterwards.
func scenarioRolledCache(g *grammar) {
	w := newWorld(g, 1000)
	defer w.close()
	const cache = 24
	t := w.newNodeCache(0, nil, false, cache)
	w.nodes[0] = t
	for i := 0; i < cache+cache/2+rng.Intn(cache); i++ {
		// (with so small a cache a consensus method can fail on an evicted event after the self-event was inserted:
		// the event is the head all the same, fix d513dd9)
		t.n.VerifCore().AddSelfEvent("")
	}
	if t.n.VerifCore().KnownEvents()[t.id] < cache+cache/2-1 {
		scenLine("rolled-cache", "skipped", fmt.Sprintf("only %d own events", t.n.VerifCore().KnownEvents()[t.id]+1))
		return
	}
	last := t.n.VerifCore().KnownEvents()[t.id]
	peer := w.nodes[1].id
	vals := []int{math.MinInt64, math.MinInt64 + 1, math.MinInt64 + cache, -(1 << 62), -1 << 33, -3, -2, -1, 0, 1, last - cache - 1, last - cache, last - cache + 1,
		last - 1, last, last + 1, 1 << 33, 1 << 62, math.MaxInt64 - 1, math.MaxInt64}
	delivered := 0
	for _, v := range vals {
		for _, lim := range []int{1000, 0} {
			known := map[uint32]int{t.id: v, peer: -1}
			req := &net.SyncRequest{FromID: peer, Known: known, SyncLimit: lim}
			var wire net.SyncRequest
			if !viaJSON(req, &wire) {
				continue
			}
			r := rpcCall(t.n, &wire)
			delivered++
			stats["b.rolled-cache."+r.outcome]++
			name := fmt.Sprintf("scenario:rolled-cache known[self]=%d limit=%d own-events=%d cache=%d", v, lim, last+1, cache)
			switch r.outcome {
			case "panic":
				violation("panic:"+r.site, name)
				scenLine("rolled-cache", "PANIC@"+r.site, name)
				return
			case "hang", "noresponse":
				violation("hang:"+r.outcome, name)
				scenLine("rolled-cache", "HANG", name)
				return
			}
		}
	}
	// a well-formed request afterwards (the lock is free, the node answers)
	if p := w.lockProbe(t); p != "" {
		violation("node-wedged", "scenario:rolled-cache probe="+p)
		scenLine("rolled-cache", "wedged", p)
		return
	}
	r := rpcCall(t.n, &net.SyncRequest{FromID: peer, Known: map[uint32]int{t.id: last - 2, peer: -1}, SyncLimit: 1000})
	if r.outcome != "ok" {
		violation("node-wedged", fmt.Sprintf("scenario:rolled-cache a request for the last two events is not served: %s %s", r.outcome, errShort(r.err)))
	}
	scenLine("rolled-cache", "ok", fmt.Sprintf("requests=%d own-events=%d cache=%d", delivered, last+1, cache))
}

func scenarios(g *grammar) {
	scenarioRolledCache(g)
	poisoned := "evil\xef\xbf\xbd" // U+FFFD
	scenarioPoisonedString(g, "join-moniker-U+FFFD", func(w *world) callRes {
		// anyone: a correctly self-signed join request; only the moniker is unusual
		itx := hg.NewInternalTransaction(hg.PEER_ADD, *peers.NewPeer(w.outsiderHex(), "1.2.3.4:1337", poisoned))
		itx.Sign(w.outsider)
		var req net.JoinRequest
		// on the wire one invalid UTF-8 byte is enough: encoding/json decodes it as U+FFFD
		viaJSON(&net.JoinRequest{InternalTransaction: itx}, &req)
		return rpcCall(w.nodes[2].n, &req)
	})
	scenarioPoisonedString(g, "join-moniker-plain", func(w *world) callRes {
		itx := hg.NewInternalTransaction(hg.PEER_ADD, *peers.NewPeer(w.outsiderHex(), "1.2.3.4:1337", "plain"))
		itx.Sign(w.outsider)
		return rpcCall(w.nodes[2].n, &net.JoinRequest{InternalTransaction: itx})
	})
	scenarioPoisonedString(g, "byz-block-signature-U+FFFD", func(w *world) callRes {
		// a validator: the signature STRING of a block signature is free text inside its signed event
		byz := nValidators - 1
		t := w.nodes[1]
		we, ok := w.byzEvent(t, byz, nil, []hg.BlockSignature{{Index: 5000, Signature: "1|" + strings.Repeat("\xef\xbf\xbd", 2)}}, nil)
		if !ok {
			return callRes{outcome: "skipped"}
		}
		return eager(w.nodes[byz].id, []hg.WireEvent{we})(w, t)
	})
	scenarioRestart(g)
}

func quietEntry() *logrus.Entry {
	l := logrus.New()
	l.Out = io.Discard
	l.Level = logrus.PanicLevel
	return logrus.NewEntry(l)
}
