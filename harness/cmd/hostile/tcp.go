package main

import (
	"bytes"
	"encoding/json"
	"fmt"
	"io"
	gonet "net"
	"os"
	"os/exec"
	"regexp"
	"runtime"
	"strings"
	"sync"
	"time"

	hg "github.com/mosaicnetworks/babble/src/hashgraph"
	"github.com/mosaicnetworks/babble/src/net"
)

// Part c: a real TCP NetworkTransport on an ephemeral loopback port, its consumer served by a real
// node (every RPC under recover), fed raw byte strings. The transport's own goroutines
// (Listen/handleConn) cannot be put under recover from outside, so part c runs in a CHILD process:
// if the transport panics the child dies and the parent reports panic:<function>.

func partC(g *grammar) {
	args := []string{"-tcpchild", "-seed", fmt.Sprint(seedFlag)}
	if thorough {
		args = append(args, "-thorough")
	}
	cmd := exec.Command(os.Args[0], args...)
	var so, se bytes.Buffer
	cmd.Stdout, cmd.Stderr = &so, &se
	err := cmd.Run()
	for _, l := range strings.Split(so.String(), "\n") {
		switch {
		case strings.HasPrefix(l, "V C08 "):
			t := strings.SplitN(l, " ", 4)
			d := ""
			if len(t) > 3 {
				d = t[3]
			}
			violation(t[2], d)
		case strings.HasPrefix(l, "Z "):
			var k string
			var v int
			if n, _ := fmt.Sscanf(l, "Z %s %d", &k, &v); n == 2 {
				stats[k] += v
			}
		case l != "":
			fmt.Fprintln(out, l)
		}
	}
	if err != nil {
		site := "unknown"
		if m := regexp.MustCompile(`babble/src/([^\s(]+(?:\([^)]*\))?[^\s(]*)\(`).FindStringSubmatch(se.String()); m != nil {
			site = m[1]
		}
		last := ""
		for _, l := range strings.Split(so.String(), "\n") {
			if strings.HasPrefix(l, "T ") {
				last = l
			}
		}
		violation("panic:"+site, "tcp the process serving the gossip port died ("+errShort(err)+") after: "+last)
		fmt.Fprintf(out, "T child-crashed %s\n", errShort(err))
	}
}

type tcpCase struct {
	id    string
	data  []byte
	close bool // half-close the write side after sending
}

func frame(rpcType byte, v interface{}) []byte {
	b, _ := json.Marshal(v)
	return append(append([]byte{rpcType}, b...), '\n')
}

func tcpChild(g *grammar) {
	w := newWorld(g, 1000)
	w.honestSteps(60)
	w.catchUp(w.nodes[0])
	t := w.nodes[0]
	trans, err := net.NewTCPTransport("127.0.0.1:0", "", 2, 200*time.Millisecond, 200*time.Millisecond, quietEntry())
	if err != nil {
		fmt.Fprintf(out, "T skipped no-loopback %s\n", errShort(err))
		return
	}
	go trans.Listen()
	addr := trans.LocalAddr()
	// the node behind the port; when an RPC handler panics (reported with its site by parts a/b) the
	// real process would be dead: the harness replaces the node by a fresh one before the next case
	var mu sync.Mutex
	cur := t
	rpcPanics, dead, lastSite := 0, false, ""
	go func() {
		for rpc := range trans.Consumer() {
			rpc := rpc
			mu.Lock()
			nd := cur
			mu.Unlock()
			go func() {
				defer func() {
					if recover() != nil {
						site := panicSite()
						mu.Lock()
						rpcPanics++
						dead = true
						lastSite = site
						mu.Unlock()
						rpc.Respond(nil, fmt.Errorf("handler panicked"))
					}
				}()
				nd.n.VerifProcessRPC(rpc)
			}()
		}
	}()

	h1 := w.nodes[1]
	validSync := frame(1, &net.SyncRequest{FromID: h1.id, Known: h1.n.VerifCore().KnownEvents(), SyncLimit: 10})
	evs := w.freshHonest(t)
	validEager := frame(2, &net.EagerSyncRequest{FromID: h1.id, Events: evs})
	validFF := frame(3, &net.FastForwardRequest{FromID: h1.id})
	validJoin := frame(0, &net.JoinRequest{InternalTransaction: signedItx(w.outsiderHex(), w.outsider)})
	bases := map[string][]byte{"sync": validSync, "eager": validEager, "ff": validFF, "join": validJoin}

	cases := []tcpCase{}
	add := func(id string, d []byte, cl bool) { cases = append(cases, tcpCase{id, d, cl}) }
	add("empty", nil, true)
	for _, b := range []byte{0, 1, 2, 3, 4, 5, 0x7f, 0x80, 0xff, '{', '\n'} {
		add(fmt.Sprintf("one-byte-%02x", b), []byte{b}, true)
		add(fmt.Sprintf("one-byte-%02x-open", b), []byte{b}, false)
	}
	for _, name := range []string{"sync", "eager", "ff", "join"} {
		base := bases[name]
		add(name+"/valid", base, false)
		add(name+"/valid-twice", append(append([]byte{}, base...), base...), false)
		for _, frac := range []int{1, 2, 5, 10, 25, 50, 75, 90, 99} {
			n := len(base) * frac / 100
			if n < 1 {
				n = 1
			}
			add(fmt.Sprintf("%s/truncated-%d%%-closed", name, frac), base[:n], true)
			if frac == 50 {
				add(fmt.Sprintf("%s/truncated-%d%%-open", name, frac), base[:n], false)
			}
		}
		nflip := 12
		if thorough {
			nflip = 200
		}
		for i := 0; i < nflip; i++ {
			d := append([]byte{}, base...)
			p := rng.Intn(len(d))
			d[p] ^= 1 << uint(rng.Intn(8))
			add(fmt.Sprintf("%s/bitflip-%d@%d", name, i, p), d, true)
		}
		for i := 0; i < nflip/3; i++ {
			d := append([]byte{}, base...)
			p := rng.Intn(len(d))
			d[p] = byte(rng.Intn(256))
			q := rng.Intn(len(d))
			d[q] = byte(rng.Intn(256))
			add(fmt.Sprintf("%s/2bytes-%d", name, i), d, true)
		}
	}
	nrand := 10
	if thorough {
		nrand = 300
	}
	for i := 0; i < nrand; i++ {
		d := make([]byte, 1+rng.Intn(300))
		rng.Read(d)
		add(fmt.Sprintf("random-%d", i), d, true)
		d2 := append([]byte{byte(rng.Intn(4))}, d...)
		add(fmt.Sprintf("random-typed-%d", i), d2, true)
	}
	// hand-written hostile JSON bodies
	hostile := map[string]string{
		"sync/null":             "null",
		"sync/array":            "[1,2,3]",
		"sync/string":           `"x"`,
		"sync/number":           "1e999999",
		"sync/limit-overflow":   `{"FromID":1,"Known":{},"SyncLimit":99999999999999999999}`,
		"sync/limit-negative":   `{"FromID":1,"Known":{},"SyncLimit":-1}`,
		"sync/limit-minint":     `{"FromID":1,"Known":null,"SyncLimit":-9223372036854775808}`,
		"sync/limit-float":      `{"FromID":1,"Known":{},"SyncLimit":1.5}`,
		"sync/from-negative":    `{"FromID":-1,"Known":{},"SyncLimit":1}`,
		"sync/from-overflow":    `{"FromID":4294967296,"Known":{},"SyncLimit":1}`,
		"sync/known-badkey":     `{"FromID":1,"Known":{"abc":1},"SyncLimit":1}`,
		"sync/known-negkey":     `{"FromID":1,"Known":{"-1":1},"SyncLimit":1}`,
		"sync/known-array":      `{"FromID":1,"Known":[1,2],"SyncLimit":1}`,
		"sync/known-minint":     `{"FromID":1,"Known":{"1":-9223372036854775808},"SyncLimit":1}`,
		"sync/dup-keys":         `{"FromID":1,"FromID":2,"Known":{},"Known":null,"SyncLimit":1,"SyncLimit":-1}`,
		"sync/unknown-fields":   `{"FromID":1,"Known":{},"SyncLimit":1,"Extra":{"a":[1,2,{"b":null}]}}`,
		"sync/case-insens":      `{"fromid":1,"KNOWN":{},"synclimit":-1}`,
		"sync/deep-nesting":     strings.Repeat("[", 20000) + strings.Repeat("]", 20000),
		"sync/deep-known":       `{"Known":` + strings.Repeat(`{"1":`, 12000) + "1" + strings.Repeat("}", 12000) + "}",
		"sync/huge-string":      `{"Extra":"` + strings.Repeat("A", 2<<20) + `"}`,
		"sync/bad-utf8":         "{\"Extra\":\"\xff\xfe\"}",
		"sync/nul-bytes":        "{\"FromID\":1\x00}",
		"eager/events-null":     `{"FromID":1,"Events":null}`,
		"eager/events-nulls":    `{"FromID":1,"Events":[null,null]}`,
		"eager/event-empty":     `{"FromID":1,"Events":[{}]}`,
		"eager/body-null":       `{"FromID":1,"Events":[{"Body":null,"Signature":null}]}`,
		"eager/txs-not-base64":  `{"FromID":1,"Events":[{"Body":{"Transactions":["***"]}}]}`,
		"eager/itx-null":        `{"FromID":1,"Events":[{"Body":{"InternalTransactions":[null]}}]}`,
		"eager/itx-empty":       `{"FromID":1,"Events":[{"Body":{"CreatorID":%CREATOR%,"InternalTransactions":[{}]}}]}`,
		"eager/itx-badsig":      `{"FromID":1,"Events":[{"Body":{"CreatorID":%CREATOR%,"InternalTransactions":[{"Body":{"Type":0,"Peer":{"PubKeyHex":"0X04"}},"Signature":"!|!"}]}}]}`,
		"eager/sig-bad":         `{"FromID":1,"Events":[{"Body":{"CreatorID":%CREATOR%},"Signature":"!|!"}]}`,
		"eager/many-empty":      `{"FromID":1,"Events":[` + strings.Repeat("{},", 20000) + `{}]}`,
		"eager/bsigs-null":      `{"FromID":1,"Events":[{"Body":{"CreatorID":%CREATOR%,"BlockSignatures":[null]}}]}`,
		"ff/null":               "null",
		"ff/from-string":        `{"FromID":"1"}`,
		"join/null":             "null",
		"join/empty":            "{}",
		"join/itx-null":         `{"InternalTransaction":null}`,
		"join/peer-null":        `{"InternalTransaction":{"Body":{"Type":0,"Peer":null},"Signature":"1|1"}}`,
		"join/type-overflow":    `{"InternalTransaction":{"Body":{"Type":256,"Peer":{}},"Signature":"1|1"}}`,
		"join/type-negative":    `{"InternalTransaction":{"Body":{"Type":-1,"Peer":{}},"Signature":"1|1"}}`,
		"join/empty-key":        `{"InternalTransaction":{"Body":{"Type":0,"Peer":{"NetAddr":"","PubKeyHex":"","Moniker":""}},"Signature":"1|1"}}`,
		"join/bad-sig":          `{"InternalTransaction":{"Body":{"Type":0,"Peer":{"NetAddr":"","PubKeyHex":"0X04","Moniker":""}},"Signature":"!|!"}}`,
		"join/moniker-bad-utf8": "{\"InternalTransaction\":{\"Body\":{\"Type\":0,\"Peer\":{\"NetAddr\":\"\",\"PubKeyHex\":\"0X04\",\"Moniker\":\"\xff\"}},\"Signature\":\"0|0\"}}",
	}
	rpcOf := map[string]byte{"join": 0, "sync": 1, "eager": 2, "ff": 3}
	hk := []string{}
	for k := range hostile {
		hk = append(hk, k)
	}
	sortStrings(hk)
	for _, k := range hk {
		body := strings.ReplaceAll(hostile[k], "%CREATOR%", fmt.Sprint(h1.id))
		add("json:"+k, append([]byte{rpcOf[strings.SplitN(k, "/", 2)[0]]}, body...), true)
	}
	for _, ty := range []byte{4, 9, 0xff} {
		add(fmt.Sprintf("unknown-rpc-type-%d", ty), append([]byte{ty}, validSync[1:]...), true)
	}
	if thorough {
		// exploration: how much does the node buffer for ONE request that never ends?
		add("explore/unterminated-string-48MB", append([]byte{1}, []byte(`{"Extra":"`+strings.Repeat("A", 48<<20))...), false)
	}

	probe := func() string {
		c, err := gonet.DialTimeout("tcp", addr, time.Second)
		if err != nil {
			return "dial:" + errShort(err)
		}
		defer c.Close()
		h1k := frame(1, &net.SyncRequest{FromID: h1.id, Known: h1.n.VerifCore().KnownEvents(), SyncLimit: 10})
		c.SetDeadline(time.Now().Add(2 * time.Second))
		if _, err := c.Write(h1k); err != nil {
			return "write:" + errShort(err)
		}
		dec := json.NewDecoder(c)
		var e string
		if err := dec.Decode(&e); err != nil {
			return "no-answer:" + errShort(err)
		}
		var resp net.SyncResponse
		if err := dec.Decode(&resp); err != nil {
			return "bad-answer:" + errShort(err)
		}
		if e != "" {
			return "error-answer:" + errShort(fmt.Errorf(e))
		}
		return ""
	}

	var ms runtime.MemStats
	for i, tc := range cases {
		before := blocksOf(t.n)
		runtime.ReadMemStats(&ms)
		heap0 := ms.HeapAlloc
		res := func() string {
			c, err := gonet.DialTimeout("tcp", addr, time.Second)
			if err != nil {
				return "dial-failed"
			}
			defer c.Close()
			c.SetDeadline(time.Now().Add(1500 * time.Millisecond))
			if len(tc.data) > 0 {
				if _, err := c.Write(tc.data); err != nil {
					return "write-failed"
				}
			}
			if tc.close {
				c.(*gonet.TCPConn).CloseWrite()
			}
			wait := 120 * time.Millisecond
			if strings.HasPrefix(tc.id, "join") || strings.Contains(tc.id, "huge") || strings.Contains(tc.id, "explore") || strings.Contains(tc.id, "deep") || strings.Contains(tc.id, "many") {
				wait = 1200 * time.Millisecond
			}
			c.SetReadDeadline(time.Now().Add(wait))
			buf, err := io.ReadAll(io.LimitReader(c, 1<<20))
			cls := "closed"
			if ne, ok := err.(gonet.Error); ok && ne.Timeout() {
				cls = "open"
			}
			if len(buf) == 0 {
				return cls + "/no-data"
			}
			dec := json.NewDecoder(bytes.NewReader(buf))
			var e string
			if err := dec.Decode(&e); err != nil {
				return cls + "/garbled-answer"
			}
			if e != "" {
				return cls + "/answered-error"
			}
			return cls + "/answered-ok"
		}()
		runtime.ReadMemStats(&ms)
		grown := int64(ms.HeapAlloc) - int64(heap0)
		extra := ""
		if grown > 8<<20 {
			extra = fmt.Sprintf(" heap+%dMB", grown>>20)
			stats["c.cases-buffering-more-than-8MB"]++
		}
		mu.Lock()
		wasDead := dead
		dead = false
		mu.Unlock()
		if wasDead {
			w.rebuildTarget()
			t = w.nodes[0]
			mu.Lock()
			cur = t
			mu.Unlock()
			mu.Lock()
			site := lastSite
			mu.Unlock()
			res += "/rpc-handler-panicked@" + site
			violation("panic:"+site, fmt.Sprintf("tcp case=%s (raw bytes on the gossip port reach the handler; the node process would be dead)", tc.id))
			before = blocksOf(t.n)
		}
		p := probe()
		after := "ok"
		if p != "" {
			after = "wedged:" + p
			violation("node-wedged", fmt.Sprintf("tcp case=%s probe=%s", tc.id, p))
		}
		blocks := "same"
		if d := blocksChanged(before, blocksOf(t.n)); d != "" {
			blocks = "changed"
			violation("blocks-changed", fmt.Sprintf("tcp case=%s %s", tc.id, d))
		}
		fmt.Fprintf(out, "T %d %s len=%d => %s%s blocks=%s after=%s\n", i, tc.id, len(tc.data), res, extra, blocks, after)
		out.Flush()
		stats["c.cases"]++
		stats["c.outcome."+res]++
	}
	stats["c.rpc-handler-panics-behind-tcp"] = rpcPanics
	_ = hg.PEER_ADD
}

func sortStrings(s []string) {
	for i := 1; i < len(s); i++ {
		for j := i; j > 0 && s[j] < s[j-1]; j-- {
			s[j], s[j-1] = s[j-1], s[j]
		}
	}
}
