package main

import (
	"crypto/ecdsa"
	"crypto/sha256"
	"encoding/hex"
	"encoding/json"
	"fmt"
	"io"
	"runtime"
	"sort"
	"strings"
	"time"

	"github.com/mosaicnetworks/babble/src/config"
	"github.com/mosaicnetworks/babble/src/crypto/keys"
	hg "github.com/mosaicnetworks/babble/src/hashgraph"
	"github.com/mosaicnetworks/babble/src/net"
	"github.com/mosaicnetworks/babble/src/node"
	_state "github.com/mosaicnetworks/babble/src/node/state"
	"github.com/mosaicnetworks/babble/src/peers"
	"github.com/mosaicnetworks/babble/src/proxy"
)

// appProxy is the application of one node: records what is delivered / restored.
type appProxy struct {
	submitCh  chan []byte
	state     []byte
	delivered []string // "<index>:<digest of the delivered content>"
	restores  int
	lastSnap  []byte
}

func newApp() *appProxy { return &appProxy{submitCh: make(chan []byte)} }

func (a *appProxy) SubmitCh() chan []byte { return a.submitCh }
func (a *appProxy) CommitBlock(b hg.Block) (proxy.CommitResponse, error) {
	h := sha256.New()
	h.Write(a.state)
	for _, tx := range b.Transactions() {
		h.Write(tx)
		h.Write([]byte{0})
	}
	a.state = h.Sum(nil)
	a.delivered = append(a.delivered, fmt.Sprintf("%d:%x", b.Index(), a.state[:6]))
	// the application refuses every membership change: the validator set of a world is fixed
	rs := []hg.InternalTransactionReceipt{}
	for _, it := range b.InternalTransactions() {
		i := it
		rs = append(rs, i.AsRefused())
	}
	return proxy.CommitResponse{StateHash: a.state, InternalTransactionReceipts: rs}, nil
}
func (a *appProxy) GetSnapshot(i int) ([]byte, error) { return []byte(fmt.Sprintf("snap%d", i)), nil }
func (a *appProxy) Restore(s []byte) error {
	a.restores++
	a.lastSnap = s
	return nil
}
func (a *appProxy) OnStateChanged(_state.State) error { return nil }

type hnode struct {
	idx   int
	n     *node.Node
	app   *appProxy
	trans *net.InmemTransport
	id    uint32
	conf  *config.Config
}

type world struct {
	g        *grammar
	privs    []*ecdsa.PrivateKey
	peerl    []*peers.Peer
	nodes    []*hnode // 0 = target, 1.. = honest
	outsider *ecdsa.PrivateKey
	evil     *net.InmemTransport
	evilResp chan *net.FastForwardResponse // what the hostile responder answers next
	evilStop chan struct{}
	txSerial int
	syncLim  int
	rebuilds int
	// watchdog of honest pulls: long for bulk catch-up, short inside the scenarios (where a hang is the finding)
	pullWatchdog time.Duration
}

const nValidators = 5

func newWorld(g *grammar, syncLimit int) *world {
	w := &world{g: g, syncLim: syncLimit, pullWatchdog: honestWatchdog}
	for i := 0; i < nValidators; i++ {
		k, _ := keys.GenerateECDSAKey()
		w.privs = append(w.privs, k)
		w.peerl = append(w.peerl, peers.NewPeer(keys.PublicKeyHex(&k.PublicKey), fmt.Sprintf("addr%d", i), fmt.Sprintf("m%d", i)))
	}
	w.outsider, _ = keys.GenerateECDSAKey()
	_, w.evil = net.NewInmemTransport("evil")
	w.evilResp = make(chan *net.FastForwardResponse, 16)
	w.evilStop = make(chan struct{})
	go w.evilLoop()
	for i := 0; i < nValidators; i++ {
		w.nodes = append(w.nodes, w.newNode(i))
	}
	return w
}

func (w *world) close() { close(w.evilStop) }

// evilLoop: the hostile fast-forward responder behind every address the target may dial.
func (w *world) evilLoop() {
	var cur *net.FastForwardResponse
	for {
		select {
		case rpc := <-w.evil.Consumer():
			select {
			case r := <-w.evilResp:
				cur = r
			default:
			}
			if _, ok := rpc.Command.(*net.FastForwardRequest); ok && cur != nil {
				rpc.Respond(cur, nil)
			} else {
				rpc.Respond(nil, fmt.Errorf("no"))
			}
		case <-w.evilStop:
			return
		}
	}
}

func (w *world) peerSet() *peers.PeerSet {
	l := []*peers.Peer{}
	for _, p := range w.peerl {
		l = append(l, peers.NewPeer(p.PubKeyHex, p.NetAddr, p.Moniker))
	}
	return peers.NewPeerSet(l)
}

func (w *world) newNode(i int) *hnode { return w.newNodeWith(i, nil, false) }

// newNodeWith: store == nil means a fresh in-memory store; bootstrap loads the hashgraph from the store.
func (w *world) newNodeWith(i int, store hg.Store, bootstrap bool) *hnode {
	return w.newNodeCache(i, store, bootstrap, 10000)
}

// newNodeCache: the same with a chosen cache size (per-participant index windows roll after cacheSize events)
func (w *world) newNodeCache(i int, store hg.Store, bootstrap bool, cacheSize int) *hnode {
	conf := config.NewDefaultConfig()
	conf.Bootstrap = bootstrap
	conf.LogLevel = "debug"
	if !thorough {
		conf.LogLevel = "error"
	}
	lg := conf.Logger()
	lg.Logger.Out = io.Discard
	conf.SyncLimit = w.syncLim
	conf.JoinTimeout = 15 * time.Millisecond
	conf.EnableFastSync = false
	conf.CacheSize = cacheSize
	conf.HeartbeatTimeout = time.Hour
	conf.SlowHeartbeatTimeout = time.Hour
	_, tr := net.NewInmemTransport(w.peerl[i].NetAddr)
	app := newApp()
	if store == nil {
		store = hg.NewInmemStore(conf.CacheSize)
	}
	n := node.NewNode(conf, node.NewValidator(w.privs[i], w.peerl[i].Moniker), w.peerSet(), w.peerSet(), store, tr, app)
	if err := n.Init(); err != nil {
		panic(err)
	}
	for j := range w.peerl {
		if j != i {
			// every outgoing request of this node ends at the hostile responder
			tr.Connect(w.peerl[j].NetAddr, w.evil)
		}
	}
	return &hnode{idx: i, n: n, app: app, trans: tr, id: w.peerl[i].ID(), conf: conf}
}

// ---- guarded calls with a watchdog ----

const watchdog = 2 * time.Second

type callRes struct {
	outcome string // ok | err | panic | hang | noresponse
	site    string
	resp    interface{}
	err     error
	hin     string // model input of the case (computed before the delivery), "" if none
	input   string // the delivered hostile message (JSON), for the violation report
}

// guardedGo runs f in a goroutine under recover, with a watchdog.
func guardedGo(f func() (interface{}, error)) callRes { return guardedGoT(watchdog, f) }

// honest bulk traffic (catching up a rebuilt node) gets a longer watchdog: it must not be mistaken
// for a hang when the machine is busy
const honestWatchdog = 20 * time.Second

func guardedGoT(limit time.Duration, f func() (interface{}, error)) callRes {
	done := make(chan callRes, 1)
	go func() {
		var r callRes
		defer func() {
			if p := recover(); p != nil {
				r = callRes{outcome: "panic", site: panicSite()}
			}
			done <- r
		}()
		v, err := f()
		r = callRes{outcome: "ok", resp: v, err: err}
		if err != nil {
			r.outcome = "err"
		}
	}()
	select {
	case r := <-done:
		return r
	case <-time.After(limit):
		return callRes{outcome: "hang"}
	}
}

// hangSite: the innermost babble function on the stack of the goroutine that is still running a
// guarded call (the watchdog fired).
func hangSite() string {
	buf := make([]byte, 1<<20)
	n := runtime.Stack(buf, true)
	for _, g := range strings.Split(string(buf[:n]), "\n\n") {
		if !strings.Contains(g, "main.guardedGoT.func1") {
			continue
		}
		first := ""
		for _, ln := range strings.Split(g, "\n") {
			if strings.HasPrefix(ln, "\t") || strings.HasPrefix(ln, "goroutine ") {
				continue
			}
			fn := ln
			if i := strings.LastIndex(fn, "("); i > 0 {
				fn = fn[:i]
			}
			if first == "" && !strings.HasPrefix(fn, "runtime.") {
				first = fn
			}
			if i := strings.Index(fn, "babble/src/"); i >= 0 {
				return fn[i+len("babble/src/"):]
			}
		}
		if first != "" {
			return first
		}
	}
	return "unknown"
}

// rpcCall delivers cmd to the node's RPC dispatcher as the transport would.
func rpcCall(n *node.Node, cmd interface{}) callRes {
	ch := make(chan net.RPCResponse, 1)
	r := guardedGo(func() (interface{}, error) {
		n.VerifProcessRPC(net.RPC{Command: cmd, RespChan: ch})
		return nil, nil
	})
	if r.outcome != "ok" {
		return r
	}
	select {
	case resp := <-ch:
		r.resp, r.err = resp.Response, resp.Error
		if resp.Error != nil {
			r.outcome = "err"
		}
	default:
		r.outcome = "noresponse"
	}
	return r
}

// viaJSON passes a message through the wire encoding (what a remote party can actually deliver).
func viaJSON(in interface{}, outp interface{}) bool {
	b, err := json.Marshal(in)
	if err != nil {
		return false
	}
	return json.Unmarshal(b, outp) == nil
}

// ---- honest traffic ----

func (w *world) newTx() []byte {
	w.txSerial++
	return []byte(fmt.Sprintf("tx%d", w.txSerial))
}

// pull: a asks b for what it lacks and inserts it (as Node.pull does).
func (w *world) pull(a, b *hnode) error {
	r := w.pullRes(a, b)
	if r.outcome != "ok" {
		return fmt.Errorf("honest pull: %s %s %v", r.outcome, r.site, r.err)
	}
	return nil
}

func (w *world) pullRes(a, b *hnode) callRes {
	known := a.n.VerifCore().KnownEvents()
	r := rpcCall(b.n, &net.SyncRequest{FromID: a.id, Known: known, SyncLimit: 1000})
	if r.outcome != "ok" {
		return r
	}
	resp := r.resp.(*net.SyncResponse)
	return guardedGoT(w.pullWatchdog, func() (interface{}, error) { return nil, a.n.VerifSync(b.id, resp.Events) })
}

// honestSteps: gossip among the honest nodes 1.. (the target never pushes anything out).
func (w *world) honestSteps(k int) {
	for s := 0; s < k; s++ {
		a := 1 + rng.Intn(nValidators-1)
		b := 1 + rng.Intn(nValidators-2)
		if b >= a {
			b++
		}
		if rng.Intn(3) == 0 {
			w.nodes[a].n.VerifAddTransaction(w.newTx())
		}
		if err := w.pull(w.nodes[a], w.nodes[b]); err != nil {
			violation("honest-traffic-failed", err.Error())
		}
	}
}

// catchUp: the target pulls everything the honest nodes have.
func (w *world) catchUp(t *hnode) error {
	for round := 0; round < 3; round++ {
		for i := 1; i < nValidators; i++ {
			if err := w.pull(t, w.nodes[i]); err != nil {
				return err
			}
		}
	}
	return nil
}

func (w *world) rebuildTarget() {
	w.rebuilds++
	w.nodes[0] = w.newNode(0)
	if err := w.catchUp(w.nodes[0]); err != nil {
		violation("honest-traffic-failed", "rebuild: "+err.Error())
	}
}

// ---- observations ----

// blocksOf: index -> body hash of every block in the node's store.
func blocksOf(n *node.Node) map[int]string {
	m := map[int]string{}
	for i := 0; i <= n.GetLastBlockIndex(); i++ {
		b, err := n.GetBlock(i)
		if err != nil {
			continue
		}
		h, _ := b.Body.Hash()
		m[i] = hex.EncodeToString(h[:8])
	}
	return m
}

func blocksChanged(before, after map[int]string) string {
	idx := []int{}
	for i := range before {
		idx = append(idx, i)
	}
	sort.Ints(idx)
	for _, i := range idx {
		a, ok := after[i]
		if !ok {
			return fmt.Sprintf("block %d disappeared", i)
		}
		if a != before[i] {
			return fmt.Sprintf("block %d body changed", i)
		}
	}
	return ""
}

// serveProbe ("still serves"), run after EVERY hostile node-level case whatever its kind, state and
// outcome class (the node is put back into Babbling first): the core lock must be obtainable
// (addTransaction returns within the watchdog), a VALID sync request must be answered, a VALID eager
// sync with one new honest event must be accepted and inserted, and the node must still be able to
// create a self-event and process its signature pool (monologue).
func (w *world) serveProbe(t *hnode) string {
	h := w.nodes[1]
	if g := guardedGo(func() (interface{}, error) { t.n.VerifAddTransaction(w.newTx()); return nil, nil }); g.outcome != "ok" {
		return "core-lock:" + g.outcome + siteSuffix(g)
	}
	r := rpcCall(t.n, &net.SyncRequest{FromID: h.id, Known: h.n.VerifCore().KnownEvents(), SyncLimit: 1000})
	if r.outcome != "ok" {
		return "sync-request:" + r.outcome + siteSuffix(r)
	}
	h.n.VerifAddTransaction(w.newTx())
	if err := h.n.VerifCore().AddSelfEvent(""); err != nil {
		return "honest-self-event-failed"
	}
	tk := t.n.VerifCore().KnownEvents()
	diff, err := h.n.VerifCore().EventDiff(tk)
	if err != nil {
		return "honest-diff-failed"
	}
	wevs, _ := h.n.VerifCore().ToWire(diff)
	before := tk[h.id]
	r = rpcCall(t.n, &net.EagerSyncRequest{FromID: h.id, Events: wevs})
	if r.outcome != "ok" {
		return "eager-sync:" + r.outcome + siteSuffix(r)
	}
	if after := t.n.VerifCore().KnownEvents()[h.id]; after <= before {
		return "eager-sync:not-inserted"
	}
	seqBefore := t.n.VerifCore().Seq()
	if g := guardedGo(func() (interface{}, error) { return nil, t.n.VerifMonologue() }); g.outcome != "ok" {
		return "self-event:" + g.outcome + siteSuffix(g)
	}
	if t.n.VerifCore().Busy() && t.n.VerifCore().Seq() < seqBefore {
		return "self-event:head-went-backwards"
	}
	return ""
}

// lockProbe: the part of the probe that applies in every state, also right after a rejected
// fast-forward response (before the retry): the core lock is free.
func (w *world) lockProbe(t *hnode) string {
	if g := guardedGo(func() (interface{}, error) { t.n.VerifAddTransaction(w.newTx()); return nil, nil }); g.outcome != "ok" {
		return "core-lock:" + g.outcome + siteSuffix(g)
	}
	return ""
}

func siteSuffix(r callRes) string {
	if r.site != "" {
		return "@" + r.site
	}
	if r.err != nil {
		return "(" + errShort(r.err) + ")"
	}
	return ""
}

func errShort(err error) string {
	s := err.Error()
	if len(s) > 60 {
		s = s[:60]
	}
	out := []rune{}
	for _, c := range s {
		if c == ' ' {
			c = '_'
		}
		if c < 33 || c > 126 {
			c = '?'
		}
		out = append(out, c)
	}
	return string(out)
}
