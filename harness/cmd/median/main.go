// Command median: Go common.Median vs the model on generated lists (C18).
// Lines:  M <honest count> <byz count> H <honest...> B <byz...> L <the list as passed> => <median>
package main

import (
	"bufio"
	"flag"
	"fmt"
	"math"
	"math/rand"
	"os"

	"github.com/mosaicnetworks/babble/src/common"
)

func main() {
	seed := flag.Int64("seed", 1, "seed")
	n := flag.Int("n", 3000, "number of lists")
	flag.Parse()
	rng := rand.New(rand.NewSource(*seed))
	w := bufio.NewWriter(os.Stdout)
	defer w.Flush()
	extremes := []int64{math.MinInt64, math.MinInt64 + 1, math.MaxInt64, math.MaxInt64 - 1, 0, -1, 1,
		6148914691236517205, -6148914691236517205, 6148914691236517206, -6148914691236517206,
		1 << 62, -(1 << 62), (1 << 62) - 1, 4611686018427387905, -4611686018427387905, 9e18, -9e18}
	for c := 0; c < *n; c++ {
		nh := rng.Intn(26)
		maxb := 0
		switch rng.Intn(3) {
		case 0: // fewer than one third
			if nh > 0 {
				maxb = (nh - 1) / 2
			}
		case 1: // fewer than one half
			if nh > 0 {
				maxb = nh - 1
			}
		default:
			maxb = 0
		}
		nb := 0
		if maxb > 0 {
			nb = rng.Intn(maxb + 1)
		}
		base := int64(1600000000)
		if rng.Intn(4) == 0 {
			base = []int64{0, -1000, (1 << 62) - 200, -(1 << 62) + 3}[rng.Intn(4)]
		}
		spread := []int64{1, 10, 100}[rng.Intn(3)]
		hon := make([]int64, nh)
		for i := range hon {
			hon[i] = base + rng.Int63n(spread)
		}
		byz := make([]int64, nb)
		for i := range byz {
			if rng.Intn(4) == 0 {
				byz[i] = rng.Int63() - rng.Int63()
			} else {
				byz[i] = extremes[rng.Intn(len(extremes))]
			}
		}
		all := append(append([]int64{}, hon...), byz...)
		for rep := 0; rep < 3; rep++ {
			rng.Shuffle(len(all), func(i, j int) { all[i], all[j] = all[j], all[i] })
			before := append([]int64{}, all...)
			m := common.Median(all)
			mutated := 0
			for i := range all {
				if all[i] != before[i] {
					mutated = 1
				}
			}
			fmt.Fprintf(w, "M %d %d H", nh, nb)
			for _, x := range hon {
				fmt.Fprintf(w, " %d", x)
			}
			fmt.Fprintf(w, " B")
			for _, x := range byz {
				fmt.Fprintf(w, " %d", x)
			}
			fmt.Fprintf(w, " L")
			for _, x := range before {
				fmt.Fprintf(w, " %d", x)
			}
			fmt.Fprintf(w, " => %d %d\n", m, mutated)
		}
	}
}
