package main

import (
	"encoding/hex"
	"fmt"
	"math"
	"math/rand"
	"sort"
	"strings"
	"unicode/utf8"

	hg "github.com/mosaicnetworks/babble/src/hashgraph"
	"github.com/mosaicnetworks/babble/src/peers"
	"github.com/mosaicnetworks/babble/src/proxy"
)

// ---------- canonical text ----------

// bytes: "~" nil, "x<hex>" otherwise ("x" = empty)
func bTok(b []byte) string {
	if b == nil {
		return "~"
	}
	return "x" + hex.EncodeToString(b)
}

// string: "s:" + units; g<codepoint> for a well-formed rune, b<byte> for a byte that is not part of one
func sTok(s string) string {
	u := []string{}
	for i := 0; i < len(s); {
		r, w := utf8.DecodeRuneInString(s[i:])
		if r == utf8.RuneError && w == 1 {
			u = append(u, fmt.Sprintf("b%d", s[i]))
		} else {
			u = append(u, fmt.Sprintf("g%d", r))
		}
		i += w
	}
	return "s:" + strings.Join(u, ",")
}

func itxTok(it hg.InternalTransaction) string {
	return fmt.Sprintf("%d %s %s %s %s", int(it.Body.Type), sTok(it.Body.Peer.NetAddr), sTok(it.Body.Peer.PubKeyHex),
		sTok(it.Body.Peer.Moniker), sTok(it.Signature))
}

func cnt(n int, isNil bool) int {
	if isNil {
		return -1
	}
	return n
}

// fields of a block in canonical text, keyed by field name
func blockFields(b *hg.Block) map[string]string {
	f := map[string]string{}
	f["Index"] = fmt.Sprint(b.Body.Index)
	f["RoundReceived"] = fmt.Sprint(b.Body.RoundReceived)
	f["Timestamp"] = fmt.Sprint(b.Body.Timestamp)
	f["StateHash"] = bTok(b.Body.StateHash)
	f["FrameHash"] = bTok(b.Body.FrameHash)
	f["PeersHash"] = bTok(b.Body.PeersHash)
	t := []string{fmt.Sprint(cnt(len(b.Body.Transactions), b.Body.Transactions == nil))}
	for _, tx := range b.Body.Transactions {
		t = append(t, bTok(tx))
	}
	f["Transactions"] = strings.Join(t, " ")
	it := []string{fmt.Sprint(cnt(len(b.Body.InternalTransactions), b.Body.InternalTransactions == nil))}
	for _, x := range b.Body.InternalTransactions {
		it = append(it, itxTok(x))
	}
	f["InternalTransactions"] = strings.Join(it, " ")
	f["InternalTransactionReceipts"] = receiptsTok(b.Body.InternalTransactionReceipts)
	keys := []string{}
	for k := range b.Signatures {
		keys = append(keys, k)
	}
	sort.Strings(keys)
	s := []string{fmt.Sprint(cnt(len(b.Signatures), b.Signatures == nil))}
	for _, k := range keys {
		s = append(s, sTok(k), sTok(b.Signatures[k]))
	}
	f["Signatures"] = strings.Join(s, " ")
	return f
}

func receiptsTok(rs []hg.InternalTransactionReceipt) string {
	r := []string{fmt.Sprint(cnt(len(rs), rs == nil))}
	for _, x := range rs {
		a := 0
		if x.Accepted {
			a = 1
		}
		r = append(r, itxTok(x.InternalTransaction), fmt.Sprint(a))
	}
	return strings.Join(r, " ")
}

var blockFieldOrder = []string{"Index", "RoundReceived", "Timestamp", "StateHash", "FrameHash", "PeersHash",
	"Transactions", "InternalTransactions", "InternalTransactionReceipts", "Signatures"}

func blockCanon(b *hg.Block) string {
	f := blockFields(b)
	return fmt.Sprintf("%s %s %s %s %s %s T %s I %s R %s S %s", f["Index"], f["RoundReceived"], f["Timestamp"],
		f["StateHash"], f["FrameHash"], f["PeersHash"], f["Transactions"], f["InternalTransactions"],
		f["InternalTransactionReceipts"], f["Signatures"])
}

func respFields(r *proxy.CommitResponse) map[string]string {
	return map[string]string{"StateHash": bTok(r.StateHash), "InternalTransactionReceipts": receiptsTok(r.InternalTransactionReceipts)}
}

func respCanon(r *proxy.CommitResponse) string {
	return fmt.Sprintf("%s R %s", bTok(r.StateHash), receiptsTok(r.InternalTransactionReceipts))
}

// nil == empty normalisation of a canonical field
func normTok(s string) string {
	t := strings.Fields(s)
	for i, x := range t {
		if x == "~" {
			t[i] = "x"
		}
		if x == "-1" && i == 0 {
			t[i] = "0"
		}
	}
	return strings.Join(t, " ")
}

// diffFields returns the names of the fields whose content differs (nil == empty), and the number
// of fields that differ only by nil vs empty.
func diffFields(order []string, a, b map[string]string) (changed []string, flips int) {
	for _, k := range order {
		if a[k] == b[k] {
			continue
		}
		if normTok(a[k]) == normTok(b[k]) && !(k == "Index" || k == "RoundReceived" || k == "Timestamp") {
			flips++
			continue
		}
		changed = append(changed, k)
	}
	return
}

func hexOrErr(h []byte, err error) string {
	if err != nil {
		return "err"
	}
	return hex.EncodeToString(h)
}

// ---------- generators ----------

type Gen struct {
	rng    *rand.Rand
	large  int
	serial int
	badStr bool // allow operator strings that are not valid UTF-8
	rawInvalid int // raw invalid strings handed to peers.NewPeer
}

var specials = [][]byte{
	{0xff, 0xfe, 0xfd}, {0x00}, {0x00, 0x00, 0x00}, []byte("\"\\\n\r\t"), []byte("</script>&<>"), []byte("  "),
	{0xc3, 0x28}, {0xe2, 0x82}, {0xf0, 0x9f, 0x98, 0x80}, []byte("null"), []byte("{}"), []byte("[]"), {0x7f}, {0x80}, {0xed, 0xa0, 0x80},
}

func (g *Gen) Bytes() []byte {
	switch g.rng.Intn(12) {
	case 0:
		return nil
	case 1:
		return []byte{}
	case 2:
		return append([]byte{}, specials[g.rng.Intn(len(specials))]...)
	case 3:
		b := make([]byte, 256)
		for i := range b {
			b[i] = byte(i)
		}
		return b
	case 4:
		n := g.large/4 + g.rng.Intn(g.large)
		b := make([]byte, n)
		g.rng.Read(b)
		return b
	case 5, 6:
		n := g.rng.Intn(40)
		b := make([]byte, n)
		g.rng.Read(b)
		return b
	case 7:
		// lengths around the base64 group size
		n := []int{1, 2, 3, 4, 5, 6, 7}[g.rng.Intn(7)]
		b := make([]byte, n)
		g.rng.Read(b)
		return b
	default:
		return []byte(fmt.Sprintf("tx %d", g.rng.Intn(1000)))
	}
}

// SmallBytes never returns large values (used for fields of blocks that also go through the model).
func (g *Gen) SmallBytes() []byte {
	for {
		b := g.Bytes()
		if len(b) <= 300 {
			return b
		}
	}
}

func (g *Gen) String() string {
	switch g.rng.Intn(9) {
	case 0:
		return ""
	case 1:
		return "node" + fmt.Sprint(g.rng.Intn(100))
	case 2:
		return "héllo wörld ✓ 世界 😀"
	case 3:
		return "quote\" back\\slash /slash \n\t\r \x00\x01 <b>&amp;"
	case 4:
		return "0X04A1B2C3" + strings.Repeat("F", g.rng.Intn(40))
	case 5:
		return "    � é"
	case 6:
		return "127.0.0.1:1337"
	default:
		n := g.rng.Intn(20)
		b := make([]byte, n)
		for i := range b {
			b[i] = byte(32 + g.rng.Intn(95))
		}
		return string(b)
	}
}

// UserString: an operator-supplied string (moniker, advertised address); not valid UTF-8 when badStr is set
func (g *Gen) UserString() string {
	if g.badStr && g.rng.Intn(2) == 0 {
		return []string{"bad\xff", "\xc3\x28", "a\x80b", "\xed\xa0\x80", "ok\xf0\x9f"}[g.rng.Intn(5)]
	}
	return g.String()
}

func (g *Gen) Itx() hg.InternalTransaction {
	t := hg.PEER_ADD
	if g.rng.Intn(2) == 0 {
		t = hg.PEER_REMOVE
	}
	// always through peers.NewPeer, as requestJoin / leave / the tests build their peers (never a Peer literal)
	key, rawNet, rawMon := g.String(), g.UserString(), g.UserString()
	p := peers.NewPeer(key, rawNet, rawMon)
	if g.badStr {
		g.rawInvalid += b2i(!utf8.ValidString(rawNet)) + b2i(!utf8.ValidString(rawMon))
		fmt.Fprintf(out, "PX NP %s %s %s => %s %s %s\n", sTok(key), sTok(rawNet), sTok(rawMon), sTok(p.PubKeyHex), sTok(p.NetAddr), sTok(p.Moniker))
	}
	it := hg.NewInternalTransaction(t, *p)
	it.Signature = g.String()
	return it
}

func (g *Gen) Itxs(max int) []hg.InternalTransaction {
	switch g.rng.Intn(5) {
	case 0:
		return nil
	case 1:
		return []hg.InternalTransaction{}
	}
	n := 1 + g.rng.Intn(max)
	r := make([]hg.InternalTransaction, n)
	for i := range r {
		r[i] = g.Itx()
	}
	return r
}

func (g *Gen) Receipts(max int) []hg.InternalTransactionReceipt {
	switch g.rng.Intn(5) {
	case 0:
		return nil
	case 1:
		return []hg.InternalTransactionReceipt{}
	}
	n := 1 + g.rng.Intn(max)
	r := make([]hg.InternalTransactionReceipt, n)
	for i := range r {
		r[i] = hg.InternalTransactionReceipt{InternalTransaction: g.Itx(), Accepted: g.rng.Intn(2) == 0}
	}
	return r
}

func (g *Gen) Int() int {
	switch g.rng.Intn(6) {
	case 0:
		return 0
	case 1:
		return -1
	case 2:
		return math.MaxInt64
	case 3:
		return math.MinInt64
	case 4:
		return 1 << 53
	default:
		return g.rng.Intn(100000)
	}
}

// Block: small => every byte string is at most 300 bytes and there are few of them
func (g *Gen) Block(small bool) *hg.Block {
	by := g.Bytes
	maxTx, maxItx := 60, 40
	if small {
		by = g.SmallBytes
		maxTx, maxItx = 5, 3
	}
	var txs [][]byte
	switch g.rng.Intn(6) {
	case 0:
		txs = nil
	case 1:
		txs = [][]byte{}
	default:
		n := 1 + g.rng.Intn(maxTx)
		for i := 0; i < n; i++ {
			txs = append(txs, by())
		}
	}
	b := &hg.Block{Body: hg.BlockBody{
		Index: g.Int(), RoundReceived: g.Int(), Timestamp: int64(g.Int()),
		StateHash: g.SmallBytes(), FrameHash: g.SmallBytes(), PeersHash: g.SmallBytes(),
		Transactions: txs, InternalTransactions: g.Itxs(maxItx), InternalTransactionReceipts: g.Receipts(maxItx),
	}}
	switch g.rng.Intn(4) {
	case 0:
		b.Signatures = nil
	case 1:
		b.Signatures = map[string]string{}
	default:
		b.Signatures = map[string]string{}
		for i := g.rng.Intn(4); i >= 0; i-- {
			b.Signatures[fmt.Sprintf("0X%02d", i)+g.String()] = g.String()
		}
	}
	return b
}

func (g *Gen) Response(small bool) proxy.CommitResponse {
	by := g.Bytes
	max := 40
	if small {
		by = g.SmallBytes
		max = 3
	}
	return proxy.CommitResponse{StateHash: by(), InternalTransactionReceipts: g.Receipts(max)}
}

// Tx: a transaction tagged with a client id and a serial, followed by arbitrary bytes
func (g *Gen) Tx(client int) ([]byte, int) {
	g.serial++
	p := []byte(fmt.Sprintf("%d:%d:", client, g.serial))
	switch g.rng.Intn(4) {
	case 0:
		return p, g.serial
	default:
		return append(p, g.Bytes()...), g.serial
	}
}
