// Command proxy: the socket proxies (both directions) next to the in-memory proxy (C20).
//
// Lines (one case per line):
//   C <n> commit <sizes> => sock=<changed fields|same> inmem=<..> resp_sock=<..> resp_inmem=<..> flips=<k> hash=<same|diff>
//   J B <block canonical text> => <canonical text of the block the application handler received through the socket>
//   J R <response canonical text> => <canonical text of the response Babble received through the socket>
//   S <n> snapshot|restore|state ... => same|changed
//   T <mode> <clients> <txs> => order-ok|order-broken  identical|changed
//   P <client> <method> <conn> <o1> <o2> <o3> <o4> => <ok|err> <accepted connections> <handler deliveries>
//        o_i in df (dial fails) cf0/cf1 (call fails, handler not run / run) to0/to1 (timeout) ok
//   PX K <n> <world> <call> => kept <values>          retention part: values kept and re-compared after every later call
//   PX A <world> <kind> => independent|shared          caller / handler copy mutated in place after the call
//   Z ... statistics      V C20 <class> <detail> oracle violations
package main

import (
	"bufio"
	"bytes"
	"errors"
	"flag"
	"fmt"
	"io"
	"math/rand"
	"net"
	"os"
	"runtime/pprof"
	"sort"
	"strings"
	"sync"
	"time"

	hg "github.com/mosaicnetworks/babble/src/hashgraph"
	"github.com/mosaicnetworks/babble/src/node/state"
	"github.com/mosaicnetworks/babble/src/peers"
	"github.com/mosaicnetworks/babble/src/proxy"
	"github.com/mosaicnetworks/babble/src/proxy/inmem"
	aproxy "github.com/mosaicnetworks/babble/src/proxy/socket/app"
	bproxy "github.com/mosaicnetworks/babble/src/proxy/socket/babble"
	"github.com/sirupsen/logrus"
)

var out *bufio.Writer
var violations = map[string]int{}

func V(class, detail string) {
	violations[class]++
	if violations[class] <= 8 {
		if len(detail) > 500 {
			detail = detail[:500]
		}
		fmt.Fprintf(out, "V C20 %s %s\n", class, detail)
	}
}

func quiet() *logrus.Entry {
	l := logrus.New()
	l.Out = io.Discard
	l.Level = logrus.PanicLevel
	return logrus.NewEntry(l)
}

// ---------- application handler ----------

type Handler struct {
	mu         sync.Mutex
	blocks     []hg.Block
	resp       proxy.CommitResponse
	snapshot   []byte
	stateHash  []byte
	errs       []string // per-invocation error script ("" = no error, "<empty>" = error with empty message)
	calls      map[string]int
	snapArg    int
	restoreArg []byte
	stateArg   state.State
	// everything the handler was ever given (retention checks)
	snapArgs    []int
	restoreArgs [][]byte
	stateArgs   []state.State
}

func NewHandler() *Handler { return &Handler{calls: map[string]int{}} }

func (h *Handler) nextErr(m string) error {
	h.calls[m]++
	if len(h.errs) == 0 {
		return nil
	}
	e := h.errs[0]
	h.errs = h.errs[1:]
	switch e {
	case "":
		return nil
	case "<empty>":
		return errors.New("")
	}
	return errors.New(e)
}

func (h *Handler) CommitHandler(b hg.Block) (proxy.CommitResponse, error) {
	h.mu.Lock()
	defer h.mu.Unlock()
	h.blocks = append(h.blocks, b)
	if err := h.nextErr("commit"); err != nil {
		return proxy.CommitResponse{}, err
	}
	return h.resp, nil
}
func (h *Handler) SnapshotHandler(i int) ([]byte, error) {
	h.mu.Lock()
	defer h.mu.Unlock()
	h.snapArg = i
	h.snapArgs = append(h.snapArgs, i)
	if err := h.nextErr("snapshot"); err != nil {
		return nil, err
	}
	return h.snapshot, nil
}
func (h *Handler) RestoreHandler(s []byte) ([]byte, error) {
	h.mu.Lock()
	defer h.mu.Unlock()
	h.restoreArg = s
	h.restoreArgs = append(h.restoreArgs, s)
	if err := h.nextErr("restore"); err != nil {
		return nil, err
	}
	return h.stateHash, nil
}
func (h *Handler) StateChangeHandler(s state.State) error {
	h.mu.Lock()
	defer h.mu.Unlock()
	h.stateArg = s
	h.stateArgs = append(h.stateArgs, s)
	return h.nextErr("state")
}
func (h *Handler) Calls(m string) int {
	h.mu.Lock()
	defer h.mu.Unlock()
	return h.calls[m]
}
func (h *Handler) LastBlock() *hg.Block {
	h.mu.Lock()
	defer h.mu.Unlock()
	if len(h.blocks) == 0 {
		return nil
	}
	b := h.blocks[len(h.blocks)-1]
	return &b
}

// ---------- worlds ----------

func freeAddr() string {
	l, err := net.Listen("tcp", "127.0.0.1:0")
	if err != nil {
		panic(err)
	}
	a := l.Addr().String()
	l.Close()
	return a
}

type Drain struct {
	mu  sync.Mutex
	txs [][]byte
}

func (d *Drain) run(ch chan []byte) {
	for tx := range ch {
		d.mu.Lock()
		d.txs = append(d.txs, tx)
		d.mu.Unlock()
	}
}
func (d *Drain) Len() int {
	d.mu.Lock()
	defer d.mu.Unlock()
	return len(d.txs)
}
func (d *Drain) At(i int) []byte {
	d.mu.Lock()
	defer d.mu.Unlock()
	if i < 0 || i >= len(d.txs) {
		return []byte("<missing>")
	}
	return d.txs[i]
}
func (d *Drain) Take() [][]byte {
	d.mu.Lock()
	defer d.mu.Unlock()
	r := d.txs
	d.txs = nil
	return r
}

type SockWorld struct {
	app    *aproxy.SocketAppProxy    // Babble side (client of the application, server for SubmitTx)
	bab    *bproxy.SocketBabbleProxy // application side
	h      *Handler
	relayA *Relay // Babble -> application
	relayB *Relay // application -> Babble
	drain  *Drain
	connA  bool // the Babble-side client holds a connection
	connB  bool
	babSrv string
}

func NewSockWorld(timeout time.Duration) *SockWorld {
	w := &SockWorld{h: NewHandler(), drain: &Drain{}}
	appSrv := freeAddr()
	w.babSrv = freeAddr()
	var err error
	if w.relayA, err = NewRelay(appSrv); err != nil {
		panic(err)
	}
	if w.relayB, err = NewRelay(w.babSrv); err != nil {
		panic(err)
	}
	if w.app, err = aproxy.NewSocketAppProxy(w.relayA.Addr(), w.babSrv, timeout, quiet()); err != nil {
		panic(err)
	}
	if w.bab, err = bproxy.NewSocketBabbleProxy(w.relayB.Addr(), appSrv, w.h, timeout, quiet()); err != nil {
		panic(err)
	}
	go w.drain.run(w.app.SubmitCh())
	return w
}

type InmemWorld struct {
	p     *inmem.InmemProxy
	h     *Handler
	drain *Drain
}

func NewInmemWorld() *InmemWorld {
	w := &InmemWorld{h: NewHandler(), drain: &Drain{}}
	w.p = inmem.NewInmemProxy(w.h, quiet())
	go w.drain.run(w.p.SubmitCh())
	return w
}

func copyBlock(b *hg.Block) hg.Block {
	// a value copy shares the slices: exactly what core.commit passes to the proxy
	return *b
}

func fieldsOrSame(ch []string) string {
	if len(ch) == 0 {
		return "same"
	}
	return strings.Join(ch, ",")
}

var respOrder = []string{"StateHash", "InternalTransactionReceipts"}

// ---------- part 1: content ----------

func contentCases(g *Gen, sw *SockWorld, iw *InmemWorld, n int, stats map[string]int) {
	for i := 0; i < n; i++ {
		small := i%2 == 0
		b := g.Block(small)
		resp := g.Response(small)
		sw.h.resp, iw.h.resp = resp, resp
		sent := blockFields(b)
		sentHash := hexOrErr(b.Body.Hash())

		gotS, errS := sw.app.CommitBlock(copyBlock(b))
		gotI, errI := iw.p.CommitBlock(copyBlock(b))
		if errS != nil {
			V("call-failed-without-fault", fmt.Sprintf("case=%d socket CommitBlock: %v", i, errS))
			continue
		}
		if errI != nil {
			V("call-failed-without-fault", fmt.Sprintf("case=%d inmem CommitBlock: %v", i, errI))
			continue
		}
		rs, ri := sw.h.LastBlock(), iw.h.LastBlock()
		chS, flS := diffFields(blockFieldOrder, sent, blockFields(rs))
		chI, flI := diffFields(blockFieldOrder, sent, blockFields(ri))
		chRS, flRS := diffFields(respOrder, respFields(&resp), respFields(&gotS))
		chRI, flRI := diffFields(respOrder, respFields(&resp), respFields(&gotI))
		hashS := hexOrErr(rs.Body.Hash())
		hashI := hexOrErr(ri.Body.Hash())
		fullS := hexOrErr(rs.Hash())
		fullB := hexOrErr((&hg.Block{Body: b.Body, Signatures: b.Signatures}).Hash())
		hashes := "same"
		if hashS != sentHash || hashI != sentHash || fullS != fullB {
			hashes = "diff"
		}
		for _, f := range chS {
			V("content-changed:"+f, fmt.Sprintf("case=%d socket block sent=[%s] received=[%s]", i, sent[f], blockFields(rs)[f]))
		}
		for _, f := range chI {
			V("content-changed:"+f, fmt.Sprintf("case=%d inmem block sent=[%s] received=[%s]", i, sent[f], blockFields(ri)[f]))
		}
		for _, f := range chRS {
			V("content-changed:response."+f, fmt.Sprintf("case=%d socket response returned=[%s] received=[%s]", i, respFields(&resp)[f], respFields(&gotS)[f]))
		}
		for _, f := range chRI {
			V("content-changed:response."+f, fmt.Sprintf("case=%d inmem response", i))
		}
		// nil versus empty in what the application RETURNS is not a cosmetic difference: core.commit copies the state hash
		// and the receipts into Block.Body, whose JSON (hence the hash every validator signs) distinguishes null from "" / []:
		// a node whose application is attached through the socket proxy must sign the same body as one with the same
		// application in process
		for _, f := range respOrder {
			ret, s1, s2 := respFields(&resp)[f], respFields(&gotS)[f], respFields(&gotI)[f]
			if ret != s1 && normTok(ret) == normTok(s1) {
				V("content-changed:response."+f, fmt.Sprintf("case=%d socket response nil-versus-empty returned=[%s] received=[%s] (the signed block body differs)", i, ret, s1))
			}
			if ret != s2 && normTok(ret) == normTok(s2) {
				V("content-changed:response."+f, fmt.Sprintf("case=%d inmem response nil-versus-empty returned=[%s] received=[%s]", i, ret, s2))
			}
		}
		if hashes == "diff" && len(chS)+len(chI) == 0 {
			V("content-changed:Hash", fmt.Sprintf("case=%d body hash sent=%s socket=%s inmem=%s", i, sentHash, hashS, hashI))
		}
		ntx, nbytes := len(b.Body.Transactions), 0
		for _, t := range b.Body.Transactions {
			nbytes += len(t)
		}
		fmt.Fprintf(out, "PX C %d commit txs=%d bytes=%d itxs=%d receipts=%d sigs=%d => sock=%s inmem=%s resp_sock=%s resp_inmem=%s flips=%d hash=%s\n",
			i, ntx, nbytes, len(b.Body.InternalTransactions), len(resp.InternalTransactionReceipts), len(b.Signatures),
			fieldsOrSame(chS), fieldsOrSame(chI), fieldsOrSame(chRS), fieldsOrSame(chRI), flS+flI+flRS+flRI, hashes)
		stats["commit"]++
		stats["nilempty_flips"] += flS + flI + flRS + flRI
		if nbytes > 100000 {
			stats["commit_large"]++
		}
		if small {
			fmt.Fprintf(out, "PX J B %s => %s\n", blockCanon(b), blockCanon(rs))
			fmt.Fprintf(out, "PX J R %s => %s\n", respCanon(&resp), respCanon(&gotS))
			stats["model_cases"] += 2
		}

		// snapshot / restore / state
		snap := g.Bytes()
		sw.h.snapshot, iw.h.snapshot = snap, snap
		idx := g.Int()
		s1, e1 := sw.app.GetSnapshot(idx)
		s2, e2 := iw.p.GetSnapshot(idx)
		res := "same"
		if e1 != nil && e2 == nil && snap == nil {
			res = "failed"
			V("success-reported-as-error", fmt.Sprintf("method=snapshot no fault, the handler returned a nil snapshot: %v", e1))
		} else if e1 != nil || e2 != nil {
			res = "failed"
			V("call-failed-without-fault", fmt.Sprintf("case=%d GetSnapshot %v %v", i, e1, e2))
		} else if !bytes.Equal(s1, snap) || !bytes.Equal(s2, snap) || sw.h.snapArg != idx || iw.h.snapArg != idx {
			res = "changed"
			V("content-changed:snapshot", fmt.Sprintf("case=%d len=%d sock=%d inmem=%d idx=%d/%d/%d", i, len(snap), len(s1), len(s2), idx, sw.h.snapArg, iw.h.snapArg))
		}
		fmt.Fprintf(out, "PX S %d snapshot len=%d nil=%v => %s\n", i, len(snap), snap == nil, res)
		rsn := g.Bytes()
		sh := g.SmallBytes()
		sw.h.stateHash, iw.h.stateHash = sh, sh
		e1 = sw.app.Restore(rsn)
		e2 = iw.p.Restore(rsn)
		res = "same"
		if e1 != nil && e2 == nil && sh == nil {
			res = "failed"
			V("success-reported-as-error", fmt.Sprintf("method=restore no fault, the handler returned a nil state hash: %v", e1))
		} else if e1 != nil || e2 != nil {
			res = "failed"
			V("call-failed-without-fault", fmt.Sprintf("case=%d Restore %v %v", i, e1, e2))
		} else if !bytes.Equal(sw.h.restoreArg, rsn) || !bytes.Equal(iw.h.restoreArg, rsn) {
			res = "changed"
			V("content-changed:restore", fmt.Sprintf("case=%d len=%d", i, len(rsn)))
		}
		fmt.Fprintf(out, "PX S %d restore len=%d nil=%v => %s\n", i, len(rsn), rsn == nil, res)
		st := state.State(g.rng.Intn(6))
		e1 = sw.app.OnStateChanged(st)
		e2 = iw.p.OnStateChanged(st)
		res = "same"
		if e1 != nil || e2 != nil {
			V("call-failed-without-fault", fmt.Sprintf("case=%d OnStateChanged %v %v", i, e1, e2))
		} else if sw.h.stateArg != st || iw.h.stateArg != st {
			res = "changed"
			V("content-changed:state", fmt.Sprintf("case=%d", i))
		}
		fmt.Fprintf(out, "PX S %d state %d => %s\n", i, int(st), res)
		stats["aux_calls"] += 3
	}
}

// ---------- part 2: transactions ----------

func eqNilEmpty(a, b []byte) bool { return bytes.Equal(a, b) }

func txCases(g *Gen, sw *SockWorld, iw *InmemWorld, n int, stats map[string]int) {
	// (a) one client, raw byte strings including nil and empty, compared by position
	raw := [][]byte{nil, {}, {0}, {0xff, 0xfe}, []byte("a")}
	for i := 0; i < n; i++ {
		raw = append(raw, g.Bytes())
	}
	sw.drain.Take()
	iw.drain.Take()
	for i, tx := range raw {
		if err := sw.bab.SubmitTx(tx); err != nil {
			V("call-failed-without-fault", fmt.Sprintf("SubmitTx %d: %v", i, err))
		}
		iw.p.SubmitTx(tx)
	}
	time.Sleep(20 * time.Millisecond)
	for name, got := range map[string][][]byte{"socket": sw.drain.Take(), "inmem": iw.drain.Take()} {
		order, ident := "order-ok", "identical"
		if len(got) != len(raw) {
			order = "order-broken"
			V("tx-lost-or-duplicated", fmt.Sprintf("%s sent=%d received=%d", name, len(raw), len(got)))
		} else {
			for i := range raw {
				if !eqNilEmpty(raw[i], got[i]) {
					ident = "changed"
					V("content-changed:transaction", fmt.Sprintf("%s position=%d sent=%s received=%s", name, i, bTok(raw[i])[:min(60, len(bTok(raw[i])))], bTok(got[i])[:min(60, len(bTok(got[i])))]))
					break
				}
			}
		}
		fmt.Fprintf(out, "PX T %s-sequential 1 %d => %s %s\n", name, len(raw), order, ident)
		stats["tx"] += len(raw)
	}
	// inmem copies the submitted slice: mutate after submit
	{
		tx := []byte("mutate-me")
		iw.p.SubmitTx(tx)
		tx[0] = 'X'
		time.Sleep(5 * time.Millisecond)
		got := iw.drain.Take()
		if len(got) != 1 || string(got[0]) != "mutate-me" {
			V("content-changed:transaction", "inmem: the submitted slice is aliased")
		}
	}
	// (b) several application-side clients of the same Babble, concurrently; order per client
	clients := []*bproxy.SocketBabbleProxy{sw.bab}
	for c := 1; c < 3; c++ {
		p, err := bproxy.NewSocketBabbleProxy(sw.relayB.Addr(), freeAddr(), NewHandler(), 2*time.Second, quiet())
		if err != nil {
			panic(err)
		}
		clients = append(clients, p)
	}
	per := n / 2
	sent := make([][][]byte, len(clients))
	for c := range clients {
		for k := 0; k < per; k++ {
			tx, _ := g.Tx(c)
			sent[c] = append(sent[c], tx)
		}
	}
	var wg sync.WaitGroup
	for c := range clients {
		wg.Add(1)
		go func(c int) {
			defer wg.Done()
			for _, tx := range sent[c] {
				if err := clients[c].SubmitTx(tx); err != nil {
					V("call-failed-without-fault", fmt.Sprintf("concurrent SubmitTx client=%d: %v", c, err))
				}
			}
		}(c)
	}
	wg.Wait()
	time.Sleep(20 * time.Millisecond)
	got := sw.drain.Take()
	byClient := make([][][]byte, len(clients))
	for _, tx := range got {
		var c, s int
		if _, err := fmt.Sscanf(string(tx[:min(len(tx), 24)]), "%d:%d:", &c, &s); err != nil || c < 0 || c >= len(clients) {
			V("content-changed:transaction", "untagged transaction received")
			continue
		}
		byClient[c] = append(byClient[c], tx)
	}
	order, ident := "order-ok", "identical"
	for c := range clients {
		if len(byClient[c]) != len(sent[c]) {
			order = "order-broken"
			V("tx-lost-or-duplicated", fmt.Sprintf("client=%d sent=%d received=%d", c, len(sent[c]), len(byClient[c])))
			continue
		}
		for k := range sent[c] {
			if !bytes.Equal(sent[c][k], byClient[c][k]) {
				var c1, s1, c2, s2 int
				fmt.Sscanf(string(sent[c][k][:min(len(sent[c][k]), 24)]), "%d:%d:", &c1, &s1)
				fmt.Sscanf(string(byClient[c][k][:min(len(byClient[c][k]), 24)]), "%d:%d:", &c2, &s2)
				if s1 != s2 {
					order = "order-broken"
					V("tx-order-changed", fmt.Sprintf("client=%d position=%d sent serial %d received serial %d", c, k, s1, s2))
				} else {
					ident = "changed"
					V("content-changed:transaction", fmt.Sprintf("client=%d serial=%d", c, s1))
				}
				break
			}
		}
	}
	fmt.Fprintf(out, "PX T socket-concurrent %d %d => %s %s\n", len(clients), len(got), order, ident)
	stats["tx"] += len(got)
}

// ---------- part 3: faults ----------

var faultKinds = []string{"dropreq", "dropreply", "halfreply", "stallreq", "stallreply"}

func classOf(kind string) string {
	switch kind {
	case "pass":
		return "ok"
	case "dropreq":
		return "cf0"
	case "dropreply", "halfreply":
		return "cf1"
	case "stallreq":
		return "to0"
	case "stallreply":
		return "to1"
	}
	return "?"
}

type FaultCase struct {
	method  string
	plan    []Action
	kill    bool     // kill the cached connection first ("application restarted")
	down    bool     // the application is not listening during the whole call ("never started")
	herrs   []string // per-invocation handler errors
	nilReply bool    // the handler succeeds with a nil byte slice (snapshot / restore)
	comment string
}

// passTok: the attempt passes the network; what the handler returns decides
func (fc *FaultCase) passTok(he string) string {
	nilZero := fc.method == "snapshot" || fc.method == "restore" // the zero reply of these methods is a nil slice
	switch he {
	case "":
		if fc.nilReply {
			return "hokn"
		}
		return "ok"
	case "<empty>":
		if nilZero {
			return "herren"
		}
		return "herre"
	}
	if nilZero {
		return "herrn"
	}
	return "herr"
}

// expected per-attempt outcomes (4 of them), from the injected plan and handler script only
func (fc *FaultCase) outcomes(connCached bool) []string {
	o := []string{}
	if connCached && (fc.kill || fc.down) {
		o = append(o, "cf0") // the cached connection is dead: the call on it fails, nothing reaches the handler
	}
	isDown := fc.down
	hi := 0
	nextH := func() string {
		he := ""
		if hi < len(fc.herrs) {
			he = fc.herrs[hi]
		}
		hi++
		return he
	}
	for _, a := range fc.plan {
		if isDown {
			break
		}
		c := classOf(a.Kind)
		delivered := a.Kind == "pass" || a.Kind == "dropreply" || a.Kind == "halfreply" || a.Kind == "stallreply"
		if delivered {
			he := nextH()
			if a.Kind == "pass" {
				c = fc.passTok(he)
			}
		}
		o = append(o, c)
		if a.Down {
			isDown = true
		}
	}
	for len(o) < 4 {
		if isDown {
			o = append(o, "df")
		} else {
			o = append(o, fc.passTok(nextH()))
		}
	}
	return o[:4]
}

func (w *SockWorld) runFault(g *Gen, fc *FaultCase, id int, stats map[string]int) {
	isB := fc.method == "submit"
	relay := w.relayA
	conn := &w.connA
	if isB {
		relay, conn = w.relayB, &w.connB
	}
	connBefore := *conn
	outs := fc.outcomes(connBefore)
	if *conn && fc.kill {
		relay.KillConns()
		time.Sleep(15 * time.Millisecond)
	}
	if fc.down {
		relay.Down()
		relay.KillConns()
		time.Sleep(15 * time.Millisecond)
	}
	relay.SetPlan(fc.plan)
	acc0, _ := relay.Counters()
	w.h.mu.Lock()
	w.h.errs = append([]string{}, fc.herrs...)
	w.h.mu.Unlock()
	var del0 int
	if isB {
		del0 = w.drain.Len()
	} else {
		del0 = w.h.Calls(fc.method)
	}

	var err error
	emptyReply, wrongReply := false, false
	switch fc.method {
	case "commit":
		b := g.Block(true)
		resp := g.Response(true)
		if len(resp.StateHash) == 0 {
			resp.StateHash = []byte{1, 2, 3}
		}
		w.h.resp = resp
		var got proxy.CommitResponse
		got, err = w.app.CommitBlock(*b)
		if err == nil {
			ci := ret.Call(fmt.Sprintf("fault-commit(receipts=%d,plan=%v)", len(resp.InternalTransactionReceipts), fc.plan))
			kept := got
			ret.Keep(ci, "socket", "commit-response", respOrder, respFields(&resp), func() map[string]string { return respFields(&kept) })
			ch, _ := diffFields(respOrder, respFields(&resp), respFields(&got))
			wrongReply = len(ch) > 0
			emptyReply = len(got.StateHash) == 0 && len(got.InternalTransactionReceipts) == 0
		}
	case "snapshot":
		w.h.snapshot = []byte(fmt.Sprintf("snapshot-%d", id))
		if fc.nilReply {
			w.h.snapshot = nil
		}
		var got []byte
		got, err = w.app.GetSnapshot(id)
		if err == nil {
			wrongReply = !bytes.Equal(got, w.h.snapshot)
			emptyReply = len(got) == 0
		}
	case "restore":
		w.h.stateHash = []byte("sh")
		if fc.nilReply {
			w.h.stateHash = nil
		}
		err = w.app.Restore([]byte(fmt.Sprintf("restore-%d", id)))
	case "state":
		err = w.app.OnStateChanged(state.State(id % 6))
	case "submit":
		tx, _ := g.Tx(9)
		err = w.bab.SubmitTx(tx)
		time.Sleep(3 * time.Millisecond)
	}
	acc1, _ := relay.Counters()
	var del1 int
	if isB {
		del1 = w.drain.Len()
	} else {
		del1 = w.h.Calls(fc.method)
	}
	w.h.mu.Lock()
	w.h.errs = nil
	w.h.mu.Unlock()
	relay.SetPlan(nil)
	if fc.down {
		if e := relay.Up(); e != nil {
			panic(e)
		}
	}
	// a relay that went down through an action
	if e := relay.Up(); e != nil {
		panic(e)
	}

	res := "ok"
	if err != nil {
		res = "err"
	}
	*conn = err == nil
	// oracle, independent of the model: a call succeeds iff one of its (at most three) attempts passed the
	// network and the handler returned no error in it; the handler must have run exactly as often as the
	// attempts up to that one reached it
	handledAt := -1
	for i, o := range outs[:3] {
		if o == "ok" || o == "hokn" {
			handledAt = i
			break
		}
	}
	need := 0
	for i, o := range outs[:3] {
		if handledAt >= 0 && i > handledAt {
			break
		}
		if o != "df" && o != "cf0" && o != "to0" {
			need++
		}
	}
	switch {
	case err == nil && (handledAt < 0 || del1-del0 < need || (emptyReply && !fc.nilReply)):
		V("empty-success-after-failure", fmt.Sprintf("method=%s outcomes=%v deliveries=%d emptyReply=%v %s: no error reported although no attempt was handled successfully", fc.method, outs, del1-del0, emptyReply, fc.comment))
	case err == nil && wrongReply:
		V("content-changed:reply-after-retry", fmt.Sprintf("method=%s outcomes=%v", fc.method, outs))
	case err != nil && handledAt >= 0:
		V("success-reported-as-error", fmt.Sprintf("method=%s outcomes=%v nil reply=%v err=%v", fc.method, outs, fc.nilReply, err))
	case del1-del0 != need:
		V("unexpected-delivery-count", fmt.Sprintf("method=%s outcomes=%v deliveries=%d expected=%d", fc.method, outs, del1-del0, need))
	}
	fmt.Fprintf(out, "PX P %s %s %d %s => %s %d %d\n", map[bool]string{false: "A", true: "B"}[isB], fc.method, b2i(connBefore),
		strings.Join(outs, " "), res, acc1-acc0, del1-del0)
	stats["fault_calls"]++
	stats["fault_"+res]++
	if del1-del0 > 1 {
		stats["duplicate_deliveries"]++
	}
}

// enumerated and random fault plans against fresh worlds with a short timeout
func faultPart(g *Gen, tmo time.Duration, nrandom int, stats map[string]int) {
	w := NewSockWorld(tmo)
	id := 0
	run := func(fc FaultCase) {
		id++
		w.runFault(g, &fc, id, stats)
	}
	A := func(k string) Action { return Action{Kind: k} }
	methods := []string{"commit", "snapshot", "restore", "state", "submit"}
	kindsFor := func(m string) []string {
		if m == "submit" {
			return []string{"dropreq", "dropreply", "halfreply"} // the application-side client has no timeout
		}
		return faultKinds
	}
	for _, m := range methods {
		run(FaultCase{method: m, comment: "no fault, first call dials"})
		run(FaultCase{method: m, comment: "no fault, cached connection"})
		// the application drops the connection at every call position
		for _, k := range kindsFor(m) {
			run(FaultCase{method: m, plan: []Action{A(k)}})
			for _, k2 := range kindsFor(m) {
				if strings.HasPrefix(k, "stall") && strings.HasPrefix(k2, "stall") && k != k2 {
					continue
				}
				run(FaultCase{method: m, plan: []Action{A(k), A(k2)}})
			}
			run(FaultCase{method: m, plan: []Action{A(k), A(k), A(k)}, comment: "all three attempts fail"})
			run(FaultCase{method: m, plan: []Action{{Kind: k, Down: true}}, comment: "fails, then the application is gone"})
			run(FaultCase{method: m, plan: []Action{A(k), {Kind: k, Down: true}}})
		}
		run(FaultCase{method: m, kill: true, comment: "application restarted between calls"})
		run(FaultCase{method: m, down: true, comment: "application not listening"})
		run(FaultCase{method: m, down: true, comment: "application still not listening"})
		run(FaultCase{method: m, comment: "application back"})
		run(FaultCase{method: m, kill: true, plan: []Action{A("dropreq"), A("dropreply")}, comment: "restart, then two more failures"})
		if m != "submit" {
			run(FaultCase{method: m, herrs: []string{"boom"}, comment: "handler fails once"})
			run(FaultCase{method: m, herrs: []string{"boom", "boom", "boom"}, comment: "handler fails three times"})
			run(FaultCase{method: m, herrs: []string{"boom", "", ""}, plan: []Action{A("pass"), A("dropreply")}})
			run(FaultCase{method: m, herrs: []string{"<empty>", "<empty>", "<empty>"}, comment: "handler fails with an empty error message"})
			run(FaultCase{method: m, herrs: []string{"boom", "<empty>"}, plan: []Action{A("dropreply")}, comment: "empty error message on the third attempt"})
			if m == "snapshot" || m == "restore" {
				run(FaultCase{method: m, nilReply: true, comment: "handler succeeds with a nil slice"})
				run(FaultCase{method: m, nilReply: true, plan: []Action{A("dropreq")}, comment: "handler succeeds with a nil slice"})
			}
		}
	}
	// a client whose application was never started
	{
		w2 := &SockWorld{h: NewHandler(), drain: &Drain{}}
		dead := freeAddr()
		w2.babSrv = freeAddr()
		var err error
		w2.relayA, _ = NewRelay(dead)
		w2.relayA.Down()
		w2.relayB, _ = NewRelay(dead)
		w2.relayB.Down()
		if w2.app, err = aproxy.NewSocketAppProxy(w2.relayA.Addr(), w2.babSrv, tmo, quiet()); err != nil {
			panic(err)
		}
		if w2.bab, err = bproxy.NewSocketBabbleProxy(w2.relayB.Addr(), freeAddr(), w2.h, tmo, quiet()); err != nil {
			panic(err)
		}
		for _, m := range methods {
			id++
			fc := FaultCase{method: m, down: true, comment: "never started"}
			w2.runFault(g, &fc, id, stats)
			w2.relayA.Down()
			w2.relayB.Down()
		}
	}
	for i := 0; i < nrandom; i++ {
		m := methods[g.rng.Intn(len(methods))]
		ks := kindsFor(m)
		fc := FaultCase{method: m}
		for j := g.rng.Intn(4); j > 0; j-- {
			a := Action{Kind: ks[g.rng.Intn(len(ks))]}
			if g.rng.Intn(5) == 0 {
				a.Kind = "pass"
			}
			if g.rng.Intn(6) == 0 {
				a.Down = true
			}
			fc.plan = append(fc.plan, a)
		}
		switch g.rng.Intn(8) {
		case 0:
			fc.kill = true
		case 1:
			fc.down = true
		}
		if m != "submit" && g.rng.Intn(4) == 0 {
			for j := g.rng.Intn(3) + 1; j > 0; j-- {
				fc.herrs = append(fc.herrs, []string{"", "boom"}[g.rng.Intn(2)])
			}
		}
		run(fc)
	}
}

// operator strings (address, moniker) that are not valid UTF-8, handed to peers.NewPeer: since b2c4118 the
// peer holds the normalised value and nothing changes on the way to the socket application (regression input
// of finding C20-invalid-utf8-string-sanitised). Control: a Peer struct LITERAL with a stray byte -- which the
// code never builds and these cases do not use -- is still altered by the JSON layer.
func badStringCases(g *Gen, sw *SockWorld, iw *InmemWorld, n int, stats map[string]int) {
	g.badStr = true
	defer func() { g.badStr = false }()
	changed := 0
	for i := 0; i < n; i++ {
		b := g.Block(true)
		if b.Body.InternalTransactions == nil {
			b.Body.InternalTransactions = []hg.InternalTransaction{g.Itx()}
		}
		rawMon := "moniker\xff\xfe"
		p := peers.NewPeer("0X04AB", "addr", rawMon)
		g.rawInvalid++
		fmt.Fprintf(out, "PX NP %s %s %s => %s %s %s\n", sTok("0X04AB"), sTok("addr"), sTok(rawMon), sTok(p.PubKeyHex), sTok(p.NetAddr), sTok(p.Moniker))
		b.Body.InternalTransactions = append(b.Body.InternalTransactions, hg.NewInternalTransaction(hg.PEER_ADD, *p))
		sw.h.resp = proxy.CommitResponse{StateHash: []byte("x")}
		iw.h.resp = sw.h.resp
		if _, err := sw.app.CommitBlock(*b); err != nil {
			V("call-failed-without-fault", fmt.Sprintf("bad-string case %d: %v", i, err))
			continue
		}
		if _, err := iw.p.CommitBlock(*b); err != nil {
			V("call-failed-without-fault", fmt.Sprintf("bad-string case %d (inmem): %v", i, err))
			continue
		}
		rs, ri := sw.h.LastBlock(), iw.h.LastBlock()
		// socket application vs in-process application
		ch, _ := diffFields(blockFieldOrder, blockFields(ri), blockFields(rs))
		res := "same"
		if len(ch) > 0 {
			res = strings.Join(ch, ",")
			changed++
			V("content-changed:string-not-utf8", fmt.Sprintf("fields=%s: an operator string that is not valid UTF-8 reaches the socket application with U+FFFD in place of the offending bytes, the in-process application gets the raw bytes", res))
		}
		fmt.Fprintf(out, "PX U %d => %s\n", i, res)
		fmt.Fprintf(out, "PX J B %s => %s\n", blockCanon(b), blockCanon(rs))
		stats["model_cases"]++
	}
	stats["invalid_utf8_cases"] = n
	stats["invalid_utf8_raw_inputs"] = g.rawInvalid
	stats["invalid_utf8_string_changed"] = changed
	// control: the literal
	{
		lit := peers.Peer{PubKeyHex: "0X04AB", NetAddr: "addr", Moniker: "literal\xff"}
		b := &hg.Block{Body: hg.BlockBody{InternalTransactions: []hg.InternalTransaction{hg.NewInternalTransaction(hg.PEER_ADD, lit)}}}
		res := "not-run"
		if _, err := sw.app.CommitBlock(*b); err == nil {
			ch, _ := diffFields(blockFieldOrder, blockFields(b), blockFields(sw.h.LastBlock()))
			res = "same"
			if len(ch) > 0 {
				res = "changed"
				stats["raw_literal_control_changed"] = 1
			}
		}
		fmt.Fprintf(out, "PX W raw-peer-literal-control => %s\n", res)
		fmt.Fprintf(out, "PX J B %s => %s\n", blockCanon(b), blockCanon(sw.h.LastBlock()))
		stats["model_cases"]++
	}
}

func b2i(b bool) int {
	if b {
		return 1
	}
	return 0
}

func main() {
	seed := flag.Int64("seed", 1, "seed")
	n := flag.Int("n", 60, "content cases")
	ntx := flag.Int("ntx", 200, "transactions")
	nf := flag.Int("faults", 120, "random fault plans in addition to the enumerated ones")
	large := flag.Int("large", 200000, "size of large byte strings")
	tmo := flag.Int("timeout", 120, "proxy timeout (ms) in the fault part")
	nret := flag.Int("retain", 120, "calls of the retention / aliasing part")
	bad := flag.Bool("badstrings", true, "also generate strings that are not valid UTF-8 (reported apart)")
	maxSec := flag.Int("maxsec", 420, "watchdog: dump all goroutines and exit 3 after this many seconds")
	flag.Parse()
	// the application-side client has no timeout (rpc.Call): a call that never returns must not hang the check
	go func() {
		time.Sleep(time.Duration(*maxSec) * time.Second)
		fmt.Fprintf(os.Stderr, "proxy harness watchdog: still running after %d s\n", *maxSec)
		pprof.Lookup("goroutine").WriteTo(os.Stderr, 1)
		os.Exit(3)
	}()
	out = bufio.NewWriterSize(os.Stdout, 1<<20)
	defer out.Flush()
	stats := map[string]int{}
	g := &Gen{rng: rand.New(rand.NewSource(*seed)), large: *large}

	// part 1 + 2: no faults, long timeout
	sw := NewSockWorld(5 * time.Second)
	iw := NewInmemWorld()
	contentCases(g, sw, iw, *n, stats)
	txCases(g, sw, iw, *ntx, stats)
	retentionCases(g, sw, iw, *nret, stats)
	faultPart(g, time.Duration(*tmo)*time.Millisecond, *nf, stats)
	if *bad {
		badStringCases(g, sw, iw, 12, stats)
	}
	// everything any call returned or delivered during the whole run, once more
	ret.Recheck("end of run")
	stats["retained_values"] = len(ret.items)
	stats["retained_rechecks"] = ret.rechecks
	keys := []string{}
	for k := range stats {
		keys = append(keys, k)
	}
	sort.Strings(keys)
	fmt.Fprintf(out, "Z")
	for _, k := range keys {
		fmt.Fprintf(out, " %s=%d", k, stats[k])
	}
	fmt.Fprintf(out, "\n")
}

func min(a, b int) int {
	if a < b {
		return a
	}
	return b
}
