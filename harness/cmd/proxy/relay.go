package main

import (
	"encoding/json"
	"io"
	"net"
	"sync"
	"time"
)

// Action is what the relay does with the next JSON-RPC request it reads.
//   pass       forward the request, forward the reply                      -> attempt outcome ok
//   dropreq    read the request, close the connection                      -> call_fail, handler not run
//   dropreply  forward, read the reply, close without sending it           -> call_fail, handler ran
//   halfreply  forward, read the reply, send the first half, close         -> call_fail, handler ran
//   stallreq   read the request, never answer                              -> timeout, handler not run
//   stallreply forward, read the reply, never send it                      -> timeout, handler ran
// Down: stop listening before the fault shows (later attempts of the same call cannot dial).
type Action struct {
	Kind string
	Down bool
}

// Relay is a message-aware TCP relay in front of the server side of a socket proxy.
type Relay struct {
	addr, target string
	mu           sync.Mutex
	ln           net.Listener
	conns        map[net.Conn]struct{}
	plan         []Action
	accepted     int
	executed     int
}

func NewRelay(target string) (*Relay, error) {
	r := &Relay{target: target, conns: map[net.Conn]struct{}{}}
	ln, err := net.Listen("tcp", "127.0.0.1:0")
	if err != nil {
		return nil, err
	}
	r.addr = ln.Addr().String()
	r.ln = ln
	go r.acceptLoop(ln)
	return r, nil
}

func (r *Relay) Addr() string { return r.addr }

func (r *Relay) acceptLoop(ln net.Listener) {
	for {
		c, err := ln.Accept()
		if err != nil {
			return
		}
		r.mu.Lock()
		r.accepted++
		r.conns[c] = struct{}{}
		r.mu.Unlock()
		go r.serve(c)
	}
}

// Up makes the relay listen again on its address.
func (r *Relay) Up() error {
	r.mu.Lock()
	defer r.mu.Unlock()
	if r.ln != nil {
		return nil
	}
	var err error
	for i := 0; i < 50; i++ {
		var ln net.Listener
		ln, err = net.Listen("tcp", r.addr)
		if err == nil {
			r.ln = ln
			go r.acceptLoop(ln)
			return nil
		}
		time.Sleep(5 * time.Millisecond)
	}
	return err
}

// Down closes the listener: dials are refused.
func (r *Relay) Down() {
	r.mu.Lock()
	defer r.mu.Unlock()
	if r.ln != nil {
		r.ln.Close()
		r.ln = nil
	}
}

// KillConns closes every open client connection (the application "restarted").
func (r *Relay) KillConns() {
	r.mu.Lock()
	cs := []net.Conn{}
	for c := range r.conns {
		cs = append(cs, c)
	}
	r.mu.Unlock()
	for _, c := range cs {
		c.Close()
	}
}

func (r *Relay) SetPlan(p []Action) {
	r.mu.Lock()
	r.plan = append([]Action{}, p...)
	r.mu.Unlock()
}

func (r *Relay) PlanLeft() int {
	r.mu.Lock()
	defer r.mu.Unlock()
	return len(r.plan)
}

func (r *Relay) Counters() (accepted, executed int) {
	r.mu.Lock()
	defer r.mu.Unlock()
	return r.accepted, r.executed
}

func (r *Relay) next() Action {
	r.mu.Lock()
	defer r.mu.Unlock()
	r.executed++
	if len(r.plan) == 0 {
		return Action{Kind: "pass"}
	}
	a := r.plan[0]
	r.plan = r.plan[1:]
	return a
}

func (r *Relay) serve(c net.Conn) {
	var up net.Conn
	var upDec *json.Decoder
	defer func() {
		c.Close()
		if up != nil {
			up.Close()
		}
		r.mu.Lock()
		delete(r.conns, c)
		r.mu.Unlock()
	}()
	dec := json.NewDecoder(c)
	for {
		var req json.RawMessage
		if err := dec.Decode(&req); err != nil {
			return
		}
		act := r.next()
		forward := act.Kind == "pass" || act.Kind == "dropreply" || act.Kind == "halfreply" || act.Kind == "stallreply"
		var reply json.RawMessage
		if forward {
			if up == nil {
				var err error
				up, err = net.DialTimeout("tcp", r.target, 2*time.Second)
				if err != nil {
					return
				}
				upDec = json.NewDecoder(up)
			}
			if _, err := up.Write(append(append([]byte{}, req...), '\n')); err != nil {
				return
			}
			if err := upDec.Decode(&reply); err != nil {
				return
			}
		}
		if act.Down {
			r.Down()
		}
		switch act.Kind {
		case "pass":
			if _, err := c.Write(append(append([]byte{}, reply...), '\n')); err != nil {
				return
			}
		case "dropreq", "dropreply":
			return
		case "halfreply":
			c.Write(reply[:len(reply)/2])
			return
		case "stallreq", "stallreply":
			io.Copy(io.Discard, c) // until the client gives up and closes
			return
		default:
			return
		}
	}
}
