package main

import (
	"crypto/sha256"
	"encoding/hex"
	"fmt"
	"strings"
	"time"

	hg "github.com/mosaicnetworks/babble/src/hashgraph"
	"github.com/mosaicnetworks/babble/src/node/state"
	"github.com/mosaicnetworks/babble/src/peers"
	"github.com/mosaicnetworks/babble/src/proxy"
)

// ---------- retention: no value a call returned or delivered may change because of a LATER call ----------
//
// Every value that crossed a proxy -- commit responses (state hash, receipts), snapshots, the blocks / restore
// payloads / states handed to the application's handlers, the transactions received from SubmitCh -- is kept
// ALIVE (the very Go value the proxy produced, not a copy) together with the canonical text of what the other
// side sent, taken from a private copy at call time. After every later call, and at the end of the run, every
// kept value is canonicalised again and compared. Class: content-changed-after-later-call:<what>.<field>.

type keptVal struct {
	origin      int
	world, what string
	order       []string
	want        map[string]string
	live        func() map[string]string
	reported    bool
}

type Retainer struct {
	calls    []string
	items    []*keptVal
	rechecks int
}

var ret = &Retainer{}

// long canonical texts are kept as digests
func squash(m map[string]string) map[string]string {
	r := map[string]string{}
	for k, v := range m {
		if len(v) > 400 {
			h := sha256.Sum256([]byte(normTok(v)))
			v = strings.Fields(v)[0] + " sha256:" + hex.EncodeToString(h[:8])
		}
		r[k] = v
	}
	return r
}

func (r *Retainer) Call(desc string) int {
	r.calls = append(r.calls, desc)
	return len(r.calls) - 1
}

func (r *Retainer) Keep(origin int, world, what string, order []string, want map[string]string, live func() map[string]string) {
	r.items = append(r.items, &keptVal{origin: origin, world: world, what: what, order: order, want: squash(want), live: live})
}

func (r *Retainer) Recheck(after string) {
	r.rechecks++
	for _, it := range r.items {
		if it.reported {
			continue
		}
		got := squash(it.live())
		ch, _ := diffFields(it.order, it.want, got)
		for _, f := range ch {
			it.reported = true
			later := []string{}
			for _, c := range r.calls[it.origin+1:] {
				if strings.HasPrefix(c, it.world+":") || strings.HasPrefix(c, "fault-") {
					later = append(later, c)
				}
			}
			if len(later) > 8 {
				later = append(append([]string{}, later[:4]...), append([]string{"..."}, later[len(later)-3:]...)...)
			}
			V("content-changed-after-later-call:"+it.what+"."+f, fmt.Sprintf("world=%s value of call #%d %s; later calls: %s; detected after %s; sent=[%s] now=[%s]",
				it.world, it.origin, r.calls[it.origin], strings.Join(later, " , "), after, trunc(it.want[f], 160), trunc(got[f], 160)))
		}
	}
}

func trunc(s string, n int) string {
	if len(s) > n {
		return s[:n] + "..."
	}
	return s
}

// ---------- deep copies (so that the "sent" side is never the same memory as anything handed to a proxy) ----------

func cpBytes(b []byte) []byte {
	if b == nil {
		return nil
	}
	return append([]byte{}, b...)
}

func cpItx(t hg.InternalTransaction) hg.InternalTransaction {
	p := t.Body.Peer
	c := hg.NewInternalTransaction(t.Body.Type, *peers.NewPeer(p.PubKeyHex, p.NetAddr, p.Moniker))
	c.Signature = t.Signature
	return c
}

func cpReceipts(rs []hg.InternalTransactionReceipt) []hg.InternalTransactionReceipt {
	if rs == nil {
		return nil
	}
	r := make([]hg.InternalTransactionReceipt, len(rs))
	for i, x := range rs {
		r[i] = hg.InternalTransactionReceipt{InternalTransaction: cpItx(x.InternalTransaction), Accepted: x.Accepted}
	}
	return r
}

func cpResp(c proxy.CommitResponse) proxy.CommitResponse {
	return proxy.CommitResponse{StateHash: cpBytes(c.StateHash), InternalTransactionReceipts: cpReceipts(c.InternalTransactionReceipts)}
}

func cpBlock(b *hg.Block) *hg.Block {
	c := &hg.Block{Body: hg.BlockBody{Index: b.Body.Index, RoundReceived: b.Body.RoundReceived, Timestamp: b.Body.Timestamp,
		StateHash: cpBytes(b.Body.StateHash), FrameHash: cpBytes(b.Body.FrameHash), PeersHash: cpBytes(b.Body.PeersHash),
		InternalTransactionReceipts: cpReceipts(b.Body.InternalTransactionReceipts)}}
	if b.Body.Transactions != nil {
		c.Body.Transactions = make([][]byte, len(b.Body.Transactions))
		for i, t := range b.Body.Transactions {
			c.Body.Transactions[i] = cpBytes(t)
		}
	}
	if b.Body.InternalTransactions != nil {
		c.Body.InternalTransactions = make([]hg.InternalTransaction, len(b.Body.InternalTransactions))
		for i, t := range b.Body.InternalTransactions {
			c.Body.InternalTransactions[i] = cpItx(t)
		}
	}
	if b.Signatures != nil {
		c.Signatures = map[string]string{}
		for k, v := range b.Signatures {
			c.Signatures[k] = v
		}
	}
	return c
}

// in-place damage to a value the caller / handler still holds
func scribbleBytes(b []byte) {
	for i := range b {
		b[i] ^= 0x5a
	}
}
func scribbleReceipts(rs []hg.InternalTransactionReceipt) {
	for i := range rs {
		rs[i].Accepted = !rs[i].Accepted
		rs[i].InternalTransaction.Signature = "scribbled"
		rs[i].InternalTransaction.Body.Peer.Moniker = "scribbled"
	}
}
func scribbleBlock(b *hg.Block) {
	scribbleBytes(b.Body.StateHash)
	scribbleBytes(b.Body.FrameHash)
	scribbleBytes(b.Body.PeersHash)
	for _, t := range b.Body.Transactions {
		scribbleBytes(t)
	}
	for i := range b.Body.InternalTransactions {
		b.Body.InternalTransactions[i].Signature = "scribbled"
	}
	scribbleReceipts(b.Body.InternalTransactionReceipts)
	for k := range b.Signatures {
		b.Signatures[k] = "scribbled"
	}
}

func singleField(name, v string) (order []string, m map[string]string) {
	return []string{name}, map[string]string{name: v}
}

// world: the calls of one attachment (socket or in-process)
type retWorld struct {
	name      string
	h         *Handler
	commit    func(hg.Block) (proxy.CommitResponse, error)
	snapshot  func(int) ([]byte, error)
	restore   func([]byte) error
	stateCh   func(state.State) error
	submit    func([]byte) error
	drain     *Drain
	drainBase int
}

func (g *Gen) exactReceipts(k int) []hg.InternalTransactionReceipt {
	if k == 0 {
		if g.rng.Intn(2) == 0 {
			return nil
		}
		return []hg.InternalTransactionReceipt{}
	}
	r := make([]hg.InternalTransactionReceipt, k)
	for i := range r {
		r[i] = hg.InternalTransactionReceipt{InternalTransaction: g.Itx(), Accepted: g.rng.Intn(2) == 0}
	}
	return r
}

func (g *Gen) payload(n int) []byte {
	b := make([]byte, n)
	g.rng.Read(b)
	return b
}

type retOp struct {
	kind  string // commit | snapshot | restore | state | submit
	k     int    // receipts / payload length
	probe bool   // mutate the caller's / handler's copies in place after the call and look at the other side at once
}

// retentionCases runs the same call sequence against the socket attachment and the in-process attachment.
func retentionCases(g *Gen, sw *SockWorld, iw *InmemWorld, n int, stats map[string]int) {
	worlds := []*retWorld{
		{name: "socket", h: sw.h, commit: sw.app.CommitBlock, snapshot: sw.app.GetSnapshot, restore: sw.app.Restore,
			stateCh: sw.app.OnStateChanged, submit: sw.bab.SubmitTx, drain: sw.drain},
		{name: "inmem", h: iw.h, commit: iw.p.CommitBlock, snapshot: iw.p.GetSnapshot, restore: iw.p.Restore,
			stateCh: iw.p.OnStateChanged, submit: func(tx []byte) error { iw.p.SubmitTx(tx); return nil }, drain: iw.drain},
	}
	time.Sleep(10 * time.Millisecond)
	for _, w := range worlds {
		w.drain.Take()
		w.drainBase = 0
	}
	// scripted prefix: back-to-back commits whose responses BOTH carry receipts (fewer / more / as many as before),
	// an empty one in between, payloads shorter after longer
	ops := []retOp{
		{"commit", 2, false}, {"commit", 1, false}, {"commit", 3, false}, {"commit", 3, false}, {"commit", 0, false}, {"commit", 1, false}, {"commit", 4, false}, {"commit", 2, false},
		{"snapshot", 30, false}, {"snapshot", 5, false}, {"snapshot", 12, false}, {"snapshot", 40, false}, {"snapshot", 1, false},
		{"restore", 25, false}, {"restore", 3, false}, {"restore", 17, false}, {"restore", 2, false},
		{"submit", 40, false}, {"submit", 2, false}, {"submit", 9, false}, {"submit", 64, false}, {"submit", 1, false},
		{"state", 1, false}, {"state", 4, false},
		{"commit", 2, true}, {"snapshot", 8, true}, {"restore", 8, true}, {"submit", 8, true},
	}
	kinds := []string{"commit", "commit", "commit", "commit", "snapshot", "snapshot", "restore", "restore", "submit", "submit", "state"}
	for len(ops) < n {
		k := kinds[g.rng.Intn(len(kinds))]
		op := retOp{kind: k, probe: g.rng.Intn(6) == 0}
		switch k {
		case "commit":
			op.k = []int{0, 1, 1, 2, 2, 3, 5}[g.rng.Intn(7)]
		case "state":
			op.k = g.rng.Intn(6)
		default:
			op.k = 1 + g.rng.Intn(48)
		}
		ops = append(ops, op)
	}
	for i, op := range ops {
		switch op.kind {
		case "commit":
			b := g.Block(true)
			resp := proxy.CommitResponse{StateHash: g.payload(1 + g.rng.Intn(40)), InternalTransactionReceipts: g.exactReceipts(op.k)}
			desc := fmt.Sprintf("commit(itxs=%d,receipts=%d)", len(b.Body.InternalTransactions), op.k)
			for _, w := range worlds {
				ci := ret.Call(w.name + ":" + desc)
				sent := cpBlock(b)          // what Babble passes (its own memory)
				w.h.resp = cpResp(resp)     // what the application returns (its own memory)
				nb := len(w.h.blocks)
				got, err := w.commit(*sent)
				if err != nil || len(w.h.blocks) != nb+1 {
					V("call-failed-without-fault", fmt.Sprintf("retention %s %s: %v", w.name, desc, err))
					continue
				}
				if op.probe {
					// Babble scribbles over its block, the application over the response it returned
					scribbleBlock(sent)
					scribbleBytes(w.h.resp.StateHash)
					scribbleReceipts(w.h.resp.InternalTransactionReceipts)
					chB, _ := diffFields(blockFieldOrder, blockFields(b), blockFields(&w.h.blocks[nb]))
					chR, _ := diffFields(respOrder, respFields(&resp), respFields(&got))
					aliasVerdict(w.name, "commit-block", chB, stats)
					aliasVerdict(w.name, "commit-response", chR, stats)
					w.h.blocks[nb] = *cpBlock(b) // not kept
					continue
				}
				idx := nb
				hh := w.h
				kept := got
				ret.Keep(ci, w.name, "commit-response", respOrder, respFields(&resp), func() map[string]string { return respFields(&kept) })
				ret.Keep(ci, w.name, "handler-block", blockFieldOrder, blockFields(b), func() map[string]string { return blockFields(&hh.blocks[idx]) })
				fmt.Fprintf(out, "PX K %d %s %s => kept 2\n", i, w.name, desc)
			}
		case "snapshot":
			pay := g.payload(op.k)
			idx := g.Int()
			desc := fmt.Sprintf("snapshot(len=%d)", op.k)
			for _, w := range worlds {
				ci := ret.Call(w.name + ":" + desc)
				w.h.snapshot = cpBytes(pay)
				got, err := w.snapshot(idx)
				if err != nil {
					V("call-failed-without-fault", fmt.Sprintf("retention %s %s: %v", w.name, desc, err))
					continue
				}
				if op.probe {
					scribbleBytes(w.h.snapshot)
					var ch []string
					if bTok(got) != bTok(pay) {
						ch = []string{"snapshot"}
					}
					aliasVerdict(w.name, "snapshot", ch, stats)
					continue
				}
				kept := got
				o, m := singleField("snapshot", bTok(pay))
				ret.Keep(ci, w.name, "snapshot", o, m, func() map[string]string { return map[string]string{"snapshot": bTok(kept)} })
				fmt.Fprintf(out, "PX K %d %s %s => kept 1\n", i, w.name, desc)
			}
		case "restore":
			pay := g.payload(op.k)
			desc := fmt.Sprintf("restore(len=%d)", op.k)
			for _, w := range worlds {
				ci := ret.Call(w.name + ":" + desc)
				w.h.stateHash = g.payload(4)
				arg := cpBytes(pay)
				na := len(w.h.restoreArgs)
				if err := w.restore(arg); err != nil || len(w.h.restoreArgs) != na+1 {
					V("call-failed-without-fault", fmt.Sprintf("retention %s %s: %v", w.name, desc, err))
					continue
				}
				if op.probe {
					scribbleBytes(arg)
					var ch []string
					if bTok(w.h.restoreArgs[na]) != bTok(pay) {
						ch = []string{"restore-argument"}
					}
					aliasVerdict(w.name, "restore-argument", ch, stats)
					w.h.restoreArgs[na] = cpBytes(pay)
					continue
				}
				hh, idx := w.h, na
				o, m := singleField("restore-argument", bTok(pay))
				ret.Keep(ci, w.name, "handler-restore-argument", o, m, func() map[string]string { return map[string]string{"restore-argument": bTok(hh.restoreArgs[idx])} })
				fmt.Fprintf(out, "PX K %d %s %s => kept 1\n", i, w.name, desc)
			}
		case "state":
			st := state.State(op.k % 6)
			desc := fmt.Sprintf("state(%d)", int(st))
			for _, w := range worlds {
				ci := ret.Call(w.name + ":" + desc)
				na := len(w.h.stateArgs)
				if err := w.stateCh(st); err != nil || len(w.h.stateArgs) != na+1 {
					V("call-failed-without-fault", fmt.Sprintf("retention %s %s: %v", w.name, desc, err))
					continue
				}
				hh, idx := w.h, na
				o, m := singleField("state", fmt.Sprint(int(st)))
				ret.Keep(ci, w.name, "handler-state", o, m, func() map[string]string { return map[string]string{"state": fmt.Sprint(int(hh.stateArgs[idx]))} })
			}
		case "submit":
			pay := g.payload(op.k)
			desc := fmt.Sprintf("submit(len=%d)", op.k)
			for _, w := range worlds {
				ci := ret.Call(w.name + ":" + desc)
				arg := cpBytes(pay)
				before := w.drain.Len()
				err := w.submit(arg)
				for t := 0; t < 200 && w.drain.Len() == before; t++ {
					time.Sleep(time.Millisecond)
				}
				if err != nil || w.drain.Len() != before+1 {
					V("call-failed-without-fault", fmt.Sprintf("retention %s %s: %v received=%d", w.name, desc, err, w.drain.Len()-before))
					continue
				}
				d, idx := w.drain, before
				if op.probe {
					scribbleBytes(arg)
					var ch []string
					if bTok(d.At(idx)) != bTok(pay) {
						ch = []string{"transaction"}
					}
					// both proxies promise an independent transaction (the inmem proxy copies it explicitly)
					if len(ch) > 0 {
						V("content-aliased:transaction", fmt.Sprintf("world=%s %s: the transaction Babble received changes when the application reuses its buffer", w.name, desc))
					}
					stats["alias_probe_"+w.name+"_transaction_independent"] += b2i(len(ch) == 0)
					fmt.Fprintf(out, "PX A %s transaction => %s\n", w.name, map[bool]string{true: "independent", false: "shared"}[len(ch) == 0])
					// repair the kept value for the later rechecks
					copy(d.At(idx), pay)
				}
				o, m := singleField("transaction", bTok(pay))
				ret.Keep(ci, w.name, "submitted-transaction", o, m, func() map[string]string { return map[string]string{"transaction": bTok(d.At(idx))} })
				fmt.Fprintf(out, "PX K %d %s %s => kept 1\n", i, w.name, desc)
			}
		}
		ret.Recheck(fmt.Sprintf("retention op %d (%s k=%d)", i, op.kind, op.k))
		stats["retention_calls"]++
	}
}

// aliasVerdict: after an in-place mutation of the caller's / handler's copy. Through the socket nothing may be
// shared. In process the handler is called with Babble's own values and returns its own: sharing is the nature of
// the in-process attachment and is reported as information (PX A ... shared), not as a violation.
func aliasVerdict(world, kind string, changed []string, stats map[string]int) {
	v := "independent"
	if len(changed) > 0 {
		v = "shared"
		if world == "socket" {
			V("content-aliased:"+kind, fmt.Sprintf("world=socket fields=%s: the value on the other side changed when this side reused its memory", strings.Join(changed, ",")))
		}
	}
	stats["alias_probe_"+world+"_"+kind+"_"+v]++
	fmt.Fprintf(out, "PX A %s %s => %s\n", world, kind, v)
}
