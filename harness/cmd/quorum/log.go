package main

import (
	"io"

	"github.com/sirupsen/logrus"
)

func quietLogger() *logrus.Entry {
	l := logrus.New()
	l.Out = io.Discard
	l.Level = logrus.PanicLevel
	return logrus.NewEntry(l)
}
