// Command quorum: exhaustive correspondence data for C19.
// Output lines:
//   Q <n> <slice_len> <SuperMajority> <TrustCount>     for n in 0..N on a set grown in place
//   D <n> <dups> <SuperMajority> <TrustCount>           hostile slices with repeated keys
//   A <k> <n> <anchor_set 0/1>                          SetAnchorBlock decision with k signature entries
//   C <k> <n> <accepted 0/1>                            CheckBlock decision with k valid signatures
//   O <seq of ops> => <keys>                            WithNewPeer/WithRemovedPeer sequences
package main

import (
	"bufio"
	"crypto/ecdsa"
	"flag"
	"fmt"
	"math/rand"
	"os"
	"strings"

	"github.com/mosaicnetworks/babble/src/crypto/keys"
	hg "github.com/mosaicnetworks/babble/src/hashgraph"
	"github.com/mosaicnetworks/babble/src/peers"
)

func main() {
	maxN := flag.Int("n", 100000, "largest set size")
	maxDec := flag.Int("dec", 60, "largest n for acceptance decisions")
	seed := flag.Int64("seed", 1, "seed")
	nops := flag.Int("ops", 200, "number of add/remove sequences")
	flag.Parse()
	w := bufio.NewWriter(os.Stdout)
	defer w.Flush()

	// Q: grow the maps in place; a fresh PeerSet struct per n so that cached values are fresh.
	all := make([]*peers.Peer, 0, *maxN)
	byKey := map[string]*peers.Peer{}
	byID := map[uint32]*peers.Peer{}
	for n := 0; n <= *maxN; n++ {
		ps := &peers.PeerSet{Peers: all[:n], ByPubKey: byKey, ByID: byID}
		fmt.Fprintf(w, "Q %d %d %d %d\n", ps.Len(), len(ps.Peers), ps.SuperMajority(), ps.TrustCount())
		if n < *maxN {
			p := peers.NewPeer(fmt.Sprintf("0X%064X", n+1), "", "")
			all = append(all, p)
			byKey[p.PubKeyString()] = p
			byID[uint32(n+1)] = p
		}
	}

	// D: hostile slices: distinct n keys, each repeated (dups+1) times, through NewPeerSet.
	for n := 1; n <= 12; n++ {
		for dups := 0; dups <= 3; dups++ {
			sl := []*peers.Peer{}
			for r := 0; r <= dups; r++ {
				for i := 0; i < n; i++ {
					sl = append(sl, peers.NewPeer(fmt.Sprintf("0X%064X", i+1), "", ""))
				}
			}
			ps := peers.NewPeerSet(sl)
			fmt.Fprintf(w, "Q %d %d %d %d\n", ps.Len(), len(ps.Peers), ps.SuperMajority(), ps.TrustCount())
		}
	}

	// Real keys for the acceptance decisions.
	privs := []*ecdsa.PrivateKey{}
	prs := []*peers.Peer{}
	for i := 0; i < *maxDec; i++ {
		k, _ := keys.GenerateECDSAKey()
		privs = append(privs, k)
		prs = append(prs, peers.NewPeer(keys.PublicKeyHex(&k.PublicKey), "", ""))
	}
	// the decision sets are grown one join at a time (WithNewPeer), with the thresholds of
	// every intermediate set queried first, as the live validator set of a node is
	var grown *peers.PeerSet
	for n := 1; n <= *maxDec; n++ {
		if grown == nil {
			grown = peers.NewPeerSet(append([]*peers.Peer{}, prs[:1]...))
		} else {
			grown = grown.WithNewPeer(prs[n-1])
		}
		ps := grown
		fmt.Fprintf(w, "Q %d %d %d %d\n", ps.Len(), len(ps.Peers), ps.SuperMajority(), ps.TrustCount())
		store := hg.NewInmemStore(100)
		h := hg.NewHashgraph(store, hg.DummyInternalCommitCallback, quietLogger())
		if err := h.Init(ps); err != nil {
			panic(err)
		}
		block := hg.NewBlock(0, 0, []byte("frame"), ps.Peers, [][]byte{[]byte("tx")}, nil, 0)
		tcn := ps.TrustCount()
		for k := 0; k <= n && k <= tcn+2; k++ {
			if k > 0 {
				sig, err := block.Sign(privs[k-1])
				if err != nil {
					panic(err)
				}
				block.SetSignature(sig)
			}
			if k+2 < tcn {
				continue
			}
			// CheckBlock with k valid signatures
			err := h.CheckBlock(block, ps)
			fmt.Fprintf(w, "C %d %d %d\n", k, n, b2i(err == nil))
			// the fast-sync variant: only signatures of validators the node already knows are counted, but the threshold
			// stays that of the block's validator set. Known = exactly the k signers, and known = everybody: the decision
			// is the same function of (k, n)
			if k > 0 {
				onlySigners, everybody := map[string]bool{}, map[string]bool{}
				for i, p := range ps.Peers {
					everybody[p.PubKeyString()] = true
					_ = i
				}
				for i := 0; i < k; i++ {
					onlySigners[prs[i].PubKeyString()] = true
				}
				e1 := h.CheckBlockWithTrusted(block, ps, onlySigners)
				e2 := h.CheckBlockWithTrusted(block, ps, everybody)
				fmt.Fprintf(w, "C %d %d %d\n", k, n, b2i(e1 == nil))
				fmt.Fprintf(w, "C %d %d %d\n", k, n, b2i(e2 == nil))
			}
			// SetAnchorBlock on a fresh hashgraph state
			h.AnchorBlock = nil
			if err := h.SetAnchorBlock(block); err != nil {
				panic(err)
			}
			fmt.Fprintf(w, "A %d %d %d\n", k, n, b2i(h.AnchorBlock != nil))
		}
	}

	// shrinking chain: remove one validator at a time, querying thresholds at every size
	for n := *maxDec; n >= 2 && grown != nil; n-- {
		grown = grown.WithRemovedPeer(prs[n-1])
		fmt.Fprintf(w, "Q %d %d %d %d\n", grown.Len(), len(grown.Peers), grown.SuperMajority(), grown.TrustCount())
	}

	// O: add/remove sequences over a small repertoire (ids collide on purpose: id = key mod 7
	// cannot be forced on real peers, so ids are the real FNV ids; the model receives them).
	rng := rand.New(rand.NewSource(*seed))
	rep := prs
	if len(rep) > 9 {
		rep = rep[:9]
	}
	var tbuf strings.Builder
	tw := &tbuf
	for s := 0; s < *nops; s++ {
		ps := peers.NewPeerSet([]*peers.Peer{})
		fmt.Fprintf(w, "O")
		l := 1 + rng.Intn(14)
		for j := 0; j < l; j++ {
			pi := rng.Intn(len(rep))
			p := rep[pi]
			if rng.Intn(3) == 0 {
				// removal by a peer object with lower-case key (PubKeyHex compared verbatim)
				ps = ps.WithRemovedPeer(p)
				fmt.Fprintf(w, " R %d %d", p.ID(), pi)
			} else {
				ps = ps.WithNewPeer(p)
				fmt.Fprintf(w, " A %d %d", p.ID(), pi)
			}
			// thresholds of every intermediate set (also populates the cached values)
			fmt.Fprintf(tw, "Q %d %d %d %d\n", ps.Len(), len(ps.Peers), ps.SuperMajority(), ps.TrustCount())
		}
		fmt.Fprintf(w, " =>")
		for _, p := range ps.Peers {
			for i, q := range rep {
				if q.PubKeyHex == p.PubKeyHex {
					fmt.Fprintf(w, " %d", i)
				}
			}
		}
		fmt.Fprintf(w, " ; %d %d %d\n", ps.Len(), ps.SuperMajority(), ps.TrustCount())
	}
	fmt.Fprint(w, tbuf.String())
}

func b2i(b bool) int {
	if b {
		return 1
	}
	return 0
}
