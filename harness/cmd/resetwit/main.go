// Command resetwit (C13): scripted gossip over real node.core objects with ONE fast-forwarding
// validator, used to find, minimise and replay histories in which a node that was reset from an
// honest peer's anchor block + frame assigns to a later event a round that differs from the round
// full-history nodes assign (known finding C13-roots-insufficient).
//
//	resetwit -search N -seed S [-n 4] [-len 120]   random scripts; the first diverging one is shrunk
//	                                               (delta debugging on the action list) and printed
//	resetwit -script "s0 p0.1 p1.0 ... f3.0 p3.0"  replay one script
//
// Script actions: sA = node A submits one transaction; pA.B = A pulls from B (knownEvents ->
// eventDiff -> toWire -> sync -> processSigPool, as node.pull does); fV.S = V fast-forwards from S's
// anchor block + frame (through the JSON transport, as node.fastForward does: checkFastForward,
// Reset, receipts). The last validator is the victim: it stays silent until its f action.
//
// Output: the usual trace (N / I / B / G / T / o / K lines, and the R line of the fast-forward)
// so that the runner replays every node, the victim included, on the Coq model; `V C13
// round-differs-after-reset ...` when the victim's round of an event differs from a full node's;
// `# SCRIPT ...` = the script that was run.
package main

import (
	"bufio"
	"bytes"
	"encoding/json"
	"flag"
	"fmt"
	"math/rand"
	"os"
	"sort"
	"strconv"
	"strings"

	hg "github.com/mosaicnetworks/babble/src/hashgraph"
	"github.com/mosaicnetworks/babble/src/peers"
	"verifharness/hx"
)

type action struct {
	kind byte // 's', 'p', 'f'
	a, b int
}

func (x action) String() string {
	if x.kind == 's' {
		return fmt.Sprintf("s%d", x.a)
	}
	return fmt.Sprintf("%c%d.%d", x.kind, x.a, x.b)
}

func parseScript(s string) ([]action, error) {
	out := []action{}
	for _, t := range strings.Fields(s) {
		k := t[0]
		rest := t[1:]
		switch k {
		case 's':
			a, err := strconv.Atoi(rest)
			if err != nil {
				return nil, err
			}
			out = append(out, action{kind: 's', a: a})
		case 'p', 'f':
			ab := strings.Split(rest, ".")
			if len(ab) != 2 {
				return nil, fmt.Errorf("bad action %q", t)
			}
			a, err1 := strconv.Atoi(ab[0])
			b, err2 := strconv.Atoi(ab[1])
			if err1 != nil || err2 != nil {
				return nil, fmt.Errorf("bad action %q", t)
			}
			out = append(out, action{kind: k, a: a, b: b})
		default:
			return nil, fmt.Errorf("bad action %q", t)
		}
	}
	return out, nil
}

func scriptString(sc []action) string {
	s := []string{}
	for _, a := range sc {
		s = append(s, a.String())
	}
	return strings.Join(s, " ")
}

type result struct {
	deliveredAfter int // blocks the victim delivered after its reset
	afterReset int // events the victim inserted after its reset
	diverged   bool
	detail     string
	resets     int
	violations int
	divEid     int
	victim     int
	full       int
}

// run executes a script on n fresh cores and writes the trace to out.
func run(out *bufio.Writer, n int, sc []action, hid int) result {
	w := hx.NewWorld(out)
	res := result{divEid: -1}
	fmt.Fprintf(out, "H %d resetwit n=%d\n", hid, n)
	fmt.Fprintf(out, "# SCRIPT %s\n", scriptString(sc))
	genesis := []int{}
	for i := 0; i < n; i++ {
		genesis = append(genesis, w.AddKey())
	}
	nodes := []*hx.Node{}
	for i := 0; i < n; i++ {
		nodes = append(nodes, w.NewNode(i, i, genesis, genesis, hg.NewInmemStore(10000)))
	}
	victim := n - 1
	reset := false
	finalAtReset := 0
	after := func(a *hx.Node, ran bool) {
		before := len(a.Inserted)
		a.AfterAction(ran)
		if a.ID == victim && reset {
			res.afterReset += len(a.Inserted) - before
			res.deliveredAfter = len(a.Final) - finalAtReset
		}
		if a.ID == victim && reset && !res.diverged {
			// oracle: rounds of the events known to the victim vs a full-history node
			for id, gev := range w.EvByEid {
				ev, err := a.Store.GetEvent(gev.Hex())
				if err != nil {
					continue
				}
				r, ok := ev.VerifRound()
				if !ok {
					continue
				}
				for _, o := range nodes {
					if o.ID == victim {
						continue
					}
					oe, err := o.Store.GetEvent(gev.Hex())
					if err != nil {
						continue
					}
					or, ok2 := oe.VerifRound()
					if ok2 && or != r {
						res.diverged = true
						res.divEid, res.victim, res.full = id, a.ID, o.ID
						res.detail = fmt.Sprintf("node=%d eid=%d reset-node-round=%d full-node%d-round=%d anchor-base=%d", a.ID, id, r, o.ID, or, a.Base)
						w.Violation("C13", "round-differs-after-reset", res.detail)
						return
					}
				}
			}
		}
	}
	for _, x := range sc {
		if x.a < 0 || x.a >= n || (x.kind != 's' && (x.b < 0 || x.b >= n || x.a == x.b)) {
			continue
		}
		a := nodes[x.a]
		switch x.kind {
		case 's':
			tx := w.NewTx(0)
			a.Core.AddTransactions([][]byte{tx})
			fmt.Fprintf(out, "T %d %d\n", a.ID, hx.TxSerialOf(tx))
		case 'p':
			b := nodes[x.b]
			known := a.Core.KnownEvents()
			diff, err := b.Core.EventDiff(known)
			if err != nil {
				continue
			}
			wire, _ := b.Core.ToWire(diff)
			err = a.Core.Sync(b.Core.ValidatorID(), wire)
			ran := false
			if err == nil || hg.IsNormalSelfParentError(err) {
				a.Core.ProcessSigPool()
				ran = true
			}
			after(a, ran)
		case 'f':
			if x.a != victim || reset {
				continue
			}
			b := nodes[x.b]
			if b.Hg.AnchorBlock == nil {
				continue
			}
			block, frame, err := b.Core.GetAnchorBlockWithFrame()
			if err != nil {
				continue
			}
			var blk hg.Block
			var frm hg.Frame
			bb, _ := json.Marshal(block)
			fb, _ := json.Marshal(frame)
			if json.Unmarshal(bb, &blk) != nil || json.Unmarshal(fb, &frm) != nil {
				continue
			}
			rline := resetLine(w, a, b, &blk, &frm)
			if err := a.Core.FastForward(&blk, &frm); err != nil {
				w.Violation("C13", "honest-anchor-refused", fmt.Sprintf("node=%d server=%d block=%d err=%v", a.ID, b.ID, block.Index(), err))
				fmt.Fprintf(out, "F %d\n", a.ID)
				continue
			}
			a.App.State = append([]byte{}, block.StateHash()...) // snapshot restored only after the check (52c591c)
			a.Core.ProcessAcceptedInternalTransactions(blk.RoundReceived(), blk.InternalTransactionReceipts())
			a.WasReset = true
			a.Base = blk.Index() + 1
			fmt.Fprintf(out, "%s => ok\n", rline)
			hexes := []string{}
			for _, fe := range frm.SortedFrameEvents() {
				hexes = append(hexes, fe.Core.Hex())
			}
			a.ResetTracked(hexes)
			reset = true
			finalAtReset = len(a.Final)
			res.resets++
			after(a, false)
		}
	}
	res.violations = w.Violations
	fmt.Fprintf(out, "Z %d resets=%d diverged=%d actions=%d events=%d\n", hid, res.resets, b2i(res.diverged), len(sc), len(w.EvByEid))
	return res
}

func b2i(x bool) int {
	if x {
		return 1
	}
	return 0
}

// resetLine: same format as harness/cmd/sim (read by runner/resetdrv.ml).
func resetLine(w *hx.World, a, b *hx.Node, blk *hg.Block, frm *hg.Frame) string {
	var sb strings.Builder
	fmt.Fprintf(&sb, "R %d %d B %d %d %d %d %d T %d", a.ID, b.ID, blk.Index(), blk.RoundReceived(), blk.Timestamp(),
		w.BodyID(blk), b2i(len(blk.StateHash()) > 0), len(blk.Transactions()))
	for _, tx := range blk.Transactions() {
		fmt.Fprintf(&sb, " %d", hx.TxSerialOf(tx))
	}
	acc := map[int]bool{}
	for _, r := range blk.InternalTransactionReceipts() {
		it := r.InternalTransaction
		acc[w.ItxID(&it)] = r.Accepted
	}
	fmt.Fprintf(&sb, " X %d", len(blk.InternalTransactions()))
	for _, itx := range blk.InternalTransactions() {
		it := itx
		vok, _ := it.Verify()
		p := it.Body.Peer
		id := w.ItxID(&it)
		fmt.Fprintf(&sb, " %d %d %d %d %d %d", id, b2i(it.Body.Type == hg.PEER_ADD), p.ID(), w.Ord(p.PubKeyHex), b2i(vok), b2i(acc[id]))
	}
	type se struct{ v, o int }
	sl := []se{}
	for _, bs := range blk.GetSignatures() {
		sl = append(sl, se{w.Ord(bs.ValidatorHex()), w.SigOver(bs)})
	}
	sort.Slice(sl, func(i, j int) bool { return sl[i].v < sl[j].v })
	fmt.Fprintf(&sb, " G %d", len(sl))
	for _, s := range sl {
		fmt.Fprintf(&sb, " %d %d", s.v, s.o)
	}
	peersFull := func(ps []*peers.Peer) string {
		var pb strings.Builder
		fmt.Fprintf(&pb, "%d", len(ps))
		for _, p := range ps {
			fmt.Fprintf(&pb, " %d:%d", p.ID(), w.Ord(p.PubKeyHex))
		}
		return pb.String()
	}
	fes := func(l []*hg.FrameEvent) string {
		var fb strings.Builder
		fmt.Fprintf(&fb, "%d", len(l))
		for _, fe := range l {
			fmt.Fprintf(&fb, " %d:%d:%d:%d", w.Eid(fe.Core.Hex()), fe.Round, fe.LamportTimestamp, b2i(fe.Witness))
		}
		return fb.String()
	}
	fmt.Fprintf(&sb, " FR %d %d P %s", frm.Round, frm.Timestamp, peersFull(frm.Peers))
	rs := []int{}
	for r := range frm.PeerSets {
		rs = append(rs, r)
	}
	sort.Ints(rs)
	fmt.Fprintf(&sb, " PS %d", len(rs))
	for _, r := range rs {
		fmt.Fprintf(&sb, " %d %s", r, peersFull(frm.PeerSets[r]))
	}
	fmt.Fprintf(&sb, " EV %s", fes(frm.Events))
	ords := []int{}
	byOrd := map[int]*hg.Root{}
	for k, r := range frm.Roots {
		o := w.Ord(k)
		ords = append(ords, o)
		byOrd[o] = r
	}
	sort.Ints(ords)
	fmt.Fprintf(&sb, " ROOTS %d", len(ords))
	cores := []*hg.Event{}
	for _, o := range ords {
		fmt.Fprintf(&sb, " %d %s", o, fes(byOrd[o].Events))
		for _, fe := range byOrd[o].Events {
			cores = append(cores, fe.Core)
		}
	}
	for _, fe := range frm.Events {
		cores = append(cores, fe.Core)
	}
	fmt.Fprintf(&sb, " CORES %d", len(cores))
	for _, c := range cores {
		fmt.Fprintf(&sb, " %s", w.EventLine(c))
	}
	return sb.String()
}

func quiet(n int, sc []action) result {
	var buf bytes.Buffer
	bw := bufio.NewWriterSize(&buf, 1<<20)
	r := run(bw, n, sc, 0)
	return r
}

// randomScript: skewed gossip among the non-victims (two chatty nodes, the others slow), submissions
// to keep the cores busy, one fast-forward of the victim, then the victim catches up.
func randomScript(rng *rand.Rand, n, length int) []action {
	sc := []action{}
	victim := n - 1
	weights := make([]float64, n)
	for i := range weights {
		weights[i] = []float64{1, 1, 0.3, 0.08}[rng.Intn(4)]
	}
	if rng.Intn(2) == 0 {
		// two chatty validators, the others slow: long chains inside one round
		for i := range weights {
			weights[i] = 0.06
		}
		p := rng.Perm(n - 1)
		weights[p[0]], weights[p[1]] = 1, 1
	}
	quietFrom := rng.Intn(length / 2) // the victim takes part in the gossip up to here, then falls silent
	if rng.Intn(3) == 0 {
		quietFrom = 0
	}
	ffAt := quietFrom + length/6 + rng.Intn(length/2)
	pick := func(i int) int {
		tot := 0.0
		for k, x := range weights {
			if k == victim && i >= quietFrom {
				continue
			}
			tot += x
		}
		r := rng.Float64() * tot
		for k, x := range weights {
			if k == victim && i >= quietFrom {
				continue
			}
			if r < x {
				return k
			}
			r -= x
		}
		return 0
	}
	for i := 0; i < length; i++ {
		if i >= ffAt && (i-ffAt)%5 == 0 {
			// (only the first fast-forward that finds an anchor is executed)
			sc = append(sc, action{kind: 'f', a: victim, b: rng.Intn(n - 1)})
			continue
		}
		if i > ffAt && rng.Intn(4) == 0 {
			sc = append(sc, action{kind: 'p', a: victim, b: rng.Intn(n - 1)})
			continue
		}
		if rng.Intn(4) == 0 {
			sc = append(sc, action{kind: 's', a: pick(i)})
			continue
		}
		a, b := pick(i), pick(i)
		if a == b {
			continue
		}
		sc = append(sc, action{kind: 'p', a: a, b: b})
	}
	for k := 0; k < 3; k++ {
		sc = append(sc, action{kind: 'p', a: victim, b: rng.Intn(n - 1)})
	}
	return sc
}

// shrink: remove chunks / single actions while the divergence persists (every candidate is re-run
// twice: ECDSA signatures are randomised, so hash-derived tie-breaks can vary between runs).
func shrink(n int, sc []action, pred func(result) bool) []action {
	holds := func(c []action) bool { return pred(quiet(n, c)) && pred(quiet(n, c)) }
	chunk := len(sc) / 2
	for chunk >= 1 {
		changed := false
		for i := 0; i+chunk <= len(sc); {
			c := append(append([]action{}, sc[:i]...), sc[i+chunk:]...)
			if holds(c) {
				sc = c
				changed = true
			} else {
				i += chunk
			}
		}
		if !changed || chunk == 1 {
			if chunk == 1 && !changed {
				break
			}
		}
		if chunk > 1 {
			chunk /= 2
		}
	}
	return sc
}

func main() {
	seed := flag.Int64("seed", 1, "seed")
	search := flag.Int("search", 0, "number of random scripts to try")
	n := flag.Int("n", 4, "validators (the last one fast-forwards)")
	length := flag.Int("len", 120, "script length")
	script := flag.String("script", "", "script to replay")
	noshrink := flag.Bool("noshrink", false, "print the first diverging script without shrinking")
	searchok := flag.Int("searchok", 0, "search (and shrink) a history with a reset, later insertions and NO divergence")
	mindeliv := flag.Int("mindeliv", 0, "with -searchok: the reset node must deliver at least this many blocks after its reset")
	emit := flag.Int("emit", 0, "print the traces of this many random scripts (correspondence mode)")
	flag.Parse()
	out := bufio.NewWriterSize(os.Stdout, 1<<20)
	defer out.Flush()
	if *script != "" {
		sc, err := parseScript(*script)
		if err != nil {
			fmt.Fprintln(os.Stderr, err)
			os.Exit(2)
		}
		run(out, *n, sc, 0)
		return
	}
	rng := rand.New(rand.NewSource(*seed))
	if *emit > 0 {
		// correspondence mode: print the traces of random scripts (victims that took part in the gossip
		// before falling behind and fast-forwarding: Reset from a non-trivial state)
		resets, div := 0, 0
		for i := 0; i < *emit; i++ {
			k := *n
			if i%2 == 1 && k > 3 {
				k--
			}
			r := run(out, k, randomScript(rng, k, *length), i)
			resets += r.resets
			div += b2i(r.diverged)
		}
		fmt.Fprintf(out, "Z emit scripts=%d resets=%d diverged=%d\n", *emit, resets, div)
		return
	}
	if *searchok > 0 {
		// a small history in which the reset node goes on inserting events WITHOUT any round divergence
		// (non-vacuity example of the continuity theorems)
		okp := func(r result) bool { return r.resets == 1 && !r.diverged && r.afterReset >= 3 && r.deliveredAfter >= *mindeliv }
		for i := 0; i < *searchok; i++ {
			sc := randomScript(rng, *n, *length)
			if okp(quiet(*n, sc)) {
				sc = shrink(*n, sc, okp)
				run(out, *n, sc, i)
				fmt.Fprintf(out, "Z searchok found=1 script-length=%d\n", len(sc))
				return
			}
		}
		fmt.Fprintf(out, "Z searchok found=0\n")
		return
	}
	tried, withReset := 0, 0
	for i := 0; i < *search; i++ {
		sc := randomScript(rng, *n, *length)
		r := quiet(*n, sc)
		tried++
		if r.resets > 0 {
			withReset++
		}
		if r.diverged {
			if !*noshrink {
				sc = shrink(*n, sc, func(r result) bool { return r.diverged })
			}
			run(out, *n, sc, i)
			fmt.Fprintf(out, "Z search tried=%d with-reset=%d found=1 script-length=%d\n", tried, withReset, len(sc))
			return
		}
	}
	fmt.Fprintf(out, "Z search tried=%d with-reset=%d found=0\n", tried, withReset)
}
