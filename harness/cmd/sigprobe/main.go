// Command sigprobe: standalone replay of finding C09 F1 (FINDINGS.md): what Hashgraph.ProcessSigPool
// does with one malformed signature string, pending under the key of a validator of the block's round.
// go run -tags verif ./cmd/sigprobe
package main

import (
	"fmt"
	"runtime/debug"
	"strings"

	"github.com/mosaicnetworks/babble/src/crypto/keys"
	hg "github.com/mosaicnetworks/babble/src/hashgraph"
	"github.com/mosaicnetworks/babble/src/peers"
	"verifharness/hx"
)

func main() {
	n := 21
	ps := []*peers.Peer{}
	keysl := make([]func(*hg.Block) hg.BlockSignature, 0)
	for i := 0; i < n; i++ {
		k, _ := keys.GenerateECDSAKey()
		p := peers.NewPeer(keys.PublicKeyHex(&k.PublicKey), fmt.Sprintf("a%d", i), fmt.Sprintf("m%d", i))
		ps = append(ps, p)
		kk := k
		keysl = append(keysl, func(b *hg.Block) hg.BlockSignature { s, _ := b.Sign(kk); return s })
	}
	fresh := func() (*hg.Hashgraph, *hg.Block) {
		store := hg.NewInmemStore(1000)
		h := hg.NewHashgraph(store, nil, hx.QuietLogger())
		h.Init(peers.NewPeerSet(ps))
		b := hg.NewBlock(0, 1, []byte("framehash"), ps, [][]byte{[]byte("tx")}, nil, 0)
		store.SetBlock(b)
		return h, b
	}
	xpub := ps[0].PubKeyBytes()
	strs := []string{"", "|", "zz|zz", "12|", "|12", "!|!", "a|b|c", "nosep", "0|0", "-1|-1", "1|1", " 1|2", "1|2 ", "é|ü", "0x1f|0x2a",
		strings.Repeat("z", 3000) + "|" + strings.Repeat("y", 3000), "1|", "|", "+|+", "-|-", "_|_", "1_0|1_0"}
	for _, s := range strs {
		h, _ := fresh()
		h.PendingSignatures.Add(hg.BlockSignature{Validator: xpub, Index: 0, Signature: s})
		res := ""
		func() {
			defer func() {
				if r := recover(); r != nil {
					st := strings.Split(string(debug.Stack()), "\n")
					top := []string{}
					for _, l := range st {
						if strings.Contains(l, ".go:") && !strings.Contains(l, "runtime/") && !strings.Contains(l, "sigprobe") {
							top = append(top, strings.TrimSpace(l))
						}
						if len(top) >= 5 {
							break
						}
					}
					res = fmt.Sprintf("PANIC %v @ %s", r, strings.Join(top, " <- "))
				}
			}()
			err := h.ProcessSigPool()
			res = fmt.Sprintf("returned err=%v", err)
		}()
		fmt.Printf("%-22.22q -> %s ; still pending=%d\n", s, res, h.PendingSignatures.Len())
	}
	// poisoning: one undecodable entry + 20 valid signatures of 20 other validators
	for _, poison := range []string{"", "a|b|c"} {
		h, b := fresh()
		for i := 1; i < n; i++ {
			h.PendingSignatures.Add(keysl[i](b))
		}
		h.PendingSignatures.Add(hg.BlockSignature{Validator: xpub, Index: 0, Signature: poison})
		line := []string{}
		for call := 1; call <= 8; call++ {
			err := h.ProcessSigPool()
			blk, _ := h.Store.GetBlock(0)
			line = append(line, fmt.Sprintf("call%d: err=%v recorded=%d pending=%d", call, err != nil, len(blk.Signatures), h.PendingSignatures.Len()))
		}
		fmt.Printf("poison %q with 20 valid signatures pending:\n  %s\n", poison, strings.Join(line, "\n  "))
	}
}
