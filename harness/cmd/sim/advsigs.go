package main

// Adversarial block-signature stream (-advsigs). A dedicated extra validator X is part of the
// genesis set but has no core: the harness builds X's events itself (hg.NewEvent signed with X's
// key, chained correctly on X's previous event, other-parent = head of a real node) and delivers
// them to every non-silent node through the normal wire path (core.sync, then ProcessSigPool).
// X is Byzantine only in the BlockSignatures payload of its events, never in its DAG behaviour.
// With -dyn, X may submit its own leave request (then keeps gossiping as a REMOVED validator) and
// a second harness-driven key Y joins later (a validator that is NOT YET EFFECTIVE for old blocks).

import (
	"crypto/sha256"
	"fmt"
	"math"
	"sort"
	"strings"

	"github.com/mosaicnetworks/babble/src/crypto/keys"
	hg "github.com/mosaicnetworks/babble/src/hashgraph"
	"github.com/mosaicnetworks/babble/src/peers"
	"verifharness/hx"
)

type adversary struct {
	ord        int
	genesis    bool
	head       string
	seq        int
	leaveSent  bool
	wantsLeave bool
	impatient  bool // Y only: gossips before its join is effective (a real joining node waits)
	history    []advSig
	validCache map[string]string
}

// signature strings that are not the encoding of two base-36 integers (or are, but of nonsense)
var malformedSigs = []string{
	"", "|", "zz|zz", "12|", "|12", "!|!", "a|b|c", "nosep", "0|0", "-1|-1", "1|1", " 1|2", "1|2 ", "é|ü",
	"0x1f|0x2a", strings.Repeat("z", 3000) + "|" + strings.Repeat("y", 3000),
}

func (h *hist) advInit() int {
	s := h.c9()
	o := h.w.AddKey()
	adv := &adversary{ord: o, genesis: true, seq: -1, validCache: map[string]string{}, wantsLeave: h.cfg.dyn && h.rng.Intn(3) > 0}
	s.advs = append(s.advs, adv)
	s.advKeys[o] = adv
	return o
}

func (h *hist) advPub(adv *adversary) []byte {
	return keys.FromPublicKey(&h.w.Privs[adv.ord].PublicKey)
}

// poisonous: the strings for which keys.DecodeSignature fails or yields a nil integer
func poisonous(sig string) bool {
	r, s, err := keys.DecodeSignature(sig)
	return err != nil || r == nil || s == nil
}

// processSigPool: core.processSigPool as the node would call it after a sync. With -advsigs a
// malformed signature string may make it return early with an error or panic (both are reported);
// the harness then removes the offending adversarial entries from the pool and runs it again so
// that the history can go on (a real node would have crashed / would abort at every later call).
func (h *hist) processSigPool(a *hx.Node) error {
	if !h.cfg.advsigs {
		return a.Core.ProcessSigPool()
	}
	s := h.c9()
	err, pan := safeCall(a.Core.ProcessSigPool)
	if err == nil && pan == "" {
		return nil
	}
	removed := []string{}
	for k, bs := range a.Hg.PendingSignatures.Items() {
		if poisonous(bs.Signature) {
			removed = append(removed, fmt.Sprintf("%.12q", bs.Signature))
			a.Hg.PendingSignatures.Remove(k)
			if s.advKeys[h.w.Ord(bs.ValidatorHex())] == nil {
				h.c09v("malformed-signature-attributed-to-other-key", fmt.Sprint(a.ID), fmt.Sprintf("node=%d pool entry %q index=%d under key %d, which is not the adversary that sent it", a.ID, bs.Signature, bs.Index, h.w.Ord(bs.ValidatorHex())))
			}
		}
	}
	sort.Strings(removed)
	if pan != "" {
		h.actions["c09-sigpool-panic"]++
		if !s.panicSeen {
			s.panicSeen = true
			h.w.Violation("C09", "panic-on-malformed-signature", fmt.Sprintf("node=%d ProcessSigPool panicked: %s; malformed pool entries=%v", a.ID, pan, removed))
		}
	} else {
		h.actions["c09-sigpool-error-abort"]++
		if !s.errSeen {
			s.errSeen = true
			fmt.Fprintf(h.w.Out, "# C09 note: ProcessSigPool aborted with error %q; malformed pool entries=%v\n", err.Error(), removed)
		}
	}
	if len(removed) == 0 {
		if pan != "" {
			h.c09v("panic-in-sigpool-unexplained", fmt.Sprint(a.ID), fmt.Sprintf("node=%d %s", a.ID, pan))
			return fmt.Errorf("panic: %s", pan)
		}
		return err
	}
	for tries := 0; tries < 3; tries++ {
		err, pan = safeCall(a.Core.ProcessSigPool)
		if pan == "" {
			return err
		}
	}
	h.c09v("panic-in-sigpool-unexplained", fmt.Sprint(a.ID), fmt.Sprintf("node=%d after cleanup: %s", a.ID, pan))
	return fmt.Errorf("panic: %s", pan)
}

// effectiveRound: first round of b's validator-set table that contains key ord
func (h *hist) effectiveRound(b *hx.Node, ord int) (int, bool) {
	all, _ := b.Store.GetAllPeerSets()
	best, ok := 0, false
	for r, ps := range all {
		for _, p := range ps {
			if h.w.Ord(p.PubKeyHex) == ord && (!ok || r < best) {
				best, ok = r, true
			}
		}
	}
	return best, ok
}

// advHomes: nodes on whose head the adversary can build its next event right now
func (h *hist) advHomes(adv *adversary) []*hx.Node {
	homes := []*hx.Node{}
	id := h.w.Peers[adv.ord].ID()
	for _, nd := range h.nodes {
		if nd.Silent || nd.Core == nil || nd.Faulty {
			continue
		}
		if _, ok := nd.Store.RepertoireByID()[id]; !ok {
			continue
		}
		if adv.head != "" {
			if _, err := nd.Store.GetEvent(adv.head); err != nil {
				continue
			}
		}
		if !adv.genesis {
			e, ok := h.effectiveRound(nd, adv.ord)
			if !ok || (nd.Store.LastRound() < e && !adv.impatient) {
				continue
			}
		}
		homes = append(homes, nd)
	}
	return homes
}

// advJoin: the second adversarial key Y asks to join (through a real node); no core is ever
// created for it.
func (h *hist) advJoin() {
	s := h.c9()
	live := []*hx.Node{}
	for _, nd := range h.nodes {
		if !nd.Silent && nd.Core != nil {
			live = append(live, nd)
		}
	}
	if len(live) == 0 {
		return
	}
	a := live[h.rng.Intn(len(live))]
	o := h.w.AddKey()
	p := h.w.Peers[o]
	itx := hg.NewInternalTransactionJoin(*peers.NewPeer(p.PubKeyHex, p.NetAddr, p.Moniker))
	itx.Sign(h.w.Privs[o])
	a.Core.AddInternalTransaction(itx)
	adv := &adversary{ord: o, seq: -1, validCache: map[string]string{}, impatient: h.rng.Intn(2) == 0}
	s.advs = append(s.advs, adv)
	s.advKeys[o] = adv
	h.actions["c09-adv-join-request"]++
}

func (h *hist) advStep() {
	s := h.c9()
	rng := h.rng
	if h.cfg.dyn && len(s.advs) == 1 && rng.Intn(8) == 0 {
		h.advJoin()
	}
	type cand struct {
		adv   *adversary
		homes []*hx.Node
	}
	cands := []cand{}
	for _, adv := range s.advs {
		if homes := h.advHomes(adv); len(homes) > 0 {
			cands = append(cands, cand{adv, homes})
		}
	}
	if len(cands) == 0 {
		h.actions["c09-adv-no-home"]++
		return
	}
	c := cands[rng.Intn(len(cands))]
	b := c.homes[rng.Intn(len(c.homes))]
	if rng.Intn(12) == 0 {
		h.advForgedValidator(c.adv, b)
		return
	}
	h.advEvent(c.adv, b)
}

// refNode: the non-silent node that delivered the most blocks (source of block bodies to sign)
func (h *hist) refNode(b *hx.Node) *hx.Node {
	ref := b
	for _, nd := range h.nodes {
		if !nd.Silent && !nd.Faulty && !nd.WasReset && len(nd.Final) > len(ref.Final) {
			ref = nd
		}
	}
	return ref
}

func (h *hist) signHash(adv *adversary, hash []byte) string {
	r, s, _ := keys.Sign(h.w.Privs[adv.ord], hash)
	return keys.EncodeSignature(r, s)
}

// validSig: the adversary's correct signature over the body of block idx, one fixed string per
// block (sometimes a non-canonical but equivalent encoding of the two integers).
func (h *hist) validSig(adv *adversary, idx int, hash []byte, reencode bool) string {
	k := fmt.Sprintf("%d/%X", idx, hash)
	if v, ok := adv.validCache[k]; ok {
		return v
	}
	v := h.signHash(adv, hash)
	if reencode {
		parts := strings.Split(v, "|")
		switch h.rng.Intn(3) {
		case 0:
			v = strings.ToUpper(v)
		case 1:
			v = "0" + parts[0] + "|00" + parts[1]
		default:
			v = "+" + parts[0] + "|" + parts[1]
		}
		h.actions["c09-adv-valid-reencoded"]++
	}
	adv.validCache[k] = v
	return v
}

func recent(rngIntn func(int) int, l []*hg.Block) *hg.Block {
	if len(l) > 4 && rngIntn(2) == 0 {
		l = l[len(l)-4:]
	}
	return l[rngIntn(len(l))]
}

// advPayload draws the BlockSignatures payload of one adversarial event.
func (h *hist) advPayload(adv *adversary, b *hx.Node) ([]hg.BlockSignature, []advSig) {
	rng := h.rng
	ref := h.refNode(b)
	D := ref.Final
	table := h.replayTable(ref)
	pub := h.advPub(adv)
	members, strangers := []*hg.Block{}, []*hg.Block{}
	for _, blk := range D {
		if memberOrd(lookup(table, blk.RoundReceived()), adv.ord) {
			members = append(members, blk)
		} else {
			strangers = append(strangers, blk)
		}
	}
	foreignKind := "foreign-removed"
	if !adv.genesis {
		foreignKind = "foreign-not-yet-effective"
	}
	n := 0
	if rng.Intn(5) > 0 {
		n = 1 + rng.Intn(3)
	}
	sigs := []hg.BlockSignature{}
	entries := []advSig{}
	add := func(kind string, recordable bool, idx int, sig string) {
		sigs = append(sigs, hg.BlockSignature{Validator: pub, Index: idx, Signature: sig})
		entries = append(entries, advSig{kind: kind, recordable: recordable, ord: adv.ord, index: idx, sig: sig})
	}
	bodyHash := func(blk *hg.Block) []byte {
		hsh, _ := blk.Body.Hash()
		return hsh
	}
	last := -1
	if len(D) > 0 {
		last = D[len(D)-1].Index()
	}
	for i := 0; i < n; i++ {
		kinds := []string{"future", "future", "malformed", "malformed"}
		if len(D) > 0 {
			kinds = append(kinds, "valid", "valid", "valid", "other-body", "other-body", "wrong-index", "wrong-index", "stolen")
			if len(strangers) > 0 {
				kinds = append(kinds, "foreign", "foreign", "foreign", "foreign")
			}
		}
		if len(adv.history) > 0 {
			kinds = append(kinds, "duplicate")
		}
		kind := kinds[rng.Intn(len(kinds))]
		switch kind {
		case "valid", "foreign":
			pool := members
			if kind == "foreign" || len(pool) == 0 {
				pool = strangers
			}
			if kind == "foreign" && len(strangers) == 0 {
				pool = members
			}
			blk := recent(rng.Intn, pool)
			isMember := memberOrd(lookup(table, blk.RoundReceived()), adv.ord)
			label := "valid"
			if !isMember {
				label = foreignKind
			}
			add(label, isMember, blk.Index(), h.validSig(adv, blk.Index(), bodyHash(blk), rng.Intn(4) == 0))
		case "other-body":
			blk := recent(rng.Intn, D)
			mut := sha256.Sum256(append(append([]byte{}, bodyHash(blk)...), byte(rng.Intn(256))))
			add("other-body", false, blk.Index(), h.signHash(adv, mut[:]))
		case "wrong-index":
			blk := recent(rng.Intn, D)
			j := blk.Index() + 1 + rng.Intn(3)
			if len(D) > 1 && rng.Intn(2) == 0 {
				for j = D[rng.Intn(len(D))].Index(); j == blk.Index(); j = D[rng.Intn(len(D))].Index() {
				}
			}
			add("wrong-index", false, j, h.validSig(adv, blk.Index(), bodyHash(blk), false))
		case "future":
			idx := last + 1 + rng.Intn(3)
			label := "future"
			switch rng.Intn(3) {
			case 0:
				idx = last + 1000 + rng.Intn(100000)
			case 1:
				idx = -1 - rng.Intn(5)
				label = "unknown-index"
			}
			rnd := make([]byte, 32)
			rng.Read(rnd)
			add(label, false, idx, h.signHash(adv, rnd))
		case "malformed":
			idx := 0
			if len(D) > 0 {
				idx = recent(rng.Intn, D).Index()
			}
			add("malformed", false, idx, malformedSigs[rng.Intn(len(malformedSigs))])
		case "stolen":
			// another validator's recorded signature, re-sent inside the adversary's event
			blk := recent(rng.Intn, D)
			ks := []string{}
			for k := range blk.Signatures {
				if h.c9().advKeys[h.w.Ord(k)] == nil {
					ks = append(ks, k)
				}
			}
			if len(ks) == 0 {
				mut := sha256.Sum256(bodyHash(blk))
				add("other-body", false, blk.Index(), h.signHash(adv, mut[:]))
				break
			}
			sort.Strings(ks)
			add("stolen", false, blk.Index(), blk.Signatures[ks[rng.Intn(len(ks))]])
		case "duplicate":
			e := adv.history[rng.Intn(len(adv.history))]
			add("duplicate", e.recordable, e.index, e.sig)
			add("duplicate", e.recordable, e.index, e.sig)
		}
	}
	return sigs, entries
}

// parents and wire coordinates of the adversary's next event on top of b's head
func (h *hist) advParents(adv *adversary, b *hx.Node) (op string, opCreator uint32, opIndex int, ok bool) {
	op = b.Core.Head()
	opIndex = -1
	if op != "" {
		oe, err := b.Store.GetEvent(op)
		if err != nil {
			return "", 0, -1, false
		}
		oc := h.w.Ord(oe.Creator())
		if oc < 0 {
			return "", 0, -1, false
		}
		opCreator, opIndex = h.w.Peers[oc].ID(), oe.Index()
	}
	return op, opCreator, opIndex, true
}

func (h *hist) advEvent(adv *adversary, b *hx.Node) {
	w, s, rng := h.w, h.c9(), h.rng
	op, opCreator, opIndex, ok := h.advParents(adv, b)
	if !ok {
		return
	}
	premature := false
	if e, ok := h.effectiveRound(b, adv.ord); ok && !adv.genesis && b.Store.LastRound() < e {
		premature = true
	}
	sigs, entries := h.advPayload(adv, b)
	var itxs []hg.InternalTransaction
	if adv.wantsLeave && !adv.leaveSent && adv.seq >= 0 && rng.Intn(4) == 0 {
		p := w.Peers[adv.ord]
		itx := hg.NewInternalTransactionLeave(*peers.NewPeer(p.PubKeyHex, p.NetAddr, p.Moniker))
		itx.Sign(w.Privs[adv.ord])
		itxs = append(itxs, itx)
	}
	ev := hg.NewEvent(nil, itxs, sigs, []string{adv.head, op}, h.advPub(adv), adv.seq+1)
	// C18: the adversary also lies about the time (extreme and absurd claimed timestamps); the block timestamp is the median
	// of the famous witnesses' claimed times and must stay within the honest witnesses' range
	switch h.rng.Intn(8) {
	case 0:
		ev.Body.Timestamp = math.MinInt64
	case 1:
		ev.Body.Timestamp = math.MaxInt64
	case 2:
		ev.Body.Timestamp = -1
	case 3:
		ev.Body.Timestamp = 0
	case 4:
		ev.Body.Timestamp = 1
	case 5:
		ev.Body.Timestamp = math.MaxInt64/3*2 + int64(h.rng.Intn(1000))
	}
	h.byzTime[ev.Hex()] = true
	ev.Sign(w.Privs[adv.ord])
	ev.SetWireInfo(adv.seq, opCreator, opIndex, w.Peers[adv.ord].ID())
	wev := ev.ToWire()
	h.actions["c09-adv-events-built"]++
	for _, e := range entries {
		e := e
		if _, dup := s.sent[sentKey(e.ord, e.index, e.sig)]; !dup {
			s.sent[sentKey(e.ord, e.index, e.sig)] = &e
		}
	}
	if !h.advDeliver(b, adv, wev, ev, entries, true) {
		h.actions["c09-adv-home-rejected"]++
		return
	}
	// the event exists: X's chain advances, its payload is on record
	adv.head, adv.seq = ev.Hex(), adv.seq+1
	if len(itxs) > 0 {
		adv.leaveSent = true
		h.actions["c09-adv-leave-request"]++
	}
	h.actions["c09-adv-events"]++
	if adv.genesis {
		h.actions["c09-adv-events-by-X"]++
	} else {
		h.actions["c09-adv-events-by-Y"]++
		if premature {
			h.actions["c09-adv-events-by-Y-premature"]++
		}
	}
	for _, e := range entries {
		adv.history = append(adv.history, e)
		h.actions["c09-adv-sigs"]++
		h.actions["c09-adv-kind-"+e.kind]++
	}
	h.advCheckRecorded(b, adv, entries)
	for _, nd := range h.nodes {
		if nd == b || nd.Silent || nd.Core == nil || nd.Faulty {
			continue
		}
		if h.advDeliver(nd, adv, wev, ev, entries, false) {
			h.advCheckRecorded(nd, adv, entries)
		}
	}
}

// advDeliver: one node receives the adversary's event as a sync from the adversary.
func (h *hist) advDeliver(a *hx.Node, adv *adversary, wev hg.WireEvent, ev *hg.Event, entries []advSig, home bool) bool {
	from := h.w.Peers[adv.ord].ID()
	err, pan := safeCall(func() error { return a.Core.Sync(from, []hg.WireEvent{wev}) })
	if pan != "" {
		h.c09v("panic-in-sync", fmt.Sprint(a.ID), fmt.Sprintf("node=%d %s", a.ID, pan))
	}
	ran := false
	if pan == "" && (err == nil || hg.IsNormalSelfParentError(err)) {
		if perr := h.processSigPool(a); perr != nil {
			h.actions["sigpool-error"]++
		}
		ran = true
	}
	_, gerr := a.Store.GetEvent(ev.Hex())
	accepted := err == nil && pan == "" && gerr == nil
	if err == nil && gerr != nil {
		h.c09v("wire-event-hash-differs", fmt.Sprint(a.ID), fmt.Sprintf("node=%d accepted the wire event under another hash", a.ID))
	}
	if accepted {
		h.actions["c09-adv-inserts"]++
		for _, e := range entries {
			if !e.recordable {
				h.actions["c09-adv-nonvalid-pooled"]++
			} else {
				h.actions["c09-adv-valid-pooled"]++
			}
		}
	} else {
		h.actions["c09-adv-insert-deferred"]++
	}
	if accepted || ran || pan != "" {
		h.after(a, ran)
	} // else: the sync was refused before anything was inserted (a parent is not known yet)
	return accepted
}

// advCheckRecorded (completeness, not part of the C09 statement but what makes the stream
// meaningful): a valid signature of a validator of the block's round, delivered to a node that has
// the block with that body, is on the block after ProcessSigPool.
func (h *hist) advCheckRecorded(a *hx.Node, adv *adversary, entries []advSig) {
	lastOf := map[int]advSig{}
	for _, e := range entries {
		lastOf[e.index] = e
	}
	pub := h.advPub(adv)
	key := fmt.Sprintf("0X%X", pub)
	table := h.replayTable(a)
	for idx, e := range lastOf {
		if !e.recordable || idx >= len(a.Final) || idx < 0 {
			continue
		}
		blk, err := a.Store.GetBlock(idx)
		if err != nil || !memberOrd(lookup(table, blk.RoundReceived()), adv.ord) {
			continue
		}
		hash, _ := blk.Body.Hash()
		if !h.c09verify(pub, hash, e.sig) {
			continue
		}
		h.actions["c09-adv-valid-due"]++
		if got, ok := blk.Signatures[key]; !ok || !h.c09verify(pub, hash, got) {
			h.c09v("valid-signature-not-recorded", fmt.Sprintf("%d/%d/%d", a.ID, idx, adv.ord), fmt.Sprintf("node=%d block=%d signer=%d", a.ID, idx, adv.ord))
		}
	}
}

// advForgedValidator: an event of the adversary whose BlockSignature names ANOTHER validator as
// signer and carries that validator's genuine signature. Over the wire the validator field does
// not travel: the receiver rebuilds it from the event creator, the event hash changes and the
// event signature no longer verifies, so the event must be refused.
func (h *hist) advForgedValidator(adv *adversary, b *hx.Node) {
	w := h.w
	var victim []byte
	vidx, vsig := 0, ""
	for i := len(b.Final) - 1; i >= 0 && victim == nil; i-- {
		ks := []string{}
		for k := range b.Final[i].Signatures {
			ks = append(ks, k)
		}
		sort.Strings(ks)
		for _, k := range ks {
			if h.c9().advKeys[w.Ord(k)] == nil && decodeKey(k) != nil {
				victim, vidx, vsig = decodeKey(k), b.Final[i].Index(), b.Final[i].Signatures[k]
				break
			}
		}
	}
	if victim == nil {
		return
	}
	op, opCreator, opIndex, ok := h.advParents(adv, b)
	if !ok {
		return
	}
	ev := hg.NewEvent(nil, nil, []hg.BlockSignature{{Validator: victim, Index: vidx, Signature: vsig}}, []string{adv.head, op}, h.advPub(adv), adv.seq+1)
	ev.Sign(w.Privs[adv.ord])
	ev.SetWireInfo(adv.seq, opCreator, opIndex, w.Peers[adv.ord].ID())
	wev := ev.ToWire()
	from := w.Peers[adv.ord].ID()
	err, pan := safeCall(func() error { return b.Core.Sync(from, []hg.WireEvent{wev}) })
	h.actions["c09-adv-forged-validator-events"]++
	if pan != "" {
		h.c09v("panic-in-sync", fmt.Sprint(b.ID), fmt.Sprintf("node=%d %s", b.ID, pan))
	}
	now, _ := b.Store.ParticipantEvent(w.Peers[adv.ord].PubKeyString(), adv.seq+1)
	if err == nil && pan == "" || now != "" {
		// the node took it: whatever it recorded is judged by the oracle; keep X's chain consistent
		h.w.Violation("C09", "forged-validator-field-accepted", fmt.Sprintf("node=%d event of key %d naming key %d as signer of block %d was accepted", b.ID, adv.ord, w.Ord(fmt.Sprintf("0X%X", victim)), vidx))
		if now != "" {
			adv.head, adv.seq = now, adv.seq+1
		}
		h.processSigPool(b)
		h.after(b, true)
		return
	}
	h.actions["c09-adv-forged-validator-rejected"]++
	h.after(b, false)
}
