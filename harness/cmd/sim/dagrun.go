package main

// C03: the global DAG of a history is re-fed to fresh bare Hashgraphs under different insertion
// orders, downward-closed cuts, stores, cache sizes and batchings of the consensus passes; the
// projected observables of the runs are compared with each other (oracle) and every per-event run
// is replayed on the model.

import (
	"fmt"
	"math/rand"
	"os"
	"sort"
	"strings"
	"time"

	hg "github.com/mosaicnetworks/babble/src/hashgraph"
	"verifharness/hx"
)

type runObs struct {
	name    string
	ev      map[int][3]int // eid -> round, lamport, rr (-1 = unset)
	wit     map[int]int    // eid -> 1 witness / 0
	fame    map[int]int    // eid -> 0 undecided-in-undecided-round, 1 famous, 2 not famous (projected)
	blocks  []string
	nEvents int
	fd      map[int]string // eid -> first-descendant coordinates
}

func copyEvent(ev *hg.Event) *hg.Event {
	return &hg.Event{Body: ev.Body, Signature: ev.Signature}
}

func randomTopo(rng *rand.Rand, w *hx.World, ids []int, lateCreator int) []int {
	in := map[int]bool{}
	for _, id := range ids {
		in[id] = true
	}
	done := map[int]bool{}
	out := []int{}
	remaining := append([]int{}, ids...)
	for len(remaining) > 0 {
		ready := []int{}
		for _, id := range remaining {
			ev := w.EvByEid[id]
			ok := true
			for _, p := range []string{ev.SelfParent(), ev.OtherParent()} {
				if p == "" {
					continue
				}
				pid := w.Eid(p)
				if in[pid] && !done[pid] {
					ok = false
				}
			}
			if ok {
				ready = append(ready, id)
			}
		}
		// "late" events (one creator's events in delayed mode) are taken only when nothing else is ready:
		// they arrive as late as the DAG allows (just before their first child, or at the very end)
		pick := ready[rng.Intn(len(ready))]
		if lateCreator >= 0 {
			early := []int{}
			for _, id := range ready {
				if w.Ord(w.EvByEid[id].Creator()) != lateCreator {
					early = append(early, id)
				}
			}
			if len(early) > 0 {
				pick = early[rng.Intn(len(early))]
			}
		}
		done[pick] = true
		out = append(out, pick)
		nr := remaining[:0]
		for _, id := range remaining {
			if id != pick {
				nr = append(nr, id)
			}
		}
		remaining = nr
	}
	return out
}

// feed inserts the events (fresh copies) in the given order; batch = number of insertions between
// consensus passes (1 = InsertEventAndRunConsensus, 0 = one pass at the very end)
func (h *hist) feed(name string, id int, order []int, store hg.Store, batch int, modelled bool) *runObs {
	w := h.w
	nd := w.NewBareNode(id, h.genesis, store)
	small := strings.HasPrefix(name, "badger-small")
	if small {
		// a cache smaller than the DAG: the node is not replayed on the model (memory-only fields of evicted events are
		// gone by construction); a consensus pass that fails below the supported cache window ends the run (statistic)
		nd.NoDump = true
		modelled = false
		fmt.Fprintf(w.Out, "F %d\n", id)
	}
	passes := func() error {
		if err := nd.Hg.DivideRounds(); err != nil {
			return err
		}
		if err := nd.Hg.DecideFame(); err != nil {
			return err
		}
		if err := nd.Hg.DecideRoundReceived(); err != nil {
			return err
		}
		return nd.Hg.ProcessDecidedRounds()
	}
	feedStart := time.Now()
	for i, eid := range order {
		ev := copyEvent(w.EvByEid[eid])
		var err error
		if batch == 1 {
			if modelled {
				fmt.Fprintf(w.Out, "I %d %s => ok\n", id, w.EventLine(ev))
			}
			err = nd.Hg.InsertEventAndRunConsensus(ev, true)
		} else {
			fmt.Fprintf(w.Out, "J %d %s => ok\n", id, w.EventLine(ev))
			err = nd.Hg.InsertEvent(ev, true)
			if err == nil && batch > 1 && (i+1)%batch == 0 {
				fmt.Fprintf(w.Out, "P %d\n", id)
				err = passes()
			}
		}
		if err == nil && small && time.Since(feedStart) > 40*time.Second {
			// far below the working set the memoisation of round() is lost and a pass takes exponential time: same treatment
			err = fmt.Errorf("small-cache run abandoned after %v", time.Since(feedStart).Round(time.Second))
			h.actions["dag-small-cache-abandoned-slow"]++
		}
		if err != nil && small {
			h.actions["dag-small-cache-below-window"]++
			fmt.Fprintf(w.Out, "# run %s stopped after %d of %d events: %v\n", name, i, len(order), err)
			order = order[:i]
			break
		}
		if err != nil {
			w.Violation("C03", "replay-insertion-failed", fmt.Sprintf("run=%s eid=%d err=%v", name, eid, err))
			break
		}
		nd.NoteInserted(ev)
	}
	if batch != 1 {
		fmt.Fprintf(w.Out, "P %d\n", id)
		if err := passes(); err != nil {
			fmt.Fprintf(w.Out, "# batch run %s: final pass error %v\n", name, err)
			fmt.Fprintf(w.Out, "F %d\n", id)
		}
	}
	nd.AfterActionX(false, false)
	o := &runObs{name: name, ev: map[int][3]int{}, wit: map[int]int{}, fame: map[int]int{}, nEvents: len(order), fd: map[int]string{}}
	for _, eid := range order {
		ev, err := store.GetEvent(w.EvByEid[eid].Hex())
		if err != nil {
			continue
		}
		r, rok := ev.VerifRound()
		lt, lok := ev.VerifLamport()
		rr, rrok := ev.VerifRoundReceived()
		if !rok {
			r = -1
		}
		if !lok {
			lt = -1
		}
		if !rrok {
			rr = -1
		}
		o.ev[eid] = [3]int{r, lt, rr}
		o.fd[eid] = hx.CoordsStr(w, ev.VerifFirstDescendants())
	}
	for r := 0; r <= store.LastRound(); r++ {
		ri, err := store.GetRound(r)
		if err != nil {
			continue
		}
		decided := ri.VerifDecided()
		for x, re := range ri.CreatedEvents {
			eid := w.Eid(x)
			o.wit[eid] = 0
			if re.Witness {
				o.wit[eid] = 1
				switch {
				case int(re.Famous) == 1:
					o.fame[eid] = 1
				case int(re.Famous) == 2 || decided:
					o.fame[eid] = 2 // decided false, or late witness of a decided round
				default:
					o.fame[eid] = 0
				}
			}
		}
	}
	for i := 0; i <= store.LastBlockIndex(); i++ {
		b, err := store.GetBlock(i)
		if err != nil {
			continue
		}
		o.blocks = append(o.blocks, nd.BlockBodyStr(b, false)+fmt.Sprintf(" FH %X", b.FrameHash()))
	}
	return o
}

// compare: b is a run over a downward-closed subset (or the same set) of a's events.
// Staged: rounds/witness first (a difference there explains everything downstream), then Lamport
// timestamps, fame, round-received, blocks.
func (h *hist) compare(a, b *runObs, class string) {
	w := h.w
	eids := []int{}
	for eid := range b.ev {
		if _, ok := a.ev[eid]; ok {
			eids = append(eids, eid)
		}
	}
	sort.Ints(eids)
	if class == "batching" {
		// root cause of the known finding: first-descendant coordinates differ between per-event and
		// batched insertion. With equal coordinates any difference is a different defect.
		for _, eid := range eids {
			if a.fd[eid] != b.fd[eid] {
				w.Violation("C03", "batching:coords", fmt.Sprintf("%s vs %s eid=%d [%s] [%s]", a.name, b.name, eid, a.fd[eid], b.fd[eid]))
				return
			}
		}
		class = "batching-equal-coords"
	}
	for _, eid := range eids {
		va, vb := a.ev[eid], b.ev[eid]
		if va[0] >= 0 && vb[0] >= 0 && va[0] != vb[0] {
			w.Violation("C03", class+":round", fmt.Sprintf("%s vs %s eid=%d %d/%d", a.name, b.name, eid, va[0], vb[0]))
			return
		}
		if wa, ok := a.wit[eid]; ok {
			if wb, ok2 := b.wit[eid]; ok2 && wa != wb {
				w.Violation("C03", class+":witness", fmt.Sprintf("%s vs %s eid=%d", a.name, b.name, eid))
				return
			}
		}
	}
	for _, eid := range eids {
		va, vb := a.ev[eid], b.ev[eid]
		if va[1] >= 0 && vb[1] >= 0 && va[1] != vb[1] {
			w.Violation("C03", class+":lamport", fmt.Sprintf("%s vs %s eid=%d", a.name, b.name, eid))
			return
		}
	}
	for _, eid := range eids {
		fa, fb := a.fame[eid], b.fame[eid]
		if fa != 0 && fb != 0 && fa != fb {
			w.Violation("C03", class+":fame", fmt.Sprintf("%s vs %s eid=%d %d/%d", a.name, b.name, eid, fa, fb))
			return
		}
	}
	for _, eid := range eids {
		va, vb := a.ev[eid], b.ev[eid]
		if va[2] >= 0 && vb[2] >= 0 && va[2] != vb[2] {
			w.Violation("C03", class+":round-received", fmt.Sprintf("%s vs %s eid=%d %d/%d", a.name, b.name, eid, va[2], vb[2]))
			return
		}
	}
	n := len(b.blocks)
	if len(a.blocks) < n {
		if a.nEvents >= b.nEvents {
			w.Violation("C03", class+":fewer-blocks", fmt.Sprintf("%s has %d blocks, %s has %d", a.name, len(a.blocks), b.name, len(b.blocks)))
		}
		n = len(a.blocks)
	}
	for i := 0; i < n; i++ {
		if a.blocks[i] != b.blocks[i] {
			w.Violation("C03", class+":block", fmt.Sprintf("%s vs %s index=%d [%s] [%s]", a.name, b.name, i, a.blocks[i], b.blocks[i]))
			return
		}
	}
	if a.nEvents == b.nEvents && len(a.blocks) != len(b.blocks) {
		w.Violation("C03", class+":block-count", fmt.Sprintf("%s %d vs %s %d", a.name, len(a.blocks), b.name, len(b.blocks)))
	}
}

func (h *hist) dagrun(thorough bool) {
	w := h.w
	rng := h.rng
	ids := []int{}
	for id := range w.EvByEid {
		ids = append(ids, id)
	}
	sort.Ints(ids)
	if len(ids) == 0 {
		return
	}
	next := 1000
	nid := func() int { next++; return next }
	big := len(ids) + 50
	ref := h.feed("ref-eid-order", nid(), ids, hg.NewInmemStore(big), 1, true)
	norders := 3
	if thorough {
		norders = 6
	}
	for k := 0; k < norders; k++ {
		late := -1
		if k%2 == 1 {
			late = h.genesis[rng.Intn(len(h.genesis))]
		}
		o := h.feed(fmt.Sprintf("order%d-late%d", k, late), nid(), randomTopo(rng, w, ids, late), hg.NewInmemStore(big), 1, true)
		h.compare(ref, o, "insertion-order")
		h.actions["dag-order-runs"]++
	}
	for k := 0; k < 3; k++ {
		full := randomTopo(rng, w, ids, -1)
		cut := full[:1+rng.Intn(len(full))]
		o := h.feed(fmt.Sprintf("cut%d", k), nid(), cut, hg.NewInmemStore(big), 1, true)
		h.compare(ref, o, "downward-closed-prefix")
		h.actions["dag-cut-runs"]++
	}
	// Badger store, default-like cache and a cache just above the number of events
	for _, cs := range []int{big, 10000} {
		dir, _ := os.MkdirTemp("", "verif-dagrun")
		bs, err := hg.NewBadgerStore(cs, dir, false, hx.QuietLogger())
		if err == nil {
			o := h.feed(fmt.Sprintf("badger-cache%d", cs), nid(), ids, bs, 1, true)
			h.compare(ref, o, "store-type")
			bs.Close()
			h.actions["dag-badger-runs"]++
		}
		os.RemoveAll(dir)
	}
	// Badger store with a cache SMALLER than the DAG (evicted events are re-read from the database: only what is persisted
	// survives); compared as a prefix when a pass failed below the supported cache window
	smallSizes := []int{}
	if len(ids) >= 150 {
		smallSizes = append(smallSizes, 100)
	}
	// ... and with an ODD cache size below the number of events per creator: the per-participant index windows
	// (RollingIndex, size = cache size) roll over, and the halves of an odd window are not equal
	// (only when that size is still large: with a cache far below the working set the memoisation of round() is lost
	// and a pass takes exponential time)
	if per := len(ids) / len(h.genesis); per >= 80 && len(h.genesis) <= 3 {
		cs := (4 * per / 5) | 1
		smallSizes = append(smallSizes, cs)
		h.actions["dag-badger-odd-cache-runs"]++
	}
	for _, cs := range smallSizes {
		dir, _ := os.MkdirTemp("", "verif-dagrun")
		bs, err := hg.NewBadgerStore(cs, dir, false, hx.QuietLogger())
		if err == nil {
			o := h.feed(fmt.Sprintf("badger-small-cache%d", cs), nid(), ids, bs, 1, false)
			h.compare(ref, o, "store-cache-size")
			bs.Close()
			h.actions["dag-badger-small-cache-runs"]++
		}
		os.RemoveAll(dir)
	}
	// batchings of the consensus passes (static validator set only; not on the directed -split DAGs: every
	// difference there is the known batching finding and the undecided rounds make it near certain)
	if !h.cfg.dyn && !h.cfg.split {
		for _, b := range []int{2, 3, 5, 7, 11, 0} {
			o := h.feed(fmt.Sprintf("batch%d", b), nid(), ids, hg.NewInmemStore(big), b, false)
			before := w.Violations
			h.compare(ref, o, "batching")
			if w.Violations > before {
				h.actions["dag-batching-differs"]++
			}
			h.actions["dag-batch-runs"]++
		}
	}
	_ = strings.Join
}

// findBatchWitness: shortest prefix (in eid order) on which per-event passes and a single final
// pass disagree on some event's round; printed as a Coq event list (for C03_batching_refuted).
func (h *hist) findBatchWitness() {
	w := h.w
	ids := []int{}
	for id := range w.EvByEid {
		ids = append(ids, id)
	}
	sort.Ints(ids)
	save := w.Out
	lo, hi := 1, len(ids)
	differs := func(n int) bool {
		sub := ids[:n]
		a := h.feed("w-ref", 5000+2*n, sub, hg.NewInmemStore(len(ids)+50), 1, false)
		for _, bt := range []int{0, 2, 3} {
			b := h.feed("w-batch", 5001+2*n, sub, hg.NewInmemStore(len(ids)+50), bt, false)
			for eid, va := range a.ev {
				if vb, ok := b.ev[eid]; ok && va[0] >= 0 && vb[0] >= 0 && va[0] != vb[0] {
					h.witnessBatch = bt
					return true
				}
			}
		}
		return false
	}
	if !differs(hi) {
		return
	}
	for lo < hi {
		mid := (lo + hi) / 2
		if differs(mid) {
			hi = mid
		} else {
			lo = mid + 1
		}
	}
	w.Out = save
	var sb strings.Builder
	for _, id := range ids[:hi] {
		ev := w.EvByEid[id]
		fmt.Fprintf(&sb, "bw %d %d %d (%d) (%d) %v; ", id, w.Ord(ev.Creator()), ev.Index(), w.Eid(ev.SelfParent()), w.Eid(ev.OtherParent()), hg.VerifMiddleBit(ev.Hex()))
	}
	fmt.Fprintf(w.Out, "W C03 batching-witness n=%d validators=%d batch=%d events=[%s]\n", hi, h.cfg.n, h.witnessBatch, sb.String())
}
