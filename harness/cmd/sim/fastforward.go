package main

import (
	"encoding/json"
	"fmt"
	"os"
	"sort"
	"strings"

	hg "github.com/mosaicnetworks/babble/src/hashgraph"
	"github.com/mosaicnetworks/babble/src/peers"
	"verifharness/hx"
)

// fastForward (C13): node a resets itself from the anchor block + frame of a random honest peer,
// exactly as node.fastForward does (restore the application from the snapshot, core.fastForward,
// process the anchor block's receipts), then resumes gossip.
func (h *hist) fastForward(a *hx.Node) {
	w := h.w
	cands := []*hx.Node{}
	for _, b := range h.nodes {
		if b != a && !b.Silent && !b.PendingFF && b.Hg.AnchorBlock != nil {
			cands = append(cands, b)
		}
	}
	if len(cands) == 0 {
		a.FFTries++
		if a.FFTries > 20 { // nobody can serve: replay history instead (FastSync falls back to Babbling)
			a.PendingFF = false
		}
		return
	}
	b := cands[h.rng.Intn(len(cands))]
	block, frame, err := b.Core.GetAnchorBlockWithFrame()
	if err != nil {
		h.actions["ff-serve-error"]++
		return
	}
	// through the JSON transport
	var blk hg.Block
	var frm hg.Frame
	bb, _ := json.Marshal(block)
	fb, _ := json.Marshal(frame)
	if json.Unmarshal(bb, &blk) != nil || json.Unmarshal(fb, &frm) != nil {
		w.Violation("C15", "anchor-does-not-survive-json", fmt.Sprintf("server=%d", b.ID))
		return
	}
	if os.Getenv("VERIF_FFDEBUG") != "" {
		h0, _ := frame.Hash()
		h1, _ := frm.Hash()
		if fmt.Sprintf("%X", h0) != fmt.Sprintf("%X", block.FrameHash()) || fmt.Sprintf("%X", h1) != fmt.Sprintf("%X", h0) {
			m0, _ := frame.Marshal()
			m1, _ := frm.Marshal()
			for _, o := range h.nodes {
				if ob, _, ok := o.BlockAt(block.Index()); ok && o != b {
					if of, err := o.Store.GetFrame(ob.RoundReceived()); err == nil {
						oh, _ := of.Hash()
						if fmt.Sprintf("%X", oh) == fmt.Sprintf("%X", block.FrameHash()) {
							m1, _ = of.Marshal()
							break
						}
					}
				}
			}
			fmt.Fprintf(os.Stderr, "FFDEBUG server=%d block=%d serverFrameHash==blockFrameHash:%v roundtrip-preserves:%v\nBEFORE %s\nAFTER  %s\n",
				b.ID, block.Index(), fmt.Sprintf("%X", h0) == fmt.Sprintf("%X", block.FrameHash()), fmt.Sprintf("%X", h1) == fmt.Sprintf("%X", h0), m0, m1)
		}
	}
	rline := h.resetLine(a, b, &blk, &frm)
	// who signed the anchor, and which validators the joiner has reason to trust (core.knownValidators)
	signers, known := []int{}, map[int]bool{}
	for _, bs := range blk.GetSignatures() {
		signers = append(signers, w.Ord(bs.ValidatorHex()))
	}
	sort.Ints(signers)
	for _, o := range h.genesis {
		known[o] = true
	}
	for _, ps := range []*peers.PeerSet{a.Core.Peers(), a.Core.Validators()} {
		if ps != nil {
			for _, p := range ps.Peers {
				known[w.Ord(p.PubKeyHex)] = true
			}
		}
	}
	if all, err := a.Store.GetAllPeerSets(); err == nil {
		for _, ps := range all {
			for _, p := range ps {
				known[w.Ord(p.PubKeyHex)] = true
			}
		}
	}
	knownL := []int{}
	for o := range known {
		knownL = append(knownL, o)
	}
	sort.Ints(knownL)
	if err := a.Core.FastForward(&blk, &frm); err != nil {
		// (the application is restored from the snapshot only after the check: fix 52c591c)
		// Since fix a41e4c4 an honest anchor is LEGITIMATELY refused when at most TrustCount of its signers are
		// validators the joiner already knows (Properties/C14.v C14_honest_accept_iff: adopted iff more than
		// TrustCount known signers). That is a statistic, not a violation; a refusal with enough known signers,
		// or for any other reason (e.g. Invalid Frame Hash), is one.
		knownSigners := 0
		members := map[int]bool{}
		for _, p := range frm.Peers {
			members[w.Ord(p.PubKeyHex)] = true
		}
		for _, o := range signers {
			if members[o] && known[o] {
				knownSigners++
			}
		}
		trust := peers.NewPeerSet(frm.Peers).TrustCount()
		detail := fmt.Sprintf("node=%d server=%d block=%d err=%v signers=%v frame-peers=[%s] known-to-joiner=%v known-signers=%d trust-count=%d",
			a.ID, b.ID, block.Index(), err, signers, hxPeers(w, frm.Peers), knownL, knownSigners, trust)
		if strings.Contains(err.Error(), "Not enough valid signatures") && knownSigners <= trust {
			h.actions["honest-anchor-refused-too-few-known-signers"]++
			fmt.Fprintf(w.Out, "# honest-anchor-refused-too-few-known-signers %s\n", detail)
		} else {
			w.Violation("C13", "honest-anchor-refused", detail)
		}
		a.PendingFF = false
		// the model is not told about a refused anchor (checkFastForward is C12/C14's model): the
		// node is no longer compared with it
		a.Faulty = true
		fmt.Fprintf(w.Out, "F %d\n", a.ID)
		return
	}
	// application snapshot = the server's state after the anchor block (node.fastForward restores it between
	// checkFastForward and core.fastForward; the core does not read the application)
	a.App.State = append([]byte{}, block.StateHash()...)
	if err := a.Core.ProcessAcceptedInternalTransactions(blk.RoundReceived(), blk.InternalTransactionReceipts()); err != nil {
		h.actions["ff-receipts-error"]++
	}
	a.PendingFF = false
	a.WasReset = true
	a.Base = blk.Index() + 1
	a.Faulty = true // excluded from the full-history oracles (frame / conservation); still compared with the model
	// Reset / InsertFrameEvent / fastForward are in the Coq model (Model/HgReset.v): the model victim
	// is reset from the same block + frame and compared after every action like any other node
	fmt.Fprintf(w.Out, "%s => ok\n", rline)
	h.actions["fast-forwards"]++
	h.actions["ff-frame-events"] += len(frm.Events)
	for _, r := range frm.Roots {
		h.actions["ff-root-events"] += len(r.Events)
	}
	if len(frm.PeerSets) > 1 {
		h.actions["ff-multi-peerset-frames"]++
	}
	switch n := len(frm.PeerSets); {
	case n >= 3:
		h.actions["ff-frames-with-3plus-peersets"]++ // Store.Reset ranges over a Go map: insertion order matters from 3 entries on
	case n == 2:
		h.actions["ff-frames-with-2-peersets"]++
	default:
		h.actions["ff-frames-with-1-peerset"]++
	}
	h.ffAnchorRR = append(h.ffAnchorRR, blk.RoundReceived())
	hexes := []string{}
	for _, fe := range frm.SortedFrameEvents() {
		hexes = append(hexes, fe.Core.Hex())
	}
	a.ResetTracked(hexes)
	h.after(a, false)
}

func hxPeers(w *hx.World, ps []*peers.Peer) string {
	l := []string{}
	for _, p := range ps {
		l = append(l, fmt.Sprint(w.Ord(p.PubKeyHex)))
	}
	return strings.Join(l, " ")
}

// resetLine: the anchor block and frame as RECEIVED by the victim (after the JSON transport), with the
// cores of all frame / root events, in the format read by runner/resetdrv.ml.
func (h *hist) resetLine(a, b *hx.Node, blk *hg.Block, frm *hg.Frame) string {
	w := h.w
	var sb strings.Builder
	b2i := func(x bool) int {
		if x {
			return 1
		}
		return 0
	}
	fmt.Fprintf(&sb, "R %d %d B %d %d %d %d %d T %d", a.ID, b.ID, blk.Index(), blk.RoundReceived(), blk.Timestamp(),
		w.BodyID(blk), b2i(len(blk.StateHash()) > 0), len(blk.Transactions()))
	for _, tx := range blk.Transactions() {
		fmt.Fprintf(&sb, " %d", hx.TxSerialOf(tx))
	}
	acc := map[int]bool{}
	for _, r := range blk.InternalTransactionReceipts() {
		it := r.InternalTransaction
		acc[w.ItxID(&it)] = r.Accepted
	}
	fmt.Fprintf(&sb, " X %d", len(blk.InternalTransactions()))
	for _, itx := range blk.InternalTransactions() {
		it := itx
		vok, _ := it.Verify()
		p := it.Body.Peer
		id := w.ItxID(&it)
		fmt.Fprintf(&sb, " %d %d %d %d %d %d", id, b2i(it.Body.Type == hg.PEER_ADD), p.ID(), w.Ord(p.PubKeyHex), b2i(vok), b2i(acc[id]))
	}
	type se struct{ v, o int }
	sl := []se{}
	for _, bs := range blk.GetSignatures() {
		sl = append(sl, se{w.Ord(bs.ValidatorHex()), w.SigOver(bs)})
	}
	sort.Slice(sl, func(i, j int) bool { return sl[i].v < sl[j].v })
	fmt.Fprintf(&sb, " G %d", len(sl))
	for _, s := range sl {
		fmt.Fprintf(&sb, " %d %d", s.v, s.o)
	}
	peersFull := func(ps []*peers.Peer) string {
		var pb strings.Builder
		fmt.Fprintf(&pb, "%d", len(ps))
		for _, p := range ps {
			fmt.Fprintf(&pb, " %d:%d", p.ID(), w.Ord(p.PubKeyHex))
		}
		return pb.String()
	}
	fes := func(l []*hg.FrameEvent) string {
		var fb strings.Builder
		fmt.Fprintf(&fb, "%d", len(l))
		for _, fe := range l {
			fmt.Fprintf(&fb, " %d:%d:%d:%d", w.Eid(fe.Core.Hex()), fe.Round, fe.LamportTimestamp, b2i(fe.Witness))
		}
		return fb.String()
	}
	fmt.Fprintf(&sb, " FR %d %d P %s", frm.Round, frm.Timestamp, peersFull(frm.Peers))
	rs := []int{}
	for r := range frm.PeerSets {
		rs = append(rs, r)
	}
	sort.Ints(rs)
	fmt.Fprintf(&sb, " PS %d", len(rs))
	for _, r := range rs {
		fmt.Fprintf(&sb, " %d %s", r, peersFull(frm.PeerSets[r]))
	}
	fmt.Fprintf(&sb, " EV %s", fes(frm.Events))
	ords := []int{}
	byOrd := map[int]*hg.Root{}
	for k, r := range frm.Roots {
		o := w.Ord(k)
		ords = append(ords, o)
		byOrd[o] = r
	}
	sort.Ints(ords)
	fmt.Fprintf(&sb, " ROOTS %d", len(ords))
	cores := []*hg.Event{}
	for _, o := range ords {
		fmt.Fprintf(&sb, " %d %s", o, fes(byOrd[o].Events))
		for _, fe := range byOrd[o].Events {
			cores = append(cores, fe.Core)
		}
	}
	for _, fe := range frm.Events {
		cores = append(cores, fe.Core)
	}
	fmt.Fprintf(&sb, " CORES %d", len(cores))
	for _, c := range cores {
		fmt.Fprintf(&sb, " %s", w.EventLine(c))
	}
	return sb.String()
}

// validator-set history of a reset node vs full-history nodes (C13)
func (h *hist) resetPeerSetOracle(a *hx.Node) {
	if !a.WasReset {
		return
	}
	w := h.w
	h.resetLookupOracle(a)
	mine, _ := a.Store.GetAllPeerSets()
	for _, o := range h.nodes {
		if o == a || o.WasReset {
			continue
		}
		theirs, _ := o.Store.GetAllPeerSets()
		for r, ps := range mine {
			if ops, ok := theirs[r]; ok {
				x, y := []int{}, []int{}
				for _, p := range ps {
					x = append(x, w.Ord(p.PubKeyHex))
				}
				for _, p := range ops {
					y = append(y, w.Ord(p.PubKeyHex))
				}
				if fmt.Sprint(x) != fmt.Sprint(y) {
					w.Violation("C13", "validator-set-history-differs", fmt.Sprintf("round=%d reset-node%d=%v full-node%d=%v", r, a.ID, x, o.ID, y))
					return
				}
			}
		}
	}
}

// resetLookupOracle (C13 / C10_lookup on reset nodes): Store.Reset records the frame's validator-set history by
// ranging over a Go map, i.e. in any order. Whatever the order, for EVERY round r (not only the rounds that are keys
// of the table) GetPeerSet(r) must be the entry of the node's own reported history (GetAllPeerSets) with the greatest
// round <= r (the first entry below all of them).
func (h *hist) resetLookupOracle(a *hx.Node) {
	w := h.w
	all, err := a.Store.GetAllPeerSets()
	if err != nil || len(all) == 0 {
		return
	}
	keys := []int{}
	for r := range all {
		keys = append(keys, r)
	}
	sort.Ints(keys)
	top := keys[len(keys)-1] + 3
	if lr := a.Store.LastRound() + 3; lr > top {
		top = lr
	}
	for r := 0; r <= top; r++ {
		want := keys[0]
		for _, k := range keys {
			if k <= r {
				want = k
			}
		}
		got, err := a.Store.GetPeerSet(r)
		h.actions["ff-lookup-probes"]++
		if err != nil {
			w.Violation("C13", "reset-node-peer-set-lookup-wrong", fmt.Sprintf("node=%d round=%d error=%v", a.ID, r, err))
			return
		}
		if g, e := hxPeers(w, got.Peers), hxPeers(w, all[want]); g != e {
			w.Violation("C13", "reset-node-peer-set-lookup-wrong", fmt.Sprintf("node=%d round=%d got=[%s] expected-entry-of-round-%d=[%s] table-rounds=%v", a.ID, r, g, want, e, keys))
			return
		}
	}
}

// roundDivergence (C13): a reset node assigns a different round / witness flag than a full-history
// node to an event it inserted after the reset. Root cause of the known finding "roots are not
// sufficient" (a parent-round witness the event must strongly see is not among the ROOT_DEPTH root
// events of the frame). Once seen, later block differences of that node are tagged as consequences.
func (h *hist) roundDivergence(a *hx.Node) {
	if !a.WasReset || a.RoundDiverged {
		return
	}
	w := h.w
	// root-cause detection of the known finding C13-roots-insufficient: the reset node assigns another round than a
	// full-history node to an event both hold. Every full-history node is consulted (the first one may lag behind), and
	// the detection runs BEFORE any block of the reset node is compared (after(), oracles()), so that a block difference
	// that follows from it is classified "...-after-round-divergence" whatever the interleaving.
	for _, full := range h.nodes {
		if full == a || full.WasReset || full.Core == nil {
			continue
		}
		for id, gev := range w.EvByEid {
			ev, err := a.Store.GetEvent(gev.Hex())
			if err != nil {
				continue
			}
			oe, err := full.Store.GetEvent(gev.Hex())
			if err != nil {
				continue
			}
			r, ok := ev.VerifRound()
			or, ok2 := oe.VerifRound()
			if ok && ok2 && or != r {
				a.RoundDiverged = true
				w.Violation("C13", "round-differs-after-reset", fmt.Sprintf("node=%d eid=%d reset-node-round=%d full-node%d-round=%d anchor-base=%d", a.ID, id, r, full.ID, or, a.Base))
				return
			}
		}
	}
}
